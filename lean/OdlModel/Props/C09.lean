/-
C09 — functional values, gradients and Lipschitz bounds agree with each other.
Property theorems only.  The model (`Model/Functionals.lean`) is the expression language of
`odl/solvers/functional/functional.py` with values, gradients and `grad_lipschitz` exactly
as the constructors compute them; here it is instantiated on an arbitrary real
inner-product space `E` (`eOps`), which covers `rn`, weighted `rn`, `uniform_discr` and
product spaces at once: the functional's OWN inner product is the inner product of `E`.
-/
import OdlModel.Lemmas.Functionals
import OdlModel.Lemmas.WeightedSpace
import OdlModel.Model.Prox
import OdlModel.Model.FunctionalsLeaves
import Mathlib.Analysis.SpecialFunctions.Log.Deriv
import Mathlib.Analysis.SpecialFunctions.Sqrt
import Mathlib.Analysis.InnerProductSpace.Calculus
import Mathlib.Analysis.InnerProductSpace.Adjoint
import Mathlib.Analysis.Calculus.Gradient.Basic
import Mathlib.Analysis.Calculus.FDeriv.Mul
import Mathlib.Analysis.Calculus.Deriv.Inv
import Mathlib.Analysis.Calculus.Deriv.Abs
import Mathlib.Analysis.Calculus.FDeriv.Pi
import Mathlib.Analysis.Calculus.Deriv.Pow
import Mathlib.Analysis.Calculus.Deriv.Mul
import Mathlib.Analysis.Calculus.Deriv.Add
import Mathlib.Tactic.Ring
import Mathlib.Tactic.Linarith
import Mathlib.Tactic.FieldSimp
import Mathlib.Tactic.Positivity
import Mathlib.Tactic.NormNum
import Mathlib.Algebra.Order.Group.MinMax
import Mathlib.Algebra.Order.Field.Basic

open OdlModel.Functionals OdlModel.FunctionalsR
open scoped RealInnerProductSpace
open InnerProductSpace

set_option linter.unusedSectionVars false

variable {E : Type} [NormedAddCommGroup E] [InnerProductSpace ℝ E]

/-! ### Lipschitz constants -/


/-- `FunctionalLeftScalarMult`: the gradient `s·∇f` is `|s|·L`-Lipschitz (the value the
constructor passes as `grad_lipschitz`). -/
theorem C09.lip_left_scalar {G : E → E} {L : ℝ} (s : ℝ) (h : LipOn G L) :
    LipOn (fun x => s • G x) (|s| * L) := by
  intro x y
  rw [← smul_sub, norm_smul, Real.norm_eq_abs, mul_assoc]
  exact mul_le_mul_of_nonneg_left (h x y) (abs_nonneg s)

/-- `FunctionalRightScalarMult`: the gradient `x ↦ s·∇f(s·x)` is `|s|²·L`-Lipschitz (the value
passed since 9cf3ca6; `|s|·L` is NOT a bound, see `C09.lip_right_scalar_old_fails`). -/
theorem C09.lip_right_scalar {G : E → E} {L : ℝ} (s : ℝ) (h : LipOn G L) :
    LipOn (fun x => s • G (s • x)) (|s| * |s| * L) := by
  intro x y
  have h1 := h (s • x) (s • y)
  rw [← smul_sub, norm_smul, Real.norm_eq_abs] at h1
  rw [← smul_sub, norm_smul, Real.norm_eq_abs]
  calc |s| * ‖G (s • x) - G (s • y)‖ ≤ |s| * (L * (|s| * ‖x - y‖)) :=
        mul_le_mul_of_nonneg_left h1 (abs_nonneg s)
    _ = |s| * |s| * L * ‖x - y‖ := by ring

/-- `FunctionalSum`: `L₁ + L₂`. -/
theorem C09.lip_sum {G H : E → E} {L M : ℝ} (hG : LipOn G L) (hH : LipOn H M) :
    LipOn (fun x => G x + H x) (L + M) := by
  intro x y
  have : G x + H x - (G y + H y) = (G x - G y) + (H x - H y) := by abel
  rw [this, add_mul]
  exact (norm_add_le _ _).trans (add_le_add (hG x y) (hH x y))

/-- `FunctionalTranslation`: the same constant `L`. -/
theorem C09.lip_translation {G : E → E} {L : ℝ} (t : E) (h : LipOn G L) :
    LipOn (fun x => G (x - t)) L := by
  intro x y
  have := h (x - t) (y - t)
  simpa using this

/-- `FunctionalQuadraticPerturb`: `∇f + 2a·x + u` is `(L + 2|a|)`-Lipschitz. -/
theorem C09.lip_quadratic_perturb {G : E → E} {L : ℝ} (a : ℝ) (u : E) (h : LipOn G L) :
    LipOn (fun x => G x + (2 * a) • x + u) (L + 2 * |a|) := by
  intro x y
  have : G x + (2 * a) • x + u - (G y + (2 * a) • y + u) = (G x - G y) + (2 * a) • (x - y) := by
    rw [smul_sub]; abel
  rw [this, add_mul]
  refine (norm_add_le _ _).trans (add_le_add (h x y) ?_)
  rw [norm_smul, Real.norm_eq_abs, abs_mul, abs_two]

/-- `BregmanDistance`: `∇f − q` keeps the constant `L`. -/
theorem C09.lip_sub_const {G : E → E} {L : ℝ} (q : E) (h : LipOn G L) :
    LipOn (fun x => G x - q) L := by
  intro x y
  simpa using h x y

/-- `L2NormSquared`: the gradient `2x` is 2-Lipschitz. -/
theorem C09.lip_l2sq : LipOn (fun x : E => (2 : ℝ) • x) 2 := by
  intro x y
  rw [← smul_sub, norm_smul]; simp

/-- `ConstantFunctional` / linear functionals: a constant gradient is 0-Lipschitz. -/
theorem C09.lip_const (c : E) : LipOn (fun _ : E => c) 0 := by
  intro x y; simp

/-- **Lipschitz propagation is sound for every functional expression** (all depths, every
real inner-product space, i.e. every weighting / discretisation / product structure): if the
`grad_lipschitz` that the constructors of `functional.py` compute for the expression `t` is a
finite number `L`, and the finite constants of the coordinate-wise leaves (Huber: `1/γ`) are
valid, then the coded gradient `x ↦ t.grad x` satisfies `‖∇t x − ∇t y‖ ≤ L·‖x − y‖`. -/
theorem C09.lipschitz_sound (μ : E → E → E) (cv : Builtin ℝ → E → ℝ) (cd : Builtin ℝ → E → Bool)
    (cg : Builtin ℝ → E → E)
    (hleaf : ∀ b L, Lip.eval (Fn.lip (eOps μ cv cd cg) (.coord b)) = some L → LipOn (cg b) L)
    (t : Fn E ℝ) (L : ℝ) (h : Lip.eval (t.lip (eOps μ cv cd cg)) = some L) :
    LipOn (fun x => t.grad (eOps μ cv cd cg) x) L := by
  induction t generalizing L with
  | coord b => exact hleaf b L h
  | l2sq =>
      simp [Fn.lip, Lip.ofK, Lip.eval, rootsVal, two] at h
      subst h
      have := C09.lip_l2sq (E := E)
      simpa [Fn.grad, eOps, two, one_add_one_eq_two] using this
  | const c =>
      simp [Fn.lip, Lip.ofK, Lip.eval, rootsVal] at h
      subst h
      simpa [Fn.grad, eOps] using C09.lip_const (0 : E)
  | indZero c => simp [Fn.lip, Lip.eval] at h
  | lin b c => simp [Fn.lip, Lip.eval] at h
  | quad A At Ainv AinvT hasB b c => simp [Fn.lip, Lip.eval] at h
  | lscal s f ih =>
      obtain ⟨La, hLa, rfl⟩ := Lip.eval_scale h
      rw [absK_eq_abs]
      exact C09.lip_left_scalar s (ih La hLa)
  | rscal f s ih =>
      obtain ⟨La, hLa, rfl⟩ := Lip.eval_scale h
      rw [absK_eq_abs]
      exact C09.lip_right_scalar s (ih La hLa)
  | rvec f v vinv ih => simp [Fn.lip, Lip.eval] at h
  | sum f g ihf ihg =>
      obtain ⟨La, Lb, hLa, hLb, rfl⟩ := Lip.eval_add h
      exact C09.lip_sum (ihf La hLa) (ihg Lb hLb)
  | ssum f c ih =>
      obtain ⟨La, Lb, hLa, hLb, rfl⟩ := Lip.eval_add h
      simp [Lip.ofK, Lip.eval, rootsVal] at hLb
      subst hLb
      have := ih La hLa
      simpa [Fn.grad, eOps] using this
  | trans f t ih => exact C09.lip_translation t (ih L h)
  | qp f a hasU u c ih =>
      obtain ⟨La, Lb, hLa, hLb, rfl⟩ := Lip.eval_add h
      simp [Lip.ofK, Lip.eval, rootsVal, two, absK_eq_abs] at hLb
      subst hLb
      have key : ∃ L0, Lip.eval (f.lip (eOps μ cv cd cg)) = some L0 ∧ L0 ≤ La := by
        by_cases hu : hasU = true
        · simp only [hu, if_true] at hLa
          obtain ⟨L0, Lu, hL0, hLu, rfl⟩ := Lip.eval_add hLa
          refine ⟨L0, hL0, ?_⟩
          simp [Lip.norm, Lip.eval, rootsVal] at hLu
          subst hLu
          have := Real.sqrt_nonneg ((eOps μ cv cd cg).inner u u)
          linarith
        · simp only [hu] at hLa
          exact ⟨La, by simpa using hLa, le_refl _⟩
      obtain ⟨L0, hL0, hle⟩ := key
      have := C09.lip_quadratic_perturb a u ((ih L0 hL0).mono hle)
      simpa [Fn.grad, eOps, two, one_add_one_eq_two] using this
  | prod f g _ _ => simp [Fn.lip, Lip.eval] at h
  | quot f g _ _ => simp [Fn.lip, Lip.eval] at h
  | comp f op dAdj opLin _ => simp [Fn.lip, Lip.eval] at h
  | breg f p q ih =>
      obtain ⟨La, Lb, hLa, hLb, rfl⟩ := Lip.eval_add h
      simp [Lip.norm, Lip.eval, rootsVal] at hLb
      subst hLb
      have h0 := Real.sqrt_nonneg ((eOps μ cv cd cg).inner q q)
      exact (C09.lip_sub_const q (ih La hLa)).mono (by linarith)
  | infconv f g _ _ => simp [Fn.lip, Lip.eval] at h
  | menv f P σ _ => simp [Fn.lip, Lip.eval] at h
  | dconj f _ => simp [Fn.lip, Lip.eval] at h

/-- Non-vacuity (leaf-free tree): on `E = ℝ`, `L2NormSquared * 3` gets `grad_lipschitz = 18`; an
example with a Huber leaf on a weighted space is at the end of the file. -/
example : LipOn (fun x : ℝ => (Fn.rscal .l2sq 3 : Fn ℝ ℝ).grad
    (eOps (· * ·) (fun _ _ => 0) (fun _ _ => true) (fun _ _ => 0)) x) 18 := by
  refine C09.lipschitz_sound (E := ℝ) _ _ _ _ ?_ (.rscal .l2sq 3) 18 ?_
  · intro b L h
    cases b with
    | l1 => simp [Fn.lip, Lip.eval] at h
    | indLinf => simp [Fn.lip, Lip.eval] at h
    | huber γ =>
        intro x y
        by_cases hγ : 0 < γ
        · simp [Fn.lip, hγ, Lip.ofK, Lip.eval, rootsVal] at h
          subst h
          simp only [sub_self, norm_zero]
          exact mul_nonneg (by positivity) (norm_nonneg _)
        · simp [Fn.lip, hγ, Lip.eval] at h
  · simp [Fn.lip, Lip.scale, Lip.ofK, Lip.eval, rootsVal, absK_eq_abs, two]
    norm_num

namespace OdlModel.C09
/-- `FunctionalRightScalarMult.grad_lipschitz` as computed BEFORE fix 9cf3ca6: `|s|·L`. -/
noncomputable def rscalLipOld (s : ℝ) (L : Lip ℝ) : Lip ℝ := Lip.scale (absK s) L
end OdlModel.C09

/-- Sensitivity, on the model: the OLD propagation rule `rscalLipOld` (`|s|·L`) applied to the
model's own constant of `L2NormSquared` gives `6` for `L2NormSquared * 3`, which is NOT a
Lipschitz constant of the model gradient `(Fn.rscal .l2sq 3).grad` (`x ↦ 18x` on `E = ℝ`). -/
theorem C09.lip_right_scalar_old_fails :
    Lip.eval (OdlModel.C09.rscalLipOld 3 ((Fn.l2sq : Fn ℝ ℝ).lip
      (eOps (· * ·) (fun _ _ => 0) (fun _ _ => true) (fun _ _ => 0)))) = some 6 ∧
    ¬ LipOn (fun x : ℝ => (Fn.rscal .l2sq 3 : Fn ℝ ℝ).grad
      (eOps (· * ·) (fun _ _ => 0) (fun _ _ => true) (fun _ _ => 0)) x) 6 := by
  constructor
  · simp [OdlModel.C09.rscalLipOld, Fn.lip, Lip.scale, Lip.ofK, Lip.eval, rootsVal, absK_eq_abs, two]
    norm_num
  · intro h
    have := h 1 0
    simp [Fn.grad, eOps, two] at this
    norm_num at this

/-! ### Gradients -/
section grad
variable [CompleteSpace E]

/-- A Fréchet derivative represented by `g` is a gradient (helper). -/
theorem C09.hasGradientAt_of_fderiv {f : E → ℝ} {f' : E →L[ℝ] ℝ} {g x : E}
    (h : HasFDerivAt f f' x) (hg : ∀ d, f' d = ⟪g, d⟫) : HasGradientAt f g x := by
  rw [hasGradientAt_iff_hasFDerivAt]
  exact h.congr_fderiv (ContinuousLinearMap.ext fun d => by rw [hg, toDual_apply_apply])

namespace OdlModel.C09

/-- Side conditions under which the coded gradient of an expression is meaningful at `x`:
the leaves' coded gradients are gradients at the points the evaluation visits, quotient
denominators do not vanish, `FunctionalComp`'s operator is differentiable with
`op.derivative(x).adjoint` the Hilbert adjoint of its derivative, pointwise multiplication
by a vector is a symmetric bounded operator, `QuadraticForm`'s operator is bounded linear
with `operator.adjoint` its adjoint.  Classes without `gradient` are excluded. -/
def WF (o : VecOps E ℝ) : Fn E ℝ → E → Prop
  | .coord b, x => HasGradientAt (o.cval b) (o.cgrad b x) x
  | .l2sq, _ => True
  | .const _, _ => True
  | .indZero _, _ => False
  | .lin _ _, _ => True
  | .quad A At _ _ _ _ _, _ =>
      ∃ A' : E →L[ℝ] E, (∀ v, A v = A' v) ∧ (∀ v, At v = ContinuousLinearMap.adjoint A' v)
  | .lscal _ f, x => WF o f x
  | .rscal f s, x => WF o f (o.smul s x)
  | .rvec f v _, x =>
      (∃ M : E →L[ℝ] E, (∀ z, o.mul v z = M z) ∧ ∀ a b, ⟪M a, b⟫ = ⟪a, M b⟫) ∧ WF o f (o.mul v x)
  | .sum f g, x => WF o f x ∧ WF o g x
  | .ssum f _, x => WF o f x
  | .trans f t, x => WF o f (o.sub x t)
  | .qp f _ _ _ _, x => WF o f x
  | .prod f g, x => WF o f x ∧ WF o g x
  | .quot f g, x => WF o f x ∧ WF o g x ∧ g.value o x ≠ 0
  | .comp f op dAdj _, x =>
      (∃ D : E →L[ℝ] E, HasFDerivAt op D x ∧ ∀ y, dAdj x y = ContinuousLinearMap.adjoint D y) ∧
        WF o f (op x)
  | .breg f _ _, x => WF o f x
  | .infconv _ _, _ => False
  | .menv _ _ _, _ => False
  | .dconj _, _ => False

end OdlModel.C09
open OdlModel.C09

/-- **The coded gradient is the gradient of the coded values, for every functional
expression** (all depths; every real Hilbert space `E`, so every weighting, discretisation and
product structure): under the side conditions `WF`, `t.grad x` — built exactly as the
`gradient` properties of `functional.py` build it (chain rule through the adjoint, `s·∇f(s·)`,
`v·∇f(v·)`, Leibniz and quotient rules, `∇f + 2a·x + u`, `∇f − q`, `(A + A*)x + b`, `2x`) — is
the gradient, w.r.t. the functional's own inner product, of `z ↦ t.value z`. -/
theorem C09.grad_sound (μ : E → E → E) (cv : Builtin ℝ → E → ℝ) (cd : Builtin ℝ → E → Bool)
    (cg : Builtin ℝ → E → E) (t : Fn E ℝ) (x : E) (h : WF (eOps μ cv cd cg) t x) :
    HasGradientAt (fun z => t.value (eOps μ cv cd cg) z) (t.grad (eOps μ cv cd cg) x) x := by
  induction t generalizing x with
  | coord b => exact h
  | l2sq =>
      have := HasFDerivAt.inner ℝ (hasFDerivAt_id x) (hasFDerivAt_id x)
      refine C09.hasGradientAt_of_fderiv this ?_
      intro d
      simp [Fn.grad, eOps, two, fderivInnerCLM_apply, inner_smul_left, inner_add_left,
        real_inner_comm]
      ring
  | const c =>
      refine C09.hasGradientAt_of_fderiv (hasFDerivAt_const c x) ?_
      intro d; simp [Fn.grad, eOps]
  | indZero c => exact h.elim
  | lin b c =>
      have := ((innerSL ℝ b).hasFDerivAt (x := x)).add_const c
      refine C09.hasGradientAt_of_fderiv this ?_
      intro d; simp [Fn.grad]
  | quad A At Ainv AinvT hasB b c =>
      obtain ⟨A', hA, hAt⟩ := h
      have hAf : A = fun v => A' v := funext hA
      have h1 : HasFDerivAt (fun z : E => A' z + b) A' x := (A'.hasFDerivAt).add_const b
      have h2 : HasFDerivAt (fun z : E => A' z) A' x := A'.hasFDerivAt
      by_cases hb : hasB = true
      · have := (HasFDerivAt.inner ℝ (hasFDerivAt_id x) h1).add_const c
        subst hAf
        simp only [Fn.value, Fn.grad, hb, if_true, eOps]
        refine C09.hasGradientAt_of_fderiv this ?_
        intro d
        simp [fderivInnerCLM_apply, hAt, inner_add_left, inner_add_right,
          ContinuousLinearMap.adjoint_inner_left, real_inner_comm]
        ring
      · have := (HasFDerivAt.inner ℝ (hasFDerivAt_id x) h2).add_const c
        subst hAf
        simp only [Fn.value, Fn.grad, hb, eOps]
        refine C09.hasGradientAt_of_fderiv this ?_
        intro d
        simp [fderivInnerCLM_apply, hAt, inner_add_left, inner_add_right,
          ContinuousLinearMap.adjoint_inner_left, real_inner_comm]
        ring
  | lscal s f ih =>
      have := (ih x h).hasFDerivAt.const_mul s
      refine C09.hasGradientAt_of_fderiv this ?_
      intro d; simp [Fn.grad, eOps, inner_smul_left]
  | rscal f s ih =>
      have h1 := (ih _ h).hasFDerivAt
      have h2 : HasFDerivAt (fun z : E => s • z) (s • ContinuousLinearMap.id ℝ E) x :=
        (hasFDerivAt_id x).const_smul s
      have := HasFDerivAt.comp x h1 h2
      refine C09.hasGradientAt_of_fderiv this ?_
      intro d; simp [Fn.grad, eOps, inner_smul_left, inner_smul_right]
  | rvec f v vinv ih =>
      obtain ⟨⟨M, hM, hsym⟩, hf⟩ := h
      have h1 := (ih _ hf).hasFDerivAt
      have hMf : (fun z => (eOps μ cv cd cg).mul v z) = fun z => M z := funext hM
      have h2 : HasFDerivAt (fun z => (eOps μ cv cd cg).mul v z) M x := by
        rw [hMf]; exact M.hasFDerivAt
      have := HasFDerivAt.comp x h1 h2
      refine C09.hasGradientAt_of_fderiv this ?_
      intro d
      simp only [Fn.grad, ContinuousLinearMap.comp_apply, toDual_apply_apply]
      rw [hM, hM, hsym]
  | sum f g ihf ihg =>
      have := (ihf x h.1).hasFDerivAt.add (ihg x h.2).hasFDerivAt
      refine C09.hasGradientAt_of_fderiv this ?_
      intro d; simp [Fn.grad, eOps, inner_add_left]
  | ssum f c ih =>
      have := (ih x h).hasFDerivAt.add_const c
      refine C09.hasGradientAt_of_fderiv this ?_
      intro d; simp [Fn.grad, eOps]
  | trans f t ih =>
      have h1 := (ih _ h).hasFDerivAt
      have h2 : HasFDerivAt (fun z : E => z - t) (ContinuousLinearMap.id ℝ E) x :=
        (hasFDerivAt_id x).sub_const t
      have := HasFDerivAt.comp x h1 h2
      refine C09.hasGradientAt_of_fderiv this ?_
      intro d; simp [Fn.grad, eOps]
  | qp f a hasU u c ih =>
      have h1 := (ih x h).hasFDerivAt
      have h2 := (HasFDerivAt.inner ℝ (hasFDerivAt_id x) (hasFDerivAt_id x)).const_mul a
      have h3 := HasFDerivAt.inner ℝ (hasFDerivAt_id x) (hasFDerivAt_const u x)
      have := ((h1.add h2).add h3).add_const c
      refine C09.hasGradientAt_of_fderiv this ?_
      intro d
      simp [Fn.grad, eOps, two, fderivInnerCLM_apply, inner_add_left, inner_smul_left,
        real_inner_comm]
      ring
  | prod f g ihf ihg =>
      have := (ihf x h.1).hasFDerivAt.mul (ihg x h.2).hasFDerivAt
      refine C09.hasGradientAt_of_fderiv this ?_
      intro d
      simp [Fn.grad, eOps, inner_add_left, inner_smul_left]
      ring
  | quot f g ihf ihg =>
      obtain ⟨hf, hg, hne⟩ := h
      have h1 := (ihf x hf).hasFDerivAt
      have h2 := (ihg x hg).hasFDerivAt
      have h3 := (hasDerivAt_inv hne).comp_hasFDerivAt x h2
      have := h1.mul h3
      have hfun : (fun z => Fn.value (eOps μ cv cd cg) (f.quot g) z) =
          fun z => Fn.value (eOps μ cv cd cg) f z * ((fun y => y⁻¹) ∘ fun z => Fn.value (eOps μ cv cd cg) g z) z := by
        funext z; simp [Fn.value, div_eq_mul_inv]
      rw [hfun]
      refine C09.hasGradientAt_of_fderiv this ?_
      intro d
      simp [Fn.grad, eOps, inner_add_left, inner_smul_left]
      field_simp
      ring
  | comp f op dAdj opLin ih =>
      obtain ⟨⟨D, hD, hadj⟩, hf⟩ := h
      have h1 := (ih _ hf).hasFDerivAt
      have := HasFDerivAt.comp x h1 hD
      refine C09.hasGradientAt_of_fderiv this ?_
      intro d
      simp [Fn.grad, hadj, ContinuousLinearMap.adjoint_inner_left]
  | breg f p q ih =>
      have h1 := (ih x h).hasFDerivAt
      have h2 := (HasFDerivAt.inner ℝ (hasFDerivAt_id x) (hasFDerivAt_id x)).const_mul (0 : ℝ)
      have h3 := HasFDerivAt.inner ℝ (hasFDerivAt_id x)
        (hasFDerivAt_const ((eOps μ cv cd cg).smul (-1) q) x)
      have := ((h1.add h2).add h3).add_const
        (-(f.value (eOps μ cv cd cg) p) + (eOps μ cv cd cg).inner q p)
      refine C09.hasGradientAt_of_fderiv this ?_
      intro d
      simp [Fn.grad, eOps, fderivInnerCLM_apply, inner_sub_left, real_inner_comm]
      ring
  | infconv f g _ _ => exact h.elim
  | menv f P σ _ => exact h.elim
  | dconj f _ => exact h.elim

/-- `f.derivative(x)(d)` (coded as `d.inner(f.gradient(x))`) is the Fréchet derivative of the
values applied to `d`. -/
theorem C09.derivative_eq_inner_grad (μ : E → E → E) (cv : Builtin ℝ → E → ℝ)
    (cd : Builtin ℝ → E → Bool) (cg : Builtin ℝ → E → E) (t : Fn E ℝ) (x d : E)
    (h : WF (eOps μ cv cd cg) t x) :
    fderiv ℝ (fun z => t.value (eOps μ cv cd cg) z) x d = t.deriv (eOps μ cv cd cg) x d := by
  rw [(C09.grad_sound μ cv cd cg t x h).fderiv_apply]
  simp [Fn.deriv, eOps, real_inner_comm]

/-- Chain rule of `FunctionalComp` between different spaces: the coded gradient
`op.derivative(x).adjoint(f.gradient(op(x)))` is the gradient of `f ∘ op`. -/
theorem C09.grad_comp {F : Type} [NormedAddCommGroup F] [InnerProductSpace ℝ F] [CompleteSpace F]
    {op : E → F} {D : E →L[ℝ] F} {f : F → ℝ} {g : F} {x : E}
    (hop : HasFDerivAt op D x) (hf : HasGradientAt f g (op x)) :
    HasGradientAt (f ∘ op) (ContinuousLinearMap.adjoint D g) x := by
  have := HasFDerivAt.comp x hf.hasFDerivAt hop
  refine C09.hasGradientAt_of_fderiv this ?_
  intro d
  simp [ContinuousLinearMap.adjoint_inner_left]

/-- A quadratic remainder bound gives the gradient (helper for the envelope). -/
theorem C09.hasGradientAt_of_sq_bound {f : E → ℝ} {g x : E} {C : ℝ}
    (hb : ∀ z, |f z - f x - ⟪g, z - x⟫| ≤ C * ‖z - x‖ ^ 2) : HasGradientAt f g x := by
  have hC : 0 ≤ C ∨ C < 0 := le_or_gt 0 C
  rw [hasGradientAt_iff_hasFDerivAt, hasFDerivAt_iff_isLittleO_nhds_zero, Asymptotics.isLittleO_iff]
  intro c hc
  have hpos : 0 < c / (|C| + 1) := by positivity
  filter_upwards [Metric.ball_mem_nhds (0 : E) hpos] with h hh
  have hh' : ‖h‖ < c / (|C| + 1) := by simpa using hh
  have := hb (x + h)
  simp only [add_sub_cancel_left] at this
  rw [toDual_apply_apply, Real.norm_eq_abs]
  refine this.trans ?_
  have h1 : C * ‖h‖ ^ 2 ≤ (|C| + 1) * ‖h‖ * ‖h‖ := by
    have : C ≤ |C| + 1 := by linarith [le_abs_self C]
    nlinarith [norm_nonneg h, sq_nonneg ‖h‖]
  have h2 : (|C| + 1) * ‖h‖ ≤ c := by
    have := (lt_div_iff₀ (by positivity : (0 : ℝ) < |C| + 1)).mp hh'
    linarith
  calc C * ‖h‖ ^ 2 ≤ (|C| + 1) * ‖h‖ * ‖h‖ := h1
    _ ≤ c * ‖h‖ := mul_le_mul_of_nonneg_right h2 (norm_nonneg h)

/-- `MoreauEnvelope.gradient`: if `P = prox_{σ f}` in the resolvent sense (`(x − P x)/σ` is a
subgradient of `f` at `P x`, for every `x`), then the coded gradient `x/σ − P(x)/σ` is the
gradient of the envelope `env(z) = f(P z) + ‖z − P z‖²/(2σ)`. -/
theorem C09.grad_moreau_envelope {f : E → ℝ} {σ : ℝ} (hσ : 0 < σ) (P : E → E)
    (hP : ∀ x z, f (P x) + ⟪(1 / σ) • (x - P x), z - P x⟫ ≤ f z) (x : E) :
    HasGradientAt (fun z => f (P z) + 1 / (2 * σ) * ‖z - P z‖ ^ 2)
      ((1 / σ) • x - (1 / σ) • P x) x := by
  refine C09.hasGradientAt_of_sq_bound (C := 1 / (2 * σ)) ?_
  intro z
  have hup := hP z (P x)
  have hlo := hP x (P z)
  have hk : 0 < 1 / σ := by positivity
  have h2σ : 1 / (2 * σ) = (1 / σ) / 2 := by field_simp
  rw [h2σ]
  generalize 1 / σ = k at *
  have hw : P z - P x = ((z - x) - (z - P z)) + (x - P x) := by abel
  have hw' : P x - P z = -(((z - x) - (z - P z)) + (x - P x)) := by abel
  rw [hw'] at hup
  rw [hw] at hlo
  have hg : k • x - k • P x = k • (x - P x) := by rw [smul_sub]
  rw [hg]
  generalize x - P x = a at *
  generalize z - P z = b at *
  generalize z - x = w at *
  have n1 := norm_sub_sq_real a b
  have n2 := norm_add_sq_real (w - b) a
  have n3 := norm_sub_sq_real w b
  have c1 : ⟪b, a⟫ = ⟪a, b⟫ := real_inner_comm _ _
  have c2 : ⟪w, a⟫ = ⟪a, w⟫ := real_inner_comm _ _
  have c3 : ⟪w, b⟫ = ⟪b, w⟫ := real_inner_comm _ _
  simp only [real_inner_smul_left, inner_neg_right, inner_add_right, inner_sub_right,
    inner_sub_left, real_inner_self_eq_norm_sq, c1, c2, c3] at hup hlo n2 ⊢
  have p1 := mul_nonneg hk.le (sq_nonneg ‖a - b‖)
  have p2 := mul_nonneg hk.le (sq_nonneg ‖w - b + a‖)
  rw [n1] at p1
  rw [n2, n3] at p2
  rw [abs_le]
  constructor <;> nlinarith [p1, p2, hup, hlo]

/-- Non-vacuity of `grad_sound`: on `E = ℝ` the quotient
`(‖x‖² + 2‖x‖² + ⟨x,3⟩ + 1) / (‖x‖² + 1)` satisfies `WF` at `x = 1`. -/
example : HasGradientAt
    (fun z : ℝ => (Fn.quot (.qp .l2sq 2 true 3 1) (.ssum .l2sq 1) : Fn ℝ ℝ).value
      (eOps (· * ·) (fun _ _ => 0) (fun _ _ => true) (fun _ _ => 0)) z)
    ((Fn.quot (.qp .l2sq 2 true 3 1) (.ssum .l2sq 1) : Fn ℝ ℝ).grad
      (eOps (· * ·) (fun _ _ => 0) (fun _ _ => true) (fun _ _ => 0)) 1) 1 := by
  apply C09.grad_sound
  refine ⟨trivial, trivial, ?_⟩
  simp [Fn.value, eOps]
/-- Non-vacuity of `grad_moreau_envelope`: `f = ‖·‖²` on `E = ℝ`, `σ = 1`, `P x = x/3`
(`= l2sqCode 1 1 x 0`, the coded `ProximalL2Squared`): the subgradient hypothesis holds, so
`x − x/3` is the gradient of the envelope. -/
example (x : ℝ) : HasGradientAt (fun z : ℝ => (z / 3) * (z / 3) + 1 / (2 * 1) * ‖z - z / 3‖ ^ 2)
    ((1 / (1 : ℝ)) • x - (1 / (1 : ℝ)) • (x / 3)) x := by
  refine C09.grad_moreau_envelope (f := fun z : ℝ => z * z) (σ := 1) one_pos (fun z => z / 3) ?_ x
  intro a z
  simp only [one_div, inv_one, one_smul, RCLike.inner_apply', conj_trivial]
  nlinarith [sq_nonneg (z - a / 3)]

end grad

/-! ### Concrete built-ins on weighted lists (any ordered field, all lengths) -/
section lists
variable {K : Type} [Field K] [LinearOrder K] [IsStrictOrderedRing K]

/-- `Huber.gradient` entry-wise (`t/γ`, overwritten by `t/|t|` where `|t| ≥ γ`) is the clamp of
`t` to `[-γ, γ]` divided by `γ`. -/
theorem C09.huberGrad1_clamp (γ t : K) (hγ : 0 < γ) :
    huberGrad1 γ t = max (-γ) (min γ t) / γ := by
  unfold huberGrad1 absK
  have hne : γ ≠ 0 := ne_of_gt hγ
  split_ifs with h1 h2 h2
  · -- t < 0, γ ≤ -t
    have : min γ t = t := min_eq_right (by linarith)
    rw [this, max_eq_left (by linarith)]
    have ht0 : t ≠ 0 := by intro h; rw [h] at h1; exact lt_irrefl _ h1
    rw [div_neg, div_self ht0, neg_div, div_self hne]
  · -- t < 0, -t < γ
    have : min γ t = t := min_eq_right (by linarith)
    rw [this, max_eq_right (by linarith [not_le.mp h2])]
  · -- 0 ≤ t, γ ≤ t
    have ht : 0 ≤ t := le_of_not_gt h1
    have : min γ t = γ := min_eq_left h2
    rw [this, max_eq_right (by linarith)]
    have ht0 : t ≠ 0 := by intro h; rw [h] at h2; exact absurd h2 (not_le.mpr hγ)
    rw [div_self ht0, div_self hne]
  · have ht : 0 ≤ t := le_of_not_gt h1
    have : min γ t = t := min_eq_right (by linarith [not_le.mp h2])
    rw [this, max_eq_right (by linarith)]

/-- One entry of `Huber.gradient` is `1/γ`-Lipschitz (any ordered field). -/
theorem C09.huber_grad1_lipschitz (γ s t : K) (hγ : 0 < γ) :
    (huberGrad1 γ s - huberGrad1 γ t) ^ 2 ≤ (1 / γ) ^ 2 * (s - t) ^ 2 := by
  rw [C09.huberGrad1_clamp γ s hγ, C09.huberGrad1_clamp γ t hγ, ← sub_div, div_pow, one_div, inv_pow,
    inv_mul_eq_div]
  have hγ2 : 0 < γ ^ 2 := by positivity
  rw [div_le_div_iff_of_pos_right hγ2]
  have h1 : |max (-γ) (min γ s) - max (-γ) (min γ t)| ≤ |s - t| := by
    have a := abs_max_sub_max_le_abs (min γ s) (min γ t) (-γ)
    have b : |min γ s - min γ t| ≤ |s - t| := by
      have := abs_min_sub_min_le_max γ s γ t
      simpa using this
    rw [max_comm (-γ) (min γ s), max_comm (-γ) (min γ t)]
    exact a.trans b
  exact sq_le_sq.mpr h1

/-- `Huber.grad_lipschitz = 1/γ` is valid on every weighted list space (all lengths, all
non-negative weights): `‖∇H x − ∇H y‖²_w ≤ (1/γ)²·‖x − y‖²_w` for the coded gradient. -/
theorem C09.huber_lipschitz (γ : K) (hγ : 0 < γ) (w x y : List K) (hw : ∀ a ∈ w, 0 ≤ a) :
    (listOps w).inner
        ((listOps w).sub ((listOps w).cgrad (.huber γ) x) ((listOps w).cgrad (.huber γ) y))
        ((listOps w).sub ((listOps w).cgrad (.huber γ) x) ((listOps w).cgrad (.huber γ) y))
      ≤ (1 / γ) ^ 2 * (listOps w).inner ((listOps w).sub x y) ((listOps w).sub x y) := by
  simp only [listOps]
  induction w generalizing x y with
  | nil => simp [innerW]
  | cons a ws ih =>
      cases x with
      | nil => simp [innerW]
      | cons x0 xs =>
        cases y with
        | nil => simp [innerW]
        | cons y0 ys =>
          have ha : 0 ≤ a := hw a (by simp)
          have hrest := ih xs ys (fun b hb => hw b (by simp [hb]))
          have h0 := C09.huber_grad1_lipschitz γ x0 y0 hγ
          simp only [List.map_cons, List.zipWith_cons_cons, innerW]
          have : a * (huberGrad1 γ x0 - huberGrad1 γ y0) * (huberGrad1 γ x0 - huberGrad1 γ y0)
              ≤ (1 / γ) ^ 2 * (a * (x0 - y0) * (x0 - y0)) := by
            have := mul_le_mul_of_nonneg_left h0 ha
            calc a * (huberGrad1 γ x0 - huberGrad1 γ y0) * (huberGrad1 γ x0 - huberGrad1 γ y0)
                = a * (huberGrad1 γ x0 - huberGrad1 γ y0) ^ 2 := by ring
              _ ≤ a * ((1 / γ) ^ 2 * (x0 - y0) ^ 2) := this
              _ = (1 / γ) ^ 2 * (a * (x0 - y0) * (x0 - y0)) := by ring
          rw [mul_add]
          exact add_le_add this hrest

/-- Non-vacuity: weights `[1/4, 1/4]` (`uniform_discr`, cell volume 1/4), `γ = 1/2`. -/
example : (listOps [1/4, 1/4]).inner
      ((listOps [(1/4 : ℚ), 1/4]).sub ((listOps [1/4, 1/4]).cgrad (.huber (1/2)) [1/4, 3])
        ((listOps [1/4, 1/4]).cgrad (.huber (1/2)) [0, -1]))
      ((listOps [(1/4 : ℚ), 1/4]).sub ((listOps [1/4, 1/4]).cgrad (.huber (1/2)) [1/4, 3])
        ((listOps [1/4, 1/4]).cgrad (.huber (1/2)) [0, -1]))
    ≤ (1 / (1/2 : ℚ)) ^ 2 * (listOps [1/4, 1/4]).inner
      ((listOps [(1/4 : ℚ), 1/4]).sub [1/4, 3] [0, -1]) ((listOps [(1/4 : ℚ), 1/4]).sub [1/4, 3] [0, -1]) :=
  C09.huber_lipschitz (1/2) (by norm_num) _ _ _ (by intro a ha; simp at ha; rcases ha with rfl | rfl <;> norm_num)
end lists

/-! ### Coordinate-wise leaves: entry derivatives and their lifting to weighted spaces -/
/-- One entry of `L1Norm`: away from the kink, the coded gradient entry `sign(t)` is the
derivative of the coded value entry `|t|`. -/
theorem C09.l1_entry_deriv (t : ℝ) (ht : t ≠ 0) : HasDerivAt (fun s : ℝ => absK s) (signK t) t := by
  have hf : (fun s : ℝ => absK s) = fun s => |s| := funext absK_eq_abs
  rw [hf]
  unfold signK
  rcases lt_or_gt_of_ne ht with h | h
  · have : ¬ (0 < t) := not_lt.mpr h.le
    simp only [this, h, if_true, if_false]
    exact hasDerivAt_abs_neg h
  · simp only [h, if_true]
    exact hasDerivAt_abs_pos h

/-- One entry of `Huber` (`γ > 0`), away from `|t| = γ`: the coded gradient entry is the
derivative of the coded value entry. -/
theorem C09.huber_entry_deriv (γ t : ℝ) (hγ : 0 < γ) (ht : |t| ≠ γ) :
    HasDerivAt (huberVal1 γ) (huberGrad1 γ t) t := by
  have hval : ∀ s : ℝ, huberVal1 γ s = if γ ≤ |s| then |s| - γ / 2 else s * s * (1 / (2 * γ)) := by
    intro s
    unfold huberVal1
    simp only [hγ, if_true, absK_eq_abs, two, one_add_one_eq_two, abs_mul_abs_self]
  have hgr : huberGrad1 γ t = if γ ≤ |t| then t / |t| else t / γ := by
    unfold huberGrad1; simp only [absK_eq_abs]
  rw [hgr]
  rcases lt_or_gt_of_ne ht with h | h
  · -- |t| < γ
    have hn : ¬ γ ≤ |t| := not_le.mpr h
    simp only [hn, if_false]
    have hd : HasDerivAt (fun s : ℝ => s * s * (1 / (2 * γ))) (t / γ) t := by
      have := ((hasDerivAt_id t).mul (hasDerivAt_id t)).mul_const (1 / (2 * γ))
      have e : t / γ = (1 * t + t * 1) * (1 / (2 * γ)) := by field_simp; ring
      rw [e]; exact this
    refine hd.congr_of_eventuallyEq ?_
    have hopen : {s : ℝ | |s| < γ} ∈ nhds t :=
      (isOpen_lt continuous_abs continuous_const).mem_nhds h
    filter_upwards [hopen] with s hs
    rw [hval]; simp [not_le.mpr hs]
  · -- γ < |t|
    have hn : γ ≤ |t| := h.le
    simp only [hn, if_true]
    have ht0 : t ≠ 0 := by
      intro h0; rw [h0, abs_zero] at h; linarith
    have hd : HasDerivAt (fun s : ℝ => |s| - γ / 2) (t / |t|) t := by
      rcases lt_or_gt_of_ne ht0 with h1 | h1
      · have e : t / |t| = -1 := by rw [abs_of_neg h1, div_neg, div_self ht0]
        rw [e]; exact (hasDerivAt_abs_neg h1).sub_const (γ / 2)
      · have e : t / |t| = 1 := by rw [abs_of_pos h1, div_self ht0]
        rw [e]; exact (hasDerivAt_abs_pos h1).sub_const (γ / 2)
    refine hd.congr_of_eventuallyEq ?_
    have hopen : {s : ℝ | γ < |s|} ∈ nhds t :=
      (isOpen_lt continuous_const continuous_abs).mem_nhds h
    filter_upwards [hopen] with s hs
    rw [hval]; simp [le_of_lt hs]

/-- Lifting entries to the space: a weighted separable sum `f(z) = Σᵢ wᵢ·φ(zᵢ)` (L1: `φ = |·|`,
Huber: `φ = h_γ`, L2²: `φ = t²`; `wᵢ` the weights of `rn` / cell volume) has Fréchet derivative
`d ↦ Σᵢ wᵢ·φ'(xᵢ)·dᵢ = ⟨φ'(x), d⟩_w`, the weighted pairing with the coded entry-wise gradient. -/
theorem C09.separable_grad {n : ℕ} (w : Fin n → ℝ) (φ φ' : ℝ → ℝ) (x : Fin n → ℝ)
    (h : ∀ i, HasDerivAt φ (φ' (x i)) (x i)) :
    HasFDerivAt (fun z : Fin n → ℝ => ∑ i, w i * φ (z i))
      (∑ i, (w i * φ' (x i)) • (ContinuousLinearMap.proj i : (Fin n → ℝ) →L[ℝ] ℝ)) x := by
  have : ∀ i ∈ Finset.univ, HasFDerivAt (fun z : Fin n → ℝ => w i * φ (z i))
      ((w i * φ' (x i)) • (ContinuousLinearMap.proj i : (Fin n → ℝ) →L[ℝ] ℝ)) x := by
    intro i _
    have h1 := ((h i).comp_hasFDerivAt x (hasFDerivAt_apply (𝕜 := ℝ) (F' := fun _ : Fin n => ℝ) i x)).const_mul (w i)
    refine HasFDerivAt.congr_fderiv h1 ?_
    rw [smul_smul]
  exact HasFDerivAt.fun_sum this

/-- Non-vacuity: L1 on `rn(2)` with weights `(1/4, 1/4)` at `x = (1, -2)` (no kink): the
derivative is the weighted pairing with `sign(x) = (1, -1)`. -/
example : HasFDerivAt (fun z : Fin 2 → ℝ => ∑ i, (1 / 4 : ℝ) * absK (z i))
    (∑ i, ((1 / 4 : ℝ) * signK (![1, -2] i)) • (ContinuousLinearMap.proj i : (Fin 2 → ℝ) →L[ℝ] ℝ))
    ![1, -2] :=
  C09.separable_grad (fun _ => 1 / 4) (fun s => absK s) signK ![1, -2]
    (fun i => C09.l1_entry_deriv _ (by fin_cases i <;> simp))

/-! ### The leaf hypotheses DISCHARGED on the weighted spaces `WSp w` -/
open OdlModel.C09
section weighted
variable {n : ℕ} (w : Fin n → ℝ) [hw : Fact (∀ i, 0 < w i)]

theorem C09.wOps_cgrad_val (b : Builtin ℝ) (φ : ℝ → ℝ)
    (hb : ∀ l, (listOps (List.ofFn w)).cgrad b l = l.map φ) (x : WSp w) :
    ((wOps w).cgrad b x).val = fun i => φ (x.val i) := by
  show (ofL ((listOps (List.ofFn w)).cgrad b (List.ofFn x.val)) : Fin n → ℝ) = _
  rw [hb, ofL_map_ofFn]

theorem C09.wOps_norm_sq (a : WSp w) :
    ‖a‖ ^ 2 = innerW (List.ofFn w) (List.ofFn a.val) (List.ofFn a.val) := by
  rw [← real_inner_self_eq_norm_sq, innerW_ofFn, WSp.inner_def]

/-- `Huber.grad_lipschitz = 1/γ` on the weighted spaces: the leaf hypothesis of
`lipschitz_sound`, DISCHARGED for the list-computed coordinate-wise built-ins. -/
theorem C09.wOps_leaf_lipschitz (b : Builtin ℝ) (L : ℝ)
    (h : Lip.eval (Fn.lip (wOps w) (.coord b)) = some L) : LipOn ((wOps w).cgrad b) L := by
  cases b with
  | l1 => simp [Fn.lip, Lip.eval] at h
  | indLinf => simp [Fn.lip, Lip.eval] at h
  | huber γ =>
      by_cases hγ : 0 < γ
      · simp [Fn.lip, hγ, Lip.ofK, Lip.eval, rootsVal] at h
        subst h
        intro x y
        have hx := C09.wOps_cgrad_val w (.huber γ) (huberGrad1 γ) (fun l => rfl) x
        have hy := C09.wOps_cgrad_val w (.huber γ) (huberGrad1 γ) (fun l => rfl) y
        have key := C09.huber_lipschitz γ hγ (List.ofFn w) (List.ofFn x.val) (List.ofFn y.val)
          (weights_nonneg w)
        simp only [listOps] at key
        have e1 : List.ofFn ((wOps w).cgrad (.huber γ) x - (wOps w).cgrad (.huber γ) y).val
            = List.zipWith (· - ·) ((List.ofFn x.val).map (huberGrad1 γ))
                ((List.ofFn y.val).map (huberGrad1 γ)) := by
          rw [WSp.val_sub, hx, hy, List.map_ofFn, List.map_ofFn, zipWith_ofFn]; rfl
        have e2 : List.ofFn (x - y).val = List.zipWith (· - ·) (List.ofFn x.val) (List.ofFn y.val) := by
          rw [WSp.val_sub, zipWith_ofFn]; rfl
        have hsq : ‖(wOps w).cgrad (.huber γ) x - (wOps w).cgrad (.huber γ) y‖ ^ 2
            ≤ (γ⁻¹ * ‖x - y‖) ^ 2 := by
          rw [C09.wOps_norm_sq, e1, mul_pow, C09.wOps_norm_sq, e2]
          simpa [one_div] using key
        exact (pow_le_pow_iff_left₀ (norm_nonneg _) (by positivity) two_ne_zero).mp hsq
      · simp [Fn.lip, hγ, Lip.eval] at h

/-- `lipschitz_sound` on the weighted spaces, WITHOUT leaf hypotheses. -/
theorem C09.lipschitz_sound_weighted (t : Fn (WSp w) ℝ) (L : ℝ)
    (h : Lip.eval (t.lip (wOps w)) = some L) : LipOn (fun x => t.grad (wOps w) x) L :=
  C09.lipschitz_sound _ _ _ _ (C09.wOps_leaf_lipschitz w) t L h

/-- The identity as a continuous linear equivalence between `WSp w` and `Fin n → ℝ`. -/
noncomputable def C09.wEquiv : WSp w ≃L[ℝ] (Fin n → ℝ) :=
  LinearEquiv.toContinuousLinearEquiv
    { toFun := WSp.val, invFun := WSp.of, map_add' := fun _ _ => rfl, map_smul' := fun _ _ => rfl,
      left_inv := fun _ => rfl, right_inv := fun _ => rfl }

/-- A weighted separable sum `z ↦ Σ wᵢ φ(zᵢ)` on `WSp w` has the GRADIENT `(φ'(xᵢ))ᵢ` w.r.t. the
weighted inner product. -/
theorem C09.weighted_separable_gradient (φ φ' : ℝ → ℝ) (x : WSp w)
    (h : ∀ i, HasDerivAt φ (φ' (x.val i)) (x.val i)) :
    HasGradientAt (fun z : WSp w => ∑ i, w i * φ (z.val i)) (WSp.of fun i => φ' (x.val i)) x := by
  have h0 := C09.separable_grad w φ φ' x.val h
  have h1 : HasFDerivAt (fun z : WSp w => ∑ i, w i * φ (z.val i))
      ((∑ i, (w i * φ' (x.val i)) • (ContinuousLinearMap.proj i : (Fin n → ℝ) →L[ℝ] ℝ)).comp
        (C09.wEquiv w : WSp w →L[ℝ] (Fin n → ℝ))) x :=
    HasFDerivAt.comp x (f := fun z : WSp w => (C09.wEquiv w) z) h0 (C09.wEquiv w).hasFDerivAt
  refine C09.hasGradientAt_of_fderiv h1 ?_
  intro d
  rw [WSp.inner_def]
  simp only [ContinuousLinearMap.comp_apply, ContinuousLinearMap.sum_apply,
    ContinuousLinearMap.smul_apply, ContinuousLinearMap.proj_apply, smul_eq_mul]
  rfl
end weighted

section weighted2
variable {n : ℕ} (w : Fin n → ℝ) [hw : Fact (∀ i, 0 < w i)]

namespace OdlModel.C09
/-- Points at which a coordinate-wise built-in is differentiable (no entry at a kink). -/
def LeafOK {n : ℕ} : Builtin ℝ → (Fin n → ℝ) → Prop
  | .l1, z => ∀ i, z i ≠ 0
  | .huber γ, z => 0 < γ ∧ ∀ i, |z i| ≠ γ
  | .indLinf, _ => False
end OdlModel.C09

/-- The leaf hypothesis of `grad_sound`, DISCHARGED on the weighted spaces for the
list-computed L1 and Huber: away from the kinks, the coded gradient (`sign(x)`, resp. the
Huber clamp) is the gradient of the coded value w.r.t. the weighted inner product. -/
theorem C09.wOps_leaf_wf (b : Builtin ℝ) (x : WSp w) (h : LeafOK b x.val) :
    WF (wOps w) (.coord b) x := by
  cases b with
  | l1 =>
      have hv : (wOps w).cval .l1 = fun z : WSp w => ∑ i, w i * absK (z.val i) :=
        funext fun z => l1W_ofFn w z.val
      have hg : (wOps w).cgrad .l1 x = WSp.of fun i => signK (x.val i) :=
        C09.wOps_cgrad_val w .l1 signK (fun l => rfl) x
      show HasGradientAt ((wOps w).cval .l1) ((wOps w).cgrad .l1 x) x
      rw [hv, hg]
      exact C09.weighted_separable_gradient w (fun s => absK s) signK x
        (fun i => C09.l1_entry_deriv _ (h i))
  | indLinf => exact h.elim
  | huber γ =>
      obtain ⟨hγ, hne⟩ := h
      have hv : (wOps w).cval (.huber γ) = fun z : WSp w => ∑ i, w i * huberVal1 γ (z.val i) :=
        funext fun z => huberW_ofFn γ w z.val
      have hg : (wOps w).cgrad (.huber γ) x = WSp.of fun i => huberGrad1 γ (x.val i) :=
        C09.wOps_cgrad_val w (.huber γ) (huberGrad1 γ) (fun l => rfl) x
      show HasGradientAt ((wOps w).cval (.huber γ)) ((wOps w).cgrad (.huber γ) x) x
      rw [hv, hg]
      exact C09.weighted_separable_gradient w (huberVal1 γ) (huberGrad1 γ) x
        (fun i => C09.huber_entry_deriv γ _ hγ (hne i))
end weighted2

section example_weighted
instance exw9 : Fact (∀ i, 0 < (![1 / 4, 1 / 4] : Fin 2 → ℝ) i) :=
  ⟨by intro i; fin_cases i <;> norm_num⟩

/-- Non-vacuity with REAL leaves, on `uniform_discr` with two cells of volume 1/4:
`f(z) = 3·Huber_{1/2}(z) + ‖z − (3, 0)‖₁` at `x = (1, −2)`: the coded gradient is the gradient. -/
example : HasGradientAt
    (fun z => (Fn.sum (.lscal 3 (.coord (.huber (1 / 2)))) (.trans (.coord .l1) (WSp.of ![3, 0])) :
      Fn (WSp ![1 / 4, 1 / 4]) ℝ).value (wOps ![1 / 4, 1 / 4]) z)
    ((Fn.sum (.lscal 3 (.coord (.huber (1 / 2)))) (.trans (.coord .l1) (WSp.of ![3, 0])) :
      Fn (WSp ![1 / 4, 1 / 4]) ℝ).grad (wOps ![1 / 4, 1 / 4]) (WSp.of ![1, -2])) (WSp.of ![1, -2]) := by
  apply C09.grad_sound
  refine ⟨C09.wOps_leaf_wf _ _ _ ⟨by norm_num, ?_⟩, C09.wOps_leaf_wf _ _ _ ?_⟩
  · intro i; fin_cases i <;> simp [WSp.val_of] <;> norm_num
  · intro i
    show ((WSp.of ![1, -2] : WSp ![1 / 4, 1 / 4]) - WSp.of ![3, 0]).val i ≠ 0
    fin_cases i <;> simp [WSp.val_sub, WSp.val_of] <;> norm_num

/-- … and `2·Huber_{1/2}` gets `grad_lipschitz = 4`, a valid bound for its coded gradient. -/
example : LipOn (fun x => (Fn.lscal 2 (.coord (.huber (1 / 2))) : Fn (WSp ![1 / 4, 1 / 4]) ℝ).grad
    (wOps ![1 / 4, 1 / 4]) x) 4 := by
  apply C09.lipschitz_sound_weighted
  have h : (0 : ℝ) < 1 / 2 := by norm_num
  simp [Fn.lip, h, Lip.scale, Lip.ofK, Lip.eval, rootsVal, absK_eq_abs]
  norm_num
end example_weighted

/-! ### `grad_sound` on the weighted spaces, space hypotheses discharged -/
section weighted3
variable {n : ℕ} (w : Fin n → ℝ) [hw : Fact (∀ i, 0 < w i)]

namespace OdlModel.C09
/-- `WF` on the weighted spaces with every hypothesis about the SPACE discharged: coordinate-wise
leaves only need to stay away from their kinks (`LeafOK`), pointwise multiplication needs
nothing. What remains are conditions on the INPUT (quotient denominators, kinks) and on
operators supplied by the user (`QuadraticForm` / `FunctionalComp`). -/
def WFw {n : ℕ} (w : Fin n → ℝ) [Fact (∀ i, 0 < w i)] : Fn (WSp w) ℝ → WSp w → Prop
  | .coord b, x => LeafOK b x.val
  | .l2sq, _ => True
  | .const _, _ => True
  | .indZero _, _ => False
  | .lin _ _, _ => True
  | .quad A At _ _ _ _ _, _ =>
      ∃ A' : WSp w →L[ℝ] WSp w, (∀ v, A v = A' v) ∧ (∀ v, At v = ContinuousLinearMap.adjoint A' v)
  | .lscal _ f, x => WFw w f x
  | .rscal f s, x => WFw w f ((wOps w).smul s x)
  | .rvec f v _, x => WFw w f ((wOps w).mul v x)
  | .sum f g, x => WFw w f x ∧ WFw w g x
  | .ssum f _, x => WFw w f x
  | .trans f t, x => WFw w f ((wOps w).sub x t)
  | .qp f _ _ _ _, x => WFw w f x
  | .prod f g, x => WFw w f x ∧ WFw w g x
  | .quot f g, x => WFw w f x ∧ WFw w g x ∧ g.value (wOps w) x ≠ 0
  | .comp f op dAdj _, x =>
      (∃ D : WSp w →L[ℝ] WSp w, HasFDerivAt op D x ∧
        ∀ y, dAdj x y = ContinuousLinearMap.adjoint D y) ∧ WFw w f (op x)
  | .breg f _ _, x => WFw w f x
  | .infconv _ _, _ => False
  | .menv _ _ _, _ => False
  | .dconj _, _ => False
end OdlModel.C09

/-- Pointwise multiplication by a vector is a bounded operator on `WSp w`, symmetric for the
weighted inner product (the hypothesis of the `FunctionalRightVectorMult` gradient rule). -/
theorem C09.wOps_mul_symmetric (v : WSp w) :
    ∃ M : WSp w →L[ℝ] WSp w, (∀ z, (wOps w).mul v z = M z) ∧ ∀ a b, ⟪M a, b⟫ = ⟪a, M b⟫ := by
  let L : WSp w →ₗ[ℝ] WSp w :=
    { toFun := fun x => WSp.of (fun i => v.val i * x.val i)
      map_add' := fun x y => by
        apply WSp.ext'; funext i
        show v.val i * (x.val i + y.val i) = v.val i * x.val i + v.val i * y.val i
        ring
      map_smul' := fun c x => by
        apply WSp.ext'; funext i
        show v.val i * (c * x.val i) = c * (v.val i * x.val i)
        ring }
  refine ⟨LinearMap.toContinuousLinearMap L, fun z => rfl, fun a b => ?_⟩
  rw [WSp.inner_def, WSp.inner_def]
  refine Finset.sum_congr rfl fun i _ => ?_
  show w i * (v.val i * a.val i) * b.val i = w i * a.val i * (v.val i * b.val i)
  ring

theorem C09.wfw_wf (t : Fn (WSp w) ℝ) (x : WSp w) (h : WFw w t x) : WF (wOps w) t x := by
  induction t generalizing x with
  | coord b => exact C09.wOps_leaf_wf w b x h
  | l2sq => trivial
  | const c => trivial
  | indZero c => exact h
  | lin b c => trivial
  | quad A At Ainv AinvT hasB b c => exact h
  | lscal s f ih => exact ih x h
  | rscal f s ih => exact ih _ h
  | rvec f v vinv ih => exact ⟨C09.wOps_mul_symmetric w v, ih _ h⟩
  | sum f g ihf ihg => exact ⟨ihf x h.1, ihg x h.2⟩
  | ssum f c ih => exact ih x h
  | trans f t ih => exact ih _ h
  | qp f a hasU u c ih => exact ih x h
  | prod f g ihf ihg => exact ⟨ihf x h.1, ihg x h.2⟩
  | quot f g ihf ihg => exact ⟨ihf x h.1, ihg x h.2.1, h.2.2⟩
  | comp f op dAdj opLin ih => exact ⟨h.1, ih _ h.2⟩
  | breg f p q ih => exact ih x h
  | infconv f g _ _ => exact h
  | menv f P σ _ => exact h
  | dconj f _ => exact h

/-- **`grad_sound` on the weighted spaces without hypotheses on the space**: for every `n`, all
weights `w > 0` and every expression whose coordinate-wise leaves (L1, Huber) are computed by the
executed list functions, at every point satisfying `WFw` (no leaf argument at a kink, non-zero
quotient denominators, user operators bounded/differentiable with the supplied adjoint), the
coded gradient is the gradient of the coded value w.r.t. the weighted inner product, and
`derivative(x)(d)` is the Fréchet derivative applied to `d`. -/
theorem C09.grad_sound_weighted (t : Fn (WSp w) ℝ) (x d : WSp w) (h : WFw w t x) :
    HasGradientAt (fun z => t.value (wOps w) z) (t.grad (wOps w) x) x ∧
      fderiv ℝ (fun z => t.value (wOps w) z) x d = t.deriv (wOps w) x d :=
  ⟨C09.grad_sound _ _ _ _ t x (C09.wfw_wf w t x h),
    C09.derivative_eq_inner_grad _ _ _ _ t x d (C09.wfw_wf w t x h)⟩
end weighted3

/-- Non-vacuity with leaves, a pointwise multiplication and a quotient, on two cells of volume
1/4: `f(z) = Huber_{1/2}((2,−1)·z) / (‖z‖² + 1)` at `x = (1, −2)`. -/
example : WFw ![1 / 4, 1 / 4]
    (Fn.quot (.rvec (.coord (.huber (1 / 2))) (WSp.of ![2, -1]) (WSp.of ![1 / 2, -1])) (.ssum .l2sq 1))
    (WSp.of ![1, -2]) := by
  refine ⟨⟨by norm_num, ?_⟩, trivial, ?_⟩
  · intro i
    show |((wOps ![1 / 4, 1 / 4]).mul (WSp.of ![2, -1]) (WSp.of ![1, -2])).val i| ≠ 1 / 2
    fin_cases i <;> simp [wOps, eOps, WSp.val_of] <;> norm_num
  · show ⟪(WSp.of ![1, -2] : WSp ![1 / 4, 1 / 4]), WSp.of ![1, -2]⟫ + 1 ≠ 0
    have := real_inner_self_nonneg (x := (WSp.of ![1, -2] : WSp ![1 / 4, 1 / 4]))
    linarith

/-! ### MoreauEnvelope: the true Lipschitz constant -/
section menv
variable {E : Type} [NormedAddCommGroup E] [InnerProductSpace ℝ E]

/-- **The true Lipschitz constant of `MoreauEnvelope.gradient`** (the code passes `nan`): if the
proximal `P` is firmly non-expansive (`⟪P x − P y, (x − P x) − (y − P y)⟫ ≥ 0`, true for every
resolvent of a monotone relation), the model gradient `(Fn.menv f P σ).grad = x/σ − P(x)/σ` is
`1/σ`-Lipschitz — for every inner expression `f`, every real inner-product space. -/
theorem C09.menv_lipschitz (μ : E → E → E) (cv : Builtin ℝ → E → ℝ) (cd : Builtin ℝ → E → Bool)
    (cg : Builtin ℝ → E → E) (f : Fn E ℝ) (P : E → E) (σ : ℝ) (hσ : 0 < σ)
    (hP : ∀ x y, 0 ≤ ⟪P x - P y, (x - P x) - (y - P y)⟫) :
    LipOn (fun x => (Fn.menv f P σ).grad (eOps μ cv cd cg) x) (1 / σ) := by
  intro x y
  show ‖((1 / σ) • x - (1 / σ) • P x) - ((1 / σ) • y - (1 / σ) • P y)‖ ≤ 1 / σ * ‖x - y‖
  have e : ((1 / σ) • x - (1 / σ) • P x) - ((1 / σ) • y - (1 / σ) • P y)
      = (1 / σ) • ((x - y) - (P x - P y)) := by
    simp only [smul_sub]; abel
  rw [e, norm_smul, Real.norm_eq_abs, abs_of_pos (by positivity : 0 < 1 / σ)]
  refine mul_le_mul_of_nonneg_left ?_ (by positivity)
  set a := x - y with ha
  set b := P x - P y with hb
  have h0 := hP x y
  have e2 : (x - P x) - (y - P y) = a - b := by rw [ha, hb]; abel
  rw [e2, inner_sub_right, real_inner_self_eq_norm_sq] at h0
  have hsq : ‖a - b‖ ^ 2 ≤ ‖a‖ ^ 2 := by
    rw [norm_sub_sq_real]
    have : ⟪a, b⟫ = ⟪b, a⟫ := real_inner_comm _ _
    nlinarith [sq_nonneg ‖b‖]
  exact (pow_le_pow_iff_left₀ (norm_nonneg _) (norm_nonneg _) two_ne_zero).mp hsq

/-- The hypothesis holds for the executed proximal of `MoreauEnvelope(L2NormSquared, σ)`:
C07's coded `ProximalL2Squared` without data term is `x ↦ x/(1+2σ)` (entry-wise), a contraction
factor in `[0, 1]`, hence firmly non-expansive. -/
theorem C09.menv_l2sq_prox_firm (σ : ℝ) (hσ : 0 < σ) :
    (∀ t : ℝ, OdlModel.Prox.l2sqCode 1 σ t 0 = (1 / (1 + 2 * σ)) * t) ∧
    ∀ x y : E, 0 ≤ ⟪(1 / (1 + 2 * σ)) • x - (1 / (1 + 2 * σ)) • y,
      (x - (1 / (1 + 2 * σ)) • x) - (y - (1 / (1 + 2 * σ)) • y)⟫ := by
  constructor
  · intro t
    unfold OdlModel.Prox.l2sqCode
    simp only [mul_zero, add_zero, mul_one]
    ring
  · intro x y
    set c := 1 / (1 + 2 * σ) with hc
    have hc0 : 0 ≤ c := by positivity
    have hc1 : c ≤ 1 := by
      rw [hc, div_le_one (by positivity)]; linarith
    have e1 : c • x - c • y = c • (x - y) := by rw [smul_sub]
    have e2 : (x - c • x) - (y - c • y) = (1 - c) • (x - y) := by
      rw [sub_smul, one_smul, smul_sub]; abel
    rw [e1, e2, real_inner_smul_left, real_inner_smul_right, real_inner_self_eq_norm_sq]
    have : 0 ≤ c * (1 - c) := mul_nonneg hc0 (by linarith)
    nlinarith [sq_nonneg ‖x - y‖]

/-- Non-vacuity: `MoreauEnvelope(L2NormSquared, 1)` on `E = ℝ` (`P x = x/3`): the model gradient
is 1-Lipschitz. -/
example : LipOn (fun x : ℝ => (Fn.menv .l2sq (fun x => (1 / (1 + 2 * 1) : ℝ) • x) 1 : Fn ℝ ℝ).grad
    (eOps (· * ·) (fun _ _ => 0) (fun _ _ => true) (fun _ _ => 0)) x) (1 / 1) :=
  C09.menv_lipschitz _ _ _ _ _ _ 1 one_pos (C09.menv_l2sq_prox_firm (E := ℝ) 1 one_pos).2

end menv

/-! ### ROUND 4: leaves outside the expression language (`Model/FunctionalsLeaves.lean`) -/
open OdlModel.FunctionalsLeaves

namespace OdlModel.C09
/-- Documented value of one entry of `KullbackLeibler` with prior entry `g`:
`x − g + xlogy(g, g/x)` (`xlogy(0, ·) = 0`; prior `None` is `g = 1`: `x − 1 − log x`). -/
noncomputable def klVal1 (g s : ℝ) : ℝ := s - g + g * Real.log (g / s)
/-- Documented value of one entry of `KullbackLeiblerConvexConj`: `−xlogy(g, 1 − x)`. -/
noncomputable def klccVal1 (g s : ℝ) : ℝ := -(g * Real.log (1 - s))
end OdlModel.C09
open OdlModel.C09

/-- One entry of `KullbackLeibler` (prior entry `g`, any real; `g = 1` is prior `None`): at every
`x > 0` the EXECUTED gradient entry `klGrad1 g x = (-g)/x + 1` (`KLGradient._call`) is the derivative
of the documented value entry `x − g + xlogy(g, g/x)`. -/
theorem C09.kl_entry_deriv (g x : ℝ) (hx : 0 < x) :
    HasDerivAt (klVal1 g) (klGrad1 g x) x := by
  unfold klVal1 klGrad1
  by_cases hg : g = 0
  · subst hg
    simp only [zero_mul, add_zero, sub_zero, neg_zero, zero_div, zero_add]
    exact hasDerivAt_id x
  · have hx0 : x ≠ 0 := ne_of_gt hx
    have h1 : HasDerivAt (fun s : ℝ => g / s) (-g / x ^ 2) x := by
      have := (hasDerivAt_inv hx0).const_mul g
      simpa [div_eq_mul_inv, neg_mul, mul_neg] using this
    have h2 := h1.log (div_ne_zero hg hx0)
    have h3 : HasDerivAt (fun s : ℝ => s - g + g * Real.log (g / s))
        (1 + g * (-g / x ^ 2 / (g / x))) x := ((hasDerivAt_id' x).sub_const g).add (h2.const_mul g)
    refine h3.congr_deriv ?_
    field_simp
    ring

/-- One entry of `KullbackLeiblerConvexConj`: at every `x < 1` the executed gradient entry
`klccGrad1 g x = g/(1 − x)` (`KLCCGradient._call`) is the derivative of the documented value entry
`−xlogy(g, 1 − x)`. -/
theorem C09.klcc_entry_deriv (g x : ℝ) (hx : x < 1) :
    HasDerivAt (klccVal1 g) (klccGrad1 g x) x := by
  unfold klccVal1 klccGrad1
  have h0 : (1 : ℝ) - x ≠ 0 := by linarith
  have h1 : HasDerivAt (fun s : ℝ => 1 - s) (-1) x := by
    simpa using (hasDerivAt_id x).const_sub 1
  have h2 : HasDerivAt (fun s : ℝ => -(g * Real.log (1 - s))) (-(g * (-1 / (1 - x)))) x :=
    ((h1.log h0).const_mul g).neg
  refine h2.congr_deriv ?_
  field_simp

/-! lifting with an entry-dependent `φ` -/
/-- `separable_grad` with an entry-dependent `φᵢ` (needed for a non-constant prior) (helper). -/
theorem C09.separable_grad_idx {n : ℕ} (w : Fin n → ℝ) (φ φ' : Fin n → ℝ → ℝ) (x : Fin n → ℝ)
    (h : ∀ i, HasDerivAt (φ i) (φ' i (x i)) (x i)) :
    HasFDerivAt (fun z : Fin n → ℝ => ∑ i, w i * φ i (z i))
      (∑ i, (w i * φ' i (x i)) • (ContinuousLinearMap.proj i : (Fin n → ℝ) →L[ℝ] ℝ)) x := by
  have : ∀ i ∈ Finset.univ, HasFDerivAt (fun z : Fin n → ℝ => w i * φ i (z i))
      ((w i * φ' i (x i)) • (ContinuousLinearMap.proj i : (Fin n → ℝ) →L[ℝ] ℝ)) x := by
    intro i _
    have h1 := ((h i).comp_hasFDerivAt x (hasFDerivAt_apply (𝕜 := ℝ) (F' := fun _ : Fin n => ℝ) i x)).const_mul (w i)
    refine HasFDerivAt.congr_fderiv h1 ?_
    rw [smul_smul]
  exact HasFDerivAt.fun_sum this

section klw
variable {n : ℕ} (w : Fin n → ℝ) [hw : Fact (∀ i, 0 < w i)]

/-- `weighted_separable_gradient` with an entry-dependent `φᵢ` (helper). -/
theorem C09.weighted_separable_gradient_idx (φ φ' : Fin n → ℝ → ℝ) (x : WSp w)
    (h : ∀ i, HasDerivAt (φ i) (φ' i (x.val i)) (x.val i)) :
    HasGradientAt (fun z : WSp w => ∑ i, w i * φ i (z.val i)) (WSp.of fun i => φ' i (x.val i)) x := by
  have h0 := C09.separable_grad_idx w φ φ' x.val h
  have h1 : HasFDerivAt (fun z : WSp w => ∑ i, w i * φ i (z.val i))
      ((∑ i, (w i * φ' i (x.val i)) • (ContinuousLinearMap.proj i : (Fin n → ℝ) →L[ℝ] ℝ)).comp
        (C09.wEquiv w : WSp w →L[ℝ] (Fin n → ℝ))) x :=
    HasFDerivAt.comp x (f := fun z : WSp w => (C09.wEquiv w) z) h0 (C09.wEquiv w).hasFDerivAt
  refine C09.hasGradientAt_of_fderiv h1 ?_
  intro d
  rw [WSp.inner_def]
  simp only [ContinuousLinearMap.comp_apply, ContinuousLinearMap.sum_apply,
    ContinuousLinearMap.smul_apply, ContinuousLinearMap.proj_apply, smul_eq_mul]
  rfl

/-- Reading back the list computed by `zipWith` on `List.ofFn` inputs (helper). -/
theorem C09.ofL_zipWith_ofFn (f : ℝ → ℝ → ℝ) (g x : Fin n → ℝ) :
    (ofL (List.zipWith f (List.ofFn g) (List.ofFn x)) : Fin n → ℝ) = fun i => f (g i) (x i) := by
  rw [zipWith_ofFn]
  funext i
  simp [ofL, List.getD_eq_getElem?_getD]

/-- `List.all` on `List.ofFn` gives the predicate at every index (helper). -/
theorem C09.all_ofFn {p : ℝ → Bool} (x : Fin n → ℝ) (h : (List.ofFn x).all p = true) (i : Fin n) :
    p (x i) = true := by
  rw [List.all_eq_true] at h
  exact h (x i) ((List.mem_ofFn' x (x i)).mpr ⟨i, rfl⟩)

/-- **`KullbackLeibler.gradient` is the gradient of the documented KL value on every weighted
space** (`rn`, weighted `rn`, `uniform_discr`: all `n`, all weights `w > 0`, every prior `g`; prior
`None` is `g ≡ 1`): at every point where the EXECUTED domain test `klDom` holds (all entries
positive), the EXECUTED list gradient `klGrad g x` (compared with `f.gradient(x)` on the stream
`leaves/kl`) is the gradient, w.r.t. the weighted inner product, of
`z ↦ Σ wᵢ (zᵢ − gᵢ + xlogy(gᵢ, gᵢ/zᵢ)) = (x − g + xlogy(g, g/x)).inner(one)`.
This DISCHARGES the leaf hypothesis that `grad_sound` would need for a KL leaf; KL is not a
constructor of `Fn` (shared with C08), so trees over KL leaves are still covered by the abstract
`grad_sound` with this theorem supplying the leaf. The value itself contains `log` and is not
executed (compared with the real `_call` by finite differences only). -/
theorem C09.kl_grad_sound_weighted (g : Fin n → ℝ) (x : WSp w)
    (hx : klDom (List.ofFn x.val) = true) :
    HasGradientAt (fun z : WSp w => ∑ i, w i * klVal1 (g i) (z.val i))
      (WSp.of (ofL (klGrad (List.ofFn g) (List.ofFn x.val)))) x := by
  have hpos : ∀ i, 0 < x.val i := fun i => by
    have := C09.all_ofFn (p := fun t => decide (0 < t)) x.val hx i
    simpa using this
  unfold klGrad
  rw [C09.ofL_zipWith_ofFn]
  exact C09.weighted_separable_gradient_idx w (fun i => klVal1 (g i)) (fun i => klGrad1 (g i)) x
    (fun i => C09.kl_entry_deriv (g i) _ (hpos i))

/-- **`KullbackLeiblerConvexConj.gradient` is the gradient of its documented value** on every
weighted space: where the executed `klccDom` holds (all entries `< 1`), the executed `klccGrad g x`
(`g/(1 − x)`, stream `leaves/klcc`) is the gradient of `z ↦ Σ wᵢ·(−xlogy(gᵢ, 1 − zᵢ))`. -/
theorem C09.klcc_grad_sound_weighted (g : Fin n → ℝ) (x : WSp w)
    (hx : klccDom (List.ofFn x.val) = true) :
    HasGradientAt (fun z : WSp w => ∑ i, w i * klccVal1 (g i) (z.val i))
      (WSp.of (ofL (klccGrad (List.ofFn g) (List.ofFn x.val)))) x := by
  have hlt : ∀ i, x.val i < 1 := fun i => by
    have := C09.all_ofFn (p := fun t => decide (t < 1)) x.val hx i
    simpa using this
  unfold klccGrad
  rw [C09.ofL_zipWith_ofFn]
  exact C09.weighted_separable_gradient_idx w (fun i => klccVal1 (g i)) (fun i => klccGrad1 (g i)) x
    (fun i => C09.klcc_entry_deriv (g i) _ (hlt i))
end klw

/-- Non-vacuity: two cells of volume 1/4, prior `(1, 3/2)`, `x = (1/2, 2)`. -/
example : HasGradientAt (fun z : WSp ![1 / 4, 1 / 4] => ∑ i, (![1 / 4, 1 / 4] : Fin 2 → ℝ) i * klVal1 ((![1, 3 / 2] : Fin 2 → ℝ) i) (z.val i))
    (WSp.of (ofL (klGrad (List.ofFn (![1, 3 / 2] : Fin 2 → ℝ)) (List.ofFn (WSp.of ![1 / 2, 2] : WSp ![1 / 4, 1 / 4]).val))))
    (WSp.of ![1 / 2, 2]) := by
  apply C09.kl_grad_sound_weighted
  simp [klDom, WSp.val_of]

section box
variable {K : Type} [Field K] [LinearOrder K] [IsStrictOrderedRing K]

namespace OdlModel.C09
/-- The documented condition of `IndicatorBox`: `lower ≤ x ≤ upper` at this entry. -/
def InBox (e : BoxEntry K) : Prop := (∀ a, e.lo = some a → a ≤ e.x) ∧ (∀ b, e.hi = some b → e.x ≤ b)
/-- The bounds of the entry are consistent (`lower ≤ upper` where both are given). -/
def BoundsOK (e : BoxEntry K) : Prop := ∀ a b, e.lo = some a → e.hi = some b → a ≤ b
end OdlModel.C09
open OdlModel.C09

/-- One entry of `ProxOpBoxConstraint` (`minimum(maximum(x, lower), upper)`, C07's `boxCode`)
leaves `x` unchanged iff `lower ≤ x ≤ upper` — given consistent bounds. -/
theorem C09.box_entry_fixed_iff (e : BoxEntry K) (h : BoundsOK e) :
    OdlModel.Prox.boxCode e.lo e.hi e.x = e.x ↔ InBox e := by
  obtain ⟨w, lo, hi, x⟩ := e
  unfold InBox BoundsOK at *
  cases lo <;> cases hi <;>
    simp only [OdlModel.Prox.boxCode, OdlModel.Prox.maxK, OdlModel.Prox.minK, reduceCtorEq,
      Option.some.injEq, forall_eq', IsEmpty.forall_iff, implies_true, true_and, and_true] at h ⊢
  all_goals (split_ifs <;> grind)

/-- The weighted squared distance to the projection is non-negative (helper). -/
theorem C09.boxDist2_nonneg (es : List (BoxEntry K)) (hw : ∀ e ∈ es, 0 < e.w) : 0 ≤ boxDist2 es := by
  induction es with
  | nil => simp [boxDist2]
  | cons e r ih =>
      have h1 := ih (fun a ha => hw a (List.mem_cons_of_mem _ ha))
      have h2 := (hw e (by simp)).le
      simp only [boxDist2]
      have : 0 ≤ e.w * (e.x - OdlModel.Prox.boxCode e.lo e.hi e.x) * (e.x - OdlModel.Prox.boxCode e.lo e.hi e.x) := by
        rw [mul_assoc]; exact mul_nonneg h2 (mul_self_nonneg _)
      linarith

/-- **`IndicatorBox._call` / `IndicatorNonnegativity._call` compute the documented indicator.**
The code does not test `lower ≤ x ≤ upper`; it projects with `proximal_box_constraint` and returns
`inf if x.dist(proj) > 0 else 0` in the space's OWN distance. For every length, all weights `> 0`
(the theorem is false for a zero weight) and consistent bounds (each bound absent, or
`lowerᵢ ≤ upperᵢ`), the executed `boxIsInf` (stream `leaves/box`) is `false` — the value is 0 —
iff every entry satisfies the documented condition. -/
theorem C09.box_value_iff (es : List (BoxEntry K)) (hw : ∀ e ∈ es, 0 < e.w)
    (hb : ∀ e ∈ es, BoundsOK e) : boxIsInf es = false ↔ ∀ e ∈ es, InBox e := by
  unfold boxIsInf
  rw [decide_eq_false_iff_not, not_lt]
  induction es with
  | nil => simp [boxDist2]
  | cons e r ih =>
      have hw' : ∀ a ∈ r, 0 < a.w := fun a ha => hw a (List.mem_cons_of_mem _ ha)
      have ih' := ih hw' (fun a ha => hb a (List.mem_cons_of_mem _ ha))
      have hr := C09.boxDist2_nonneg r hw'
      have hwe := hw e (by simp)
      have hfix := C09.box_entry_fixed_iff e (hb e (by simp))
      simp only [boxDist2, List.forall_mem_cons]
      set d := e.x - OdlModel.Prox.boxCode e.lo e.hi e.x with hd
      have hdd : 0 ≤ e.w * d * d := by rw [mul_assoc]; exact mul_nonneg hwe.le (mul_self_nonneg _)
      constructor
      · intro h
        have h0 : e.w * d * d = 0 := by linarith
        have hd0 : d = 0 := by
          rw [mul_assoc] at h0
          rcases mul_eq_zero.mp h0 with h | h
          · exact absurd h (ne_of_gt hwe)
          · exact mul_self_eq_zero.mp h
        refine ⟨hfix.mp ?_, ih'.mp (by linarith)⟩
        rw [hd] at hd0; linarith
      · rintro ⟨h1, h2⟩
        have := hfix.mpr h1
        have hd0 : d = 0 := by rw [hd, this]; ring
        rw [hd0]
        have := ih'.mpr h2
        simp; linarith

/-- Sensitivity, on the model: with INVERTED element bounds (`lower = 2 > upper = 1`, which
`proximal_box_constraint` rejects only when both are field scalars) the coded value at `x = upper`
is 0 although no point satisfies `lower ≤ x ≤ upper`: the hypothesis `BoundsOK` of `box_value_iff`
is needed. (The correspondence stream probes this input too: code and model both return 0.) -/
theorem C09.box_inverted_bounds_fails :
    boxIsInf [(⟨1, some 2, some 1, 1⟩ : BoxEntry ℚ)] = false ∧ ¬ InBox (⟨1, some 2, some 1, 1⟩ : BoxEntry ℚ) := by
  constructor
  · simp [boxIsInf, boxDist2, OdlModel.Prox.boxCode, OdlModel.Prox.maxK, OdlModel.Prox.minK]
  · intro h
    have := h.1 2 rfl
    norm_num at this

/-- Non-vacuity: `IndicatorBox(uniform_discr(0,1,2)·, lower=(0, None), upper=(1, None))` at `(1/2, −7)`. -/
example : boxIsInf (mkBox [(1/4 : ℚ), 1/4] [some 0, none] [some 1, none] [1/2, -7]) = false := by
  rw [C09.box_value_iff]
  · intro e he
    simp [mkBox] at he
    rcases he with rfl | rfl <;> constructor <;> intro a ha <;> simp at ha <;> subst ha <;> norm_num
  · intro e he; simp [mkBox] at he; rcases he with rfl | rfl <;> norm_num
  · intro e he; simp [mkBox] at he
    rcases he with rfl | rfl <;> intro a b ha hb <;> simp at ha hb
    subst ha; subst hb; norm_num
end box

section sep
variable {K : Type} [Field K] [LinearOrder K]

/-- **`SeparableSum.derivative(x)(d)` is the sum of the parts' derivatives** (any number of parts,
any sizes, any ordered field): with the product space's inner product (sum of the parts' own
weighted inner products) and `gradient = DiagonalOperator(*gradients)`, the executed
`sepDeriv` (`d.inner(gradient(x))` on the flat concatenation, stream `leaves/sepsum`) equals
`Σᵢ fᵢ.derivative(xᵢ)(dᵢ)`, each in its OWN space — provided every part's gradient and direction
have the length of the part (true for every functional whose gradient maps the space to itself).
Together with `grad_sound_weighted` for each part this makes `derivative(x)(d)` of a separable
sum the sum of the Fréchet derivatives of the parts' values. `sepValue = Σ fᵢ(xᵢ)` is by
construction. -/
theorem C09.sepsum_deriv_split (ps : List (SepPart K))
    (h : ∀ p ∈ ps, (p.f.grad (listOps p.w) p.x).length = p.x.length ∧ p.d.length = p.x.length) :
    sepDeriv ps = (ps.map fun p => p.f.deriv (listOps p.w) p.x p.d).sum := by
  unfold sepDeriv
  induction ps with
  | nil => simp [sepInner]
  | cons p r ih =>
      have hp := h p (by simp)
      have ih' := ih (fun a ha => h a (List.mem_cons_of_mem _ ha))
      simp only [sepInner, sepDir, sepGrad, List.map_cons, List.sum_cons]
      rw [List.take_left' hp.2, List.take_left' hp.1, List.drop_left' hp.2, List.drop_left' hp.1, ih']
      rfl

/-- Non-vacuity: `SeparableSum(L2NormSquared(rn(2)), 3·L1Norm(rn(1, weighting=1/2)))` at
`x = ((1, 2), (−2))`, `d = ((1, 0), (1))`: `1/2 = 2 + (−3/2)`. -/
example : sepDeriv [(⟨[1, 1], .l2sq, [1, 2], [1, 0]⟩ : SepPart ℚ), ⟨[1 / 2], .lscal 3 (.coord .l1), [-2], [1]⟩]
    = ([(⟨[1, 1], .l2sq, [1, 2], [1, 0]⟩ : SepPart ℚ), ⟨[1 / 2], .lscal 3 (.coord .l1), [-2], [1]⟩].map
        fun p => p.f.deriv (listOps p.w) p.x p.d).sum := by
  apply C09.sepsum_deriv_split
  intro p hp
  simp at hp
  rcases hp with rfl | rfl <;> simp [Fn.grad, listOps]
end sep

/-! ### ROUND 4: L2Norm -/
/-- `L2Norm.gradient` on any real Hilbert space: at every `x ≠ 0` the coded `x / ‖x‖` is the
gradient of `z ↦ ‖z‖` w.r.t. the space's own inner product. -/
theorem C09.l2norm_grad {E : Type} [NormedAddCommGroup E] [InnerProductSpace ℝ E] [CompleteSpace E]
    (x : E) (hx : x ≠ 0) : HasGradientAt (fun z : E => ‖z‖) ((1 / ‖x‖) • x) x := by
  have hn : ‖x‖ ≠ 0 := norm_ne_zero_iff.mpr hx
  have hq : (⟪x, x⟫ : ℝ) ≠ 0 := by rw [real_inner_self_eq_norm_sq]; positivity
  have h1 : HasFDerivAt (fun z : E => (⟪z, z⟫ : ℝ)) _ x :=
    HasFDerivAt.inner ℝ (hasFDerivAt_id x) (hasFDerivAt_id x)
  have h2 := HasDerivAt.comp_hasFDerivAt (h₂ := fun t : ℝ => Real.sqrt t) (f := fun z : E => (⟪z, z⟫ : ℝ)) x
    (Real.hasDerivAt_sqrt hq) h1
  have hf : (fun z : E => ‖z‖) = (Real.sqrt ∘ fun z : E => ⟪z, z⟫) := by
    funext z; simp [real_inner_self_eq_norm_sq]
  rw [hf]
  refine C09.hasGradientAt_of_fderiv h2 ?_
  intro d
  simp [fderivInnerCLM_apply, inner_smul_left, real_inner_comm, real_inner_self_eq_norm_sq]
  field_simp
  ring

/-- At `x = 0` the norm has NO gradient (in any space with a non-zero vector): the zero vector
that `L2Gradient._call` returns there is a convention of the code (documented in its docstring),
not a gradient — which is why `x = 0` is excluded from `l2norm_grad_sound_weighted`. -/
theorem C09.l2norm_no_grad_at_zero {E : Type} [NormedAddCommGroup E] [InnerProductSpace ℝ E]
    [CompleteSpace E] (v : E) (hv : v ≠ 0) (g : E) : ¬ HasGradientAt (fun z : E => ‖z‖) g 0 := by
  intro h
  have h1 := h.hasFDerivAt
  have h2 : HasDerivAt (fun t : ℝ => t • v) v 0 := by
    simpa using (hasDerivAt_id (0 : ℝ)).smul_const v
  have h3 := h1.comp_hasDerivAt_of_eq (0 : ℝ) h2 (by simp)
  have hv' : ‖v‖ ≠ 0 := norm_ne_zero_iff.mpr hv
  have h4 : DifferentiableAt ℝ (fun t : ℝ => |t|) 0 := by
    have := (h3.differentiableAt).mul_const (‖v‖⁻¹)
    refine this.congr_of_eventuallyEq (Filter.Eventually.of_forall fun t => ?_)
    simp [norm_smul, Function.comp, mul_assoc, hv']
  exact not_differentiableAt_abs_zero h4

section l2w
variable {n : ℕ} (w : Fin n → ℝ) [hw : Fact (∀ i, 0 < w i)]

/-- The executed list value `sqrt(Σ wᵢ zᵢ²)` is the norm of `WSp w` (helper). -/
theorem C09.l2Val_eq_norm (z : WSp w) : l2Val Real.sqrt (List.ofFn w) (List.ofFn z.val) = ‖z‖ := by
  unfold l2Val
  rw [← C09.wOps_norm_sq, Real.sqrt_sq (norm_nonneg _)]

/-- **`L2Norm.gradient` is the gradient of `L2Norm._call` on every weighted space** (all `n`, all
weights `w > 0`): at every `x ≠ 0` the EXECUTED list gradient `l2Grad` (with `sqrt := Real.sqrt`;
the driver runs the same definition with a rational root, stream `leaves/l2`) is the gradient,
w.r.t. the weighted inner product, of the executed value `l2Val`. Discharges the leaf hypothesis
of `grad_sound` for an L2-norm leaf. -/
theorem C09.l2norm_grad_sound_weighted (x : WSp w) (hx : x ≠ 0) :
    HasGradientAt (fun z : WSp w => l2Val Real.sqrt (List.ofFn w) (List.ofFn z.val))
      (WSp.of (ofL (l2Grad Real.sqrt (List.ofFn w) (List.ofFn x.val)))) x := by
  have hf : (fun z : WSp w => l2Val Real.sqrt (List.ofFn w) (List.ofFn z.val)) = fun z => ‖z‖ :=
    funext (C09.l2Val_eq_norm w)
  have hn : ‖x‖ ≠ 0 := norm_ne_zero_iff.mpr hx
  have hg : (WSp.of (ofL (l2Grad Real.sqrt (List.ofFn w) (List.ofFn x.val))) : WSp w)
      = (1 / ‖x‖) • x := by
    have e := C09.l2Val_eq_norm w x
    unfold l2Val at e
    unfold l2Grad
    rw [e, if_neg hn, ofL_map_ofFn]
    apply WSp.ext'
    funext i
    show x.val i / ‖x‖ = (1 / ‖x‖) * x.val i
    ring
  rw [hf, hg]
  exact C09.l2norm_grad x hx
end l2w

/-- Non-vacuity: `uniform_discr` with two cells of volume 1/4 at `x = (3, −4)`. -/
example : HasGradientAt
    (fun z : WSp ![1 / 4, 1 / 4] => l2Val Real.sqrt (List.ofFn (![1 / 4, 1 / 4] : Fin 2 → ℝ)) (List.ofFn z.val))
    (WSp.of (ofL (l2Grad Real.sqrt (List.ofFn (![1 / 4, 1 / 4] : Fin 2 → ℝ))
      (List.ofFn (WSp.of ![3, -4] : WSp ![1 / 4, 1 / 4]).val)))) (WSp.of ![3, -4]) := by
  apply C09.l2norm_grad_sound_weighted
  intro h
  have := congrFun (congrArg WSp.val h) 0
  simp [WSp.val_of, WSp.val_zero] at this

/-! ### ROUND 5: expression trees over the new leaves (`FnX`) -/
section ext
variable {E : Type} [NormedAddCommGroup E] [InnerProductSpace ℝ E] [CompleteSpace E]

namespace OdlModel.C09
/-- Side conditions for a tree over the new leaves: `WF` for embedded `Fn` trees, the leaf's coded
gradient is a gradient at the point the evaluation visits. -/
def WFX (o : VecOps E ℝ) (lo : LeafOps E ℝ) : FnX E ℝ → E → Prop
  | .base t, x => WF o t x
  | .kl g, x => HasGradientAt (lo.klVal g) (lo.klGrad g x) x
  | .klcc g, x => HasGradientAt (lo.klccVal g) (lo.klccGrad g x) x
  | .l2, x => HasGradientAt lo.l2Val (lo.l2Grad x) x
  | .lscal _ f, x => WFX o lo f x
  | .rscal f s, x => WFX o lo f (o.smul s x)
  | .sum f g, x => WFX o lo f x ∧ WFX o lo g x
  | .ssum f _, x => WFX o lo f x
  | .trans f t, x => WFX o lo f (o.sub x t)
  | .qp f _ _ _, x => WFX o lo f x
end OdlModel.C09

/-- **`grad_sound` for trees OVER the new leaves** (`FnX`: KL, KL-conjugate, L2-norm leaves and whole
`Fn` trees under left/right scalar multiplication, sum, scalar sum, translation, quadratic
perturbation; all depths, every real Hilbert space): under `WFX` the coded gradient — built node
by node exactly as `Fn.grad` — is the gradient of the value. The leaf gradients are hypotheses here
and DISCHARGED on the weighted spaces by `grad_sound_ext_weighted`. -/
theorem C09.grad_sound_ext (μ : E → E → E) (cv : Builtin ℝ → E → ℝ) (cd : Builtin ℝ → E → Bool)
    (cg : Builtin ℝ → E → E) (lo : LeafOps E ℝ) (t : FnX E ℝ) (x : E)
    (h : WFX (eOps μ cv cd cg) lo t x) :
    HasGradientAt (fun z => t.value (eOps μ cv cd cg) lo z) (t.grad (eOps μ cv cd cg) lo x) x := by
  induction t generalizing x with
  | base t => exact C09.grad_sound μ cv cd cg t x h
  | kl g => exact h
  | klcc g => exact h
  | l2 => exact h
  | lscal s f ih =>
      have := (ih x h).hasFDerivAt.const_mul s
      refine C09.hasGradientAt_of_fderiv this ?_
      intro d; simp [FnX.grad, eOps, inner_smul_left]
  | rscal f s ih =>
      have h1 := (ih _ h).hasFDerivAt
      have h2 : HasFDerivAt (fun z : E => s • z) (s • ContinuousLinearMap.id ℝ E) x :=
        (hasFDerivAt_id x).const_smul s
      have := HasFDerivAt.comp x h1 h2
      refine C09.hasGradientAt_of_fderiv this ?_
      intro d; simp [FnX.grad, eOps, inner_smul_left, inner_smul_right]
  | sum f g ihf ihg =>
      have := (ihf x h.1).hasFDerivAt.add (ihg x h.2).hasFDerivAt
      refine C09.hasGradientAt_of_fderiv this ?_
      intro d; simp [FnX.grad, eOps, inner_add_left]
  | ssum f c ih =>
      have := (ih x h).hasFDerivAt.add_const c
      refine C09.hasGradientAt_of_fderiv this ?_
      intro d; simp [FnX.grad, eOps]
  | trans f t ih =>
      have h1 := (ih _ h).hasFDerivAt
      have h2 : HasFDerivAt (fun z : E => z - t) (ContinuousLinearMap.id ℝ E) x :=
        (hasFDerivAt_id x).sub_const t
      have := HasFDerivAt.comp x h1 h2
      refine C09.hasGradientAt_of_fderiv this ?_
      intro d; simp [FnX.grad, eOps]
  | qp f a u c ih =>
      have h1 := (ih x h).hasFDerivAt
      have h2 := (HasFDerivAt.inner ℝ (hasFDerivAt_id x) (hasFDerivAt_id x)).const_mul a
      have h3 := HasFDerivAt.inner ℝ (hasFDerivAt_id x) (hasFDerivAt_const u x)
      have := ((h1.add h2).add h3).add_const c
      refine C09.hasGradientAt_of_fderiv this ?_
      intro d
      simp [FnX.grad, eOps, two, fderivInnerCLM_apply, inner_add_left, inner_smul_left,
        real_inner_comm]
      ring
end ext

section extw
variable {n : ℕ} (w : Fin n → ℝ) [hw : Fact (∀ i, 0 < w i)]

namespace OdlModel.C09
/-- The new leaves on `WSp w`, gradients computed by THE LIST FUNCTIONS THE DRIVER EXECUTES
(`sqrt := Real.sqrt`), values by the documented formulas. -/
noncomputable def wLeafOps : LeafOps (WSp w) ℝ where
  klVal := fun g z => ∑ i, w i * klVal1 (g.val i) (z.val i)
  klGrad := fun g x => WSp.of (ofL (klGrad (List.ofFn g.val) (List.ofFn x.val)))
  klOk := fun x => klGradFinite (List.ofFn x.val)
  klccVal := fun g z => ∑ i, w i * klccVal1 (g.val i) (z.val i)
  klccGrad := fun g x => WSp.of (ofL (klccGrad (List.ofFn g.val) (List.ofFn x.val)))
  klccOk := fun x => klccGradFinite (List.ofFn x.val)
  l2Val := fun z => l2Val Real.sqrt (List.ofFn w) (List.ofFn z.val)
  l2Grad := fun x => WSp.of (ofL (l2Grad Real.sqrt (List.ofFn w) (List.ofFn x.val)))

/-- Side conditions on the INPUT only. -/
def WFXw {n : ℕ} (w : Fin n → ℝ) [Fact (∀ i, 0 < w i)] : FnX (WSp w) ℝ → WSp w → Prop
  | .base t, x => WFw w t x
  | .kl _, x => klDom (List.ofFn x.val) = true
  | .klcc _, x => klccDom (List.ofFn x.val) = true
  | .l2, x => x ≠ 0
  | .lscal _ f, x => WFXw w f x
  | .rscal f s, x => WFXw w f ((wOps w).smul s x)
  | .sum f g, x => WFXw w f x ∧ WFXw w g x
  | .ssum f _, x => WFXw w f x
  | .trans f t, x => WFXw w f ((wOps w).sub x t)
  | .qp f _ _ _, x => WFXw w f x
end OdlModel.C09

/-- On `WSp w` the leaf hypotheses of `WFX` follow from conditions on the input alone
(`kl_grad_sound_weighted`, `klcc_grad_sound_weighted`, `l2norm_grad_sound_weighted`, `wfw_wf`). -/
theorem C09.wfxw_wfx (t : FnX (WSp w) ℝ) (x : WSp w) (h : WFXw w t x) :
    WFX (wOps w) (wLeafOps w) t x := by
  induction t generalizing x with
  | base t => exact C09.wfw_wf w t x h
  | kl g => exact C09.kl_grad_sound_weighted w g.val x h
  | klcc g => exact C09.klcc_grad_sound_weighted w g.val x h
  | l2 => exact C09.l2norm_grad_sound_weighted w x h
  | lscal s f ih => exact ih x h
  | rscal f s ih => exact ih _ h
  | sum f g ihf ihg => exact ⟨ihf x h.1, ihg x h.2⟩
  | ssum f c ih => exact ih x h
  | trans f t ih => exact ih _ h
  | qp f a u c ih => exact ih x h

/-- **Trees over KullbackLeibler / KullbackLeiblerConvexConj / L2Norm leaves on the weighted spaces,
WITHOUT hand-supplied leaf hypotheses**: for all `n`, all weights `w > 0`, every tree of `FnX` whose
leaf gradients are computed by the executed list functions (driver ops `xgrad` / `xderiv`, compared
with `f.gradient(x)` / `f.derivative(x)(d)` of the live object whenever `wire` meets a class outside
`Fn`), at every point where the EXECUTED domain tests hold at the visited leaf arguments (`klDom`,
`klccDom`, `x ≠ 0` for the L2 norm, `WFw` for embedded `Fn` trees), the coded gradient is the gradient
of the documented value and `derivative(x)(d)` is the Fréchet derivative applied to `d`. (`Fn` itself
is shared with C08 and could not be extended without breaking its exhaustive inductions; `FnX` embeds
every `Fn` tree as a leaf instead. A new leaf UNDER an `Fn`-only node — product, quotient, composition,
vector multiplication, Bregman — is still outside.) -/
theorem C09.grad_sound_ext_weighted (t : FnX (WSp w) ℝ) (x d : WSp w) (h : WFXw w t x) :
    HasGradientAt (fun z => t.value (wOps w) (wLeafOps w) z) (t.grad (wOps w) (wLeafOps w) x) x ∧
      fderiv ℝ (fun z => t.value (wOps w) (wLeafOps w) z) x d = t.deriv (wOps w) (wLeafOps w) x d := by
  have hg : HasGradientAt (fun z => t.value (wOps w) (wLeafOps w) z)
      (t.grad (wOps w) (wLeafOps w) x) x :=
    C09.grad_sound_ext _ _ _ _ (wLeafOps w) t x (C09.wfxw_wfx w t x h)
  refine ⟨hg, ?_⟩
  rw [hg.fderiv_apply]
  show ⟪t.grad (wOps w) (wLeafOps w) x, d⟫ = ⟪d, t.grad (wOps w) (wLeafOps w) x⟫
  exact real_inner_comm _ _
end extw

/-- Non-vacuity: `2·KL_{(1,3/2)}(· − (−1, 0)) + ‖·‖₂ + ‖·‖₁` on two cells of volume 1/4 at `(1/2, 2)`. -/
example : WFXw ![1 / 4, 1 / 4]
    (FnX.sum (.lscal 2 (.trans (.kl (WSp.of ![1, 3 / 2])) (WSp.of ![-1, 0])))
      (.sum .l2 (.base (.coord .l1)))) (WSp.of ![1 / 2, 2]) := by
  refine ⟨?_, ?_, ?_⟩
  · show klDom (List.ofFn ((WSp.of ![1 / 2, 2] : WSp ![1 / 4, 1 / 4]) - WSp.of ![-1, 0]).val) = true
    simp [klDom, WSp.val_sub, WSp.val_of]
    norm_num
  · intro h
    have := congrFun (congrArg WSp.val h) 0
    simp [WSp.val_of, WSp.val_zero] at this
  · intro i
    fin_cases i <;> simp [WSp.val_of]
