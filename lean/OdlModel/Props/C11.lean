/-
C11 — optimised solvers match their reference implementations and resume exactly.
Property theorems only.  The state machines are those of `Model/Solvers.lean` (one `let`
per Python statement of the loop bodies); operators, adjoints, proximals and gradients are
ARBITRARY functions, the carriers arbitrary modules over an arbitrary field, `n`, `m`
arbitrary naturals.  What is abstracted: floating-point rounding ("up to rounding" in the
property is delivered as the tolerance of the correspondence check) and identity aliasing
inside the called operators (C10).
-/
import OdlModel.Model.Solvers
import OdlModel.Lemmas.Solvers
import Mathlib.Algebra.Module.Basic
import Mathlib.Algebra.Field.Rat
import Mathlib.Algebra.Order.Field.Rat
import Mathlib.Tactic.Module
import Mathlib.Tactic.Abel
import Mathlib.Tactic.NormNum

open OdlModel.Solvers

/-! ### Linearized ADMM -/

/-- One loop body of `admm_linearized` and of `admm_linearized_simple` started from states
that agree on `x, z, u`, with the buffer `tmp_ran` holding `L x` (the comment
"tmp_ran has value Lx^k here" in the code), end in states that agree and re-establish it. -/
theorem C11.admm_step_refines {K V W : Type} [Field K] [AddCommGroup V] [Module K V]
    [AddCommGroup W] (P : AdmmP K V W) (so : AdmmOpt V W) (ss : AdmmSimple V W)
    (h : so.x = ss.x ∧ so.z = ss.z ∧ so.u = ss.u ∧ so.tmpRan = P.L so.x) :
    (P.stepOpt so).x = (P.stepSimple ss).x ∧ (P.stepOpt so).z = (P.stepSimple ss).z ∧
    (P.stepOpt so).u = (P.stepSimple ss).u ∧ (P.stepOpt so).tmpRan = P.L (P.stepOpt so).x := by
  obtain ⟨x, z, u, t, d⟩ := so
  obtain ⟨x', z', u'⟩ := ss
  obtain ⟨hx, hz, hu, ht⟩ := h
  simp only at hx hz hu ht
  subst hx hz hu ht
  have e1 : lincomb 1 x (-P.tau / P.sigma) (P.Ladj (P.L x + u - z)) =
      x - (P.tau / P.sigma) • P.Ladj (P.L x + u - z) := by
    simp only [lincomb]; rw [neg_div]; module
  simp only [AdmmP.stepOpt, AdmmP.stepSimple, e1, true_and, and_true]
  abel

/-- `admm_linearized` = `admm_linearized_simple`: for every operator pair, every pair of
proximal maps (arbitrary functions), all step sizes, every start point, every content of
the uninitialised temporary and EVERY iteration count `n`, the optimised solver's `x, z, u`
after `n` iterations are those of the reference implementation. -/
theorem C11.admm_refines {K V W : Type} [Field K] [AddCommGroup V] [Module K V]
    [AddCommGroup W] (P : AdmmP K V W) (x0 : V) (zeroW : W) (junk : V) (n : Nat) :
    (P.stepOpt^[n] (P.initOpt x0 zeroW junk)).x = (P.stepSimple^[n] (P.initSimple x0 zeroW)).x ∧
    (P.stepOpt^[n] (P.initOpt x0 zeroW junk)).z = (P.stepSimple^[n] (P.initSimple x0 zeroW)).z ∧
    (P.stepOpt^[n] (P.initOpt x0 zeroW junk)).u = (P.stepSimple^[n] (P.initSimple x0 zeroW)).u :=
  have h := iterate_sim P.stepOpt P.stepSimple
    (fun so ss => so.x = ss.x ∧ so.z = ss.z ∧ so.u = ss.u ∧ so.tmpRan = P.L so.x)
    (fun so ss h => C11.admm_step_refines P so ss h) n
    (P.initOpt x0 zeroW junk) (P.initSimple x0 zeroW) ⟨rfl, rfl, rfl, rfl⟩
  ⟨h.1, h.2.1, h.2.2.1⟩

/-- …and the two callbacks observe the same sequence of iterates. -/
theorem C11.admm_logs_agree {K V W : Type} [Field K] [AddCommGroup V] [Module K V]
    [AddCommGroup W] (P : AdmmP K V W) (x0 : V) (zeroW : W) (junk : V) (n : Nat) :
    (runLog P.stepOpt (·.x) n (P.initOpt x0 zeroW junk) []).2 =
      (runLog P.stepSimple (·.x) n (P.initSimple x0 zeroW) []).2 := by
  simp only [runLog_eq, List.nil_append]
  exact List.map_congr_left (fun k _ => (C11.admm_refines P x0 zeroW junk (k + 1)).1)

/-- Non-vacuity: a concrete 1-d instance (L = 2·, prox_f = soft-threshold-like shift,
prox_g = halving) moves: after two iterations the iterate is neither the start point nor 0. -/
example :
    let P : AdmmP ℚ ℚ ℚ := ⟨fun x => 2 * x, fun y => 2 * y, fun x => x - 1 / 4, fun y => y / 2, 1 / 8, 1⟩
    (P.stepOpt^[2] (P.initOpt 1 0 (-77))).x = -1 / 8 ∧
    (P.stepSimple^[2] (P.initSimple 1 0)).x = -1 / 8 := by
  simp only [Function.iterate_succ, Function.iterate_zero, Function.comp, AdmmP.stepOpt,
    AdmmP.stepSimple, AdmmP.initOpt, AdmmP.initSimple, lincomb, smul_eq_mul]
  norm_num
