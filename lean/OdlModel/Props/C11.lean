/-
C11 — optimised solvers match their reference implementations and resume exactly.
Property theorems only.  The state machines are those of `Model/Solvers.lean` (one `let`
per Python statement of the loop bodies); operators, adjoints, proximals and gradients are
ARBITRARY functions, the carriers arbitrary modules over an arbitrary field, `n`, `m`
arbitrary naturals.  What is abstracted: floating-point rounding ("up to rounding" in the
property is delivered as the tolerance of the correspondence check) and identity aliasing
inside the called operators (C10).
-/
import OdlModel.Model.Solvers
import OdlModel.Model.SolversResume
import OdlModel.Lemmas.Solvers
import Mathlib.Algebra.Module.Basic
import Mathlib.Algebra.Module.Prod
import Mathlib.Algebra.Field.Rat
import Mathlib.Algebra.Order.Field.Rat
import Mathlib.Tactic.Module
import Mathlib.Tactic.Abel
import Mathlib.Tactic.NormNum
import Mathlib.Tactic.FieldSimp
import Mathlib.Tactic.Ring

open OdlModel.Solvers

/-! ### Linearized ADMM -/

/-- One loop body of `admm_linearized` and of `admm_linearized_simple` started from states
that agree on `x, z, u`, with the buffer `tmp_ran` holding `L x` (the comment
"tmp_ran has value Lx^k here" in the code), end in states that agree and re-establish it. -/
theorem C11.admm_step_refines {K V W : Type} [Field K] [AddCommGroup V] [Module K V]
    [AddCommGroup W] (P : AdmmP K V W) (so : AdmmOpt V W) (ss : AdmmSimple V W)
    (h : so.x = ss.x ∧ so.z = ss.z ∧ so.u = ss.u ∧ so.tmpRan = P.L so.x) :
    (P.stepOpt so).x = (P.stepSimple ss).x ∧ (P.stepOpt so).z = (P.stepSimple ss).z ∧
    (P.stepOpt so).u = (P.stepSimple ss).u ∧ (P.stepOpt so).tmpRan = P.L (P.stepOpt so).x := by
  obtain ⟨x, z, u, t, d⟩ := so
  obtain ⟨x', z', u'⟩ := ss
  obtain ⟨hx, hz, hu, ht⟩ := h
  simp only at hx hz hu ht
  subst hx hz hu ht
  have e1 : lincomb 1 x (-P.tau / P.sigma) (P.Ladj (P.L x + u - z)) =
      x - (P.tau / P.sigma) • P.Ladj (P.L x + u - z) := by
    simp only [lincomb]; rw [neg_div]; module
  simp only [AdmmP.stepOpt, AdmmP.stepSimple, e1, true_and, and_true]
  abel

/-- `admm_linearized` = `admm_linearized_simple`: for every operator pair, every pair of
proximal maps (arbitrary functions), all step sizes, every start point, every content of
the uninitialised temporary and EVERY iteration count `n`, the optimised solver's `x, z, u`
after `n` iterations are those of the reference implementation. -/
theorem C11.admm_refines {K V W : Type} [Field K] [AddCommGroup V] [Module K V]
    [AddCommGroup W] (P : AdmmP K V W) (x0 : V) (zeroW : W) (junk : V) (n : Nat) :
    (P.stepOpt^[n] (P.initOpt x0 zeroW junk)).x = (P.stepSimple^[n] (P.initSimple x0 zeroW)).x ∧
    (P.stepOpt^[n] (P.initOpt x0 zeroW junk)).z = (P.stepSimple^[n] (P.initSimple x0 zeroW)).z ∧
    (P.stepOpt^[n] (P.initOpt x0 zeroW junk)).u = (P.stepSimple^[n] (P.initSimple x0 zeroW)).u :=
  have h := iterate_sim P.stepOpt P.stepSimple
    (fun so ss => so.x = ss.x ∧ so.z = ss.z ∧ so.u = ss.u ∧ so.tmpRan = P.L so.x)
    (fun so ss h => C11.admm_step_refines P so ss h) n
    (P.initOpt x0 zeroW junk) (P.initSimple x0 zeroW) ⟨rfl, rfl, rfl, rfl⟩
  ⟨h.1, h.2.1, h.2.2.1⟩

/-- …and the two callbacks observe the same sequence of iterates. -/
theorem C11.admm_logs_agree {K V W : Type} [Field K] [AddCommGroup V] [Module K V]
    [AddCommGroup W] (P : AdmmP K V W) (x0 : V) (zeroW : W) (junk : V) (n : Nat) :
    (runLog P.stepOpt (·.x) n (P.initOpt x0 zeroW junk) []).2 =
      (runLog P.stepSimple (·.x) n (P.initSimple x0 zeroW) []).2 := by
  simp only [runLog_eq, List.nil_append]
  exact List.map_congr_left (fun k _ => (C11.admm_refines P x0 zeroW junk (k + 1)).1)

/-- Non-vacuity: a concrete 1-d instance (L = 2·, prox_f = soft-threshold-like shift,
prox_g = halving) moves: after two iterations the iterate is neither the start point nor 0. -/
example :
    let P : AdmmP ℚ ℚ ℚ := ⟨fun x => 2 * x, fun y => 2 * y, fun x => x - 1 / 4, fun y => y / 2, 1 / 8, 1⟩
    (P.stepOpt^[2] (P.initOpt 1 0 (-77))).x = -1 / 8 ∧
    (P.stepSimple^[2] (P.initSimple 1 0)).x = -1 / 8 := by
  simp only [Function.iterate_succ, Function.iterate_zero, Function.comp, AdmmP.stepOpt,
    AdmmP.stepSimple, AdmmP.initOpt, AdmmP.initSimple, lincomb, smul_eq_mul]
  norm_num

/-! ### Alternating dual updates -/

/-- One outer iteration of `adupdates` and of `adupdates_simple` from states that agree on `x`
and the duals end in states that agree — PROVIDED the proximal that `adupdates` hoists out of the
loop (`proxs[j]`) is the one `adupdates_simple` rebuilds in every inner iteration (`hprox`).  The
optimised body writes the proximal result into the shared buffer `tmp_rans[ran]` and computes `x`
and `duals[j]` from what it READS there; the proof uses that the read follows the write of the
same slot (`upd … (rid j) … (rid j)`), for every assignment `rid` of operators to buffers. -/
theorem C11.adupdates_step_refines {K V W : Type} [Field K] [AddCommGroup V] [Module K V]
    [AddCommGroup W] [Module K W] (P : AduP K V W) (hprox : ∀ j w, P.prox j w = P.proxSimple j w)
    (so : AduOpt V W) (ss : AduSimple V W) (h : so.x = ss.x ∧ so.duals = ss.duals) :
    (P.stepOpt so).x = (P.stepSimple ss).x ∧ (P.stepOpt so).duals = (P.stepSimple ss).duals := by
  have hin : ∀ j (a : AduOpt V W) (b : AduSimple V W), (a.x = b.x ∧ a.duals = b.duals) →
      ((P.innerOpt j a).x = (P.innerSimple j b).x ∧
       (P.innerOpt j a).duals = (P.innerSimple j b).duals) := by
    intro j a b ⟨h1, h2⟩
    simp only [AduP.innerOpt, AduP.innerSimple, upd, if_true, h1, h2, hprox, and_self]
  have h2 := forRange_sim P.innerOpt P.innerSimple (fun a b => a.x = b.x ∧ a.duals = b.duals) hin P.m
    { so with x := P.primal so.duals so.x } { ss with x := P.primal ss.duals ss.x }
    (by simp only [h.1, h.2, and_self])
  unfold AduP.stepOpt AduP.stepSimple
  split <;> exact h2

/-- `adupdates` = `adupdates_simple` (fixed order) when the hoisted proximals agree with the
per-iteration ones: for every number of operators, all operators / adjoints (arbitrary functions),
all step sizes, every assignment `rid` of operators to shared buffers and every initial content of
those buffers, scalar AND pointwise inner step sizes, every `n`: same `x`, same duals. -/
theorem C11.adupdates_refines {K V W : Type} [Field K] [AddCommGroup V] [Module K V]
    [AddCommGroup W] [Module K W] (P : AduP K V W) (hprox : ∀ j w, P.prox j w = P.proxSimple j w)
    (x0 : V) (duals0 tmp0 : Nat → W) (n : Nat) :
    (P.stepOpt^[n] ⟨x0, duals0, tmp0, []⟩).x = (P.stepSimple^[n] ⟨x0, duals0⟩).x ∧
    (P.stepOpt^[n] ⟨x0, duals0, tmp0, []⟩).duals = (P.stepSimple^[n] ⟨x0, duals0⟩).duals :=
  iterate_sim P.stepOpt P.stepSimple (fun a b => a.x = b.x ∧ a.duals = b.duals)
    (fun so ss h => C11.adupdates_step_refines P hprox so ss h) n _ _ ⟨rfl, rfl⟩

/-- The hypothesis is needed: with a hoisted proximal that differs from the per-iteration one
(e.g. built from a different step, seed C11-1) the two solvers differ after ONE iteration. -/
theorem C11.adupdates_refines_needs_prox :
    let P : AduP ℚ ℚ ℚ := ⟨1, fun _ x => x, fun _ y => y, fun _ y => y / 2, fun _ y => y / 4, 1,
      fun _ => .scalar 1, fun a b => a * b, fun _ => 0, false⟩
    (P.stepOpt^[1] ⟨1, fun _ => 0, fun _ => -77, []⟩).x ≠ (P.stepSimple^[1] ⟨1, fun _ => 0⟩).x := by
  simp only [Function.iterate_succ, Function.iterate_zero, Function.comp, AduP.stepOpt,
    AduP.stepSimple, AduP.primal, AduP.innerOpt, AduP.innerSimple, AduP.scaled, forRange, List.range,
    List.range.loop, List.foldl, upd, smul_eq_mul]
  norm_num

/-- `adupdates` as executed (buffers written and read back): `x`, the duals and the callback log
after ANY number of iterations do not depend on the initial content of the shared temporaries
`tmp_rans` (uninitialised `ran.element()`), for every assignment `rid` of operators to buffers —
each read of a buffer slot follows a write of the same slot within the same inner iteration. -/
theorem C11.adupdates_independent_of_buffers {K V W : Type} [Field K] [AddCommGroup V] [Module K V]
    [AddCommGroup W] [Module K W] (P : AduP K V W) (x0 : V) (duals0 tmp0 tmp0' : Nat → W)
    (log0 : List V) (n : Nat) :
    (P.stepOpt^[n] ⟨x0, duals0, tmp0, log0⟩).x = (P.stepOpt^[n] ⟨x0, duals0, tmp0', log0⟩).x ∧
    (P.stepOpt^[n] ⟨x0, duals0, tmp0, log0⟩).duals = (P.stepOpt^[n] ⟨x0, duals0, tmp0', log0⟩).duals ∧
    (P.stepOpt^[n] ⟨x0, duals0, tmp0, log0⟩).log = (P.stepOpt^[n] ⟨x0, duals0, tmp0', log0⟩).log := by
  refine iterate_sim P.stepOpt P.stepOpt (fun a b => a.x = b.x ∧ a.duals = b.duals ∧ a.log = b.log) ?_ n
    ⟨x0, duals0, tmp0, log0⟩ ⟨x0, duals0, tmp0', log0⟩ ⟨rfl, rfl, rfl⟩
  intro a b ⟨h1, h2, h3⟩
  have hin : ∀ j (a b : AduOpt V W), (a.x = b.x ∧ a.duals = b.duals ∧ a.log = b.log) →
      ((P.innerOpt j a).x = (P.innerOpt j b).x ∧ (P.innerOpt j a).duals = (P.innerOpt j b).duals ∧
       (P.innerOpt j a).log = (P.innerOpt j b).log) := by
    intro j a b ⟨g1, g2, g3⟩
    simp only [AduP.innerOpt, upd, if_true, g1, g2, g3, and_self]
  have h := forRange_sim P.innerOpt P.innerOpt
    (fun a b => a.x = b.x ∧ a.duals = b.duals ∧ a.log = b.log) hin P.m
    { a with x := P.primal a.duals a.x } { b with x := P.primal b.duals b.x }
    (by simp only [h1, h2, h3, and_self])
  unfold AduP.stepOpt
  split
  · exact h
  · exact ⟨h.1, h.2.1, by simp only [h.2.2, h.1]⟩

/-! ### Double-proximal DC -/
/-- The loop bodies of `doubleprox_dc` (in-place `lincomb`s) and `doubleprox_dc_simple` are the same map. -/
theorem C11.doubleprox_step_refines {K V W : Type} [Field K] [AddCommGroup V] [Module K V]
    [AddCommGroup W] [Module K W] (P : DpdcP K V W) (s : V × W) :
    P.stepOpt s = P.stepSimple s := by
  have e1 : lincomb 1 s.1 P.gamma (P.Kadj s.2 - P.gradPhi s.1) =
      s.1 + P.gamma • P.Kadj s.2 - P.gamma • P.gradPhi s.1 := by
    simp only [lincomb]; module
  have e2 : ∀ w : W, lincomb 1 s.2 P.mu w = s.2 + P.mu • w := by
    intro w; simp only [lincomb]; module
  simp only [DpdcP.stepOpt, DpdcP.stepSimple, e1, e2]

/-- `doubleprox_dc` = `doubleprox_dc_simple`: same `(x, y)` after every number `n` of iterations,
for all `K`, `K*`, proximals and gradient (arbitrary functions), all `gamma`, `mu`, all starts. -/
theorem C11.doubleprox_refines {K V W : Type} [Field K] [AddCommGroup V] [Module K V]
    [AddCommGroup W] [Module K W] (P : DpdcP K V W) (x0 : V) (y0 : W) (n : Nat) :
    P.stepOpt^[n] (x0, y0) = P.stepSimple^[n] (x0, y0) := by
  have : P.stepOpt = P.stepSimple := funext (C11.doubleprox_step_refines P)
  rw [this]

/-! ### Resumption -/
section
variable {K V W : Type} [Field K] [AddCommGroup V] [Module K V] [AddCommGroup W] [Module K W]
set_option linter.unusedSectionVars false

/-- Landweber: `n` iterations, then a fresh call (temporaries re-allocated with arbitrary content)
with `m` more, gives the iterate of `n + m` iterations; any (non-linear) operator, any projection. -/
theorem C11.resume_landweber (P : LandweberP K V W) (x0 : V) (jW jW' : W) (jV jV' : V) (n m : Nat) :
    (P.step^[m] (P.init (P.step^[n] (P.init x0 jW jV)).x jW' jV')).x =
      (P.step^[n + m] (P.init x0 jW jV)).x :=
  resume_generic P.step (·.x) (fun x => P.init x jW' jV')
    (fun s t h => by simp only [LandweberP.step] at *; rw [h]) (fun _ => rfl) n m _

/-- Kaczmarz in fixed order (any number of operators, projection, callback mode): `n` sweeps then
`m` sweeps from a fresh call = `n + m` sweeps. -/
theorem C11.resume_kaczmarz (P : KaczmarzP K V W) (x0 : V) (tR tR' : Nat → W) (jV jV' : V)
    (log' : List V) (n m : Nat) :
    (P.step^[m] ⟨(P.step^[n] ⟨x0, tR, jV, []⟩).x, tR', jV', log'⟩).x =
      (P.step^[n + m] ⟨x0, tR, jV, []⟩).x :=
  resume_generic P.step (·.x) (fun x => ⟨x, tR', jV', log'⟩)
    (fun s t h => by
      have := forRange_sim P.inner P.inner (fun a b => a.x = b.x)
        (fun i a b hab => by simp only [KaczmarzP.inner] at *; rw [hab]) P.m s t h
      unfold KaczmarzP.step
      split <;> exact this) (fun _ => rfl) n m _

/-- Proximal gradient with a CONSTANT relaxation `lam` (the iteration counter `k` restarts at 0 in
a fresh call, so a callable `lam` is excluded): `n` then `m` iterations = `n + m`. -/
theorem C11.resume_proximal_gradient (P : ProxGradP K V) (c : K) (hlam : ∀ k, P.lam k = c)
    (x0 junk junk' : V) (n m : Nat) :
    (P.step^[m] (P.init (P.step^[n] (P.init x0 junk)).x junk')).x =
      (P.step^[n + m] (P.init x0 junk)).x :=
  resume_generic P.step (·.x) (fun x => P.init x junk')
    (fun s t h => by simp only [ProxGradP.step, hlam] at *; rw [h]) (fun _ => rfl) n m _

/-- MLEM / OSMLEM (any number of subsets; clamps, divisions, products arbitrary functions): `n`
then `m` iterations from a fresh call = `n + m` iterations. -/
theorem C11.resume_osmlem (P : OsmlemP V W) (x0 jV jV' : V) (tR tR' : Nat → W) (log' : List V)
    (n m : Nat) :
    (P.step^[m] ⟨(P.step^[n] ⟨x0, jV, tR, []⟩).x, jV', tR', log'⟩).x =
      (P.step^[n + m] ⟨x0, jV, tR, []⟩).x :=
  resume_generic P.step (·.x) (fun x => ⟨x, jV', tR', log'⟩)
    (fun s t h => forRange_sim P.inner P.inner (fun a b => a.x = b.x)
        (fun i a b hab => by simp only [OsmlemP.inner] at *; rw [hab]) P.nOps s t h)
    (fun _ => rfl) n m _

/-- PDHG with constant `tau, sigma, theta`: when the `x_relax` and `y` the first call updated in place
are passed back, `n` then `m` iterations give the same `x, x_relax, y` as `n + m` iterations. -/
theorem C11.pdhg_resume (P : PdhgP K V W) (x0 : V) (xr0 : Option V) (y0 : Option W) (zeroW : W)
    (jV jV' : V) (jW jW' : W) (n m : Nat) :
    let s := P.step^[n] (P.init x0 xr0 y0 zeroW jV jW)
    let r := P.step^[m] (P.init s.x (some s.xRelax) (some s.y) zeroW jV' jW')
    let t := P.step^[n + m] (P.init x0 xr0 y0 zeroW jV jW)
    r.x = t.x ∧ r.xRelax = t.xRelax ∧ r.y = t.y := by
  intro s r t
  have := resume_generic P.step (fun s => (s.x, s.xRelax, s.y))
    (fun o => P.init o.1 (some o.2.1) (some o.2.2) zeroW jV' jW')
    (fun a b h => by
      simp only [Prod.mk.injEq] at h
      obtain ⟨h1, h2, h3⟩ := h
      simp only [PdhgP.step, h1, h2, h3]) (fun _ => rfl) n m (P.init x0 xr0 y0 zeroW jV jW)
  simp only [Prod.mk.injEq] at this
  exact this

/-- Without passing `x_relax` and `y` back, resumption differs. -/
theorem C11.pdhg_resume_needs_state :
    let P : PdhgP ℚ ℚ ℚ := ⟨id, fun _ y => y, id, id, 1 / 2, 1, 1⟩
    let s := P.step^[1] (P.init 1 none none 0 0 0)
    (P.step^[1] (P.init s.x none none 0 0 0)).x ≠ (P.step^[1 + 1] (P.init 1 none none 0 0 0)).x := by
  simp only [Function.iterate_succ, Function.iterate_zero, Function.comp, PdhgP.step, PdhgP.init,
    lincomb, smul_eq_mul, Option.getD, id]
  norm_num
end

/-- Steepest descent with ANY stateless line search (in particular a constant step), tolerance
test and projection included: if the first call returned normally (the line search did not
raise), `n` then `m` iterations from a fresh call = `n + m` iterations (an early `return` on the
tolerance test is re-taken by the fresh call). -/
theorem C11.resume_steepest_descent {K V : Type} [Field K] [LinearOrder K] [AddCommGroup V]
    [Module K V] (P : SteepestP K V) (x0 g0 g0' : V) (n m : Nat)
    (hok : (P.step^[n] ⟨x0, g0, false, false, []⟩).failed = false) :
    (P.step^[m] ⟨(P.step^[n] ⟨x0, g0, false, false, []⟩).x, g0', false, false, []⟩).x =
      (P.step^[n + m] ⟨x0, g0, false, false, []⟩).x := by
  rw [Nat.add_comm, Function.iterate_add_apply]
  have hinv := iterate_inv P.step (fun s => s.stopped = true → sdConverged P s.x)
    (fun s h => sd_inv P s h) n ⟨x0, g0, false, false, []⟩ (by simp)
  generalize P.step^[n] ⟨x0, g0, false, false, []⟩ = a at *
  have := iterate_sim P.step P.step
    (fun b a => b.x = a.x ∧ b.failed = a.failed ∧ (a.stopped = true → sdConverged P a.x) ∧
      (b.stopped = true → sdConverged P b.x))
    (fun b a ⟨h1, h2, h3, h4⟩ => by
      refine ⟨?_, ?_, sd_inv P a h3, sd_inv P b h4⟩
      all_goals
        unfold SteepestP.step
        unfold sdConverged at h3 h4
        rcases hb : b.stopped <;> rcases ha : a.stopped <;> rcases hf : a.failed <;>
          simp_all <;> (repeat' split) <;> simp_all)
    m ⟨a.x, g0', false, false, []⟩ a ⟨rfl, by simp [hok], hinv, by simp⟩
  exact this.1

/-! ### Round 4: resumption of the paths whose state is MORE than the iterate -/
section
variable {K V W : Type} [Field K] [AddCommGroup V] [Module K V] [AddCommGroup W] [Module K W]
set_option linter.unusedSectionVars false

/-- `proximal_gradient`: the loop counter `k` of `for k in range(niter)` (the argument of a callable
`lam`) after `n` iterations is `n` more than at the start — the only hidden state of the solver. -/
theorem C11.proximal_gradient_counter (P : ProxGradP K V) (s : ProxGradS V) (n : Nat) :
    (P.step^[n] s).k = s.k + n := by
  have := iterate_count P.step (·.k) 1 (fun s => by simp only [ProxGradP.step]) n s
  simpa using this

/-- `proximal_gradient` with a CALLABLE relaxation `lam`: `n` iterations, then a fresh call (counter
restarts at 0, temporary re-allocated) with the SHIFTED schedule `lambda k: lam(n + k)` and `m`
iterations, give the iterate of `n + m` iterations with `lam` — for every schedule `lam`, all
proximal / gradient maps, every `n`, `m`.  (What must be handed back is the iterate and the
position `n` in the schedule; tied to the code by the stream `proxgrad_lam`.) -/
theorem C11.resume_proximal_gradient_callable (P : ProxGradP K V) (x0 junk junk' : V) (n m : Nat) :
    let P' : ProxGradP K V := { P with lam := fun k => P.lam (n + k) }
    (P'.step^[m] (P'.init (P.step^[n] (P.init x0 junk)).x junk')).x =
      (P.step^[n + m] (P.init x0 junk)).x := by
  intro P'
  rw [Nat.add_comm n m, Function.iterate_add_apply]
  have hk : (P.step^[n] (P.init x0 junk)).k = n := by
    rw [C11.proximal_gradient_counter]; simp [ProxGradP.init]
  generalize P.step^[n] (P.init x0 junk) = a at hk
  exact (iterate_sim P'.step P.step (fun s t => s.x = t.x ∧ t.k = n + s.k)
    (fun s t ⟨h1, h2⟩ => by
      refine ⟨?_, ?_⟩
      · simp only [ProxGradP.step, h1, h2, P']
      · simp only [ProxGradP.step, h2]; omega) m (P'.init a.x junk') a
    ⟨rfl, by simp [ProxGradP.init, hk]⟩).1

/-- The shift is needed: resuming with the UNSHIFTED callable (what a caller who only keeps `x`
does) differs from the uninterrupted run as soon as `lam` is not constant. -/
theorem C11.resume_proximal_gradient_callable_needs_shift :
    let P : ProxGradP ℚ ℚ := ⟨fun x => x / 2, fun _ => 0, 1, fun k => if k = 0 then 1 else 1 / 2⟩
    (P.step^[1] (P.init (P.step^[1] (P.init 1 (-77))).x (-77))).x ≠ (P.step^[1 + 1] (P.init 1 (-77))).x := by
  simp only [Function.iterate_succ, Function.iterate_zero, Function.comp, ProxGradP.step,
    ProxGradP.init, lincomb, smul_eq_mul]
  norm_num

/-- Non-vacuity of `resume_proximal_gradient_callable`: on the same instance the shifted schedule
reproduces the uninterrupted run, and the iterate moves (1 → 1/2 → 3/8). -/
example :
    let P : ProxGradP ℚ ℚ := ⟨fun x => x / 2, fun _ => 0, 1, fun k => if k = 0 then 1 else 1 / 2⟩
    let P' : ProxGradP ℚ ℚ := { P with lam := fun k => P.lam (1 + k) }
    (P'.step^[1] (P'.init (P.step^[1] (P.init 1 (-77))).x (-77))).x = 3 / 8 ∧
    (P.step^[1 + 1] (P.init 1 (-77))).x = 3 / 8 := by
  simp only [Function.iterate_succ, Function.iterate_zero, Function.comp, ProxGradP.step,
    ProxGradP.init, lincomb, smul_eq_mul]
  norm_num

/-- Accelerated `pdhg` (`gamma_primal` / `gamma_dual`): the step sizes and the relaxation after `n`
iterations are the `n`-fold iterate of the scalar recurrence `accel` started from the initial
`(tau, sigma, theta)` — they do not depend on the operator, the functionals or the iterates, so a
caller can recompute `tau_n, sigma_n` (which `pdhg` does not return) without the solver.  This is
what the split-run oracle of the stream `pdhg_acc` does in floats. -/
theorem C11.pdhg_acc_steps_closed (P : PdhgAccP K V W) (s : PdhgAccS K V W) (n : Nat) :
    ((P.step^[n] s).tau, (P.step^[n] s).sigma, (P.step^[n] s).theta) =
      P.accel^[n] (s.tau, s.sigma, s.theta) :=
  iterate_sim P.step P.accel (fun a t => (a.tau, a.sigma, a.theta) = t)
    (fun a t h => by subst h; simp only [PdhgAccP.step]) n s (s.tau, s.sigma, s.theta) rfl

/-- Accelerated `pdhg`: when `x_relax`, `y` (updated in place by the first call) AND the step sizes
`tau_n, sigma_n` reached by the first call are passed to the second call, `n` then `m` iterations
give the same `x, x_relax, y, tau, sigma` as `n + m` iterations — whatever `theta` keyword the
second call gets (with acceleration `theta` is recomputed before it is read), for all operators,
proximal FACTORIES (rebuilt every iteration from the current step), `sqrt` functions, `n`, `m`. -/
theorem C11.pdhg_acc_resume (P : PdhgAccP K V W)
    (hacc : P.gammaPrimal.isSome = true ∨ P.gammaDual.isSome = true)
    (x0 : V) (xr0 : Option V) (y0 : Option W) (zeroW : W) (tau0 sigma0 theta0 theta' : K)
    (jV jV' : V) (jW jW' : W) (n m : Nat) :
    let s := P.step^[n] (P.init x0 xr0 y0 zeroW tau0 sigma0 theta0 jV jW)
    let r := P.step^[m] (P.init s.x (some s.xRelax) (some s.y) zeroW s.tau s.sigma theta' jV' jW')
    let t := P.step^[n + m] (P.init x0 xr0 y0 zeroW tau0 sigma0 theta0 jV jW)
    r.x = t.x ∧ r.xRelax = t.xRelax ∧ r.y = t.y ∧ r.tau = t.tau ∧ r.sigma = t.sigma := by
  intro s r t
  have hth : ∀ (tau sigma th1 th2 : K), P.accel (tau, sigma, th1) = P.accel (tau, sigma, th2) := by
    intro tau sigma th1 th2
    unfold PdhgAccP.accel
    rcases hp : P.gammaPrimal with _ | g <;> rcases hd : P.gammaDual with _ | g' <;> simp_all
  have := resume_generic P.step (fun s => (s.x, s.xRelax, s.y, s.tau, s.sigma))
    (fun o => P.init o.1 (some o.2.1) (some o.2.2.1) zeroW o.2.2.2.1 o.2.2.2.2 theta' jV' jW')
    (fun a b h => by
      simp only [Prod.mk.injEq] at h
      obtain ⟨h1, h2, h3, h4, h5⟩ := h
      simp only [PdhgAccP.step, h1, h2, h3, h4, h5, hth b.tau b.sigma a.theta b.theta])
    (fun _ => rfl) n m (P.init x0 xr0 y0 zeroW tau0 sigma0 theta0 jV jW)
  simp only [Prod.mk.injEq] at this
  exact this

/-- Without acceleration the loop body as written (proximals from the factories at the current
`sigma`, `tau`) runs exactly like the body with the two proximals HOISTED out of the loop
(`proximal_constant`: `Solvers.PdhgP.step`, the machine of `pdhg_resume`): `tau, sigma, theta`
are loop invariants, so the factory is always called with the initial steps.  All `n`. -/
theorem C11.pdhg_acc_constant_refines (P : PdhgAccP K V W) (hp : P.gammaPrimal = none)
    (hd : P.gammaDual = none) (x0 : V) (xr0 : Option V) (y0 : Option W) (zeroW : W)
    (tau sigma theta : K) (jV : V) (jW : W) (n : Nat) :
    let Q : PdhgP K V W := ⟨P.L, P.dAdj, P.proxF tau, P.proxGc sigma, tau, sigma, theta⟩
    let a := P.step^[n] (P.init x0 xr0 y0 zeroW tau sigma theta jV jW)
    let b := Q.step^[n] (Q.init x0 xr0 y0 zeroW jV jW)
    a.x = b.x ∧ a.xRelax = b.xRelax ∧ a.y = b.y := by
  intro Q a b
  have := iterate_sim P.step Q.step
    (fun a b => a.x = b.x ∧ a.xRelax = b.xRelax ∧ a.y = b.y ∧ a.tau = tau ∧ a.sigma = sigma ∧ a.theta = theta)
    (fun a b ⟨h1, h2, h3, h4, h5, h6⟩ => by
      simp only [PdhgAccP.step, PdhgP.step, PdhgAccP.accel, hp, hd, h1, h2, h3, h4, h5, h6, Q, and_self])
    n (P.init x0 xr0 y0 zeroW tau sigma theta jV jW) (Q.init x0 xr0 y0 zeroW jV jW)
    ⟨rfl, rfl, rfl, rfl, rfl, rfl⟩
  exact ⟨this.1, this.2.1, this.2.2.1⟩

/-- Passing back `x_relax` and `y` but the ORIGINAL `tau, sigma` (all that the signature of `pdhg`
suggests) does not resume an accelerated run: 1-d instance with `gamma_primal = 3`, `tau = 1/2`
(`1 + 2·3·1/2 = 4`, the only argument at which the compared component depends on `sqrt`). -/
theorem C11.pdhg_acc_resume_needs_steps :
    let P : PdhgAccP ℚ ℚ ℚ := ⟨id, fun _ y => y, fun t x => x / (1 + t), fun _ y => y,
      some 3, none, fun q => if q = 4 then 2 else 1⟩
    let s := P.step^[1] (P.init 1 none none 0 (1 / 2) 1 1 0 0)
    (P.step^[1] (P.init s.x (some s.xRelax) (some s.y) 0 (1 / 2) 1 1 0 0)).x ≠
      (P.step^[1 + 1] (P.init 1 none none 0 (1 / 2) 1 1 0 0)).x := by
  simp only [Function.iterate_succ, Function.iterate_zero, Function.comp, PdhgAccP.step, PdhgAccP.init,
    PdhgAccP.accel, lincomb, smul_eq_mul, Option.getD, id]
  norm_num

/-- Non-vacuity of `pdhg_acc_resume` on the same instance: the first iteration moves `x`, changes
the steps to `tau = 1/4, sigma = 2, theta = 1/2`, and with those handed back (and a nonsense
`theta = 77`) the resumed run reproduces the uninterrupted one. -/
example :
    let P : PdhgAccP ℚ ℚ ℚ := ⟨id, fun _ y => y, fun t x => x / (1 + t), fun _ y => y,
      some 3, none, fun q => if q = 4 then 2 else 1⟩
    let s := P.step^[1] (P.init 1 none none 0 (1 / 2) 1 1 0 0)
    s.tau = 1 / 4 ∧ s.sigma = 2 ∧ s.theta = 1 / 2 ∧ s.x ≠ 1 ∧
    (P.step^[1] (P.init s.x (some s.xRelax) (some s.y) 0 s.tau s.sigma 77 0 0)).x =
      (P.step^[1 + 1] (P.init 1 none none 0 (1 / 2) 1 1 0 0)).x := by
  simp only [Function.iterate_succ, Function.iterate_zero, Function.comp, PdhgAccP.step, PdhgAccP.init,
    PdhgAccP.accel, lincomb, smul_eq_mul, Option.getD, id]
  norm_num
end

/-! ### Round 4: conjugate gradients called again with the returned `x` (a RESTART, not a resumption) -/
section
variable {K V W : Type} [Field K] [DecidableEq K] [AddCommGroup V] [Module K V] [AddCommGroup W] [Module K W]
set_option linter.unusedSectionVars false

/-- `conjugate_gradient` with a LINEAR operator (additive, homogeneous; symmetry is not needed):
after every number of iterations the residual buffer `r`, which the loop only ever updates by
`r.lincomb(1, r, -alpha, d)`, is the true residual `rhs - op(x)`, and `sqnorm_r_old` is its squared
norm — including after the early `return`s. -/
theorem C11.cg_residual_carried (P : CgP K V) (hadd : ∀ u v, P.op (u + v) = P.op u + P.op v)
    (hsmul : ∀ (c : K) v, P.op (c • v) = c • P.op v) (x0 junk : V) (n : Nat) :
    let s := P.step^[n] (P.init x0 junk)
    s.r = P.rhs - P.op s.x ∧ s.sqnormROld = P.nsq s.r := by
  refine iterate_inv P.step (fun s => s.r = P.rhs - P.op s.x ∧ s.sqnormROld = P.nsq s.r) ?_ n
    (P.init x0 junk) ⟨by simp only [CgP.init, lincomb]; module, rfl⟩
  intro s ⟨h1, h2⟩
  obtain ⟨x, r, p, d, sq, stopped, log⟩ := s
  simp only at h1 h2
  subst h1 h2
  unfold CgP.step
  cases stopped
  · by_cases hi : P.inner p (P.op p) = 0
    · simp [hi]
    · simp only [Bool.false_eq_true, if_false, hi, lincomb, hadd, hsmul, and_true]
      module
  · simp

/-- What "resuming" `conjugate_gradient` does (linear operator): the state a second call builds
from the returned `x` is the state the first call ended in, EXCEPT that the search direction `p`
is reset to the residual (and `d` is a fresh buffer, the log empty, and a zero residual stops at
once).  So `x` and `r` ARE resumed exactly; the conjugacy memory `p` is what is lost — the split
run is restarted CG.  Tied to the code by the stream `cg_restart` (model op `cgsplit`). -/
theorem C11.cg_restart_state (P : CgP K V) (hadd : ∀ u v, P.op (u + v) = P.op u + P.op v)
    (hsmul : ∀ (c : K) v, P.op (c • v) = c • P.op v) (x0 junk junk' : V) (n : Nat) :
    let s := P.step^[n] (P.init x0 junk)
    P.init s.x junk' = ⟨s.x, s.r, s.r, junk', s.sqnormROld, decide (s.sqnormROld = 0), []⟩ := by
  intro s
  obtain ⟨h1, h2⟩ := C11.cg_residual_carried P hadd hsmul x0 junk n
  have hr : lincomb (1 : K) P.rhs (-(1 : K)) (P.op s.x) = s.r := by
    rw [show s.r = P.rhs - P.op s.x from h1]; simp only [lincomb]; module
  simp only [CgP.init, hr, show s.sqnormROld = P.nsq s.r from h2]

/-- The same for `conjugate_gradient_normal` with a linear operator (`op.derivative(·).adjoint` does
not depend on the point): `d` is the true residual `rhs - op(x)`, `s` its image under the adjoint,
`sqnorm_s_old` the squared norm of `s`, after every number of iterations. -/
theorem C11.cgn_residual_carried (P : CgnP K V W) (hadd : ∀ u v, P.op (u + v) = P.op u + P.op v)
    (hsmul : ∀ (c : K) v, P.op (c • v) = c • P.op v) (hlin : ∀ u v w, P.dAdj u w = P.dAdj v w)
    (x0 : V) (junk : W) (n : Nat) :
    let s := P.step^[n] (P.init x0 junk)
    s.d = P.rhs - P.op s.x ∧ s.s = P.dAdj s.x s.d ∧ s.sqnormSOld = P.nsqV s.s := by
  refine iterate_inv P.step
    (fun s => s.d = P.rhs - P.op s.x ∧ s.s = P.dAdj s.x s.d ∧ s.sqnormSOld = P.nsqV s.s) ?_ n
    (P.init x0 junk) ⟨by simp only [CgnP.init, lincomb]; module, rfl, rfl⟩
  intro s ⟨h1, h2, h3⟩
  obtain ⟨x, d, p, s', q, sq, stopped, log⟩ := s
  simp only at h1 h2 h3
  subst h1 h3
  unfold CgnP.step
  cases stopped
  · by_cases hi : P.nsqW (P.op p) = 0
    · simp only [Bool.false_eq_true, if_false, hi, if_true, true_and, and_true]; exact h2
    · simp only [Bool.false_eq_true, if_false, hi, lincomb, hadd, hsmul, and_true]
      exact ⟨by module, hlin _ _ _⟩
  · simp only [if_true, true_and, and_true]; exact h2

/-- `conjugate_gradient_normal` called again with the returned `x` (linear operator): `x`, `d`, `s`
and `sqnorm_s_old` are those the first call ended with; the direction `p` is reset to `s`. -/
theorem C11.cgn_restart_state (P : CgnP K V W) (hadd : ∀ u v, P.op (u + v) = P.op u + P.op v)
    (hsmul : ∀ (c : K) v, P.op (c • v) = c • P.op v) (hlin : ∀ u v w, P.dAdj u w = P.dAdj v w)
    (x0 : V) (junk junk' : W) (n : Nat) :
    let s := P.step^[n] (P.init x0 junk)
    P.init s.x junk' = ⟨s.x, s.d, s.s, s.s, junk', s.sqnormSOld, false, []⟩ := by
  intro s
  obtain ⟨h1, h2, h3⟩ := C11.cgn_residual_carried P hadd hsmul hlin x0 junk n
  have hr : lincomb (1 : K) P.rhs (-(1 : K)) (P.op s.x) = s.d := by
    rw [show s.d = P.rhs - P.op s.x from h1]; simp only [lincomb]; module
  simp only [CgnP.init, hr, ← show s.s = P.dAdj s.x s.d from h2, show s.sqnormSOld = P.nsqV s.s from h3]
end

/-- …and losing `p` matters: on the SPD system `[[2,1],[1,2]] x = (1,0)` one iteration followed by a
second call with one iteration does not give the iterate of two iterations (which is the solution). -/
theorem C11.cg_resume_needs_direction :
    let P : CgP ℚ (ℚ × ℚ) := ⟨fun v => (2 * v.1 + v.2, v.1 + 2 * v.2), (1, 0),
      fun u v => u.1 * v.1 + u.2 * v.2, fun v => v.1 * v.1 + v.2 * v.2⟩
    (P.step^[1] (P.init (P.step^[1] (P.init (0, 0) (0, 0))).x (0, 0))).x ≠
      (P.step^[1 + 1] (P.init (0, 0) (0, 0))).x := by
  simp only [Function.iterate_succ, Function.iterate_zero, Function.comp, CgP.step, CgP.init, lincomb]
  norm_num

/-- Non-vacuity of `cg_residual_carried` / `cg_restart_state`: that operator is additive and
homogeneous, and the run moves: two iterations reach the solution `(2/3, -1/3)`. -/
example :
    let P : CgP ℚ (ℚ × ℚ) := ⟨fun v => (2 * v.1 + v.2, v.1 + 2 * v.2), (1, 0),
      fun u v => u.1 * v.1 + u.2 * v.2, fun v => v.1 * v.1 + v.2 * v.2⟩
    (∀ u v, P.op (u + v) = P.op u + P.op v) ∧ (∀ (c : ℚ) v, P.op (c • v) = c • P.op v) ∧
    (P.step^[1 + 1] (P.init (0, 0) (0, 0))).x = (2 / 3, -1 / 3) := by
  refine ⟨fun u v => ?_, fun c v => ?_, ?_⟩
  · simp only [Prod.fst_add, Prod.snd_add, Prod.mk_add_mk, Prod.mk.injEq]; constructor <;> ring
  · simp only [Prod.smul_fst, Prod.smul_snd, Prod.smul_mk, smul_eq_mul, Prod.mk.injEq]; constructor <;> ring
  · simp only [Function.iterate_succ, Function.iterate_zero, Function.comp, CgP.step, CgP.init, lincomb]
    norm_num

/-! ### Round 4: Kaczmarz in RANDOM order, ADMM without its hidden state -/
section
variable {K V W : Type} [Field K] [AddCommGroup V] [Module K V] [AddCommGroup W] [Module K W]
set_option linter.unusedSectionVars false

/-- `kaczmarz(random=True)`: sweeps with the visiting orders `os1 ++ os2` are the sweeps with `os1`
followed, on the whole state, by the sweeps with `os2`. -/
theorem C11.kaczmarz_runOrd_append (P : KaczmarzP K V W) (os1 os2 : List (List Nat)) (s : KaczmarzS V W) :
    P.runOrd (os1 ++ os2) s = P.runOrd os2 (P.runOrd os1 s) := by
  induction os1 generalizing s with
  | nil => rfl
  | cons o os ih => simp only [List.cons_append, KaczmarzP.runOrd, ih]

/-- `kaczmarz(random=True)` resumes exactly when the SEQUENCE OF PERMUTATIONS continues: `n` sweeps
visiting the operators in the orders `os1`, then a fresh call (temporaries re-allocated, callback log
empty) whose sweeps use the orders `os2`, give the iterate of one call whose sweeps use `os1 ++ os2`
— any orders (not even permutations), any number of operators, projection, callback mode.  In the
code the orders come from numpy's global generator, whose state survives between the two calls:
that is the split-run oracle of the stream `kaczmarz_random` (seed once, run `n + m`; seed once,
run `n` then `m`). -/
theorem C11.resume_kaczmarz_random (P : KaczmarzP K V W) (x0 : V) (tR tR' : Nat → W) (jV jV' : V)
    (log' : List V) (os1 os2 : List (List Nat)) :
    (P.runOrd os2 ⟨(P.runOrd os1 ⟨x0, tR, jV, []⟩).x, tR', jV', log'⟩).x =
      (P.runOrd (os1 ++ os2) ⟨x0, tR, jV, []⟩).x := by
  rw [C11.kaczmarz_runOrd_append]
  generalize P.runOrd os1 ⟨x0, tR, jV, []⟩ = a
  have hfold : ∀ (o : List Nat) (s t : KaczmarzS V W), s.x = t.x →
      (o.foldl (fun s i => P.inner i s) s).x = (o.foldl (fun s i => P.inner i s) t).x := by
    intro o
    induction o with
    | nil => intro s t h; exact h
    | cons i o ih =>
      intro s t h
      simp only [List.foldl_cons]
      exact ih _ _ (by simp only [KaczmarzP.inner, h])
  have hstep : ∀ (o : List Nat) (s t : KaczmarzS V W), s.x = t.x → (P.stepOrd o s).x = (P.stepOrd o t).x := by
    intro o s t h
    unfold KaczmarzP.stepOrd
    split <;> exact hfold o s t h
  have : ∀ (os : List (List Nat)) (s t : KaczmarzS V W), s.x = t.x → (P.runOrd os s).x = (P.runOrd os t).x := by
    intro os
    induction os with
    | nil => intro s t h; exact h
    | cons o os ih => intro s t h; simp only [KaczmarzP.runOrd]; exact ih _ _ (hstep o s t h)
  exact this os2 _ _ rfl

/-- The orders are state that matters (so re-seeding numpy between the calls breaks resumption):
two operators `x ↦ x`, `x ↦ 2x` with right-hand sides `1`, `0`, visited as `[0,1]` or `[1,0]`, give
different iterates after one sweep.  Also the non-vacuity instance of `resume_kaczmarz_random`. -/
theorem C11.kaczmarz_random_order_matters :
    let P : KaczmarzP ℚ ℚ ℚ := ⟨2, fun i x => if i = 0 then x else 2 * x, fun i _ w => if i = 0 then w else 2 * w,
      fun i => if i = 0 then 1 else 0, fun _ => 1 / 2, none, fun _ => 0, false⟩
    (P.runOrd [[0, 1]] ⟨0, fun _ => 0, 0, []⟩).x ≠ (P.runOrd [[1, 0]] ⟨0, fun _ => 0, 0, []⟩).x := by
  simp only [KaczmarzP.runOrd, KaczmarzP.stepOrd, KaczmarzP.inner, List.foldl, lincomb, applyProj, smul_eq_mul]
  norm_num

/-- `admm_linearized` cannot be resumed from `x` alone: `z` and `u` are locals initialised to zero
in every call and not exposed.  On the instance of the non-vacuity example above (with
`prox_g = ·/4`) one iteration followed by a fresh call with one iteration differs from two. -/
theorem C11.admm_resume_needs_state :
    let P : AdmmP ℚ ℚ ℚ := ⟨fun x => 2 * x, fun y => 2 * y, fun x => x - 1 / 4, fun y => y / 4, 1 / 8, 1⟩
    (P.stepOpt^[1] (P.initOpt (P.stepOpt^[1] (P.initOpt 1 0 (-77))).x 0 (-77))).x ≠
      (P.stepOpt^[1 + 1] (P.initOpt 1 0 (-77))).x := by
  simp only [Function.iterate_succ, Function.iterate_zero, Function.comp, AdmmP.stepOpt,
    AdmmP.initOpt, lincomb, smul_eq_mul]
  norm_num
end

/-! ### Round 4: the executed split runs, and the step-size product of accelerated PDHG -/
section
variable {K V W : Type} [Field K] [DecidableEq K] [AddCommGroup V] [Module K V] [AddCommGroup W] [Module K W]
set_option linter.unusedSectionVars false

/-- The split run that the driver executes for the stream `cg_restart` (`CgP.runSplit`: `n`
iterations, second call on the returned `x` with `m` iterations, logs concatenated) is, for a linear
operator, the continuation of the FIRST call's final state with the direction reset to the residual:
`x`, `r`, `sqnorm_r_old` are carried over by the second call although it recomputes them from `x`. -/
theorem C11.cg_runSplit_is_restart (P : CgP K V) (hadd : ∀ u v, P.op (u + v) = P.op u + P.op v)
    (hsmul : ∀ (c : K) v, P.op (c • v) = c • P.op v) (x0 junk junk' : V) (n m : Nat) :
    let s := P.step^[n] (P.init x0 junk)
    (P.runSplit x0 junk junk' n m).x =
      (P.step^[m] { s with p := s.r, d := junk', stopped := decide (s.sqnormROld = 0), log := [] }).x ∧
    (P.runSplit x0 junk junk' n m).log =
      s.log ++ (P.step^[m] { s with p := s.r, d := junk', stopped := decide (s.sqnormROld = 0), log := [] }).log := by
  intro s
  have h := C11.cg_restart_state P hadd hsmul x0 junk junk' n
  simp only [CgP.runSplit, iter_eq]
  simp only at h
  rw [h]
  exact ⟨rfl, rfl⟩

/-- The same for the executed split run of `conjugate_gradient_normal` (`CgnP.runSplit`). -/
theorem C11.cgn_runSplit_is_restart (P : CgnP K V W) (hadd : ∀ u v, P.op (u + v) = P.op u + P.op v)
    (hsmul : ∀ (c : K) v, P.op (c • v) = c • P.op v) (hlin : ∀ u v w, P.dAdj u w = P.dAdj v w)
    (x0 : V) (junk junk' : W) (n m : Nat) :
    let s := P.step^[n] (P.init x0 junk)
    (P.runSplit x0 junk junk' n m).x =
      (P.step^[m] { s with p := s.s, q := junk', stopped := false, log := [] }).x ∧
    (P.runSplit x0 junk junk' n m).log =
      s.log ++ (P.step^[m] { s with p := s.s, q := junk', stopped := false, log := [] }).log := by
  intro s
  have h := C11.cgn_restart_state P hadd hsmul hlin x0 junk junk' n
  simp only [CgnP.runSplit, iter_eq]
  simp only at h
  rw [h]
  exact ⟨rfl, rfl⟩
end

section
variable {K V W : Type} [Field K] [AddCommGroup V] [Module K V] [AddCommGroup W] [Module K W]
set_option linter.unusedSectionVars false

/-- Accelerated `pdhg`: the product `tau * sigma` is a loop invariant (each acceleration multiplies
one step and divides the other by the same `theta`), for `gamma_primal`, `gamma_dual` or neither,
whenever `sqrt` never returns zero (true of `np.sqrt` on arguments `≥ 1`).  So the step sizes a
caller hands back for resumption (`pdhg_acc_resume`) satisfy `tau_n * sigma_n = tau_0 * sigma_0`:
one of them determines the other. -/
theorem C11.pdhg_acc_step_product (P : PdhgAccP K V W) (hs : ∀ q, P.sqrt q ≠ 0)
    (s : PdhgAccS K V W) (n : Nat) :
    (P.step^[n] s).tau * (P.step^[n] s).sigma = s.tau * s.sigma := by
  refine iterate_inv P.step (fun a => a.tau * a.sigma = s.tau * s.sigma) ?_ n s rfl
  intro a h
  have hth : ∀ q, (1 : K) / P.sqrt q ≠ 0 := fun q => one_div_ne_zero (hs q)
  have e1 : ∀ t u th : K, th ≠ 0 → t * th * (u / th) = t * u := by
    intro t u th h0; field_simp
  have e2 : ∀ t u th : K, th ≠ 0 → t / th * (u * th) = t * u := by
    intro t u th h0; field_simp
  simp only [PdhgAccP.step, PdhgAccP.accel]
  rcases hp : P.gammaPrimal with _ | g <;> rcases hd : P.gammaDual with _ | g' <;> simp only [] <;>
    rw [← h]
  · exact e2 _ _ _ (hth _)
  · exact e1 _ _ _ (hth _)
  · rw [e2 _ _ _ (hth _), e1 _ _ _ (hth _)]

/-- Non-vacuity: the `sqrt` of the instance used above is nowhere zero, and its steps move
(`1/2, 1 ↦ 1/4, 2`) with the product `1/2` kept. -/
example :
    let P : PdhgAccP ℚ ℚ ℚ := ⟨id, fun _ y => y, fun t x => x / (1 + t), fun _ y => y,
      some 3, none, fun q => if q = 4 then 2 else 1⟩
    (∀ q, P.sqrt q ≠ 0) ∧ (P.step^[1] (P.init 1 none none 0 (1 / 2) 1 1 0 0)).tau = 1 / 4 ∧
    (P.step^[1] (P.init 1 none none 0 (1 / 2) 1 1 0 0)).sigma = 2 := by
  refine ⟨fun q => ?_, ?_, ?_⟩
  · simp only; split <;> norm_num
  all_goals
    simp only [Function.iterate_succ, Function.iterate_zero, Function.comp, PdhgAccP.step, PdhgAccP.init,
      PdhgAccP.accel, lincomb, smul_eq_mul, Option.getD, id]
    norm_num
end

/-! ### Round 5: accelerated proximal gradient called again with the returned `x` -/
section
variable {K V W : Type} [Field K] [AddCommGroup V] [Module K V] [AddCommGroup W] [Module K W]
set_option linter.unusedSectionVars false

/-- `accelerated_proximal_gradient`: the FIRST iteration of every call (fresh `y = x.copy()`, `t = 1`,
hence `alpha = 0`) is one plain `proximal_gradient` iteration with `lam = 1` from the same `x`, and
leaves `y = x` — for every `sqrt` function, proximal and gradient map.  This is the oracle of the
stream `apg_restart` (first iterate of each call against the real `proximal_gradient`). -/
theorem C11.apg_first_step_is_proximal_gradient (P : ProxGradP K V) (sqrt : K → K) (x0 junk junk' : V) :
    let P1 : ProxGradP K V := { P with lam := fun _ => 1 }
    (P.accStep sqrt (P.accInit x0 junk)).x = (P1.step (P1.init x0 junk')).x ∧
    (P.accStep sqrt (P.accInit x0 junk)).y = (P1.step (P1.init x0 junk')).x := by
  intro P1
  simp only [ProxGradP.accStep, ProxGradP.accInit, ProxGradP.step, ProxGradP.init, lincomb, P1,
    sub_self, zero_div, add_zero, neg_zero, zero_smul, one_smul, zero_add, and_self]

/-- The split run executed by the driver for `apg_restart` (`ProxGradP.accRunSplit`): its final state
is `m` iterations from the re-initialised state at the returned `x` (momentum `y`, `t` forgotten),
and the two callbacks together were called `n + m` times.  (By construction + `runLog_eq`.) -/
theorem C11.apg_runSplit_second_call (P : ProxGradP K V) (sqrt : K → K) (x0 junk junk' : V) (n m : Nat) :
    let a := (P.accStep sqrt)^[n] (P.accInit x0 junk)
    (P.accRunSplit sqrt x0 junk junk' n m).1 = (P.accStep sqrt)^[m] (P.accInit a.x junk') ∧
    (P.accRunSplit sqrt x0 junk junk' n m).2.length = n + m := by
  intro a
  simp only [ProxGradP.accRunSplit, runLog_eq, List.nil_append, List.length_append, List.length_map,
    List.length_range, and_self, a]

/-- `accelerated_proximal_gradient` cannot be resumed from `x`: the momentum `y` and `t` are locals.
Two iterations then one differ from three (`sqrt` replaced by a rational stand-in with
`sqrt 5 ↦ 3`, `sqrt 17 ↦ 5`; the conclusion only needs `t₁ ≠ 1`). -/
theorem C11.apg_resume_needs_state :
    let P : ProxGradP ℚ ℚ := ⟨fun x => x / 2, fun x => x, 1 / 2, fun _ => 1⟩
    let sqrt : ℚ → ℚ := fun q => if q = 5 then 3 else if q = 17 then 5 else 1
    ((P.accStep sqrt)^[1] (P.accInit ((P.accStep sqrt)^[2] (P.accInit 1 0)).x 0)).x ≠
      ((P.accStep sqrt)^[2 + 1] (P.accInit 1 0)).x := by
  simp only [Function.iterate_succ, Function.iterate_zero, Function.comp, ProxGradP.accStep,
    ProxGradP.accInit, lincomb, smul_eq_mul]
  norm_num
end

/-! ### Round 5: Douglas–Rachford primal–dual called again with the returned `x` -/
section
variable {K V W : Type} [Field K] [AddCommGroup V] [Module K V] [AddCommGroup W] [Module K W]
set_option linter.unusedSectionVars false

/-- `douglas_rachford_pd` with `n` iterations calls the callback `n` times, and (for `n > 0`) the last
iterate it showed is the returned `x` (`x.assign(p1); return` in the last pass) — any number of
operators, with or without the `l` terms. -/
theorem C11.dr_run_callbacks (P : DrP K V W) (z : V) (n : Nat) (s : DrS V W) :
    (P.run z n s).log.length = s.log.length + n ∧
    (0 < n → (P.run z n s).log.getLast? = some (P.run z n s).x) := by
  cases n with
  | zero => simp [DrP.run]
  | succ n =>
    have hlen : ∀ (k : Nat) (t : DrS V W), ((P.step z)^[k] t).log.length = t.log.length + k := by
      intro k t
      have := iterate_count (P.step z) (fun s => s.log.length) 1 (fun s => by simp [dr_step_log]) k t
      simpa using this
    simp only [DrP.run, iter_eq, DrP.last]
    refine ⟨?_, fun _ => ?_⟩
    · simp [hlen]; omega
    · simp

/-- The split run executed by the driver for the stream `dr_restart` (`DrP.runSplit`: `n` iterations,
then a second call on the returned `x` with `k` iterations, dual variables back at zero): `n + k`
callbacks in total, the last one (if the second call iterates) showing the returned `x`. -/
theorem C11.dr_runSplit_callbacks (P : DrP K V W) (z : V) (zw : Nat → W) (x0 : V) (n k : Nat) :
    (P.runSplit z zw x0 n k).log.length = n + k ∧
    (0 < k → (P.runSplit z zw x0 n k).log.getLast? = some (P.runSplit z zw x0 n k).x) := by
  have h1 := C11.dr_run_callbacks P z n ⟨x0, zw, z, []⟩
  have h2 := C11.dr_run_callbacks P z k ⟨(P.run z n ⟨x0, zw, z, []⟩).x, zw, z, []⟩
  simp only [DrP.runSplit, List.length_append]
  refine ⟨by simp [h1.1, h2.1], fun hk => ?_⟩
  have := h2.2 hk
  have hne : (P.run z k ⟨(P.run z n ⟨x0, zw, z, []⟩).x, zw, z, []⟩).log ≠ [] := by
    intro h; rw [h] at this; simp at this
  rw [List.getLast?_append_of_ne_nil _ hne]
  exact this

/-- `douglas_rachford_pd` cannot be resumed from `x`: the dual variables `v` are locals (and the last
pass returns the proximal point, not the running `x`).  One operator `L = id`, `prox_f = ·/4`,
`prox_{g*} = ·/2`: two iterations then one give `1/32`, three give `1/16`. -/
theorem C11.dr_resume_needs_state :
    let P : DrP ℚ ℚ ℚ := ⟨1, fun _ x => x, fun _ y => y, fun x => x / 4, fun _ y => y / 2, 1, fun _ => 1, 1, none⟩
    (P.runSplit 0 (fun _ => 0) 1 2 1).x = 1 / 32 ∧ (P.run 0 (2 + 1) ⟨1, fun _ => 0, 0, []⟩).x = 1 / 16 := by
  simp only [DrP.runSplit, DrP.run, DrP.last, DrP.half, DrP.step, iter, lincomb, smul_eq_mul]
  norm_num [sumAdj]
end

/-! ### Callbacks -/

/-- Callbacks: a loop `for _ in range(n): step; callback(x)` calls the callback exactly `n` times,
the `k`-th call with the iterate after `k+1` steps, and ends in the `n`-fold iterate of `step`
(used by admm, doubleprox_dc, landweber, proximal_gradient, pdhg in the driver). -/
theorem C11.callback_once {S O : Type} (step : S → S) (obs : S → O) (n : Nat) (s : S) :
    (runLog step obs n s []).1 = step^[n] s ∧ (runLog step obs n s []).2.length = n ∧
    ∀ k, k < n → (runLog step obs n s []).2[k]? = some (obs (step^[k + 1] s)) := by
  rw [runLog_eq]
  refine ⟨rfl, by simp, ?_⟩
  intro k hk
  simp [hk]

/-- Kaczmarz: `n` sweeps call the callback `n` times (`callback_loop='outer'`) or `n * m` times (`'inner'`). -/
theorem C11.kaczmarz_callback_count {K V W : Type} [Field K] [AddCommGroup V] [Module K V]
    [AddCommGroup W] (P : KaczmarzP K V W) (s : KaczmarzS V W) (n : Nat) :
    (P.step^[n] s).log.length = s.log.length + n * (if P.cbInner then P.m else 1) := by
  apply iterate_count P.step (fun s => s.log.length)
  intro s
  have := forRange_count P.inner (fun s => s.log.length) (if P.cbInner then 1 else 0)
    (fun i s => by simp only [KaczmarzP.inner]; split <;> simp) P.m s
  unfold KaczmarzP.step
  split <;> simp_all

/-- adupdates: `n` outer iterations call the callback `n` (`'outer'`) or `n * m` (`'inner'`) times. -/
theorem C11.adupdates_callback_count {K V W : Type} [Field K] [AddCommGroup V] [Module K V]
    [AddCommGroup W] [Module K W] (P : AduP K V W) (s : AduOpt V W) (n : Nat) :
    (P.stepOpt^[n] s).log.length = s.log.length + n * (if P.cbInner then P.m else 1) := by
  apply iterate_count P.stepOpt (fun s => s.log.length)
  intro s
  have := forRange_count P.innerOpt (fun s => s.log.length) (if P.cbInner then 1 else 0)
    (fun i s => by simp only [AduP.innerOpt]; split <;> simp) P.m
    { s with x := P.primal s.duals s.x }
  unfold AduP.stepOpt
  split <;> simp_all

/-- OSMLEM calls the callback after every SUBSET update: `n * nOps` calls in `n` iterations
(once per iteration for `mlem`, `nOps = 1`). -/
theorem C11.osmlem_callback_count {V W : Type} (P : OsmlemP V W) (s : OsmlemS V W) (n : Nat) :
    (P.step^[n] s).log.length = s.log.length + n * P.nOps := by
  apply iterate_count P.step (fun s => s.log.length)
  intro s
  have := forRange_count P.inner (fun s => s.log.length) 1
    (fun i s => by simp [OsmlemP.inner]) P.nOps s
  simpa [OsmlemP.step] using this

/-! ### Non-vacuity -/

/-- `adupdates` on a concrete 1-d instance with two operators sharing one temporary
(`rid = 0`): the iterate moves and both versions agree. -/
example :
    let P : AduP ℚ ℚ ℚ := ⟨2, fun i x => (i + 1 : ℚ) * x, fun i y => (i + 1 : ℚ) * y,
      fun _ y => y / 2, fun _ y => y / 2, 1, fun _ => .scalar (1 / 2), fun a b => a * b, fun _ => 0, false⟩
    (P.stepOpt^[1] ⟨1, fun _ => 0, fun _ => -77, []⟩).x = (P.stepSimple^[1] ⟨1, fun _ => 0⟩).x ∧
    (P.stepSimple^[1] ⟨1, fun _ => 0⟩).x ≠ 1 := by
  simp only [Function.iterate_succ, Function.iterate_zero, Function.comp, AduP.stepOpt,
    AduP.stepSimple, AduP.primal, AduP.innerOpt, AduP.innerSimple, AduP.scaled, forRange, List.range,
    List.range.loop, List.foldl, upd, smul_eq_mul]
  norm_num

/-- The hypothesis of `resume_steepest_descent` is satisfiable with a step that is really
taken: constant step 1/4 on `f(x) = x²` from `x = 1` does not fail and moves to `1/2`. -/
example :
    let P : SteepestP ℚ ℚ := ⟨fun x => 2 * x, fun g => g * g, 1 / 100, fun _ _ _ => some (1 / 4), none⟩
    (P.step^[1] ⟨1, 0, false, false, []⟩).failed = false ∧ (P.step^[1] ⟨1, 0, false, false, []⟩).x = 1 / 2 := by
  simp only [Function.iterate_succ, Function.iterate_zero, Function.comp, SteepestP.step, absK,
    applyProj, lincomb, smul_eq_mul]
  norm_num
