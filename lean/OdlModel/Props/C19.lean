/-
C19 — acquisition geometries are rigid-motion consistent for all parameters.
Property theorems only.  The model is `OdlModel/Model/Geometry.lean`; everything is stated
over an arbitrary commutative ring / field `K` (so in particular over ℝ with
`(c, s) = (cos θ, sin θ)`), for all axes, initial vectors, translations, radii, pitches,
shifts and detector parameters.  The only hypotheses are `c² + s² = 1` per angle and
unit length / orthogonality of the vectors that the constructors normalise.
-/
import OdlModel.Model.Geometry
import OdlModel.Lemmas.Geometry
import Mathlib.Tactic.Ring
import Mathlib.Tactic.LinearCombination
import Mathlib.Tactic.FieldSimp
import Mathlib.Tactic.Linarith
import Mathlib.Tactic.Positivity

open OdlModel.Geometry

namespace OdlModel.C19

/-- `R` is a rotation: `RᵀR = 1` and `det R = 1`. -/
def IsRot2 {K : Type} [CommRing K] (R : M2 K) : Prop :=
  R.transpose.mul R = M2.one ∧ R.det = 1

def IsRot3 {K : Type} [CommRing K] (R : M3 K) : Prop :=
  R.transpose.mul R = M3.one ∧ R.det = 1

end OdlModel.C19

open OdlModel.C19

/-! ## rotation matrices -/

/-- `euler_matrix(phi)` (used by `Parallel2dGeometry` and `FanBeamGeometry`) is orthonormal
with determinant one for every angle. -/
theorem C19.rot_orthonormal_2d {K : Type} [CommRing K] (c s : K) (h : c * c + s * s = 1) :
    IsRot2 (euler2 c s) := by
  constructor
  · ext <;> simp only [euler2, M2.transpose, M2.mul, M2.one] <;> grind
  · simp only [euler2, M2.det]; grind

example : IsRot2 (euler2 (3 / 5 : ℚ) (4 / 5)) := C19.rot_orthonormal_2d _ _ (by norm_num)

/-- `euler_matrix(phi, theta, psi)` (ZXZ, `Parallel3dEulerGeometry`) is orthonormal with
determinant one for every triple of angles. -/
theorem C19.rot_orthonormal_euler {K : Type} [CommRing K] (cph sph cth sth cps sps : K)
    (h1 : cph * cph + sph * sph = 1) (h2 : cth * cth + sth * sth = 1)
    (h3 : cps * cps + sps * sps = 1) :
    IsRot3 (euler3 cph sph cth sth cps sps) := by
  constructor
  · ext <;> simp only [euler3, M3.transpose, M3.mul, M3.one] <;> grind
  · simp only [euler3, M3.det]; grind

example : IsRot3 (euler3 (3 / 5 : ℚ) (4 / 5) (5 / 13) (12 / 13) (-8 / 17) (15 / 17)) :=
  C19.rot_orthonormal_euler _ _ _ _ _ _ (by norm_num) (by norm_num) (by norm_num)

/-- `axis_rotation_matrix(axis, angle)` (Rodrigues; `AxisOrientedGeometry.rotation_matrix`
of `Parallel3dAxisGeometry` and `ConeBeamGeometry`) is orthonormal with determinant one for
every unit axis and every angle. -/
theorem C19.rot_orthonormal_axis {K : Type} [CommRing K] (a : V3 K) (c s : K)
    (hc : c * c + s * s = 1) (ha : a.normSq = 1) :
    IsRot3 (axisRot a c s) := by
  obtain ⟨x, y, z⟩ := a
  simp only [V3.normSq, V3.dot] at ha
  constructor
  · ext <;> simp only [axisRot, M3.transpose, M3.mul, M3.one] <;> grind
  · simp only [axisRot, M3.det]; grind

example : IsRot3 (axisRot (⟨2 / 7, 3 / 7, 6 / 7⟩ : V3 ℚ) (3 / 5) (4 / 5)) :=
  C19.rot_orthonormal_axis _ _ _ (by norm_num) (by norm_num [V3.normSq, V3.dot])

/-- The rotation of `axis_rotation_matrix` fixes its axis. -/
theorem C19.rot_axis_fixed {K : Type} [CommRing K] (a : V3 K) (c s : K)
    (ha : a.normSq = 1) : (axisRot a c s).mulVec a = a := by
  obtain ⟨x, y, z⟩ := a
  simp only [V3.normSq, V3.dot] at ha
  ext <;> simp only [axisRot, M3.mulVec] <;> grind

/-- `rotation_matrix_from_to(u, v)` (3d, generic branch; used by `transform_system` to
derive the default initial vectors from a given axis / position, and by the curved
detectors) is a rotation (orthonormal, determinant one) and takes `u` to `v`, for all unit
vectors that are not opposite. -/
theorem C19.from_to_maps {K : Type} [Field K] (u v : V3 K)
    (hu : u.normSq = 1) (hv : v.normSq = 1) (hc : 1 + V3.dot u v ≠ 0) :
    (rotFromTo u v).mulVec u = v ∧ IsRot3 (rotFromTo u v) := by
  obtain ⟨a, b, c⟩ := u
  obtain ⟨x, y, z⟩ := v
  simp only [V3.normSq, V3.dot] at hu hv hc
  refine ⟨?_, ?_, ?_⟩
  · ext <;> simp only [rotFromTo, M3.mulVec, V3.cross, V3.dot] <;> field_simp <;> grind
  · ext <;> simp only [rotFromTo, M3.mul, M3.transpose, M3.one, V3.cross, V3.dot] <;>
      field_simp <;> grind
  · simp only [rotFromTo, V3.cross, V3.dot]
    rw [det_rodrigues_form]
    have lag : (b * z - c * y) * (b * z - c * y) + (c * x - a * z) * (c * x - a * z)
        + (a * y - b * x) * (a * y - b * x)
        = 1 - (a * x + b * y + c * z) * (a * x + b * y + c * z) := by
      linear_combination (x * x + y * y + z * z) * hu + hv
    rw [lag]
    field_simp
    ring

example : (rotFromTo (⟨0, 0, 1⟩ : V3 ℚ) ⟨2 / 7, 3 / 7, 6 / 7⟩).mulVec ⟨0, 0, 1⟩ = ⟨2 / 7, 3 / 7, 6 / 7⟩ :=
  (C19.from_to_maps _ _ (by norm_num [V3.normSq, V3.dot]) (by norm_num [V3.normSq, V3.dot])
    (by norm_num [V3.dot])).1

/-! ## vectors derived by the constructors (`transform_system`) -/

/-- `Parallel2dGeometry` / `FanBeamGeometry` with `det_pos_init` / `src_to_det_init = p`
(normalised) and no detector axis given: the rotation used is a rotation taking the default
`(0,1)` to `p`, and the derived detector axis is the unit vector `(p₁, -p₀)` orthogonal to
`p` (the default `(1,0)` carried along), for every unit `p` including `-default`. -/
theorem C19.constructor_frame_2d {K : Type} [CommRing K] (p : V2 K) (hp : p.normSq = 1) :
    IsRot2 (rotFromTo2 ⟨0, 1⟩ p) ∧
    (frame2 p).1 = p ∧ (frame2 p).2 = ⟨p.y, -p.x⟩ ∧ (frame2 p).2.normSq = 1 ∧
    V2.dot (frame2 p).2 p = 0 := by
  obtain ⟨x, y⟩ := p
  simp only [V2.normSq, V2.dot] at hp
  refine ⟨⟨?_, ?_⟩, ?_, ?_, ?_, ?_⟩
  · ext <;> simp only [rotFromTo2, perp2, V2.dot, M2.transpose, M2.mul, M2.one] <;> grind
  · simp only [rotFromTo2, perp2, V2.dot, M2.det]; grind
  · ext <;> simp only [frame2, rotFromTo2, perp2, V2.dot, M2.mulVec] <;> ring
  · ext <;> simp only [frame2, rotFromTo2, perp2, V2.dot, M2.mulVec] <;> ring
  · simp only [frame2, rotFromTo2, perp2, V2.dot, V2.normSq, M2.mulVec]; grind
  · simp only [frame2, rotFromTo2, perp2, V2.dot, M2.mulVec]; ring

example : (frame2 (⟨3 / 5, 4 / 5⟩ : V2 ℚ)).2 = ⟨4 / 5, -(3 / 5)⟩ :=
  (C19.constructor_frame_2d (⟨3 / 5, 4 / 5⟩ : V2 ℚ) (by norm_num [V2.normSq, V2.dot])).2.2.1

/-- `Parallel3dAxisGeometry` / `ConeBeamGeometry` with rotation axis `a` (normalised, not
`-e_z`) and nothing else given: the default axis is taken to `a`, the derived
`det_pos_init` / `src_to_det_init` is a unit vector orthogonal to the axis, the derived
detector axes are `(pos × a, a)`: an orthonormal right-handed frame like the default one. -/
theorem C19.constructor_frame_axis {K : Type} [Field K] (a : V3 K) (ha : a.normSq = 1)
    (hc : 1 + a.z ≠ 0) :
    let f := frameAxis a
    f.1 = a ∧ f.2.2.2 = a ∧ V3.dot f.2.1 a = 0 ∧ f.2.1.normSq = 1 ∧ f.2.2.1.normSq = 1 ∧
    V3.dot f.2.2.1 a = 0 ∧ V3.dot f.2.2.1 f.2.1 = 0 ∧ f.2.2.1 = V3.cross f.2.1 a := by
  obtain ⟨x, y, z⟩ := a
  simp only [V3.normSq, V3.dot] at ha
  simp only at hc
  refine ⟨?_, ?_, ?_, ?_, ?_, ?_, ?_, ?_⟩
  all_goals first
    | (ext <;> simp only [frameAxis, rotFromTo, V3.cross, V3.dot, M3.mulVec] <;> field_simp <;>
        grind)
    | (simp only [frameAxis, rotFromTo, V3.cross, V3.dot, V3.normSq, M3.mulVec]; field_simp; grind)

example : (frameAxis (⟨2 / 7, 3 / 7, 6 / 7⟩ : V3 ℚ)).2.1 = ⟨-6 / 91, 82 / 91, -3 / 7⟩ := by
  simp only [frameAxis, rotFromTo, V3.cross, V3.dot, M3.mulVec]; norm_num

/-- `Parallel3dEulerGeometry` with `det_pos_init = p` (normalised, not `-e_y`) and no
detector axes given: the default position is taken to `p`; the derived detector axes are
orthonormal, orthogonal to `p`, with `a0 × a1 = -p` as in the default configuration. -/
theorem C19.constructor_frame_euler {K : Type} [Field K] (p : V3 K) (hp : p.normSq = 1)
    (hc : 1 + p.y ≠ 0) :
    let f := frameEuler p
    f.1 = p ∧ f.2.1.normSq = 1 ∧ f.2.2.normSq = 1 ∧ V3.dot f.2.1 f.2.2 = 0 ∧
    V3.dot f.2.1 p = 0 ∧ V3.dot f.2.2 p = 0 ∧ V3.cross f.2.1 f.2.2 = V3.neg p := by
  obtain ⟨x, y, z⟩ := p
  simp only [V3.normSq, V3.dot] at hp
  simp only at hc
  refine ⟨?_, ?_, ?_, ?_, ?_, ?_, ?_⟩
  all_goals first
    | (ext <;> simp only [frameEuler, rotFromTo, V3.cross, V3.dot, V3.neg, M3.mulVec] <;>
        field_simp <;> grind)
    | (simp only [frameEuler, rotFromTo, V3.cross, V3.dot, V3.normSq, M3.mulVec]; field_simp; grind)

/-! ## detectors -/

/-- The intrinsic rotation of the curved 3d detectors is a rotation taking the initial axes
`(0,-1,0)`, `(0,0,1)` to the detector axes, for every orthonormal pair of axes; the surface
passes through the origin at parameter 0 with tangents `radius·a0` and `a1` (cylinder) —
"aligned with the axes" like a flat detector. -/
theorem C19.curved_rot_aligned {K : Type} [CommRing K] (a0 a1 : V3 K) (r : K)
    (h0 : a0.normSq = 1) (h1 : a1.normSq = 1) (h01 : V3.dot a0 a1 = 0) :
    IsRot3 (curvedRot a0 a1) ∧
    (curvedRot a0 a1).mulVec ⟨0, -1, 0⟩ = a0 ∧ (curvedRot a0 a1).mulVec ⟨0, 0, 1⟩ = a1 ∧
    (Det3.cyl a0 a1 r).surface ⟨0, 0, 1, 0, 1, 0⟩ = V3.zero ∧
    (Det3.cyl a0 a1 r).deriv0 ⟨0, 0, 1, 0, 1, 0⟩ = V3.smul r a0 ∧
    (Det3.cyl a0 a1 r).deriv1 ⟨0, 0, 1, 0, 1, 0⟩ = a1 ∧
    (Det3.sph a0 a1 r).surface ⟨0, 0, 1, 0, 1, 0⟩ = V3.zero ∧
    (Det3.sph a0 a1 r).deriv0 ⟨0, 0, 1, 0, 1, 0⟩ = V3.smul r a0 ∧
    (Det3.sph a0 a1 r).deriv1 ⟨0, 0, 1, 0, 1, 0⟩ = V3.smul r a1 := by
  obtain ⟨x, y, z⟩ := a0
  obtain ⟨u, v, w⟩ := a1
  simp only [V3.normSq, V3.dot] at h0 h1 h01
  refine ⟨⟨?_, ?_⟩, ?_, ?_, ?_, ?_, ?_, ?_, ?_, ?_⟩
  · ext <;> simp only [curvedRot, M3.ofCols, V3.cross, V3.neg, M3.transpose, M3.mul, M3.one] <;> grind
  · simp only [curvedRot, M3.ofCols, V3.cross, V3.neg, M3.det]; grind
  all_goals
    ext <;> simp only [Det3.surface, Det3.deriv0, Det3.deriv1, curvedRot, M3.ofCols, V3.cross,
      V3.neg, V3.add, V3.smul, V3.zero, M3.mulVec] <;> ring

example : IsRot3 (curvedRot (⟨2 / 7, 3 / 7, 6 / 7⟩ : V3 ℚ) ⟨3 / 7, -6 / 7, 2 / 7⟩) :=
  (C19.curved_rot_aligned _ _ 1 (by norm_num [V3.normSq, V3.dot]) (by norm_num [V3.normSq, V3.dot])
    (by norm_num [V3.dot])).1

/-- `CylindricalDetector` / `SphericalDetector` for ALL detector parameters (any
`(c0, s0) = (cos, sin)` of the angular parameter, any `(c1, s1)` of the polar one, any height
`v`, any radius and orthonormal axes), with `ctr = detector.translation` the centre:
sphere — every surface point has distance `radius` from the centre, both rows of
`surface_deriv` are tangent (orthogonal to the radius vector) and orthogonal to each other,
of lengths `radius·|cos θ|` and `radius`;
cylinder — every surface point has distance `radius` from the cylinder axis (the line through
the centre along `axes[1]`) and height `v` along it, `surface_deriv = (tangent of length
radius orthogonal to the axis, axes[1])`, and the un-normalised `surface_normal`
(`deriv₀ × deriv₁`) has length `radius` (`surface_measure`). -/
theorem C19.curved_detector_all_params {K : Type} [CommRing K] (a0 a1 : V3 K) (r : K) (p : P2 K)
    (h0 : a0.normSq = 1) (h1 : a1.normSq = 1) (h01 : V3.dot a0 a1 = 0)
    (hc0 : p.c0 * p.c0 + p.s0 * p.s0 = 1) (hc1 : p.c1 * p.c1 + p.s1 * p.s1 = 1) :
    let ctr := V3.smul (-r) ((curvedRot a0 a1).mulVec ⟨1, 0, 0⟩)
    -- sphere
    (V3.sub ((Det3.sph a0 a1 r).surface p) ctr).normSq = r * r ∧
    V3.dot ((Det3.sph a0 a1 r).deriv0 p) (V3.sub ((Det3.sph a0 a1 r).surface p) ctr) = 0 ∧
    V3.dot ((Det3.sph a0 a1 r).deriv1 p) (V3.sub ((Det3.sph a0 a1 r).surface p) ctr) = 0 ∧
    V3.dot ((Det3.sph a0 a1 r).deriv0 p) ((Det3.sph a0 a1 r).deriv1 p) = 0 ∧
    ((Det3.sph a0 a1 r).deriv1 p).normSq = r * r ∧
    ((Det3.sph a0 a1 r).deriv0 p).normSq = r * r * (p.c1 * p.c1) ∧
    -- cylinder
    (let w := V3.sub ((Det3.cyl a0 a1 r).surface p) ctr
     w.normSq - (V3.dot w a1) * (V3.dot w a1) = r * r ∧ V3.dot w a1 = p.v) ∧
    (Det3.cyl a0 a1 r).deriv1 p = a1 ∧
    V3.dot ((Det3.cyl a0 a1 r).deriv0 p) a1 = 0 ∧
    ((Det3.cyl a0 a1 r).deriv0 p).normSq = r * r ∧
    ((Det3.cyl a0 a1 r).normalRaw p).normSq = r * r := by
  intro ctr
  have hR := (show (curvedRot a0 a1).transpose.mul (curvedRot a0 a1) = M3.one from by
    obtain ⟨x, y, z⟩ := a0
    obtain ⟨u, v, w⟩ := a1
    simp only [V3.normSq, V3.dot] at h0 h1 h01
    ext <;> simp only [curvedRot, M3.ofCols, V3.cross, V3.neg, M3.transpose, M3.mul, M3.one] <;> grind)
  -- everything is R applied to an intrinsic vector
  have es : V3.sub ((Det3.sph a0 a1 r).surface p) ctr
      = (curvedRot a0 a1).mulVec ⟨r * (p.c0 * p.c1), r * (-p.s0 * p.c1), r * p.s1⟩ := by
    ext <;> simp only [ctr, Det3.surface, V3.add, V3.sub, V3.smul, M3.mulVec] <;> ring
  have ec : V3.sub ((Det3.cyl a0 a1 r).surface p) ctr
      = (curvedRot a0 a1).mulVec ⟨r * p.c0, r * (-p.s0), p.v⟩ := by
    ext <;> simp only [ctr, Det3.surface, V3.add, V3.sub, V3.smul, M3.mulVec] <;> ring
  have ea1 : a1 = (curvedRot a0 a1).mulVec ⟨0, 0, 1⟩ := by
    ext <;> simp only [curvedRot, M3.ofCols, M3.mulVec] <;> ring
  have hdet : (curvedRot a0 a1).det = 1 := by
    obtain ⟨x, y, z⟩ := a0
    obtain ⟨u, v, w⟩ := a1
    simp only [V3.normSq, V3.dot] at h0 h1 h01
    simp only [curvedRot, M3.ofCols, V3.cross, V3.neg, M3.det]; grind
  have hd : ∀ w : V3 K, V3.dot ((curvedRot a0 a1).mulVec w) a1 = w.z := by
    intro w
    have : V3.dot ((curvedRot a0 a1).mulVec w) ((curvedRot a0 a1).mulVec ⟨0, 0, 1⟩) = w.z := by
      rw [M3.dot_mulVec _ hR]; simp only [V3.dot]; ring
    rw [← ea1] at this; exact this
  refine ⟨?_, ?_, ?_, ?_, ?_, ?_, ⟨?_, ?_⟩, ?_, ?_, ?_, ?_⟩
  · rw [es, M3.normSq_mulVec _ hR]; simp only [V3.normSq, V3.dot]
    linear_combination (r * r * p.c1 * p.c1) * hc0 + (r * r) * hc1
  · rw [es]; simp only [Det3.deriv0]; rw [M3.dot_mulVec _ hR]; simp only [V3.dot]; ring
  · rw [es]; simp only [Det3.deriv1]; rw [M3.dot_mulVec _ hR]; simp only [V3.dot]
    linear_combination (-(r * r * p.c1 * p.s1)) * hc0
  · simp only [Det3.deriv0, Det3.deriv1]; rw [M3.dot_mulVec _ hR]; simp only [V3.dot]; ring
  · simp only [Det3.deriv1]; rw [M3.normSq_mulVec _ hR]; simp only [V3.normSq, V3.dot]
    linear_combination (r * r * p.s1 * p.s1) * hc0 + (r * r) * hc1
  · simp only [Det3.deriv0]; rw [M3.normSq_mulVec _ hR]; simp only [V3.normSq, V3.dot]
    linear_combination (r * r * p.c1 * p.c1) * hc0
  · rw [ec, hd, M3.normSq_mulVec _ hR]; simp only [V3.normSq, V3.dot]
    linear_combination (r * r) * hc0
  · rw [ec, hd]
  · simp only [Det3.deriv1]; exact ea1.symm
  · simp only [Det3.deriv0]; rw [hd]; ring
  · simp only [Det3.deriv0]; rw [M3.normSq_mulVec _ hR]; simp only [V3.normSq, V3.dot]
    linear_combination (r * r) * hc0
  · simp only [Det3.normalRaw, Det3.deriv0, Det3.deriv1]
    rw [cross_mulVec _ hR hdet, M3.normSq_mulVec _ hR]; simp only [V3.normSq, V3.dot, V3.cross]
    linear_combination (r * r) * hc0

example : ∃ (a0 a1 : V3 ℚ) (p : P2 ℚ), a0.normSq = 1 ∧ a1.normSq = 1 ∧ V3.dot a0 a1 = 0 ∧
    p.c0 * p.c0 + p.s0 * p.s0 = 1 ∧ p.c1 * p.c1 + p.s1 * p.s1 = 1 ∧ p.s0 ≠ 0 ∧ p.s1 ≠ 0 :=
  ⟨⟨2 / 7, 3 / 7, 6 / 7⟩, ⟨3 / 7, -6 / 7, 2 / 7⟩, ⟨1, 2, 3 / 5, 4 / 5, 5 / 13, 12 / 13⟩,
    by norm_num [V3.normSq, V3.dot], by norm_num [V3.normSq, V3.dot], by norm_num [V3.dot],
    by norm_num, by norm_num, by norm_num, by norm_num⟩

/-- `CircularDetector`: its intrinsic rotation is a rotation for every unit axis, the curve
passes through the origin at parameter 0 with tangent `radius·axis`, every point has
distance `radius` from the circle centre `translation`, and the derivative has length
`radius` (`surface_measure`). -/
theorem C19.circular_detector {K : Type} [CommRing K] (a : V2 K) (r c s : K)
    (ha : a.normSq = 1) (hc : c * c + s * s = 1) :
    IsRot2 (circRot a) ∧
    (Det2.circ a r).surface ⟨0, 1, 0⟩ = V2.zero ∧
    (Det2.circ a r).deriv ⟨0, 1, 0⟩ = V2.smul r a ∧
    V2.normSq (V2.sub ((Det2.circ a r).surface ⟨0, c, s⟩)
      (V2.smul (-r) ((circRot a).mulVec ⟨1, 0⟩))) = r * r ∧
    V2.normSq ((Det2.circ a r).deriv ⟨0, c, s⟩) = r * r := by
  obtain ⟨x, y⟩ := a
  simp only [V2.normSq, V2.dot] at ha
  refine ⟨⟨?_, ?_⟩, ?_, ?_, ?_, ?_⟩
  · ext <;> simp only [circRot, M2.transpose, M2.mul, M2.one] <;> grind
  · simp only [circRot, M2.det]; grind
  · ext <;> simp only [Det2.surface, circRot, V2.add, V2.smul, V2.zero, M2.mulVec] <;> ring
  · ext <;> simp only [Det2.deriv, circRot, V2.smul, M2.mulVec] <;> ring
  · simp only [Det2.surface, circRot, V2.add, V2.sub, V2.smul, V2.normSq, V2.dot, M2.mulVec]
    grind
  · simp only [Det2.deriv, circRot, V2.normSq, V2.dot, M2.mulVec]
    grind

/-! ## composition: reference point, rotation, detector surface -/

/-- DEFINITIONAL (unfolds the model; carries no information beyond the correspondence run).
`det_point_position = det_refpoint + rotation_matrix · detector.surface` for every
class, every rotation matrix, every detector (flat or curved) and all parameters.  (In the
model this is the definition; that the CODE computes the same numbers is the correspondence
run, where `det_point_position`, `det_refpoint`, `rotation_matrix` and `surface` are
evaluated separately on the real objects.) -/
theorem C19.det_point_decomp {K : Type} [CommRing K] :
    (∀ (g : Par2 K) R p, g.detPoint R p = V2.add (g.refpoint R) (R.mulVec (g.det.surface p))) ∧
    (∀ (g : Par3 K) R p, g.detPoint R p = V3.add (g.refpoint R) (R.mulVec (g.det.surface p))) ∧
    (∀ (g : Fan K) R sh p,
      g.detPoint R sh p = V2.add (g.refpoint R sh) (R.mulVec (g.det.surface p))) ∧
    (∀ (g : Cone K) R turns sh p,
      g.detPoint R turns sh p = V3.add (g.refpoint R turns sh) (R.mulVec (g.det.surface p))) :=
  ⟨fun _ _ _ => rfl, fun _ _ _ => rfl, fun _ _ _ _ => rfl, fun _ _ _ _ _ => rfl⟩

/-- DEFINITIONAL (the model, like the code, computes `det_to_src` as this difference).
Divergent beams: `det_to_src(normalized=False) = src_position - det_point_position`, so
`det_point_position + det_to_src = src_position`, for fan and cone beam geometries with
arbitrary radii, pitch, offsets, source and detector shifts, flat or curved detectors. -/
theorem C19.src_det_consistent {K : Type} [CommRing K] :
    (∀ (g : Fan K) R ssh dsh p,
      V2.add (g.detPoint R dsh p) (g.detToSrc R ssh dsh p) = g.srcPos R ssh) ∧
    (∀ (g : Cone K) R turns ssh dsh p,
      V3.add (g.detPoint R turns dsh p) (g.detToSrc R turns ssh dsh p) = g.srcPos R turns ssh) := by
  constructor
  · intro g R ssh dsh p
    ext <;> simp only [Fan.detToSrc, V2.add, V2.sub] <;> ring
  · intro g R turns ssh dsh p
    ext <;> simp only [Cone.detToSrc, V3.add, V3.sub] <;> ring

/-- The normalised `det_to_src` as the code computes it (`v / np.linalg.norm(v)`, executed by
the driver with an approximate square root): for any function `sqrt` that is a non-negative
square root at the squared norm in question, the normalised vector of the fan and cone beam
classes has unit length and is the positive multiple `1/‖v‖` of
`src_position - det_point_position` (whenever source and detector point differ); for the
parallel classes `det_to_src = R·(n/‖n‖)` has unit length for every orthonormal `R`. -/
theorem C19.det_to_src_normalised {K : Type} [Field K] [LinearOrder K] [IsStrictOrderedRing K]
    (sqrt : K → K) :
    (∀ (g : Fan K) R ssh dsh p, (g.detToSrc R ssh dsh p).normSq ≠ 0 →
      0 ≤ sqrt (g.detToSrc R ssh dsh p).normSq →
      sqrt (g.detToSrc R ssh dsh p).normSq * sqrt (g.detToSrc R ssh dsh p).normSq
        = (g.detToSrc R ssh dsh p).normSq →
      (g.detToSrcN sqrt R ssh dsh p).normSq = 1 ∧
      ∃ k, 0 < k ∧ g.detToSrcN sqrt R ssh dsh p = V2.smul k (g.detToSrc R ssh dsh p)) ∧
    (∀ (g : Cone K) R turns ssh dsh p, (g.detToSrc R turns ssh dsh p).normSq ≠ 0 →
      0 ≤ sqrt (g.detToSrc R turns ssh dsh p).normSq →
      sqrt (g.detToSrc R turns ssh dsh p).normSq * sqrt (g.detToSrc R turns ssh dsh p).normSq
        = (g.detToSrc R turns ssh dsh p).normSq →
      (g.detToSrcN sqrt R turns ssh dsh p).normSq = 1 ∧
      ∃ k, 0 < k ∧ g.detToSrcN sqrt R turns ssh dsh p = V3.smul k (g.detToSrc R turns ssh dsh p)) ∧
    (∀ (g : Par2 K) (R : M2 K) p, R.transpose.mul R = M2.one → (g.det.normalRaw p).normSq ≠ 0 →
      sqrt (g.det.normalRaw p).normSq * sqrt (g.det.normalRaw p).normSq
        = (g.det.normalRaw p).normSq →
      (g.detToSrc sqrt R p).normSq = 1) ∧
    (∀ (g : Par3 K) (R : M3 K) p, R.transpose.mul R = M3.one → (g.det.normalRaw p).normSq ≠ 0 →
      sqrt (g.det.normalRaw p).normSq * sqrt (g.det.normalRaw p).normSq
        = (g.det.normalRaw p).normSq →
      (g.detToSrc sqrt R p).normSq = 1) := by
  have n2 : ∀ (v : V2 K), v.normSq ≠ 0 → sqrt v.normSq * sqrt v.normSq = v.normSq →
      (V2.normalize sqrt v).normSq = 1 := by
    intro v h0 hs
    have hr : sqrt v.normSq ≠ 0 := by intro h; rw [h] at hs; exact h0 (by simpa using hs.symm)
    have e : (V2.normalize sqrt v).normSq
        = (1 / sqrt v.normSq) * (1 / sqrt v.normSq) * v.normSq := by
      simp only [V2.normalize, V2.normSq, V2.dot, V2.smul]; ring
    rw [e]; nth_rewrite 3 [← hs]; field_simp
  have n3 : ∀ (v : V3 K), v.normSq ≠ 0 → sqrt v.normSq * sqrt v.normSq = v.normSq →
      (V3.normalize sqrt v).normSq = 1 := by
    intro v h0 hs
    have hr : sqrt v.normSq ≠ 0 := by intro h; rw [h] at hs; exact h0 (by simpa using hs.symm)
    have e : (V3.normalize sqrt v).normSq
        = (1 / sqrt v.normSq) * (1 / sqrt v.normSq) * v.normSq := by
      simp only [V3.normalize, V3.normSq, V3.dot, V3.smul]; ring
    rw [e]; nth_rewrite 3 [← hs]; field_simp
  have pos : ∀ r s : K, s ≠ 0 → 0 ≤ r → r * r = s → 0 < 1 / r := by
    intro r s h0 hr hs
    have : r ≠ 0 := by intro h; rw [h] at hs; exact h0 (by simpa using hs.symm)
    exact one_div_pos.mpr (lt_of_le_of_ne hr (Ne.symm this))
  refine ⟨?_, ?_, ?_, ?_⟩
  · intro g R ssh dsh p h0 hn hs
    exact ⟨n2 _ h0 hs, 1 / sqrt (g.detToSrc R ssh dsh p).normSq, pos _ _ h0 hn hs, rfl⟩
  · intro g R turns ssh dsh p h0 hn hs
    exact ⟨n3 _ h0 hs, 1 / sqrt (g.detToSrc R turns ssh dsh p).normSq, pos _ _ h0 hn hs, rfl⟩
  · intro g R p hR h0 hs
    rw [Par2.detToSrc, M2.normSq_mulVec R hR]; exact n2 _ h0 hs
  · intro g R p hR h0 hs
    rw [Par3.detToSrc, M3.normSq_mulVec R hR]; exact n3 _ h0 hs

/-- non-trivial instance: fan beam, source radius 3, detector radius 2, angle `(3/5, 4/5)`,
detector point `u = 12`: `src - det point` has length 13, `sqrt` any function with
`sqrt 169 = 13`. -/
example : ∃ (g : Fan ℚ) (R : M2 ℚ) (p : P1 ℚ) (sqrt : ℚ → ℚ),
    (g.detToSrc R V2.zero V2.zero p).normSq = 169 ∧ sqrt 169 = 13 ∧
    (g.detToSrcN sqrt R V2.zero V2.zero p).normSq = 1 := by
  refine ⟨⟨⟨0, 1⟩, ⟨1, 2⟩, 3, 2, .flat ⟨1, 0⟩⟩, euler2 (3 / 5) (4 / 5), ⟨12, 0, 0⟩,
    fun _ => 13, ?_, rfl, ?_⟩
  · simp only [Fan.detToSrc, Fan.srcPos, Fan.detPoint, Fan.refpoint, Det2.surface, euler2, V2.add,
      V2.sub, V2.smul, V2.neg, V2.zero, V2.normSq, V2.dot, M2.mulVec]; norm_num
  · simp only [Fan.detToSrcN, V2.normalize, Fan.detToSrc, Fan.srcPos, Fan.detPoint, Fan.refpoint,
      Det2.surface, euler2, V2.add, V2.sub, V2.smul, V2.neg, V2.zero, V2.normSq, V2.dot,
      M2.mulVec]; norm_num

/-! ## parallel beams -/

/-- DEFINITIONAL for the model (the normal of a flat detector ignores its argument); that
the code's `surface_normal` / `det_to_src` do is checked on the real objects.
Parallel beam geometries (flat detectors): the ray direction `det_to_src` does not
depend on the detector point. -/
theorem C19.parallel_dir_const {K : Type} [CommRing K] :
    (∀ (pos t a : V2 K) R (p q : P1 K),
      (Par2.mk pos t (.flat a)).detToSrcRaw R p = (Par2.mk pos t (.flat a)).detToSrcRaw R q) ∧
    (∀ (pos t a0 a1 : V3 K) R (p q : P2 K),
      (Par3.mk pos t (.flat a0 a1)).detToSrcRaw R p =
        (Par3.mk pos t (.flat a0 a1)).detToSrcRaw R q) :=
  ⟨fun _ _ _ _ _ _ => rfl, fun _ _ _ _ _ _ _ => rfl⟩

/-- Parallel beam geometries: for every orthonormal rotation matrix (all three
constructions, by `rot_orthonormal_*`) the ray direction is orthogonal to the rotated
detector axes, and it has the length of the un-rotated normal (`‖axis‖ = 1` in 2d,
`‖a0 × a1‖` in 3d, which `surface_normal` divides by), at every detector point.  (Stated
for every model detector; the concrete parallel classes only construct flat detectors,
for which `deriv` is the axis.) -/
theorem C19.parallel_dir_orth_axes {K : Type} [CommRing K] :
    (∀ (g : Par2 K) (R : M2 K) (p : P1 K), R.transpose.mul R = M2.one →
      V2.dot (g.detToSrcRaw R p) (R.mulVec (g.det.deriv p)) = 0 ∧
      (g.detToSrcRaw R p).normSq = (g.det.deriv p).normSq) ∧
    (∀ (g : Par3 K) (R : M3 K) (p : P2 K), R.transpose.mul R = M3.one →
      V3.dot (g.detToSrcRaw R p) (R.mulVec (g.det.deriv0 p)) = 0 ∧
      V3.dot (g.detToSrcRaw R p) (R.mulVec (g.det.deriv1 p)) = 0 ∧
      (g.detToSrcRaw R p).normSq = (V3.cross (g.det.deriv0 p) (g.det.deriv1 p)).normSq) := by
  constructor
  · intro g R p h
    constructor
    · rw [Par2.detToSrcRaw, M2.dot_mulVec R h]
      simp only [Det2.normalRaw, V2.dot, V2.neg, perp2]; ring
    · rw [Par2.detToSrcRaw, M2.normSq_mulVec R h]
      simp only [Det2.normalRaw, V2.normSq, V2.dot, V2.neg, perp2]; ring
  · intro g R p h
    refine ⟨?_, ?_, ?_⟩
    · rw [Par3.detToSrcRaw, M3.dot_mulVec R h]
      simp only [Det3.normalRaw, V3.dot, V3.cross]; ring
    · rw [Par3.detToSrcRaw, M3.dot_mulVec R h]
      simp only [Det3.normalRaw, V3.dot, V3.cross]; ring
    · rw [Par3.detToSrcRaw, M3.normSq_mulVec R h]; rfl

/-- the hypothesis "R orthonormal" is satisfied by every rotation matrix the code builds
(`rot_orthonormal_*`), e.g. a non-trivial one: -/
example : ∃ R : M2 ℚ, R.transpose.mul R = M2.one ∧ R ≠ M2.one :=
  ⟨euler2 (3 / 5) (4 / 5), (C19.rot_orthonormal_2d _ _ (by norm_num)).1, by
    intro h; have := congrArg M2.a11 h; simp [euler2, M2.one] at this; norm_num at this⟩

/-- for flat detectors `deriv` IS the detector axis, so the statement above reads
`⟨det_to_src, det_axis(angle)⟩ = 0`. -/
example (a : V2 ℚ) (p : P1 ℚ) : (Det2.flat a).deriv p = a := rfl

/-- The rotated detector axes `det_axes(angle) = R·axes` keep their lengths and mutual
inner products (unit length, and orthogonal if the initial axes are). -/
theorem C19.det_axes_rotated {K : Type} [CommRing K] :
    (∀ (g : Par2 K) (R : M2 K), R.transpose.mul R = M2.one →
      (g.detAxis R).normSq = g.det.axis.normSq) ∧
    (∀ (g : Par3 K) (R : M3 K), R.transpose.mul R = M3.one →
      (g.detAxis0 R).normSq = g.det.a0.normSq ∧ (g.detAxis1 R).normSq = g.det.a1.normSq ∧
      V3.dot (g.detAxis0 R) (g.detAxis1 R) = V3.dot g.det.a0 g.det.a1) ∧
    (∀ (g : Cone K) (R : M3 K), R.transpose.mul R = M3.one →
      (g.detAxis0 R).normSq = g.det.a0.normSq ∧ (g.detAxis1 R).normSq = g.det.a1.normSq ∧
      V3.dot (g.detAxis0 R) (g.detAxis1 R) = V3.dot g.det.a0 g.det.a1) := by
  refine ⟨fun g R h => M2.normSq_mulVec R h _, fun g R h => ⟨M3.normSq_mulVec R h _,
    M3.normSq_mulVec R h _, M3.dot_mulVec R h _ _⟩, fun g R h => ⟨M3.normSq_mulVec R h _,
    M3.normSq_mulVec R h _, M3.dot_mulVec R h _ _⟩⟩

/-! ## fan / cone beam: circles and helices -/

/-- `FanBeamGeometry` without shift functions: for every orthonormal `R` and unit
`src_to_det_init`, the source lies on the circle of radius `src_radius` and the detector
reference point on the circle of radius `det_radius` around `translation`, on opposite
sides of the centre. -/
theorem C19.fan_radii {K : Type} [CommRing K] (g : Fan K) (R : M2 K)
    (hR : R.transpose.mul R = M2.one) (hd : g.d.normSq = 1) :
    (V2.sub (g.srcPos R V2.zero) g.t).normSq = g.rs * g.rs ∧
    (V2.sub (g.refpoint R V2.zero) g.t).normSq = g.rd * g.rd ∧
    V2.smul g.rd (V2.sub (g.srcPos R V2.zero) g.t) =
      V2.smul (-g.rs) (V2.sub (g.refpoint R V2.zero) g.t) := by
  have e1 : V2.sub (g.srcPos R V2.zero) g.t = R.mulVec (V2.smul (-g.rs) g.d) := by
    ext <;> simp only [Fan.srcPos, V2.add, V2.sub, V2.smul, V2.neg, V2.zero, M2.mulVec] <;> ring
  have e2 : V2.sub (g.refpoint R V2.zero) g.t = R.mulVec (V2.smul g.rd g.d) := by
    ext <;> simp only [Fan.refpoint, V2.add, V2.sub, V2.smul, V2.zero, M2.mulVec] <;> ring
  rw [e1, e2, M2.normSq_mulVec R hR, M2.normSq_mulVec R hR]
  simp only [V2.normSq, V2.dot, V2.smul] at hd ⊢
  refine ⟨by linear_combination (g.rs * g.rs) * hd, by linear_combination (g.rd * g.rd) * hd, ?_⟩
  ext <;> simp only [M2.mulVec] <;> ring

/-- `ConeBeamGeometry` (circular and helical, arbitrary unit axis, pitch and offset) without
shift functions, for every geometry the constructor accepts (`src_to_det_init` not parallel
to the axis; otherwise the tangent cannot be normalised and the constructor raises): at
every angle the source has distance `src_radius` and the detector
reference point distance `det_radius` from the point
`translation + (offset_along_axis + pitch·angle/2π)·axis` of the rotation axis, on opposite
sides of it. -/
theorem C19.cone_radii {K : Type} [CommRing K] [LE K] [DecidableLE K] (tol2 : K) (g : Cone K)
    (R : M3 K) (turns : K) (hR : R.transpose.mul R = M3.one) (hd : g.d.normSq = 1)
    (_hacc : Cone.ctorRejects tol2 g.d g.axis = false) :
    let centre := V3.add g.t (V3.smul (g.off + g.pitch * turns) g.axis)
    (V3.sub (g.srcPos R turns V3.zero) centre).normSq = g.rs * g.rs ∧
    (V3.sub (g.refpoint R turns V3.zero) centre).normSq = g.rd * g.rd ∧
    V3.smul g.rd (V3.sub (g.srcPos R turns V3.zero) centre) =
      V3.smul (-g.rs) (V3.sub (g.refpoint R turns V3.zero) centre) := by
  intro centre
  have e1 : V3.sub (g.srcPos R turns V3.zero) centre = R.mulVec (V3.smul (-g.rs) g.d) := by
    ext <;> simp only [centre, Cone.srcPos, V3.add, V3.sub, V3.smul, V3.neg, V3.zero, V3.cross,
      M3.mulVec] <;> ring
  have e2 : V3.sub (g.refpoint R turns V3.zero) centre = R.mulVec (V3.smul g.rd g.d) := by
    ext <;> simp only [centre, Cone.refpoint, V3.add, V3.sub, V3.smul, V3.neg, V3.zero, V3.cross,
      M3.mulVec] <;> ring
  rw [e1, e2, M3.normSq_mulVec R hR, M3.normSq_mulVec R hR]
  simp only [V3.normSq, V3.dot, V3.smul] at hd ⊢
  refine ⟨by linear_combination (g.rs * g.rs) * hd, by linear_combination (g.rd * g.rd) * hd, ?_⟩
  ext <;> simp only [M3.mulVec] <;> ring

example : ∃ g : Cone ℚ, g.d.normSq = 1 ∧ g.pitch ≠ 0 ∧ g.rs ≠ 0 :=
  ⟨⟨⟨2 / 7, 3 / 7, 6 / 7⟩, ⟨3 / 7, -6 / 7, 2 / 7⟩, ⟨1, 2, 3⟩, 5, 4, 2, 1, 1, .flat ⟨1, 0, 0⟩ ⟨0, 0, 1⟩⟩,
    by norm_num [V3.normSq, V3.dot], by norm_num, by norm_num⟩

/-- `FanBeamGeometry` WITH source and detector shift functions (arbitrary shift values
`(shift_d, shift_t)` at the angle): the source has distance `√((src_radius + shift_d)² +
shift_t²)` from `translation`, the detector reference point `√((det_radius + shift_d)² +
shift_t²)` — the shifts act along the rotated `src_to_det_init` and orthogonally to it. -/
theorem C19.fan_radii_shifted {K : Type} [CommRing K] (g : Fan K) (R : M2 K) (ssh dsh : V2 K)
    (hR : R.transpose.mul R = M2.one) (hd : g.d.normSq = 1) :
    (V2.sub (g.srcPos R ssh) g.t).normSq = (g.rs + ssh.x) * (g.rs + ssh.x) + ssh.y * ssh.y ∧
    (V2.sub (g.refpoint R dsh) g.t).normSq = (g.rd + dsh.x) * (g.rd + dsh.x) + dsh.y * dsh.y := by
  obtain ⟨⟨dx, dy⟩, t, rs, rd, det⟩ := g
  simp only [V2.normSq, V2.dot] at hd
  have e1 : V2.sub ((Fan.mk ⟨dx, dy⟩ t rs rd det).srcPos R ssh) t
      = R.mulVec ⟨-(rs + ssh.x) * dx + ssh.y * dy, -(rs + ssh.x) * dy - ssh.y * dx⟩ := by
    ext <;> simp only [Fan.srcPos, V2.add, V2.sub, V2.smul, V2.neg, M2.mulVec] <;> ring
  have e2 : V2.sub ((Fan.mk ⟨dx, dy⟩ t rs rd det).refpoint R dsh) t
      = R.mulVec ⟨(rd + dsh.x) * dx - dsh.y * dy, (rd + dsh.x) * dy + dsh.y * dx⟩ := by
    ext <;> simp only [Fan.refpoint, V2.add, V2.sub, V2.smul, M2.mulVec] <;> ring
  rw [e1, e2, M2.normSq_mulVec R hR, M2.normSq_mulVec R hR]
  simp only [V2.normSq, V2.dot]
  constructor
  · linear_combination ((rs + ssh.x) * (rs + ssh.x) + ssh.y * ssh.y) * hd
  · linear_combination ((rd + dsh.x) * (rd + dsh.x) + dsh.y * dsh.y) * hd

/-- `ConeBeamGeometry` WITH shift functions `(shift_d, shift_t, shift_r)`, pitch and offset,
for every geometry whose tangent is normalised (`kt = 1/‖d × axis‖`, which exists exactly for
the geometries the constructor accepts, `cone_ctor_rejects`): source and detector reference
point have the distances `√((radius + shift_d)² + shift_t²)` from the point of the rotation
axis at height `offset + pitch·angle/2π + shift_r`. -/
theorem C19.cone_radii_shifted {K : Type} [CommRing K] (g : Cone K) (R : M3 K) (turns : K) (ssh dsh : V3 K)
    (hR : R.transpose.mul R = M3.one) (hd : g.d.normSq = 1)
    (hk : g.kt * g.kt * (V3.cross g.d g.axis).normSq = 1) :
    (V3.sub (g.srcPos R turns ssh)
      (V3.add g.t (V3.smul (g.off + g.pitch * turns + ssh.z) g.axis))).normSq
      = (g.rs + ssh.x) * (g.rs + ssh.x) + ssh.y * ssh.y ∧
    (V3.sub (g.refpoint R turns dsh)
      (V3.add g.t (V3.smul (g.off + g.pitch * turns + dsh.z) g.axis))).normSq
      = (g.rd + dsh.x) * (g.rd + dsh.x) + dsh.y * dsh.y := by
  obtain ⟨⟨ax, ay, az⟩, ⟨dx, dy, dz⟩, t, rs, rd, pitch, off, kt, det⟩ := g
  simp only [V3.normSq, V3.dot, V3.cross] at hd hk
  have e1 : V3.sub ((Cone.mk ⟨ax, ay, az⟩ ⟨dx, dy, dz⟩ t rs rd pitch off kt det).srcPos R turns ssh)
      (V3.add t (V3.smul (off + pitch * turns + ssh.z) ⟨ax, ay, az⟩))
      = R.mulVec (V3.add (V3.smul (-(rs + ssh.x)) ⟨dx, dy, dz⟩)
          (V3.smul (ssh.y * kt) (V3.cross ⟨dx, dy, dz⟩ ⟨ax, ay, az⟩))) := by
    ext <;> simp only [Cone.srcPos, V3.add, V3.sub, V3.smul, V3.neg, V3.cross, M3.mulVec] <;> ring
  have e2 : V3.sub ((Cone.mk ⟨ax, ay, az⟩ ⟨dx, dy, dz⟩ t rs rd pitch off kt det).refpoint R turns dsh)
      (V3.add t (V3.smul (off + pitch * turns + dsh.z) ⟨ax, ay, az⟩))
      = R.mulVec (V3.add (V3.smul (rd + dsh.x) ⟨dx, dy, dz⟩)
          (V3.smul (-(dsh.y * kt)) (V3.cross ⟨dx, dy, dz⟩ ⟨ax, ay, az⟩))) := by
    ext <;> simp only [Cone.refpoint, V3.add, V3.sub, V3.smul, V3.neg, V3.cross, M3.mulVec] <;> ring
  rw [e1, e2, M3.normSq_mulVec R hR, M3.normSq_mulVec R hR]
  simp only [V3.normSq, V3.dot, V3.add, V3.smul, V3.cross]
  constructor
  · linear_combination ((rs + ssh.x) * (rs + ssh.x)) * hd + (ssh.y * ssh.y) * hk
  · linear_combination ((rd + dsh.x) * (rd + dsh.x)) * hd + (dsh.y * dsh.y) * hk

/-- `ConeBeamGeometry.__init__`'s degeneracy test as executed by the model
(`‖d × axis‖² ≤ tol²·‖axis‖²`, `tol ≥ 0`): every `src_to_det_init` that is a multiple of the
axis is rejected, and for every accepted pair the tangent `d × axis` is non-zero, so that it
can be normalised (no 0/0 in `det_refpoint` / `src_position`). -/
theorem C19.cone_ctor_rejects {K : Type} [Field K] [LinearOrder K] [IsStrictOrderedRing K] (tol2 : K)
    (htol : 0 ≤ tol2) :
    (∀ (k : K) (axis : V3 K), Cone.ctorRejects tol2 (V3.smul k axis) axis = true) ∧
    (∀ d axis : V3 K, Cone.ctorRejects tol2 d axis = false →
      (V3.cross d axis).normSq ≠ 0 ∧ 0 < (V3.cross d axis).normSq) := by
  constructor
  · intro k axis
    have : (V3.cross (V3.smul k axis) axis).normSq = 0 := by
      simp only [V3.cross, V3.smul, V3.normSq, V3.dot]; ring
    simp only [Cone.ctorRejects, this, decide_eq_true_eq]
    have : 0 ≤ axis.normSq := by simp only [V3.normSq, V3.dot]; nlinarith [mul_self_nonneg axis.x, mul_self_nonneg axis.y, mul_self_nonneg axis.z]
    positivity
  · intro d axis h
    simp only [Cone.ctorRejects, decide_eq_false_iff_not, not_le] at h
    have h2 : 0 ≤ axis.normSq := by simp only [V3.normSq, V3.dot]; nlinarith [mul_self_nonneg axis.x, mul_self_nonneg axis.y, mul_self_nonneg axis.z]
    have : 0 < (V3.cross d axis).normSq := lt_of_le_of_lt (mul_nonneg htol h2) h
    exact ⟨ne_of_gt this, this⟩

example : ∃ g : Cone ℚ, g.d.normSq = 1 ∧ g.kt * g.kt * (V3.cross g.d g.axis).normSq = 1 ∧
    Cone.ctorRejects (1 / 10 ^ 20 : ℚ) g.d g.axis = false :=
  ⟨⟨⟨0, 0, 1⟩, ⟨3 / 5, 4 / 5, 0⟩, ⟨1, 2, 3⟩, 5, 4, 2, 1, 1, .flat ⟨1, 0, 0⟩ ⟨0, 0, 1⟩⟩,
    by norm_num [V3.normSq, V3.dot], by norm_num [V3.normSq, V3.dot, V3.cross],
    by simp only [Cone.ctorRejects, V3.cross, V3.normSq, V3.dot]; norm_num⟩

/-! ## `frommatrix`: the geometry is the default one moved by `x ↦ Qx + b` -/

/-- DEFINITIONAL (unfolds `par2FromMatrix` / `par3FromMatrix`; tie = correspondence).
`frommatrix` stores `det_pos_init = M·default + b` and `translation = b`; at rotation
angle 0 the reference point is that position. -/
theorem C19.frommatrix_initial {K : Type} [CommRing K] (M : M2 K) (b : V2 K) (M3' : M3 K)
    (b3 : V3 K) :
    (par2FromMatrix M b).pos = V2.add (M.mulVec ⟨0, 1⟩) b ∧ (par2FromMatrix M b).t = b ∧
    (par3FromMatrix M3' b3).pos = V3.add (M3'.mulVec ⟨0, 1, 0⟩) b3 ∧
    (par3FromMatrix M3' b3).t = b3 ∧
    (∀ det, (Par2.mk (par2FromMatrix M b).pos b det).refpoint (euler2 1 0) =
      (par2FromMatrix M b).pos) := by
  refine ⟨rfl, rfl, rfl, rfl, ?_⟩
  intro det
  ext <;> simp only [Par2.refpoint, par2FromMatrix, par2Ctor, euler2, V2.add, V2.sub, M2.mulVec] <;>
    ring

/-- Rigid-motion consistency of `frommatrix` for the axis-oriented 3d classes: if the left
block `Q` of `init_matrix` is a rotation and `b` its last column, then the geometry built
from the transformed vectors (`axis ↦ Q·axis`, `src_to_det_init ↦ Q·d`, positions
`↦ Q·p + b`, translation `b`) has rotation matrices conjugated by `Q`, and at every angle
the reference points of `Parallel3dAxisGeometry` and the source positions and detector
reference points of `ConeBeamGeometry` (with pitch, offset and shift functions) are the
images under `x ↦ Qx + b` of those of the untransformed geometry (translation 0).
(`det_point_position` / `det_to_src` of the transformed geometry are compared on the real
code only.) -/
theorem C19.frommatrix_consistent {K : Type} [CommRing K] (Q : M3 K)
    (hQ : Q.transpose.mul Q = M3.one) (hdet : Q.det = 1) (b axis p0 d sh : V3 K)
    (c s rs rd pitch off kt turns : K) (det det' : Det3 K) :
    (axisRot (Q.mulVec axis) c s).mul Q = Q.mul (axisRot axis c s) ∧
    (Par3.mk (V3.add (Q.mulVec p0) b) b det').refpoint (axisRot (Q.mulVec axis) c s) =
      V3.add (Q.mulVec ((Par3.mk p0 V3.zero det).refpoint (axisRot axis c s))) b ∧
    (Cone.mk (Q.mulVec axis) (Q.mulVec d) b rs rd pitch off kt det').srcPos
        (axisRot (Q.mulVec axis) c s) turns sh =
      V3.add (Q.mulVec ((Cone.mk axis d V3.zero rs rd pitch off kt det).srcPos
        (axisRot axis c s) turns sh)) b ∧
    (Cone.mk (Q.mulVec axis) (Q.mulVec d) b rs rd pitch off kt det').refpoint
        (axisRot (Q.mulVec axis) c s) turns sh =
      V3.add (Q.mulVec ((Cone.mk axis d V3.zero rs rd pitch off kt det).refpoint
        (axisRot axis c s) turns sh)) b := by
  have h := axisRot_conj Q hQ hdet axis c s
  have key : ∀ x, (axisRot (Q.mulVec axis) c s).mulVec (Q.mulVec x) =
      Q.mulVec ((axisRot axis c s).mulVec x) := by
    intro x; rw [← M3.mul_mulVec, ← M3.mul_mulVec, h]
  refine ⟨h, ?_, ?_, ?_⟩
  · have e1 : V3.sub (V3.add (Q.mulVec p0) b) b = Q.mulVec p0 := by
      ext <;> simp only [V3.add, V3.sub] <;> ring
    have e2 : V3.sub p0 V3.zero = p0 := by
      ext <;> simp only [V3.sub, V3.zero] <;> ring
    simp only [Par3.refpoint, e1, e2, key]
    ext <;> simp only [V3.add, V3.zero, M3.mulVec] <;> ring
  · simp only [Cone.srcPos]
    rw [M3.mulVec_neg, cross_mulVec Q hQ hdet]
    generalize V3.cross (V3.neg d) axis = X
    have e : V3.add (V3.smul (-rs) (Q.mulVec d))
        (V3.add (V3.smul sh.x (Q.mulVec (V3.neg d)))
          (V3.smul sh.y (V3.smul kt (V3.neg (Q.mulVec X)))))
        = Q.mulVec (V3.add (V3.smul (-rs) d)
          (V3.add (V3.smul sh.x (V3.neg d)) (V3.smul sh.y (V3.smul kt (V3.neg X))))) := by
      ext <;> simp only [V3.add, V3.smul, V3.neg, M3.mulVec] <;> ring
    rw [e, key]
    ext <;> simp only [V3.add, V3.smul, V3.zero, M3.mulVec] <;> ring
  · simp only [Cone.refpoint]
    rw [cross_mulVec Q hQ hdet]
    generalize V3.cross d axis = X
    have e : V3.add (V3.smul rd (Q.mulVec d))
        (V3.add (V3.smul sh.x (Q.mulVec d)) (V3.smul sh.y (V3.smul kt (V3.neg (Q.mulVec X)))))
        = Q.mulVec (V3.add (V3.smul rd d)
          (V3.add (V3.smul sh.x d) (V3.smul sh.y (V3.smul kt (V3.neg X))))) := by
      ext <;> simp only [V3.add, V3.smul, V3.neg, M3.mulVec] <;> ring
    rw [e, key]
    ext <;> simp only [V3.add, V3.smul, V3.zero, M3.mulVec] <;> ring

example : ∃ Q : M3 ℚ, Q.transpose.mul Q = M3.one ∧ Q.det = 1 ∧ Q.a12 ≠ 0 :=
  ⟨axisRot ⟨2 / 7, 3 / 7, 6 / 7⟩ (3 / 5) (4 / 5),
    (C19.rot_orthonormal_axis _ _ _ (by norm_num) (by norm_num [V3.normSq, V3.dot])).1,
    (C19.rot_orthonormal_axis _ _ _ (by norm_num) (by norm_num [V3.normSq, V3.dot])).2,
    by norm_num [axisRot]⟩

/-- `frommatrix` transforms the detector axes by `Q`: for all three 3d detector types (flat,
cylindrical, spherical), every rotation `Q`, radius and detector parameter, the surface of the
detector with axes `Q·a0, Q·a1` is the image under `Q` of the surface of the detector with
axes `a0, a1`. -/
theorem C19.detector_frommatrix_covariant {K : Type} [CommRing K] (Q : M3 K) (hQ : Q.transpose.mul Q = M3.one)
    (hd : Q.det = 1) (a0 a1 : V3 K) (r : K) (p : P2 K) :
    (Det3.flat (Q.mulVec a0) (Q.mulVec a1)).surface p = Q.mulVec ((Det3.flat a0 a1).surface p) ∧
    (Det3.cyl (Q.mulVec a0) (Q.mulVec a1) r).surface p = Q.mulVec ((Det3.cyl a0 a1 r).surface p) ∧
    (Det3.sph (Q.mulVec a0) (Q.mulVec a1) r).surface p = Q.mulVec ((Det3.sph a0 a1 r).surface p) := by
  have lin : ∀ (k : K) (u v : V3 K), V3.add (Q.mulVec u) (V3.smul k (Q.mulVec v))
      = Q.mulVec (V3.add u (V3.smul k v)) := by
    intro k u v; ext <;> simp only [V3.add, V3.smul, M3.mulVec] <;> ring
  refine ⟨?_, ?_, ?_⟩
  · ext <;> simp only [Det3.surface, V3.add, V3.smul, M3.mulVec] <;> ring
  · simp only [Det3.surface, curvedRot_cov Q hQ hd, lin]
  · simp only [Det3.surface, curvedRot_cov Q hQ hd, lin]
/-- Rigid-motion consistency of `frommatrix` for detector points and rays: for every rotation
`Q`, translation `b` and every pair of detectors whose surfaces are related by `Q` (all three
detector types, by `detector_frommatrix_covariant`), `det_point_position` of the transformed
`ConeBeamGeometry` (pitch, offset, shifts) and `Parallel3dAxisGeometry` is the image under
`x ↦ Qx + b` of that of the untransformed geometry, and the un-normalised `det_to_src` is the
image under `Q`. -/
theorem C19.frommatrix_consistent_det_point {K : Type} [CommRing K] (Q : M3 K)
    (hQ : Q.transpose.mul Q = M3.one) (hdet : Q.det = 1) (b axis p0 d ssh dsh : V3 K)
    (c s rs rd pitch off kt turns : K) (det det' : Det3 K) (p : P2 K)
    (hs : det'.surface p = Q.mulVec (det.surface p)) :
    (Cone.mk (Q.mulVec axis) (Q.mulVec d) b rs rd pitch off kt det').detPoint
        (axisRot (Q.mulVec axis) c s) turns dsh p =
      V3.add (Q.mulVec ((Cone.mk axis d V3.zero rs rd pitch off kt det).detPoint
        (axisRot axis c s) turns dsh p)) b ∧
    (Cone.mk (Q.mulVec axis) (Q.mulVec d) b rs rd pitch off kt det').detToSrc
        (axisRot (Q.mulVec axis) c s) turns ssh dsh p =
      Q.mulVec ((Cone.mk axis d V3.zero rs rd pitch off kt det).detToSrc
        (axisRot axis c s) turns ssh dsh p) ∧
    (Par3.mk (V3.add (Q.mulVec p0) b) b det').detPoint (axisRot (Q.mulVec axis) c s) p =
      V3.add (Q.mulVec ((Par3.mk p0 V3.zero det).detPoint (axisRot axis c s) p)) b := by
  obtain ⟨hconj, hpar, _, _⟩ := C19.frommatrix_consistent Q hQ hdet b axis p0 d dsh c s rs rd pitch off kt turns det det'
  obtain ⟨_, _, hsrc, _⟩ := C19.frommatrix_consistent Q hQ hdet b axis p0 d ssh c s rs rd pitch off kt turns det det'
  obtain ⟨_, _, _, href⟩ := C19.frommatrix_consistent Q hQ hdet b axis p0 d dsh c s rs rd pitch off kt turns det det'
  have key : ∀ x, (axisRot (Q.mulVec axis) c s).mulVec (Q.mulVec x) =
      Q.mulVec ((axisRot axis c s).mulVec x) := by
    intro x; rw [← M3.mul_mulVec, ← M3.mul_mulVec, hconj]
  have hdp : (Cone.mk (Q.mulVec axis) (Q.mulVec d) b rs rd pitch off kt det').detPoint
        (axisRot (Q.mulVec axis) c s) turns dsh p =
      V3.add (Q.mulVec ((Cone.mk axis d V3.zero rs rd pitch off kt det).detPoint
        (axisRot axis c s) turns dsh p)) b := by
    simp only [Cone.detPoint, href, hs, key]
    ext <;> simp only [V3.add, M3.mulVec] <;> ring
  refine ⟨hdp, ?_, ?_⟩
  · simp only [Cone.detToSrc, hdp, hsrc]
    ext <;> simp only [V3.add, V3.sub, M3.mulVec] <;> ring
  · simp only [Par3.detPoint, hpar, hs, key]
    ext <;> simp only [V3.add, M3.mulVec] <;> ring

example (p : P2 ℚ) : (Det3.cyl ((axisRot ⟨2 / 7, 3 / 7, 6 / 7⟩ (3 / 5) (4 / 5)).mulVec ⟨1, 0, 0⟩)
    ((axisRot (⟨2 / 7, 3 / 7, 6 / 7⟩ : V3 ℚ) (3 / 5) (4 / 5)).mulVec ⟨0, 0, 1⟩) 5).surface p =
    (axisRot ⟨2 / 7, 3 / 7, 6 / 7⟩ (3 / 5) (4 / 5)).mulVec ((Det3.cyl ⟨1, 0, 0⟩ ⟨0, 0, 1⟩ 5).surface p) :=
  (C19.detector_frommatrix_covariant _
    (C19.rot_orthonormal_axis _ _ _ (by norm_num) (by norm_num [V3.normSq, V3.dot])).1
    (C19.rot_orthonormal_axis _ _ _ (by norm_num) (by norm_num [V3.normSq, V3.dot])).2 _ _ 5 p).2.1

/-- The 2d analogue (`Parallel2dGeometry.frommatrix` with a rotation `Q = euler2 c' s'`,
which commutes with the motion rotation). -/
theorem C19.frommatrix_consistent_2d {K : Type} [CommRing K] (c' s' c s : K) (b p0 : V2 K)
    (det det' : Det2 K) :
    (Par2.mk (V2.add ((euler2 c' s').mulVec p0) b) b det').refpoint (euler2 c s) =
      V2.add ((euler2 c' s').mulVec ((Par2.mk p0 V2.zero det).refpoint (euler2 c s))) b := by
  ext <;> simp only [Par2.refpoint, euler2, V2.add, V2.sub, V2.zero, M2.mulVec] <;> ring

/-! ## `__getitem__`

Slicing by angle index keeps all constants of the geometry and replaces the angle
partition (C14): the slice evaluated at its k-th angle gives the vectors of the original at
that angle, provided the constructor call made by `__getitem__` reproduces the state.  For
the divergent classes the constants are passed through unchanged (checked on the real code
by the slicing stream).  For the parallel classes the absolute `det_pos_init` is re-derived
from what `__getitem__` passes to the constructor; that is the part modelled here. -/

/-- `Parallel2dGeometry.__getitem__`, for every state (so also for slices of slices), every
position and every translation: the slice has the receiver's `det_pos_init`,
`translation` and `check_bounds` — hence the same reference points `t + R·(pos - t)` at every angle — and the
receiver is unchanged. -/
theorem C19.getitem_angles_par2d {K : Type} [CommRing K] (g : PosState (V2 K)) :
    (par2Getitem g).2.pos = g.pos ∧ (par2Getitem g).2.t = g.t ∧
    (par2Getitem g).2.cb = g.cb ∧ (par2Getitem g).1 = g ∧
    (∀ det R, (Par2.mk (par2Getitem g).2.pos (par2Getitem g).2.t det).refpoint R =
      (Par2.mk g.pos g.t det).refpoint R) := by
  have h : (par2Getitem g).2.pos = g.pos := by
    ext <;> simp only [par2Getitem, par2Ctor, V2.add, V2.sub] <;> ring
  refine ⟨h, rfl, rfl, rfl, ?_⟩
  intro det R
  rw [h]; rfl

example : (par2Getitem (par2Ctor (⟨3 / 5, 4 / 5⟩ : V2 ℚ) ⟨2, 3⟩)).2.pos = ⟨13 / 5, 19 / 5⟩ := by
  simp only [par2Getitem, par2Ctor, V2.add, V2.sub]; norm_num

/-- (not a property theorem: an `example` about the OLD model variant)
Sensitivity (the code before repair eee844a, finding F19a): with the OLD `__getitem__`
the slice and the receiver keep `det_pos_init` if and only if the translation is zero; e.g.
default position `(0, 1)`, translation `(1, 0)`: the slice's reference point at angle 0 was
`(2, 1)` instead of `(1, 1)`. -/
example {K : Type} [CommRing K] (p t : V2 K) :
    ((par2GetitemOld (par2CtorOld p t)).2.pos = (par2CtorOld p t).pos ↔ t = V2.zero) ∧
    ((par2GetitemOld (par2CtorOld p t)).1.pos = (par2CtorOld p t).pos ↔ t = V2.zero) := by
  obtain ⟨px, py⟩ := p
  obtain ⟨tx, ty⟩ := t
  simp only [par2GetitemOld, par2CtorOld, V2.add, V2.zero, V2.mk.injEq]
  refine ⟨⟨fun h => ⟨by linear_combination h.1, by linear_combination h.2⟩,
    fun h => ⟨by rw [h.1]; ring, by rw [h.2]; ring⟩⟩,
    ⟨fun h => ⟨by linear_combination h.1, by linear_combination h.2⟩,
    fun h => ⟨by rw [h.1]; ring, by rw [h.2]; ring⟩⟩⟩

/-- DEFINITIONAL given the model of the constructor (`__getitem__` calls it again with the
stored arguments, which the out-of-place translation leaves untouched).
`Parallel3dAxisGeometry.__getitem__`: for every way the geometry was constructed
(`det_pos_init` given or derived, any translation, also via `frommatrix`), the slice is in
the same state as the receiver and the receiver is unchanged; so any number of successive
slicings reproduce the state. -/
theorem C19.getitem_angles_par3d {K : Type} [CommRing K] (dflt t : V3 K)
    (arg : Option (V3 K)) (M : M3 K) (cb : Bool) :
    let g := par3Ctor dflt arg t cb
    ((par3Getitem dflt g).2 = g ∧ (par3Getitem dflt g).1 = g) ∧
    ((par3Getitem V3.zero (par3FromMatrix M t)).2 = par3FromMatrix M t) := by
  cases arg <;> exact ⟨⟨rfl, rfl⟩, rfl⟩

/-- (not a property theorem: an `example` about the OLD model variant)
Sensitivity (the code before repair 3a647dc, finding F19b): with the in-place `+=` the
first slice was right iff the argument was not aliased or the translation zero, and even
without aliasing a second slice of the same geometry was right iff the translation is zero. -/
example {K : Type} [CommRing K] (dflt p t : V3 K)
    (aliased : Bool) :
    let g := par3CtorOld dflt (some p) aliased t
    ((par3GetitemOld dflt g).2.pos = g.pos ↔ (aliased = false ∨ t = V3.zero)) ∧
    ((par3GetitemOld dflt (par3GetitemOld dflt (par3CtorOld dflt (some p) false t)).1).2.pos =
      (par3CtorOld dflt (some p) false t).pos ↔ t = V3.zero) := by
  obtain ⟨px, py, pz⟩ := p
  obtain ⟨tx, ty, tz⟩ := t
  have key : ∀ a b : K, a + b + b = a + b ↔ b = 0 := fun a b =>
    ⟨fun h => by linear_combination h, fun h => by rw [h]; ring⟩
  refine ⟨?_, ?_⟩
  · cases aliased <;>
      simp [par3GetitemOld, par3CtorOld, V3.add, V3.zero, key]
  · simp [par3GetitemOld, par3CtorOld, V3.add, V3.zero, key]

/-! ## factories -/

/-- `parallel_beam_geometry` (2d): the detector `[-rho, rho]` covers the volume for every
angle: a point `x` of the plane with `‖x‖ ≤ rho` is seen by the default geometry
(`det_pos_init = (0,1)`, `det_axis_init = (1,0)`, no translation) at a detector coordinate
in `[-rho, rho]`, and the ray through that detector point does pass through `x`. -/
theorem C19.factory_covers_volume_parallel {K : Type} [Field K] [LinearOrder K]
    [IsStrictOrderedRing K] (c s rho : K) (x : V2 K) (hc : c * c + s * s = 1)
    (hrho : 0 ≤ rho) (hx : x.normSq ≤ rho * rho) :
    let g : Par2 K := ⟨⟨0, 1⟩, ⟨0, 0⟩, .flat ⟨1, 0⟩⟩
    let u := g.detCoord (euler2 c s) x
    (-parHalfWidth rho ≤ u ∧ u ≤ parHalfWidth rho) ∧
    (∃ lam : K, x = V2.add (g.detPoint (euler2 c s) ⟨u, 0, 0⟩)
      (V2.smul lam (g.detToSrcRaw (euler2 c s) ⟨u, 0, 0⟩))) := by
  obtain ⟨x1, x2⟩ := x
  simp only [V2.normSq, V2.dot] at hx
  simp only [Par2.detCoord, Par2.refpoint, Par2.detAxis, Par2.detPoint, Par2.detToSrcRaw,
    Det2.axis, Det2.surface, Det2.normalRaw, Det2.deriv, perp2, euler2, V2.dot, V2.sub, V2.add,
    V2.smul, V2.neg, M2.mulVec, parHalfWidth]
  refine ⟨?_, ?_⟩
  · have h1 : (x1 * c + x2 * s) ^ 2 ≤ rho ^ 2 := by
      nlinarith [sq_nonneg (x1 * s - x2 * c)]
    have h2 := abs_le_of_sq_le_sq' h1 hrho
    constructor <;> nlinarith [h2.1, h2.2]
  · refine ⟨x1 * s - x2 * c + 1, ?_⟩
    ext <;> simp only [] <;> grind

/-- `parallel_beam_geometry` (3d, `Parallel3dAxisGeometry` about the z axis with the default
vectors): a point `x` with `x₀² + x₁² ≤ rho²` is seen at a horizontal detector coordinate
in `[-rho, rho]` and at the vertical coordinate `x₂` — so the detector
`[-rho, rho] × [z_min, z_max]` the factory builds covers the volume at every angle. -/
theorem C19.factory_covers_volume_parallel_3d {K : Type} [Field K] [LinearOrder K]
    [IsStrictOrderedRing K] (c s rho : K) (x : V3 K) (hc : c * c + s * s = 1)
    (hrho : 0 ≤ rho) (hx : x.x * x.x + x.y * x.y ≤ rho * rho) :
    let g : Par3 K := ⟨⟨0, 1, 0⟩, ⟨0, 0, 0⟩, .flat ⟨1, 0, 0⟩ ⟨0, 0, 1⟩⟩
    let R := axisRot (⟨0, 0, 1⟩ : V3 K) c s
    (-parHalfWidth rho ≤ g.detCoord0 R x ∧ g.detCoord0 R x ≤ parHalfWidth rho) ∧
    g.detCoord1 R x = x.z := by
  obtain ⟨x1, x2, x3⟩ := x
  simp only at hx
  simp only [Par3.detCoord0, Par3.detCoord1, Par3.refpoint, Par3.detAxis0, Par3.detAxis1, Det3.a0,
    Det3.a1, axisRot, V3.dot, V3.sub, V3.add, M3.mulVec, parHalfWidth]
  refine ⟨?_, by ring⟩
  have h1 : (x1 * c + x2 * s) ^ 2 ≤ rho ^ 2 := by
    nlinarith [sq_nonneg (x1 * s - x2 * c)]
  have h2 := abs_le_of_sq_le_sq' h1 hrho
  constructor <;> nlinarith [h2.1, h2.2]

/-- `helical_geometry`: the detector half height `h/2` is at least
`pitch/(2π)·(n_pi·π/2 + arctan(rho/rs))` magnified by `(rs + rd)/rs`, in particular at least
`n_pi·pitch/4·(rs + rd)/rs`: a point of the rotation axis stays inside the detector for at
least `n_pi` half turns (the Tam–Danielsson window on the axis). -/
theorem C19.helical_height_axis_window {K : Type} [Field K] [LinearOrder K]
    [IsStrictOrderedRing K] (pt rho rs rd ang : K) (hpt : 0 ≤ pt) (hang : 0 ≤ ang)
    (hrs : 0 < rs) (hrd : 0 ≤ rd) :
    pt * ang * (rs + rd) / rs ≤ helicalHalfHeight pt rho rs rd ang := by
  simp only [helicalHalfHeight]
  apply div_le_div_of_nonneg_right _ hrs.le
  have h1 : 0 ≤ pt * ang * (rs + rd) := by positivity
  nlinarith [mul_nonneg h1 (mul_self_nonneg (rho / rs))]

/-- `cone_beam_geometry` / `helical_geometry`: where a flat detector sees a point
(`fanDetCoord`), proved against the fan-beam model: the ray from the source through the
point with coordinates `(xt, xc)` in the rotating frame hits the detector at parameter
`(rs + rd)·xt/(rs + xc)`. -/
theorem C19.fan_det_coord {K : Type} [Field K] (c s rs rd xc xt : K) (h : rs + xc ≠ 0) :
    let g : Fan K := ⟨⟨0, 1⟩, ⟨0, 0⟩, rs, rd, .flat ⟨1, 0⟩⟩
    let R := euler2 c s
    let x := R.mulVec ⟨xt, xc⟩
    let src := g.srcPos R V2.zero
    V2.add src (V2.smul ((rs + rd) / (rs + xc)) (V2.sub x src)) =
      g.detPoint R V2.zero ⟨fanDetCoord rs rd xc xt, 0, 0⟩ := by
  ext <;> simp only [Fan.srcPos, Fan.detPoint, Fan.refpoint, Det2.surface, fanDetCoord, euler2,
    V2.add, V2.sub, V2.smul, V2.neg, V2.zero, M2.mulVec] <;> field_simp <;> ring

/-- PARTIAL coverage statement for `cone_beam_geometry` (fan beam, horizontal direction):
the half-width `rho·(rs + rd)/rs` covers the points of the disc of radius `rho` in the half
plane BEHIND the rotation centre as seen from the source (`xc ≥ 0`).

  full statement (FALSE, finding F19c):
    ∀ xc xt, xt² + xc² ≤ rho² → |fanDetCoord rs rd xc xt| ≤ fanHalfWidth rho rs rd
  (needed: `rho·(rs + rd)/√(rs² - rho²)`). -/
theorem C19.factory_covers_volume_fan_partial {K : Type} [Field K] [LinearOrder K]
    [IsStrictOrderedRing K] (rho rs rd xc xt : K) (hrho : 0 ≤ rho) (hrs : rho < rs)
    (hrd : 0 ≤ rd) (hx : xt * xt + xc * xc ≤ rho * rho) (hxc : 0 ≤ xc) :
    -fanHalfWidth rho rs rd ≤ fanDetCoord rs rd xc xt ∧
      fanDetCoord rs rd xc xt ≤ fanHalfWidth rho rs rd := by
  have hrs0 : 0 < rs := lt_of_le_of_lt hrho hrs
  have hden : 0 < rs + xc := by linarith
  have hA : 0 ≤ rs + rd := by linarith
  have h1 : xt ^ 2 ≤ rho ^ 2 := by nlinarith [mul_self_nonneg xc]
  have h2 := abs_le_of_sq_le_sq' h1 hrho
  have key : ∀ y : K, y ≤ rho → (rs + rd) * y / (rs + xc) ≤ rho * (rs + rd) / rs := by
    intro y hy
    rw [div_le_div_iff₀ hden hrs0]
    have h3 : y * rs ≤ rho * (rs + xc) := by
      nlinarith [mul_nonneg hrho hxc, mul_nonneg (sub_nonneg.mpr hy) hrs0.le]
    nlinarith [mul_le_mul_of_nonneg_left h3 hA]
  simp only [fanHalfWidth, fanDetCoord]
  constructor
  · have h4 := key (-xt) (by linarith [h2.1])
    have e : (rs + rd) * -xt / (rs + xc) = -((rs + rd) * xt / (rs + xc)) := by ring
    rw [e] at h4
    linarith
  · exact key xt h2.2

example : -fanHalfWidth (5 : ℚ) 10 10 ≤ fanDetCoord 10 10 3 4 ∧
    fanDetCoord (10 : ℚ) 10 3 4 ≤ fanHalfWidth 5 10 10 :=
  C19.factory_covers_volume_fan_partial 5 10 10 3 4 (by norm_num) (by norm_num) (by norm_num)
    (by norm_num) (by norm_num)

/-- Counterexample on the model (finding F19c): `rho = 5`, `src_radius = det_radius = 10`,
the point `(xt, xc) = (4, -3)` of the circle of radius 5 is seen at `80/7 > 10 = w/2`. -/
theorem C19.factory_covers_volume_fan_fails :
    (4 : ℚ) * 4 + (-3) * (-3) ≤ 5 * 5 ∧
    fanHalfWidth (5 : ℚ) 10 10 < fanDetCoord (10 : ℚ) 10 (-3) 4 := by
  norm_num [fanHalfWidth, fanDetCoord]

/-- Finding F19c, vertical direction of `cone_beam_geometry` (3d): before rounding up to a
whole number of pixels, the half height `sin(arctan(zmax/dist))·(rs + rd)` is ALWAYS smaller
than the coordinate `zmax·(rs + rd)/dist` at which the nearest top corner of the volume is
seen (`dist = rs - rho`, `hyp² = dist² + zmax²`). -/
theorem C19.factory_cone_height_fails {K : Type} [Field K] [LinearOrder K]
    [IsStrictOrderedRing K] (zmax dist hyp rs rd : K) (hz : 0 < zmax) (hd : 0 < dist)
    (hh : 0 < hyp) (hyp2 : hyp * hyp = dist * dist + zmax * zmax) (hr : 0 < rs + rd) :
    coneHalfHeightRaw zmax hyp rs rd < zmax * (rs + rd) / dist := by
  have hlt : dist < hyp := by nlinarith
  simp only [coneHalfHeightRaw]
  rw [div_mul_eq_mul_div, div_lt_div_iff₀ hh hd]
  nlinarith [mul_pos hz hr, mul_pos (mul_pos hz hr) (sub_pos.mpr hlt)]

example : coneHalfHeightRaw (3 : ℚ) 5 10 10 < 3 * (10 + 10) / 4 :=
  C19.factory_cone_height_fails 3 4 5 10 10 (by norm_num) (by norm_num) (by norm_num)
    (by norm_num) (by norm_num)

/-! ## shapes of vectorised evaluation -/

/-- Vectorised and broadcast evaluation has the documented output shape
`broadcast(bcast_mparam, bcast_dparam).shape + (ndim,)` for ALL shapes of the parameter
components (any number of components, any numbers of axes, scalars included), and the call
raises exactly when the parameters cannot be broadcast against each other. -/
theorem C19.vectorised_shape_documented (ms ds : List (List Nat)) (ndim : Nat) (hm : ms ≠ []) (hd : ds ≠ []) :
    evalShape ms ds ndim = docShape ms ds ndim := by
  simp only [evalShape, surfShape, docShape, bcastAll_atLeast1 hm, bcastAll_atLeast1 hd]
  cases hM : bcastAll ms with
  | none => simp [norm1]
  | some m =>
    cases hD : bcastAll ds with
    | none => cases m <;> simp [norm1]
    | some d =>
      by_cases h1 : m = [] <;> by_cases h2 : d = []
      · subst h1; subst h2; simp [norm1, bcast_nil_left]; rfl
      · subst h1
        simp [norm1, bcast_one_left h2, bcast_nil_left, h2]
      · subst h2
        simp [norm1, bcast_one_right h1, bcast_nil_right, h1]
      · have e1 : norm1 (some m) = some m := by cases m <;> simp_all [norm1]
        have e2 : norm1 (some d) = some d := by cases d <;> simp_all [norm1]
        simp only [e1, e2]
        cases bcast m d <;> simp [h1]


/-- Single parameters (all components scalar) give a single vector of shape `(ndim,)`;
stacks of `n` pairs give `(n, ndim)`; `(n,1)` angles against `(1,m)` detector parameters
give the outer-product shape `(n, m, ndim)`; parameters with different numbers of axes
broadcast like NumPy arrays. -/
theorem C19.vectorised_shape_examples (n m ndim : Nat) :
    evalShape [[]] [[], []] ndim = some [ndim] ∧
    evalShape [[], [], []] [[], []] ndim = some [ndim] ∧
    evalShape [[n]] [[n]] ndim = some [n, ndim] ∧
    evalShape [[n, 1]] [[1, m]] ndim = some [n, m, ndim] ∧
    evalShape [[2, 3]] [[]] ndim = some [2, 3, ndim] ∧
    evalShape [[]] [[3, 1]] ndim = some [3, 1, ndim] ∧
    evalShape [[3]] [[], [3]] ndim = some [3, ndim] ∧
    evalShape [[3]] [[1, 4]] ndim = none := by
  refine ⟨by simp [evalShape, surfShape, bcastAll, bcast, bcastRev, bcastDim, atLeast1],
    by simp [evalShape, surfShape, bcastAll, bcast, bcastRev, bcastDim, atLeast1], ?_, ?_,
    by simp [evalShape, surfShape, bcastAll, bcast, bcastRev, bcastDim, atLeast1],
    by simp [evalShape, surfShape, bcastAll, bcast, bcastRev, bcastDim, atLeast1],
    by simp [evalShape, surfShape, bcastAll, bcast, bcastRev, bcastDim, atLeast1],
    by simp [evalShape, surfShape, bcastAll, bcast, bcastRev, bcastDim, atLeast1]⟩
  · rw [C19.vectorised_shape_documented _ _ _ (by simp) (by simp)]
    simp [docShape, bcastAll, bcast, bcastRev, bcastDim]
  · rw [C19.vectorised_shape_documented _ _ _ (by simp) (by simp)]
    simp [docShape, bcastAll, bcast, bcastRev, bcastDim_one_left, bcastDim_one_right]

/-- (not a property theorem: an `example` about the OLD model variant)
Sensitivity (the code before repairs 5a47c74 / 5bdaf92, findings F19d / F19e): the OLD
shape logic rejected parameters with different numbers of array axes, and the curved
two-parameter detectors rejected detector parameters whose components have different
shapes, although the documented shape exists. -/
example :
    (evalShapeOld [[2, 3]] [[]] 2 false = none ∧ docShape [[2, 3]] [[]] 2 = some [2, 3, 2]) ∧
    (evalShapeOld [[]] [[3, 1]] 2 false = none ∧ docShape [[]] [[3, 1]] 2 = some [3, 1, 2]) ∧
    (evalShapeOld [[3]] [[], [3]] 3 true = none ∧ docShape [[3]] [[], [3]] 3 = some [3, 3]) := by
  decide

/-! ## round 4: `rotation_matrix_from_to` with all its branches, Euler factorisation, helix -/

/-- `v / ‖v‖` as coded (`V2.normalize`, `V3.normalize`: used by every constructor, by
`rotation_matrix_from_to`, `perpendicular_vector`, `surface_normal`) has unit length, for any
function `sqrt` that is a square root at the squared norm in question and any non-zero `v`. -/
theorem C19.normalize_unit {K : Type} [Field K] (sqrt : K → K) :
    (∀ v : V2 K, v.normSq ≠ 0 → sqrt v.normSq * sqrt v.normSq = v.normSq →
      (V2.normalize sqrt v).normSq = 1) ∧
    (∀ v : V3 K, v.normSq ≠ 0 → sqrt v.normSq * sqrt v.normSq = v.normSq →
      (V3.normalize sqrt v).normSq = 1) := by
  constructor
  · intro v h0 hs
    have hr : sqrt v.normSq ≠ 0 := by intro h; rw [h] at hs; exact h0 (by simpa using hs.symm)
    have e : (V2.normalize sqrt v).normSq
        = (1 / sqrt v.normSq) * (1 / sqrt v.normSq) * v.normSq := by
      simp only [V2.normalize, V2.normSq, V2.dot, V2.smul]; ring
    rw [e]; nth_rewrite 3 [← hs]; field_simp
  · intro v h0 hs
    have hr : sqrt v.normSq ≠ 0 := by intro h; rw [h] at hs; exact h0 (by simpa using hs.symm)
    have e : (V3.normalize sqrt v).normSq
        = (1 / sqrt v.normSq) * (1 / sqrt v.normSq) * v.normSq := by
      simp only [V3.normalize, V3.normSq, V3.dot, V3.smul]; ring
    rw [e]; nth_rewrite 3 [← hs]; field_simp

example : (V3.normalize (fun _ => (7 : ℚ)) ⟨2, 3, 6⟩).normSq = 1 :=
  (C19.normalize_unit (fun _ => (7 : ℚ))).2 ⟨2, 3, 6⟩ (by norm_num [V3.normSq, V3.dot])
    (by norm_num [V3.normSq, V3.dot])

/-- `rotation_matrix_from_to(u, v)` in 2-d is a rotation taking `u` to `v` for ALL unit vectors
`u, v` — including the two special branches of the code: `v = u` gives the identity and
`v = -u` the rotation by `π` (`-1`). -/
theorem C19.from_to_maps_2d {K : Type} [CommRing K] (u v : V2 K)
    (hu : u.normSq = 1) (hv : v.normSq = 1) :
    (rotFromTo2 u v).mulVec u = v ∧ IsRot2 (rotFromTo2 u v) ∧
    rotFromTo2 u u = M2.one ∧ rotFromTo2 u (V2.neg u) = ⟨-1, 0, 0, -1⟩ := by
  obtain ⟨a, b⟩ := u
  obtain ⟨x, y⟩ := v
  simp only [V2.normSq, V2.dot] at hu hv
  refine ⟨?_, ⟨?_, ?_⟩, ?_, ?_⟩
  · ext <;> simp only [rotFromTo2, perp2, V2.dot, M2.mulVec] <;> grind
  · ext <;> simp only [rotFromTo2, perp2, V2.dot, M2.transpose, M2.mul, M2.one] <;> grind
  · simp only [rotFromTo2, perp2, V2.dot, M2.det]; grind
  · ext <;> simp only [rotFromTo2, perp2, V2.dot, M2.one] <;> grind
  · ext <;> simp only [rotFromTo2, perp2, V2.dot, V2.neg] <;> grind

example : (rotFromTo2 (⟨3 / 5, 4 / 5⟩ : V2 ℚ) ⟨-5 / 13, 12 / 13⟩).mulVec ⟨3 / 5, 4 / 5⟩
    = ⟨-5 / 13, 12 / 13⟩ :=
  (C19.from_to_maps_2d _ _ (by norm_num [V2.normSq, V2.dot]) (by norm_num [V2.normSq, V2.dot])).1

/-- The collinear branch of `rotation_matrix_from_to` in 3-d.  `perpendicular_vector(u)`
(before normalisation) is non-zero and orthogonal to `u` for every `u ≠ 0`; and for a unit
vector `u` and ANY unit `n ⟂ u`, `axis_rotation_matrix(n, 0)` is the identity and
`axis_rotation_matrix(n, π)` (exact `cos π = -1`, `sin π = 0`) takes `u` to `-u`. -/
theorem C19.from_to_collinear {K : Type} [Field K] [LinearOrder K] [IsStrictOrderedRing K]
    (u n : V3 K) :
    (u.normSq ≠ 0 → (perp3 u).normSq ≠ 0 ∧ V3.dot (perp3 u) u = 0) ∧
    axisRot n 1 0 = M3.one ∧
    (n.normSq = 1 → V3.dot n u = 0 → (axisRot n (-1) 0).mulVec u = V3.neg u) := by
  obtain ⟨a, b, c⟩ := u
  obtain ⟨x, y, z⟩ := n
  refine ⟨?_, ?_, ?_⟩
  · intro h0
    simp only [perp3]
    split_ifs with h
    · simp only [V3.normSq, V3.dot] at *
      obtain ⟨ha, hb⟩ := h
      subst ha hb
      constructor <;> norm_num
    · simp only [V3.normSq, V3.dot] at *
      constructor
      · intro h2
        have h3 : b * b + a * a = 0 := by linear_combination h2
        have hb : b = 0 := by nlinarith [mul_self_nonneg a, mul_self_nonneg b]
        have ha : a = 0 := by nlinarith [mul_self_nonneg a, mul_self_nonneg b]
        exact h ⟨ha, hb⟩
      · ring
  · ext <;> simp only [axisRot, M3.one] <;> ring
  · intro hn hd
    simp only [V3.normSq, V3.dot] at hn hd
    ext <;> simp only [axisRot, M3.mulVec, V3.neg] <;> grind

example : (axisRot (⟨3 / 5, -4 / 5, 0⟩ : V3 ℚ) (-1) 0).mulVec ⟨4 / 13, 3 / 13, 12 / 13⟩
    = V3.neg ⟨4 / 13, 3 / 13, 12 / 13⟩ :=
  (C19.from_to_collinear (⟨4 / 13, 3 / 13, 12 / 13⟩ : V3 ℚ) ⟨3 / 5, -4 / 5, 0⟩).2.2
    (by norm_num [V3.normSq, V3.dot]) (by norm_num [V3.dot])

/-- `rotation_matrix_from_to(u0, v0)` in 3-d AS CODED (zero test, normalisation, collinear
branch with `perpendicular_vector`, generic Rodrigues branch) returns a rotation (orthonormal,
determinant one) for ALL inputs on which it does not raise — also for nearly collinear and
nearly opposite vectors, and for the code's inexact `(cos π, sin π)` (only `c² + s² = 1` is
used).  CONDITIONAL on the leaf hypotheses that `sqrt` is a square root at the three squared
norms that are normalised. -/
theorem C19.from_to_code_rotation {K : Type} [Field K] [LinearOrder K] [IsStrictOrderedRing K]
    (sqrt : K → K) (tol2 cpi spi : K) (u0 v0 : V3 K) (R : M3 K)
    (htol : 0 < tol2) (hpi : cpi * cpi + spi * spi = 1)
    (hsu : sqrt u0.normSq * sqrt u0.normSq = u0.normSq)
    (hsv : sqrt v0.normSq * sqrt v0.normSq = v0.normSq)
    (hsp : sqrt (perp3 (V3.normalize sqrt u0)).normSq * sqrt (perp3 (V3.normalize sqrt u0)).normSq
      = (perp3 (V3.normalize sqrt u0)).normSq)
    (h : rotFromToCode3 sqrt tol2 cpi spi u0 v0 = some R) : IsRot3 R := by
  unfold rotFromToCode3 at h
  split_ifs at h with h1
  push Not at h1
  have hu0 : u0.normSq ≠ 0 := ne_of_gt (lt_of_lt_of_le htol h1.1)
  have hv0 : v0.normSq ≠ 0 := ne_of_gt (lt_of_lt_of_le htol h1.2)
  have hu := (C19.normalize_unit sqrt).2 u0 hu0 hsu
  have hv := (C19.normalize_unit sqrt).2 v0 hv0 hsv
  have hp := (C19.from_to_collinear (V3.normalize sqrt u0) u0).1 (by rw [hu]; exact one_ne_zero)
  have hn := (C19.normalize_unit sqrt).2 _ hp.1 hsp
  dsimp only at h
  split_ifs at h with h2 h3
  · simp only [Option.some.injEq] at h
    rw [← h]
    exact C19.rot_orthonormal_axis _ 1 0 (by ring) hn
  · simp only [Option.some.injEq] at h
    rw [← h]
    exact C19.rot_orthonormal_axis _ cpi spi hpi hn
  · simp only [Option.some.injEq] at h
    rw [← h]
    refine (C19.from_to_maps _ _ hu hv ?_).2
    intro hc
    apply h2
    generalize V3.normalize sqrt u0 = u at *
    generalize V3.normalize sqrt v0 = v at *
    obtain ⟨a, b, c⟩ := u
    obtain ⟨x, y, z⟩ := v
    simp only [V3.normSq, V3.dot, V3.cross] at *
    have lag : (b * z - c * y) * (b * z - c * y) + (c * x - a * z) * (c * x - a * z)
        + (a * y - b * x) * (a * y - b * x) = 0 := by
      have e : a * x + b * y + c * z = -1 := by linear_combination hc
      linear_combination (x * x + y * y + z * z) * hu + hv + (1 - (a * x + b * y + c * z)) * e
    rw [lag]; exact htol

/-- non-trivial instance (opposite branch): `u0 = (0,0,2)`, `v0 = (0,0,-3)`; the result is the
rotation by `π` about `perpendicular_vector(u) = (1,0,0)`. -/
example : rotFromToCode3 (fun s : ℚ => if s = 4 then 2 else if s = 9 then 3 else 1)
    (1 / 10 ^ 20) (-1) 0 ⟨0, 0, 2⟩ ⟨0, 0, -3⟩ = some ⟨1, 0, 0, 0, -1, 0, 0, 0, -1⟩ := by
  simp [rotFromToCode3, V3.normalize, V3.normSq, V3.dot, V3.smul, V3.cross, perp3, axisRot]
  norm_num

/-- `rotation_matrix_from_to(u0, v0)` in 3-d as coded takes the normalised `u0` to the
normalised `v0`: in the generic branch always, and in the collinear branch when the vectors
are exactly collinear (`u × v = 0`: same or opposite direction) and `(cos π, sin π) = (-1, 0)`
exactly.  (For float `sin π = 1.2e-16` and for nearly collinear vectors inside the `1e-10`
band the result is still a rotation — `C19.from_to_code_rotation` — but misses `v` by that
much.) -/
theorem C19.from_to_code_maps {K : Type} [Field K] [LinearOrder K] [IsStrictOrderedRing K]
    (sqrt : K → K) (tol2 : K) (u0 v0 : V3 K) (R : M3 K)
    (htol : 0 < tol2)
    (hsu : sqrt u0.normSq * sqrt u0.normSq = u0.normSq)
    (hsv : sqrt v0.normSq * sqrt v0.normSq = v0.normSq)
    (hsp : sqrt (perp3 (V3.normalize sqrt u0)).normSq * sqrt (perp3 (V3.normalize sqrt u0)).normSq
      = (perp3 (V3.normalize sqrt u0)).normSq)
    (hbr : tol2 ≤ (V3.cross (V3.normalize sqrt u0) (V3.normalize sqrt v0)).normSq ∨
      V3.cross (V3.normalize sqrt u0) (V3.normalize sqrt v0) = V3.zero)
    (h : rotFromToCode3 sqrt tol2 (-1) 0 u0 v0 = some R) :
    R.mulVec (V3.normalize sqrt u0) = V3.normalize sqrt v0 := by
  unfold rotFromToCode3 at h
  split_ifs at h with h1
  push Not at h1
  have hu0 : u0.normSq ≠ 0 := ne_of_gt (lt_of_lt_of_le htol h1.1)
  have hv0 : v0.normSq ≠ 0 := ne_of_gt (lt_of_lt_of_le htol h1.2)
  have hu := (C19.normalize_unit sqrt).2 u0 hu0 hsu
  have hv := (C19.normalize_unit sqrt).2 v0 hv0 hsv
  have hp := (C19.from_to_collinear (V3.normalize sqrt u0) u0).1 (by rw [hu]; exact one_ne_zero)
  have hn := (C19.normalize_unit sqrt).2 _ hp.1 hsp
  dsimp only at h
  split_ifs at h with h2 h3
  all_goals simp only [Option.some.injEq] at h
  all_goals rw [← h]
  · -- same direction
    rcases hbr with hbr | hbr
    · exact absurd h2 (not_lt.mpr hbr)
    rw [(C19.from_to_collinear (V3.normalize sqrt u0) _).2.1]
    generalize V3.normalize sqrt u0 = u at *
    generalize V3.normalize sqrt v0 = v at *
    obtain ⟨a, b, c⟩ := u
    obtain ⟨x, y, z⟩ := v
    simp only [V3.normSq, V3.dot, V3.cross, V3.zero, V3.mk.injEq] at hu hv hbr h3
    obtain ⟨e1, e2, e3⟩ := hbr
    have vx : x = (a * x + b * y + c * z) * a := by linear_combination (-x) * hu - b * e3 + c * e2
    have vy : y = (a * x + b * y + c * z) * b := by linear_combination (-y) * hu + a * e3 - c * e1
    have vz : z = (a * x + b * y + c * z) * c := by linear_combination (-z) * hu - a * e2 + b * e1
    have cc : (a * x + b * y + c * z) * (a * x + b * y + c * z) = 1 := by
      linear_combination hv + (-(x)) * vx + (-(y)) * vy + (-(z)) * vz
    have c1 : a * x + b * y + c * z = 1 := by
      have h0 : (a * x + b * y + c * z - 1) * (a * x + b * y + c * z + 1) = 0 := by
        linear_combination cc
      rcases mul_eq_zero.mp h0 with h | h
      · linarith
      · exfalso; linarith
    rw [c1] at vx vy vz
    simp only [M3.one, M3.mulVec, V3.mk.injEq]
    refine ⟨?_, ?_, ?_⟩ <;> linarith
  · -- opposite direction
    rcases hbr with hbr | hbr
    · exact absurd h2 (not_lt.mpr hbr)
    have hd : V3.dot (V3.normalize sqrt (perp3 (V3.normalize sqrt u0))) (V3.normalize sqrt u0) = 0 := by
      have := hp.2
      generalize perp3 (V3.normalize sqrt u0) = w at this ⊢
      generalize V3.normalize sqrt u0 = u at this ⊢
      simp only [V3.normalize, V3.dot, V3.smul] at this ⊢
      linear_combination (1 / sqrt w.normSq) * this
    rw [(C19.from_to_collinear (V3.normalize sqrt u0) _).2.2 hn hd]
    generalize V3.normalize sqrt u0 = u at *
    generalize V3.normalize sqrt v0 = v at *
    obtain ⟨a, b, c⟩ := u
    obtain ⟨x, y, z⟩ := v
    simp only [V3.normSq, V3.dot, V3.cross, V3.zero, V3.mk.injEq] at hu hv hbr h3
    obtain ⟨e1, e2, e3⟩ := hbr
    have vx : x = (a * x + b * y + c * z) * a := by linear_combination (-x) * hu - b * e3 + c * e2
    have vy : y = (a * x + b * y + c * z) * b := by linear_combination (-y) * hu + a * e3 - c * e1
    have vz : z = (a * x + b * y + c * z) * c := by linear_combination (-z) * hu - a * e2 + b * e1
    have cc : (a * x + b * y + c * z) * (a * x + b * y + c * z) = 1 := by
      linear_combination hv + (-(x)) * vx + (-(y)) * vy + (-(z)) * vz
    have c1 : a * x + b * y + c * z = -1 := by
      have h0 : (a * x + b * y + c * z - 1) * (a * x + b * y + c * z + 1) = 0 := by
        linear_combination cc
      rcases mul_eq_zero.mp h0 with h | h
      · exfalso; apply h3; linarith
      · linarith
    rw [c1] at vx vy vz
    simp only [V3.neg, V3.mk.injEq]
    refine ⟨?_, ?_, ?_⟩ <;> linarith
  · -- generic branch
    refine (C19.from_to_maps _ _ hu hv ?_).1
    intro hc
    apply h2
    generalize V3.normalize sqrt u0 = u at *
    generalize V3.normalize sqrt v0 = v at *
    obtain ⟨a, b, c⟩ := u
    obtain ⟨x, y, z⟩ := v
    simp only [V3.normSq, V3.dot, V3.cross] at *
    have lag : (b * z - c * y) * (b * z - c * y) + (c * x - a * z) * (c * x - a * z)
        + (a * y - b * x) * (a * y - b * x) = 0 := by
      have e : a * x + b * y + c * z = -1 := by linear_combination hc
      linear_combination (x * x + y * y + z * z) * hu + hv + (1 - (a * x + b * y + c * z)) * e
    rw [lag]; exact htol

/-- `euler_matrix(phi, theta, psi)` as coded (9 explicit entries) is the ZXZ product the
documentation promises: `Rz(phi) · Rx(theta) · Rz(psi)`; hence rotating by Euler angles
composes as documented (first about z by psi, then about x by theta, then about z by phi). -/
theorem C19.euler_zxz_factorisation {K : Type} [CommRing K] (cph sph cth sth cps sps : K) :
    euler3 cph sph cth sth cps sps
      = ((⟨cph, -sph, 0, sph, cph, 0, 0, 0, 1⟩ : M3 K).mul ⟨1, 0, 0, 0, cth, -sth, 0, sth, cth⟩).mul
          ⟨cps, -sps, 0, sps, cps, 0, 0, 0, 1⟩ := by
  ext <;> simp only [euler3, M3.mul] <;> ring

example : euler3 (3 / 5 : ℚ) (4 / 5) (5 / 13) (12 / 13) (8 / 17) (15 / 17)
    = ((⟨3 / 5, -(4 / 5), 0, 4 / 5, 3 / 5, 0, 0, 0, 1⟩ : M3 ℚ).mul
        ⟨1, 0, 0, 0, 5 / 13, -(12 / 13), 0, 12 / 13, 5 / 13⟩).mul
        ⟨8 / 17, -(15 / 17), 0, 15 / 17, 8 / 17, 0, 0, 0, 1⟩ :=
  C19.euler_zxz_factorisation _ _ _ _ _ _

/-- Helical `ConeBeamGeometry`: one more full turn (`turns + 1`, i.e. `angle + 2π`: same
rotation matrix, and shift functions with period `2π` give the same shifts) moves the source
position, the detector reference point and every detector point by exactly `pitch · axis`,
and leaves `det_to_src` unchanged — for all axes, radii, offsets, shifts and detector types. -/
theorem C19.helical_pitch_period {K : Type} [CommRing K] (g : Cone K) (R : M3 K) (turns : K)
    (ssh dsh : V3 K) (p : P2 K) :
    g.srcPos R (turns + 1) ssh = V3.add (g.srcPos R turns ssh) (V3.smul g.pitch g.axis) ∧
    g.refpoint R (turns + 1) dsh = V3.add (g.refpoint R turns dsh) (V3.smul g.pitch g.axis) ∧
    g.detPoint R (turns + 1) dsh p = V3.add (g.detPoint R turns dsh p) (V3.smul g.pitch g.axis) ∧
    g.detToSrc R (turns + 1) ssh dsh p = g.detToSrc R turns ssh dsh p := by
  refine ⟨?_, ?_, ?_, ?_⟩ <;>
    ext <;> simp only [Cone.srcPos, Cone.refpoint, Cone.detPoint, Cone.detToSrc, V3.add, V3.sub,
      V3.smul, V3.neg, V3.cross, M3.mulVec] <;> ring

example : ∃ g : Cone ℚ, g.pitch = 3 ∧
    g.srcPos (axisRot g.axis (3 / 5) (4 / 5)) (1 / 4 + 1) ⟨1, 2, 3⟩
      = V3.add (g.srcPos (axisRot g.axis (3 / 5) (4 / 5)) (1 / 4) ⟨1, 2, 3⟩) (V3.smul 3 g.axis) :=
  ⟨⟨⟨2 / 7, 3 / 7, 6 / 7⟩, ⟨3 / 7, -6 / 7, 2 / 7⟩, ⟨1, 2, 3⟩, 5, 4, 3, 1 / 2, 1, .flat ⟨1, 0, 0⟩ ⟨0, 1, 0⟩⟩,
    rfl, (C19.helical_pitch_period _ _ _ _ ⟨0, 0, 0⟩ ⟨0, 0, 1, 0, 1, 0⟩).1⟩

/-- `transform_system` (no `matrix` argument; used by every geometry constructor to carry the
default frame along with a given axis / `det_pos_init` / `src_to_det_init`) AS CODED since
b998548 — zero tests, the snap to the identity decided on the NORMALISED vectors, and
`rotation_matrix_from_to` with all its branches — applies a ROTATION to the default vectors,
for all inputs on which it does not raise: derived detector axes are orthonormal and
right-handed like the defaults.  Moreover either the snap was taken — then the matrix is the
identity and the given DIRECTION is within `atol` (`1e-8`), entry by entry, of the default
direction, whatever the lengths of the vectors — or (2-d) the rotation takes the normalised
default exactly to the normalised given vector.
CONDITIONAL on `sqrt` being a square root at the squared norms that are normalised. -/
theorem C19.transform_system_rotation {K : Type} [Field K] [LinearOrder K] [IsStrictOrderedRing K]
    (sqrt : K → K) (tol2 atol cpi spi : K) (htol : 0 < tol2)
    (hpi : cpi * cpi + spi * spi = 1) :
    (∀ (d p : V2 K) (M : M2 K),
      sqrt d.normSq * sqrt d.normSq = d.normSq → sqrt p.normSq * sqrt p.normSq = p.normSq →
      tsMatrix2 sqrt tol2 atol d p = some M →
      IsRot2 M ∧ ((p.normSq = 0 ∧ d.normSq = 0 ∧ M = M2.one) ∨
        (M = M2.one ∧ absK ((V2.normalize sqrt p).x - (V2.normalize sqrt d).x) ≤ atol
          ∧ absK ((V2.normalize sqrt p).y - (V2.normalize sqrt d).y) ≤ atol) ∨
        M.mulVec (V2.normalize sqrt d) = V2.normalize sqrt p)) ∧
    (∀ (d p : V3 K) (M : M3 K),
      sqrt d.normSq * sqrt d.normSq = d.normSq → sqrt p.normSq * sqrt p.normSq = p.normSq →
      sqrt (perp3 (V3.normalize sqrt d)).normSq * sqrt (perp3 (V3.normalize sqrt d)).normSq
        = (perp3 (V3.normalize sqrt d)).normSq →
      tsMatrix3 sqrt tol2 atol cpi spi d p = some M →
      IsRot3 M ∧ (tsSnaps3 sqrt atol d p = true → p.normSq ≠ 0 → M = M3.one ∧
        absK ((V3.normalize sqrt p).x - (V3.normalize sqrt d).x) ≤ atol
          ∧ absK ((V3.normalize sqrt p).y - (V3.normalize sqrt d).y) ≤ atol
          ∧ absK ((V3.normalize sqrt p).z - (V3.normalize sqrt d).z) ≤ atol)) := by
  have one2 : IsRot2 (M2.one : M2 K) := by
    constructor
    · ext <;> simp [M2.one, M2.transpose, M2.mul]
    · simp [M2.one, M2.det]
  have one3 : IsRot3 (M3.one : M3 K) := by
    constructor
    · ext <;> simp [M3.one, M3.transpose, M3.mul]
    · simp [M3.one, M3.det]
  have cl : ∀ a b : K, closeTo atol 0 a b = true → absK (a - b) ≤ atol := by
    intro a b h
    simp only [closeTo, zero_mul, add_zero, Bool.not_eq_eq_eq_not, Bool.not_true,
      decide_eq_false_iff_not, not_lt] at h
    exact h
  constructor
  · intro d p M hd hp h
    unfold tsMatrix2 at h
    split_ifs at h with h00 h0 h1
    · simp only [Option.some.injEq] at h
      rw [← h]; exact ⟨one2, Or.inl ⟨h00.1, h00.2, rfl⟩⟩
    · simp only [Option.some.injEq] at h
      rw [← h]
      simp only [tsSnaps2, Bool.and_eq_true] at h1
      exact ⟨one2, Or.inr (Or.inl ⟨rfl, cl _ _ h1.1, cl _ _ h1.2⟩)⟩
    · unfold rotFromToCode2 at h
      split_ifs at h with h2
      push Not at h2
      have hd0 : d.normSq ≠ 0 := ne_of_gt (lt_of_lt_of_le htol h2.1)
      have hp0 : p.normSq ≠ 0 := ne_of_gt (lt_of_lt_of_le htol h2.2)
      have hu := (C19.normalize_unit sqrt).1 d hd0 hd
      have hv := (C19.normalize_unit sqrt).1 p hp0 hp
      simp only [Option.some.injEq] at h
      rw [← h]
      have := C19.from_to_maps_2d _ _ hu hv
      exact ⟨this.2.1, Or.inr (Or.inr this.1)⟩
  · intro d p M hd hp hpp h
    unfold tsMatrix3 at h
    split_ifs at h with h00 h0 h1
    · simp only [Option.some.injEq] at h
      rw [← h]
      exact ⟨one3, fun _ hp0 => absurd h00.1 hp0⟩
    · simp only [Option.some.injEq] at h
      rw [← h]
      simp only [tsSnaps3, Bool.and_eq_true] at h1
      exact ⟨one3, fun _ _ => ⟨rfl, cl _ _ h1.1.1, cl _ _ h1.1.2, cl _ _ h1.2⟩⟩
    · exact ⟨C19.from_to_code_rotation sqrt tol2 cpi spi d p M htol hpi hd hp hpp h,
        fun hs => absurd hs h1⟩

/-- non-trivial instances: `det_pos_init = (3, 4)` is not snapped: the default frame is
rotated; `(0, 2)` is a dilation of the default `(0, 1)`: identity. -/
example : tsMatrix2 (fun s : ℚ => if s = 25 then 5 else if s = 4 then 2 else 1)
      (1 / 10 ^ 20) (1 / 10 ^ 8) ⟨0, 1⟩ ⟨3, 4⟩ = some ⟨4 / 5, 3 / 5, -(3 / 5), 4 / 5⟩ ∧
    tsMatrix2 (fun s : ℚ => if s = 25 then 5 else if s = 4 then 2 else 1)
      (1 / 10 ^ 20) (1 / 10 ^ 8) ⟨0, 1⟩ ⟨0, 2⟩ = some M2.one := by
  constructor
  · simp [tsMatrix2, tsSnaps2, closeTo, absK, rotFromToCode2, rotFromTo2, perp2, V2.normalize,
      V2.normSq, V2.dot, V2.smul]
    norm_num
  · simp [tsMatrix2, tsSnaps2, closeTo, absK, V2.normalize, V2.smul, V2.normSq, V2.dot]
    norm_num

/-- What slicing relies on (`__getitem__` of `FanBeamGeometry` / `ConeBeamGeometry` hands the
STORED, already normalised principal vector back to the constructor, which calls
`transform_system` again): the matrix `transform_system` derives from the normalised given
vector `p/‖p‖` is exactly the one it derived from `p` itself — the snap decision and the
rotation depend on the direction only — whenever `p` is not shorter than the `1e-10` of the
zero test (`tol2 ≤ ‖p‖²`, `tol2 ≤ 1`) and `sqrt 1 = 1`. -/
theorem C19.transform_system_renormalised {K : Type} [Field K] [LinearOrder K]
    [IsStrictOrderedRing K] (sqrt : K → K) (tol2 atol cpi spi : K) (htol : 0 < tol2)
    (htol1 : tol2 ≤ 1) (h1 : sqrt 1 = 1) :
    (∀ d p : V2 K, sqrt p.normSq * sqrt p.normSq = p.normSq → tol2 ≤ p.normSq →
      tsMatrix2 sqrt tol2 atol d (V2.normalize sqrt p) = tsMatrix2 sqrt tol2 atol d p) ∧
    (∀ d p : V3 K, sqrt p.normSq * sqrt p.normSq = p.normSq → tol2 ≤ p.normSq →
      tsMatrix3 sqrt tol2 atol cpi spi d (V3.normalize sqrt p)
        = tsMatrix3 sqrt tol2 atol cpi spi d p) := by
  constructor
  · intro d p hp ht
    have hp0 : p.normSq ≠ 0 := ne_of_gt (lt_of_lt_of_le htol ht)
    have hu := (C19.normalize_unit sqrt).1 p hp0 hp
    have hnn : V2.normalize sqrt (V2.normalize sqrt p) = V2.normalize sqrt p := by
      generalize V2.normalize sqrt p = q at hu
      obtain ⟨x, y⟩ := q
      simp only [V2.normalize, hu, h1, V2.smul]
      ext <;> simp
    have e1 : ¬ (V2.normalize sqrt p).normSq = 0 := by rw [hu]; exact one_ne_zero
    have e2 : ¬ (V2.normalize sqrt p).normSq < tol2 := by rw [hu]; exact not_lt.mpr htol1
    have e3 : ¬ p.normSq < tol2 := not_lt.mpr ht
    simp only [tsMatrix2, tsSnaps2, rotFromToCode2, hnn, e1, e2, e3, hp0, false_and, false_or,
      or_false, if_false]
  · intro d p hp ht
    have hp0 : p.normSq ≠ 0 := ne_of_gt (lt_of_lt_of_le htol ht)
    have hu := (C19.normalize_unit sqrt).2 p hp0 hp
    have hnn : V3.normalize sqrt (V3.normalize sqrt p) = V3.normalize sqrt p := by
      generalize V3.normalize sqrt p = q at hu
      obtain ⟨x, y, z⟩ := q
      simp only [V3.normalize, hu, h1, V3.smul]
      ext <;> simp
    have e1 : ¬ (V3.normalize sqrt p).normSq = 0 := by rw [hu]; exact one_ne_zero
    have e2 : ¬ (V3.normalize sqrt p).normSq < tol2 := by rw [hu]; exact not_lt.mpr htol1
    have e3 : ¬ p.normSq < tol2 := not_lt.mpr ht
    simp only [tsMatrix3, tsSnaps3, rotFromToCode3, hnn, e1, e2, e3, hp0, false_and, false_or,
      or_false, if_false]

/-- instance: `src_to_det_init = (3, 4)` and its stored normalisation `(3/5, 4/5)` give the
same matrix. -/
example : tsMatrix2 (fun s : ℚ => if s = 25 then 5 else 1) (1 / 10 ^ 20) (1 / 10 ^ 8) ⟨0, 1⟩
      (V2.normalize (fun s : ℚ => if s = 25 then 5 else 1) ⟨3, 4⟩)
    = tsMatrix2 (fun s : ℚ => if s = 25 then 5 else 1) (1 / 10 ^ 20) (1 / 10 ^ 8) ⟨0, 1⟩ ⟨3, 4⟩ :=
  (C19.transform_system_renormalised (fun s : ℚ => if s = 25 then 5 else 1) (1 / 10 ^ 20)
    (1 / 10 ^ 8) (-1) 0 (by norm_num) (by norm_num) (by norm_num)).1 ⟨0, 1⟩ ⟨3, 4⟩
    (by norm_num [V2.normSq, V2.dot]) (by norm_num [V2.normSq, V2.dot])

/-- SENSITIVITY (about the OLD variant `tsMatrix2Old`, the code before the repair b998548,
former finding F19t; not executed by the driver): the old snap compared the RAW given vector
with an ABSOLUTE tolerance (`np.allclose`, `atol = 1e-8`) that ignores its length, so a SHORT
principal vector was treated as "the default up to dilation" whatever its direction: for
`src_to_det_init = (3e-9, 4e-9)` (unit direction `(3/5, 4/5)`, 37° off the default `(0, 1)`)
the default frame was NOT rotated — while the code as it is now (`tsMatrix2`) rotates it onto
the given direction. -/
theorem C19.transform_system_snap_fails :
    ∃ (sqrt : ℚ → ℚ) (p : V2 ℚ), sqrt p.normSq * sqrt p.normSq = p.normSq ∧
      sqrt (1 : ℚ) = 1 ∧ V2.normalize sqrt p = ⟨3 / 5, 4 / 5⟩ ∧
      tsMatrix2Old sqrt (1 / 10 ^ 20) (1 / 10 ^ 8) (1 / 10 ^ 5) ⟨0, 1⟩ p = some M2.one ∧
      (M2.one : M2 ℚ).mulVec (V2.normalize sqrt ⟨0, 1⟩) ≠ V2.normalize sqrt p ∧
      tsMatrix2 sqrt (1 / 10 ^ 30) (1 / 10 ^ 8) ⟨0, 1⟩ p = some ⟨4 / 5, 3 / 5, -(3 / 5), 4 / 5⟩ := by
  refine ⟨fun s => if s = 1 then 1 else 5 / 10 ^ 9, ⟨3 / 10 ^ 9, 4 / 10 ^ 9⟩, ?_, ?_, ?_, ?_, ?_, ?_⟩
  · norm_num [V2.normSq, V2.dot]
  · norm_num
  · norm_num [V2.normalize, V2.normSq, V2.dot, V2.smul]
  · norm_num [tsMatrix2Old, closeTo, absK, V2.normSq, V2.dot]
  · norm_num [V2.normalize, V2.normSq, V2.dot, V2.smul, M2.one, M2.mulVec]
  · norm_num [tsMatrix2, tsSnaps2, closeTo, absK, rotFromToCode2, rotFromTo2, perp2, V2.normalize,
      V2.normSq, V2.dot, V2.smul]

/-- `axis_rotation(axis, angle, vectors, axis_shift)` (public helper; Rodrigues about a shifted
axis) is a rigid motion that fixes every point of the line `axis_shift + t·axis`, keeps the
component along the axis, and preserves all distances — for every unit axis, angle, shift. -/
theorem C19.axis_rotation_rigid {K : Type} [CommRing K] (a : V3 K) (c s : K)
    (hc : c * c + s * s = 1) (ha : a.normSq = 1) (sh : V3 K) :
    (∀ t : K, axisRotation a c s (V3.add sh (V3.smul t a)) sh = V3.add sh (V3.smul t a)) ∧
    (∀ v : V3 K, V3.dot a (axisRotation a c s v sh) = V3.dot a v) ∧
    (∀ v w : V3 K, (V3.sub (axisRotation a c s v sh) (axisRotation a c s w sh)).normSq
      = (V3.sub v w).normSq) := by
  obtain ⟨x, y, z⟩ := a
  obtain ⟨p, q, r⟩ := sh
  simp only [V3.normSq, V3.dot] at ha
  refine ⟨?_, ?_, ?_⟩
  · intro t
    ext <;> simp only [axisRotation, axisRot, M3.mulVec, V3.add, V3.sub, V3.smul, V3.dot] <;> grind
  · intro v
    obtain ⟨v1, v2, v3⟩ := v
    simp only [axisRotation, axisRot, M3.mulVec, V3.add, V3.sub, V3.smul, V3.dot]
    grind
  · intro v w
    have hR := (C19.rot_orthonormal_axis (⟨x, y, z⟩ : V3 K) c s hc (by simpa [V3.normSq, V3.dot] using ha)).1
    have e : V3.sub (axisRotation ⟨x, y, z⟩ c s v ⟨p, q, r⟩) (axisRotation ⟨x, y, z⟩ c s w ⟨p, q, r⟩)
        = (axisRot ⟨x, y, z⟩ c s).mulVec (V3.sub v w) := by
      obtain ⟨v1, v2, v3⟩ := v
      obtain ⟨w1, w2, w3⟩ := w
      ext <;> simp only [axisRotation, M3.mulVec, V3.add, V3.sub, V3.smul, V3.dot] <;> ring
    rw [e, M3.normSq_mulVec _ hR]

example : axisRotation (⟨0, 0, 1⟩ : V3 ℚ) 0 1 ⟨1, 2, 0⟩ ⟨-1, 0, 0⟩ = ⟨-3, 2, 0⟩ := by
  simp [axisRotation, axisRot, M3.mulVec, V3.add, V3.sub, V3.smul, V3.dot]
  norm_num

/-- Slicing a `FanBeamGeometry` by angle index keeps the geometry: `geom[i:j]` (the constructor
re-invoked with the STORED normalised `src_to_det_init`, the detector-axis argument as given,
translation, radii, `check_bounds`) has exactly the state of `geom` — the same normalised
`src_to_det_init`, the same (given or re-DERIVED) detector axis, hence the same `src_position`,
`det_refpoint`, `det_point_position`, `det_to_src` for every angle — for every constructible
geometry whose `src_to_det_init` is not shorter than `1e-10`.  Uses
`C19.transform_system_renormalised` (the snap decision and the rotation depend on the direction
only; with the code before b998548 this failed for short vectors, former finding F19t).
CONDITIONAL on `sqrt` being a square root at `‖src_to_det_init‖²` with `sqrt 1 = 1`. -/
theorem C19.getitem_fan_idempotent {K : Type} [Field K] [LinearOrder K] [IsStrictOrderedRing K]
    (sqrt : K → K) (tol2 atol : K) (htol : 0 < tol2) (htol1 : tol2 ≤ 1) (h1 : sqrt 1 = 1)
    (s2d : V2 K) (axisArg : Option (V2 K)) (t : V2 K) (rs rd : K) (cb : Bool) (g : FanState K)
    (hs : sqrt s2d.normSq * sqrt s2d.normSq = s2d.normSq) (ht : tol2 ≤ s2d.normSq)
    (hg : fanCtor sqrt tol2 atol s2d axisArg t rs rd cb = some g) :
    fanGetitem sqrt tol2 atol g = some g := by
  have hp0 : s2d.normSq ≠ 0 := ne_of_gt (lt_of_lt_of_le htol ht)
  have hu := (C19.normalize_unit sqrt).1 s2d hp0 hs
  have hnn : V2.normalize sqrt (V2.normalize sqrt s2d) = V2.normalize sqrt s2d := by
    generalize V2.normalize sqrt s2d = q at hu
    obtain ⟨x, y⟩ := q
    simp only [V2.normalize, hu, h1, V2.smul]
    ext <;> simp
  have hre := (C19.transform_system_renormalised sqrt tol2 atol (-1) 0 htol htol1 h1).1 ⟨0, 1⟩ s2d hs ht
  unfold fanCtor at hg
  cases hM : tsMatrix2 sqrt tol2 atol ⟨0, 1⟩ s2d with
  | none => rw [hM] at hg; exact absurd hg (by simp)
  | some M =>
    rw [hM] at hg
    simp only [Option.some.injEq] at hg
    subst hg
    simp only [fanGetitem, fanCtor, hre, hM, hnn]

/-- instance: `src_to_det_init = (3, 4)`, derived detector axis `(4/5, -3/5)`; the slice has the
same state. -/
example : ∃ g : FanState ℚ,
    fanCtor (fun s : ℚ => if s = 25 then 5 else 1) (1 / 10 ^ 20) (1 / 10 ^ 8) ⟨3, 4⟩ none ⟨1, 2⟩ 5 7 true
      = some g ∧ g.axis = ⟨4 / 5, -(3 / 5)⟩ ∧
    fanGetitem (fun s : ℚ => if s = 25 then 5 else 1) (1 / 10 ^ 20) (1 / 10 ^ 8) g = some g := by
  have h : fanCtor (fun s : ℚ => if s = 25 then 5 else 1) (1 / 10 ^ 20) (1 / 10 ^ 8) ⟨3, 4⟩ none
      ⟨1, 2⟩ 5 7 true = some ⟨⟨3 / 5, 4 / 5⟩, none, ⟨4 / 5, -(3 / 5)⟩, ⟨1, 2⟩, 5, 7, true⟩ := by
    simp [fanCtor, tsMatrix2, tsSnaps2, closeTo, absK, rotFromToCode2, rotFromTo2, perp2,
      V2.normalize, V2.normSq, V2.dot, V2.smul, M2.mulVec]
    norm_num
  exact ⟨_, h, rfl, C19.getitem_fan_idempotent _ _ _ (by norm_num) (by norm_num) (by norm_num)
    ⟨3, 4⟩ none ⟨1, 2⟩ 5 7 true _ (by norm_num [V2.normSq, V2.dot]) (by norm_num [V2.normSq, V2.dot]) h⟩
