/-
C19 — acquisition geometries are rigid-motion consistent for all parameters.
Property theorems only.  The model is `OdlModel/Model/Geometry.lean`; everything is stated
over an arbitrary commutative ring / field `K` (so in particular over ℝ with
`(c, s) = (cos θ, sin θ)`), for all axes, initial vectors, translations, radii, pitches,
shifts and detector parameters.  The only hypotheses are `c² + s² = 1` per angle and
unit length / orthogonality of the vectors that the constructors normalise.
-/
import OdlModel.Model.Geometry
import Mathlib.Tactic.Ring
import Mathlib.Tactic.LinearCombination
import Mathlib.Tactic.FieldSimp
import Mathlib.Tactic.Linarith
import Mathlib.Tactic.Positivity

open OdlModel.Geometry

namespace OdlModel.C19

/-- `R` is a rotation: `RᵀR = 1` and `det R = 1`. -/
def IsRot2 {K : Type} [CommRing K] (R : M2 K) : Prop :=
  R.transpose.mul R = M2.one ∧ R.det = 1

def IsRot3 {K : Type} [CommRing K] (R : M3 K) : Prop :=
  R.transpose.mul R = M3.one ∧ R.det = 1

end OdlModel.C19

open OdlModel.C19

/-! ## rotation matrices -/

/-- `euler_matrix(phi)` (used by `Parallel2dGeometry` and `FanBeamGeometry`) is orthonormal
with determinant one for every angle. -/
theorem C19.rot_orthonormal_2d {K : Type} [CommRing K] (c s : K) (h : c * c + s * s = 1) :
    IsRot2 (euler2 c s) := by
  constructor
  · ext <;> simp only [euler2, M2.transpose, M2.mul, M2.one] <;> grind
  · simp only [euler2, M2.det]; grind

example : IsRot2 (euler2 (3 / 5 : ℚ) (4 / 5)) := C19.rot_orthonormal_2d _ _ (by norm_num)

/-- `euler_matrix(phi, theta, psi)` (ZXZ, `Parallel3dEulerGeometry`) is orthonormal with
determinant one for every triple of angles. -/
theorem C19.rot_orthonormal_euler {K : Type} [CommRing K] (cph sph cth sth cps sps : K)
    (h1 : cph * cph + sph * sph = 1) (h2 : cth * cth + sth * sth = 1)
    (h3 : cps * cps + sps * sps = 1) :
    IsRot3 (euler3 cph sph cth sth cps sps) := by
  constructor
  · ext <;> simp only [euler3, M3.transpose, M3.mul, M3.one] <;> grind
  · simp only [euler3, M3.det]; grind

example : IsRot3 (euler3 (3 / 5 : ℚ) (4 / 5) (5 / 13) (12 / 13) (-8 / 17) (15 / 17)) :=
  C19.rot_orthonormal_euler _ _ _ _ _ _ (by norm_num) (by norm_num) (by norm_num)

/-- `axis_rotation_matrix(axis, angle)` (Rodrigues; `AxisOrientedGeometry.rotation_matrix`
of `Parallel3dAxisGeometry` and `ConeBeamGeometry`) is orthonormal with determinant one for
every unit axis and every angle. -/
theorem C19.rot_orthonormal_axis {K : Type} [CommRing K] (a : V3 K) (c s : K)
    (hc : c * c + s * s = 1) (ha : a.normSq = 1) :
    IsRot3 (axisRot a c s) := by
  obtain ⟨x, y, z⟩ := a
  simp only [V3.normSq, V3.dot] at ha
  constructor
  · ext <;> simp only [axisRot, M3.transpose, M3.mul, M3.one] <;> grind
  · simp only [axisRot, M3.det]; grind

example : IsRot3 (axisRot (⟨2 / 7, 3 / 7, 6 / 7⟩ : V3 ℚ) (3 / 5) (4 / 5)) :=
  C19.rot_orthonormal_axis _ _ _ (by norm_num) (by norm_num [V3.normSq, V3.dot])

/-- The rotation of `axis_rotation_matrix` fixes its axis. -/
theorem C19.rot_axis_fixed {K : Type} [CommRing K] (a : V3 K) (c s : K)
    (ha : a.normSq = 1) : (axisRot a c s).mulVec a = a := by
  obtain ⟨x, y, z⟩ := a
  simp only [V3.normSq, V3.dot] at ha
  ext <;> simp only [axisRot, M3.mulVec] <;> grind
