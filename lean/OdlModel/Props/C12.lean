/-
C12 — solvers decrease what they promise to decrease; optimality is a fixed point.
Property theorems only, about the state machines of `Model/Solvers.lean` instantiated on
REAL INNER-PRODUCT SPACES OF ARBITRARY DIMENSION (Mathlib), linear operators given with an
adjoint (`AdjPair`) and a bound `‖A u‖ ≤ c ‖u‖` (any `c`, in particular the operator norm),
proximal maps characterised as resolvents (`IsProx`: `p = prox v ↔ (v - p)/τ ∈ ∂f p`) of
ARBITRARY set-valued operators `∂f`.  The `*_fixed_point*` theorems are therefore resolvent algebra:
they hold for every map `prox` and every relation `∂f` related by `IsProx` (which can be satisfied
by DEFINING `∂f` from `prox`); that `∂f` is the sub-differential of the functional whose proximal
the code calls is C07's matter (`C12.isProx_soft_threshold` shows it for the L1 proximal of the
drivers), and "solution ⇒ KKT" (a constraint qualification) is assumed, not proved.

NOT proved (said once, also in the evidence): that the non-smooth solvers CONVERGE; existence of
the governing point in the Douglas–Rachford converse.  ROUND 4 (end of file): Landweber converges
linearly (`C12.landweber_converges_linearly`), CG is exact after dimension-many steps
(`C12.cg_exact_after_dim`, via `C12.cg_all_directions_conjugate`), the power-method estimates
are monotone (`C12.power_method_(selfadjoint_)estimate_mono`).
-/
import OdlModel.Model.Solvers
import OdlModel.Lemmas.Solvers
import OdlModel.Lemmas.SolversAnalysis
import OdlModel.Lemmas.SolversConv
import Mathlib.Analysis.SpecificLimits.Basic
import OdlModel.Props.C11
import Mathlib.Tactic.Positivity
import Mathlib.Analysis.InnerProductSpace.Basic
import Mathlib.Analysis.InnerProductSpace.PiL2
import Mathlib.Tactic.Linarith
import Mathlib.Tactic.Ring
import Mathlib.Tactic.Module
import Mathlib.Tactic.LinearCombination
import Mathlib.Tactic.NormNum
import Mathlib.Tactic.FieldSimp
import Mathlib.Algebra.Field.Rat
import Mathlib.Algebra.Order.Field.Rat
import Mathlib.Algebra.Order.Field.Basic

open OdlModel.Solvers
open RealInnerProductSpace

section
variable {E F : Type} [NormedAddCommGroup E] [InnerProductSpace ℝ E]
  [NormedAddCommGroup F] [InnerProductSpace ℝ F]

/-! ### Landweber, Kaczmarz -/

/-- Landweber with `0 ≤ ω ≤ 2/c²`, `c ≥ ‖A‖`, never increases the residual `‖A x − b‖`
(one loop body from ANY state, hence along the whole run for every `n`). -/
theorem C12.landweber_residual_mono (A : E →ₗ[ℝ] F) (At : F →ₗ[ℝ] E) (hadj : AdjPair A At)
    (c : ℝ) (hc : ∀ u, ‖A u‖ ≤ c * ‖u‖) (b : F) (ω : ℝ) (h0 : 0 ≤ ω) (h1 : ω * c ^ 2 ≤ 2)
    (s : LandweberS E F) :
    ‖A ((LandweberP.step ⟨A, fun _ => At, b, ω, none⟩ s).x) - b‖ ≤ ‖A s.x - b‖ := by
  set r := A s.x - b with hr
  have hx : (LandweberP.step ⟨A, fun _ => At, b, ω, none⟩ s).x = s.x - ω • At r := by
    simp only [LandweberP.step, applyProj, lincomb, hr]; module
  rw [hx, map_sub, map_smul]
  have e : A s.x - ω • A (At r) - b = r - ω • A (At r) := by rw [hr]; abel
  rw [e]
  apply norm_le_of_sq_le (norm_nonneg _)
  rw [norm_sub_sq_real, norm_smul, inner_smul_right, real_inner_comm, hadj (At r) r,
    real_inner_self_eq_norm_sq, mul_pow, Real.norm_eq_abs, sq_abs]
  have hb := hc (At r)
  have hb2 : ‖A (At r)‖ ^ 2 ≤ c ^ 2 * ‖At r‖ ^ 2 := by
    have := mul_self_le_mul_self (norm_nonneg _) hb
    nlinarith
  nlinarith [sq_nonneg ‖At r‖, mul_nonneg h0 (sq_nonneg ‖At r‖), mul_nonneg h0 h0,
    mul_nonneg (mul_nonneg h0 h0) (sq_nonneg ‖At r‖)]

/-- Kaczmarz (fixed order, any number `m` of operators, optional projection that does not
increase the distance to the solution, e.g. onto a convex set containing it): for a
consistent system `A_i x* = b_i` and `0 ≤ ω_i ≤ 2/c_i²`, every sweep has
`‖x_{n+1} − x*‖ ≤ ‖x_n − x*‖`, for all `n`. -/
theorem C12.kaczmarz_error_mono (m : Nat) (A : Nat → E →ₗ[ℝ] F) (At : Nat → F →ₗ[ℝ] E)
    (hadj : ∀ i, AdjPair (A i) (At i)) (c : Nat → ℝ) (hc0 : ∀ i, 0 ≤ c i)
    (hc : ∀ i u, ‖A i u‖ ≤ c i * ‖u‖) (b : Nat → F) (ω : Nat → ℝ) (h0 : ∀ i, 0 ≤ ω i)
    (h1 : ∀ i, ω i * c i ^ 2 ≤ 2) (xs : E) (hxs : ∀ i, A i xs = b i)
    (proj : Option (E → E)) (hproj : ∀ p ∈ proj, ∀ x, ‖p x - xs‖ ≤ ‖x - xs‖)
    (rid : Nat → Nat) (cb : Bool) (s : KaczmarzS E F) (n : Nat) :
    ‖((KaczmarzP.step ⟨m, fun i => A i, fun i _ => At i, b, ω, proj, rid, cb⟩)^[n + 1] s).x - xs‖ ≤
    ‖((KaczmarzP.step ⟨m, fun i => A i, fun i _ => At i, b, ω, proj, rid, cb⟩)^[n] s).x - xs‖ := by
  rw [Function.iterate_succ_apply']
  generalize (KaczmarzP.step ⟨m, fun i => A i, fun i _ => At i, b, ω, proj, rid, cb⟩)^[n] s = t
  have hin : ∀ i (a : KaczmarzS E F), ‖a.x - xs‖ ≤ ‖t.x - xs‖ →
      ‖((KaczmarzP.inner ⟨m, fun i => A i, fun i _ => At i, b, ω, proj, rid, cb⟩ i a)).x - xs‖ ≤
        ‖t.x - xs‖ := by
    intro i a ha
    refine le_trans ?_ ha
    have hk := kaczmarz_inner_mono (A i) (At i) (hadj i) (c i) (hc0 i) (hc i) (b i) (ω i) (h0 i)
      (h1 i) xs (hxs i) a.x
    simp only [KaczmarzP.inner]
    cases proj with
    | none => simpa [applyProj] using hk
    | some p => exact le_trans (hproj p rfl _) hk
  have := forRange_inv (KaczmarzP.inner ⟨m, fun i => A i, fun i _ => At i, b, ω, proj, rid, cb⟩)
    (fun a => ‖a.x - xs‖ ≤ ‖t.x - xs‖) hin m t le_rfl
  unfold KaczmarzP.step
  split <;> exact this

/-- Kaczmarz in ANY visiting order (in particular every permutation drawn by `random=True`, but
also repeated or skipped operators): with the relaxation parameter `ω_i` of the operator that is
visited, `0 ≤ ω_i ≤ 2/c_i²`, a sweep does not increase the distance to a solution of the
consistent system. -/
theorem C12.kaczmarz_error_mono_any_order (m : Nat) (A : Nat → E →ₗ[ℝ] F) (At : Nat → F →ₗ[ℝ] E)
    (hadj : ∀ i, AdjPair (A i) (At i)) (c : Nat → ℝ) (hc0 : ∀ i, 0 ≤ c i)
    (hc : ∀ i u, ‖A i u‖ ≤ c i * ‖u‖) (b : Nat → F) (ω : Nat → ℝ) (h0 : ∀ i, 0 ≤ ω i)
    (h1 : ∀ i, ω i * c i ^ 2 ≤ 2) (xs : E) (hxs : ∀ i, A i xs = b i)
    (proj : Option (E → E)) (hproj : ∀ p ∈ proj, ∀ x, ‖p x - xs‖ ≤ ‖x - xs‖)
    (rid : Nat → Nat) (cb : Bool) (order : List Nat) (s : KaczmarzS E F) :
    ‖((KaczmarzP.stepOrd ⟨m, fun i => A i, fun i _ => At i, b, ω, proj, rid, cb⟩ order s)).x - xs‖ ≤
      ‖s.x - xs‖ := by
  have hin : ∀ i (a : KaczmarzS E F),
      ‖((KaczmarzP.inner ⟨m, fun i => A i, fun i _ => At i, b, ω, proj, rid, cb⟩ i a)).x - xs‖ ≤
        ‖a.x - xs‖ := by
    intro i a
    have hk := kaczmarz_inner_mono (A i) (At i) (hadj i) (c i) (hc0 i) (hc i) (b i) (ω i) (h0 i)
      (h1 i) xs (hxs i) a.x
    simp only [KaczmarzP.inner]
    cases proj with
    | none => simpa [applyProj] using hk
    | some p => exact le_trans (hproj p rfl _) hk
  have hfold : ∀ (l : List Nat) (a : KaczmarzS E F),
      ‖(l.foldl (fun s i => KaczmarzP.inner ⟨m, fun i => A i, fun i _ => At i, b, ω, proj, rid, cb⟩ i s) a).x - xs‖
        ≤ ‖a.x - xs‖ := by
    intro l
    induction l with
    | nil => intro a; exact le_rfl
    | cons i l ih => intro a; exact le_trans (ih _) (hin i a)
  unfold KaczmarzP.stepOrd
  split <;> exact hfold order s

/-- Landweber WITH a projection that does not increase the distance to a solution `x*` of
`A x = b` (e.g. the metric projection onto a closed convex set containing `x*`):
`0 ≤ ω ≤ 2/c²` ⟹ `‖x₊ − x*‖ ≤ ‖x − x*‖` (the residual itself need not be monotone then). -/
theorem C12.landweber_error_mono (A : E →ₗ[ℝ] F) (At : F →ₗ[ℝ] E) (hadj : AdjPair A At)
    (c : ℝ) (hc0 : 0 ≤ c) (hc : ∀ u, ‖A u‖ ≤ c * ‖u‖) (b : F) (ω : ℝ) (h0 : 0 ≤ ω)
    (h1 : ω * c ^ 2 ≤ 2) (xs : E) (hxs : A xs = b) (proj : Option (E → E))
    (hproj : ∀ p ∈ proj, ∀ x, ‖p x - xs‖ ≤ ‖x - xs‖) (s : LandweberS E F) :
    ‖(LandweberP.step ⟨A, fun _ => At, b, ω, proj⟩ s).x - xs‖ ≤ ‖s.x - xs‖ := by
  have hk := kaczmarz_inner_mono A At hadj c hc0 hc b ω h0 h1 xs hxs s.x
  simp only [LandweberP.step]
  cases proj with
  | none => simpa [applyProj] using hk
  | some p => exact le_trans (hproj p rfl _) hk

/-! ### Conjugate gradients -/

/-- `conjugate_gradient` for a symmetric positive semidefinite `A` and `A x* = b`: the energy
`⟪x − x*, A (x − x*)⟫` never increases, for all `n` (the loop carries
`r = b − A x`, `⟪r, p⟫ = ‖r‖²`, `sqnorm_r_old = ‖r‖²`). -/
theorem C12.cg_energy_mono (A : E →ₗ[ℝ] E) (hsym : ∀ u v, ⟪A u, v⟫ = ⟪u, A v⟫)
    (hpsd : ∀ u, 0 ≤ ⟪u, A u⟫) (b xs : E) (hxs : A xs = b) (x0 junk : E) (n : Nat) :
    energy A xs (((cgReal A b).step^[n + 1] ((cgReal A b).init x0 junk)).x) ≤
      energy A xs (((cgReal A b).step^[n] ((cgReal A b).init x0 junk)).x) := by
  rw [Function.iterate_succ_apply']
  have hinv := iterate_inv (cgReal A b).step (CgInv A b)
    (fun s h => (cg_step A hsym hpsd b xs hxs s h).1) n _ (cg_init_inv A b x0 junk)
  exact (cg_step A hsym hpsd b xs hxs _ hinv).2

/-- `conjugate_gradient_normal`: the residual `‖b − A x_n‖` never increases, for all `n`. -/
theorem C12.cgn_residual_mono (A : E →ₗ[ℝ] F) (At : F →ₗ[ℝ] E) (hadj : AdjPair A At) (b : F)
    (x0 : E) (junk : F) (n : Nat) :
    ‖b - A (((cgnReal A At b).step^[n + 1] ((cgnReal A At b).init x0 junk)).x)‖ ≤
      ‖b - A (((cgnReal A At b).step^[n] ((cgnReal A At b).init x0 junk)).x)‖ := by
  rw [Function.iterate_succ_apply']
  have hinv := iterate_inv (cgnReal A At b).step (CgnInv A At b)
    (fun s h => (cgn_step A At hadj b s h).1) n _ (cgn_init_inv A At b x0 junk)
  have h1 := cgn_step A At hadj b _ hinv
  rw [← hinv.1, ← h1.1.1]
  exact h1.2

/-- Consecutive relations (the full statement is now `C12.cg_exact_after_dim`, with the mutual
conjugacy of ALL directions in `C12.cg_all_directions_conjugate`; this one is kept because it needs
the run condition at the `n`-th state only): along the run of
`conjugate_gradient` for a symmetric `A`, every executed loop body (`n`-th state not stopped,
`⟪p, A p⟫ ≠ 0`, `r ≠ 0`) produces a residual orthogonal to the previous residual and to the
previous direction, and a direction `A`-conjugate to the previous direction — for all `n`. -/
theorem C12.cg_exact_after_dim_partial (A : E →ₗ[ℝ] E) (hsym : ∀ u v, ⟪A u, v⟫ = ⟪u, A v⟫)
    (b x0 junk : E) (n : Nat) :
    let s := (cgReal A b).step^[n] ((cgReal A b).init x0 junk)
    let t := (cgReal A b).step^[n + 1] ((cgReal A b).init x0 junk)
    s.stopped = false → ⟪s.p, A s.p⟫ ≠ 0 → s.sqnormROld ≠ 0 →
      ⟪t.r, s.r⟫ = 0 ∧ ⟪t.r, s.p⟫ = 0 ∧ ⟪t.p, A s.p⟫ = 0 := by
  intro s t hst hip hr
  have hinv : CgInv2 A b s := by
    apply iterate_inv (cgReal A b).step (CgInv2 A b) _ n _ (cg_init_inv2 A b x0 junk)
    intro u hu
    by_cases h1 : u.stopped = false
    · by_cases h2 : ⟪u.p, A u.p⟫ = 0
      · -- `return`: only `d` and the flag change
        have : (cgReal A b).step u = { u with d := A u.p, stopped := true } := by
          unfold CgP.step; simp only [h1, Bool.false_eq_true, if_false, cgReal, h2, if_true]
        rw [this]; exact hu
      · by_cases h3 : u.sqnormROld = 0
        · -- r = 0: the step keeps r = 0 (α = 0), the invariant is re-established trivially
          have hr0 : u.r = 0 := by
            have := hu.1.2.2; rw [h3] at this
            exact norm_eq_zero.mp (pow_eq_zero_iff two_ne_zero |>.mp this.symm)
          have : (cgReal A b).step u =
              ⟨u.x, 0, (0 : E), A u.p, 0, false, u.log ++ [lincomb (1 : ℝ) u.x (0 : ℝ) u.p]⟩ := by
            unfold CgP.step
            simp only [h1, Bool.false_eq_true, if_false, cgReal, h2, h3, zero_div, neg_zero, hr0,
              lincomb, zero_smul, add_zero, one_smul, norm_zero, ne_eq, OfNat.ofNat_ne_zero,
              not_false_eq_true, zero_pow, div_zero, smul_zero]
          rw [this]
          refine ⟨⟨?_, ?_, ?_⟩, ?_⟩
          · show (0 : E) = b - A u.x; rw [← hu.1.1, hr0]
          · show ⟪(0 : E), (0 : E)⟫ = ‖(0 : E)‖ ^ 2; simp
          · show (0 : ℝ) = ‖(0 : E)‖ ^ 2; simp
          · show ⟪A (0 : E), (0 : E)⟫ = ⟪A (0 : E), (0 : E)⟫; rfl
        · exact (cg_step2 A hsym b u hu h1 h2 h3).1
    · have : (cgReal A b).step u = u := by
        unfold CgP.step; simp only [Bool.not_eq_false] at h1; simp only [h1, if_true]
      rw [this]; exact hu
  have := cg_step2 A hsym b s hinv hst hip hr
  have ht : t = (cgReal A b).step s := Function.iterate_succ_apply' _ _ _
  rw [ht]; exact this.2

/-! ### Power method -/

/-- The power-method estimate never exceeds any bound `c` of the operator (in particular
its operator norm): for every start vector, every `maxiter = 2 (n+1)`, whatever the
zero / closeness tests answer. -/
theorem C12.power_method_le_opnorm (A : E →ₗ[ℝ] F) (At : F →ₗ[ℝ] E) (c : ℝ) (hc0 : 0 ≤ c)
    (hA : ∀ u, ‖A u‖ ≤ c * ‖u‖) (hAt : ∀ w, ‖At w‖ ≤ c * ‖w‖) (isZero : ℝ → Bool)
    (hz : ∀ k, k = 0 → isZero k = true) (isClose : ℝ → ℝ → Bool) (x0 : E) (n : Nat) (est : ℝ)
    (h : (powerReal A At isZero isClose).run x0 (n + 1) = some est) : est ≤ c := by
  unfold PowerP.run at h
  rw [iter_eq, Function.iterate_succ_apply] at h
  have hs := power_step A At c hc0 hA hAt isZero hz isClose
  have h1 := power_init_inv A At isZero hz isClose x0
  set s0 := (powerReal A At isZero isClose).init x0 with hs0
  have h2 : PowerInv2 c ((powerReal A At isZero isClose).stepNormal s0) := by
    by_cases hd : s0.done = false
    · exact (hs s0).1 h1 hd
    · -- init never sets `done`
      exfalso; apply hd; rw [hs0]
      by_cases hz0 : isZero ‖x0‖ = true <;> simp [PowerP.init, powerReal, hz0]
  have h3 := iterate_inv _ (PowerInv2 c) (fun s => (hs s).2) n _ h2
  simp only at h
  split_ifs at h with hf
  cases h
  exact (h3 (by simpa using hf)).2
/-- The self-adjoint branch (`op.adjoint is op`, iteration on `A` itself): every returned estimate
`‖A x‖`, `‖x‖ = 1`, is `≤ c` for any bound `c` of `A`; all `maxiter = n + 1`, all start vectors. -/
theorem C12.power_method_selfadjoint_le_opnorm (A : E →ₗ[ℝ] E) (c : ℝ)
    (hA : ∀ u, ‖A u‖ ≤ c * ‖u‖) (isZero : ℝ → Bool)
    (hz : ∀ k, k = 0 → isZero k = true) (isClose : ℝ → ℝ → Bool) (x0 : E) (n : Nat) (est : ℝ)
    (h : (powerSelfReal A isZero isClose).run x0 (n + 1) = some est) : est ≤ c := by
  unfold PowerSelfP.run at h
  rw [iter_eq, Function.iterate_succ_apply] at h
  have hs := powerSelf_step A c hA isZero hz isClose
  have h1 := powerSelf_init_inv A isZero hz isClose x0
  set s0 := (powerSelfReal A isZero isClose).init x0 with hs0
  have h2 : PowerInv2 c ((powerSelfReal A isZero isClose).step s0) := by
    by_cases hd : s0.done = false
    · exact (hs s0).1 h1 hd
    · exfalso; apply hd; rw [hs0]
      by_cases hz0 : isZero ‖x0‖ = true <;> simp [PowerSelfP.init, powerSelfReal, hz0]
  have h3 := iterate_inv _ (PowerInv2 c) (fun s => (hs s).2) n _ h2
  simp only at h
  split_ifs at h with hf
  cases h
  exact (h3 (by simpa using hf)).2

end

/-! ### Backtracking line search, steepest descent -/

/-- BY CONSTRUCTION of the loop (it reads the loop's own exit test and the `assert` back): whatever
step the backtracking loop returns satisfies the sufficient-decrease test against the value `fx`
it was given, and strictly decreases it.  No statement about gradients; `C12.backtracking_returns`
is the half that says the loop does return. -/
theorem C12.armijo_descent {K V : Type} [Field K] [LinearOrder K] [IsStrictOrderedRing K]
    [AddCommGroup V] [Module K V] (f : V → K) (x dir : V) (fx dd tau discount : K)
    (fuel : Nat) (alpha0 alpha : K)
    (h : btLoop f x dir fx dd tau discount fuel alpha0 = some alpha) :
    f (x + alpha • dir) ≤ fx - absK (alpha * dd * discount) ∧ f (x + alpha • dir) < fx := by
  induction fuel generalizing alpha0 with
  | zero => simp [btLoop] at h
  | succ fuel ih =>
    simp only [btLoop] at h
    split_ifs at h with h1 h2
    · cases h
      have : lincomb (1 : K) x alpha dir = x + alpha • dir := by simp only [lincomb]; module
      rw [this] at h1 h2
      exact ⟨h1, h2⟩
    · exact ih _ h

/-- `steepest_descent` with `BacktrackingLineSearch(f)` (any `tau`, `discount`, `max_num_iter`) and
WITHOUT `projection=` (with a projection the statement is false) never increases `f`; a raising line
search (`none`) leaves `x` unchanged in the model, whereas the real call propagates the exception.
Follows from `armijo_descent`, i.e. holds for arbitrary `f, grad`. -/
theorem C12.steepest_descent_mono {K V : Type} [Field K] [LinearOrder K] [IsStrictOrderedRing K]
    [AddCommGroup V] [Module K V] (f : V → K) (grad : V → V) (nsq : V → K) (tol tau discount : K)
    (maxNumIter : Nat) (s : SteepestS V) :
    f (SteepestP.step ⟨grad, nsq, tol, backtracking f tau discount maxNumIter, none⟩ s).x ≤ f s.x := by
  unfold SteepestP.step
  by_cases h0 : (s.stopped || s.failed) = true
  · simp only [h0, if_true, le_refl]
  simp only [h0, Bool.false_eq_true, if_false]
  by_cases hc : absK (-(nsq (grad s.x))) < tol
  · simp only [hc, if_true, le_refl]
  simp only [hc, if_false]
  cases hls : backtracking f tau discount maxNumIter s.x (-(grad s.x)) (-(nsq (grad s.x))) with
  | none => simp only [le_refl]
  | some st =>
    simp only [applyProj]
    have e : lincomb (1 : K) s.x (-st) (grad s.x) = s.x + st • (-(grad s.x)) := by
      simp only [lincomb]; module
    rw [e]
    unfold backtracking at hls
    split_ifs at hls with hd hp
    · exact le_of_lt (C12.armijo_descent f s.x (-(grad s.x)) (f s.x) _ tau discount _ _ st hls).2
    · exact le_of_lt (C12.armijo_descent f s.x (-(grad s.x)) (f s.x) _ tau discount _ _ st hls).2

/-- The meaningful half of the line search: if SOME trial step `α₀ τ^k`, `k < fuel`
(`fuel = max_num_iter + 1`), passes the sufficient-decrease test and every passing step strictly
decreases `f` (true whenever `α · dd · discount ≠ 0`), then the loop does return a step, namely
the first passing one — it does not raise. -/
theorem C12.backtracking_returns {K V : Type} [Field K] [LinearOrder K] [IsStrictOrderedRing K]
    [AddCommGroup V] [Module K V] (f : V → K) (x dir : V) (fx dd tau discount : K)
    (hstrict : ∀ a : K, f (lincomb (1 : K) x a dir) ≤ fx - absK (a * dd * discount) →
      f (lincomb (1 : K) x a dir) < fx)
    (fuel : Nat) (alpha0 : K) (k : Nat) (hk : k < fuel)
    (hpass : f (lincomb (1 : K) x (alpha0 * tau ^ k) dir) ≤ fx - absK (alpha0 * tau ^ k * dd * discount)) :
    ∃ j, j ≤ k ∧ btLoop f x dir fx dd tau discount fuel alpha0 = some (alpha0 * tau ^ j) := by
  induction fuel generalizing alpha0 k with
  | zero => exact absurd hk (Nat.not_lt_zero _)
  | succ fuel ih =>
    simp only [btLoop]
    by_cases h1 : f (lincomb (1 : K) x alpha0 dir) ≤ fx - absK (alpha0 * dd * discount)
    · refine ⟨0, Nat.zero_le _, ?_⟩
      simp only [h1, if_true, hstrict alpha0 h1, pow_zero, mul_one]
    · simp only [h1, if_false]
      cases k with
      | zero => simp only [pow_zero, mul_one] at hpass; exact absurd hpass h1
      | succ k =>
        have hk' : k < fuel := Nat.lt_of_succ_lt_succ hk
        have hp' : f (lincomb (1 : K) x (alpha0 * tau * tau ^ k) dir) ≤
            fx - absK (alpha0 * tau * tau ^ k * dd * discount) := by
          have e : alpha0 * tau * tau ^ k = alpha0 * tau ^ (k + 1) := by ring
          rw [e]; exact hpass
        obtain ⟨j, hj, hres⟩ := ih (alpha0 * tau) k hk' hp'
        exact ⟨j + 1, Nat.succ_le_succ hj, by rw [hres]; congr 1; ring⟩


/-! ### Default step-size rules -/

/-- The three computing branches of `pdhg_stepsize` (neither, only `sigma`, only `tau` given; the
given step non-zero) return steps with `τ σ L_norm² = 0.9` for the norm (estimate) used. -/
theorem C12.pdhg_stepsize_product (Lnorm : ℝ) (hL : 0 < Lnorm) (tau sigma : Option ℝ)
    (hnot : ¬ (tau.isSome ∧ sigma.isSome)) (ht : ∀ t ∈ tau, t ≠ 0) (hs : ∀ s ∈ sigma, s ≠ 0) :
    (pdhgStepsize Real.sqrt Lnorm tau sigma).1 * (pdhgStepsize Real.sqrt Lnorm tau sigma).2 *
      Lnorm ^ 2 = 9 / 10 := by
  have hL0 : Lnorm ≠ 0 := ne_of_gt hL
  cases tau with
  | none =>
    cases sigma with
    | none =>
      simp only [pdhgStepsize]
      have h := Real.mul_self_sqrt (show (0 : ℝ) ≤ 9 / 10 by norm_num)
      field_simp
      linarith
    | some s =>
      have := hs s rfl
      simp only [pdhgStepsize]; field_simp
  | some t =>
    cases sigma with
    | none => have := ht t rfl; simp only [pdhgStepsize]; field_simp
    | some s => exact absurd ⟨rfl, rfl⟩ hnot

/-- Admissibility of the default PDHG steps: `τ σ c² < 1` for every bound `c` of the operator with
`0.9 c² < L_norm²`, i.e. as long as the norm ESTIMATE (the power method under-estimates,
`C12.power_method_le_opnorm`) is not below `√0.9 ≈ 0.949` of the true norm. -/
theorem C12.pdhg_stepsize_admissible (Lnorm c : ℝ) (hL : 0 < Lnorm) (hc : 9 / 10 * c ^ 2 < Lnorm ^ 2)
    (tau sigma : Option ℝ) (hnot : ¬ (tau.isSome ∧ sigma.isSome)) (ht : ∀ t ∈ tau, t ≠ 0)
    (hs : ∀ s ∈ sigma, s ≠ 0) :
    (pdhgStepsize Real.sqrt Lnorm tau sigma).1 * (pdhgStepsize Real.sqrt Lnorm tau sigma).2 * c ^ 2 < 1 := by
  have h := C12.pdhg_stepsize_product Lnorm hL tau sigma hnot ht hs
  set p := (pdhgStepsize Real.sqrt Lnorm tau sigma).1 * (pdhgStepsize Real.sqrt Lnorm tau sigma).2 with hp
  have hp' : p = 9 / 10 / Lnorm ^ 2 := by
    have hL2 : Lnorm ^ 2 ≠ 0 := by positivity
    field_simp; linarith
  rw [hp', div_mul_eq_mul_div, div_lt_one (by positivity)]
  linarith

/-- Landweber's default `omega = 1/est²` satisfies the hypotheses of
`C12.landweber_residual_mono` for every bound `c` of the operator with `c² ≤ 2 est²`, i.e. as long
as the estimate is at least `‖A‖/√2`. -/
theorem C12.landweber_default_omega_admissible (est c : ℝ) (he : 0 < est) (hc : c ^ 2 ≤ 2 * est ^ 2) :
    0 ≤ landweberDefaultOmega est ∧ landweberDefaultOmega est * c ^ 2 ≤ 2 := by
  unfold landweberDefaultOmega
  constructor
  · positivity
  · rw [one_div, inv_mul_le_iff₀ (by positivity)]; nlinarith

/-- The computing branches of `douglas_rachford_pd_stepsize` (at least one of `tau`, `sigma` not
given; positive norms, at least one operator; a given `tau` non-zero, given `sigma` with
`Σ σ_i n_i² ≠ 0`) return steps with `τ Σ_i σ_i n_i² = 2` for the norms (estimates) used — half of
the bound `< 4` of the convergence condition. -/
theorem C12.douglas_rachford_pd_stepsize_sum (norms : List ℝ) (hne : norms ≠ [])
    (hpos : ∀ n ∈ norms, 0 < n) (tau : Option ℝ) (sigma : Option (List ℝ))
    (hnot : ¬ (tau.isSome ∧ sigma.isSome)) (ht : ∀ t ∈ tau, t ≠ 0)
    (hs : ∀ s ∈ sigma, drCond s norms ≠ 0) :
    (drStepsize norms tau sigma).1 * drCond (drStepsize norms tau sigma).2 norms = 2 := by
  have hlen : (norms.length : ℝ) ≠ 0 := by
    have : 0 < norms.length := List.length_pos_of_ne_nil hne
    exact_mod_cast this.ne'
  have key : ∀ t : ℝ, t ≠ 0 →
      t * drCond (norms.map (fun n => 2 / (natK norms.length * t * (n * n)))) norms = 2 := by
    intro t ht0
    have : (fun n : ℝ => 2 / (natK norms.length * t * (n * n))) =
        (fun n : ℝ => (2 / ((norms.length : ℝ) * t)) / (n * n)) := by
      funext n; rw [natK_eq, div_div]
    rw [this, drCond_default norms hpos]; field_simp
  cases tau with
  | none =>
    cases sigma with
    | none =>
      simp only [drStepsize]
      apply key
      have hsum : 0 < sumK norms := by
        rw [sumK_eq_sum]
        cases norms with
        | nil => exact absurd rfl hne
        | cons x l =>
          rw [List.sum_cons]
          have h1 := hpos x (by simp)
          have h2 : 0 ≤ l.sum := List.sum_nonneg (fun n hn => (hpos n (by simp [hn])).le)
          linarith
      exact (one_div_pos.mpr hsum).ne'
    | some s =>
      have h := hs s rfl
      simp only [drStepsize]
      unfold drCond at h ⊢
      exact div_mul_cancel₀ _ h
  | some t =>
    cases sigma with
    | none => simp only [drStepsize]; exact key t (ht t rfl)
    | some s => exact absurd ⟨rfl, rfl⟩ hnot

/-! ### Proximal maps as resolvents -/

/-- Link to C07: the soft-threshold `softThr`-type map that the drivers use for `L1Norm.proximal`
IS the resolvent of the genuine sub-differential of `|·|` — `IsProx` is not only satisfiable by
defining `∂f` from `prox`; here `∂f` is given independently. (`σ > 0`.) -/
theorem C12.isProx_soft_threshold (σ : ℝ) (hσ : 0 < σ) :
    IsProx (fun v : ℝ => if σ < v then v - σ else if v < -σ then v + σ else 0) σ subAbs := by
  intro v p
  simp only [subAbs, Set.mem_setOf_eq, smul_eq_mul]
  constructor
  · intro h
    subst h
    by_cases h1 : σ < v
    · simp only [h1, if_true]
      refine ⟨fun _ => by field_simp; ring, fun h => by linarith, fun h => by linarith⟩
    · by_cases h2 : v < -σ
      · simp only [h1, h2, if_false, if_true]
        refine ⟨fun h => by linarith, fun _ => by field_simp; ring, fun h => by linarith⟩
      · simp only [h1, h2, if_false]
        refine ⟨fun h => absurd h (lt_irrefl _), fun h => absurd h (lt_irrefl _), fun _ => ?_⟩
        rw [sub_zero, abs_mul, abs_of_pos (inv_pos.mpr hσ), inv_mul_le_iff₀ hσ, mul_one, abs_le]
        exact ⟨by linarith [not_lt.mp h2], not_lt.mp h1⟩
  · rintro ⟨hp, hn, hz⟩
    rcases lt_trichotomy p 0 with h | h | h
    · have := hn h
      have hv : v = p - σ := by field_simp at this; linarith
      have : v < -σ := by linarith
      simp only [show ¬ σ < v by linarith, this, if_false, if_true]; linarith
    · have := hz h
      subst h
      rw [sub_zero, abs_mul, abs_of_pos (inv_pos.mpr hσ), inv_mul_le_iff₀ hσ, mul_one, abs_le] at this
      simp only [show ¬ σ < v by linarith [this.2], show ¬ v < -σ by linarith [this.1], if_false]
    · have := hp h
      have hv : v = p + σ := by field_simp at this; linarith
      simp only [show σ < v by linarith, if_true]; linarith

/-! ### A solution of the optimality conditions is a fixed point, and conversely -/

section
variable {X Y : Type} [AddCommGroup X] [Module ℝ X] [AddCommGroup Y] [Module ℝ Y]

/-- PDHG: a state with `x_relax = x` is left unchanged (in `x, y, x_relax`) by the loop body
iff `−L* y ∈ ∂f(x)` and `L x ∈ ∂g*(y)` — the first-order optimality conditions of
`min f(x) + g(Lx)`; for every `θ`, all positive (non-zero) steps. -/
theorem C12.pdhg_fixed_point_iff (L : X → Y) (Lt : Y → X) (proxF : X → X) (proxGc : Y → Y)
    (τ σ θ : ℝ) (hτ : τ ≠ 0) (hσ : σ ≠ 0) (subF : X → Set X) (subGc : Y → Set Y)
    (hF : IsProx proxF τ subF) (hG : IsProx proxGc σ subGc) (s : PdhgS X Y) (hrel : s.xRelax = s.x) :
    ((PdhgP.step ⟨L, fun _ => Lt, proxF, proxGc, τ, σ, θ⟩ s).x = s.x ∧
     (PdhgP.step ⟨L, fun _ => Lt, proxF, proxGc, τ, σ, θ⟩ s).y = s.y ∧
     (PdhgP.step ⟨L, fun _ => Lt, proxF, proxGc, τ, σ, θ⟩ s).xRelax = s.xRelax) ↔
    (-(Lt s.y) ∈ subF s.x ∧ L s.x ∈ subGc s.y) := by
  simp only [PdhgP.step, lincomb, hrel]
  have e1 : σ⁻¹ • ((1 : ℝ) • s.y + σ • L s.x - s.y) = L s.x := by
    rw [one_smul, add_sub_cancel_left, smul_smul, inv_mul_cancel₀ hσ, one_smul]
  have e2 : τ⁻¹ • ((1 : ℝ) • s.x + -τ • Lt s.y - s.x) = -(Lt s.y) := by
    rw [one_smul, add_sub_cancel_left, smul_smul, mul_neg, inv_mul_cancel₀ hτ, neg_smul, one_smul]
  constructor
  · rintro ⟨hx, hy, _⟩
    have hy' := (hG _ _).mp hy
    rw [e1] at hy'
    rw [hy] at hx
    have hx' := (hF _ _).mp hx
    rw [e2] at hx'
    exact ⟨hx', hy'⟩
  · rintro ⟨hx, hy⟩
    have hy' : proxGc ((1 : ℝ) • s.y + σ • L s.x) = s.y := (hG _ _).mpr (by rw [e1]; exact hy)
    have hx' : proxF ((1 : ℝ) • s.x + -τ • Lt s.y) = s.x := (hF _ _).mpr (by rw [e2]; exact hx)
    rw [hy', hx']
    refine ⟨rfl, rfl, ?_⟩
    module

/-- Proximal gradient (`lam(k) ≠ 0`): `x` is unchanged iff `−∇g(x) ∈ ∂f(x)`. -/
theorem C12.proximal_gradient_fixed_point_iff (proxF gradG : X → X) (γ : ℝ) (hγ : γ ≠ 0)
    (lam : Nat → ℝ) (subF : X → Set X) (hF : IsProx proxF γ subF) (s : ProxGradS X)
    (hlam : lam s.k ≠ 0) :
    (ProxGradP.step ⟨proxF, gradG, γ, lam⟩ s).x = s.x ↔ -(gradG s.x) ∈ subF s.x := by
  simp only [ProxGradP.step, lincomb]
  have e2 : γ⁻¹ • ((1 : ℝ) • s.x + -γ • gradG s.x - s.x) = -(gradG s.x) := by
    rw [one_smul, add_sub_cancel_left, smul_smul, mul_neg, inv_mul_cancel₀ hγ, neg_smul, one_smul]
  rw [← e2, ← hF]
  constructor
  · intro h
    have : lam s.k • (proxF ((1 : ℝ) • s.x + -γ • gradG s.x) - s.x) = 0 := by
      rw [← sub_eq_zero] at h; rw [← h]; module
    rcases smul_eq_zero.mp this with h0 | h0
    · exact absurd h0 hlam
    · exact sub_eq_zero.mp h0
  · intro h; rw [h]; module

/-- FISTA: with `y = x`, the pair `(x, y)` is unchanged (for every momentum `t`) iff
`−∇g(x) ∈ ∂f(x)`. -/
theorem C12.accelerated_proximal_gradient_fixed_point_iff (proxF gradG : X → X) (γ : ℝ)
    (hγ : γ ≠ 0) (lam : Nat → ℝ) (sqrt : ℝ → ℝ) (subF : X → Set X) (hF : IsProx proxF γ subF)
    (s : AccProxGradS ℝ X) (hy : s.y = s.x) :
    ((ProxGradP.accStep ⟨proxF, gradG, γ, lam⟩ sqrt s).x = s.x ∧
     (ProxGradP.accStep ⟨proxF, gradG, γ, lam⟩ sqrt s).y = s.y) ↔ -(gradG s.x) ∈ subF s.x := by
  simp only [ProxGradP.accStep, lincomb, hy]
  have e2 : γ⁻¹ • ((1 : ℝ) • s.x + -γ • gradG s.x - s.x) = -(gradG s.x) := by
    rw [one_smul, add_sub_cancel_left, smul_smul, mul_neg, inv_mul_cancel₀ hγ, neg_smul, one_smul]
  rw [← e2, ← hF]
  constructor
  · rintro ⟨h, _⟩; exact h
  · intro h; rw [h]; exact ⟨rfl, by module⟩

/-- Linearized ADMM, stated for the loop body of the `_simple` reference (`stepSimple`; the optimised
body: `C12.admm_opt_fixed_point_iff`): `(x, z, u)` is a fixed point iff `L x = z` and `y = u/σ` is a dual
solution: `−L* y ∈ ∂f(x)`, `y ∈ ∂g(L x)`. -/
theorem C12.admm_fixed_point_iff (L : X → Y) (Lt : Y → X) (proxF : X → X) (proxG : Y → Y)
    (τ σ : ℝ) (hτ : τ ≠ 0) (hσ : σ ≠ 0) (subF : X → Set X) (subG : Y → Set Y)
    (hF : IsProx proxF τ subF) (hG : IsProx proxG σ subG) (s : AdmmSimple X Y) :
    ((AdmmP.stepSimple ⟨L, Lt, proxF, proxG, τ, σ⟩ s).x = s.x ∧
     (AdmmP.stepSimple ⟨L, Lt, proxF, proxG, τ, σ⟩ s).z = s.z ∧
     (AdmmP.stepSimple ⟨L, Lt, proxF, proxG, τ, σ⟩ s).u = s.u) ↔
    (L s.x = s.z ∧ -(σ⁻¹ • Lt s.u) ∈ subF s.x ∧ σ⁻¹ • s.u ∈ subG s.z) := by
  simp only [AdmmP.stepSimple]
  have e1 : τ⁻¹ • (s.x - (τ / σ) • Lt s.u - s.x) = -(σ⁻¹ • Lt s.u) := by
    rw [sub_sub_cancel_left, smul_neg, smul_smul]
    congr 2; field_simp
  have e2 : σ⁻¹ • (s.z + s.u - s.z) = σ⁻¹ • s.u := by rw [add_sub_cancel_left]
  constructor
  · rintro ⟨hx, hz, hu⟩
    rw [hx] at hz hu
    rw [hz] at hu
    have hLz : L s.x = s.z := by
      have : L s.x + s.u - s.z - s.u = 0 := by rw [hu]; abel
      have h2 : L s.x - s.z = 0 := by rw [← this]; abel
      exact sub_eq_zero.mp h2
    rw [hLz] at hz hx
    rw [add_sub_cancel_left] at hx
    exact ⟨hLz, by rw [← e1]; exact (hF _ _).mp hx, by rw [← e2]; exact (hG _ _).mp hz⟩
  · rintro ⟨hLz, hx, hz⟩
    have hx' : proxF (s.x - (τ / σ) • Lt (L s.x + s.u - s.z)) = s.x := by
      rw [hLz, add_sub_cancel_left]; exact (hF _ _).mpr (by rw [e1]; exact hx)
    rw [hx', hLz]
    have hz' : proxG (s.z + s.u) = s.z := (hG _ _).mpr (by rw [e2]; exact hz)
    rw [hz']
    exact ⟨rfl, rfl, by abel⟩
/-- The same characterisation for the OPTIMISED loop body `admm_linearized` (`stepOpt`) on states
that carry its buffer invariant `tmp_ran = L x`: by `C11.admm_step_refines` its `x, z, u` are those
of the `_simple` step, for which `C12.admm_fixed_point_iff` is stated. -/
theorem C12.admm_opt_fixed_point_iff (L : X → Y) (Lt : Y → X) (proxF : X → X) (proxG : Y → Y)
    (τ σ : ℝ) (hτ : τ ≠ 0) (hσ : σ ≠ 0) (subF : X → Set X) (subG : Y → Set Y)
    (hF : IsProx proxF τ subF) (hG : IsProx proxG σ subG) (s : AdmmOpt X Y) (hinv : s.tmpRan = L s.x) :
    ((AdmmP.stepOpt ⟨L, Lt, proxF, proxG, τ, σ⟩ s).x = s.x ∧
     (AdmmP.stepOpt ⟨L, Lt, proxF, proxG, τ, σ⟩ s).z = s.z ∧
     (AdmmP.stepOpt ⟨L, Lt, proxF, proxG, τ, σ⟩ s).u = s.u) ↔
    (L s.x = s.z ∧ -(σ⁻¹ • Lt s.u) ∈ subF s.x ∧ σ⁻¹ • s.u ∈ subG s.z) := by
  have h := C11.admm_step_refines (K := ℝ) ⟨L, Lt, proxF, proxG, τ, σ⟩ s ⟨s.x, s.z, s.u⟩
    ⟨rfl, rfl, rfl, hinv⟩
  rw [h.1, h.2.1, h.2.2.1]
  exact C12.admm_fixed_point_iff L Lt proxF proxG τ σ hτ hσ subF subG hF hG ⟨s.x, s.z, s.u⟩
/-- Forward–backward primal–dual, for the code as it is (`aliased = true`, F12) and for the
documented iteration (`aliased = false`) alike, with or without the `l` terms (`gl = some ∇l*` /
`none`): `(x, v)` is unchanged iff `−(∇h(x) + Σ L_i* v_i) ∈ ∂f(x)` and
`L_i x − ∇l_i*(v_i) ∈ ∂g_i*(v_i)` for all `i`. -/
theorem C12.forward_backward_pd_fixed_point_iff (m : Nat) (L : Nat → X → Y) (Lt : Nat → Y → X)
    (proxF gradH : X → X) (proxGc : Nat → Y → Y) (gl : Option (Nat → Y → Y)) (τ : ℝ) (σ : Nat → ℝ)
    (hτ : τ ≠ 0) (hσ : ∀ i, σ i ≠ 0) (subF : X → Set X) (subGc : Nat → Y → Set Y)
    (hF : IsProx proxF τ subF) (hG : ∀ i, IsProx (proxGc i) (σ i) (subGc i))
    (aliased : Bool) (s : FbpdS X Y) :
    ((FbpdP.step ⟨m, L, Lt, proxF, gradH, proxGc, τ, σ, gl⟩ aliased s).x = s.x ∧
      ∀ i, (FbpdP.step ⟨m, L, Lt, proxF, gradH, proxGc, τ, σ, gl⟩ aliased s).v i = s.v i) ↔
    (-(if m = 0 then gradH s.x else gradH s.x + sumAdj Lt s.v (m - 1)) ∈ subF s.x ∧
      ∀ i, L i s.x - lcGrad gl i (s.v i) ∈ subGc i (s.v i)) := by
  have ey : ∀ x : X, lincomb (2 : ℝ) x (-(1 : ℝ)) (if aliased = true then x else x) = x := by
    intro x; simp only [lincomb, ite_self]; module
  cases gl with
  | none =>
    simp only [FbpdP.step, lcGrad, sub_zero]
    set T := (if m = 0 then gradH s.x else gradH s.x + sumAdj Lt s.v (m - 1)) with hT
    have e1 : τ⁻¹ • (s.x - τ • T - s.x) = -T := by
      rw [sub_sub_cancel_left, smul_neg, smul_smul, inv_mul_cancel₀ hτ, one_smul]
    have e2 : ∀ i, (σ i)⁻¹ • (s.v i + σ i • L i s.x - s.v i) = L i s.x := by
      intro i; rw [add_sub_cancel_left, smul_smul, inv_mul_cancel₀ (hσ i), one_smul]
    constructor
    · rintro ⟨hx, hv⟩
      refine ⟨by rw [← e1]; exact (hF _ _).mp hx, fun i => ?_⟩
      have := hv i
      rw [hx, ey] at this
      rw [← e2 i]; exact (hG i _ _).mp this
    · rintro ⟨hx, hv⟩
      have hx' : proxF (s.x - τ • T) = s.x := (hF _ _).mpr (by rw [e1]; exact hx)
      rw [hx', ey]
      exact ⟨rfl, fun i => (hG i _ _).mpr (by rw [e2 i]; exact hv i)⟩
  | some g =>
    simp only [FbpdP.step, lcGrad]
    set T := (if m = 0 then gradH s.x else gradH s.x + sumAdj Lt s.v (m - 1)) with hT
    have e1 : τ⁻¹ • (s.x - τ • T - s.x) = -T := by
      rw [sub_sub_cancel_left, smul_neg, smul_smul, inv_mul_cancel₀ hτ, one_smul]
    have e2 : ∀ i, (σ i)⁻¹ • (s.v i + σ i • (L i s.x - g i (s.v i)) - s.v i) =
        L i s.x - g i (s.v i) := by
      intro i; rw [add_sub_cancel_left, smul_smul, inv_mul_cancel₀ (hσ i), one_smul]
    constructor
    · rintro ⟨hx, hv⟩
      refine ⟨by rw [← e1]; exact (hF _ _).mp hx, fun i => ?_⟩
      have := hv i
      rw [hx, ey] at this
      rw [← e2 i]; exact (hG i _ _).mp this
    · rintro ⟨hx, hv⟩
      have hx' : proxF (s.x - τ • T) = s.x := (hF _ _).mpr (by rw [e1]; exact hx)
      rw [hx', ey]
      exact ⟨rfl, fun i => (hG i _ _).mpr (by rw [e2 i]; exact hv i)⟩

/-- Douglas–Rachford primal–dual (`m ≥ 1` linear operators, `l = None`, constant `lam ≠ 0`): if
the loop body leaves the governing pair `(x, v)` unchanged, then the point `p1` that the solver
shows to the callback / returns, together with the dual points `p2_i` it computes, satisfies the
optimality conditions `−Σ L_i* p2_i ∈ ∂f(p1)` and `L_i p1 ∈ ∂g_i*(p2_i)`.
The converse is `C12.douglas_rachford_pd_fixed_point_converse_partial`.  (What is NOT proved: that for
every KKT pair the governing equations have a solution `(x, v)`; they reduce to
`(I − τ/4 Σ σ_i L_i* L_i) x = p1 − τ/2 Σ L_i* p2_i`, solvable under the step condition
`τ Σ σ_i ‖L_i‖² < 4` — an operator inversion outside the abstract setting.) -/
theorem C12.douglas_rachford_pd_fixed_point (m : Nat) (hm : m ≠ 0) (L : Nat → X →ₗ[ℝ] Y)
    (Lt : Nat → Y →ₗ[ℝ] X) (proxF : X → X) (proxGc : Nat → Y → Y) (τ lam : ℝ) (σ : Nat → ℝ)
    (hτ : τ ≠ 0) (hlam : lam ≠ 0) (hσ : ∀ i, σ i ≠ 0) (subF : X → Set X) (subGc : Nat → Y → Set Y)
    (hF : IsProx proxF τ subF) (hG : ∀ i, IsProx (proxGc i) (σ i) (subGc i))
    (zeroV : X) (s : DrS X Y)
    (hx : (DrP.step ⟨m, fun i => ⇑(L i), fun i => ⇑(Lt i), proxF, proxGc, τ, σ, lam, none⟩ zeroV s).x = s.x)
    (hv : ∀ i, (DrP.step ⟨m, fun i => ⇑(L i), fun i => ⇑(Lt i), proxF, proxGc, τ, σ, lam, none⟩ zeroV s).v i = s.v i) :
    let P : DrP ℝ X Y := ⟨m, fun i => ⇑(L i), fun i => ⇑(Lt i), proxF, proxGc, τ, σ, lam, none⟩
    let p1 := (P.half s).1
    let w1 := (P.half s).2.1
    let p2 : Nat → Y := fun i => proxGc i (lincomb 1 (s.v i) (σ i / 2) (L i w1));
    (-(sumAdj (fun i => ⇑(Lt i)) p2 (m - 1)) ∈ subF p1) ∧ ∀ i, L i p1 ∈ subGc i (p2 i) := by
  intro P p1 w1 p2
  simp only [DrP.step, DrP.half, hm, if_false] at hx hv
  -- names for the quantities of the loop body
  set S := sumAdj (fun i => ⇑(Lt i)) s.v (m - 1) with hS
  set z0 := lincomb (1 : ℝ) s.x (-τ / 2) S with hz0
  have hp1 : p1 = proxF z0 := by simp only [p1, P, DrP.half, hm, if_false, hz0, hS]
  have hw1 : w1 = lincomb (2 : ℝ) p1 (-(1 : ℝ)) s.x := by
    simp only [w1, p1, P, DrP.half, hm, if_false]
  rw [← hp1] at hx hv
  rw [← hw1] at hx hv
  change ∀ i, lincomb 1 (lincomb 1 (s.v i) lam (lincomb 1 (lincomb 2 (p2 i) (-(1 : ℝ)) (s.v i)) (σ i / 2)
      ((L i) (lincomb 2 (lincomb 1 w1 (-τ / 2) (sumAdj (fun i => ⇑(Lt i)) (fun i => lincomb 2 (p2 i) (-(1 : ℝ)) (s.v i)) (m - 1))) (-(1 : ℝ)) w1))))
      (-lam) (p2 i) = s.v i at hv
  change lincomb 1 (lincomb 1 s.x (-lam) p1) lam (lincomb 1 w1 (-τ / 2)
      (sumAdj (fun i => ⇑(Lt i)) (fun i => lincomb 2 (p2 i) (-(1 : ℝ)) (s.v i)) (m - 1))) = s.x at hx
  rw [sumAdj_lin] at hx hv
  set Pp := sumAdj (fun i => ⇑(Lt i)) p2 (m - 1) with hPp
  -- z1 = p1
  have hz1 : lincomb (1 : ℝ) w1 (-τ / 2) ((2 : ℝ) • Pp + (-(1 : ℝ)) • S) = p1 := by
    have : lam • (lincomb (1 : ℝ) w1 (-τ / 2) ((2 : ℝ) • Pp + (-(1 : ℝ)) • S) - p1) = 0 := by
      simp only [lincomb] at hx ⊢
      linear_combination (norm := module) hx
    rcases smul_eq_zero.mp this with h | h
    · exact absurd h hlam
    · exact sub_eq_zero.mp h
  rw [hz1] at hv
  -- x = p1 - τ/2 (2 Pp - S)
  have hxe : s.x = p1 - (τ / 2) • ((2 : ℝ) • Pp - S) := by
    simp only [lincomb, hw1] at hz1
    linear_combination (norm := module) (-(1 : ℝ)) • hz1
  have hr1 : lincomb (2 : ℝ) p1 (-(1 : ℝ)) w1 = s.x := by simp only [lincomb, hw1]; module
  rw [hr1] at hv
  have hve : ∀ i, s.v i = p2 i + (σ i / 2) • L i s.x := by
    intro i
    have h1 := hv i
    have : lam • (p2 i + (σ i / 2) • L i s.x - s.v i) = 0 := by
      simp only [lincomb] at h1
      linear_combination (norm := module) h1
    rcases smul_eq_zero.mp this with h | h
    · exact absurd h hlam
    · have := sub_eq_zero.mp h; rw [← this]
  constructor
  · have h1 := (hF z0 p1).mp hp1.symm
    have e : τ⁻¹ • (z0 - p1) = -Pp := by
      have : z0 - p1 = (-τ) • Pp := by
        simp only [hz0, lincomb]
        linear_combination (norm := module) hxe
      rw [this, smul_smul, mul_neg, inv_mul_cancel₀ hτ, neg_smul, one_smul]
    rw [e] at h1; exact h1
  · intro i
    have h1 := (hG i (lincomb 1 (s.v i) (σ i / 2) (L i w1)) (p2 i)).mp rfl
    have e : (σ i)⁻¹ • (lincomb (1 : ℝ) (s.v i) (σ i / 2) (L i w1) - p2 i) = L i p1 := by
      have : lincomb (1 : ℝ) (s.v i) (σ i / 2) (L i w1) - p2 i = (σ i) • L i p1 := by
        simp only [lincomb, hw1, map_add, map_smul]
        linear_combination (norm := module) hve i
      rw [this, smul_smul, inv_mul_cancel₀ (hσ i), one_smul]
    rw [e] at h1; exact h1
/-- Converse: a KKT pair `(p1, p2)` together with a governing pair `(x, v)` that solves
`x = p1 − τ/2 Σ L_i*(2 p2_i − v_i)`, `v_i = p2_i + σ_i/2 L_i x` is left unchanged by the loop body,
and the body shows exactly `p1` to the callback. -/
theorem C12.douglas_rachford_pd_fixed_point_converse_partial (m : Nat) (hm : m ≠ 0) (L : Nat → X →ₗ[ℝ] Y)
    (Lt : Nat → Y →ₗ[ℝ] X) (proxF : X → X) (proxGc : Nat → Y → Y) (τ lam : ℝ) (σ : Nat → ℝ)
    (hτ : τ ≠ 0) (hσ : ∀ i, σ i ≠ 0) (subF : X → Set X) (subGc : Nat → Y → Set Y)
    (hF : IsProx proxF τ subF) (hG : ∀ i, IsProx (proxGc i) (σ i) (subGc i))
    (zeroV : X) (s : DrS X Y) (p1 : X) (p2 : Nat → Y)
    (hk1 : -(sumAdj (fun i => ⇑(Lt i)) p2 (m - 1)) ∈ subF p1)
    (hk2 : ∀ i, L i p1 ∈ subGc i (p2 i))
    (hgx : s.x = p1 - (τ / 2) • sumAdj (fun i => ⇑(Lt i)) (fun i => lincomb (2 : ℝ) (p2 i) (-(1 : ℝ)) (s.v i)) (m - 1))
    (hgv : ∀ i, s.v i = p2 i + (σ i / 2) • L i s.x) :
    (DrP.step ⟨m, fun i => ⇑(L i), fun i => ⇑(Lt i), proxF, proxGc, τ, σ, lam, none⟩ zeroV s).x = s.x ∧
    (∀ i, (DrP.step ⟨m, fun i => ⇑(L i), fun i => ⇑(Lt i), proxF, proxGc, τ, σ, lam, none⟩ zeroV s).v i = s.v i) ∧
    (DrP.step ⟨m, fun i => ⇑(L i), fun i => ⇑(Lt i), proxF, proxGc, τ, σ, lam, none⟩ zeroV s).p1 = p1 := by
  rw [sumAdj_lin] at hgx
  set Pp := sumAdj (fun i => ⇑(Lt i)) p2 (m - 1) with hPp
  set S := sumAdj (fun i => ⇑(Lt i)) s.v (m - 1) with hS
  -- the proximal step returns p1
  have hp1 : proxF (lincomb (1 : ℝ) s.x (-τ / 2) S) = p1 := by
    apply (hF _ _).mpr
    have : lincomb (1 : ℝ) s.x (-τ / 2) S - p1 = (-τ) • Pp := by
      simp only [lincomb]; linear_combination (norm := module) hgx
    rw [this, smul_smul, mul_neg, inv_mul_cancel₀ hτ, neg_smul, one_smul]; exact hk1
  -- the dual proximal steps return p2
  have hp2 : ∀ i, proxGc i (lincomb (1 : ℝ) (s.v i) (σ i / 2) (L i (lincomb (2 : ℝ) p1 (-(1 : ℝ)) s.x))) = p2 i := by
    intro i
    apply (hG i _ _).mpr
    have : lincomb (1 : ℝ) (s.v i) (σ i / 2) (L i (lincomb (2 : ℝ) p1 (-(1 : ℝ)) s.x)) - p2 i = (σ i) • L i p1 := by
      simp only [lincomb, map_add, map_smul]; linear_combination (norm := module) hgv i
    rw [this, smul_smul, inv_mul_cancel₀ (hσ i), one_smul]; exact hk2 i
  simp only [DrP.step, DrP.half, hm, if_false, ← hS, hp1, hp2]
  rw [sumAdj_lin, ← hPp, ← hS]
  have hz1 : lincomb (1 : ℝ) (lincomb (2 : ℝ) p1 (-(1 : ℝ)) s.x) (-τ / 2) ((2 : ℝ) • Pp + (-(1 : ℝ)) • S) = p1 := by
    simp only [lincomb]; linear_combination (norm := module) (-(1 : ℝ)) • hgx
  rw [hz1]
  have hr1 : lincomb (2 : ℝ) p1 (-(1 : ℝ)) (lincomb (2 : ℝ) p1 (-(1 : ℝ)) s.x) = s.x := by
    simp only [lincomb]; module
  rw [hr1]
  refine ⟨by simp only [lincomb]; module, fun i => ?_, trivial⟩
  simp only [lincomb]; linear_combination (norm := module) (-lam) • hgv i
end

/-- Non-vacuity of `C12.douglas_rachford_pd_fixed_point`: for `f = ½(x−1)²`, `g* = ½v²`, `L = id`,
`τ = σ = lam = 1` the governing pair `(x, v) = (1/3, 2/3)` — not the KKT pair itself — is left
unchanged by the loop body, and the body shows `p1 = 1/2` (the minimiser of `½(x−1)² + ½x²`). -/
example :
    let P : DrP ℝ ℝ ℝ := ⟨1, fun _ x => x, fun _ y => y, fun v => (v + 1) / 2, fun _ w => w / 2, 1,
      fun _ => 1, 1, none⟩
    let s : DrS ℝ ℝ := ⟨1 / 3, fun _ => 2 / 3, 0, []⟩
    (P.step 0 s).x = s.x ∧ (∀ i, (P.step 0 s).v i = s.v i) ∧ (P.half s).1 = 1 / 2 := by
  simp only [DrP.step, DrP.half, sumAdj, lincomb, smul_eq_mul, Nat.one_ne_zero, if_false,
    Nat.sub_self]
  refine ⟨by norm_num, fun i => by norm_num, by norm_num⟩

/-! ### F12: `forward_backward_pd` as coded does not contract on bilinear problems -/

/-- F12 on the model: for the code AS IT IS (`x_old` aliased to the iterate) the quadratic form
`σ (x−x*)² + τ v² − σ τ c (x−x*) v` is INVARIANT under the loop body on the bilinear problem
`min ind_{b}(c x)` — for all `c, b, τ, σ` and every state.  (It is positive definite when
`σ τ c² < 4`, in particular under the step condition `τ σ c² < 1`: the state moves on an
ellipse around the solution and never approaches it.) -/
theorem C12.forward_backward_pd_aliased_not_contracting {K : Type} [Field K] (c b τ σ xs : K)
    (hxs : c * xs = b) (s : FbpdS K K) :
    fbpdQ c τ σ xs ((fbpdBilinear c b τ σ).step fbpdXOldAliased s) = fbpdQ c τ σ xs s := by
  subst hxs
  simp only [fbpdQ, fbpdBilinear, FbpdP.step, fbpdXOldAliased, sumAdj, lincomb, smul_eq_mul, id,
    if_true, Nat.one_ne_zero, if_false, Nat.sub_self]
  ring

/-- …hence along the whole run, for every `n`. -/
theorem C12.forward_backward_pd_aliased_invariant_run {K : Type} [Field K] (c b τ σ xs : K)
    (hxs : c * xs = b) (s : FbpdS K K) (n : Nat) :
    fbpdQ c τ σ xs (((fbpdBilinear c b τ σ).step fbpdXOldAliased)^[n] s) = fbpdQ c τ σ xs s := by
  induction n generalizing s with
  | zero => rfl
  | succ n ih =>
    rw [Function.iterate_succ_apply, ih, C12.forward_backward_pd_aliased_not_contracting c b τ σ xs hxs]

/-- A run that does not start at the solution never reaches it (`x = x*`, `v = 0`): the coded
iteration cannot converge on this problem, whatever the (non-zero) steps. -/
theorem C12.forward_backward_pd_aliased_never_optimal {K : Type} [Field K] (c b τ σ xs : K)
    (hxs : c * xs = b) (s : FbpdS K K) (h0 : fbpdQ c τ σ xs s ≠ 0) (n : Nat) :
    ¬ ((((fbpdBilinear c b τ σ).step fbpdXOldAliased)^[n] s).x = xs ∧
       (((fbpdBilinear c b τ σ).step fbpdXOldAliased)^[n] s).v 0 = 0) := by
  rintro ⟨h1, h2⟩
  apply h0
  rw [← C12.forward_backward_pd_aliased_invariant_run c b τ σ xs hxs s n]
  simp only [fbpdQ, h1, h2]; ring

/-- The DOCUMENTED iteration (`x_old` copied, `aliased = false`) on the same problem is a
proximal-point step in the metric `N`: `N(z⁺) = N(z) − N(z⁺ − z)` with `z = (x − x*, v)`;
`N` is positive definite when `τ σ c² < 1`, so the distance to the solution strictly
decreases unless the state is already fixed. -/
theorem C12.forward_backward_pd_documented_contracts {K : Type} [Field K] (c b τ σ xs : K)
    (hxs : c * xs = b) (s : FbpdS K K) :
    let t := (fbpdBilinear c b τ σ).step false s
    fbpdN c τ σ (t.x - xs) (t.v 0) =
      fbpdN c τ σ (s.x - xs) (s.v 0) - fbpdN c τ σ (t.x - s.x) (t.v 0 - s.v 0) := by
  subst hxs
  simp only [fbpdN, fbpdBilinear, FbpdP.step, sumAdj, lincomb, smul_eq_mul, id,
    Nat.one_ne_zero, if_false, Nat.sub_self, Bool.false_eq_true]
  ring

/-- Under `0 < σ`, `0 < τ`, `σ τ c² < 4` (weaker than the step condition `τ σ c² < 1`) the
invariant is positive definite, so: a run of the coded iteration that does not START at the
solution is, after every number of iterations, still not EXACTLY at the solution (the quantitative
statement is `C12.forward_backward_pd_aliased_distance_lower_bound`). -/
theorem C12.forward_backward_pd_aliased_never_at_solution {K : Type} [Field K] [LinearOrder K]
    [IsStrictOrderedRing K] (c b τ σ xs : K) (hxs : c * xs = b) (hσ : 0 < σ) (hτ : 0 < τ)
    (hstep : σ * τ * c ^ 2 < 4) (s : FbpdS K K) (h0 : s.x ≠ xs ∨ s.v 0 ≠ 0) (n : Nat) :
    ¬ ((((fbpdBilinear c b τ σ).step fbpdXOldAliased)^[n] s).x = xs ∧
       (((fbpdBilinear c b τ σ).step fbpdXOldAliased)^[n] s).v 0 = 0) := by
  apply C12.forward_backward_pd_aliased_never_optimal c b τ σ xs hxs s
  intro hq
  simp only [fbpdQ] at hq
  set e := s.x - xs with he
  set v := s.v 0 with hv
  -- Q = σ (e − τ c v / 2)² + τ (1 − σ τ c² / 4) v²
  have hsq : σ * (e - τ * c * v / 2) ^ 2 + τ * (1 - σ * τ * c ^ 2 / 4) * v ^ 2 = 0 := by
    rw [← hq]; ring
  have h1 : 0 ≤ σ * (e - τ * c * v / 2) ^ 2 := mul_nonneg hσ.le (sq_nonneg _)
  have hk : 0 < τ * (1 - σ * τ * c ^ 2 / 4) := mul_pos hτ (by linarith)
  have h2 : 0 ≤ τ * (1 - σ * τ * c ^ 2 / 4) * v ^ 2 := mul_nonneg hk.le (sq_nonneg _)
  have hv0 : v = 0 := by
    have : τ * (1 - σ * τ * c ^ 2 / 4) * v ^ 2 = 0 := by linarith
    rcases mul_eq_zero.mp this with h | h
    · exact absurd h (ne_of_gt hk)
    · exact pow_eq_zero_iff (two_ne_zero) |>.mp h
  have he0 : e = 0 := by
    have : σ * (e - τ * c * v / 2) ^ 2 = 0 := by linarith
    rcases mul_eq_zero.mp this with h | h
    · exact absurd h (ne_of_gt hσ)
    · have := pow_eq_zero_iff (two_ne_zero) |>.mp h
      rw [hv0] at this; simpa using this
  rcases h0 with h | h
  · exact h (sub_eq_zero.mp he0)
  · exact h hv0


/-- Uniform lower bound on the distance to the solution for the CODED `forward_backward_pd` step
on the bilinear problem: for every `n`, with `e = x_n − x*`, `v = v_n`,
`Q(s₀) ≤ (σ + τ + σ τ |c|) · max(e², v²)`; as `Q(s₀) > 0` for every start other than the solution
(`σ τ c² < 4`), the iterates stay outside a fixed neighbourhood of the solution: no convergence. -/
theorem C12.forward_backward_pd_aliased_distance_lower_bound {K : Type} [Field K] [LinearOrder K]
    [IsStrictOrderedRing K] (c b τ σ xs : K) (hxs : c * xs = b) (hσ : 0 ≤ σ) (hτ : 0 ≤ τ)
    (s : FbpdS K K) (n : Nat) :
    let t := ((fbpdBilinear c b τ σ).step fbpdXOldAliased)^[n] s
    fbpdQ c τ σ xs s ≤ (σ + τ + σ * τ * |c|) * max ((t.x - xs) ^ 2) ((t.v 0) ^ 2) := by
  intro t
  rw [← C12.forward_backward_pd_aliased_invariant_run c b τ σ xs hxs s n]
  show fbpdQ c τ σ xs t ≤ _
  simp only [fbpdQ]
  set e := t.x - xs
  set v := t.v 0
  set M := max (e ^ 2) (v ^ 2) with hM
  have he : e ^ 2 ≤ M := le_max_left _ _
  have hv : v ^ 2 ≤ M := le_max_right _ _
  have hM0 : 0 ≤ M := le_trans (sq_nonneg e) he
  have hev : |e * v| ≤ M := by
    rw [abs_mul]
    have h1 : |e| * |v| ≤ (|e| ^ 2 + |v| ^ 2) / 2 := by nlinarith [sq_nonneg (|e| - |v|)]
    rw [sq_abs, sq_abs] at h1; linarith
  have hcev : -(σ * τ * c * e * v) ≤ σ * τ * |c| * M := by
    have h1 : -(c * (e * v)) ≤ |c| * |e * v| := by
      rw [← abs_mul]; exact neg_le_abs (c * (e * v))
    have h2 : |c| * |e * v| ≤ |c| * M := mul_le_mul_of_nonneg_left hev (abs_nonneg c)
    have hst : 0 ≤ σ * τ := mul_nonneg hσ hτ
    nlinarith
  nlinarith [mul_le_mul_of_nonneg_left he hσ, mul_le_mul_of_nonneg_left hv hτ]

/-- Concrete history over ℚ (`c = b = 1`, `τ = σ = 1/2`, start `x = 3`, `v = 0`; solution `x* = 1`):
the coded step gives `x = 3, 5/2, 13/8` after 1, 2, 3 iterations, and after 12 iterations the
invariant still has its initial value `2` (so `(x − 1, v)` is still on the same ellipse). -/
example :
    let P := fbpdBilinear (1 : ℚ) 1 (1 / 2) (1 / 2)
    let s0 : FbpdS ℚ ℚ := ⟨3, fun _ => 0, 0⟩
    ((P.step fbpdXOldAliased)^[3] s0).x = 13 / 8 ∧
    fbpdQ 1 (1 / 2) (1 / 2) 1 ((P.step fbpdXOldAliased)^[12] s0) = 2 ∧
    fbpdQ 1 (1 / 2) (1 / 2) 1 s0 = 2 := by
  refine ⟨?_, ?_, by simp only [fbpdQ]; norm_num⟩
  · simp only [Function.iterate_succ, Function.iterate_zero, Function.comp, fbpdBilinear,
      FbpdP.step, fbpdXOldAliased, Nat.sub_self, sumAdj, lincomb, smul_eq_mul, id,
      Nat.one_ne_zero, if_false, if_true]
    norm_num
  · rw [C12.forward_backward_pd_aliased_invariant_run 1 1 (1 / 2) (1 / 2) 1 (by norm_num)]
    simp only [fbpdQ]; norm_num

/-! ### Executed definitions: FISTA momentum, Douglas–Rachford call, MLEM/OSMLEM, given steps -/

/-- FISTA momentum of the executed `accStep` (with `sqrt = Real.sqrt`): for every state, the new
`t' = (1 + √(1 + 4t²))/2` satisfies the Beck–Teboulle identity `t'² − t' = t²` and `t' ≥ 1`; and for
`t ≥ 1` (true along every run, which starts at `t = 1`) the extrapolation weight
`α = (t − 1)/t'` lies in `[0, 1)`. -/
theorem C12.fista_momentum_identity {X : Type} [AddCommGroup X] [Module ℝ X]
    (P : ProxGradP ℝ X) (s : AccProxGradS ℝ X) :
    let t' := (P.accStep Real.sqrt s).t
    t' ^ 2 - t' = s.t ^ 2 ∧ 1 ≤ t' ∧ (1 ≤ s.t → 0 ≤ (s.t - 1) / t' ∧ (s.t - 1) / t' < 1 ∧ s.t ≤ t') := by
  intro t'
  have ht' : t' = (1 + Real.sqrt (1 + 4 * (s.t * s.t))) / 2 := rfl
  have h0 : (0 : ℝ) ≤ 1 + 4 * (s.t * s.t) := by nlinarith [mul_self_nonneg s.t]
  have hsq := Real.mul_self_sqrt h0
  have hr0 := Real.sqrt_nonneg (1 + 4 * (s.t * s.t))
  set r := Real.sqrt (1 + 4 * (s.t * s.t)) with hr
  have hr1 : 1 ≤ r := by
    have : (1 : ℝ) ≤ r * r := by rw [hsq]; nlinarith [mul_self_nonneg s.t]
    nlinarith
  refine ⟨by rw [ht']; nlinarith, by rw [ht']; linarith, fun h1 => ?_⟩
  have hrt : 2 * s.t ≤ r := by
    have : (2 * s.t) * (2 * s.t) ≤ r * r := by rw [hsq]; nlinarith
    nlinarith [abs_le_of_sq_le_sq' (by nlinarith : (2 * s.t) ^ 2 ≤ r ^ 2) hr0]
  have hpos : 0 < t' := by rw [ht']; linarith
  have hle : s.t ≤ t' := by rw [ht']; linarith
  refine ⟨div_nonneg (by linarith) hpos.le, ?_, hle⟩
  rw [div_lt_one hpos]; linarith

/-- along every run of FISTA from `accInit` (`t = 1`): `t ≥ 1` after every number of iterations -/
theorem C12.fista_t_ge_one {X : Type} [AddCommGroup X] [Module ℝ X] (P : ProxGradP ℝ X)
    (x0 junk : X) (n : Nat) : 1 ≤ ((P.accStep Real.sqrt)^[n] (P.accInit x0 junk)).t := by
  apply iterate_inv (P.accStep Real.sqrt) (fun s => 1 ≤ s.t) _ n _ (by simp [ProxGradP.accInit])
  intro s _; exact (C12.fista_momentum_identity P s).2.1

/-- `pdhg_stepsize` / `douglas_rachford_pd_stepsize` with BOTH steps given return them as they are
(no validation, no norm estimate is computed), for every norm argument. -/
theorem C12.stepsize_given_returned_as_is (sqrt : ℝ → ℝ) (Lnorm t s : ℝ) (norms sig : List ℝ) :
    pdhgStepsize sqrt Lnorm (some t) (some s) = (t, s) ∧
    drStepsize norms (some t) (some sig) = (t, sig) := ⟨rfl, rfl⟩

/-- `douglas_rachford_pd` as executed (`DrP.run`, any number of operators, with or without the `l`
terms, all parameters arbitrary): a call with `niter = n + 1` invokes the callback exactly `n + 1`
times, the last callback sees the proximal point `p1` of the last iteration, and THAT point is what
the call returns in `x` (the early `x.assign(p1); return` of the last iteration) — not the governing
iterate the loop works with. -/
theorem C12.douglas_rachford_pd_run_returns_last_callback {K V W : Type} [Field K] [AddCommGroup V]
    [Module K V] [AddCommGroup W] [Module K W] (P : DrP K V W) (z : V) (s : DrS V W) (n : Nat) :
    (P.run z (n + 1) s).log.length = s.log.length + (n + 1) ∧
    (P.run z (n + 1) s).log.getLast? = some (P.run z (n + 1) s).x ∧
    (P.run z (n + 1) s).x = (P.half ((P.step z)^[n] s)).1 := by
  have hlen : ((P.step z)^[n] s).log.length = s.log.length + n * 1 :=
    iterate_count (P.step z) (fun s => s.log.length) 1 (fun s => by simp [dr_step_log]) n s
  simp only [DrP.run, DrP.last, iter_eq]
  refine ⟨by simp [hlen]; ring, by simp, trivial⟩

/-- `niter = 0`: nothing happens. -/
theorem C12.douglas_rachford_pd_run_zero {K V W : Type} [Field K] [AddCommGroup V] [Module K V]
    [AddCommGroup W] [Module K W] (P : DrP K V W) (z : V) (s : DrS V W) : P.run z 0 s = s := rfl

/-- MLEM / OSMLEM (any number of subsets): a point that reproduces the data of every subset,
`clamp(A_i x) = g_i`, is a FIXED POINT of the executed iteration — provided the entry-wise
operations behave as such on the quantities that occur (`g/g = 1`, `A_i* 1 = s_i`, `s/s = 1`,
`x · 1 = x`: the leaf hypotheses; they hold for positive data and the default sensitivities). -/
theorem C12.osmlem_consistent_fixed_point {V W : Type} (P : OsmlemP V W) (x : V) (oneW : W) (oneV : V)
    (hdata : ∀ i, P.clampW (P.op i x) = P.data i)
    (hdiv : ∀ i, P.divW (P.data i) (P.data i) = oneW)
    (hsens : ∀ i, P.opAdj i oneW = P.sens i)
    (hdivV : ∀ i, P.divV (P.sens i) (P.sens i) = oneV)
    (hmul : P.mulV x oneV = x) (s : OsmlemS V W) (hs : s.x = x) (n : Nat) :
    (P.step^[n] s).x = x := by
  apply iterate_inv P.step (fun s => s.x = x) _ n s hs
  intro t ht
  apply forRange_inv P.inner (fun s => s.x = x) _ P.nOps t ht
  intro i a ha
  simp only [OsmlemP.inner, ha, hdata, hdiv, hsens, hdivV, hmul]

/-- Non-vacuity on `ℚ` (one subset, `A = 2·`, data `6`, sensitivity `A*1 = 2`): `x = 3` is consistent
and stays fixed, while `x = 1` moves to `3` in one iteration (MLEM is exact here). -/
example :
    let P : OsmlemP ℚ ℚ := ⟨1, fun _ x => 2 * x, fun _ y => 2 * y, fun _ => 6, fun _ => 2,
      fun t => if t < 1 / 100000000 then 1 / 100000000 else t, fun a b => a / b, fun a b => a / b,
      fun a b => a * b⟩
    (P.step^[5] ⟨3, 0, fun _ => 0, []⟩).x = 3 ∧ (P.step^[1] ⟨1, 0, fun _ => 0, []⟩).x = 3 := by
  constructor
  · apply C12.osmlem_consistent_fixed_point _ 3 1 1 <;> intros <;> norm_num
  · simp only [Function.iterate_succ, Function.iterate_zero, Function.comp, OsmlemP.step, forRange,
      List.range, List.range.loop, List.foldl, OsmlemP.inner]
    norm_num

/-! ### Non-vacuity -/

/-- Non-vacuity of the operator hypotheses (Landweber, Kaczmarz, CGN, power method): on
`E = F = ℝ` take `A = At = 2·`, `c = 2`, `ω = 1/4`. -/
example : ∃ (A At : ℝ →ₗ[ℝ] ℝ) (c ω : ℝ), AdjPair A At ∧ 0 ≤ c ∧ (∀ u, ‖A u‖ ≤ c * ‖u‖) ∧
    (∀ w, ‖At w‖ ≤ c * ‖w‖) ∧ 0 < ω ∧ ω * c ^ 2 ≤ 2 ∧ A 1 ≠ 0 := by
  refine ⟨(2 : ℝ) • LinearMap.id, (2 : ℝ) • LinearMap.id, 2, 1 / 4, ?_, by norm_num, ?_, ?_,
    by norm_num, by norm_num, by simp⟩
  · intro x y; simp only [LinearMap.smul_apply, LinearMap.id_apply, smul_eq_mul, Real.inner_apply]
    ring
  · intro u; simp
  · intro u; simp

/-- Non-vacuity for CG: `A = 2·` on `ℝ` is symmetric, positive, and `A 3 = 6`. -/
example : ∃ (A : ℝ →ₗ[ℝ] ℝ) (b xs : ℝ), (∀ u v, ⟪A u, v⟫ = ⟪u, A v⟫) ∧ (∀ u, 0 ≤ ⟪u, A u⟫) ∧
    A xs = b ∧ b ≠ 0 := by
  refine ⟨(2 : ℝ) • LinearMap.id, 6, 3, ?_, ?_, by simp; norm_num, by norm_num⟩
  · intro u v; simp only [LinearMap.smul_apply, LinearMap.id_apply, smul_eq_mul, Real.inner_apply]
    ring
  · intro u; simp only [LinearMap.smul_apply, LinearMap.id_apply, smul_eq_mul, Real.inner_apply]
    nlinarith [sq_nonneg u]

/-- Non-vacuity of `IsProx`: `v ↦ v/2` is the proximal map of `½|·|²` with step 1
(`∂f(p) = {p}`), and the identity that of `f = 0` (`∂f(p) = {0}`) for every step `τ ≠ 0`. -/
example : IsProx (fun v : ℝ => v / 2) 1 (fun p => {p}) ∧
    ∀ τ : ℝ, τ ≠ 0 → IsProx (fun v : ℝ => v) τ (fun _ => {0}) := by
  constructor
  · intro v p
    simp only [inv_one, one_smul, Set.mem_singleton_iff]
    constructor <;> intro h <;> linarith
  · intro τ hτ v p
    simp only [Set.mem_singleton_iff, smul_eq_mul, mul_eq_zero, inv_eq_zero, hτ, false_or]
    constructor <;> intro h <;> linarith

/-- Non-vacuity of the line-search theorem: for `f(x) = x²` at `x = 1`, direction `-2`,
directional derivative `-4`, the model returns the step `1/2` after one backtracking. -/
example : backtracking (fun x : ℚ => x * x) (1 / 2) (1 / 100) 10 1 (-2) (-4) = some (1 / 2) := by
  simp only [backtracking, btLoop, lincomb, absK, smul_eq_mul]
  norm_num

/-! ## ROUND 4: convergence of Landweber, full Krylov argument for CG, monotone power-method estimates -/

section
variable {E F : Type} [NormedAddCommGroup E] [InnerProductSpace ℝ E]
  [NormedAddCommGroup F] [InnerProductSpace ℝ F]

/-- Landweber, error CONTRACTION per executed loop body (no projection): for `A` bounded above by `c`
and BELOW by `μ` (`μ ‖u‖ ≤ ‖A u‖`: `A` injective with smallest singular value `≥ μ`), `0 ≤ ω ≤ 2/c²`,
and `x*` a solution of the NORMAL equations `A*(A x* − b) = 0` (a least-squares solution; the system
need not be consistent), one loop body of `landweber` from ANY state gives
`‖x⁺ − x*‖² ≤ (1 − ω (2 − ω c²) μ²) ‖x − x*‖²`. -/
theorem C12.landweber_error_contraction (A : E →ₗ[ℝ] F) (At : F →ₗ[ℝ] E) (hadj : AdjPair A At)
    (c μ : ℝ) (hc0 : 0 ≤ c) (hc : ∀ u, ‖A u‖ ≤ c * ‖u‖) (hμ0 : 0 ≤ μ) (hμ : ∀ u, μ * ‖u‖ ≤ ‖A u‖)
    (b : F) (ω : ℝ) (h0 : 0 ≤ ω) (h1 : ω * c ^ 2 ≤ 2) (xs : E) (hxs : At (A xs - b) = 0)
    (s : LandweberS E F) :
    ‖(LandweberP.step ⟨A, fun _ => At, b, ω, none⟩ s).x - xs‖ ^ 2 ≤
      (1 - ω * (2 - ω * c ^ 2) * μ ^ 2) * ‖s.x - xs‖ ^ 2 := by
  set e := s.x - xs with he
  have hx : (LandweberP.step ⟨A, fun _ => At, b, ω, none⟩ s).x - xs = e - ω • At (A e) := by
    have h2 : At (A s.x - b) = At (A e) := by
      have : A s.x - b = A e + (A xs - b) := by rw [he, map_sub]; abel
      rw [this, map_add, hxs, add_zero]
    simp only [LandweberP.step, applyProj, lincomb, h2]; module
  rw [hx, norm_sub_sq_real, norm_smul, inner_smul_right, ← hadj e (A e),
    real_inner_self_eq_norm_sq, mul_pow, Real.norm_eq_abs, sq_abs]
  have hb := adj_bound A At hadj c hc0 hc (A e)
  have hb2 : ‖At (A e)‖ ^ 2 ≤ c ^ 2 * ‖A e‖ ^ 2 := by
    have := mul_self_le_mul_self (norm_nonneg _) hb
    nlinarith
  have hm2 : μ ^ 2 * ‖e‖ ^ 2 ≤ ‖A e‖ ^ 2 := by
    have := mul_self_le_mul_self (mul_nonneg hμ0 (norm_nonneg e)) (hμ e)
    nlinarith
  have hk : 0 ≤ ω * (2 - ω * c ^ 2) := mul_nonneg h0 (by linarith)
  nlinarith [mul_le_mul_of_nonneg_left hb2 (mul_nonneg h0 h0), mul_le_mul_of_nonneg_left hm2 hk]

/-- Landweber CONVERGES, linearly: with `0 < ω < 2/c²` and `0 < μ ≤ c` the factor
`q = 1 − ω (2 − ω c²) μ²` lies in `[0, 1)`, the iterates of the executed loop satisfy
`‖x_n − x*‖² ≤ qⁿ ‖x_0 − x*‖²` for all `n`, and `x_n → x*` (the unique least-squares solution).
A genuine convergence theorem (all dimensions, all starts) for `LandweberP.step`, the state
machine that the C11/C12 tie compares with `odl.solvers.landweber`. -/
theorem C12.landweber_converges_linearly (A : E →ₗ[ℝ] F) (At : F →ₗ[ℝ] E) (hadj : AdjPair A At)
    (c μ : ℝ) (hc : ∀ u, ‖A u‖ ≤ c * ‖u‖) (hμ0 : 0 < μ) (hμc : μ ≤ c) (hμ : ∀ u, μ * ‖u‖ ≤ ‖A u‖)
    (b : F) (ω : ℝ) (h0 : 0 < ω) (h1 : ω * c ^ 2 < 2) (xs : E) (hxs : At (A xs - b) = 0)
    (s : LandweberS E F) :
    let q := 1 - ω * (2 - ω * c ^ 2) * μ ^ 2
    0 ≤ q ∧ q < 1 ∧
    (∀ n, ‖((LandweberP.step ⟨A, fun _ => At, b, ω, none⟩)^[n] s).x - xs‖ ^ 2 ≤ q ^ n * ‖s.x - xs‖ ^ 2) ∧
    Filter.Tendsto (fun n => ((LandweberP.step ⟨A, fun _ => At, b, ω, none⟩)^[n] s).x) Filter.atTop (nhds xs) := by
  intro q
  have hc0 : 0 ≤ c := le_trans hμ0.le hμc
  have hq0 : 0 ≤ q := by
    have hk : 0 ≤ ω * (2 - ω * c ^ 2) := mul_nonneg h0.le (by linarith)
    have hmc : μ ^ 2 ≤ c ^ 2 := by nlinarith
    have := mul_le_mul_of_nonneg_left hmc hk
    show 0 ≤ 1 - ω * (2 - ω * c ^ 2) * μ ^ 2
    nlinarith [sq_nonneg (ω * c ^ 2 - 1)]
  have hq1 : q < 1 := by
    have : 0 < ω * (2 - ω * c ^ 2) * μ ^ 2 := by
      have : 0 < 2 - ω * c ^ 2 := by linarith
      positivity
    show 1 - ω * (2 - ω * c ^ 2) * μ ^ 2 < 1
    linarith
  have hn : ∀ n, ‖((LandweberP.step ⟨A, fun _ => At, b, ω, none⟩)^[n] s).x - xs‖ ^ 2 ≤ q ^ n * ‖s.x - xs‖ ^ 2 := by
    intro n
    induction n with
    | zero => simp
    | succ n ih =>
      rw [Function.iterate_succ_apply']
      have := C12.landweber_error_contraction A At hadj c μ hc0 hc hμ0.le hμ b ω h0.le h1.le xs hxs
        ((LandweberP.step ⟨A, fun _ => At, b, ω, none⟩)^[n] s)
      calc _ ≤ q * ‖((LandweberP.step ⟨A, fun _ => At, b, ω, none⟩)^[n] s).x - xs‖ ^ 2 := this
        _ ≤ q * (q ^ n * ‖s.x - xs‖ ^ 2) := mul_le_mul_of_nonneg_left ih hq0
        _ = q ^ (n + 1) * ‖s.x - xs‖ ^ 2 := by ring
  refine ⟨hq0, hq1, hn, ?_⟩
  rw [tendsto_iff_norm_sub_tendsto_zero]
  have hsq : Filter.Tendsto (fun n => ‖((LandweberP.step ⟨A, fun _ => At, b, ω, none⟩)^[n] s).x - xs‖ ^ 2)
      Filter.atTop (nhds 0) := by
    have hg : Filter.Tendsto (fun n : ℕ => q ^ n * ‖s.x - xs‖ ^ 2) Filter.atTop (nhds 0) := by
      have := (tendsto_pow_atTop_nhds_zero_of_lt_one hq0 hq1).mul_const (‖s.x - xs‖ ^ 2)
      simpa using this
    exact squeeze_zero (fun n => sq_nonneg _) hn hg
  have := (Real.continuous_sqrt.tendsto 0).comp hsq
  simpa [Function.comp_def, Real.sqrt_sq (norm_nonneg _)] using this

/-- Non-vacuity of the Landweber convergence hypotheses: `A = At = 2·` on `ℝ`, `c = 2`, `μ = 1`,
`ω = 1/4`, `b = 6`, `x* = 3`: the contraction factor is `3/4`. -/
example : ∃ (A At : ℝ →ₗ[ℝ] ℝ) (c μ ω b xs : ℝ), AdjPair A At ∧ (∀ u, ‖A u‖ ≤ c * ‖u‖) ∧ 0 < μ ∧
    μ ≤ c ∧ (∀ u, μ * ‖u‖ ≤ ‖A u‖) ∧ 0 < ω ∧ ω * c ^ 2 < 2 ∧ At (A xs - b) = 0 ∧
    1 - ω * (2 - ω * c ^ 2) * μ ^ 2 = 3 / 4 := by
  refine ⟨(2 : ℝ) • LinearMap.id, (2 : ℝ) • LinearMap.id, 2, 1, 1 / 4, 6, 3, ?_, ?_, by norm_num,
    by norm_num, ?_, by norm_num, by norm_num, ?_, by norm_num⟩
  · intro x y; simp only [LinearMap.smul_apply, LinearMap.id_apply, smul_eq_mul, Real.inner_apply]
    ring
  · intro u; simp
  · intro u; simp only [LinearMap.smul_apply, LinearMap.id_apply, smul_eq_mul, norm_mul,
      Real.norm_ofNat]; nlinarith [norm_nonneg u]
  · simp only [LinearMap.smul_apply, LinearMap.id_apply, smul_eq_mul]; norm_num

/-- `power_method_opnorm`, branch `op.adjoint is op`, for a SYMMETRIC operator (no definiteness
needed): from the first loop body on, the sequence of estimates `‖A x_k‖` is monotonically
NON-DECREASING in the number of loop bodies — whatever the zero / closeness tests answer (after a
`break` or a raise the state, hence the estimate, no longer changes).  Together with
`C12.power_method_selfadjoint_le_opnorm`: the estimates increase towards, and never exceed, `‖A‖`;
they may stall below it (F21).  The estimate BEFORE the first loop body is `‖xstart‖` (code as it
is) and is not part of the monotone sequence. -/
theorem C12.power_method_selfadjoint_estimate_mono (A : E →ₗ[ℝ] E)
    (hsym : ∀ u v, ⟪A u, v⟫ = ⟪u, A v⟫) (isZero : ℝ → Bool)
    (hz : ∀ k, k = 0 → isZero k = true) (isClose : ℝ → ℝ → Bool) (x0 : E) (n : Nat) :
    ((powerSelfReal A isZero isClose).step^[n + 1] ((powerSelfReal A isZero isClose).init x0)).opnorm ≤
      ((powerSelfReal A isZero isClose).step^[n + 2] ((powerSelfReal A isZero isClose).init x0)).opnorm := by
  have hs := powerSelf_mono_step A hsym isZero hz isClose
  have hJ : PowerMonoInv (fun x => ‖A x‖)
      ((powerSelfReal A isZero isClose).step^[n + 1] ((powerSelfReal A isZero isClose).init x0)) := by
    rw [Function.iterate_succ_apply]
    apply iterate_inv _ (PowerMonoInv (fun x => ‖A x‖)) _ n _
      ((hs _).1 (powerSelf_init_inv A isZero hz isClose x0))
    intro s h
    exact (hs s).1 (fun hf hd => (h hf hd).1)
  rw [Function.iterate_succ_apply' (n := n + 1)]
  exact (hs _).2 hJ

/-- The same for the general branch (`op.adjoint is not op`, iteration on `A* A`, estimate
`√‖A* A x_k‖`): for every operator with an adjoint (`AdjPair`), the estimates after `n+1` and
`n+2` loop bodies (`maxiter = 2(n+1)`, `2(n+2)`) are ordered, for all `n`, all starts. -/
theorem C12.power_method_estimate_mono (A : E →ₗ[ℝ] F) (At : F →ₗ[ℝ] E) (hadj : AdjPair A At)
    (isZero : ℝ → Bool) (hz : ∀ k, k = 0 → isZero k = true) (isClose : ℝ → ℝ → Bool) (x0 : E) (n : Nat) :
    ((powerReal A At isZero isClose).stepNormal^[n + 1] ((powerReal A At isZero isClose).init x0)).opnorm ≤
      ((powerReal A At isZero isClose).stepNormal^[n + 2] ((powerReal A At isZero isClose).init x0)).opnorm := by
  have hs := power_mono_step A At hadj isZero hz isClose
  have hJ : PowerMonoInv (fun x => Real.sqrt ‖At (A x)‖)
      ((powerReal A At isZero isClose).stepNormal^[n + 1] ((powerReal A At isZero isClose).init x0)) := by
    rw [Function.iterate_succ_apply]
    apply iterate_inv _ (PowerMonoInv (fun x => Real.sqrt ‖At (A x)‖)) _ n _
      ((hs _).1 (power_init_inv A At isZero hz isClose x0))
    intro s h
    exact (hs s).1 (fun hf hd => (h hf hd).1)
  rw [Function.iterate_succ_apply' (n := n + 1)]
  exact (hs _).2 hJ

/-- Non-vacuity: `A = 2·` on `ℝ` is symmetric; with tests that never fire the estimates are ordered. -/
example (x0 : ℝ) (n : Nat) :
    let P := powerSelfReal ((2 : ℝ) • LinearMap.id) (fun k => decide (k = 0)) (fun _ _ => false)
    (P.step^[n + 1] (P.init x0)).opnorm ≤ (P.step^[n + 2] (P.init x0)).opnorm :=
  C12.power_method_selfadjoint_estimate_mono _ (fun u v => by
    simp only [LinearMap.smul_apply, LinearMap.id_apply, smul_eq_mul, Real.inner_apply]; ring)
    _ (fun k hk => by simp [hk]) _ x0 n

end

section
variable {E : Type} [NormedAddCommGroup E] [InnerProductSpace ℝ E]

/-- `conjugate_gradient`, the full Krylov relations (this replaces the "consecutive only" of
`C12.cg_exact_after_dim_partial`): for a symmetric `A`, as long as the first `n` loop bodies are
executed completely (not stopped, `⟪p, A p⟫ ≠ 0`, `r ≠ 0`), ALL residuals `r_0 … r_n` of the
executed state machine are mutually orthogonal and ALL directions `p_0 … p_n` are mutually
`A`-conjugate. -/
theorem C12.cg_all_directions_conjugate (A : E →ₗ[ℝ] E) (hsym : ∀ u v, ⟪A u, v⟫ = ⟪u, A v⟫)
    (b x0 junk : E) (n : Nat)
    (hrun : ∀ k < n, ((cgReal A b).step^[k] ((cgReal A b).init x0 junk)).stopped = false ∧
      ⟪((cgReal A b).step^[k] ((cgReal A b).init x0 junk)).p,
        A ((cgReal A b).step^[k] ((cgReal A b).init x0 junk)).p⟫ ≠ 0 ∧
      ((cgReal A b).step^[k] ((cgReal A b).init x0 junk)).sqnormROld ≠ 0) :
    ∀ j ≤ n, ∀ i < j,
      ⟪((cgReal A b).step^[j] ((cgReal A b).init x0 junk)).r,
        ((cgReal A b).step^[i] ((cgReal A b).init x0 junk)).r⟫ = 0 ∧
      ⟪((cgReal A b).step^[j] ((cgReal A b).init x0 junk)).p,
        A ((cgReal A b).step^[i] ((cgReal A b).init x0 junk)).p⟫ = 0 := by
  set S : ℕ → CgS ℝ E := fun k => (cgReal A b).step^[k] ((cgReal A b).init x0 junk) with hS
  have hsucc : ∀ k, S (k + 1) = (cgReal A b).step (S k) := fun k =>
    Function.iterate_succ_apply' _ _ _
  have hinv : ∀ k, CgInv2 A b (S k) := fun k =>
    iterate_inv (cgReal A b).step (CgInv2 A b) (cg_inv2_step A hsym b) k _ (cg_init_inv2 A b x0 junk)
  exact cg_all_conj_abstract A hsym (fun k => (S k).r) (fun k => (S k).p)
    (fun k => (S k).sqnormROld / ⟪(S k).p, A (S k).p⟫)
    (fun k => ‖(S (k + 1)).r‖ ^ 2 / (S k).sqnormROld) n
    (fun k hk => by
      show (S (k + 1)).r = _
      rw [hsucc]; exact (cg_step_eqs A b (S k) (hrun k hk).1 (hrun k hk).2.1).1)
    (fun k hk => by
      show (S (k + 1)).p = _
      rw [hsucc]; exact (cg_step_eqs A b (S k) (hrun k hk).1 (hrun k hk).2.1).2.1)
    (by show (S 0).p = (S 0).r; simp only [hS, Function.iterate_zero, id, CgP.init, cgReal])
    (fun k hk => div_ne_zero (hrun k hk).2.2 (hrun k hk).2.1)
    (fun k hk => by
      have := (cg_step2 A hsym b (S k) (hinv k) (hrun k hk).1 (hrun k hk).2.1 (hrun k hk).2.2).2
      show ⟪(S (k + 1)).r, (S k).r⟫ = 0 ∧ ⟪(S (k + 1)).p, A (S k).p⟫ = 0
      rw [hsucc]; exact ⟨this.1, this.2.2⟩)

/-- `conjugate_gradient` IS EXACT AFTER DIMENSION-MANY STEPS: on a finite-dimensional space, for a
symmetric positive definite `A`, every start `x0` and every right-hand side, the iterate of the
executed loop after `n ≥ dim E` loop bodies solves `A x = b` (in exact arithmetic; `n + 1`
non-zero mutually orthogonal residuals cannot exist for `n ≥ dim E`, a zero residual persists, and
a `return` only happens at a zero residual). -/
theorem C12.cg_exact_after_dim [FiniteDimensional ℝ E] (A : E →ₗ[ℝ] E)
    (hsym : ∀ u v, ⟪A u, v⟫ = ⟪u, A v⟫) (hpd : ∀ u, u ≠ 0 → 0 < ⟪u, A u⟫) (b x0 junk : E)
    (n : Nat) (hn : Module.finrank ℝ E ≤ n) :
    A ((cgReal A b).step^[n] ((cgReal A b).init x0 junk)).x = b := by
  set S : ℕ → CgS ℝ E := fun k => (cgReal A b).step^[k] ((cgReal A b).init x0 junk) with hS
  have hsucc : ∀ k, S (k + 1) = (cgReal A b).step (S k) := fun k =>
    Function.iterate_succ_apply' _ _ _
  have hdef : ∀ u, ⟪u, A u⟫ = 0 → u = 0 := by
    intro u hu; by_contra h; exact (ne_of_gt (hpd u h)) hu
  have hinv : ∀ k, CgInv2 A b (S k) := fun k =>
    iterate_inv (cgReal A b).step (CgInv2 A b) (cg_inv2_step A hsym b) k _ (cg_init_inv2 A b x0 junk)
  have hstop : ∀ k, CgStopInv (S k) := by
    intro k
    induction k with
    | zero => exact cg_stop_init A b x0 junk
    | succ k ih => rw [hsucc]; exact cg_stop_step A hdef b (S k) (hinv k).1 ih
  -- zero residual persists
  have hzero : ∀ k, (S k).r = 0 → ∀ j, (S (k + j)).r = 0 := by
    intro k hk j
    induction j with
    | zero => exact hk
    | succ j ih =>
      rw [← Nat.add_assoc, hsucc]; exact (cg_r_zero_stays A b _ (hinv _).1 ih).1
  suffices h : (S n).r = 0 by
    have := (hinv n).1.1; rw [h] at this
    exact (sub_eq_zero.mp this.symm).symm
  by_contra hne
  set d := Module.finrank ℝ E with hd
  have hnz : ∀ k ≤ d, (S k).r ≠ 0 := by
    intro k hk h0
    apply hne
    have := hzero k h0 (n - k)
    rwa [Nat.add_sub_cancel' (le_trans hk hn)] at this
  have hrun : ∀ k < d + 1, (S k).stopped = false ∧ ⟪(S k).p, A (S k).p⟫ ≠ 0 ∧ (S k).sqnormROld ≠ 0 := by
    intro k hk
    have hr := hnz k (Nat.le_of_lt_succ hk)
    have hsq : (S k).sqnormROld ≠ 0 := by
      rw [(hinv k).1.2.2]; exact pow_ne_zero 2 (norm_ne_zero_iff.mpr hr)
    refine ⟨?_, ?_, hsq⟩
    · cases hh : (S k).stopped with
      | false => rfl
      | true => exact absurd (hstop k hh) hr
    · intro h0
      have hp := hdef _ h0
      have := (hinv k).1.2.1; rw [hp, inner_zero_right] at this
      exact hsq (by rw [(hinv k).1.2.2]; exact this.symm)
  have hall := C12.cg_all_directions_conjugate A hsym b x0 junk (d + 1) hrun
  have hli : LinearIndependent ℝ (fun i : Fin (d + 1) => (S i).r) := by
    refine linearIndependent_of_ne_zero_of_inner_eq_zero (v := fun i : Fin (d + 1) => (S i).r)
      (fun i : Fin (d + 1) => hnz i (Nat.le_of_lt_succ i.2)) ?_
    intro i j hij
    show ⟪(S i).r, (S j).r⟫ = 0
    rcases Nat.lt_or_gt_of_ne (fun h => hij (Fin.ext h)) with h | h
    · rw [real_inner_comm]; exact (hall j (Nat.le_of_lt j.2) i h).1
    · exact (hall i (Nat.le_of_lt i.2) j h).1
  have := hli.fintype_card_le_finrank
  simp only [Fintype.card_fin] at this
  omega

/-- Non-vacuity: `E = ℝ` (`dim = 1`), `A = 2·`, `b = 6`, start `0`: one loop body gives `2 x = 6`;
and the run condition of `C12.cg_all_directions_conjugate` holds for `n = 1` at this start. -/
example :
    ((2 : ℝ) • LinearMap.id : ℝ →ₗ[ℝ] ℝ)
      ((cgReal ((2 : ℝ) • LinearMap.id) (6 : ℝ)).step^[1] ((cgReal ((2 : ℝ) • LinearMap.id) (6 : ℝ)).init 0 0)).x = 6 ∧
    (((cgReal ((2 : ℝ) • LinearMap.id) (6 : ℝ)).init 0 0).stopped = false ∧
      ((cgReal ((2 : ℝ) • LinearMap.id) (6 : ℝ)).init 0 0).sqnormROld ≠ 0) := by
  constructor
  · apply C12.cg_exact_after_dim
    · intro u v; simp only [LinearMap.smul_apply, LinearMap.id_apply, smul_eq_mul, Real.inner_apply]; ring
    · intro u hu; simp only [LinearMap.smul_apply, LinearMap.id_apply, smul_eq_mul, Real.inner_apply]
      have := mul_self_pos.mpr hu; nlinarith
    · simp
  · simp [CgP.init, cgReal, lincomb]

end

/-! ### ROUND 4: Douglas–Rachford primal–dual WITH the `l` terms (`proxLc = some …`, the executed branch
`if l is not None: prox_cc_l[i](sigma[i])(z2i, out=z2i)`) -/

section
variable {X Y : Type} [AddCommGroup X] [Module ℝ X] [AddCommGroup Y] [Module ℝ Y]

/-- `douglas_rachford_pd(…, l=[…])` (`m ≥ 1` linear operators, constant `lam ≠ 0`): if the loop body
leaves the governing pair `(x, v)` unchanged, the point `p1` shown to the callback / returned and the
dual points `p2_i` satisfy the optimality conditions of `min f(x) + Σ (g_i □ l_i)(L_i x)`:
`−Σ L_i* p2_i ∈ ∂f(p1)` and `L_i p1 ∈ ∂g_i*(p2_i) + ∂l_i*(p2_i)` (an element of each, summing to
`L_i p1`).  Resolvent algebra as the other `*_fixed_point*` theorems (arbitrary maps related by `IsProx`). -/
theorem C12.douglas_rachford_pd_l_fixed_point (m : Nat) (hm : m ≠ 0) (L : Nat → X →ₗ[ℝ] Y)
    (Lt : Nat → Y →ₗ[ℝ] X) (proxF : X → X) (proxGc proxLc : Nat → Y → Y) (τ lam : ℝ) (σ : Nat → ℝ)
    (hτ : τ ≠ 0) (hlam : lam ≠ 0) (hσ : ∀ i, σ i ≠ 0) (subF : X → Set X)
    (subGc subLc : Nat → Y → Set Y)
    (hF : IsProx proxF τ subF) (hG : ∀ i, IsProx (proxGc i) (σ i) (subGc i))
    (hL : ∀ i, IsProx (proxLc i) (σ i) (subLc i))
    (zeroV : X) (s : DrS X Y)
    (hx : (DrP.step ⟨m, fun i => ⇑(L i), fun i => ⇑(Lt i), proxF, proxGc, τ, σ, lam, some proxLc⟩ zeroV s).x = s.x)
    (hv : ∀ i, (DrP.step ⟨m, fun i => ⇑(L i), fun i => ⇑(Lt i), proxF, proxGc, τ, σ, lam, some proxLc⟩ zeroV s).v i = s.v i) :
    let P : DrP ℝ X Y := ⟨m, fun i => ⇑(L i), fun i => ⇑(Lt i), proxF, proxGc, τ, σ, lam, some proxLc⟩
    let p1 := (P.half s).1
    let w1 := (P.half s).2.1
    let p2 : Nat → Y := fun i => proxGc i (lincomb 1 (s.v i) (σ i / 2) (L i w1));
    (-(sumAdj (fun i => ⇑(Lt i)) p2 (m - 1)) ∈ subF p1) ∧
      ∀ i, ∃ a ∈ subGc i (p2 i), ∃ c ∈ subLc i (p2 i), a + c = L i p1 := by
  intro P p1 w1 p2
  simp only [DrP.step, DrP.half, hm, if_false] at hx hv
  set S := sumAdj (fun i => ⇑(Lt i)) s.v (m - 1) with hS
  set z0 := lincomb (1 : ℝ) s.x (-τ / 2) S with hz0
  have hp1 : p1 = proxF z0 := by simp only [p1, P, DrP.half, hm, if_false, hz0, hS]
  have hw1 : w1 = lincomb (2 : ℝ) p1 (-(1 : ℝ)) s.x := by
    simp only [w1, p1, P, DrP.half, hm, if_false]
  rw [← hp1] at hx hv
  rw [← hw1] at hx hv
  change ∀ i, lincomb 1 (lincomb 1 (s.v i) lam (proxLc i (lincomb 1 (lincomb 2 (p2 i) (-(1 : ℝ)) (s.v i)) (σ i / 2)
      ((L i) (lincomb 2 (lincomb 1 w1 (-τ / 2) (sumAdj (fun i => ⇑(Lt i)) (fun i => lincomb 2 (p2 i) (-(1 : ℝ)) (s.v i)) (m - 1))) (-(1 : ℝ)) w1)))))
      (-lam) (p2 i) = s.v i at hv
  change lincomb 1 (lincomb 1 s.x (-lam) p1) lam (lincomb 1 w1 (-τ / 2)
      (sumAdj (fun i => ⇑(Lt i)) (fun i => lincomb 2 (p2 i) (-(1 : ℝ)) (s.v i)) (m - 1))) = s.x at hx
  rw [sumAdj_lin] at hx hv
  set Pp := sumAdj (fun i => ⇑(Lt i)) p2 (m - 1) with hPp
  have hz1 : lincomb (1 : ℝ) w1 (-τ / 2) ((2 : ℝ) • Pp + (-(1 : ℝ)) • S) = p1 := by
    have : lam • (lincomb (1 : ℝ) w1 (-τ / 2) ((2 : ℝ) • Pp + (-(1 : ℝ)) • S) - p1) = 0 := by
      simp only [lincomb] at hx ⊢
      linear_combination (norm := module) hx
    rcases smul_eq_zero.mp this with h | h
    · exact absurd h hlam
    · exact sub_eq_zero.mp h
  rw [hz1] at hv
  have hxe : s.x = p1 - (τ / 2) • ((2 : ℝ) • Pp - S) := by
    simp only [lincomb, hw1] at hz1
    linear_combination (norm := module) (-(1 : ℝ)) • hz1
  have hr1 : lincomb (2 : ℝ) p1 (-(1 : ℝ)) w1 = s.x := by simp only [lincomb, hw1]; module
  rw [hr1] at hv
  -- the `l` proximal returns `p2`
  have hz2 : ∀ i, proxLc i (lincomb 1 (lincomb 2 (p2 i) (-(1 : ℝ)) (s.v i)) (σ i / 2) (L i s.x)) = p2 i := by
    intro i
    have h1 := hv i
    have : lam • (proxLc i (lincomb 1 (lincomb 2 (p2 i) (-(1 : ℝ)) (s.v i)) (σ i / 2) (L i s.x)) - p2 i) = 0 := by
      simp only [lincomb] at h1 ⊢
      linear_combination (norm := module) h1
    rcases smul_eq_zero.mp this with h | h
    · exact absurd h hlam
    · exact sub_eq_zero.mp h
  constructor
  · have h1 := (hF z0 p1).mp hp1.symm
    have e : τ⁻¹ • (z0 - p1) = -Pp := by
      have : z0 - p1 = (-τ) • Pp := by
        simp only [hz0, lincomb]
        linear_combination (norm := module) hxe
      rw [this, smul_smul, mul_neg, inv_mul_cancel₀ hτ, neg_smul, one_smul]
    rw [e] at h1; exact h1
  · intro i
    refine ⟨_, (hG i (lincomb 1 (s.v i) (σ i / 2) (L i w1)) (p2 i)).mp rfl, _,
      (hL i _ (p2 i)).mp (hz2 i), ?_⟩
    rw [← smul_add]
    have : lincomb (1 : ℝ) (s.v i) (σ i / 2) (L i w1) - p2 i +
        (lincomb 1 (lincomb 2 (p2 i) (-(1 : ℝ)) (s.v i)) (σ i / 2) (L i s.x) - p2 i) = (σ i) • L i p1 := by
      simp only [lincomb, hw1, map_add, map_smul]
      module
    rw [this, smul_smul, inv_mul_cancel₀ (hσ i), one_smul]

/-- Converse with `l`: a KKT triple `(p1, p2, a + c = L p1)` together with a governing pair `(x, v)`
solving `x = p1 − τ/2 Σ L_i*(2 p2_i − v_i)`, `v_i = p2_i + σ_i/2 L_i x − σ_i c_i` is left unchanged by
the loop body, which shows exactly `p1` to the callback.  (Existence of the governing pair for a
given KKT triple is NOT proved, as for `l = None`.) -/
theorem C12.douglas_rachford_pd_l_fixed_point_converse_partial (m : Nat) (hm : m ≠ 0) (L : Nat → X →ₗ[ℝ] Y)
    (Lt : Nat → Y →ₗ[ℝ] X) (proxF : X → X) (proxGc proxLc : Nat → Y → Y) (τ lam : ℝ) (σ : Nat → ℝ)
    (hτ : τ ≠ 0) (hσ : ∀ i, σ i ≠ 0) (subF : X → Set X) (subGc subLc : Nat → Y → Set Y)
    (hF : IsProx proxF τ subF) (hG : ∀ i, IsProx (proxGc i) (σ i) (subGc i))
    (hL : ∀ i, IsProx (proxLc i) (σ i) (subLc i))
    (zeroV : X) (s : DrS X Y) (p1 : X) (p2 a c : Nat → Y)
    (hk1 : -(sumAdj (fun i => ⇑(Lt i)) p2 (m - 1)) ∈ subF p1)
    (hka : ∀ i, a i ∈ subGc i (p2 i)) (hkc : ∀ i, c i ∈ subLc i (p2 i))
    (hk2 : ∀ i, a i + c i = L i p1)
    (hgx : s.x = p1 - (τ / 2) • sumAdj (fun i => ⇑(Lt i)) (fun i => lincomb (2 : ℝ) (p2 i) (-(1 : ℝ)) (s.v i)) (m - 1))
    (hgv : ∀ i, s.v i = p2 i + (σ i / 2) • L i s.x - σ i • c i) :
    (DrP.step ⟨m, fun i => ⇑(L i), fun i => ⇑(Lt i), proxF, proxGc, τ, σ, lam, some proxLc⟩ zeroV s).x = s.x ∧
    (∀ i, (DrP.step ⟨m, fun i => ⇑(L i), fun i => ⇑(Lt i), proxF, proxGc, τ, σ, lam, some proxLc⟩ zeroV s).v i = s.v i) ∧
    (DrP.step ⟨m, fun i => ⇑(L i), fun i => ⇑(Lt i), proxF, proxGc, τ, σ, lam, some proxLc⟩ zeroV s).p1 = p1 := by
  rw [sumAdj_lin] at hgx
  set Pp := sumAdj (fun i => ⇑(Lt i)) p2 (m - 1) with hPp
  set S := sumAdj (fun i => ⇑(Lt i)) s.v (m - 1) with hS
  have hp1 : proxF (lincomb (1 : ℝ) s.x (-τ / 2) S) = p1 := by
    apply (hF _ _).mpr
    have : lincomb (1 : ℝ) s.x (-τ / 2) S - p1 = (-τ) • Pp := by
      simp only [lincomb]; linear_combination (norm := module) hgx
    rw [this, smul_smul, mul_neg, inv_mul_cancel₀ hτ, neg_smul, one_smul]; exact hk1
  have hp2 : ∀ i, proxGc i (lincomb (1 : ℝ) (s.v i) (σ i / 2) (L i (lincomb (2 : ℝ) p1 (-(1 : ℝ)) s.x))) = p2 i := by
    intro i
    apply (hG i _ _).mpr
    have : lincomb (1 : ℝ) (s.v i) (σ i / 2) (L i (lincomb (2 : ℝ) p1 (-(1 : ℝ)) s.x)) - p2 i = (σ i) • a i := by
      have ha : a i = L i p1 - c i := by rw [← hk2 i]; abel
      rw [ha]
      simp only [lincomb, map_add, map_smul]; linear_combination (norm := module) hgv i
    rw [this, smul_smul, inv_mul_cancel₀ (hσ i), one_smul]; exact hka i
  have hpl : ∀ i, proxLc i (lincomb (1 : ℝ) (lincomb (2 : ℝ) (p2 i) (-(1 : ℝ)) (s.v i)) (σ i / 2) (L i s.x)) = p2 i := by
    intro i
    apply (hL i _ _).mpr
    have : lincomb (1 : ℝ) (lincomb (2 : ℝ) (p2 i) (-(1 : ℝ)) (s.v i)) (σ i / 2) (L i s.x) - p2 i = (σ i) • c i := by
      simp only [lincomb]; linear_combination (norm := module) (-(1 : ℝ)) • hgv i
    rw [this, smul_smul, inv_mul_cancel₀ (hσ i), one_smul]; exact hkc i
  simp only [DrP.step, DrP.half, hm, if_false, ← hS, hp1, hp2]
  rw [sumAdj_lin, ← hPp, ← hS]
  have hz1 : lincomb (1 : ℝ) (lincomb (2 : ℝ) p1 (-(1 : ℝ)) s.x) (-τ / 2) ((2 : ℝ) • Pp + (-(1 : ℝ)) • S) = p1 := by
    simp only [lincomb]; linear_combination (norm := module) (-(1 : ℝ)) • hgx
  rw [hz1]
  have hr1 : lincomb (2 : ℝ) p1 (-(1 : ℝ)) (lincomb (2 : ℝ) p1 (-(1 : ℝ)) s.x) = s.x := by
    simp only [lincomb]; module
  rw [hr1]
  refine ⟨by simp only [lincomb]; module, fun i => ?_, trivial⟩
  rw [hpl i]
  simp only [lincomb]; module
end

/-- Non-vacuity with `l`: `f = ½(x−1)²`, `g* = l* = ½v²`, `L = id`, `τ = σ = lam = 1`: the governing pair
`(x, v) = (4/9, 2/9)` is unchanged by the loop body, which shows `p1 = 2/3`, the minimiser of
`½(x−1)² + ¼x²` (`g □ l = ¼|·|²`). -/
example :
    let P : DrP ℝ ℝ ℝ := ⟨1, fun _ x => x, fun _ y => y, fun v => (v + 1) / 2, fun _ w => w / 2, 1,
      fun _ => 1, 1, some (fun _ w => w / 2)⟩
    let s : DrS ℝ ℝ := ⟨4 / 9, fun _ => 2 / 9, 0, []⟩
    (P.step 0 s).x = s.x ∧ (∀ i, (P.step 0 s).v i = s.v i) ∧ (P.half s).1 = 2 / 3 := by
  simp only [DrP.step, DrP.half, sumAdj, lincomb, smul_eq_mul, Nat.one_ne_zero, if_false,
    Nat.sub_self]
  refine ⟨by norm_num, fun i => by norm_num, by norm_num⟩

/-! ### ROUND 5: proximal gradient (ISTA) decreases the objective -/

section
variable {E : Type} [NormedAddCommGroup E] [InnerProductSpace ℝ E]

/-- `proximal_gradient` with `lam(k) = 1`, one executed loop body from ANY state: for `f` with
sub-differential relation `∂f` (the sub-gradient inequality is the hypothesis `hsub`; `proxF` its resolvent
with step `γ`) and `g` satisfying the DESCENT LEMMA with constant `Lg` (hypothesis `hdesc`, true for every
`g` with `Lg`-Lipschitz gradient; for `g = ½‖A·−b‖²`, `Lg = ‖A‖²`), the objective `F = f + g` satisfies
`F(x⁺) ≤ F(x) − (1/γ − Lg/2) ‖x⁺ − x‖²`.  CONDITIONAL on `hsub`, `hdesc` (standard; C07 relates `∂f` to the
functional whose proximal the code calls). -/
theorem C12.proximal_gradient_sufficient_decrease (f g : E → ℝ) (gradG proxF : E → E) (γ Lg : ℝ)
    (hγ : 0 < γ) (subF : E → Set E) (hF : IsProx proxF γ subF)
    (hsub : ∀ p u x, u ∈ subF p → f p + ⟪u, x - p⟫ ≤ f x)
    (hdesc : ∀ x y, g y ≤ g x + ⟪gradG x, y - x⟫ + Lg / 2 * ‖y - x‖ ^ 2)
    (lam : Nat → ℝ) (s : ProxGradS E) (hlam : lam s.k = 1) :
    f (ProxGradP.step ⟨proxF, gradG, γ, lam⟩ s).x + g (ProxGradP.step ⟨proxF, gradG, γ, lam⟩ s).x ≤
      f s.x + g s.x - (1 / γ - Lg / 2) * ‖(ProxGradP.step ⟨proxF, gradG, γ, lam⟩ s).x - s.x‖ ^ 2 := by
  have hx : (ProxGradP.step ⟨proxF, gradG, γ, lam⟩ s).x = proxF (lincomb (1 : ℝ) s.x (-γ) (gradG s.x)) := by
    simp only [ProxGradP.step, lincomb, hlam]; module
  rw [hx]
  generalize htmp : lincomb (1 : ℝ) s.x (-γ) (gradG s.x) = tmp
  generalize hp : proxF tmp = p
  have hu := (hF tmp p).mp hp
  have h1 := hsub p _ s.x hu
  have h2 := hdesc s.x p
  have e : tmp - p = (s.x - p) - γ • gradG s.x := by rw [← htmp]; simp only [lincomb]; module
  have hin : ⟪γ⁻¹ • (tmp - p), s.x - p⟫ = γ⁻¹ * ‖s.x - p‖ ^ 2 - ⟪gradG s.x, s.x - p⟫ := by
    rw [e, inner_smul_left, inner_sub_left, inner_smul_left, real_inner_self_eq_norm_sq]
    simp only [conj_trivial]
    field_simp
  rw [hin] at h1
  have h3 : ⟪gradG s.x, p - s.x⟫ = -⟪gradG s.x, s.x - p⟫ := by
    rw [← inner_neg_right, neg_sub]
  have h4 : ‖p - s.x‖ = ‖s.x - p‖ := norm_sub_rev _ _
  rw [h3] at h2
  rw [h4] at h2 ⊢
  have : (1 / γ - Lg / 2) * ‖s.x - p‖ ^ 2 = γ⁻¹ * ‖s.x - p‖ ^ 2 - Lg / 2 * ‖s.x - p‖ ^ 2 := by
    rw [one_div]; ring
  linarith

/-- …hence with `γ Lg ≤ 2` (in particular the usual `γ ≤ 1/Lg`) the objective never increases along the
run of `ProxGradP.step` (the state machine tied to `odl.solvers.proximal_gradient` by the C11 driver),
for every `n` and every start. -/
theorem C12.proximal_gradient_objective_mono (f g : E → ℝ) (gradG proxF : E → E) (γ Lg : ℝ)
    (hγ : 0 < γ) (hL : γ * Lg ≤ 2) (subF : E → Set E) (hF : IsProx proxF γ subF)
    (hsub : ∀ p u x, u ∈ subF p → f p + ⟪u, x - p⟫ ≤ f x)
    (hdesc : ∀ x y, g y ≤ g x + ⟪gradG x, y - x⟫ + Lg / 2 * ‖y - x‖ ^ 2)
    (s : ProxGradS E) (n : Nat) :
    f ((ProxGradP.step ⟨proxF, gradG, γ, fun _ => 1⟩)^[n + 1] s).x +
      g ((ProxGradP.step ⟨proxF, gradG, γ, fun _ => 1⟩)^[n + 1] s).x ≤
    f ((ProxGradP.step ⟨proxF, gradG, γ, fun _ => 1⟩)^[n] s).x +
      g ((ProxGradP.step ⟨proxF, gradG, γ, fun _ => 1⟩)^[n] s).x := by
  rw [Function.iterate_succ_apply']
  have h := C12.proximal_gradient_sufficient_decrease f g gradG proxF γ Lg hγ subF hF hsub hdesc
    (fun _ => 1) ((ProxGradP.step ⟨proxF, gradG, γ, fun _ => 1⟩)^[n] s) rfl
  have hk : 0 ≤ 1 / γ - Lg / 2 := by
    rw [sub_nonneg, div_le_div_iff₀ (by norm_num) hγ]; linarith
  nlinarith [mul_nonneg hk (sq_nonneg ‖(ProxGradP.step ⟨proxF, gradG, γ, fun _ => 1⟩
    ((ProxGradP.step ⟨proxF, gradG, γ, fun _ => 1⟩)^[n] s)).x -
    ((ProxGradP.step ⟨proxF, gradG, γ, fun _ => 1⟩)^[n] s).x‖)]

/-- Non-vacuity: `f = 0` (`prox = id`, `∂f = {0}`), `g = ½x²` (`∇g = id`, `Lg = 1`), `γ = 1` on `ℝ`. -/
example : ∃ (f g : ℝ → ℝ) (gradG proxF : ℝ → ℝ) (γ Lg : ℝ) (subF : ℝ → Set ℝ), 0 < γ ∧ γ * Lg ≤ 2 ∧
    IsProx proxF γ subF ∧ (∀ p u x, u ∈ subF p → f p + ⟪u, x - p⟫ ≤ f x) ∧
    (∀ x y, g y ≤ g x + ⟪gradG x, y - x⟫ + Lg / 2 * ‖y - x‖ ^ 2) ∧ g 0 < g 1 := by
  refine ⟨fun _ => 0, fun x => x ^ 2 / 2, fun x => x, fun v => v, 1, 1, fun _ => {0}, by norm_num,
    by norm_num, ?_, ?_, ?_, by norm_num⟩
  · intro v p
    simp only [Set.mem_singleton_iff, smul_eq_mul, inv_one, one_mul]
    constructor <;> intro h <;> linarith
  · intro p u x hu
    simp only [Set.mem_singleton_iff] at hu
    simp [hu]
  · intro x y
    simp only [Real.inner_apply, Real.norm_eq_abs, sq_abs]
    nlinarith [sq_nonneg (y - x)]
end
