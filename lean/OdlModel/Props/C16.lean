/-
C16 — resizing and padding follow the named boundary rule; cropping undoes extension.
Property theorems only (model: `Model/Resize.lean`, slices: `Gen/PadSlices.lean`).
-/
import OdlModel.Model.Resize

open OdlModel.Resize

/-- placeholder while the proofs are being built -/
theorem C16.full_slice (n : Nat) : (pySlice .full n).count = n := by
  simp [pySlice, SliceSpec.full]
