/-
C16 — resizing and padding follow the named boundary rule; cropping undoes extension.
Property theorems only.  Model: `Model/Resize.lean` (the statements of `resize_array`,
`_apply_padding`, `_assign_intersection` one axis at a time, composed along the axes;
`_resize_discr`, `_offset_from_spaces`, `ResizingOperatorAdjoint._call` for one axis).
GENERATED from `/repo/odl/util/numerics.py` on every run (`Gen/PadSlices.lean`): the per-mode
slice arithmetic, the guard table, the pad lengths and the skip condition — the theorems are
re-checked against these.  HAND-WRITTEN and tied to the source by the correspondence run only:
the statement sequence of `_apply_padding` after the guards (`=` vs `+=`, sums, moments, signs),
the fill, the offset range check and the `pad_const` check of `resize_array`, and everything
from `discr_ops.py`.
Theorems about `resize1d`/`resizeCore` are ONE-AXIS statements; the n-axes statements are
`forward_nd_eq_reference`, `axis_order_irrelevant`, `adjoint_transpose_nd`, `weighted_adjoint_nd`,
`nd_axes_accept_iff`, `nd_accepts_iff` and (round 4) `overlap_copied_nd`, `crop_extend_id_nd`,
`inverse_left_inverse`, `inverse_right_inverse`, `derivative_is_linear_part`,
`adjoint_call_transpose` (operator level: `Model/ResizeOperator.lean`).  The operator theorems
about partitions (`range_*`, `offset_from_spaces_*`, `inverse_offset_same`, `offset_tol_*`) are
per axis of the partition.
All sizes, offsets and array contents are universally quantified; scalars range over an
arbitrary commutative ring (ℤ, ℚ, ℝ, ℂ, ℤ/256, …) resp. field.
-/
import OdlModel.Lemmas.ResizeSpec
import OdlModel.Lemmas.ResizeOp
import OdlModel.Lemmas.ResizeLin
import OdlModel.Lemmas.ResizeInv
import Mathlib.Tactic.FieldSimp
import Mathlib.Tactic.NormNum

set_option linter.unusedVariables false
set_option linter.unusedTactic false
set_option linter.unreachableTactic false
set_option linter.unnecessarySeqFocus false

open OdlModel.C16 OdlModel.Resize Finset

section
variable {K : Type} [CommRing K] [DecidableEq K]

/-- The explicit `raise ValueError` branches are exactly the documented limits: the forward
call is accepted iff the configuration is admissible, and the adjoint call (with
`pad_const = 0`) is accepted for exactly the same configurations. -/
theorem C16.guards_are_documented_limits (mode : Mode) (n m off : Nat) (c : K) :
    (check mode .forward n m off c = none ↔ Admissible mode n m off) ∧
    (check mode .adjoint m n off (0 : K) = none ↔ Admissible mode n m off) := by
  constructor <;>
  · cases mode <;>
    simp only [check, paddingGuards, OdlModel.Gen.PadSlices.guards, Admissible, PadOK, reduceCtorEq, false_and, true_and,
      and_false, ne_eq, not_true_eq_false, ↓reduceIte, gt_iff_lt, ge_iff_le] <;>
    split_ifs <;> simp <;> omega

/-- Constant padding with a non-zero constant is not linear: the adjoint direction refuses it
(`pad_const must be 0 for 'adjoint' direction`), for all sizes. -/
theorem C16.adjoint_needs_zero_padconst (n m off : Nat) (c : K) (hc : c ≠ 0) (y : Nat → K)
    (hoff : m ≠ n → off + min m n ≤ max m n) :
    resize1d .constant .adjoint m n off c y = .error .padConstAdjoint := by
  have : ¬ (m ≠ n ∧ off + min m n > max m n) := fun h => by have := hoff h.1; omega
  unfold resize1d check
  rw [if_neg this, if_pos ⟨rfl, rfl, hc⟩]

/-- **Offsets outside `[0, |m - n|]` are refused** on a resized axis, in every mode and
direction (there is no placement of the smaller array inside the larger one; before the range
check was added to the source NumPy's broadcasting decided, e.g.
`resize_array([1,2,3,4,5], (3,), offset=4)` returned `[5, 5, 5]`). -/
theorem C16.offset_range_checked (mode : Mode) (dir : Dir) (n m off : Nat) (c : K)
    (x : Nat → K) (hnm : n ≠ m) (hoff : max n m < off + min n m) :
    resize1d mode dir n m off c x = .error .offset := by
  simp [resize1d, check, hoff, hnm]

/-- **Padding equals NumPy's.**  For every pad mode, every original length `n`, new length
`m > n`, offset and array content for which the call is admissible, `resize_array` succeeds
and its result is, entry for entry, `np.pad` with the equivalent mode (`constant`, `wrap`,
`reflect` = symmetric without repeating the edge, `edge`), resp. the linear extrapolation
through the two outermost samples for `order1`. -/
theorem C16.pad_eq_nppad (mode : Mode) (n m off : Nat) (c : K) (x : Nat → K) (hnm : n < m)
    (h : Admissible mode n m off) :
    ∃ r, resize1d mode .forward n m off c x = .ok r ∧ ∀ i < m, r i = npPad mode n off c x i := by
  refine ⟨_, (ok_iff ..).2 ⟨((C16.guards_are_documented_limits mode n m off c).1).2 h, rfl⟩, ?_⟩
  intro i hi
  exact core_fwd_grow mode n m off c x hnm h i hi

/-- **The overlapping block is copied unchanged**, in every mode and for every offset the call
accepts: extension puts `x` at `[off, off + n)`, restriction returns `x[off : off + m]`, and on
an axis of unchanged length the result is `x` (the offset is ignored there). -/
theorem C16.resize_intersection (mode : Mode) (n m off : Nat) (c : K) (x r : Nat → K)
    (hr : resize1d mode .forward n m off c x = .ok r) :
    (n < m → ∀ j < n, r (off + j) = x j) ∧ (m < n → ∀ i < m, r i = x (off + i)) ∧
      (n = m → ∀ i < n, r i = x i) := by
  obtain ⟨hc, rfl⟩ := (ok_iff ..).1 hr
  have hadm := ((C16.guards_are_documented_limits mode n m off c).1).1 hc
  refine ⟨?_, ?_, ?_⟩
  · intro hlt j hj
    have hoff := admissible_fits hadm hlt
    have hp := hadm.2 hlt
    rw [core_fwd_grow mode n m off c x hlt hadm (off + j) (by omega)]
    cases mode <;> simp only [PadOK] at hp <;> simp only [npPad]
    · simp only [npConstant]; rw [if_pos (by omega), Nat.add_sub_cancel_left]
    · simp only [npReflect]
      rw [reflect_eq_src n off (off + j) (by omega) hp.1 (by omega)]
      simp only [srcSymmetric]; split_ifs <;> first | omega | (congr 1 <;> omega)
    · simp only [npWrap]
      rw [wrap_eq_src n off (off + j) (by omega) hp.1 (by omega)]
      simp only [srcPeriodic]; split_ifs <;> first | omega | (congr 1 <;> omega)
    · simp only [npEdge]; split_ifs <;> first | omega | (congr 1 <;> omega)
    · simp only [linExtrap]; split_ifs <;> first | omega | (congr 1 <;> omega)
  · intro hmn i hi
    have := hadm.1 (by omega)
    exact core_fwd_crop mode n m off c x (by omega) (by omega) i hi
  · intro e i hi
    subst e
    exact core_same mode .forward n off c x i hi

/-- **Cropping undoes extension.**  Extending `x` from `n` to `m ≥ n` entries (any mode, any
accepted offset) and then resizing back to `n` entries with the same offset — in any mode,
with any padding constant — returns `x`. -/
theorem C16.crop_extend_id (mode mode' : Mode) (n m off : Nat) (c c' : K) (x r : Nat → K)
    (hnm : n ≤ m) (hr : resize1d mode .forward n m off c x = .ok r) :
    ∃ r', resize1d mode' .forward m n off c' r = .ok r' ∧ ∀ j < n, r' j = x j := by
  have hint := C16.resize_intersection mode n m off c x r hr
  obtain ⟨hc, -⟩ := (ok_iff ..).1 hr
  have hadm := ((C16.guards_are_documented_limits mode n m off c).1).1 hc
  have hadm' : Admissible mode' m n off :=
    ⟨fun hne => by have := hadm.1 (by omega); omega, fun h => by omega⟩
  refine ⟨_, (ok_iff ..).2 ⟨((C16.guards_are_documented_limits mode' m n off c').1).2 hadm', rfl⟩,
    ?_⟩
  intro j hj
  rcases Nat.lt_or_eq_of_le hnm with hlt | rfl
  · have hfit := admissible_fits hadm hlt
    rw [core_fwd_crop mode' m n off c' r hnm hfit j hj]
    exact hint.1 hlt j hj
  · rw [core_same mode' .forward n off c' r j hj]
    exact hint.2.2 rfl j hj

/-- **Forward and adjoint are transposes of each other** (one axis).  For every linear mode
(`pad_const = 0`), all lengths `n`, `m` (growing: padding vs. accumulation of the outer parts
into the inner ones — sums for `order0`, zeroth and first moments for `order1`; shrinking:
cropping vs. zero padding), every admissible offset and all contents:
both calls succeed and `Σ_{i<m} y_i (R x)_i = Σ_{j<n} x_j (Rᵀ y)_j`. -/
theorem C16.adjoint_transpose (mode : Mode) (n m off : Nat) (x y : Nat → K)
    (h : Admissible mode n m off) :
    ∃ r rt, resize1d mode .forward n m off 0 x = .ok r ∧
      resize1d mode .adjoint m n off 0 y = .ok rt ∧
      ∑ i ∈ range m, y i * r i = ∑ j ∈ range n, x j * rt j := by
  have hg := C16.guards_are_documented_limits (K := K) mode n m off 0
  exact ⟨_, _, (ok_iff ..).2 ⟨hg.1.2 h, rfl⟩, (ok_iff ..).2 ⟨hg.2.2 h, rfl⟩,
    core_transpose mode n m off h x y⟩

/-- **Constant padding is affine with linear part zero-padding** (`ResizingOperator.derivative`):
for every `pad_const`, all sizes, accepted offsets and contents (growing, shrinking or unchanged
axis), the difference of two results is the zero-padding resize of the difference of the
inputs.  Hence the derivative of the non-linear operator (`pad_const ≠ 0`) at any point is the
operator with `pad_const = 0`. -/
theorem C16.constant_pad_affine (n m off : Nat) (c : K) (x x' : Nat → K)
    (h : Admissible .constant n m off) :
    ∃ r r' d, resize1d .constant .forward n m off c x = .ok r ∧
      resize1d .constant .forward n m off c x' = .ok r' ∧
      resize1d .constant .forward n m off 0 (fun j => x j - x' j) = .ok d ∧
      ∀ i < m, r i - r' i = d i := by
  have hg := fun c' : K => ((C16.guards_are_documented_limits .constant n m off c').1).2 h
  refine ⟨_, _, _, (ok_iff ..).2 ⟨hg c, rfl⟩, (ok_iff ..).2 ⟨hg c, rfl⟩, (ok_iff ..).2 ⟨hg 0, rfl⟩, ?_⟩
  intro i hi
  rcases Nat.lt_trichotomy n m with hlt | heq | hgt
  · have hoff := admissible_fits h hlt
    rw [core_constant_fwd n m off c x hlt hoff i, core_constant_fwd n m off c x' hlt hoff i,
      core_constant_fwd n m off 0 _ hlt hoff i]
    simp only [npConstant]
    split_ifs <;> simp
  · subst heq
    rw [core_same _ _ n off c x i hi, core_same _ _ n off c x' i hi, core_same _ _ n off 0 _ i hi]
  · have := h.1 (by omega)
    rw [core_fwd_crop _ n m off c x (by omega) (by omega) i hi,
      core_fwd_crop _ n m off c x' (by omega) (by omega) i hi,
      core_fwd_crop _ n m off 0 _ (by omega) (by omega) i hi]

/-- non-vacuity: `pad_const = 5`, `(1,2) ↦ (5,1,2,5)`, `(3,1) ↦ (5,3,1,5)`, difference `(0,-2,1,0)` -/
example : ∃ r r' d, resize1d .constant .forward 2 4 1 (5 : Int) (fun i => [1, 2].getD i 0) = .ok r ∧
    resize1d .constant .forward 2 4 1 (5 : Int) (fun i => [3, 1].getD i 0) = .ok r' ∧
    resize1d .constant .forward 2 4 1 (0 : Int) (fun i => [1, 2].getD i 0 - [3, 1].getD i 0) = .ok d ∧
    (List.range 4).map (fun i => r i - r' i) = [0, -2, 1, 0] ∧ (List.range 4).map d = [0, -2, 1, 0] :=
  ⟨_, _, _, rfl, rfl, rfl, by decide, by decide⟩

/-- **All variants are linear except constant padding with a non-zero constant.**  With
`pad_const = 0`, in every mode and direction and for all sizes and offsets, each entry of the
result is one fixed finite linear combination `Σ_t a_t · x_{j_t}` of entries of the input
(`ResizingOperator.is_linear`). -/
theorem C16.linear_when_padconst_zero (mode : Mode) (dir : Dir) (n m off : Nat) (i : Nat) :
    ∃ l : List (K × Nat), ∀ x : Nat → K,
      resizeCore mode dir n m off (0 : K) x i = (l.map (fun p => p.1 * x p.2)).sum :=
  LinArr.resizeCore mode dir n m off i

/-- … and constant padding with `c ≠ 0` is not: the zero array is not mapped to zero. -/
example : ∃ r, resize1d .constant .forward 1 2 0 (5 : Int) (fun _ => 0) = .ok r ∧ r 1 = 5 :=
  ⟨_, rfl, by decide⟩

/-- **The order of the axes is irrelevant** (`pad_const = 0`, either direction, any mode, any
shapes and offsets): running the one-axis steps from axis 0 upwards — the order of the loop in
`_apply_padding` — and running them from the last axis downwards give the same array.  Every
one-axis step is a fixed finite linear combination of entries of its fibre, and such maps along
different axes commute. -/
theorem C16.axis_order_irrelevant (mode : Mode) (dir : Dir) (sIn sOut offs : List Nat)
    (X : List Nat → K) :
    resizeAxes mode dir (0 : K) 0 sIn sOut offs X = resizeAxesRev mode dir (0 : K) 0 sIn sOut offs X :=
  resizeAxes_eq_rev mode dir sIn sOut offs 0 X

/-- **Forward and adjoint are transposes, any number of axes**, growing in some axes while
shrinking in others, both in the code's axis order (axis 0 first):
`Σ_{idx ∈ box(sOut)} Y_idx (R X)_idx = Σ_{idx ∈ box(sIn)} X_idx (Rᵀ Y)_idx`
for all admissible shapes/offsets and all contents. -/
theorem C16.adjoint_transpose_nd (mode : Mode) (sIn sOut offs : List Nat)
    (h : AdmissibleND mode sIn sOut offs) (X Y : List Nat → K) :
    sumBox sOut (fun idx => Y idx * resizeAxes mode .forward (0 : K) 0 sIn sOut offs X idx) =
      sumBox sIn (fun idx => X idx * resizeAxes mode .adjoint (0 : K) 0 sOut sIn offs Y idx) := by
  rw [C16.axis_order_irrelevant mode .adjoint sOut sIn offs Y]
  exact axes_transpose mode sIn sOut offs [] h X Y

/-- **Padding equals NumPy's, any number of axes**, growing in some axes while shrinking in
others.  On the whole output box the n-d forward resize (per-axis steps in the code's order)
equals the reference applied axis by axis (`refAxes`): NumPy's `constant/wrap/reflect/edge`
padding resp. linear extrapolation on growing axes, `x[off : off + m]` on shrinking axes, identity
on unchanged axes — for all admissible shapes/offsets, every `pad_const` and all contents.
(`np.pad` itself works axis by axis; `refAxes` is compared with the real n-d `np.pad` in the
correspondence run.) -/
theorem C16.forward_nd_eq_reference (mode : Mode) (c : K) (sIn sOut offs : List Nat)
    (h : AdmissibleND mode sIn sOut offs) (X : List Nat → K) (idx : List Nat)
    (hidx : ∀ k < sOut.length, idx.getD k 0 < sOut.getD k 0) :
    resizeAxes mode .forward c 0 sIn sOut offs X idx = refAxes mode c 0 sIn sOut offs X idx :=
  fwd_axes_eq_ref mode c sIn sOut offs [] X X h (fun _ _ => rfl) idx (by simpa [Pref] using hidx)

/-- **The identity resize returns the values unchanged** (one axis): same length, ANY offset,
every mode, both directions, every `pad_const` the direction accepts, all contents — the
invariant behind the identity-resize stratum of the ownership stream. -/
theorem C16.identity_resize (mode : Mode) (dir : Dir) (n off : Nat) (c : K) (x : Nat → K)
    (hc : dir = .adjoint → mode = .constant → c = 0) :
    ∃ r, resize1d mode dir n n off c x = .ok r ∧ ∀ i < n, r i = x i := by
  refine ⟨_, (ok_iff ..).2 ⟨?_, rfl⟩, fun i hi => core_same mode dir n off c x i hi⟩
  cases dir
  · exact ((C16.guards_are_documented_limits mode n n off c).1).2
      ⟨fun h => absurd rfl h, fun h => absurd h (lt_irrefl n)⟩
  · unfold check
    by_cases hm : mode = .constant
    · have := hc rfl hm
      simp [hm, this]
    · simp [hm]

/-- **… and for any number of axes** (forward direction, the code's axis order): resizing to the
same shape with arbitrary offsets is the identity on the whole box. -/
theorem C16.identity_resize_nd (mode : Mode) (c : K) (s offs : List Nat) (hl : s.length = offs.length)
    (X : List Nat → K) (idx : List Nat) (hidx : ∀ k < s.length, idx.getD k 0 < s.getD k 0) :
    resizeAxes mode .forward c 0 s s offs X idx = X idx := by
  rw [C16.forward_nd_eq_reference mode c s s offs (admND_same mode s offs hl) X idx hidx,
    refAxes_same]

/-- non-vacuity: an order1 "resize" 3 → 3 with offset 2 and a 2 × 2 one with offsets (1, 3) -/
example : ∃ r, resize1d .order1 .adjoint 3 3 2 (0 : Int) (fun i => [4, 5, 6].getD i 0) = .ok r ∧
    (List.range 3).map r = [4, 5, 6] := ⟨_, rfl, by decide⟩
example : resizeAxes .symmetric .forward (0 : Int) 0 [2, 2] [2, 2] [1, 3]
    (fun idx => (10 * idx.getD 0 0 + idx.getD 1 0 : Nat)) [1, 0] = 10 := by decide

/-- **An offset out of range in ANY axis refuses the n-d call** (`offsetsBad`), whatever the other
axes, the mode, the direction and `pad_const`: `resizeND` answers `err offset` before any other
check, as the range check of `resize_array` does. -/
theorem C16.nd_offset_refused (mode : Mode) (dir : Dir) (c : K) (sIn sOut offs : List Nat)
    (A : List Nat → K) (h : offsetsBad sIn sOut offs = true) :
    resizeND mode dir sIn sOut offs c A = .error .offset := by
  simp [resizeND, checkND, h]

example : resizeND .periodic .forward [3, 2] [5, 4] [1, 3] (0 : Int) (fun _ => 1) = .error .offset :=
  C16.nd_offset_refused _ _ _ _ _ _ _ (by decide)

/-- The per-axis part of the n-d argument check accepts iff every axis is admissible. -/
theorem C16.nd_axes_accept_iff (mode : Mode) (c : K) :
    ∀ (sIn sOut offs : List Nat), sIn.length = sOut.length → sIn.length = offs.length →
      (checkAxes mode .forward c sIn sOut offs = none ↔ AdmissibleND mode sIn sOut offs)
  | [], [], [], _, _ => by simp [checkAxes, AdmissibleND]
  | n :: sIn, m :: sOut, off :: offs, h1, h2 => by
    have ih := C16.nd_axes_accept_iff mode c sIn sOut offs (by simpa using h1) (by simpa using h2)
    have hg := (C16.guards_are_documented_limits mode n m off c).1
    simp only [checkAxes, AdmissibleND]
    cases hc : check mode .forward n m off c with
    | none => simp [← hg, hc, ih]
    | some e => simp [← hg, hc]
  | [], _ :: _, _, h1, _ => by simp at h1
  | _ :: _, [], _, h1, _ => by simp at h1
  | [], [], _ :: _, _, h2 => by simp at h2
  | _ :: _, _ :: _, [], _, h2 => by simp at h2

/-- The n-d call (offset range of all axes first, then the per-axis guards, as in the source)
is accepted iff every axis is admissible (given consistent lengths). -/
theorem C16.nd_accepts_iff (mode : Mode) (c : K) (sIn sOut offs : List Nat)
    (h1 : sIn.length = sOut.length) (h2 : sIn.length = offs.length) :
    checkND mode .forward c sIn sOut offs = none ↔ AdmissibleND mode sIn sOut offs := by
  have hax := C16.nd_axes_accept_iff mode c sIn sOut offs h1 h2
  unfold checkND
  constructor
  · intro h
    split_ifs at h
    exact hax.1 h
  · intro h
    rw [offsetsBad_false_of_adm h]
    simpa using hax.2 h

/-- **Constant slope (`order1`).**  The result continues the two outermost samples of each
side as an arithmetic progression: all second differences vanish on `[0, off + 1]` and on
`[off + n - 2, m - 1]`, for all sizes, offsets and contents. -/
theorem C16.order1_linear_extrapolation (n m off : Nat) (c : K) (x : Nat → K) (hnm : n < m)
    (h : Admissible .order1 n m off) :
    ∃ r, resize1d .order1 .forward n m off c x = .ok r ∧
      (∀ i, i + 2 ≤ off + 1 → r i - 2 * r (i + 1) + r (i + 2) = 0) ∧
      (∀ i, off + n - 2 ≤ i → i + 2 < m → r i - 2 * r (i + 1) + r (i + 2) = 0) := by
  obtain ⟨r, hr, hv⟩ := C16.pad_eq_nppad .order1 n m off c x hnm h
  have hoff := admissible_fits h hnm
  have hn : 2 ≤ n := h.2 hnm
  refine ⟨r, hr, ?_, ?_⟩
  · intro i hi
    rw [hv i (by omega), hv (i + 1) (by omega), hv (i + 2) (by omega)]
    simp only [npPad]
    rw [linExtrap_left n off i x hn (by omega), linExtrap_left n off (i + 1) x hn (by omega),
      linExtrap_left n off (i + 2) x hn (by omega)]
    push_cast; ring
  · intro i hi hi2
    rw [hv i (by omega), hv (i + 1) (by omega), hv (i + 2) (by omega)]
    simp only [npPad]
    rw [linExtrap_right n off i x hn (by omega), linExtrap_right n off (i + 1) x hn (by omega),
      linExtrap_right n off (i + 2) x hn (by omega)]
    push_cast; ring

end

section operator
variable {F : Type} [Field F] [CharZero F]

/-- **`ResizingOperator`: cell sides are unchanged.**  The range axis built by `_resize_discr`
has the same `cell_sides` as the domain axis — for every interval, all sizes (`AxisOK`: at least
two grid points, or a single grid point that does not sit on both boundaries),
every offset (given or `None`) and every combination of `nodes_on_bdry` in domain and range. -/
theorem C16.range_cell_unchanged (a : Axis F) (nNew : Nat) (off : Option Int) (bl' br' : Bool)
    (hn : AxisOK a.n a.bl a.br) (hN : AxisOK nNew bl' br') :
    (resizeAxis a nNew off bl' br').cell = a.cell := by
  obtain ⟨lo, hi, n, bl, br⟩ := a
  have hsum := numLR_sum n nNew off
  have hD := denom_ne_zero (F := F) n bl br hn
  have hD' := denom_ne_zero (F := F) nNew bl' br' hN
  simp only [resizeAxis]
  generalize (numLR n nNew off) = pq at hsum ⊢
  obtain ⟨p, q⟩ := pq
  have hq : (q : F) = (nNew : F) - (n : F) - (p : F) := by
    have : q = (nNew : Int) - n - p := by simp at hsum; omega
    rw [this]; push_cast; ring
  cases bl <;> cases br <;> cases bl' <;> cases br' <;>
    simp only [Axis.cell, Axis.gridMin, Axis.gridMax, Bool.false_eq_true, ↓reduceIte,
      Int.cast_natCast, Int.cast_zero, Int.cast_one, Int.cast_ofNat, sub_zero, hq] at hD hD' ⊢ <;>
    (rw [div_eq_iff hD']; linear_combination (-1 : F) * (div_mul_cancel₀ (hi - lo) hD))

/-- **Where the range grid starts (as coded).**  The first grid point of the range is the first
grid point of the domain moved `num_l` cells to the left, `num_l` as computed by
`_resize_discr`. -/
theorem C16.range_grid_min (a : Axis F) (nNew : Nat) (off : Option Int) (bl' br' : Bool)
    (hn : AxisOK a.n a.bl a.br) (hN : AxisOK nNew bl' br') :
    (resizeAxis a nNew off bl' br').gridMin =
      a.gridMin - (((numLR a.n nNew off).1 : Int) : F) * a.cell := by
  have hc := C16.range_cell_unchanged a nNew off bl' br' hn hN
  have e : (resizeAxis a nNew off bl' br').gridMin =
      if bl' then (resizeAxis a nNew off bl' br').lo
      else (resizeAxis a nNew off bl' br').lo +
        (resizeAxis a nNew off bl' br').cell / ((2 : Int) : F) := by
    cases bl' <;> rfl
  rw [e, hc]
  cases bl' <;> simp only [resizeAxis, Bool.false_eq_true, ↓reduceIte] <;> ring


/-- **Grid alignment of the copied block.**  For every offset the operator accepts
(`None`, or a count `o ≥ 0` of cells added resp. removed on the left), extension and
restriction alike: the block `resize_array` copies sits on the domain's own grid points.
Extension: grid point number `num_l` (= the array offset) of the range is the first grid
point of the domain.  Restriction: the range starts at grid point `-num_l` (= the array
offset) of the domain; with an explicit offset `o` that is `domain.gridMin + o * cell`. -/
theorem C16.range_grid_aligned (a : Axis F) (nNew : Nat) (off : Option Int)
    (bl' br' : Bool) (hn : AxisOK a.n a.bl a.br) (hN : AxisOK nNew bl' br')
    (hoff : ∀ o, off = some o → 0 ≤ o) :
    let numL := (numLR a.n nNew off).1
    (a.n ≤ nNew → 0 ≤ numL ∧ (∀ o, off = some o → a.n < nNew → numL = o) ∧
      (resizeAxis a nNew off bl' br').gridMin + ((numL : Int) : F) * a.cell = a.gridMin) ∧
    (nNew < a.n → numL ≤ 0 ∧ (∀ o, off = some o → -numL = o) ∧
      (resizeAxis a nNew off bl' br').gridMin = a.gridMin + (((-numL : Int)) : F) * a.cell) := by
  intro numL
  have hg := C16.range_grid_min a nNew off bl' br' hn hN
  refine ⟨fun h => ⟨?_, ?_, ?_⟩, fun h => ⟨?_, ?_, ?_⟩⟩
  · cases off with
    | none => simp only [numL, numLR]; split_ifs <;> (try simp only) <;> omega
    | some o =>
      have := hoff o rfl
      simp only [numL, numLR]; split_ifs <;> (try simp only) <;> omega
  · intro o ho hlt
    subst ho
    simp only [numL, numLR]
    split_ifs <;> first | omega | rfl
  · rw [hg]; ring
  · cases off with
    | none => simp only [numL, numLR]; split_ifs <;> (try simp only) <;> omega
    | some o =>
      have := hoff o rfl
      simp only [numL, numLR]; split_ifs <;> (try simp only) <;> omega
  · intro o ho
    subst ho
    simp only [numL, numLR]
    split_ifs <;> omega
  · rw [hg]; push_cast; ring

/-- The example of the repaired defect (C16-F1): `uniform_discr(0, 1, 4)` restricted to 2 cells
with `offset = 1` now starts at grid point `3/8`, where the copied cells 1, 2 lie. -/
example : let a : Axis Rat := ⟨0, 1, 4, false, false⟩
    (resizeAxis a 2 (some 1) false false).gridMin = 3 / 8 ∧ a.gridMin + 1 * a.cell = 3 / 8 := by
  norm_num [resizeAxis, Axis.gridMin, Axis.gridMax, Axis.cell, numLR]

end operator

section ordered
variable {F : Type} [Field F] [LinearOrder F] [IsStrictOrderedRing F]

/-- **`ResizingOperator`: the range covers the enlarged physical domain.**  For an extension
with `offset = None` or `0 ≤ offset ≤ n_new - n` (range with the default `nodes_on_bdry=False`,
any `nodes_on_bdry` of the domain) the range interval contains the domain interval. -/
theorem C16.range_covers_domain (a : Axis F) (nNew : Nat) (off : Option Int)
    (hn : AxisOK a.n a.bl a.br) (hN : AxisOK nNew false false) (hgrow : a.n ≤ nNew)
    (hpos : a.lo < a.hi)
    (hoff : ∀ o, off = some o → 0 ≤ o ∧ o ≤ (nNew : Int) - a.n) :
    (resizeAxis a nNew off false false).lo ≤ a.lo ∧ a.hi ≤ (resizeAxis a nNew off false false).hi := by
  have hc := cell_pos a hn hpos
  have hL : (0 : Int) ≤ (numLR a.n nNew off).1 := by
    cases off with
    | none => simp only [numLR]; split_ifs <;> (try simp only) <;> omega
    | some o =>
      have := hoff o rfl
      simp only [numLR]; split_ifs <;> (try simp only) <;> omega
  have hR : (0 : Int) ≤ (numLR a.n nNew off).2 := by
    cases off with
    | none => simp only [numLR]; split_ifs <;> (try simp only) <;> omega
    | some o =>
      have := hoff o rfl
      simp only [numLR]; split_ifs <;> (try simp only) <;> omega
  have hL' : (0 : F) ≤ (((numLR a.n nNew off).1 : Int) : F) := by exact_mod_cast hL
  have hR' : (0 : F) ≤ (((numLR a.n nNew off).2 : Int) : F) := by exact_mod_cast hR
  have m1 := mul_nonneg hL' hc.le
  have m2 := mul_nonneg hR' hc.le
  constructor
  · simp only [resizeAxis, Bool.false_eq_true, ↓reduceIte, Axis.gridMin]
    split_ifs <;> push_cast <;> linarith
  · simp only [resizeAxis, Bool.false_eq_true, ↓reduceIte, Axis.gridMax]
    split_ifs <;> push_cast <;> linarith
end ordered

section offsetFromSpaces

/-- **An accepted pair of partitions is aligned.**  If `_offset_from_spaces` (exact arithmetic)
returns the array offset `k` for one axis, then `k ≤ |n_ran - n_dom|` and the block that
`resize_array` copies with this offset sits on coinciding grid points: for an extension, grid
point `k` of the range is the first grid point of the domain; for a restriction the range starts
at grid point `k` of the domain; in an axis of unchanged length the grids coincide and the offset is 0.  (Ranges shifted to the
other side, shifted too far, or by a non-multiple of the cell side are refused — before repo fix
C16-F5 the absolute value of the shift was taken and such ranges were accepted.) -/
theorem C16.offset_from_spaces_aligned (dom ran : Axis Rat) (k : Nat) (hc : dom.cell ≠ 0)
    (h : offsetFromAxes dom ran = .ok k) :
    (dom.n = ran.n → k = 0 ∧ ran.gridMin = dom.gridMin) ∧
    (dom.n < ran.n → k ≤ ran.n - dom.n ∧ ran.gridMin + (k : Rat) * dom.cell = dom.gridMin) ∧
    (ran.n < dom.n → k ≤ dom.n - ran.n ∧ ran.gridMin = dom.gridMin + (k : Rat) * dom.cell) := by
  unfold offsetFromAxes at h
  split_ifs at h with h0 hg h1 h2
  · simp only [Except.ok.injEq] at h
    exact ⟨fun _ => ⟨h.symm, hg.symm⟩, fun hh => by omega, fun hh => by omega⟩
  · simp only [Except.ok.injEq] at h
    simp only [ne_eq, not_not] at h1
    have hq : ((shiftCells dom ran).num : Rat) = shiftCells dom ran :=
      Rat.coe_int_num_of_den_eq_one h1
    have hk : ((k : Int)) = (shiftCells dom ran).num := by omega
    have hkq : (k : Rat) = shiftCells dom ran := by
      rw [← hq, ← hk]; simp
    refine ⟨fun hh => absurd hh h0, fun hh => ⟨by omega, ?_⟩, fun hh => ⟨by omega, ?_⟩⟩
    · rw [hkq, shiftCells, if_pos hh]; field_simp; ring
    · rw [hkq, shiftCells, if_neg (by omega)]; field_simp; ring


/-- **`_resize_discr` followed by `_offset_from_spaces` returns the requested offset.**  For
`offset = None` or `0 ≤ offset ≤ |n_new - n|` the range built from `ran_shp` is accepted and the
array offset is `|num_l|` (`= offset` when given, see `C16.range_grid_aligned`). -/
theorem C16.offset_from_spaces_roundtrip (a : Axis Rat) (nNew : Nat) (off : Option Int) (bl' br' : Bool)
    (hn : AxisOK a.n a.bl a.br) (hN : AxisOK nNew bl' br') (hc : a.cell ≠ 0)
    (hoff : ∀ o, off = some o → 0 ≤ o ∧ o ≤ (((nNew : Int) - a.n).natAbs : Int)) :
    offsetFromAxes a (resizeAxis a nNew off bl' br') =
      .ok (numLR a.n nNew off).1.natAbs := by
  have hg := C16.range_grid_min a nNew off bl' br' hn hN
  have hnn : (resizeAxis a nNew off bl' br').n = nNew := rfl
  by_cases h0 : a.n = nNew
  · have : (numLR a.n nNew off).1 = 0 := by simp [numLR, h0]
    rw [this] at hg
    simp [offsetFromAxes, hnn, h0, numLR, hg]
  · -- sign facts about num_l
    have hs : (if nNew > a.n then (1 : Int) else -1) * (numLR a.n nNew off).1 =
        ((numLR a.n nNew off).1.natAbs : Int) ∧
        ((numLR a.n nNew off).1.natAbs : Int) ≤ (((nNew : Int) - a.n).natAbs : Int) := by
      cases off with
      | none => simp only [numLR, if_neg h0]; split_ifs <;> omega
      | some o =>
        have := hoff o rfl
        simp only [numLR, if_neg h0]; split_ifs <;> omega
    have hq : shiftCells a (resizeAxis a nNew off bl' br') =
        (((numLR a.n nNew off).1.natAbs : Int) : Rat) := by
      rw [← hs.1]
      simp only [shiftCells, hnn, hg]
      split_ifs <;> (push_cast; field_simp; ring)
    simp only [offsetFromAxes, hnn, if_neg h0, hq, Rat.den_intCast, Rat.num_intCast, ne_eq,
      not_true_eq_false, ↓reduceIte, Int.toNat_natCast]
    rw [if_neg (by omega)]

/-- the refusals are live: a range shifted to the RIGHT of the domain (audit example),
shifted too far to the left, and shifted by half a cell -/
example : offsetFromAxes ⟨0, 1, 4, false, false⟩ ⟨1/4, 7/4, 6, false, false⟩ =
    .error .notContained := by
  have h : shiftCells ⟨0, 1, 4, false, false⟩ ⟨1/4, 7/4, 6, false, false⟩ = ((-1 : Int) : Rat) := by
    norm_num [shiftCells, Axis.gridMin, Axis.cell]
  unfold offsetFromAxes; simp only [h]; simp
example : offsetFromAxes ⟨0, 1, 4, false, false⟩ ⟨-1/8, 11/8, 6, false, false⟩ =
    .error .notMultiple := by
  have h : shiftCells ⟨0, 1, 4, false, false⟩ ⟨-1/8, 11/8, 6, false, false⟩ = mkRat 1 2 := by
    norm_num [shiftCells, Axis.gridMin, Axis.cell]
  have hd : (mkRat 1 2).den = 2 := by decide
  unfold offsetFromAxes; simp only [h, hd]; simp
example : offsetFromAxes ⟨0, 1, 4, false, false⟩ ⟨-1/4, 5/4, 6, false, false⟩ = .ok 1 := by
  have h : shiftCells ⟨0, 1, 4, false, false⟩ ⟨-1/4, 5/4, 6, false, false⟩ = ((1 : Int) : Rat) := by
    norm_num [shiftCells, Axis.gridMin, Axis.cell]
  unfold offsetFromAxes; simp only [h]; simp
example : offsetFromAxes ⟨0, 1, 4, false, false⟩ ⟨-1, 1/2, 6, false, false⟩ =
    .error .notContained := by
  have h : shiftCells ⟨0, 1, 4, false, false⟩ ⟨-1, 1/2, 6, false, false⟩ = ((4 : Int) : Rat) := by
    norm_num [shiftCells, Axis.gridMin, Axis.cell]
  unfold offsetFromAxes; simp only [h]; simp

end offsetFromSpaces

section weighted
variable {F : Type} [Field F] [DecidableEq F]

/-- **Adjoint identity in the weighted inner products** (one axis), for the scaling the code
performs.  `DiscretizedSpace.inner` weights entry `i` by `innerWeight w frac i` = tensor-space
weighting (a constant — by default the cell volume — or an array) times boundary-cell fraction.
For every mode, all sizes, admissible offsets and contents, every combination of constant and
array weightings of range and domain and all boundary fractions (domain weights non-zero),
`ResizingOperatorAdjoint._call` as coded (`opAdjointW`: fractions of the range, weights or ratio
of the constants, transpose-resize, fractions and weights of the domain) satisfies
`⟨R x, y⟩_range = ⟨x, R* y⟩_domain`.  (With the ratio of the two constants left out — the code
before repo fix C16-F4 — the statement is false whenever the constants differ.) -/
theorem C16.weighted_adjoint (mode : Mode) (n m off : Nat) (x y : Nat → F)
    (wR wD : Weighting F) (fR fD : Nat → F) (h : Admissible mode n m off)
    (hD : ∀ j < n, wD.at j ≠ 0 ∧ fD j ≠ 0) :
    ∃ r ra, resize1d mode .forward n m off 0 x = .ok r ∧
      opAdjointW mode m n off wR fR wD fD y = .ok ra ∧
      ∑ i ∈ range m, innerWeight wR fR i * (r i * y i) =
        ∑ j ∈ range n, innerWeight wD fD j * (x j * ra j) := by
  cases wR with
  | const a =>
    cases wD with
    | const b =>
      obtain ⟨r, rt, h1, h2, h3⟩ := C16.adjoint_transpose mode n m off x (fun i => y i * fR i) h
      refine ⟨r, fun j => rt j / fD j * (a / b), h1, by simp only [opAdjointW, h2], ?_⟩
      have e1 : ∑ i ∈ range m, innerWeight (.const a) fR i * (r i * y i) =
          a * ∑ i ∈ range m, y i * fR i * r i := by
        rw [mul_sum]; exact sum_congr rfl (fun i _ => by simp only [innerWeight, Weighting.at]; ring)
      have e2 : ∑ j ∈ range n, innerWeight (.const b) fD j * (x j * (rt j / fD j * (a / b))) =
          a * ∑ j ∈ range n, x j * rt j := by
        rw [mul_sum]
        exact sum_congr rfl (fun j hj => by
          obtain ⟨hw, hf⟩ := hD j (mem_range.1 hj)
          simp only [innerWeight, Weighting.at] at hw ⊢
          field_simp)
      rw [e1, e2, h3]
    | array v =>
      obtain ⟨r, rt, h1, h2, h3⟩ :=
        C16.adjoint_transpose mode n m off x (fun i => y i * fR i * a) h
      refine ⟨r, fun j => rt j / fD j / v j, h1, by simp only [opAdjointW, Weighting.at, h2], ?_⟩
      have e1 : ∑ i ∈ range m, innerWeight (.const a) fR i * (r i * y i) =
          ∑ i ∈ range m, y i * fR i * a * r i :=
        sum_congr rfl (fun i _ => by simp only [innerWeight, Weighting.at]; ring)
      have e2 : ∑ j ∈ range n, innerWeight (.array v) fD j * (x j * (rt j / fD j / v j)) =
          ∑ j ∈ range n, x j * rt j :=
        sum_congr rfl (fun j hj => by
          obtain ⟨hw, hf⟩ := hD j (mem_range.1 hj)
          simp only [innerWeight, Weighting.at] at hw ⊢
          field_simp)
      rw [e1, e2, h3]
  | array u =>
    obtain ⟨r, rt, h1, h2, h3⟩ :=
      C16.adjoint_transpose mode n m off x (fun i => y i * fR i * u i) h
    refine ⟨r, fun j => rt j / fD j / wD.at j, h1, ?_, ?_⟩
    · cases wD <;> simp only [opAdjointW, Weighting.at, h2]
    · have e1 : ∑ i ∈ range m, innerWeight (.array u) fR i * (r i * y i) =
          ∑ i ∈ range m, y i * fR i * u i * r i :=
        sum_congr rfl (fun i _ => by simp only [innerWeight, Weighting.at]; ring)
      have e2 : ∑ j ∈ range n, innerWeight wD fD j * (x j * (rt j / fD j / wD.at j)) =
          ∑ j ∈ range n, x j * rt j :=
        sum_congr rfl (fun j hj => by
          obtain ⟨hw, hf⟩ := hD j (mem_range.1 hj)
          simp only [innerWeight]
          field_simp)
      rw [e1, e2, h3]


/-- **Adjoint identity in the weighted inner products, any number of axes**, for arbitrary
diagonal weights `WR`, `WD` of range and domain (`WD` nowhere zero) — in the code the
tensor-space weighting times the product over the axes of the boundary-cell fractions (corner
cells get the factors of every axis, `only_once=False`): `W_D⁻¹ Rᵀ W_R` (`opAdjointND`, in the
code's axis order) is the adjoint of the forward resize. -/
theorem C16.weighted_adjoint_nd (mode : Mode) (sIn sOut offs : List Nat)
    (h : AdmissibleND mode sIn sOut offs) (X Y WR WD : List Nat → F) (hWD : ∀ idx, WD idx ≠ 0) :
    sumBox sOut (fun idx => WR idx *
        (resizeAxes mode .forward (0 : F) 0 sIn sOut offs X idx * Y idx)) =
      sumBox sIn (fun idx => WD idx * (X idx * opAdjointND mode sOut sIn offs WR WD Y idx)) := by
  have := C16.adjoint_transpose_nd mode sIn sOut offs h X (fun i => WR i * Y i)
  have e1 : (fun idx => WR idx * (resizeAxes mode .forward (0 : F) 0 sIn sOut offs X idx * Y idx)) =
      (fun idx => WR idx * Y idx * resizeAxes mode .forward (0 : F) 0 sIn sOut offs X idx) := by
    funext idx; ring
  have e2 : (fun idx => WD idx * (X idx * opAdjointND mode sOut sIn offs WR WD Y idx)) =
      (fun idx => X idx * resizeAxes mode .adjoint (0 : F) 0 sOut sIn offs
        (fun i => WR i * Y i) idx) := by
    funext idx
    have := hWD idx
    simp only [opAdjointND]
    field_simp
  rw [e1, e2, this]

/-- **The adjoint as coded is `W_D⁻¹ Rᵀ W_R`.**  Whatever the weightings (constant/constant with
the ratio of the constants, or arrays), boundary fractions, mode, sizes and offset: if
`ResizingOperatorAdjoint._call` as coded (`opAdjointW`: fractions, weights or ratio,
transpose-resize, fractions, weights) returns `ra`, then `ra` is, entry for entry, the normal
form `opAdjointND` (multiply by the inner-product weights of the range, transpose-resize,
divide by those of the domain) on the one-axis shapes — the two executed definitions agree.
Uses that every adjoint resize is homogeneous (`LinArr.smul`); no non-zero hypothesis. -/
theorem C16.adjoint_scaling_normal_form (mode : Mode) (m n off : Nat) (wR wD : Weighting F)
    (fR fD y ra : Nat → F) (h : opAdjointW mode m n off wR fR wD fD y = .ok ra) (j : Nat) :
    opAdjointND mode [m] [n] [off] (fun idx => innerWeight wR fR (idx.getD 0 0))
      (fun idx => innerWeight wD fD (idx.getD 0 0)) (fun idx => y (idx.getD 0 0)) [j] = ra j := by
  simp only [opAdjointND, resizeAxes, alongAxis, List.set_cons_zero, List.getD_cons_zero]
  have hlin := LinArr.resizeCore (K := F) mode .adjoint m n off
  cases wR with
  | const a =>
    cases wD with
    | const b =>
      simp only [opAdjointW] at h
      cases hr : resize1d mode .adjoint m n off 0 (fun i => y i * fR i) with
      | error e => simp [hr] at h
      | ok r =>
        simp only [hr, Except.ok.injEq] at h
        obtain ⟨_, rfl⟩ := (ok_iff ..).1 hr
        subst h
        simp only [innerWeight, Weighting.at]
        have e : (fun t => a * fR t * y t) = (fun t => a * (y t * fR t)) := by funext t; ring
        rw [e, LinArr.smul hlin]
        rw [div_mul_div_comm]; ring_nf
    | array v =>
      simp only [opAdjointW, Weighting.at] at h
      cases hr : resize1d mode .adjoint m n off 0 (fun i => y i * fR i * a) with
      | error e => simp [hr] at h
      | ok r =>
        simp only [hr, Except.ok.injEq] at h
        obtain ⟨_, rfl⟩ := (ok_iff ..).1 hr
        subst h
        simp only [innerWeight, Weighting.at]
        have e : (fun t => a * fR t * y t) = (fun t => y t * fR t * a) := by funext t; ring
        rw [e, div_div, mul_comm (fD j)]
  | array u =>
    cases wD with
    | const b =>
      simp only [opAdjointW, Weighting.at] at h
      cases hr : resize1d mode .adjoint m n off 0 (fun i => y i * fR i * u i) with
      | error e => simp [hr] at h
      | ok r =>
        simp only [hr, Except.ok.injEq] at h
        obtain ⟨_, rfl⟩ := (ok_iff ..).1 hr
        subst h
        simp only [innerWeight, Weighting.at]
        have e : (fun t => u t * fR t * y t) = (fun t => y t * fR t * u t) := by funext t; ring
        rw [e, div_div, mul_comm (fD j)]
    | array v =>
      simp only [opAdjointW, Weighting.at] at h
      cases hr : resize1d mode .adjoint m n off 0 (fun i => y i * fR i * u i) with
      | error e => simp [hr] at h
      | ok r =>
        simp only [hr, Except.ok.injEq] at h
        obtain ⟨_, rfl⟩ := (ok_iff ..).1 hr
        subst h
        simp only [innerWeight, Weighting.at]
        have e : (fun t => u t * fR t * y t) = (fun t => y t * fR t * u t) := by funext t; ring
        rw [e, div_div, mul_comm (fD j)]

/-- non-vacuity: range weighting 3, domain weighting 1/4 (the audit example), constant mode 6 → 4 -/
example : ∃ ra, opAdjointW .constant 6 4 1 (.const (3 : Rat)) (fun _ => 1) (.const (1 / 4))
    (fun _ => 1) (fun i => [1, 1, 2, 3, 5, 8].getD i 0) = .ok ra := ⟨_, rfl⟩

end weighted

/-- **Sensitivity (the repaired defect C16-F2, about the OLD adjoint = plain transpose).**  With
half-weight boundary cells in the domain (`nodes_on_bdry=True`: weights `(1,2,2,1)/2·h` against
`(2,2)/2·h` in the range) the unscaled transpose `resize_array(..., direction='adjoint')` is not
the adjoint: cropping 4 → 2 entries at offset 0 with `x = (1,2,3,4)`, `y = (5,6)` gives
`34 ≠ 29` (times `h/2`). -/
theorem C16.plain_transpose_not_adjoint_with_bdry_fractions :
    ∃ r rt, resize1d .constant .forward 4 2 0 (0 : Int) (fun i => [1, 2, 3, 4].getD i 0) = .ok r ∧
      resize1d .constant .adjoint 2 4 0 (0 : Int) (fun i => [5, 6].getD i 0) = .ok rt ∧
      ∑ i ∈ range 2, ([2, 2].getD i 0) * ([5, 6].getD i 0 * r i) ≠
        ∑ j ∈ range 4, ([1, 2, 2, 1].getD j 0) * ([1, 2, 3, 4].getD j 0 * rt j) :=
  ⟨_, _, rfl, rfl, by decide⟩

/-- The five pad modes of the model are exactly `_SUPPORTED_RESIZE_PAD_MODES` of the source
(regenerated on every run). -/
theorem C16.supported_modes :
    OdlModel.Gen.PadSlices.supportedModes =
      ["constant", "symmetric", "periodic", "order0", "order1"] := rfl

/-! ### Non-vacuity: the hypotheses are satisfiable and the model computes the documented examples -/

example : Admissible .symmetric 3 7 2 := by simp [Admissible, PadOK]
example : Admissible .periodic 3 9 3 := by simp [Admissible, PadOK]
example : ¬ Admissible .symmetric 3 7 3 := by simp [Admissible, PadOK]
example : AdmissibleND .order1 [3, 4] [5, 2] [1, 1] := by simp [AdmissibleND, Admissible, PadOK]

/-- docstring of `resize_array`: symmetric, periodic, order0, order1, constant -/
example : ∃ r, resize1d .symmetric .forward 3 7 2 (0 : Int) (fun i => [1, 2, 3].getD i 0) = .ok r ∧
    (List.range 7).map r = [3, 2, 1, 2, 3, 2, 1] := ⟨_, rfl, by decide⟩
example : ∃ r, resize1d .periodic .forward 3 7 2 (0 : Int) (fun i => [1, 2, 3].getD i 0) = .ok r ∧
    (List.range 7).map r = [2, 3, 1, 2, 3, 1, 2] := ⟨_, rfl, by decide⟩
example : ∃ r, resize1d .order0 .forward 3 7 2 (0 : Int) (fun i => [1, 2, 3].getD i 0) = .ok r ∧
    (List.range 7).map r = [1, 1, 1, 2, 3, 3, 3] := ⟨_, rfl, by decide⟩
example : ∃ r, resize1d .order1 .forward 3 7 2 (0 : Int) (fun i => [1, 2, 3].getD i 0) = .ok r ∧
    (List.range 7).map r = [-1, 0, 1, 2, 3, 4, 5] := ⟨_, rfl, by decide⟩
example : ∃ r, resize1d .constant .forward 3 7 2 (-1 : Int) (fun i => [1, 2, 3].getD i 0) = .ok r ∧
    (List.range 7).map r = [-1, -1, 1, 2, 3, -1, -1] := ⟨_, rfl, by decide⟩
/-- adjoint direction (accumulation of the outer parts; first moments for order1) -/
example : ∃ r, resize1d .order1 .adjoint 7 3 2 (0 : Int) (fun i => (i : Int) + 1) = .ok r ∧
    (List.range 3).map r = [10, -20, 38] := ⟨_, rfl, by decide⟩
/-- the guards are live: one entry too much is refused -/
example : resize1d .symmetric .forward 3 7 3 (0 : Int) (fun _ => 1) = .error .symmetricTooLong := rfl
example : resize1d .periodic .forward 3 8 4 (0 : Int) (fun _ => 1) = .error .periodicTooLong := rfl
/-- Python slice semantics matter: without the source's `-1 ↦ None` fix-up the reversed inner
slice of the symmetric mode would be empty instead of reaching index 0. -/
example : (pySlice ⟨some 1, some (-1), true⟩ 5).count = 0 ∧
    (pySlice ⟨some 1, noneIfMinusOne (-1), true⟩ 5).count = 2 := by decide

/-! ### ROUND 4: the overlapping block in n dimensions, `ResizingOperator.inverse` and
`ResizingOperator.derivative` (`Model/ResizeOperator.lean`: `ROp.call/.inverse/.derivative`,
executed by the driver ops `opinv`, `opderiv`, `invoff` and compared with the real operators in
the `derived` stream) -/

section round4
variable {K : Type} [CommRing K] [DecidableEq K]

/-- **The overlapping block is copied unchanged, any number of axes** (growing in some axes
while shrinking in others, every mode, every `pad_const`, all admissible shapes/offsets, all
contents).  For every multi-index `idx` of the output whose coordinate lies in `[off, off + n)`
on each growing axis (and anywhere in the output on the other axes), the n-d forward resize in
the code's axis order returns the input entry at `srcIdx` = `idx - off` on growing axes,
`idx + off` on shrinking axes, `idx` on unchanged axes. -/
theorem C16.overlap_copied_nd (mode : Mode) (c : K) (sIn sOut offs : List Nat)
    (h : AdmissibleND mode sIn sOut offs) (X : List Nat → K) (idx : List Nat)
    (hidx : InOverlap sIn sOut offs idx) :
    resizeAxes mode .forward c 0 sIn sOut offs X idx = X (srcIdx sIn sOut offs idx) := by
  simpa using axes_overlap mode c sIn sOut offs [] idx X h hidx

/-- non-vacuity: 2 × 4 → 4 × 2 (axis 0 grows at offset 1, axis 1 shrinks at offset 2), order1:
output entry (2, 1) is input entry (1, 3) -/
example : AdmissibleND .order1 [2, 4] [4, 2] [1, 2] ∧ InOverlap [2, 4] [4, 2] [1, 2] [2, 1] ∧
    srcIdx [2, 4] [4, 2] [1, 2] [2, 1] = [1, 3] ∧
    resizeAxes .order1 .forward (0 : Int) 0 [2, 4] [4, 2] [1, 2]
      (fun idx => (10 * idx.getD 0 0 + idx.getD 1 0 : Nat)) [2, 1] = 13 := by
  refine ⟨by simp [AdmissibleND, Admissible, PadOK], by simp [InOverlap, InOvAx],
    by simp [srcIdx, srcAx], by decide⟩

/-- **Cropping undoes extension, any number of axes.**  If no axis shrinks, extending `X` from
shape `sIn` to `sOut` (any mode, any `pad_const`, any admissible offsets) and resizing the result
back to `sIn` with the same offsets — in any mode `mode'`, with any constant `c'` — returns `X`
on the whole box `sIn`. -/
theorem C16.crop_extend_id_nd (mode mode' : Mode) (c c' : K) (sIn sOut offs : List Nat)
    (h : AdmissibleND mode sIn sOut offs) (hext : Extends sIn sOut) (X : List Nat → K)
    (idx : List Nat) (hidx : InBox sIn idx) :
    resizeAxes mode' .forward c' 0 sOut sIn offs
      (resizeAxes mode .forward c 0 sIn sOut offs X) idx = X idx := by
  obtain ⟨h1, h2, h3⟩ := overlap_back mode sIn sOut offs idx h hext hidx
  rw [C16.overlap_copied_nd mode' c' sOut sIn offs (admND_back mode mode' sIn sOut offs h hext)
    _ idx h1, C16.overlap_copied_nd mode c sIn sOut offs h X _ h2, h3]

/-- **`op.inverse` is a left inverse of an extension** (`ResizingOperator.inverse`: the operator
between the swapped spaces with the same `pad_mode`, `pad_const` and offsets).  For every
operator none of whose axes shrinks: if `op(X)` is accepted then `op.inverse(op(X))` is accepted
and equals `X` on the whole domain box — every mode, every `pad_const`, any number of axes.
(In restriction axes the inverse is only a right inverse: `C16.inverse_right_inverse`.) -/
theorem C16.inverse_left_inverse (op : ROp K) (hl1 : op.sIn.length = op.sOut.length)
    (hl2 : op.sIn.length = op.offs.length) (hext : Extends op.sIn op.sOut)
    (X R : List Nat → K) (hR : op.call X = .ok R) :
    ∃ R', op.inverse.call R = .ok R' ∧ ∀ idx, InBox op.sIn idx → R' idx = X idx := by
  obtain ⟨mode, c, sIn, sOut, offs⟩ := op
  simp only [ROp.call, ROp.inverse, resizeND] at hR ⊢ hl1 hl2 hext
  cases hc : checkND mode .forward c sIn sOut offs with
  | some e => rw [hc] at hR; cases hR
  | none =>
    rw [hc] at hR
    simp only [Except.ok.injEq] at hR
    subst hR
    have hadm := (C16.nd_accepts_iff mode c sIn sOut offs hl1 hl2).1 hc
    have hback := admND_back mode mode sIn sOut offs hadm hext
    rw [(C16.nd_accepts_iff mode c sOut sIn offs hl1.symm (hl1 ▸ hl2)).2 hback]
    exact ⟨_, rfl, fun idx hidx =>
      C16.crop_extend_id_nd mode mode c c sIn sOut offs hadm hext X idx hidx⟩

/-- **… and a right inverse of a restriction**: if no axis of `op` grows and `op.inverse(Y)` is
accepted (the padding of the inverse respects the limits of the mode), then
`op(op.inverse(Y))` is accepted and equals `Y` on the whole range box. -/
theorem C16.inverse_right_inverse (op : ROp K) (hl1 : op.sIn.length = op.sOut.length)
    (hl2 : op.sIn.length = op.offs.length) (hext : Extends op.sOut op.sIn)
    (Y R : List Nat → K) (hR : op.inverse.call Y = .ok R) :
    ∃ R', op.call R = .ok R' ∧ ∀ idx, InBox op.sOut idx → R' idx = Y idx := by
  have := C16.inverse_left_inverse op.inverse (by simpa [ROp.inverse] using hl1.symm)
    (by simpa [ROp.inverse] using (hl1 ▸ hl2)) (by simpa [ROp.inverse] using hext) Y R hR
  simpa [ROp.inverse] using this

/-- non-vacuity (symmetric 2 × 4 → 3 × 6 with offsets (0, 1)): extension, then the inverse
returns the input -/
example : ∃ R R', (⟨.symmetric, (0 : Int), [2, 4], [3, 6], [0, 1]⟩ : ROp Int).call
      (fun idx => (idx.getD 1 0 : Int) + 1) = .ok R ∧
    (⟨.symmetric, (0 : Int), [2, 4], [3, 6], [0, 1]⟩ : ROp Int).inverse.call R = .ok R' ∧
    [R [2, 0], R [2, 5]] = [2, 3] ∧ [R' [0, 0], R' [0, 3]] = [1, 4] := by
  have h1 : checkND .symmetric .forward (0 : Int) [2, 4] [3, 6] [0, 1] = none := by decide
  have h2 : checkND .symmetric .forward (0 : Int) [3, 6] [2, 4] [0, 1] = none := by decide
  refine ⟨resizeAxes .symmetric .forward 0 0 [2, 4] [3, 6] [0, 1]
      (fun idx => (idx.getD 1 0 : Int) + 1),
    resizeAxes .symmetric .forward 0 0 [3, 6] [2, 4] [0, 1]
      (resizeAxes .symmetric .forward 0 0 [2, 4] [3, 6] [0, 1]
        (fun idx => (idx.getD 1 0 : Int) + 1)), ?_, ?_, by decide, by decide⟩
  · simp only [ROp.call, resizeND, h1]
  · simp only [ROp.call, ROp.inverse, resizeND, h2]

/-- **`op.derivative` is the linear part of `op`** (`ResizingOperator.derivative`: the
zero-padding variant for `pad_mode='constant'`, `pad_const ≠ 0`, otherwise `self`).  For every
operator (every mode, every `pad_const`, any number of axes, growing in some while shrinking in
others) and all `X`, `X'`: if `op(X)` is accepted then so are `op(X')` and
`op.derivative(X - X')`, and `op(X) - op(X') = op.derivative(X - X')` at EVERY multi-index.
Hence `op` is affine and its derivative at any point is `op.derivative`; for a linear operator
(`op.derivative = op`, by construction) this is additivity of `op`. -/
theorem C16.derivative_is_linear_part (op : ROp K) (X X' R : List Nat → K)
    (hR : op.call X = .ok R) :
    ∃ R' D, op.call X' = .ok R' ∧ op.derivative.call (fun idx => X idx - X' idx) = .ok D ∧
      ∀ idx, R idx - R' idx = D idx := by
  obtain ⟨mode, c, sIn, sOut, offs⟩ := op
  simp only [ROp.call, resizeND] at hR ⊢
  cases hc : checkND mode .forward c sIn sOut offs with
  | some e => rw [hc] at hR; cases hR
  | none =>
    rw [hc] at hR
    simp only [Except.ok.injEq] at hR
    subst hR
    have hsub := fun idx => axes_fwd_sub mode c sIn sOut offs 0 X X' _ (fun _ => rfl) idx
    by_cases hd : mode = .constant ∧ c ≠ 0
    · obtain ⟨rfl, hc0⟩ := hd
      simp only [ROp.derivative, hc0, ne_eq, not_false_eq_true, and_self, ↓reduceIte]
      rw [checkND_fwd_c .constant 0 c, hc]
      exact ⟨_, _, rfl, rfl, hsub⟩
    · simp only [ROp.derivative, if_neg hd, hc]
      refine ⟨_, _, rfl, rfl, fun idx => ?_⟩
      rw [hsub idx]
      by_cases hm : mode = .constant
      · have : c = 0 := by
          by_contra hne; exact hd ⟨hm, hne⟩
        rw [this]
      · exact (axes_c_irrelevant mode hm c sIn sOut offs 0 _ idx).symm

/-- by construction: the derivative is linear, is `op` itself for a linear `op`, keeps spaces,
mode and offsets, and the inverse of the inverse is `op` -/
theorem C16.derivative_inverse_shape (op : ROp K) :
    op.derivative.isLinear = true ∧ (op.isLinear = true → op.derivative = op) ∧
      (op.derivative.mode, op.derivative.sIn, op.derivative.sOut, op.derivative.offs) =
        (op.mode, op.sIn, op.sOut, op.offs) ∧
      op.inverse.inverse = op ∧ op.inverse.derivative = op.derivative.inverse := by
  obtain ⟨mode, c, sIn, sOut, offs⟩ := op
  by_cases hd : mode = .constant ∧ c ≠ 0
  · obtain ⟨rfl, hc0⟩ := hd
    simp [ROp.derivative, ROp.isLinear, ROp.inverse, hc0]
  · simp only [ROp.derivative, ROp.isLinear, ROp.inverse, if_neg hd]
    by_cases hm : mode = .constant <;> simp_all

/-- non-vacuity: `pad_const = 5`, 2 → 4 at offset 1 and a restriction axis 3 → 2 at offset 1 -/
example : ∃ R R' D, (⟨.constant, (5 : Int), [2, 3], [4, 2], [1, 1]⟩ : ROp Int).call
      (fun idx => ((3 * idx.getD 0 0 + idx.getD 1 0 : Nat) : Int)) = .ok R ∧
    (⟨.constant, (5 : Int), [2, 3], [4, 2], [1, 1]⟩ : ROp Int).call (fun _ => 1) = .ok R' ∧
    (⟨.constant, (5 : Int), [2, 3], [4, 2], [1, 1]⟩ : ROp Int).derivative.call
      (fun idx => ((3 * idx.getD 0 0 + idx.getD 1 0 : Nat) : Int) - 1) = .ok D ∧
    [R [0, 0], R [1, 0], R' [0, 0], R' [1, 0], D [0, 0], D [1, 0]] = [5, 1, 5, 1, 0, 0] ∧
    (⟨.constant, (5 : Int), [2, 3], [4, 2], [1, 1]⟩ : ROp Int).derivative.c = 0 := by
  have h1 : checkND .constant .forward (5 : Int) [2, 3] [4, 2] [1, 1] = none := by decide
  have h0 : checkND .constant .forward (0 : Int) [2, 3] [4, 2] [1, 1] = none := by decide
  refine ⟨resizeAxes .constant .forward 5 0 [2, 3] [4, 2] [1, 1]
      (fun idx => ((3 * idx.getD 0 0 + idx.getD 1 0 : Nat) : Int)),
    resizeAxes .constant .forward 5 0 [2, 3] [4, 2] [1, 1] (fun _ => 1),
    resizeAxes .constant .forward 0 0 [2, 3] [4, 2] [1, 1]
      (fun idx => ((3 * idx.getD 0 0 + idx.getD 1 0 : Nat) : Int) - 1),
    ?_, ?_, ?_, by decide, by decide⟩
  · simp only [ROp.call, resizeND, h1]
  · simp only [ROp.call, resizeND, h1]
  · simp [ROp.call, ROp.derivative, resizeND, h0]

/-- **`op.adjoint` exists exactly for the linear operators and is then the transpose of `op`**
(`ResizingOperator.adjoint` without the weights of the inner products, `ROp.adjointCall`; the
weights are the subject of `C16.weighted_adjoint_nd`).  For every operator whose forward call is
accepted: a non-linear one (`constant` with `pad_const ≠ 0`) has no adjoint
(`NotImplementedError`; by construction); for a linear one — any mode, any number of axes,
also with an ignored `pad_const ≠ 0` in a non-constant mode — the adjoint call is accepted and
`Σ_{range box} Y·op(X) = Σ_{domain box} X·op.adjoint(Y)`. -/
theorem C16.adjoint_call_transpose (op : ROp K) (hl1 : op.sIn.length = op.sOut.length)
    (hl2 : op.sIn.length = op.offs.length) (X Y R : List Nat → K) (hR : op.call X = .ok R) :
    (op.isLinear = false → op.adjointCall Y = none) ∧
    (op.isLinear = true → ∃ Rt, op.adjointCall Y = some (.ok Rt) ∧
      sumBox op.sOut (fun idx => Y idx * R idx) = sumBox op.sIn (fun idx => X idx * Rt idx)) := by
  obtain ⟨mode, c, sIn, sOut, offs⟩ := op
  simp only [ROp.call, resizeND] at hR hl1 hl2
  cases hc : checkND mode .forward c sIn sOut offs with
  | some e => rw [hc] at hR; cases hR
  | none =>
    rw [hc] at hR
    simp only [Except.ok.injEq] at hR
    subst hR
    have hadm := (C16.nd_accepts_iff mode c sIn sOut offs hl1 hl2).1 hc
    refine ⟨fun hlin => by simp [ROp.adjointCall, hlin], fun hlin => ?_⟩
    have hchk : checkND mode .adjoint (0 : K) sOut sIn offs = none := by
      simp only [checkND, offsetsBad_symm, offsetsBad_false_of_adm hadm,
        checkAxes_adj_of_adm mode sIn sOut offs hadm]
      simp
    refine ⟨resizeAxes mode .adjoint 0 0 sOut sIn offs Y,
      by simp only [ROp.adjointCall, hlin, ↓reduceIte, resizeND, hchk], ?_⟩
    have hfwd : resizeAxes mode .forward c 0 sIn sOut offs X =
        resizeAxes mode .forward 0 0 sIn sOut offs X := by
      by_cases hm : mode = .constant
      · have : c = 0 := by simpa [ROp.isLinear, hm] using hlin
        rw [this]
      · funext idx; exact axes_c_irrelevant mode hm c sIn sOut offs 0 X idx
    rw [hfwd]
    exact C16.adjoint_transpose_nd mode sIn sOut offs hadm X Y

/-- non-vacuity: order0 with an (ignored) `pad_const = 2`, 2 → 4 at offset 1: `Rᵀ(1,2,3,4) =
(3, 7)`; constant with `pad_const = 2` has no adjoint -/
example : (⟨.order0, (2 : Int), [2], [4], [1]⟩ : ROp Int).isLinear = true ∧
    (∃ Rt, (⟨.order0, (2 : Int), [2], [4], [1]⟩ : ROp Int).adjointCall
      (fun idx => (idx.getD 0 0 : Int) + 1) = some (.ok Rt) ∧ [Rt [0], Rt [1]] = [3, 7]) ∧
    (⟨.constant, (2 : Int), [2], [4], [1]⟩ : ROp Int).adjointCall (fun _ => 1) = none := by
  have h : checkND .order0 .adjoint (0 : Int) [4] [2] [1] = none := by decide
  refine ⟨by decide, ⟨resizeAxes .order0 .adjoint 0 0 [4] [2] [1]
    (fun idx => (idx.getD 0 0 : Int) + 1), ?_, by decide⟩, by simp [ROp.adjointCall, ROp.isLinear]⟩
  simp [ROp.adjointCall, ROp.isLinear, resizeND, h]

end round4

/-- **The constructor called by `inverse` finds the same offsets.**  `ResizingOperator.inverse`
does not pass `self.offset`; the new operator recomputes it with `_offset_from_spaces(range,
domain)`.  For one axis with equal cell sides (`C16.range_cell_unchanged`; checked by the
constructor for an explicit range) the result — offset or refusal — is the one of
`_offset_from_spaces(domain, range)`, for all intervals and sizes: the model's `ROp.inverse`
may keep the offsets. -/
theorem C16.inverse_offset_same (dom ran : Axis Rat) (hcell : dom.cell = ran.cell) :
    (match offsetFromAxes ran dom, offsetFromAxes dom ran with
      | .ok k, .ok k' => k = k'
      | .error e, .error e' => e = e'
      | _, _ => False) := by
  have hs : dom.n ≠ ran.n → shiftCells ran dom = shiftCells dom ran := by
    intro hne
    simp only [shiftCells, hcell]
    rcases Nat.lt_or_gt_of_ne hne with h | h
    · rw [if_neg (by omega), if_pos h]; ring
    · rw [if_pos h, if_neg (by omega)]; ring
  have hab : ((ran.n : Int) - dom.n).natAbs = ((dom.n : Int) - ran.n).natAbs := by omega
  unfold offsetFromAxes
  by_cases h0 : dom.n = ran.n
  · rw [if_pos h0.symm, if_pos h0]
    by_cases hg : dom.gridMin = ran.gridMin
    · rw [if_pos hg.symm, if_pos hg]
    · rw [if_neg (fun h => hg h.symm), if_neg hg]
  · rw [if_neg (fun h => h0 h.symm), if_neg h0, hs h0, hab]
    split_ifs <;> rfl

/-- non-vacuity: domain `[0, 1]` in 4 cells, range `[-1/4, 5/4]` in 6 cells — offset 1 both ways -/
example : offsetFromAxes ⟨-1/4, 5/4, 6, false, false⟩ ⟨0, 1, 4, false, false⟩ = .ok 1 := by
  have h : shiftCells ⟨-1/4, 5/4, 6, false, false⟩ ⟨0, 1, 4, false, false⟩ = ((1 : Int) : Rat) := by
    norm_num [shiftCells, Axis.gridMin, Axis.cell]
  unfold offsetFromAxes; simp only [h]; simp

/-! ### ROUND 4: `_offset_from_spaces` with the rounding and the tolerances of the code
(`offsetFromAxesTol`, driver op `offsptol`, stream `tolerance`) -/

/-- **What the code accepts is aligned up to the tolerance.**  If `_offset_from_spaces` as coded
(`np.around`, `np.isclose` with tolerances `rtol`, `atol`) returns the offset `k` for one axis,
then on a resized axis `k` is a NEAREST integer to the shift `s` of the two grids in cells, the
misalignment `|s - k|` is at most `atol + rtol·|s|`, and `k ≤ |n_ran - n_dom|`; on an axis of
unchanged length `k = 0` and the grids differ by at most `atol` cells.  (So the copied block
sits on grid points that coincide up to that fraction of a cell; the tolerance grows with the
offset itself — see the example below.) -/
theorem C16.offset_tol_aligned (rtol atol : Rat) (dom ran : Axis Rat) (k : Nat)
    (h : offsetFromAxesTol rtol atol dom ran = .ok k) :
    (dom.n ≠ ran.n → |shiftCells dom ran - k| ≤ atol + rtol * |shiftCells dom ran| ∧
      |shiftCells dom ran - k| ≤ 1 / 2 ∧ k ≤ ((ran.n : Int) - dom.n).natAbs) ∧
    (dom.n = ran.n → k = 0 ∧ |shiftCells dom ran| ≤ atol) := by
  unfold offsetFromAxesTol at h
  simp only at h
  split_ifs at h with h0 h1 h2 h3
  · simp only [Except.ok.injEq] at h
    have hc := (isClose_iff ..).1 h1
    have hk : ((k : Int)) = roundHalfEven (shiftCells dom ran) := by omega
    have hkq : (k : Rat) = ((roundHalfEven (shiftCells dom ran) : Int) : Rat) := by
      rw [← hk]; simp
    refine ⟨fun _ => ⟨?_, ?_, by omega⟩, fun hh => absurd hh h0⟩
    · rw [hkq, abs_sub_comm]; exact hc
    · rw [hkq]; exact roundHalfEven_near _
  · simp only [Except.ok.injEq] at h
    have hc := (isClose_iff ..).1 h3
    refine ⟨fun hh => absurd hh h0, fun _ => ⟨h.symm, ?_⟩⟩
    simpa using hc

/-- **Exactly aligned grids are accepted by the code as coded, with the same offset**: whenever
the exact-arithmetic `_offset_from_spaces` of the model (`offsetFromAxes`, the subject of
`C16.offset_from_spaces_aligned/_roundtrip/inverse_offset_same`) accepts with offset `k`, so
does the version with `np.around`/`np.isclose`, for all non-negative tolerances. -/
theorem C16.offset_tol_accepts_exact (rtol atol : Rat) (hr : 0 ≤ rtol) (ha : 0 ≤ atol)
    (dom ran : Axis Rat) (k : Nat) (h : offsetFromAxes dom ran = .ok k) :
    offsetFromAxesTol rtol atol dom ran = .ok k := by
  unfold offsetFromAxes at h
  unfold offsetFromAxesTol
  simp only
  split_ifs at h with h0 hg h1 h2
  · simp only [Except.ok.injEq] at h
    have hs : shiftCells dom ran = 0 := by simp [shiftCells, hg]
    have hcl : isClose rtol atol (shiftCells dom ran) 0 = true := by
      rw [isClose_iff, hs]; simpa using ha
    rw [if_neg (not_not.2 h0), if_neg (not_not.2 hcl), h]
  · simp only [Except.ok.injEq] at h
    simp only [ne_eq, not_not] at h1
    have hq : ((shiftCells dom ran).num : Rat) = shiftCells dom ran :=
      Rat.coe_int_num_of_den_eq_one h1
    have hrd : roundHalfEven (shiftCells dom ran) = (shiftCells dom ran).num := by
      rw [← hq, roundHalfEven_int, hq]
    have hcl : isClose rtol atol ((shiftCells dom ran).num : Rat) (shiftCells dom ran) = true := by
      rw [isClose_iff, hq, sub_self, abs_zero]
      exact add_nonneg ha (mul_nonneg hr (abs_nonneg _))
    rw [if_pos h0, hrd, if_neg (not_not.2 hcl), if_neg h2, h]

/-- non-vacuity and the shape of the tolerance (`rtol = 1e-5`, `atol = 1e-8`): a range that is
misaligned by `2⁻²⁰ ≈ 9.5e-7` cells is accepted when it starts ONE cell to the left of the
domain (offset 1), and refused when it starts (almost) at the same point (offset 0) -/
example : offsetFromAxesTol (1 / 100000) (1 / 100000000) ⟨0, 1, 4, false, false⟩
    ⟨-1 / 4 - 1 / 4194304, 5 / 4 - 1 / 4194304, 6, false, false⟩ = .ok 1 := by
  have h : shiftCells ⟨0, 1, 4, false, false⟩
      ⟨-1 / 4 - 1 / 4194304, 5 / 4 - 1 / 4194304, 6, false, false⟩ = 1 + 1 / 1048576 := by
    norm_num [shiftCells, Axis.gridMin, Axis.cell]
  have hr : roundHalfEven (1 + 1 / 1048576 : Rat) = 1 :=
    roundHalfEven_eq_of_near _ 1 (by rw [abs_lt]; constructor <;> norm_num)
  have hc : isClose (1 / 100000) (1 / 100000000) ((1 : Int) : Rat) (1 + 1 / 1048576) = true := by
    rw [isClose_iff, abs_of_pos (show (0 : Rat) < 1 + 1 / 1048576 by norm_num), abs_le]
    constructor <;> norm_num
  unfold offsetFromAxesTol; simp only [h, hr, hc]; simp
example : offsetFromAxesTol (1 / 100000) (1 / 100000000) ⟨0, 1, 4, false, false⟩
    ⟨- 1 / 4194304, 5 / 4 - 1 / 4194304, 5, false, false⟩ = .error .notMultiple := by
  have h : shiftCells ⟨0, 1, 4, false, false⟩
      ⟨- 1 / 4194304, 5 / 4 - 1 / 4194304, 5, false, false⟩ = 1 / 1048576 := by
    norm_num [shiftCells, Axis.gridMin, Axis.cell]
  have hr : roundHalfEven (1 / 1048576 : Rat) = 0 :=
    roundHalfEven_eq_of_near _ 0 (by rw [abs_lt]; constructor <;> norm_num)
  have hc : isClose (1 / 100000) (1 / 100000000) ((0 : Int) : Rat) (1 / 1048576) = false := by
    rw [Bool.eq_false_iff, Ne, isClose_iff, not_le,
      abs_of_pos (show (0 : Rat) < 1 / 1048576 by norm_num)]
    norm_num [abs_of_pos]
  unfold offsetFromAxesTol; simp only [h, hr, hc]; simp

/-! ### ROUND 5: `apply_on_boundary` and `_scale_bdry_cells` (`applyOnBoundary`, `scaleBdryCells`;
driver op `aob`, stream `boundary`) -/

section round5
variable {K : Type} [CommRing K]

/-- **`apply_on_boundary` preserves all other values** — for every combination of its options
(`only_once` or not, any functions / `None` entries / `which_boundaries`, any `axis_order`, also
with repeated axes) and any remembered slices: an entry that is neither first nor last in any of
the processed axes is returned unchanged. -/
theorem C16.boundary_interior_untouched (once : Bool) (shape : List Nat) (steps : List (BStep K))
    (st : Nat → Bool × Bool) (A : List Nat → K) (idx : List Nat)
    (h : ∀ s ∈ steps, idx.getD s.ax 0 ≠ 0 ∧ idx.getD s.ax 0 + 1 ≠ shape.getD s.ax 0) :
    applyOnBoundary once shape st steps A idx = A idx :=
  aob_interior once shape steps st A idx h

/-- **`_scale_bdry_cells` multiplies by the product of the boundary-cell fractions.**  The code
scales with `apply_on_boundary(arr, func_list, only_once=False)`, `func_list` = per axis the
pair `x ↦ fl·x`, `x ↦ fr·x`; for every shape, all fractions and contents this is, entry by
entry, multiplication by `∏_axes bdryFrac` — the diagonal weight the adjoint theorems
(`C16.weighted_adjoint`, `C16.weighted_adjoint_nd`, `C16.adjoint_scaling_normal_form`) assume
(corner cells get the product of the fractions, a single cell both factors of its axis). -/
theorem C16.scale_bdry_cells_eq_fractions (shape : List Nat) (fracs : List (K × K))
    (h : fracs.length = shape.length) (A : List Nat → K) (idx : List Nat) :
    scaleBdryCells shape fracs A idx = A idx * bdryFracProd 1 0 shape fracs idx := by
  have := aob_scale shape fracs 0 (fun _ => (false, false)) A idx (by simpa using h)
  simpa [scaleBdryCells] using this

/-- non-vacuity (docstring of `apply_on_boundary` with `x ↦ 2x` on a 3 × 3 array of ones):
`only_once=True` doubles every boundary entry once, `only_once=False` the corners twice; an
array of shape (1, 2) scaled by fractions ((2, 3), (5, 7)) -/
example : (let steps : List (BStep Int) := [⟨0, some (2, 0), some (2, 0)⟩, ⟨1, some (2, 0), some (2, 0)⟩]
    ([[0, 0], [0, 1], [1, 1]].map (applyOnBoundary true [3, 3] (fun _ => (false, false)) steps (fun _ => 1)),
     [[0, 0], [0, 1], [1, 1]].map (applyOnBoundary false [3, 3] (fun _ => (false, false)) steps (fun _ => 1))))
    = ([2, 2, 1], [4, 2, 1]) := by decide
example : [[0, 0], [0, 1]].map (scaleBdryCells [1, 2] [((2 : Int), 3), (5, 7)] (fun _ => 1)) =
    [30, 42] := by decide

end round5
