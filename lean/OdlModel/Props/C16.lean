/-
C16 — resizing and padding follow the named boundary rule; cropping undoes extension.
Property theorems only.  Model: `Model/Resize.lean` (the statements of `resize_array`,
`_apply_padding`, `_assign_intersection` one axis at a time, composed along the axes); the
per-mode slice arithmetic is the GENERATED `Gen/PadSlices.lean`, so every theorem below is
re-checked against what `/repo/odl/util/numerics.py` says on every run.
All sizes, offsets and array contents are universally quantified; scalars range over an
arbitrary commutative ring (ℤ, ℚ, ℝ, ℂ, …).
-/
import OdlModel.Lemmas.ResizeND
import Mathlib.Tactic.FieldSimp

set_option linter.unusedVariables false
set_option linter.unusedTactic false
set_option linter.unreachableTactic false
set_option linter.unnecessarySeqFocus false

namespace OdlModel.C16
open OdlModel.Resize

/-- The documented requirement on a padded axis of original length `n`
(docstring of `resize_array`). -/
def PadOK (mode : Mode) (n padL padR : Nat) : Prop :=
  match mode with
  | .constant => True
  | .periodic => padL ≤ n ∧ padR ≤ n
  | .symmetric => padL < n ∧ padR < n
  | .order0 => 1 ≤ n
  | .order1 => 2 ≤ n

/-- `(n, m, off)` is an admissible resize of one axis from length `n` to length `m`:
the block fits, and if the axis grows the padding lengths respect the mode's limit. -/
def Admissible (mode : Mode) (n m off : Nat) : Prop :=
  off + min n m ≤ max n m ∧ (n < m → PadOK mode n off (m - n - off))

/-- NumPy's padding (`constant`, `wrap`, `reflect`, `edge`) and, for `order1`, linear
extrapolation — the reference the property names. -/
def npPad {K : Type} [CommRing K] (mode : Mode) (n off : Nat) (c : K) (x : Nat → K) : Nat → K :=
  match mode with
  | .constant => npConstant n off c x
  | .periodic => npWrap n off x
  | .symmetric => npReflect n off x
  | .order0 => npEdge n off x
  | .order1 => linExtrap n off x

/-- Per-axis admissibility of an n-d resize. -/
def AdmissibleND (mode : Mode) : List Nat → List Nat → List Nat → Prop
  | n :: sIn, m :: sOut, off :: offs => Admissible mode n m off ∧ AdmissibleND mode sIn sOut offs
  | [], [], [] => True
  | _, _, _ => False

end OdlModel.C16

open OdlModel.C16 OdlModel.Resize Finset

section
variable {K : Type} [CommRing K] [DecidableEq K]

/-- The explicit `raise ValueError` branches are exactly the documented limits: the forward
call is accepted iff the configuration is admissible, and the adjoint call (with
`pad_const = 0`) is accepted for exactly the same configurations. -/
theorem C16.guards_are_documented_limits (mode : Mode) (n m off : Nat) (c : K) :
    (check mode .forward n m off c = none ↔ Admissible mode n m off) ∧
    (check mode .adjoint m n off (0 : K) = none ↔ Admissible mode n m off) := by
  constructor <;>
  · cases mode <;>
    simp only [check, paddingGuards, Admissible, PadOK, reduceCtorEq, false_and, true_and,
      and_false, ne_eq, not_true_eq_false, ↓reduceIte, gt_iff_lt, ge_iff_le] <;>
    split_ifs <;> simp <;> omega

/-- Constant padding with a non-zero constant is not linear: the adjoint direction refuses it
(`pad_const must be 0 for 'adjoint' direction`), for all sizes. -/
theorem C16.adjoint_needs_zero_padconst (n m off : Nat) (c : K) (hc : c ≠ 0) (y : Nat → K) :
    resize1d .constant .adjoint m n off c y = .error .padConstAdjoint := by
  simp [resize1d, check, hc]

omit [DecidableEq K] in
private theorem admissible_fits {mode : Mode} {n m off : Nat} (h : Admissible mode n m off)
    (hnm : n < m) : off + n ≤ m := by
  have := h.1; omega

/-- A successful call returns `resizeCore`. -/
private theorem ok_iff (mode : Mode) (dir : Dir) (n m off : Nat) (c : K) (x r : Nat → K) :
    resize1d mode dir n m off c x = .ok r ↔
      check mode dir n m off c = none ∧ r = resizeCore mode dir n m off c x := by
  unfold resize1d
  cases h : check mode dir n m off c <;> simp [eq_comm]

/-- One growing axis, forward direction, closed form for every mode:
`constant/periodic/symmetric/order0` read the input at NumPy's `constant/wrap/reflect/edge`
index, `order1` extrapolates linearly. -/
private theorem core_fwd_grow (mode : Mode) (n m off : Nat) (c : K) (x : Nat → K) (hnm : n < m)
    (h : Admissible mode n m off) (i : Nat) (hi : i < m) :
    resizeCore mode .forward n m off c x i = npPad mode n off c x i := by
  have hoff := admissible_fits h hnm
  have hp := h.2 hnm
  cases mode <;> simp only [PadOK] at hp <;> simp only [npPad]
  · exact core_constant_fwd n m off c x hnm hoff i
  · rw [core_symmetric_fwd n m off c x hnm hoff hp.1 hp.2 i hi]
    simp only [npReflect]
    rw [reflect_eq_src n off i (by omega) hp.1 (by omega)]
  · rw [core_periodic_fwd n m off c x hnm hoff hp.1 hp.2 i hi]
    simp only [npWrap]
    rw [wrap_eq_src n off i (by omega) hp.1 (by omega)]
  · rw [core_order0_fwd n m off c x hnm hoff hp i hi]
    simp only [npEdge, srcEdge, ge_iff_le]
  · exact core_order1_fwd n m off c x hnm hoff hp i hi

/-- **Padding equals NumPy's.**  For every pad mode, every original length `n`, new length
`m > n`, offset and array content for which the call is admissible, `resize_array` succeeds
and its result is, entry for entry, `np.pad` with the equivalent mode (`constant`, `wrap`,
`reflect` = symmetric without repeating the edge, `edge`), resp. the linear extrapolation
through the two outermost samples for `order1`. -/
theorem C16.pad_eq_nppad (mode : Mode) (n m off : Nat) (c : K) (x : Nat → K) (hnm : n < m)
    (h : Admissible mode n m off) :
    ∃ r, resize1d mode .forward n m off c x = .ok r ∧ ∀ i < m, r i = npPad mode n off c x i := by
  refine ⟨_, (ok_iff ..).2 ⟨((C16.guards_are_documented_limits mode n m off c).1).2 h, rfl⟩, ?_⟩
  intro i hi
  exact core_fwd_grow mode n m off c x hnm h i hi

/-- **The overlapping block is copied unchanged**, in every mode, for growing, shrinking and
equal lengths and every offset the call accepts: extension puts `x` at `[off, off + n)`,
restriction returns `x[off : off + m]`. -/
theorem C16.resize_intersection (mode : Mode) (n m off : Nat) (c : K) (x r : Nat → K)
    (hr : resize1d mode .forward n m off c x = .ok r) :
    (n ≤ m → ∀ j < n, r (off + j) = x j) ∧ (m ≤ n → ∀ i < m, r i = x (off + i)) := by
  obtain ⟨hc, rfl⟩ := (ok_iff ..).1 hr
  have hadm := ((C16.guards_are_documented_limits mode n m off c).1).1 hc
  constructor
  · intro hnm j hj
    rcases Nat.lt_or_eq_of_le hnm with hlt | rfl
    · have hoff := admissible_fits hadm hlt
      have hp := hadm.2 hlt
      rw [core_fwd_grow mode n m off c x hlt hadm (off + j) (by omega)]
      cases mode <;> simp only [PadOK] at hp <;> simp only [npPad]
      · simp only [npConstant]; rw [if_pos (by omega), Nat.add_sub_cancel_left]
      · simp only [npReflect]
        rw [reflect_eq_src n off (off + j) (by omega) hp.1 (by omega)]
        simp only [srcSymmetric]; split_ifs <;> first | omega | (congr 1 <;> omega)
      · simp only [npWrap]
        rw [wrap_eq_src n off (off + j) (by omega) hp.1 (by omega)]
        simp only [srcPeriodic]; split_ifs <;> first | omega | (congr 1 <;> omega)
      · simp only [npEdge]; split_ifs <;> first | omega | (congr 1 <;> omega)
      · simp only [linExtrap]; split_ifs <;> first | omega | (congr 1 <;> omega)
    · have : off = 0 := by have := hadm.1; omega
      subst this
      rw [core_fwd_crop mode n n 0 c x (le_refl _) (by omega) (0 + j) (by omega)]
      congr 1; omega
  · intro hmn i hi
    have := hadm.1
    exact core_fwd_crop mode n m off c x hmn (by omega) i hi

/-- **Cropping undoes extension.**  Extending `x` from `n` to `m ≥ n` entries (any mode, any
accepted offset) and then resizing back to `n` entries with the same offset — in any mode,
with any padding constant — returns `x`. -/
theorem C16.crop_extend_id (mode mode' : Mode) (n m off : Nat) (c c' : K) (x r : Nat → K)
    (hnm : n ≤ m) (hr : resize1d mode .forward n m off c x = .ok r) :
    ∃ r', resize1d mode' .forward m n off c' r = .ok r' ∧ ∀ j < n, r' j = x j := by
  have hint := (C16.resize_intersection mode n m off c x r hr).1 hnm
  obtain ⟨hc, -⟩ := (ok_iff ..).1 hr
  have hadm := ((C16.guards_are_documented_limits mode n m off c).1).1 hc
  have hfit : off + n ≤ m := by have := hadm.1; omega
  have hadm' : Admissible mode' m n off := ⟨by omega, fun h => by omega⟩
  refine ⟨_, (ok_iff ..).2 ⟨((C16.guards_are_documented_limits mode' m n off c').1).2 hadm', rfl⟩,
    ?_⟩
  intro j hj
  rw [core_fwd_crop mode' m n off c' r hnm hfit j hj]
  exact hint j hj

/-- One axis: forward `n → m` and adjoint `m → n` are transposes, all modes and sizes. -/
private theorem core_transpose (mode : Mode) (n m off : Nat) (h : Admissible mode n m off) :
    TransposePair n m (resizeCore mode .forward n m off (0 : K))
      (resizeCore mode .adjoint m n off (0 : K)) := by
  intro x y
  by_cases hnm : n < m
  · have hoff := admissible_fits h hnm
    have hp := h.2 hnm
    cases mode <;> simp only [PadOK] at hp
    · exact constant_transpose n m off x y hnm hoff
    · exact symmetric_transpose n m off x y hnm hoff hp.1 hp.2
    · exact periodic_transpose n m off x y hnm hoff hp.1 hp.2
    · exact order0_transpose n m off x y hnm hoff hp
    · exact order1_transpose n m off x y hnm hoff hp
  · have := h.1
    exact crop_transpose mode n m off x y (by omega) (by omega)

/-- **Forward and adjoint are transposes of each other** (one axis).  For every linear mode
(`pad_const = 0`), all lengths `n`, `m` (growing: padding vs. accumulation of the outer parts
into the inner ones — sums for `order0`, zeroth and first moments for `order1`; shrinking:
cropping vs. zero padding), every admissible offset and all contents:
both calls succeed and `Σ_{i<m} y_i (R x)_i = Σ_{j<n} x_j (Rᵀ y)_j`. -/
theorem C16.adjoint_transpose (mode : Mode) (n m off : Nat) (x y : Nat → K)
    (h : Admissible mode n m off) :
    ∃ r rt, resize1d mode .forward n m off 0 x = .ok r ∧
      resize1d mode .adjoint m n off 0 y = .ok rt ∧
      ∑ i ∈ range m, y i * r i = ∑ j ∈ range n, x j * rt j := by
  have hg := C16.guards_are_documented_limits (K := K) mode n m off 0
  exact ⟨_, _, (ok_iff ..).2 ⟨hg.1.2 h, rfl⟩, (ok_iff ..).2 ⟨hg.2.2 h, rfl⟩,
    core_transpose mode n m off h x y⟩

omit [DecidableEq K] in
private theorem admND_lengths {mode : Mode} : ∀ {sIn sOut offs : List Nat},
    AdmissibleND mode sIn sOut offs → sIn.length = sOut.length ∧ sIn.length = offs.length
  | [], [], [], _ => ⟨rfl, rfl⟩
  | _ :: _, _ :: _, _ :: _, h => by
    have := admND_lengths h.2
    simp only [List.length_cons]; omega
  | [], [], _ :: _, h => by simp [AdmissibleND] at h
  | [], _ :: _, _, h => by simp [AdmissibleND] at h
  | _ :: _, [], _, h => by simp [AdmissibleND] at h
  | _ :: _, _ :: _, [], h => by simp [AdmissibleND] at h

private theorem axes_transpose (mode : Mode) :
    ∀ (sIn sOut offs pre : List Nat), AdmissibleND mode sIn sOut offs →
      TransposePairND (pre ++ sIn) (pre ++ sOut)
        (resizeAxes mode .forward (0 : K) pre.length sIn sOut offs)
        (resizeAxesRev mode .adjoint (0 : K) pre.length sOut sIn offs)
  | [], [], [], pre, _ => by
    intro X Y
    simp only [resizeAxes, resizeAxesRev]
    congr 1; funext idx; ring
  | n :: sIn, m :: sOut, off :: offs, pre, h => by
    have ih := axes_transpose mode sIn sOut offs (pre ++ [m]) h.2
    have h1 : TransposePairND (pre ++ n :: sIn) (pre ++ m :: sIn)
        (alongAxis pre.length (resizeCore mode .forward n m off (0 : K)))
        (alongAxis pre.length (resizeCore mode .adjoint m n off (0 : K))) := by
      intro X Y
      exact alongAxis_transpose n m _ _ (core_transpose mode n m off h.1) pre sIn X Y
    simp only [List.append_assoc, List.cons_append, List.nil_append, List.length_append,
      List.length_cons, List.length_nil, Nat.zero_add] at ih
    have := TransposePairND.comp h1 ih
    intro X Y
    simpa only [resizeAxes, resizeAxesRev, Function.comp] using this X Y
  | [], [], _ :: _, _, h => by simp [AdmissibleND] at h
  | [], _ :: _, _, _, h => by simp [AdmissibleND] at h
  | _ :: _, [], _, _, h => by simp [AdmissibleND] at h
  | _ :: _, _ :: _, [], _, h => by simp [AdmissibleND] at h

/-- **Forward and adjoint are transposes, any number of axes**, growing in some axes while
shrinking in others: with the one-axis maps composed along the axes (forward: axis 0 first,
adjoint: last axis first),
`Σ_{idx ∈ box(sOut)} Y_idx (R X)_idx = Σ_{idx ∈ box(sIn)} X_idx (Rᵀ Y)_idx`
for all admissible shapes/offsets and all contents.  (That the code's adjoint, which also
runs axis 0 first, gives the same array is part of the correspondence run, not of this
theorem: one-axis maps along different axes commute.) -/
theorem C16.adjoint_transpose_nd (mode : Mode) (sIn sOut offs : List Nat)
    (h : AdmissibleND mode sIn sOut offs) (X Y : List Nat → K) :
    sumBox sOut (fun idx => Y idx * resizeAxes mode .forward (0 : K) 0 sIn sOut offs X idx) =
      sumBox sIn (fun idx => X idx * resizeAxesRev mode .adjoint (0 : K) 0 sOut sIn offs Y idx) :=
  axes_transpose mode sIn sOut offs [] h X Y

/-- The n-d call is accepted iff every axis is admissible (given consistent lengths). -/
theorem C16.nd_accepts_iff (mode : Mode) (c : K) :
    ∀ (sIn sOut offs : List Nat), sIn.length = sOut.length → sIn.length = offs.length →
      (checkND mode .forward c sIn sOut offs = none ↔ AdmissibleND mode sIn sOut offs)
  | [], [], [], _, _ => by simp [checkND, AdmissibleND]
  | n :: sIn, m :: sOut, off :: offs, h1, h2 => by
    have ih := C16.nd_accepts_iff mode c sIn sOut offs (by simpa using h1) (by simpa using h2)
    have hg := (C16.guards_are_documented_limits mode n m off c).1
    simp only [checkND, AdmissibleND]
    cases hc : check mode .forward n m off c with
    | none => simp [← hg, hc, ih]
    | some e => simp [← hg, hc]
  | [], _ :: _, _, h1, _ => by simp at h1
  | _ :: _, [], _, h1, _ => by simp at h1
  | [], [], _ :: _, _, h2 => by simp at h2
  | _ :: _, _ :: _, [], _, h2 => by simp at h2

end
