/-
C07 — a proximal operator returns the minimiser of f(z) + ‖z − x‖²/(2σ).
Property theorems only (helper lemmas live in `Lemmas/Prox.lean`).  The definitions the
theorems talk about are the executable ones of `Model/Prox.lean`, i.e. the same functions
the driver runs against `/repo` on every check.
-/
import OdlModel.Model.Prox
import OdlModel.Lemmas.Prox

open OdlModel.Prox

section Scalar
variable {K : Type} [Field K] [LinearOrder K] [IsStrictOrderedRing K]

/-- `ProximalL1._call` at one point, in the form the code computes it
(`x - (x-g)/max(|x-g|/(σλ), 1)`, `s = σλ > 0`), satisfies the variational inequality of the
proximal point of `σ·λ|· − g|` at `x`:  `s|p−g| + (x−p)(z−p) ≤ s|z−g|` for every `z`. -/
theorem C07.soft_vi (s x g z : K) (hs : 0 < s) :
    s * |softCode s x g - g| + (x - softCode s x g) * (z - softCode s x g) ≤ s * |z - g| := by
  unfold softCode
  simp only [absK_eq, maxK_eq]
  rcases le_or_gt (|x - g| / s) 1 with h | h
  · rw [max_eq_right h, div_one]
    have h1 : |x - g| ≤ s := by rwa [div_le_one hs] at h
    have : x - (x - g) = g := by ring
    rw [this]; simp
    calc (x - g) * (z - g) ≤ |(x - g) * (z - g)| := le_abs_self _
      _ = |x - g| * |z - g| := abs_mul _ _
      _ ≤ s * |z - g| := by gcongr
  · rw [max_eq_left (le_of_lt h)]
    have h1 : s < |x - g| := by rwa [lt_div_iff₀ hs, one_mul] at h
    rcases le_or_gt 0 (x - g) with hd | hd
    · rw [abs_of_nonneg hd] at h1 ⊢
      have hd' : x - g ≠ 0 := by linarith
      have e : (x - g) / ((x - g) / s) = s := by field_simp
      rw [e]
      have : |x - s - g| = x - s - g := abs_of_nonneg (by linarith)
      rw [this]
      have := le_abs_self (z - g)
      nlinarith
    · rw [abs_of_neg hd] at h1 ⊢
      have hd' : x - g ≠ 0 := by linarith
      have e : (x - g) / (-(x - g) / s) = -s := by field_simp
      rw [e]
      have : |x - -s - g| = -(x - -s - g) := abs_of_nonpos (by linarith)
      rw [this]
      have := neg_abs_le (z - g)
      nlinarith

/-- Non-vacuity: the code's formula on a concrete point (`σλ = 1/2`, `x = 2`, `g = 1/4`). -/
example : softCode (1/2 : ℚ) 2 (1/4) = 3/2 := by
  simp only [softCode, absK, maxK]; norm_num

end Scalar
