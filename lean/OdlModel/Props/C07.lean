/-
C07 — a proximal operator returns the minimiser of f(z) + ‖z − x‖²/(2σ).
Property theorems only (helper lemmas live in `Lemmas/Prox.lean`).  The definitions that the
statements talk about are the executable ones of `Model/Prox.lean`, i.e. the same functions
the driver runs against `/repo` on every check.
-/
import OdlModel.Model.Prox
import OdlModel.Lemmas.Prox
import OdlModel.Model.Functionals
import Mathlib.Tactic.Positivity
import Mathlib.Tactic.GCongr
import Mathlib.Algebra.BigOperators.Group.Finset.Basic
import Mathlib.Algebra.Order.BigOperators.Group.Finset
import Mathlib.Algebra.BigOperators.Ring.Finset
import Mathlib.Algebra.BigOperators.Intervals
import Mathlib.Analysis.SpecialFunctions.Log.Basic
import Mathlib.Analysis.Real.Sqrt
import Mathlib.Tactic.IntervalCases
import Mathlib.Tactic.NormNum.BigOperators

open OdlModel.Prox

section Scalar
variable {K : Type} [Field K] [LinearOrder K] [IsStrictOrderedRing K]

/-- `ProximalL1._call` at one point, in the form the code computes it
(`x - (x-g)/max(|x-g|/(σλ), 1)`, `s = σλ > 0`), satisfies the variational inequality of the
proximal point of `σ·λ|· − g|` at `x`:  `s|p−g| + (x−p)(z−p) ≤ s|z−g|` for every `z`. -/
theorem C07.soft_vi (s x g z : K) (hs : 0 < s) :
    s * |softCode s x g - g| + (x - softCode s x g) * (z - softCode s x g) ≤ s * |z - g| := by
  unfold softCode
  simp only [absK_eq, maxK_eq]
  rcases le_or_gt (|x - g| / s) 1 with h | h
  · rw [max_eq_right h, div_one]
    have h1 : |x - g| ≤ s := by rwa [div_le_one hs] at h
    have : x - (x - g) = g := by ring
    rw [this]; simp
    calc (x - g) * (z - g) ≤ |(x - g) * (z - g)| := le_abs_self _
      _ = |x - g| * |z - g| := abs_mul _ _
      _ ≤ s * |z - g| := by gcongr
  · rw [max_eq_left (le_of_lt h)]
    have h1 : s < |x - g| := by rwa [lt_div_iff₀ hs, one_mul] at h
    rcases le_or_gt 0 (x - g) with hd | hd
    · rw [abs_of_nonneg hd] at h1 ⊢
      have hd' : x - g ≠ 0 := by linarith
      have e : (x - g) / ((x - g) / s) = s := by field_simp
      rw [e]
      have : |x - s - g| = x - s - g := abs_of_nonneg (by linarith)
      rw [this]
      have := le_abs_self (z - g)
      nlinarith
    · rw [abs_of_neg hd] at h1 ⊢
      have hd' : x - g ≠ 0 := by linarith
      have e : (x - g) / (-(x - g) / s) = -s := by field_simp
      rw [e]
      have : |x - -s - g| = -(x - -s - g) := abs_of_nonpos (by linarith)
      rw [this]
      have := neg_abs_le (z - g)
      nlinarith

/-- Non-vacuity: the code's formula on a concrete point (`σλ = 1/2`, `x = 2`, `g = 1/4`). -/
example : softCode (1/2 : ℚ) 2 (1/4) = 3/2 := by
  simp only [softCode, absK, maxK]; norm_num

/-- `ProximalConvexConjL1._call` at one point (`eps = 0`, `sg = σ·g`): the result lies in
`[-λ, λ]` and satisfies the variational inequality of `σ·(ι_{|·|≤λ} + g·)` at `x`. -/
theorem C07.ccl1_vi (lam sg x z : K) (hl : 0 < lam) (hz : |z| ≤ lam) :
    |ccL1Code lam sg x| ≤ lam ∧
    sg * ccL1Code lam sg x + (x - ccL1Code lam sg x) * (z - ccL1Code lam sg x) ≤ sg * z := by
  unfold ccL1Code
  simp only [absK_eq, maxK_eq]
  have hz' := abs_le.mp hz
  rcases le_or_gt (|x - sg|) lam with h | h
  · rw [max_eq_right h, div_self (ne_of_gt hl), div_one]
    refine ⟨h, ?_⟩
    nlinarith
  · rw [max_eq_left (le_of_lt h)]
    have hd : 0 < |x - sg| := lt_trans hl h
    rcases le_or_gt 0 (x - sg) with hd0 | hd0
    · rw [abs_of_nonneg hd0] at h hd ⊢
      have e : (x - sg) / ((x - sg) / lam) = lam := by field_simp
      rw [e]
      refine ⟨by rw [abs_of_pos hl], ?_⟩
      nlinarith
    · rw [abs_of_neg hd0] at h hd ⊢
      have hne : x - sg ≠ 0 := ne_of_lt hd0
      have e : (x - sg) / (-(x - sg) / lam) = -lam := by field_simp
      rw [e]
      refine ⟨by rw [abs_neg, abs_of_pos hl], ?_⟩
      nlinarith

/-- `ProximalL2Squared._call` (scalar step) at one point: variational inequality of
`σ·λ(· − g)²`. -/
theorem C07.l2sq_vi (lam sig x g z : K) (hl : 0 ≤ lam) (hs : 0 < sig) :
    sig * (lam * (l2sqCode lam sig x g - g) ^ 2)
      + (x - l2sqCode lam sig x g) * (z - l2sqCode lam sig x g) ≤ sig * (lam * (z - g) ^ 2) := by
  have ht : 0 < 1 + (1 + 1) * sig * lam := by positivity
  have hp : l2sqCode lam sig x g = (x + (1 + 1) * sig * lam * g) / (1 + (1 + 1) * sig * lam) := by
    unfold l2sqCode; field_simp
  set p := l2sqCode lam sig x g with hpdef
  have h1 : x - p = (1 + 1) * sig * lam * (p - g) := by
    rw [hp]; field_simp; ring
  rw [h1]
  have : 0 ≤ sig * lam * (z - p) ^ 2 := by positivity
  nlinarith

/-- The point-wise-step branch of `ProximalL2Squared._call` computes the same value as the
scalar branch with that point's step. -/
theorem C07.l2sq_pointwise_eq (lam sig x g : K) (hl : 0 ≤ lam) (hs : 0 < sig) :
    l2sqCodeV lam sig x g = l2sqCode lam sig x g := by
  have ht : 0 < 1 + (1 + 1) * sig * lam := by positivity
  unfold l2sqCodeV l2sqCode; field_simp

/-- `ProximalConvexConjL2Squared._call` at one point: variational inequality of
`σ·(z²/(4λ) + g z)`, the conjugate of `λ(· − g)²`. -/
theorem C07.ccl2sq_vi (lam sig x g z : K) (hl : 0 < lam) (hs : 0 < sig) :
    sig * ((ccL2sqCode lam sig x g) ^ 2 / (4 * lam) + g * ccL2sqCode lam sig x g)
      + (x - ccL2sqCode lam sig x g) * (z - ccL2sqCode lam sig x g)
      ≤ sig * (z ^ 2 / (4 * lam) + g * z) := by
  have ht : 0 < 1 + 1 / (1 + 1) * sig / lam := by positivity
  have hp : ccL2sqCode lam sig x g = (x - sig * g) / (1 + sig / (2 * lam)) := by
    unfold ccL2sqCode; field_simp; ring
  set p := ccL2sqCode lam sig x g with hpdef
  have hd : 0 < 1 + sig / (2 * lam) := by positivity
  have h1 : x - p = sig * (p / (2 * lam) + g) := by
    rw [hp]; field_simp; ring
  rw [h1]
  have : 0 ≤ sig / (4 * lam) * (z - p) ^ 2 := by positivity
  have e : sig * (z ^ 2 / (4 * lam) + g * z) - (sig * (p ^ 2 / (4 * lam) + g * p)
      + sig * (p / (2 * lam) + g) * (z - p)) = sig / (4 * lam) * (z - p) ^ 2 := by
    field_simp; ring
  linarith

theorem C07.ccl2sq_pointwise_eq (lam sig x g : K) (hl : 0 < lam) (hs : 0 < sig) :
    ccL2sqCodeV lam sig x g = ccL2sqCode lam sig x g := by
  have ht : 0 < 1 + 1 / (1 + 1) * sig / lam := by positivity
  have ht' : 0 < 1 + 1 / (1 + 1) / lam * sig := by positivity
  unfold ccL2sqCodeV ccL2sqCode; field_simp; ring

/-- `ProxOpBoxConstraint._call` at one point: the result is in the box and satisfies the
projection inequality. (All four combinations of absent bounds.) -/
theorem C07.box_vi (lo hi : Option K) (x z : K)
    (hlh : ∀ l u, lo = some l → hi = some u → l ≤ u)
    (hzl : ∀ l, lo = some l → l ≤ z) (hzu : ∀ u, hi = some u → z ≤ u) :
    (∀ l, lo = some l → l ≤ boxCode lo hi x) ∧ (∀ u, hi = some u → boxCode lo hi x ≤ u) ∧
    (x - boxCode lo hi x) * (z - boxCode lo hi x) ≤ 0 := by
  rcases lo with _ | l <;> rcases hi with _ | u <;>
    simp only [boxCode, maxK_eq, minK_eq, reduceCtorEq, Option.some.injEq, forall_eq',
      IsEmpty.forall_iff, implies_true, true_and, and_true, sub_self, zero_mul, le_refl] at *
  · rcases le_total x u with h | h
    · rw [min_eq_left h]; simp [h]
    · rw [min_eq_right h]; exact ⟨le_refl _, by nlinarith⟩
  · rcases le_total x l with h | h
    · rw [max_eq_right h]; exact ⟨le_refl _, by nlinarith⟩
    · rw [max_eq_left h]; simp [h]
  · have hlh : l ≤ u := hlh l u rfl rfl
    rcases le_total x l with h | h
    · rw [max_eq_right h, min_eq_left hlh]; exact ⟨le_refl _, hlh, by nlinarith⟩
    · rw [max_eq_left h]
      rcases le_total x u with h' | h'
      · rw [min_eq_left h']; simp [h, h']
      · rw [min_eq_right h']; exact ⟨hlh, le_refl _, by nlinarith⟩

/-- `ProximalHuber._call` at one point of a tensor space: variational inequality of `σ·f_γ`. -/
theorem C07.huber_vi (gam sig x z : K) (hg : 0 < gam) (hs : 0 < sig) :
    sig * huberFn gam (huberCode gam sig x)
      + (x - huberCode gam sig x) * (z - huberCode gam sig x) ≤ sig * huberFn gam z := by
  have hgs : 0 < gam + sig := by positivity
  unfold huberCode
  simp only [absK_eq]
  -- the Huber function dominates its tangents: f(z) ≥ f(p) + f'(p)(z - p)
  have tangent_in : ∀ p : K, |p| ≤ gam →
      p ^ 2 / (2 * gam) + p / gam * (z - p) ≤ huberFn gam z := by
    intro p hp
    have hp' := abs_le.mp hp
    unfold huberFn
    split_ifs with hz
    · have : 0 ≤ (z - p) ^ 2 / (2 * gam) := by positivity
      have e : z ^ 2 / (2 * gam) - (p ^ 2 / (2 * gam) + p / gam * (z - p))
          = (z - p) ^ 2 / (2 * gam) := by field_simp; ring
      linarith
    · have hz' : gam < |z| := not_le.mp hz
      have e : p ^ 2 / (2 * gam) + p / gam * (z - p) = (2 * p * z - p ^ 2) / (2 * gam) := by
        field_simp; ring
      rw [e, div_le_iff₀ (by positivity)]
      rcases le_or_gt 0 z with h0 | h0
      · rw [abs_of_nonneg h0] at hz' ⊢; nlinarith
      · rw [abs_of_neg h0] at hz' ⊢; nlinarith
  split_ifs with h
  · -- quadratic zone: p = γ/(γ+σ) x, |p| ≤ γ, x - p = σ p/γ
    set p := gam / (gam + sig) * x with hp
    have hpa : |p| ≤ gam := by
      rw [hp, abs_mul, abs_of_pos (div_pos hg hgs), div_mul_eq_mul_div, div_le_iff₀ hgs]
      nlinarith [abs_nonneg x]
    have hx : x - p = sig * (p / gam) := by rw [hp]; field_simp; ring
    have hfp : huberFn gam p = p ^ 2 / (2 * gam) := by unfold huberFn; rw [if_pos hpa]
    have := tangent_in p hpa
    rw [hfp, hx]
    nlinarith
  · -- linear zone: p = x - σ sign x, |p| > γ
    have hx : gam + sig < |x| := not_le.mp h
    rcases le_or_gt 0 x with h0 | h0
    · rw [abs_of_nonneg h0] at hx
      have hsx : x / |x| = 1 := by rw [abs_of_nonneg h0]; exact div_self (by linarith)
      rw [hsx, mul_one]
      have hp : gam < x - sig := by linarith
      have hfp : huberFn gam (x - sig) = (x - sig) - gam / 2 := by
        unfold huberFn; rw [abs_of_pos (by linarith), if_neg (not_le.mpr hp)]
      rw [hfp]
      have : (x - sig) - gam / 2 + 1 * (z - (x - sig)) ≤ huberFn gam z := by
        unfold huberFn
        split_ifs with hz
        · have hz' := abs_le.mp hz
          rw [le_div_iff₀ (by positivity)]; nlinarith
        · have := le_abs_self z; linarith
      nlinarith
    · rw [abs_of_neg h0] at hx
      have hsx : x / |x| = -1 := by
        rw [abs_of_neg h0, div_neg, div_self (ne_of_lt h0)]
      rw [hsx]
      have hp : x + sig < -gam := by linarith
      have e : x - sig * -1 = x + sig := by ring
      rw [e]
      have hfp : huberFn gam (x + sig) = -(x + sig) - gam / 2 := by
        unfold huberFn; rw [abs_of_neg (by linarith), if_neg (by linarith)]
      rw [hfp]
      have : -(x + sig) - gam / 2 + (-1) * (z - (x + sig)) ≤ huberFn gam z := by
        unfold huberFn
        split_ifs with hz
        · have hz' := abs_le.mp hz
          rw [le_div_iff₀ (by positivity)]; nlinarith
        · have := neg_abs_le z; linarith
      nlinarith


end Scalar

/-! ## lifting to all sizes, weights and per-point steps; non-separable projections -/
section Lift
open Finset
variable {K : Type} [Field K] [LinearOrder K] [IsStrictOrderedRing K]

/-- Separable sum / lifting to all sizes with arbitrary positive weights and per-point steps:
if every coordinate satisfies its scalar variational inequality, then `p` minimises
`Σ w_i (φ_i(z_i) + (z_i − x_i)²/(2σ_i))` with a quadratic gap. -/
theorem C07.separable_lift {ι : Type} (s : Finset ι) (w sig x p z : ι → K) (φ : ι → K → K)
    (hw : ∀ i ∈ s, 0 ≤ w i) (hs : ∀ i ∈ s, 0 < sig i)
    (h : ∀ i ∈ s, sig i * φ i (p i) + (x i - p i) * (z i - p i) ≤ sig i * φ i (z i)) :
    ∑ i ∈ s, w i * (φ i (p i) + ((p i - x i) ^ 2 + (z i - p i) ^ 2) / (2 * sig i))
      ≤ ∑ i ∈ s, w i * (φ i (z i) + (z i - x i) ^ 2 / (2 * sig i)) := by
  apply Finset.sum_le_sum
  intro i hi
  apply mul_le_mul_of_nonneg_left _ (hw i hi)
  have hsi := hs i hi
  have h1 := h i hi
  have e : φ i (z i) + (z i - x i) ^ 2 / (2 * sig i)
      - (φ i (p i) + ((p i - x i) ^ 2 + (z i - p i) ^ 2) / (2 * sig i))
      = (sig i * φ i (z i) - (sig i * φ i (p i) + (x i - p i) * (z i - p i))) / sig i := by
    field_simp; ring
  have : 0 ≤ (sig i * φ i (z i) - (sig i * φ i (p i) + (x i - p i) * (z i - p i))) / sig i :=
    div_nonneg (by linarith) (le_of_lt hsi)
  linarith

/-- `IndicatorSumConstraint.proximal` (offset `(s − Σx)/n` added to every entry): the result
has the prescribed sum and satisfies the projection inequality for every `z` with that sum —
in the unweighted (or constant-weight) inner product. -/
theorem C07.sumc_vi {ι : Type} (I : Finset ι) (hI : I.Nonempty) (x z : ι → K) (sv : K)
    (hz : ∑ i ∈ I, z i = sv) :
    let off := 1 / (I.card : K) * (sv - ∑ i ∈ I, x i)
    (∑ i ∈ I, (x i + off) = sv) ∧
    ∑ i ∈ I, (x i - (x i + off)) * (z i - (x i + off)) ≤ 0 := by
  intro off
  have hn : (I.card : K) ≠ 0 := by
    exact_mod_cast (Finset.card_pos.mpr hI).ne'
  have hsum : ∑ i ∈ I, (x i + off) = sv := by
    rw [Finset.sum_add_distrib, Finset.sum_const, nsmul_eq_mul]
    simp only [off]; field_simp; ring
  refine ⟨hsum, ?_⟩
  have e : ∀ i ∈ I, (x i - (x i + off)) * (z i - (x i + off)) = -off * (z i - (x i + off)) := by
    intro i _; ring
  rw [Finset.sum_congr rfl e, ← Finset.mul_sum, Finset.sum_sub_distrib, hz, hsum]
  simp

/-- KKT sufficiency for `proj_simplex` (unweighted / constant-weight inner product): if
`p = max(x − τ, 0)` entry-wise and `Σ p = r`, then `p` is in the simplex and satisfies the
projection inequality against every `z ≥ 0` with `Σ z = r`. -/
theorem C07.simplex_kkt_sufficient {ι : Type} (I : Finset ι) (x z : ι → K) (tau r : K)
    (hp : ∑ i ∈ I, maxK (x i - tau) 0 = r)
    (hz0 : ∀ i ∈ I, 0 ≤ z i) (hz : ∑ i ∈ I, z i = r) :
    (∀ i ∈ I, 0 ≤ maxK (x i - tau) 0) ∧
    ∑ i ∈ I, (x i - maxK (x i - tau) 0) * (z i - maxK (x i - tau) 0) ≤ 0 := by
  simp only [maxK_eq] at *
  refine ⟨fun i _ => le_max_right _ _, ?_⟩
  have key : ∀ i ∈ I, (x i - max (x i - tau) 0) * (z i - max (x i - tau) 0)
      ≤ tau * (z i - max (x i - tau) 0) := by
    intro i hi
    have hzi := hz0 i hi
    rcases le_total (x i - tau) 0 with h | h
    · rw [max_eq_right h]; nlinarith
    · rw [max_eq_left h]; nlinarith
  calc ∑ i ∈ I, (x i - max (x i - tau) 0) * (z i - max (x i - tau) 0)
      ≤ ∑ i ∈ I, tau * (z i - max (x i - tau) 0) := Finset.sum_le_sum key
    _ = tau * (∑ i ∈ I, z i - ∑ i ∈ I, max (x i - tau) 0) := by
        rw [← Finset.mul_sum, Finset.sum_sub_distrib]
    _ = 0 := by rw [hz, hp]; ring
    _ ≤ 0 := le_refl _


/-- Arithmetic core of `proj_simplex` (used by `C07.simplex_threshold_feasible` below): the
sorted-prefix rule produces a feasible threshold: for a
non-increasing `u`, if `i` is an index with `crit_i ≥ 0` whose successor (if any) has
`crit_{i+1} < 0` (in particular the LAST index with `crit ≥ 0`, which is what
`np.argwhere(crit >= 0).max()` selects), then `τ = (Σ_{k<i} u_k − r)/i` satisfies
`Σ_k max(u_k − τ, 0) = r`. -/
theorem C07.simplex_threshold_index (n i : ℕ) (u : ℕ → K) (r : K)
    (hi1 : 1 ≤ i) (hin : i ≤ n)
    (hanti : ∀ a b, a ≤ b → b < n → u b ≤ u a)
    (hcrit : 0 ≤ u (i - 1) - 1 / (i : K) * (∑ k ∈ range i, u k - r))
    (hnext : i = n ∨ u i - 1 / ((i : K) + 1) * (∑ k ∈ range (i + 1), u k - r) < 0) :
    ∑ k ∈ range n, maxK (u k - 1 / (i : K) * (∑ k ∈ range i, u k - r)) 0 = r := by
  simp only [maxK_eq]
  set tau := 1 / (i : K) * (∑ k ∈ range i, u k - r) with htau
  have hipos : (0 : K) < i := by exact_mod_cast hi1
  have hlow : ∀ k ∈ range i, max (u k - tau) 0 = u k - tau := by
    intro k hk
    have hk' : k < i := mem_range.mp hk
    have : u (i - 1) ≤ u k := hanti k (i - 1) (by omega) (by omega)
    exact max_eq_left (by linarith)
  have hhigh : ∀ k ∈ Ico i n, max (u k - tau) 0 = 0 := by
    intro k hk
    obtain ⟨hk1, hk2⟩ := mem_Ico.mp hk
    rcases hnext with h | h
    · omega
    · have hui : u i < tau := by
        rw [sum_range_succ] at h
        have hi1' : (0 : K) < (i : K) + 1 := by positivity
        have h' : u i * ((i : K) + 1) < ∑ k ∈ range i, u k + u i - r := by
          have := sub_neg.mp h
          rwa [one_div, inv_mul_eq_div, lt_div_iff₀ hi1'] at this
        rw [htau, one_div, inv_mul_eq_div, lt_div_iff₀ hipos]
        linarith
      have : u k ≤ u i := hanti i k hk1 hk2
      exact max_eq_right (by linarith)
  rw [← sum_range_add_sum_Ico _ hin, sum_congr rfl hlow, sum_congr rfl hhigh,
    sum_sub_distrib, sum_const, sum_const_zero, card_range, nsmul_eq_mul, add_zero]
  rw [htau]; field_simp; ring


/-- End-to-end for the L1 leaf of the expression-tree model: for every length, all data terms,
non-negative weights and positive (scalar or point-wise) steps, the list computed by
`Fn.prox` for `proximal_l1(space, lam, g)` has the right length and minimises
`Σ w_i (λ|z_i − g_i| + (z_i − x_i)²/(2σ_i))` over all `z`, with a quadratic gap. -/
theorem C07.l1_list_minimises (E : Env K) (lam : K) (g : Option (List K)) (w x z : List K)
    (sig : Sig K) (hl : 0 < lam) (hw : ∀ i < x.length, 0 ≤ w.getD i 0)
    (hs : ∀ i < x.length, 0 < sig.at i) :
    let p := Fn.prox E (.l1 lam g) w sig x
    p.length = x.length ∧
    ∑ i ∈ range x.length, w.getD i 0 * (lam * |p.getD i 0 - gAt g i|
        + ((p.getD i 0 - x.getD i 0) ^ 2 + (z.getD i 0 - p.getD i 0) ^ 2) / (2 * sig.at i))
      ≤ ∑ i ∈ range x.length, w.getD i 0 * (lam * |z.getD i 0 - gAt g i|
        + (z.getD i 0 - x.getD i 0) ^ 2 / (2 * sig.at i)) := by
  intro p
  have hp : p = idxMap x fun i xi => softCode (sig.at i * lam) xi (gAt g i) := rfl
  refine ⟨by rw [hp, idxMap_length], ?_⟩
  apply C07.separable_lift (range x.length) (fun i => w.getD i 0) (fun i => sig.at i)
    (fun i => x.getD i 0) (fun i => p.getD i 0) (fun i => z.getD i 0)
    (fun i t => lam * |t - gAt g i|)
  · intro i hi; exact hw i (mem_range.mp hi)
  · intro i hi; exact hs i (mem_range.mp hi)
  · intro i hi
    have hi' := mem_range.mp hi
    have hpi : p.getD i 0 = softCode (sig.at i * lam) (x.getD i 0) (gAt g i) := by
      rw [hp, idxMap_getD _ _ _ _ hi']
    have := C07.soft_vi (sig.at i * lam) (x.getD i 0) (gAt g i) (z.getD i 0)
      (mul_pos (hs i hi') hl)
    simp only [hpi]
    linarith [this]


/-- `IndicatorSumConstraint.proximal` on an array-weighted space (`x + τ/w`,
`τ = (s − Σx)/Σ(1/w)`): the result has the prescribed sum and satisfies the projection
inequality in the weighted inner product `Σ w_i a_i b_i`, for all positive weights. -/
theorem C07.sumc_weighted_vi {ι : Type} (I : Finset ι) (hI : I.Nonempty) (w x z : ι → K) (sv : K)
    (hw : ∀ i ∈ I, 0 < w i) (hz : ∑ i ∈ I, z i = sv) :
    let tau := (sv - ∑ i ∈ I, x i) / ∑ i ∈ I, 1 / w i
    (∑ i ∈ I, (x i + tau / w i) = sv) ∧
    ∑ i ∈ I, w i * ((x i - (x i + tau / w i)) * (z i - (x i + tau / w i))) ≤ 0 := by
  intro tau
  have hS : 0 < ∑ i ∈ I, 1 / w i :=
    Finset.sum_pos (fun i hi => one_div_pos.mpr (hw i hi)) hI
  have hsum : ∑ i ∈ I, (x i + tau / w i) = sv := by
    have e : ∀ i ∈ I, x i + tau / w i = x i + tau * (1 / w i) := by intro i _; ring
    rw [Finset.sum_congr rfl e, Finset.sum_add_distrib, ← Finset.mul_sum]
    simp only [tau]; field_simp; ring
  refine ⟨hsum, ?_⟩
  have e : ∀ i ∈ I, w i * ((x i - (x i + tau / w i)) * (z i - (x i + tau / w i)))
      = -tau * (z i - (x i + tau / w i)) := by
    intro i hi
    have := ne_of_gt (hw i hi)
    field_simp; ring
  rw [Finset.sum_congr rfl e, ← Finset.mul_sum, Finset.sum_sub_distrib, hz, hsum]
  simp

/-- KKT sufficiency for `ProximalSimplex._call` on an array-weighted space: if
`p = max(x − τ/w, 0)` entry-wise and `Σ p = r`, then `p` is in the simplex and satisfies the
projection inequality in the weighted inner product against every `z ≥ 0` with `Σ z = r`. -/
theorem C07.simplex_weighted_kkt_sufficient {ι : Type} (I : Finset ι) (w x z : ι → K) (tau r : K)
    (hw : ∀ i ∈ I, 0 < w i)
    (hp : ∑ i ∈ I, maxK (x i - tau / w i) 0 = r)
    (hz0 : ∀ i ∈ I, 0 ≤ z i) (hz : ∑ i ∈ I, z i = r) :
    (∀ i ∈ I, 0 ≤ maxK (x i - tau / w i) 0) ∧
    ∑ i ∈ I, w i * ((x i - maxK (x i - tau / w i) 0) * (z i - maxK (x i - tau / w i) 0)) ≤ 0 := by
  simp only [maxK_eq] at *
  refine ⟨fun i _ => le_max_right _ _, ?_⟩
  have key : ∀ i ∈ I, w i * ((x i - max (x i - tau / w i) 0) * (z i - max (x i - tau / w i) 0))
      ≤ tau * (z i - max (x i - tau / w i) 0) := by
    intro i hi
    have hzi := hz0 i hi
    have hwi := hw i hi
    rcases le_total (x i - tau / w i) 0 with h | h
    · rw [max_eq_right h]
      have : w i * x i ≤ tau := by
        have : x i ≤ tau / w i := by linarith
        rwa [le_div_iff₀ hwi, mul_comm] at this
      nlinarith
    · rw [max_eq_left h]
      have e : w i * ((x i - (x i - tau / w i)) * (z i - (x i - tau / w i)))
          = tau * (z i - (x i - tau / w i)) := by field_simp; ring
      rw [e]
  calc _ ≤ ∑ i ∈ I, tau * (z i - max (x i - tau / w i) 0) := Finset.sum_le_sum key
    _ = tau * (∑ i ∈ I, z i - ∑ i ∈ I, max (x i - tau / w i) 0) := by
        rw [← Finset.mul_sum, Finset.sum_sub_distrib]
    _ = 0 := by rw [hz, hp]; ring
    _ ≤ 0 := le_refl _

/-- `proj_simplex` is feasible on EVERY input: for every non-empty list `x` (any length, any
order, ties included) and diameter `r ≥ 0`, the executable `simplexTau` (merge sort, cumulative
sums, last index with `crit ≥ 0`) returns a threshold `τ` with `Σ max(x_i − τ, 0) = r`. -/
theorem C07.simplex_threshold_feasible (r : K) (x : List K) (hx : x ≠ []) (hr : 0 ≤ r) :
    ∃ tau, simplexTau r x = some tau ∧ sumK (x.map fun xi => maxK (xi - tau) 0) = r := by
  set le' : K → K → Bool := fun a b => decide (b ≤ a) with hle
  set xs := x.mergeSort le' with hxs
  have hperm : xs.Perm x := List.mergeSort_perm x le'
  have hlen : xs.length = x.length := hperm.length_eq
  have hn : 0 < xs.length := by rw [hlen]; exact List.length_pos_iff.mpr hx
  have hsorted : xs.Pairwise (fun a b => le' a b = true) :=
    List.pairwise_mergeSort (by intro a b c; simp only [hle, decide_eq_true_eq]; intro h1 h2; exact le_trans h2 h1)
      (by intro a b; simp only [hle, Bool.or_eq_true, decide_eq_true_eq]; exact le_total b a) x
  set u : ℕ → K := fun k => xs.getD k 0 with hu
  have hanti : ∀ a b, a ≤ b → b < xs.length → u b ≤ u a := by
    intro a b hab hb
    rcases Nat.eq_or_lt_of_le hab with h | h
    · subst h; exact le_refl _
    · have := (List.pairwise_iff_getElem.mp hsorted) a b (by omega) hb h
      simp only [hle, decide_eq_true_eq] at this
      simpa [hu, List.getD_eq_getElem?_getD, hb, (by omega : a < xs.length)] using this
  have hinv := simplex_go_inv r hr xs xs.length 0 none (by omega) rfl
  simp only [List.drop_zero, Nat.cast_zero, zero_add, Finset.range_zero, Finset.sum_empty] at hinv
  have hgo : simplexTau r x = simplexTau.go r xs 1 0 none := rfl
  cases hb : simplexTau.go r xs 1 0 none with
  | none =>
    rw [hb] at hinv
    exact absurd hinv (by have : xs.length ≠ 0 := by omega
                          exact this)
  | some tau =>
    rw [hb] at hinv
    obtain ⟨i, hi1, hin, htau, hcrit, hnext⟩ := hinv
    refine ⟨tau, by rw [hgo, hb], ?_⟩
    have key := C07.simplex_threshold_index xs.length i u r hi1 hin hanti
      (by rw [← htau]; exact hcrit) hnext
    rw [← htau] at key
    have e1 := sum_range_getD xs (fun v => maxK (v - tau) 0)
    rw [sumK_eq_sum, ← (hperm.map _).sum_eq, ← e1]
    exact key

/-- KKT sufficiency for `proj_l1` (thresholded branch, unweighted / constant-weight inner
product): if `τ ≥ 0` and `Σ max(|x_i| − τ, 0) = r`, then `p_i = max(|x_i| − τ, 0)·sign(x_i)` has
`Σ|p_i| = r` and satisfies the projection inequality against every `z` with `Σ|z_i| ≤ r`. -/
theorem C07.l1ball_kkt_sufficient {ι : Type} (I : Finset ι) (x z : ι → K) (tau r : K)
    (ht : 0 ≤ tau) (hp : ∑ i ∈ I, maxK (absK (x i) - tau) 0 = r)
    (hz : ∑ i ∈ I, |z i| ≤ r) :
    (∑ i ∈ I, |maxK (absK (x i) - tau) 0 * signK (x i)| = r) ∧
    ∑ i ∈ I, (x i - maxK (absK (x i) - tau) 0 * signK (x i))
        * (z i - maxK (absK (x i) - tau) 0 * signK (x i)) ≤ 0 := by
  have habs : ∀ i ∈ I, |maxK (absK (x i) - tau) 0 * signK (x i)| = maxK (absK (x i) - tau) 0 := by
    intro i _
    rcases l1entry_cases (x i) tau ht with ⟨_, h2, h3⟩ | ⟨h1, h2, h3⟩
    · rw [h3, h2, abs_zero]
    · rcases h3 with ⟨hx, h3⟩ | ⟨hx, h3⟩
      · rw [h3, h2, abs_of_pos hx, abs_of_nonneg]; rw [abs_of_pos hx] at h1; linarith
      · rw [h3, h2, abs_of_neg hx, abs_of_nonpos]; ring; rw [abs_of_neg hx] at h1; linarith
  refine ⟨by rw [Finset.sum_congr rfl habs, hp], ?_⟩
  have key : ∀ i ∈ I, (x i - maxK (absK (x i) - tau) 0 * signK (x i))
      * (z i - maxK (absK (x i) - tau) 0 * signK (x i))
      ≤ tau * (|z i| - maxK (absK (x i) - tau) 0) := by
    intro i _
    have hz1 := le_abs_self (z i)
    have hz2 := neg_abs_le (z i)
    rcases l1entry_cases (x i) tau ht with ⟨h1, h2, h3⟩ | ⟨h1, h2, h3⟩
    · rw [h3, h2]
      have hx := abs_le.mp h1
      have : x i * z i ≤ tau * |z i| := by
        calc x i * z i ≤ |x i * z i| := le_abs_self _
          _ = |x i| * |z i| := abs_mul _ _
          _ ≤ tau * |z i| := by gcongr
      linarith
    · rcases h3 with ⟨hx, h3⟩ | ⟨hx, h3⟩
      · rw [h3, h2, abs_of_pos hx]; nlinarith
      · rw [h3, h2, abs_of_neg hx]; nlinarith
  calc _ ≤ ∑ i ∈ I, tau * (|z i| - maxK (absK (x i) - tau) 0) := Finset.sum_le_sum key
    _ = tau * (∑ i ∈ I, |z i| - r) := by rw [← Finset.mul_sum, Finset.sum_sub_distrib, hp]
    _ ≤ 0 := mul_nonpos_of_nonneg_of_nonpos ht (by linarith)

/-- `proximal_linfty` (thresholded branch; `ρ = σ / w` for the constant weight `w`): with
`q_i = max(|x_i| − τ, 0)·sign(x_i)` the projection of `x` onto the l1-ball of radius `ρ`, the
point `p = −q + x` has sup-norm at most `τ` (equal to `τ` when `ρ > 0`) and satisfies the
variational inequality of `prox_{ρ‖·‖_∞}`: `ρ τ + Σ(x_i − p_i)(z_i − p_i) ≤ ρ M` for every `z`
and every bound `M ≥ max|z_i|`. (Multiplying by `w` gives the inequality in the weighted space.) -/
theorem C07.linf_vi {ι : Type} (I : Finset ι) (x z : ι → K) (tau rho M : K)
    (ht : 0 ≤ tau) (hp : ∑ i ∈ I, maxK (absK (x i) - tau) 0 = rho)
    (hz : ∀ i ∈ I, |z i| ≤ M) :
    (∀ i ∈ I, |-(maxK (absK (x i) - tau) 0 * signK (x i)) + x i| ≤ tau) ∧
    (0 < rho → ∃ i ∈ I, |-(maxK (absK (x i) - tau) 0 * signK (x i)) + x i| = tau) ∧
    rho * tau + ∑ i ∈ I, (x i - (-(maxK (absK (x i) - tau) 0 * signK (x i)) + x i))
        * (z i - (-(maxK (absK (x i) - tau) 0 * signK (x i)) + x i)) ≤ rho * M := by
  refine ⟨?_, ?_, ?_⟩
  · intro i _
    rcases l1entry_cases (x i) tau ht with ⟨h1, _, h3⟩ | ⟨h1, _, h3⟩
    · rw [h3]; simpa using h1
    · rcases h3 with ⟨hx, h3⟩ | ⟨hx, h3⟩
      · rw [h3]; ring_nf; rw [abs_of_nonneg ht]
      · rw [h3]; ring_nf; rw [abs_neg, abs_of_nonneg ht]
  · intro hrho
    by_contra hc
    simp only [not_exists, not_and] at hc
    have : ∑ i ∈ I, maxK (absK (x i) - tau) 0 = 0 := by
      apply Finset.sum_eq_zero
      intro i hi
      rcases l1entry_cases (x i) tau ht with ⟨_, h2, _⟩ | ⟨h1, _, h3⟩
      · exact h2
      · exfalso
        apply hc i hi
        rcases h3 with ⟨hx, h3⟩ | ⟨hx, h3⟩
        · rw [h3]; ring_nf; rw [abs_of_nonneg ht]
        · rw [h3]; ring_nf; rw [abs_neg, abs_of_nonneg ht]
    linarith
  · have key : ∀ i ∈ I, (x i - (-(maxK (absK (x i) - tau) 0 * signK (x i)) + x i))
        * (z i - (-(maxK (absK (x i) - tau) 0 * signK (x i)) + x i))
        ≤ maxK (absK (x i) - tau) 0 * M - maxK (absK (x i) - tau) 0 * tau := by
      intro i hi
      have hzi := abs_le.mp (hz i hi)
      rcases l1entry_cases (x i) tau ht with ⟨h1, h2, h3⟩ | ⟨h1, h2, h3⟩
      · rw [h3, h2]; simp
      · rcases h3 with ⟨hx, h3⟩ | ⟨hx, h3⟩
        · rw [h3, h2, abs_of_pos hx]; rw [abs_of_pos hx] at h1; nlinarith
        · rw [h3, h2, abs_of_neg hx]; rw [abs_of_neg hx] at h1; nlinarith
    have := Finset.sum_le_sum key
    rw [Finset.sum_sub_distrib, ← Finset.sum_mul, ← Finset.sum_mul, hp] at this
    linarith

/-- `proximal_linfty`, branch `Σ|x_i| ≤ ρ` (`proj_l1` returns `x`, the proximal point is 0). -/
theorem C07.linf_vi_small {ι : Type} (I : Finset ι) (x z : ι → K) (rho M : K)
    (hx : ∑ i ∈ I, |x i| ≤ rho) (hM : 0 ≤ M) (hz : ∀ i ∈ I, |z i| ≤ M) :
    rho * 0 + ∑ i ∈ I, (x i - (-(x i) + x i)) * (z i - (-(x i) + x i)) ≤ rho * M := by
  have key : ∀ i ∈ I, (x i - (-(x i) + x i)) * (z i - (-(x i) + x i)) ≤ |x i| * M := by
    intro i hi
    have : x i * z i ≤ |x i| * M := by
      calc x i * z i ≤ |x i * z i| := le_abs_self _
        _ = |x i| * |z i| := abs_mul _ _
        _ ≤ |x i| * M := by gcongr; exact hz i hi
    simpa using this
  have := Finset.sum_le_sum key
  rw [← Finset.sum_mul] at this
  nlinarith

/-- `proj_l1`, list level, every input: when `Σ|x_i| > r ≥ 0` the executable model finds a
threshold `τ ≥ 0` with `Σ max(|x_i| − τ, 0) = r` — the hypotheses of `C07.l1ball_kkt_sufficient`
and `C07.linf_vi` always hold on the branch where the code thresholds. -/
theorem C07.projL1_threshold (r : K) (x : List K) (hr : 0 ≤ r)
    (hbig : ¬ sumK (x.map absK) ≤ r) :
    ∃ tau, 0 ≤ tau ∧ simplexTau r (x.map absK) = some tau ∧
      sumK ((x.map absK).map fun u => maxK (u - tau) 0) = r := by
  have hx : x.map absK ≠ [] := by
    intro h
    rw [h] at hbig
    exact hbig (by simpa [sumK] using hr)
  obtain ⟨tau, h1, h2⟩ := C07.simplex_threshold_feasible r (x.map absK) hx hr
  refine ⟨tau, ?_, h1, h2⟩
  by_contra hneg
  have hneg' : tau < 0 := not_le.mp hneg
  have hle : ((x.map absK).map id).sum ≤ ((x.map absK).map fun u => maxK (u - tau) 0).sum := by
    apply List.sum_le_sum
    intro u _
    rw [maxK_eq]
    exact le_trans (by simp only [id]; linarith) (le_max_left _ _)
  rw [List.map_id, ← sumK_eq_sum, ← sumK_eq_sum, h2] at hle
  exact hbig hle

/-! ### the executed `Fn.prox` leaf by leaf -/

/-- `ProximalL2Squared._call` as executed by `Fn.prox` (scalar or point-wise step): right length,
and minimiser of `Σ w_i (λ(z_i − g_i)² + (z_i − x_i)²/(2σ_i))` with quadratic gap. -/
theorem C07.l2sq_list_minimises (E : Env K) (lam : K) (g : Option (List K)) (w x z : List K)
    (sig : Sig K) (hl : 0 ≤ lam) (hw : ∀ i < x.length, 0 ≤ w.getD i 0)
    (hs : ∀ i < x.length, 0 < sig.at i) :
    let p := Fn.prox E (.l2sq lam g) w sig x
    p.length = x.length ∧
    ∑ i ∈ range x.length, w.getD i 0 * (lam * (p.getD i 0 - gAt g i) ^ 2
        + ((p.getD i 0 - x.getD i 0) ^ 2 + (z.getD i 0 - p.getD i 0) ^ 2) / (2 * sig.at i))
      ≤ ∑ i ∈ range x.length, w.getD i 0 * (lam * (z.getD i 0 - gAt g i) ^ 2
        + (z.getD i 0 - x.getD i 0) ^ 2 / (2 * sig.at i)) := by
  intro p
  have hlen : p.length = x.length := by
    show (Fn.prox E (.l2sq lam g) w sig x).length = _
    cases sig <;> simp [Fn.prox, idxMap_length]
  have hpi : ∀ i < x.length, p.getD i 0 = l2sqCode lam (sig.at i) (x.getD i 0) (gAt g i) := by
    intro i hi
    show (Fn.prox E (.l2sq lam g) w sig x).getD i 0 = _
    cases sig with
    | sc s => simp only [Fn.prox]; rw [idxMap_getD _ _ _ _ hi]; rfl
    | vec v =>
      simp only [Fn.prox]; rw [idxMap_getD _ _ _ _ hi]
      exact C07.l2sq_pointwise_eq lam _ _ _ hl (hs i hi)
  refine ⟨hlen, ?_⟩
  apply C07.separable_lift (range x.length) (fun i => w.getD i 0) (fun i => sig.at i)
    (fun i => x.getD i 0) (fun i => p.getD i 0) (fun i => z.getD i 0)
    (fun i t => lam * (t - gAt g i) ^ 2)
  · intro i hi; exact hw i (mem_range.mp hi)
  · intro i hi; exact hs i (mem_range.mp hi)
  · intro i hi
    have hi' := mem_range.mp hi
    simp only [hpi i hi']
    exact C07.l2sq_vi lam (sig.at i) (x.getD i 0) (gAt g i) (z.getD i 0) hl (hs i hi')

/-- `ProximalConvexConjL2Squared._call` as executed by `Fn.prox`. -/
theorem C07.ccl2sq_list_minimises (E : Env K) (lam : K) (g : Option (List K)) (w x z : List K)
    (sig : Sig K) (hl : 0 < lam) (hw : ∀ i < x.length, 0 ≤ w.getD i 0)
    (hs : ∀ i < x.length, 0 < sig.at i) :
    let p := Fn.prox E (.ccl2sq lam g) w sig x
    p.length = x.length ∧
    ∑ i ∈ range x.length, w.getD i 0 * ((p.getD i 0 ^ 2 / (4 * lam) + gAt g i * p.getD i 0)
        + ((p.getD i 0 - x.getD i 0) ^ 2 + (z.getD i 0 - p.getD i 0) ^ 2) / (2 * sig.at i))
      ≤ ∑ i ∈ range x.length, w.getD i 0 * ((z.getD i 0 ^ 2 / (4 * lam) + gAt g i * z.getD i 0)
        + (z.getD i 0 - x.getD i 0) ^ 2 / (2 * sig.at i)) := by
  intro p
  have hlen : p.length = x.length := by
    show (Fn.prox E (.ccl2sq lam g) w sig x).length = _
    cases sig <;> simp [Fn.prox, idxMap_length]
  have hpi : ∀ i < x.length, p.getD i 0 = ccL2sqCode lam (sig.at i) (x.getD i 0) (gAt g i) := by
    intro i hi
    show (Fn.prox E (.ccl2sq lam g) w sig x).getD i 0 = _
    cases sig with
    | sc s => simp only [Fn.prox]; rw [idxMap_getD _ _ _ _ hi]; rfl
    | vec v =>
      simp only [Fn.prox]; rw [idxMap_getD _ _ _ _ hi]
      exact C07.ccl2sq_pointwise_eq lam _ _ _ hl (hs i hi)
  refine ⟨hlen, ?_⟩
  apply C07.separable_lift (range x.length) (fun i => w.getD i 0) (fun i => sig.at i)
    (fun i => x.getD i 0) (fun i => p.getD i 0) (fun i => z.getD i 0)
    (fun i t => t ^ 2 / (4 * lam) + gAt g i * t)
  · intro i hi; exact hw i (mem_range.mp hi)
  · intro i hi; exact hs i (mem_range.mp hi)
  · intro i hi
    have hi' := mem_range.mp hi
    simp only [hpi i hi']
    exact C07.ccl2sq_vi lam (sig.at i) (x.getD i 0) (gAt g i) (z.getD i 0) hl (hs i hi')

/-- `ProximalConvexConjL1._call` as executed by `Fn.prox` (`eps = 0`): every entry lies in
`[-λ, λ]`, and against every `z` with `|z_i| ≤ λ` the result minimises
`Σ w_i (g_i z_i + (z_i − x_i)²/(2σ_i))` with quadratic gap. -/
theorem C07.ccl1_list_minimises (E : Env K) (lam : K) (g : Option (List K)) (w x z : List K)
    (sig : Sig K) (hl : 0 < lam) (hw : ∀ i < x.length, 0 ≤ w.getD i 0)
    (hs : ∀ i < x.length, 0 < sig.at i) (hz : ∀ i < x.length, |z.getD i 0| ≤ lam) :
    let p := Fn.prox E (.ccl1 lam g) w sig x
    p.length = x.length ∧ (∀ i < x.length, |p.getD i 0| ≤ lam) ∧
    ∑ i ∈ range x.length, w.getD i 0 * (gAt g i * p.getD i 0
        + ((p.getD i 0 - x.getD i 0) ^ 2 + (z.getD i 0 - p.getD i 0) ^ 2) / (2 * sig.at i))
      ≤ ∑ i ∈ range x.length, w.getD i 0 * (gAt g i * z.getD i 0
        + (z.getD i 0 - x.getD i 0) ^ 2 / (2 * sig.at i)) := by
  intro p
  have hp : p = idxMap x fun i xi => ccL1Code lam (sig.at i * gAt g i) xi := rfl
  have hpi : ∀ i < x.length, p.getD i 0 = ccL1Code lam (sig.at i * gAt g i) (x.getD i 0) := by
    intro i hi; rw [hp, idxMap_getD _ _ _ _ hi]
  refine ⟨by rw [hp, idxMap_length], ?_, ?_⟩
  · intro i hi
    rw [hpi i hi]
    exact (C07.ccl1_vi lam _ (x.getD i 0) (z.getD i 0) hl (hz i hi)).1
  apply C07.separable_lift (range x.length) (fun i => w.getD i 0) (fun i => sig.at i)
    (fun i => x.getD i 0) (fun i => p.getD i 0) (fun i => z.getD i 0)
    (fun i t => gAt g i * t)
  · intro i hi; exact hw i (mem_range.mp hi)
  · intro i hi; exact hs i (mem_range.mp hi)
  · intro i hi
    have hi' := mem_range.mp hi
    simp only [hpi i hi']
    have := (C07.ccl1_vi lam (sig.at i * gAt g i) (x.getD i 0) (z.getD i 0) hl (hz i hi')).2
    linarith [this]

/-- `ProxOpBoxConstraint._call` as executed by `Fn.prox` (bounds given entry-wise, absent bounds
allowed): the result is in the box and, against every `z` in the box, is the closest point in
every positively weighted norm (projection inequality summed with the weights). -/
theorem C07.box_list_projection (E : Env K) (lo hi : Option (List K)) (w x z : List K) (sig : Sig K)
    (hw : ∀ i < x.length, 0 ≤ w.getD i 0)
    (hlh : ∀ i < x.length, ∀ l u, lo.map (·.getD i 0) = some l → hi.map (·.getD i 0) = some u → l ≤ u)
    (hzl : ∀ i < x.length, ∀ l, lo.map (·.getD i 0) = some l → l ≤ z.getD i 0)
    (hzu : ∀ i < x.length, ∀ u, hi.map (·.getD i 0) = some u → z.getD i 0 ≤ u) :
    let p := Fn.prox E (.box lo hi) w sig x
    p.length = x.length ∧
    (∀ i < x.length, (∀ l, lo.map (·.getD i 0) = some l → l ≤ p.getD i 0) ∧
      (∀ u, hi.map (·.getD i 0) = some u → p.getD i 0 ≤ u)) ∧
    ∑ i ∈ range x.length, w.getD i 0 * ((x.getD i 0 - p.getD i 0) * (z.getD i 0 - p.getD i 0)) ≤ 0 := by
  intro p
  have hp : p = idxMap x fun i xi =>
      boxCode (lo.map (·.getD i 0)) (hi.map (·.getD i 0)) xi := rfl
  have hpi : ∀ i < x.length, p.getD i 0
      = boxCode (lo.map (·.getD i 0)) (hi.map (·.getD i 0)) (x.getD i 0) := by
    intro i hi'; rw [hp, idxMap_getD _ _ _ _ hi']
  refine ⟨by rw [hp, idxMap_length], ?_, ?_⟩
  · intro i hi'
    rw [hpi i hi']
    have := C07.box_vi (lo.map (·.getD i 0)) (hi.map (·.getD i 0)) (x.getD i 0) (z.getD i 0)
      (hlh i hi') (hzl i hi') (hzu i hi')
    exact ⟨this.1, this.2.1⟩
  · apply Finset.sum_nonpos
    intro i hi'
    have hi'' := mem_range.mp hi'
    rw [hpi i hi'']
    have := (C07.box_vi (lo.map (·.getD i 0)) (hi.map (·.getD i 0)) (x.getD i 0) (z.getD i 0)
      (hlh i hi'') (hzl i hi'') (hzu i hi'')).2.2
    exact mul_nonpos_of_nonneg_of_nonpos (hw i hi'') this


/-- `ProximalHuber._call` on a tensor space as executed by `Fn.prox` (float step, `γ > 0`):
minimiser of `Σ w_i (f_γ(z_i) + (z_i − x_i)²/(2σ))` with quadratic gap. -/
theorem C07.huber_list_minimises (E : Env K) (gam s : K) (w x z : List K)
    (hg : 0 < gam) (hs : 0 < s) (hw : ∀ i < x.length, 0 ≤ w.getD i 0) :
    let p := Fn.prox E (.huber gam) w (.sc s) x
    p.length = x.length ∧
    ∑ i ∈ range x.length, w.getD i 0 * (huberFn gam (p.getD i 0)
        + ((p.getD i 0 - x.getD i 0) ^ 2 + (z.getD i 0 - p.getD i 0) ^ 2) / (2 * s))
      ≤ ∑ i ∈ range x.length, w.getD i 0 * (huberFn gam (z.getD i 0)
        + (z.getD i 0 - x.getD i 0) ^ 2 / (2 * s)) := by
  intro p
  have hp : p = x.map (huberCode gam s) := rfl
  refine ⟨by rw [hp, List.length_map], ?_⟩
  apply C07.separable_lift (range x.length) (fun i => w.getD i 0) (fun _ => s)
    (fun i => x.getD i 0) (fun i => p.getD i 0) (fun i => z.getD i 0)
    (fun _ t => huberFn gam t)
  · intro i hi; exact hw i (mem_range.mp hi)
  · intro i _; exact hs
  · intro i hi
    have hi' := mem_range.mp hi
    simp only [hp, map_getD' x _ i hi']
    exact C07.huber_vi gam s (x.getD i 0) (z.getD i 0) hg hs

/-- `IndicatorSimplex.proximal` (no array weights) as executed by `Fn.prox`, every input: for
every non-empty `x` and diameter `r ≥ 0` the result is in the simplex (`p ≥ 0`, `Σp = r`) and
satisfies the projection inequality against every `z` of the simplex. -/
theorem C07.simplex_list_projection (E : Env K) (r : K) (w x z : List K) (sig : Sig K)
    (hx : x ≠ []) (hr : 0 ≤ r) (hz0 : ∀ i < x.length, 0 ≤ z.getD i 0)
    (hz : ∑ i ∈ range x.length, z.getD i 0 = r) :
    let p := Fn.prox E (.simplex false r) w sig x
    p.length = x.length ∧ (∀ i < x.length, 0 ≤ p.getD i 0) ∧
    ∑ i ∈ range x.length, p.getD i 0 = r ∧
    ∑ i ∈ range x.length, (x.getD i 0 - p.getD i 0) * (z.getD i 0 - p.getD i 0) ≤ 0 := by
  intro p
  obtain ⟨tau, htau, hsum⟩ := C07.simplex_threshold_feasible r x hx hr
  have hp : p = x.map fun xi => maxK (xi - tau) 0 := by
    show (projSimplex r x).getD x = _
    simp [projSimplex, htau]
  have hpi : ∀ i < x.length, p.getD i 0 = maxK (x.getD i 0 - tau) 0 := by
    intro i hi; rw [hp, map_getD' x _ i hi]
  have hfeas : ∑ i ∈ range x.length, maxK (x.getD i 0 - tau) 0 = r := by
    rw [sum_range_getD x (fun v => maxK (v - tau) 0), ← sumK_eq_sum]; exact hsum
  have key := C07.simplex_kkt_sufficient (range x.length) (fun i => x.getD i 0)
    (fun i => z.getD i 0) tau r hfeas (fun i hi => hz0 i (mem_range.mp hi)) hz
  refine ⟨by rw [hp, List.length_map], ?_, ?_, ?_⟩
  · intro i hi; rw [hpi i hi]; exact key.1 i (mem_range.mpr hi)
  · rw [Finset.sum_congr rfl (fun i hi => hpi i (mem_range.mp hi))]; exact hfeas
  · rw [Finset.sum_congr rfl (fun i hi => by rw [hpi i (mem_range.mp hi)])]; exact key.2

/-- `IndicatorSumConstraint.proximal` (no array weights) as executed by `Fn.prox`, every
non-empty input: the result has the prescribed sum and satisfies the projection inequality
against every `z` with that sum. -/
theorem C07.sumc_list_projection (E : Env K) (sv : K) (w x z : List K) (sig : Sig K)
    (hx : x ≠ []) (hz : ∑ i ∈ range x.length, z.getD i 0 = sv) :
    let p := Fn.prox E (.sumc false sv) w sig x
    p.length = x.length ∧ ∑ i ∈ range x.length, p.getD i 0 = sv ∧
    ∑ i ∈ range x.length, (x.getD i 0 - p.getD i 0) * (z.getD i 0 - p.getD i 0) ≤ 0 := by
  intro p
  have hne : (range x.length).Nonempty := by
    rw [Finset.nonempty_range_iff]; exact (List.length_pos_iff.mpr hx).ne'
  have key := C07.sumc_vi (range x.length) hne (fun i => x.getD i 0) (fun i => z.getD i 0) sv hz
  simp only [card_range] at key
  have hoff : 1 / (x.foldl (fun acc _ => acc + 1) (0 : K)) * (sv - sumK x)
      = 1 / (x.length : K) * (sv - ∑ i ∈ range x.length, x.getD i 0) := by
    rw [foldl_count, zero_add, sumK_eq_sum]
    congr 2
    have := sum_range_getD x id
    simpa using this.symm
  have hp : p = x.map (· + 1 / (x.length : K) * (sv - ∑ i ∈ range x.length, x.getD i 0)) := by
    show x.map (· + 1 / (x.foldl (fun acc _ => acc + 1) (0 : K)) * (sv - sumK x)) = _
    rw [hoff]
  have hpi : ∀ i < x.length, p.getD i 0
      = x.getD i 0 + 1 / (x.length : K) * (sv - ∑ i ∈ range x.length, x.getD i 0) := by
    intro i hi; rw [hp, map_getD' x _ i hi]
  refine ⟨by rw [hp, List.length_map], ?_, ?_⟩
  · rw [Finset.sum_congr rfl (fun i hi => hpi i (mem_range.mp hi))]; exact key.1
  · rw [Finset.sum_congr rfl (fun i hi => by rw [hpi i (mem_range.mp hi)])]; exact key.2

/-- Entry-wise description of the executed `projL1`: either the input itself (`Σ|x_i| ≤ r`) or
the thresholded point with a feasible threshold `τ ≥ 0`. -/
theorem C07.projL1_cases (r : K) (x : List K) (hr : 0 ≤ r) :
    (∑ i ∈ range x.length, |x.getD i 0| ≤ r ∧ (projL1 r x).getD x = x) ∨
    (∃ tau, 0 ≤ tau ∧ ∑ i ∈ range x.length, maxK (absK (x.getD i 0) - tau) 0 = r ∧
      ((projL1 r x).getD x).length = x.length ∧
      ∀ i < x.length, ((projL1 r x).getD x).getD i 0
        = maxK (absK (x.getD i 0) - tau) 0 * signK (x.getD i 0)) := by
  have hsumabs : sumK (x.map absK) = ∑ i ∈ range x.length, |x.getD i 0| := by
    rw [sumK_eq_sum, ← sum_range_getD x absK]
    exact Finset.sum_congr rfl (fun i _ => absK_eq _)
  by_cases hsm : sumK (x.map absK) ≤ r
  · left
    exact ⟨by rw [← hsumabs]; exact hsm, by simp [projL1, hsm]⟩
  · right
    obtain ⟨tau, ht, htau, hsum⟩ := C07.projL1_threshold r x hr hsm
    have hres : (projL1 r x).getD x = List.zipWith (fun pi xi => pi * signK xi)
        ((x.map absK).map fun u => maxK (u - tau) 0) x := by
      simp [projL1, hsm, projSimplex, htau]
    refine ⟨tau, ht, ?_, ?_, ?_⟩
    · rw [← hsum, sumK_eq_sum, List.map_map, ← sum_range_getD x]
      rfl
    · rw [hres]; simp
    · intro i hi
      rw [hres, zipWith_getD' _ _ _ i (by simpa using hi) hi, List.map_map, map_getD' x _ i hi]
      rfl

/-- `proximal_convex_conj_linfty` (`IndicatorLpUnitBall(·, 1).proximal`) as executed by
`Fn.prox`, constant weight `cw > 0`, every input: the result lies in the l1-ball of radius
`1/cw` (i.e. the weighted 1-norm is ≤ 1) and satisfies the projection inequality against every
`z` of that ball. -/
theorem C07.cclinf_list_projection (E : Env K) (cw : K) (w x z : List K) (sig : Sig K)
    (hc : 0 < cw) (hz : ∑ i ∈ range x.length, |z.getD i 0| ≤ 1 / cw) :
    let p := Fn.prox E (.cclinf cw) w sig x
    p.length = x.length ∧ ∑ i ∈ range x.length, |p.getD i 0| ≤ 1 / cw ∧
    ∑ i ∈ range x.length, (x.getD i 0 - p.getD i 0) * (z.getD i 0 - p.getD i 0) ≤ 0 := by
  intro p
  have hp : p = (projL1 (1 / cw) x).getD x := rfl
  rcases C07.projL1_cases (1 / cw) x (by positivity) with ⟨h1, h2⟩ | ⟨tau, ht, hfe, hlen, hpi⟩
  · rw [hp, h2]
    exact ⟨rfl, h1, by simp⟩
  · rw [← hp] at hlen hpi
    have key := C07.l1ball_kkt_sufficient (range x.length) (fun i => x.getD i 0)
      (fun i => z.getD i 0) tau (1 / cw) ht hfe hz
    refine ⟨hlen, ?_, ?_⟩
    · rw [Finset.sum_congr rfl (fun i hi => by rw [hpi i (mem_range.mp hi)])]
      exact le_of_eq key.1
    · rw [Finset.sum_congr rfl (fun i hi => by rw [hpi i (mem_range.mp hi)])]
      exact key.2

/-- `proximal_linfty` (`LpNorm(·, inf).proximal`) as executed by `Fn.prox`, constant weight
`cw > 0`, step `σ ≥ 0`, every input: there is `T` bounding all `|p_i|` (the sup-norm of `p`; it
is attained whenever the thresholding branch is taken with `σ > 0`) such that for every `z` and
every bound `M ≥ |z_i|`: `ρ T + Σ (x_i − p_i)(z_i − p_i) ≤ ρ M` with `ρ = σ/cw` — the
variational inequality of `prox_{σ‖·‖_∞}` in the inner product with constant weight `cw`. -/
theorem C07.linf_list_vi (E : Env K) (cw s M : K) (w x z : List K)
    (hc : 0 < cw) (hs : 0 ≤ s) (hM : 0 ≤ M) (hz : ∀ i < x.length, |z.getD i 0| ≤ M) :
    let p := Fn.prox E (.linf cw) w (.sc s) x
    p.length = x.length ∧ ∃ T, (∀ i < x.length, |p.getD i 0| ≤ T) ∧
    s / cw * T + ∑ i ∈ range x.length, (x.getD i 0 - p.getD i 0) * (z.getD i 0 - p.getD i 0)
      ≤ s / cw * M := by
  intro p
  have hp : p = List.zipWith (fun pi xi => -pi + xi) ((projL1 (s / cw) x).getD x) x := rfl
  have hr : 0 ≤ s / cw := by positivity
  rcases C07.projL1_cases (s / cw) x hr with ⟨h1, h2⟩ | ⟨tau, ht, hfe, hlen, hqi⟩
  · have hpi : ∀ i < x.length, p.getD i 0 = -(x.getD i 0) + x.getD i 0 := by
      intro i hi; rw [hp, h2, zipWith_getD' _ _ _ i hi hi]
    refine ⟨by rw [hp, h2]; simp, 0, ?_, ?_⟩
    · intro i hi; rw [hpi i hi]; simp
    · have key := C07.linf_vi_small (range x.length) (fun i => x.getD i 0) (fun i => z.getD i 0)
        (s / cw) M h1 hM (fun i hi => hz i (mem_range.mp hi))
      rw [Finset.sum_congr rfl (fun i hi => by rw [hpi i (mem_range.mp hi)])]
      exact key
  · have hpi : ∀ i < x.length, p.getD i 0
        = -(maxK (absK (x.getD i 0) - tau) 0 * signK (x.getD i 0)) + x.getD i 0 := by
      intro i hi
      rw [hp, zipWith_getD' _ _ _ i (by rw [hlen]; exact hi) hi, hqi i hi]
    have key := C07.linf_vi (range x.length) (fun i => x.getD i 0) (fun i => z.getD i 0)
      tau (s / cw) M ht hfe (fun i hi => hz i (mem_range.mp hi))
    refine ⟨by rw [hp]; simp [hlen], tau, ?_, ?_⟩
    · intro i hi; rw [hpi i hi]; exact key.1 i (mem_range.mpr hi)
    · rw [Finset.sum_congr rfl (fun i hi => by rw [hpi i (mem_range.mp hi)])]
      exact key.2.2

/-- The Huber function of the theorems is the per-entry model of `Huber._call` that C08/C09 tie
to the real code (`Functionals.huberVal1`), for `γ > 0`. -/
theorem C07.huberFn_eq_huberVal1 (gam t : K) (hg : 0 < gam) :
    huberFn gam t = OdlModel.Functionals.huberVal1 gam t := by
  unfold huberFn OdlModel.Functionals.huberVal1 OdlModel.Functionals.two
  have ha : OdlModel.Functionals.absK t = |t| := by
    unfold OdlModel.Functionals.absK; split_ifs with h
    · exact (abs_of_neg h).symm
    · exact (abs_of_nonneg (not_lt.mp h)).symm
  rw [if_pos hg, ha]
  rcases lt_trichotomy |t| gam with h | h | h
  · rw [if_pos (le_of_lt h), if_neg (not_le.mpr h)]
    rw [← sq_abs t]; field_simp; ring
  · rw [if_pos (le_of_eq h), if_pos (le_of_eq h.symm), ← sq_abs t, h]; field_simp; ring
  · rw [if_neg (not_le.mpr h), if_pos (le_of_lt h)]; norm_num

/-- `ProximalHuber._call` for `γ = 0` (documented: the L1 norm): the executed formula satisfies
the variational inequality of `σ|·|`. -/
theorem C07.huber_vi_gamma0 (sig x z : K) (hs : 0 < sig) :
    sig * |huberCode 0 sig x| + (x - huberCode 0 sig x) * (z - huberCode 0 sig x) ≤ sig * |z| := by
  unfold huberCode
  simp only [absK_eq, zero_add, zero_div, zero_mul]
  have hz1 := le_abs_self z
  have hz2 := neg_abs_le z
  split_ifs with h
  · simp only [abs_zero, mul_zero, sub_zero, zero_add]
    calc x * z ≤ |x * z| := le_abs_self _
      _ = |x| * |z| := abs_mul _ _
      _ ≤ sig * |z| := by gcongr
  · have hx : sig < |x| := not_le.mp h
    rcases le_or_gt 0 x with h0 | h0
    · rw [abs_of_nonneg h0] at hx ⊢
      have : x / x = 1 := div_self (by linarith)
      rw [this, mul_one, abs_of_pos (by linarith)]; nlinarith
    · rw [abs_of_neg h0] at hx ⊢
      have : x / -x = -1 := by rw [div_neg, div_self (ne_of_lt h0)]
      rw [this]
      have e : x - sig * -1 = x + sig := by ring
      rw [e, abs_of_neg (by linarith)]; nlinarith

/-! ### laws of the executed evaluator: separable sums, weighted sum constraint, firm
non-expansiveness and idempotence on lists -/

/-- `SeparableSum.proximal` / `combine_proximals` as executed by `Fn.prox`, float step: for ALL
sub-trees `f`, `rest` and all lists, the `.sep` node splits weights and point at the length of the
first summand and concatenates the two proximal points. -/
theorem C07.sep_prox_append_scalar (E : Env K) (f rest : Fn K) (wa wb xa xb : List K) (s : K)
    (hw : wa.length = xa.length) :
    Fn.prox E (.sep xa.length f rest) (wa ++ wb) (.sc s) (xa ++ xb)
      = f.prox E wa (.sc s) xa ++ rest.prox E wb (.sc s) xb := by
  simp only [Fn.prox]
  rw [← hw, List.take_left, List.drop_left, hw, List.take_left, List.drop_left]

/-- The same with a LIST of steps (one float per summand, the documented per-component steps):
the head of the list goes to the first summand as a float, the tail to the remaining sum. -/
theorem C07.sep_prox_append_list (E : Env K) (f rest : Fn K) (wa wb xa xb : List K) (s : K)
    (ss : List K) (hw : wa.length = xa.length) :
    Fn.prox E (.sep xa.length f rest) (wa ++ wb) (.vec (s :: ss)) (xa ++ xb)
      = f.prox E wa (.sc s) xa ++ rest.prox E wb (.vec ss) xb := by
  simp only [Fn.prox, List.headD_cons, List.tail_cons]
  rw [← hw, List.take_left, List.drop_left, hw, List.take_left, List.drop_left]

/-- `IndicatorSumConstraint.proximal` on an ARRAY-weighted space as executed by `Fn.prox`
(`.sumc true`), every non-empty input with positive weights: the result has the prescribed sum
and satisfies the projection inequality in the weighted inner product `Σ w_i a_i b_i`. -/
theorem C07.sumc_weighted_list_projection (E : Env K) (sv : K) (w x z : List K) (sig : Sig K)
    (hx : x ≠ []) (hlen : w.length = x.length) (hw : ∀ i < x.length, 0 < w.getD i 0)
    (hz : ∑ i ∈ range x.length, z.getD i 0 = sv) :
    let p := Fn.prox E (.sumc true sv) w sig x
    p.length = x.length ∧ ∑ i ∈ range x.length, p.getD i 0 = sv ∧
    ∑ i ∈ range x.length,
      w.getD i 0 * ((x.getD i 0 - p.getD i 0) * (z.getD i 0 - p.getD i 0)) ≤ 0 := by
  intro p
  have hne : (range x.length).Nonempty := by
    rw [Finset.nonempty_range_iff]; exact (List.length_pos_iff.mpr hx).ne'
  have key := C07.sumc_weighted_vi (range x.length) hne (fun i => w.getD i 0)
    (fun i => x.getD i 0) (fun i => z.getD i 0) sv (fun i hi => hw i (mem_range.mp hi)) hz
  have hsx : sumK x = ∑ i ∈ range x.length, x.getD i 0 := by
    rw [sumK_eq_sum]; have := sum_range_getD x id; simpa using this.symm
  have hsw : sumK (w.map (1 / ·)) = ∑ i ∈ range x.length, 1 / w.getD i 0 := by
    rw [sumK_eq_sum, ← hlen]; exact (sum_range_getD w (1 / ·)).symm
  have hp : p = List.zipWith (fun wi xi => xi + (sv - sumK x) / sumK (w.map (1 / ·)) / wi) w x := rfl
  have hpi : ∀ i < x.length, p.getD i 0 = x.getD i 0
      + (sv - ∑ i ∈ range x.length, x.getD i 0) / (∑ i ∈ range x.length, 1 / w.getD i 0)
        / w.getD i 0 := by
    intro i hi
    rw [hp, zipWith_getD' _ _ _ i (by rw [hlen]; exact hi) hi, hsx, hsw]
  refine ⟨by rw [hp]; simp [hlen], ?_, ?_⟩
  · rw [Finset.sum_congr rfl (fun i hi => hpi i (mem_range.mp hi))]; exact key.1
  · rw [Finset.sum_congr rfl (fun i hi => by rw [hpi i (mem_range.mp hi)])]; exact key.2

/-- Firm non-expansiveness of the EXECUTED L1 proximal on lists (any length, data term, weights
`≥ 0`, scalar or point-wise positive steps): `Σ w_i (p_i − q_i)²/σ_i ≤ Σ w_i (x_i − y_i)(p_i − q_i)/σ_i`
for `p = prox(x)`, `q = prox(y)` — in particular the map is 1-Lipschitz in the weighted norm. -/
theorem C07.l1_list_firmly_nonexpansive (E : Env K) (lam : K) (g : Option (List K))
    (w x y : List K) (sig : Sig K) (hl : 0 < lam) (hxy : y.length = x.length)
    (hw : ∀ i < x.length, 0 ≤ w.getD i 0) (hs : ∀ i < x.length, 0 < sig.at i) :
    let p := Fn.prox E (.l1 lam g) w sig x
    let q := Fn.prox E (.l1 lam g) w sig y
    ∑ i ∈ range x.length, w.getD i 0 * ((p.getD i 0 - q.getD i 0) ^ 2 / sig.at i)
      ≤ ∑ i ∈ range x.length,
          w.getD i 0 * ((x.getD i 0 - y.getD i 0) * (p.getD i 0 - q.getD i 0) / sig.at i) := by
  intro p q
  have hp : ∀ i < x.length, p.getD i 0 = softCode (sig.at i * lam) (x.getD i 0) (gAt g i) := by
    intro i hi
    show (idxMap x fun i xi => softCode (sig.at i * lam) xi (gAt g i)).getD i 0 = _
    rw [idxMap_getD _ _ _ _ hi]
  have hq : ∀ i < x.length, q.getD i 0 = softCode (sig.at i * lam) (y.getD i 0) (gAt g i) := by
    intro i hi
    show (idxMap y fun i xi => softCode (sig.at i * lam) xi (gAt g i)).getD i 0 = _
    rw [idxMap_getD _ _ _ _ (by rw [hxy]; exact hi)]
  apply Finset.sum_le_sum
  intro i hi
  have hi' := mem_range.mp hi
  apply mul_le_mul_of_nonneg_left _ (hw i hi')
  have hsi := hs i hi'
  have hsl : 0 < sig.at i * lam := mul_pos hsi hl
  rw [hp i hi', hq i hi']
  set a := softCode (sig.at i * lam) (x.getD i 0) (gAt g i)
  set b := softCode (sig.at i * lam) (y.getD i 0) (gAt g i)
  have h1 := C07.soft_vi (sig.at i * lam) (x.getD i 0) (gAt g i) b hsl
  have h2 := C07.soft_vi (sig.at i * lam) (y.getD i 0) (gAt g i) a hsl
  rw [div_le_div_iff_of_pos_right hsi]
  nlinarith

/-- The EXECUTED box projection is idempotent on every list (bounds entry-wise, absent bounds
allowed, `lower ≤ upper` where both are given). -/
theorem C07.box_list_idempotent (E : Env K) (lo hi : Option (List K)) (w x : List K) (sig : Sig K)
    (hlh : ∀ i < x.length, ∀ l u, lo.map (·.getD i 0) = some l → hi.map (·.getD i 0) = some u → l ≤ u) :
    let p := Fn.prox E (.box lo hi) w sig x
    ∀ i < x.length, (Fn.prox E (.box lo hi) w sig p).getD i 0 = p.getD i 0 := by
  intro p i hi'
  have hp : p = idxMap x fun i xi =>
      boxCode (lo.map (·.getD i 0)) (hi.map (·.getD i 0)) xi := rfl
  have hlenp : p.length = x.length := by rw [hp, idxMap_length]
  have hpi : p.getD i 0 = boxCode (lo.map (·.getD i 0)) (hi.map (·.getD i 0)) (x.getD i 0) := by
    rw [hp, idxMap_getD _ _ _ _ hi']
  show (idxMap p fun i xi => boxCode (lo.map (·.getD i 0)) (hi.map (·.getD i 0)) xi).getD i 0 = _
  rw [idxMap_getD _ _ _ _ (by rw [hlenp]; exact hi')]
  generalize hL : lo.map (·.getD i 0) = L at *
  generalize hH : hi.map (·.getD i 0) = H at *
  rcases L with _ | l <;> rcases H with _ | u <;>
    simp only [boxCode, maxK_eq, minK_eq] at hpi ⊢
  · rw [hpi]; exact min_eq_left (min_le_right _ _)
  · rw [hpi]; exact max_eq_left (le_max_right _ _)
  · have hlu : l ≤ u := hlh i hi' l u hL hH
    have h1 : l ≤ p.getD i 0 := by rw [hpi]; exact le_min (le_max_right _ _) hlu
    have h2 : p.getD i 0 ≤ u := by rw [hpi]; exact min_le_right _ _
    rw [max_eq_left h1, min_eq_left h2]

/-- Non-vacuity of the final-round theorems on concrete lists. -/
example : Fn.prox (⟨id, 0⟩ : Env ℚ) (.sep 2 (.l1 1 none) (.sep 1 (.l2sq 1 none) .nil)) ([1, 1] ++ [1])
    (.vec [1, 1 / 2]) ([3, 1 / 2] ++ [-1])
    = Fn.prox (⟨id, 0⟩ : Env ℚ) (.l1 1 none) [1, 1] (.sc 1) [3, 1 / 2]
      ++ Fn.prox (⟨id, 0⟩ : Env ℚ) (.sep 1 (.l2sq 1 none) .nil) [1] (.vec [1 / 2]) [-1] :=
  C07.sep_prox_append_list (⟨id, 0⟩ : Env ℚ) (.l1 1 none) (.sep 1 (.l2sq 1 none) .nil)
    [1, 1] [1] [3, 1 / 2] [-1] 1 [1 / 2] rfl

example : (Fn.prox (⟨id, 0⟩ : Env ℚ) (.sumc true 1) [1, 2] (.sc 1) [0, 0]).length = 2 :=
  (C07.sumc_weighted_list_projection (⟨id, 0⟩ : Env ℚ) 1 [1, 2] [0, 0] [2 / 3, 1 / 3] (.sc 1)
    (by simp) rfl (by intro i hi; simp at hi; interval_cases i <;> simp)
    (by simp [Finset.sum_range_succ]; norm_num)).1

example := C07.l1_list_firmly_nonexpansive (⟨id, 0⟩ : Env ℚ) 1 (some [1 / 4, 0]) [1, 2] [3, -1]
  [1 / 2, 2] (.vec [1 / 2, 2]) (by norm_num) rfl
  (by intro i hi; simp at hi; interval_cases i <;> simp)
  (by intro i hi; simp at hi; interval_cases i <;> simp [Sig.at])

example := C07.box_list_idempotent (⟨id, 0⟩ : Env ℚ) (some [-1, 0]) none [1, 1] [-3, 2] (.sc 1)
  (by intro i _ l u _ h; simp at h)

/-! Non-vacuity of the lifting theorems on concrete data. -/
example : ∑ k ∈ Finset.range 3, maxK (uEx k
    - 1 / ((2 : ℕ) : ℚ) * (∑ k ∈ Finset.range 2, uEx k - 1)) 0 = 1 := by
  apply C07.simplex_threshold_index 3 2 uEx 1 (by norm_num) (by norm_num)
  · intro a b hab hb
    interval_cases b <;> interval_cases a <;> simp [uEx] <;> norm_num
  · simp [Finset.sum_range_succ, uEx]; norm_num
  · right; simp [Finset.sum_range_succ, uEx]; norm_num

example : (Fn.prox (⟨id, 0⟩ : Env ℚ) (.l1 1 none) [1, 2] (.sc (1 / 2)) [2, -1]).length = 2 :=
  (C07.l1_list_minimises (⟨id, 0⟩ : Env ℚ) 1 none [1, 2] [2, -1] [0, 0] (.sc (1 / 2)) (by norm_num)
    (by intro i hi; simp at hi; interval_cases i <;> simp)
    (by intro i hi; simp [Sig.at])).1

/-- KKT sufficiency on the concrete point x = (1, 1/2, -1), τ = 1/4, r = 1. -/
example : ∑ i : Fin 3, ((![1, 1/2, -1] : Fin 3 → ℚ) i - maxK ((![1, 1/2, -1] : Fin 3 → ℚ) i - 1/4) 0)
    * ((![1/3, 1/3, 1/3] : Fin 3 → ℚ) i - maxK ((![1, 1/2, -1] : Fin 3 → ℚ) i - 1/4) 0) ≤ 0 :=
  (C07.simplex_kkt_sufficient Finset.univ (![1, 1/2, -1] : Fin 3 → ℚ) ![1/3, 1/3, 1/3] (1/4) 1
    (by simp [Fin.sum_univ_three, maxK]; norm_num)
    (by intro i _; fin_cases i <;> simp)
    (by simp [Fin.sum_univ_three]; norm_num)).2

/-- Non-vacuity: the full simplex theorem and the `proj_l1` threshold on concrete lists. -/
example : ∃ tau, simplexTau (1 : ℚ) [1 / 2, -1, 1] = some tau ∧
    sumK ([1 / 2, -1, 1].map fun xi => maxK (xi - tau) 0) = (1 : ℚ) :=
  C07.simplex_threshold_feasible 1 _ (by simp) (by norm_num)

example : ∃ tau : ℚ, 0 ≤ tau ∧ simplexTau 1 ([3, -1 / 2].map absK) = some tau ∧
    sumK (([3, -1 / 2].map absK).map fun u => maxK (u - tau) 0) = (1 : ℚ) :=
  C07.projL1_threshold 1 [3, -1 / 2] (by norm_num) (by decide +kernel)

end Lift

/-! ## abstract layer (real inner product space: covers every weighted / product space) -/
section Abstract
variable {E : Type} [NormedAddCommGroup E] [InnerProductSpace ℝ E]

/-- The resolvent characterisation implies optimality with a quadratic gap: if `p` satisfies
the variational inequality of `prox_{σ f}(x)` then no `z` in the domain of `f` has a smaller
value of `σ f(z) + ‖z − x‖²/2`, and the gap is at least `‖z − p‖²/2`.  (This is the statement
the harness probes numerically, divided by `σ`.) -/
theorem C07.prox_minimises (C : Set E) (f : E → ℝ) (σ : ℝ) (x p : E)
    (h : ProxVI C f σ x p) (z : E) (hz : z ∈ C) :
    σ * f p + ‖p - x‖ ^ 2 / 2 + ‖z - p‖ ^ 2 / 2 ≤ σ * f z + ‖z - x‖ ^ 2 / 2 := by
  have h1 := h.2 z hz
  have e : z - x = (z - p) + (p - x) := by abel
  have h2 : ‖z - x‖ ^ 2 = ‖z - p‖ ^ 2 + 2 * inner ℝ (z - p) (p - x) + ‖p - x‖ ^ 2 := by
    rw [e]; exact norm_add_sq_real _ _
  have h3 : inner ℝ (x - p) (z - p) = - inner ℝ (z - p) (p - x) := by
    rw [real_inner_comm, ← inner_neg_right]; congr 1; abel
  linarith

/-- Uniqueness: any minimiser of `σ f(z) + ‖z − x‖²/2` over the domain equals the point
satisfying the variational inequality. -/
theorem C07.prox_unique (C : Set E) (f : E → ℝ) (σ : ℝ) (x p q : E)
    (h : ProxVI C f σ x p) (hq : q ∈ C)
    (hmin : ∀ z ∈ C, σ * f q + ‖q - x‖ ^ 2 / 2 ≤ σ * f z + ‖z - x‖ ^ 2 / 2) : q = p := by
  have h1 := C07.prox_minimises C f σ x p h q hq
  have h2 := hmin p h.1
  have : ‖q - p‖ ^ 2 ≤ 0 := by linarith
  have : ‖q - p‖ = 0 := by nlinarith [norm_nonneg (q - p)]
  exact sub_eq_zero.mp (norm_eq_zero.mp this)

/-- Proximal maps are firmly non-expansive: `‖P x − P y‖² ≤ ⟪P x − P y, x − y⟫`. -/
theorem C07.prox_firmly_nonexpansive (C : Set E) (f : E → ℝ) (σ : ℝ) (x y p q : E)
    (hp : ProxVI C f σ x p) (hq : ProxVI C f σ y q) :
    ‖p - q‖ ^ 2 ≤ inner ℝ (p - q) (x - y) := by
  have h1 := hp.2 q hq.1
  have h2 := hq.2 p hp.1
  have e : inner ℝ (p - q) (x - y) - ‖p - q‖ ^ 2
      = -(inner ℝ (x - p) (q - p) + inner ℝ (y - q) (p - q)) := by
    rw [← real_inner_self_eq_norm_sq]
    simp only [inner_sub_left, inner_sub_right, real_inner_comm]
    ring
  linarith

/-- The proximal of an indicator functional (`f = 0` on `C`) leaves feasible points fixed. -/
theorem C07.indicator_prox_fixes_feasible (C : Set E) (σ : ℝ) (x p : E)
    (h : ProxVI C (fun _ => 0) σ x p) (hx : x ∈ C) : p = x := by
  have h1 := h.2 x hx
  simp only [mul_zero, zero_add] at h1
  rw [real_inner_self_eq_norm_sq] at h1
  have : ‖x - p‖ = 0 := by nlinarith [norm_nonneg (x - p)]
  exact (sub_eq_zero.mp (norm_eq_zero.mp this)).symm

/-- The proximal of an indicator functional lands in the constraint set and is idempotent. -/
theorem C07.indicator_prox_idempotent (C : Set E) (σ : ℝ) (P : E → E)
    (h : IsProx C (fun _ => 0) σ P) (x : E) : P x ∈ C ∧ P (P x) = P x :=
  ⟨(h x).1, C07.indicator_prox_fixes_feasible C σ (P x) (P (P x)) (h (P x)) (h x).1⟩

/-- `proximal_translation` (`FunctionalTranslation.proximal`): `y + prox_{σ f}(x − y)` is the
proximal of `z ↦ f(z − y)`. -/
theorem C07.prox_translation (C : Set E) (f : E → ℝ) (P : ℝ → E → E) (y : E) (σ : ℝ)
    (hP : IsProx C f σ (P σ)) :
    IsProx {z | z - y ∈ C} (fun z => f (z - y)) σ (proxTranslation P y σ) := by
  intro x
  obtain ⟨h1, h2⟩ := hP (x - y)
  refine ⟨by simpa [proxTranslation] using h1, fun z hz => ?_⟩
  have := h2 (z - y) hz
  simp only [proxTranslation, add_sub_cancel_left]
  have e1 : x - (y + P σ (x - y)) = x - y - P σ (x - y) := by abel
  have e2 : z - (y + P σ (x - y)) = z - y - P σ (x - y) := by abel
  rw [e1, e2]; exact this

/-- `proximal_arg_scaling` (`FunctionalRightScalarMult.proximal`), scalar `s ≠ 0`:
`(1/s)·prox_{σ s² f}(s x)` is the proximal of `z ↦ f(s z)` — with exactly the step `σ·s·s` the
code passes to the inner factory. -/
theorem C07.prox_arg_scaling (C : Set E) (f : E → ℝ) (P : ℝ → E → E) (s σ : ℝ) (hs : s ≠ 0)
    (hP : IsProx C f (σ * (s * s)) (P (σ * (s * s)))) :
    IsProx {z | s • z ∈ C} (fun z => f (s • z)) σ (proxArgScaling P s σ) := by
  intro x
  obtain ⟨h1, h2⟩ := hP (s • x)
  set q := P (σ * (s * s)) (s • x) with hq
  have hsp : s • proxArgScaling P s σ x = q := by
    simp only [proxArgScaling, smul_smul]
    rw [mul_one_div_cancel hs, one_smul]
  refine ⟨by simpa [hsp] using h1, fun z hz => ?_⟩
  have h3 := h2 (s • z) hz
  simp only [hsp]
  have e : inner ℝ (s • x - q) (s • z - q)
      = (s * s) * inner ℝ (x - proxArgScaling P s σ x) (z - proxArgScaling P s σ x) := by
    rw [← hsp, ← smul_sub, ← smul_sub, inner_smul_left, inner_smul_right]
    simp; ring
  rw [e] at h3
  have hss : 0 < s * s := mul_self_pos.mpr hs
  have : (s * s) * (σ * f q + inner ℝ (x - proxArgScaling P s σ x) (z - proxArgScaling P s σ x))
      ≤ (s * s) * (σ * f (s • z)) := by nlinarith
  exact le_of_mul_le_mul_left this hss

/-- `FunctionalLeftScalarMult.proximal`: `prox_{(σ c) f}` is the proximal of `c·f` with step `σ`. -/
theorem C07.prox_left_scaling (C : Set E) (f : E → ℝ) (P : ℝ → E → E) (c σ : ℝ)
    (hP : IsProx C f (σ * c) (P (σ * c))) :
    IsProx C (fun z => c * f z) σ (proxLeftScale P c σ) := by
  intro x
  obtain ⟨h1, h2⟩ := hP x
  refine ⟨h1, fun z hz => ?_⟩
  have := h2 z hz
  simp only [proxLeftScale]
  nlinarith

/-- `proximal_quadratic_perturbation` (`FunctionalQuadraticPerturb.proximal`, hence also
`BregmanDistance.proximal`): with `c = 1/√(2σa+1)` (any `rsqrt` with `c > 0`, `c²(2σa+1) = 1`),
`c · arg_scaling(prox, c)(σ)(c x − σ c u)` is the proximal of `f + a‖·‖² + ⟪·, u⟫`, `a ≥ 0`. -/
theorem C07.prox_quadratic_perturbation (C : Set E) (f : E → ℝ) (P : ℝ → E → E)
    (rsqrt : ℝ → ℝ) (a σ : ℝ) (u : E) (ha : 0 ≤ a) (hσ : 0 < σ)
    (hr : 0 < rsqrt (σ * (1 + 1) * a + 1) ∧
      rsqrt (σ * (1 + 1) * a + 1) * rsqrt (σ * (1 + 1) * a + 1) * (σ * (1 + 1) * a + 1) = 1)
    (hP : ∀ s, 0 < s → IsProx C f s (P s)) :
    IsProx C (fun z => f z + a * ‖z‖ ^ 2 + inner ℝ z u) σ
      (proxQuadPerturb rsqrt P a (some u) σ) := by
  intro x
  set c := rsqrt (σ * (1 + 1) * a + 1) with hc
  obtain ⟨hc0, hc1⟩ := hr
  have hcc : 0 < c * c := mul_pos hc0 hc0
  have hcne : c ≠ 0 := ne_of_gt hc0
  obtain ⟨h1, h2⟩ := hP (σ * (c * c)) (mul_pos hσ hcc) (c • (c • x - (σ * c) • u))
  set q := P (σ * (c * c)) (c • (c • x - (σ * c) • u)) with hq
  have hres : proxQuadPerturb rsqrt P a (some u) σ x = q := by
    simp only [proxQuadPerturb, proxArgScaling, ← hc, smul_smul]
    rw [mul_one_div_cancel hcne, one_smul]
  rw [hres]
  refine ⟨h1, fun z hz => ?_⟩
  have h3 := h2 z hz
  have e : inner ℝ (c • (c • x - (σ * c) • u) - q) (z - q)
      = (c * c) * (inner ℝ x (z - q) - σ * inner ℝ u (z - q)) - inner ℝ q (z - q) := by
    simp only [inner_sub_left, inner_smul_left, smul_sub, smul_smul]
    simp; ring
  rw [e] at h3
  have hn : ‖z‖ ^ 2 = ‖q‖ ^ 2 + 2 * inner ℝ q (z - q) + ‖z - q‖ ^ 2 := by
    have : z = q + (z - q) := by abel
    conv_lhs => rw [this]
    rw [norm_add_sq_real]
  have hnn : 0 ≤ ‖z - q‖ ^ 2 := sq_nonneg _
  have e2 : inner ℝ (x - q) (z - q) = inner ℝ x (z - q) - inner ℝ q (z - q) := inner_sub_left _ _ _
  have e3 : inner ℝ z u - inner ℝ q u = inner ℝ u (z - q) := by
    rw [inner_sub_right, real_inner_comm u z, real_inner_comm u q]
  -- divide the inner inequality by c*c
  have key : σ * f q + (inner ℝ x (z - q) - σ * inner ℝ u (z - q))
      - (σ * (1 + 1) * a + 1) * inner ℝ q (z - q) ≤ σ * f z := by
    have h4 : (c * c) * (σ * f q + (inner ℝ x (z - q) - σ * inner ℝ u (z - q))
        - (σ * (1 + 1) * a + 1) * inner ℝ q (z - q)) ≤ (c * c) * (σ * f z) := by
      have : c * c * ((σ * (1 + 1) * a + 1) * inner ℝ q (z - q)) = inner ℝ q (z - q) := by
        rw [← mul_assoc, hc1, one_mul]
      nlinarith
    exact le_of_mul_le_mul_left h4 hcc
  have : 0 ≤ σ * a * ‖z - q‖ ^ 2 := by positivity
  have e3' : σ * inner ℝ z u - σ * inner ℝ q u = σ * inner ℝ u (z - q) := by
    rw [← e3]; ring
  show σ * (f q + a * ‖q‖ ^ 2 + inner ℝ q u) + inner ℝ (x - q) (z - q)
      ≤ σ * (f z + a * ‖z‖ ^ 2 + inner ℝ z u)
  rw [hn, e2]
  linarith

/-- `proximal_convex_conj` (Moreau identity, `FunctionalDefaultConvexConjugate.proximal`, the KL
and nuclear-norm bindings): `x − σ·prox_{f/σ}(x/σ)` is the proximal of the conjugate with step
`σ`, for every pair `(f, f*)` satisfying Fenchel–Young with equality at subgradients. -/
theorem C07.prox_moreau (C : Set E) (f : E → ℝ) (D : Set E) (fs : E → ℝ) (P : ℝ → E → E)
    (σ : ℝ) (hσ : 0 < σ) (hconj : IsConjPair C f D fs)
    (hP : IsProx C f (1 / σ) (P (1 / σ))) :
    IsProx D fs σ (proxConvexConj P σ) := by
  intro x
  obtain ⟨h1, h2⟩ := hP ((1 / σ) • x)
  set p := P (1 / σ) ((1 / σ) • x) with hp
  have hq : proxConvexConj P σ x = x - σ • p := rfl
  rw [hq]
  -- g := x - σ p is a subgradient of f at p
  have hsub : ∀ z ∈ C, f p + inner ℝ (x - σ • p) (z - p) ≤ f z := by
    intro z hz
    have h3 := h2 z hz
    have e : inner ℝ ((1 / σ) • x - p) (z - p) = (1 / σ) * inner ℝ (x - σ • p) (z - p) := by
      have : (1 / σ) • x - p = (1 / σ) • (x - σ • p) := by
        simp [smul_sub, smul_smul, ne_of_gt hσ]
      rw [this, real_inner_smul_left]
    rw [e] at h3
    have : (1 / σ) * (f p + inner ℝ (x - σ • p) (z - p)) ≤ (1 / σ) * f z := by linarith
    exact le_of_mul_le_mul_left this (by positivity)
  obtain ⟨hgD, hfy⟩ := hconj.2 p h1 (x - σ • p) hsub
  refine ⟨hgD, fun y hy => ?_⟩
  have hy' := hconj.1 p h1 y hy
  have e1 : x - (x - σ • p) = σ • p := by abel
  rw [e1, inner_smul_left]
  simp only [conj_trivial]
  have e2 : inner ℝ p (y - (x - σ • p)) = inner ℝ p y - inner ℝ p (x - σ • p) := inner_sub_right _ _ _
  rw [e2]
  have : σ * (f p + fs (x - σ • p)) = σ * inner ℝ p (x - σ • p) := by rw [hfy]
  nlinarith

/-- `ProximalL2._call` with `eps = 0` is the proximal of `λ‖· − g‖`. -/
theorem C07.l2_prox (lam σ : ℝ) (g : E) (hl : 0 ≤ lam) (hσ : 0 < σ) :
    IsProx Set.univ (fun z => lam * ‖z - g‖) σ
      (proxL2 (fun v : E => ‖v‖) 0 lam (some g) σ) := by
  intro x
  refine ⟨trivial, fun z _ => ?_⟩
  simp only [proxL2, add_zero, mul_one]
  have cs : inner ℝ (x - g) (z - g) ≤ ‖x - g‖ * ‖z - g‖ := real_inner_le_norm _ _
  have hz0 : 0 ≤ ‖z - g‖ := norm_nonneg _
  split_ifs with h0 h1
  · -- shrink
    set t := ‖x - g‖ with ht
    set st := σ * lam / t with hst
    have hstt : st * t = σ * lam := by rw [hst]; field_simp
    have hst0 : 0 ≤ st := by rw [hst]; positivity
    have e1 : (1 - st) • x + st • g - g = (1 - st) • (x - g) := by
      simp only [smul_sub, sub_smul, one_smul]; abel
    have e2 : x - ((1 - st) • x + st • g) = st • (x - g) := by
      simp only [smul_sub, sub_smul, one_smul]; abel
    have e3 : z - ((1 - st) • x + st • g) = (z - g) - (1 - st) • (x - g) := by
      simp only [smul_sub, sub_smul, one_smul]; abel
    rw [e1, e2, e3, norm_smul, inner_smul_left, inner_sub_right, inner_smul_right,
      real_inner_self_eq_norm_sq, ← ht]
    simp only [conj_trivial, Real.norm_eq_abs]
    rw [abs_of_nonneg (by linarith : 0 ≤ 1 - st)]
    have h5 : st * inner ℝ (x - g) (z - g) ≤ σ * lam * ‖z - g‖ := by
      calc st * inner ℝ (x - g) (z - g) ≤ st * (t * ‖z - g‖) :=
            mul_le_mul_of_nonneg_left cs hst0
        _ = (st * t) * ‖z - g‖ := by ring
        _ = σ * lam * ‖z - g‖ := by rw [hstt]
    have h6 : st * ((1 - st) * t ^ 2) = σ * lam * ((1 - st) * t) := by
      rw [← hstt]; ring
    nlinarith
  · -- step ≥ 1: the result is g
    have ht : 0 < ‖x - g‖ := h0
    have h2 : ‖x - g‖ ≤ σ * lam := by
      have := not_lt.mp h1
      rwa [le_div_iff₀ ht, one_mul] at this
    simp only [sub_self, norm_zero, mul_zero, zero_add]
    calc inner ℝ (x - g) (z - g) ≤ ‖x - g‖ * ‖z - g‖ := cs
      _ ≤ σ * lam * ‖z - g‖ := by gcongr
      _ = σ * (lam * ‖z - g‖) := by ring
  · -- x = g
    have : ‖x - g‖ = 0 := le_antisymm (not_lt.mp h0) (norm_nonneg _)
    have hx : x - g = 0 := norm_eq_zero.mp this
    simp only [sub_self, norm_zero, mul_zero, zero_add, hx, inner_zero_left]
    positivity

/-- `λ‖·‖` and the indicator of the ball `‖y‖ ≤ λ` form a conjugate pair (what
`LpNorm(2).convex_conj = IndicatorLpUnitBall(2)` claims) — the hypothesis of `C07.prox_moreau`
is satisfiable on a non-trivial instance. -/
theorem C07.l2_conj_pair (lam : ℝ) (hl : 0 ≤ lam) :
    IsConjPair (Set.univ : Set E) (fun z => lam * ‖z‖) {y | ‖y‖ ≤ lam} (fun _ => 0) := by
  constructor
  · intro z _ y hy
    have hy' : ‖y‖ ≤ lam := hy
    calc inner ℝ z y ≤ ‖z‖ * ‖y‖ := real_inner_le_norm _ _
      _ ≤ ‖z‖ * lam := by gcongr
      _ = lam * ‖z‖ + 0 := by ring
  · intro p _ g hg
    have h0 := hg 0 trivial
    have h2 := hg ((2 : ℝ) • p) trivial
    have hpg := hg (p + g) trivial
    beta_reduce at h0 h2 hpg ⊢
    simp only [zero_sub, inner_neg_right, norm_zero, mul_zero] at h0
    have e2 : (2 : ℝ) • p - p = p := by rw [two_smul]; abel
    rw [e2, norm_smul] at h2
    simp only [Real.norm_eq_abs, abs_two] at h2
    have e3 : p + g - p = g := by abel
    rw [e3, real_inner_self_eq_norm_sq] at hpg
    have tri : ‖p + g‖ ≤ ‖p‖ + ‖g‖ := norm_add_le _ _
    have hgn : 0 ≤ ‖g‖ := norm_nonneg _
    refine ⟨?_, ?_⟩
    · show ‖g‖ ≤ lam
      by_contra hc
      have hc' : lam < ‖g‖ := not_le.mp hc
      have : lam * ‖p + g‖ ≤ lam * (‖p‖ + ‖g‖) := by gcongr
      nlinarith
    · rw [real_inner_comm] at h0 h2; linarith

/-- `ProximalL2._call` without data term (`g is None`, `eps = 0`) is the proximal of `λ‖·‖`. -/
theorem C07.l2_prox_none (lam σ : ℝ) (hl : 0 ≤ lam) (hσ : 0 < σ) :
    IsProx (Set.univ : Set E) (fun z => lam * ‖z‖) σ
      (proxL2 (fun v : E => ‖v‖) 0 lam none σ) := by
  have h := C07.l2_prox (E := E) lam σ 0 hl hσ
  intro x
  have e : proxL2 (fun v : E => ‖v‖) 0 lam none σ x
      = proxL2 (fun v : E => ‖v‖) 0 lam (some 0) σ x := by
    simp only [proxL2, sub_zero, smul_zero, add_zero, zero_smul]
  rw [e]
  simpa using h x

/-- `proximal_convex_conj_l2` = `proximal_convex_conj(proximal_l2)` is the projection onto the
ball `‖y‖ ≤ λ` (proximal of the indicator, for every step). -/
theorem C07.ccl2_prox (lam σ : ℝ) (hl : 0 ≤ lam) (hσ : 0 < σ) :
    IsProx {y : E | ‖y‖ ≤ lam} (fun _ => 0) σ
      (proxConvexConj (proxL2 (fun v : E => ‖v‖) 0 lam none) σ) :=
  C07.prox_moreau Set.univ (fun z => lam * ‖z‖) _ _ _ σ hσ (C07.l2_conj_pair lam hl)
    (C07.l2_prox_none lam (1 / σ) hl (by positivity))

/-- `proximal_quadratic_perturbation` with `u=None` is the `u = 0` case. -/
theorem C07.prox_quadratic_perturbation_none (P : ℝ → E → E) (rsqrt : ℝ → ℝ) (a σ : ℝ) (x : E) :
    proxQuadPerturb rsqrt P a none σ x = proxQuadPerturb rsqrt P a (some 0) σ x := by
  simp [proxQuadPerturb]

/-- Separable sum of two functionals (`combine_proximals`, possibly different steps), stated
on the components: the pair of variational inequalities adds up to the one of the sum in the
product inner product `⟪x₁,y₁⟫ + ⟪x₂,y₂⟫`. -/
theorem C07.prox_separable_sum {F : Type} [NormedAddCommGroup F] [InnerProductSpace ℝ F]
    (C₁ : Set E) (f₁ : E → ℝ) (C₂ : Set F) (f₂ : F → ℝ) (σ : ℝ) (x₁ p₁ : E) (x₂ p₂ : F)
    (h₁ : ProxVI C₁ f₁ σ x₁ p₁) (h₂ : ProxVI C₂ f₂ σ x₂ p₂) :
    (p₁ ∈ C₁ ∧ p₂ ∈ C₂) ∧ ∀ z₁ ∈ C₁, ∀ z₂ ∈ C₂,
      σ * (f₁ p₁ + f₂ p₂) + (inner ℝ (x₁ - p₁) (z₁ - p₁) + inner ℝ (x₂ - p₂) (z₂ - p₂))
        ≤ σ * (f₁ z₁ + f₂ z₂) := by
  refine ⟨⟨h₁.1, h₂.1⟩, fun z₁ hz₁ z₂ hz₂ => ?_⟩
  have a := h₁.2 z₁ hz₁
  have b := h₂.2 z₂ hz₂
  linarith

/-! Non-vacuity: the hypotheses of the calculus rules are met by the L2-norm proximal of the
model on `E = ℝ`, with concrete numbers. -/
example : IsProx (Set.univ : Set ℝ) (fun z => 2 * ‖z - 1‖) 3
    (proxL2 (fun v : ℝ => ‖v‖) 0 2 (some 1) 3) := C07.l2_prox 2 3 1 (by norm_num) (by norm_num)

example : IsProx {z : ℝ | z - 5 ∈ Set.univ} (fun z => 2 * ‖z - 5 - 1‖) 3
    (proxTranslation (proxL2 (fun v : ℝ => ‖v‖) 0 2 (some 1)) 5 3) :=
  C07.prox_translation _ _ _ 5 3 (C07.l2_prox 2 3 1 (by norm_num) (by norm_num))

example : IsProx {z : ℝ | (-2 : ℝ) • z ∈ Set.univ} (fun z => 2 * ‖(-2 : ℝ) • z - 1‖) 3
    (proxArgScaling (proxL2 (fun v : ℝ => ‖v‖) 0 2 (some 1)) (-2) 3) :=
  C07.prox_arg_scaling _ _ _ (-2) 3 (by norm_num)
    (C07.l2_prox 2 _ 1 (by norm_num) (by norm_num))

example : IsProx (Set.univ : Set ℝ) (fun z => 2 * ‖z - 1‖ + 3 / 2 * ‖z‖ ^ 2 + inner ℝ z 7) 1
    (proxQuadPerturb (fun _ => 1 / 2) (proxL2 (fun v : ℝ => ‖v‖) 0 2 (some 1)) (3 / 2)
      (some 7) 1) :=
  C07.prox_quadratic_perturbation _ _ _ _ (3 / 2) 1 7 (by norm_num) (by norm_num)
    (by norm_num) (fun s hs => C07.l2_prox 2 s 1 (by norm_num) hs)

example : IsProx {y : ℝ | ‖y‖ ≤ 2} (fun _ => 0) 3
    (proxConvexConj (proxL2 (fun v : ℝ => ‖v‖) 0 2 none) 3) :=
  C07.ccl2_prox 2 3 (by norm_num) (by norm_num)


end Abstract

/-! ## composition with a scaled isometry, and whole expression trees -/
section Comp
variable {E F : Type} [NormedAddCommGroup E] [InnerProductSpace ℝ E]
  [NormedAddCommGroup F] [InnerProductSpace ℝ F]

/-- `proximal_composition`: for a linear `L` with adjoint `Lt` and `L Lt = μ·Id` (`μ > 0`; for
the square matrices this is the code's documented `Lt L = μ·Id`),
`x + (1/μ) Lt (prox_{μσ f}(L x) − L x)` is the proximal of `f ∘ L`. -/
theorem C07.prox_composition (C : Set F) (f : F → ℝ) (P : ℝ → F → F) (L : E →ₗ[ℝ] F)
    (Lt : F →ₗ[ℝ] E) (mu σ : ℝ) (hmu : 0 < mu)
    (hadj : ∀ x y, inner ℝ (L x) y = inner ℝ x (Lt y)) (hLLt : ∀ y, L (Lt y) = mu • y)
    (hP : IsProx C f (mu * σ) (P (mu * σ))) :
    IsProx {z | L z ∈ C} (fun z => f (L z)) σ (proxComposition P L Lt mu σ) := by
  intro x
  obtain ⟨h1, h2⟩ := hP (L x)
  set q := P (mu * σ) (L x) with hq
  have hLp : L (proxComposition P L Lt mu σ x) = q := by
    simp only [proxComposition, map_add, map_smul, hLLt, smul_smul, ← hq]
    rw [one_div, inv_mul_cancel₀ (ne_of_gt hmu), one_smul]; abel
  refine ⟨by simpa [hLp] using h1, fun z hz => ?_⟩
  have h3 := h2 (L z) hz
  simp only [hLp]
  set p := proxComposition P L Lt mu σ x with hp
  have hxp : x - p = (1 / mu) • Lt (L x - q) := by
    simp only [hp, proxComposition, ← hq]
    rw [sub_add_cancel_left, ← smul_neg, ← map_neg, neg_sub]
  have e : inner ℝ (x - p) (z - p) = (1 / mu) * inner ℝ (L x - q) (L z - q) := by
    rw [hxp, real_inner_smul_left, real_inner_comm, ← hadj, map_sub, hLp, real_inner_comm]
  rw [e]
  have : (1 / mu) * (mu * σ * f q + inner ℝ (L x - q) (L z - q)) ≤ (1 / mu) * (mu * σ * f (L z)) :=
    mul_le_mul_of_nonneg_left h3 (by positivity)
  have e1 : (1 / mu) * (mu * σ * f q) = σ * f q := by field_simp
  have e2 : (1 / mu) * (mu * σ * f (L z)) = σ * f (L z) := by field_simp
  linarith

/-- `proximal_arg_scaling` with `scaling == 0` (the guard returning `proximal_const_func`): the
identity is the proximal of the constant functional `z ↦ f(0·z)`, provided `0` is in the domain. -/
theorem C07.prox_arg_scaling_zero (C : Set E) (f : E → ℝ) (P : ℝ → E → E) (σ : ℝ) (h0 : (0 : E) ∈ C) :
    IsProx {z | (0 : ℝ) • z ∈ C} (fun z => f ((0 : ℝ) • z)) σ (proxArgScaling0 P 0 σ) := by
  intro x
  have : proxArgScaling0 P 0 σ x = x := by simp [proxArgScaling0]
  rw [this]
  refine ⟨by simpa using h0, fun z _ => ?_⟩
  simp

/-- Leaf contract on `E = ℝ`: the executed soft threshold is the proximal of `λ|· − g|`. -/
theorem C07.l1_isProx_real (lam g σ : ℝ) (hl : 0 < lam) (hσ : 0 < σ) :
    IsProx (Set.univ : Set ℝ) (fun z => lam * |z - g|) σ (fun x => softCode (σ * lam) x g) := by
  intro x
  refine ⟨trivial, fun z _ => ?_⟩
  have := C07.soft_vi (σ * lam) x g z (mul_pos hσ hl)
  have e : ∀ a b : ℝ, inner ℝ a b = b * a := by intro a b; simp
  rw [e]
  nlinarith [this]

/-- Leaf contract on `E = ℝ`: the executed Huber proximal (`γ > 0`). -/
theorem C07.huber_isProx_real (gam σ : ℝ) (hg : 0 < gam) (hσ : 0 < σ) :
    IsProx (Set.univ : Set ℝ) (huberFn gam) σ (huberCode gam σ) := by
  intro x
  refine ⟨trivial, fun z _ => ?_⟩
  have := C07.huber_vi gam σ x z hg hσ
  have e : ∀ a b : ℝ, inner ℝ a b = b * a := by intro a b; simp
  rw [e]
  nlinarith [this]

/-- Leaf contract on `E = ℝ`: the executed box projection (`lo ≤ hi`). -/
theorem C07.box_isProx_real (lo hi σ : ℝ) (hlh : lo ≤ hi) :
    IsProx (Set.Icc lo hi) (fun _ => 0) σ (boxCode (some lo) (some hi)) := by
  intro x
  have h := fun z (hz : z ∈ Set.Icc lo hi) =>
    C07.box_vi (some lo) (some hi) x z (by intro l u hl hu; cases hl; cases hu; exact hlh)
      (by intro l hl; cases hl; exact hz.1) (by intro u hu; cases hu; exact hz.2)
  have hx := h lo ⟨le_refl _, hlh⟩
  refine ⟨⟨hx.1 lo rfl, hx.2.1 hi rfl⟩, fun z hz => ?_⟩
  have := (h z hz).2.2
  have e : ∀ a b : ℝ, inner ℝ a b = b * a := by intro a b; simp
  rw [e]
  simp only [mul_zero, zero_add]
  nlinarith [this]

/-- CONDITIONAL on leaf contracts (`PTree.WF` assumes `IsProx` for every leaf; it is discharged
in this file for the L2 norm / L2 ball on any inner product space and for L1, Huber and box
leaves on `E = ℝ` only).  Whole expression trees, any depth: if the leaves carry correct proximals and the side
conditions hold, the proximal that `functional.py` derives node by node (translation, right and
left scalar multiplication, quadratic perturbation / Bregman distance, default convex
conjugate) is the proximal of the denoted functional for every step `σ > 0`. -/
theorem C07.tree_prox_of_leaf_hyps (rsqrt : ℝ → ℝ)
    (hr : ∀ t, 0 < t → 0 < rsqrt t ∧ rsqrt t * rsqrt t * t = 1) (t : PTree E) (hwf : t.WF) :
    ∀ σ, 0 < σ → IsProx t.dom t.val σ (t.prox rsqrt σ) := by
  induction t with
  | leaf C f P => exact hwf
  | trans t y ih =>
    intro σ hσ
    exact C07.prox_translation _ _ _ y σ (ih hwf σ hσ)
  | argScale t s ih =>
    intro σ hσ
    show IsProx _ _ σ (proxArgScaling0 _ s σ)
    rw [proxArgScaling0_of_ne _ s hwf.1]
    exact C07.prox_arg_scaling _ _ _ s σ hwf.1
      (ih hwf.2 _ (mul_pos hσ (mul_self_pos.mpr hwf.1)))
  | leftScale t c ih =>
    intro σ hσ
    exact C07.prox_left_scaling _ _ _ c σ (ih hwf.2 _ (mul_pos hσ hwf.1))
  | quad t a u ih =>
    intro σ hσ
    exact C07.prox_quadratic_perturbation _ _ _ rsqrt a σ u hwf.1 hσ
      (hr _ (by nlinarith [hwf.1])) (ih hwf.2)
  | conj t D fs ih =>
    intro σ hσ
    exact C07.prox_moreau _ _ D fs _ σ hσ hwf.1 (ih hwf.2 _ (by positivity))


/-- Non-vacuity: the depth-4 example tree, every step. -/
example : ∀ σ, 0 < σ → IsProx exTree.dom exTree.val σ
    (exTree.prox (fun t => 1 / Real.sqrt t) σ) := by
  apply C07.tree_prox_of_leaf_hyps
  · intro t ht
    have hs := Real.sqrt_pos.mpr ht
    refine ⟨by positivity, ?_⟩
    have := Real.mul_self_sqrt (le_of_lt ht)
    field_simp; nlinarith
  · exact ⟨by norm_num, by norm_num, by norm_num,
      fun σ hσ => C07.l2_prox 2 σ 1 (by norm_num) hσ⟩

/-- Non-vacuity with leaves other than L2: trees over the executed L1 and Huber proximals on
`ℝ`, leaf contracts discharged by `C07.l1_isProx_real` / `C07.huber_isProx_real`. -/
example : ∀ σ, 0 < σ → IsProx exTreeL1.dom exTreeL1.val σ
    (exTreeL1.prox (fun t => 1 / Real.sqrt t) σ) := by
  apply C07.tree_prox_of_leaf_hyps
  · intro t ht
    have hs := Real.sqrt_pos.mpr ht
    refine ⟨by positivity, ?_⟩
    have := Real.mul_self_sqrt (le_of_lt ht)
    field_simp; nlinarith
  · exact ⟨by norm_num, by norm_num, fun σ hσ => C07.l1_isProx_real 2 1 σ (by norm_num) hσ⟩

example : ∀ σ, 0 < σ → IsProx exTreeHuber.dom exTreeHuber.val σ
    (exTreeHuber.prox (fun t => 1 / Real.sqrt t) σ) := by
  apply C07.tree_prox_of_leaf_hyps
  · intro t ht
    have hs := Real.sqrt_pos.mpr ht
    refine ⟨by positivity, ?_⟩
    have := Real.mul_self_sqrt (le_of_lt ht)
    field_simp; nlinarith
  · exact ⟨by norm_num, fun σ hσ => C07.huber_isProx_real (1 / 2) σ (by norm_num) hσ⟩

end Comp

/-! ## ROUND 4: group L1-L2 norm, vector Huber and the group ball on power spaces — theorems
about the EXECUTED `.l1l2`, `.huberG`, `.ccl1l2` nodes of `Fn.prox` (compared with the real code on
the exact / edge / tree streams) -/
section Group
open Finset
variable {K : Type} [Field K] [LinearOrder K] [IsStrictOrderedRing K]

/-- Block soft thresholding as `ProximalL1L2._call` writes it, one group (all `d` components at
one point): for ANY finite index set, component weights `pw ≥ 0`, data term `g`, threshold
`s = σλ > 0`, if `p_k = x_k − (x_k − g_k)/max(|x − g|_pw / s, 1)` then
`s·|p − g|_pw + ⟨x − p, z − p⟩_pw ≤ s·|z − g|_pw` for every `z` — the variational inequality of
`prox_{s|· − g|_pw}` (weighted Cauchy–Schwarz in an ordered field; `sqrt` a parameter that is
exact on squares; `rd`, `re` name the two norms).  Used by `C07.l1l2_list_minimises`. -/
theorem C07.group_soft_vi {ι : Type} (I : Finset ι) (sqrt : K → K) (pw x g z p : ι → K)
    (s rd re : K) (hsq : ∀ r, 0 ≤ r → sqrt (r * r) = r)
    (hpw : ∀ k ∈ I, 0 ≤ pw k) (hs : 0 < s) (hrd : 0 ≤ rd) (hre : 0 ≤ re)
    (hd : ∑ k ∈ I, pw k * ((x k - g k) * (x k - g k)) = rd * rd)
    (he : ∑ k ∈ I, pw k * ((z k - g k) * (z k - g k)) = re * re)
    (hp : ∀ k ∈ I, p k = x k - (x k - g k)
      / maxK (sqrt (∑ k ∈ I, pw k * ((x k - g k) * (x k - g k))) / s) 1) :
    s * sqrt (∑ k ∈ I, pw k * ((p k - g k) * (p k - g k)))
        + ∑ k ∈ I, pw k * ((x k - p k) * (z k - p k))
      ≤ s * sqrt (∑ k ∈ I, pw k * ((z k - g k) * (z k - g k))) := by
  rw [he, hsq re hre]
  rw [hd, hsq rd hrd, maxK_eq] at hp
  set c := max (rd / s) 1 with hc
  have hc1 : 1 ≤ c := by rw [hc]; exact le_max_right _ _
  have hcpos : 0 < c := lt_of_lt_of_le one_pos hc1
  set th := 1 - 1 / c with hth
  have hth0 : 0 ≤ th := by
    rw [hth, sub_nonneg, div_le_one hcpos]; exact hc1
  have hpg : ∀ k ∈ I, p k - g k = th * (x k - g k) := by
    intro k hk; rw [hp k hk, hth]; field_simp; ring
  have hxp : ∀ k ∈ I, x k - p k = (1 / c) * (x k - g k) := by
    intro k hk; rw [hp k hk]; field_simp; ring
  have hP : ∑ k ∈ I, pw k * ((p k - g k) * (p k - g k)) = (th * rd) * (th * rd) := by
    rw [← group_scale I pw (fun k => x k - g k) rd th hd]
    exact Finset.sum_congr rfl (fun k hk => by rw [hpg k hk])
  rw [hP, hsq _ (mul_nonneg hth0 hrd)]
  have hcs := group_cs I pw (fun k => x k - g k) (fun k => z k - g k) rd re hpw hrd hre hd he
  have hsum : ∑ k ∈ I, pw k * ((x k - p k) * (z k - p k))
      = (1 / c) * (∑ k ∈ I, pw k * ((x k - g k) * (z k - g k))) - (1 / c) * th * (rd * rd) := by
    rw [← hd, Finset.mul_sum, Finset.mul_sum, ← Finset.sum_sub_distrib]
    apply Finset.sum_congr rfl
    intro k hk
    have : z k - p k = (z k - g k) - th * (x k - g k) := by rw [← hpg k hk]; ring
    rw [hxp k hk, this]; ring
  rw [hsum]
  have hic : 0 ≤ 1 / c := by positivity
  -- (1/c) rd ≤ s and th * (s - rd / c) = 0
  have hrc : rd / c ≤ s := by
    rw [div_le_iff₀ hcpos, hc]
    calc rd = s * (rd / s) := by field_simp
      _ ≤ s * max (rd / s) 1 := by gcongr; exact le_max_left _ _
  have hzero : th * (s - rd / c) = 0 := by
    rcases le_total (rd / s) 1 with h | h
    · have : c = 1 := by rw [hc]; exact max_eq_right h
      simp [hth, this]
    · have : c = rd / s := by rw [hc]; exact max_eq_left h
      have hrdpos : 0 < rd := by
        by_contra hh
        have : rd = 0 := le_antisymm (not_lt.mp hh) hrd
        rw [this] at h; simp at h; linarith
      rw [this]; field_simp; ring
  have h1 : (1 / c) * (∑ k ∈ I, pw k * ((x k - g k) * (z k - g k))) ≤ (1 / c) * (rd * re) :=
    mul_le_mul_of_nonneg_left hcs hic
  have h2 : (1 / c) * (rd * re) ≤ s * re := by
    calc (1 / c) * (rd * re) = (rd / c) * re := by ring
      _ ≤ s * re := by gcongr
  have h3 : s * (th * rd) - (1 / c) * th * (rd * rd) = rd * (th * (s - rd / c)) := by ring
  nlinarith [h1, h2, h3, hzero]

/-- `ProximalHuber._call` on a product space, one group (all components at one point),
`γ > 0`: if `p_k = γ/(γ+σ)·x_k` where `|x|_pw ≤ γ+σ` and `x_k − σ x_k/|x|_pw` elsewhere, then
`σ f_γ(|p|_pw) + ⟨x − p, z − p⟩_pw ≤ σ f_γ(|z|_pw)` for every `z` (reduction to the scalar
`C07.huber_vi` at the norms by Cauchy–Schwarz).  Used by `C07.huberG_list_minimises`. -/
theorem C07.group_huber_vi {ι : Type} (I : Finset ι) (sqrt : K → K) (pw x z p : ι → K)
    (gam s rd re : K) (hsq : ∀ r, 0 ≤ r → sqrt (r * r) = r)
    (hpw : ∀ k ∈ I, 0 ≤ pw k) (hg : 0 < gam) (hs : 0 < s) (hrd : 0 ≤ rd) (hre : 0 ≤ re)
    (hd : ∑ k ∈ I, pw k * (x k * x k) = rd * rd)
    (he : ∑ k ∈ I, pw k * (z k * z k) = re * re)
    (hp' : ∀ k ∈ I, p k = if sqrt (∑ k ∈ I, pw k * (x k * x k)) ≤ gam + s
      then gam / (gam + s) * x k else x k - s * (x k / sqrt (∑ k ∈ I, pw k * (x k * x k)))) :
    s * huberFn gam (sqrt (∑ k ∈ I, pw k * (p k * p k)))
        + ∑ k ∈ I, pw k * ((x k - p k) * (z k - p k))
      ≤ s * huberFn gam (sqrt (∑ k ∈ I, pw k * (z k * z k))) := by
  rw [hd, hsq rd hrd] at hp'
  obtain ⟨ka, hk0, hk1, hcode, hent⟩ := huber_kappa gam s rd hg.le hs hrd
  have hp : ∀ k ∈ I, p k = ka * x k := by intro k hk; rw [hp' k hk]; exact hent (x k)
  have hP : ∑ k ∈ I, pw k * (p k * p k) = (ka * rd) * (ka * rd) := by
    rw [← group_scale I pw x rd ka hd]
    exact Finset.sum_congr rfl (fun k hk => by rw [hp k hk])
  rw [hP, hsq _ (mul_nonneg hk0 hrd), he, hsq re hre]
  have hrad := group_radial I pw x z rd re ka hpw hrd hre hk1 hd he
  have hsc := C07.huber_vi gam s rd re hg hs
  rw [hcode] at hsc
  have : ∑ k ∈ I, pw k * ((x k - p k) * (z k - p k))
      = ∑ k ∈ I, pw k * ((x k - ka * x k) * (z k - ka * x k)) :=
    Finset.sum_congr rfl (fun k hk => by rw [hp k hk])
  rw [this]; linarith

/-- The same for `γ = 0` (documented: the isotropic group L1-L2 norm), with the formula exactly
as the code evaluates it (`0/(0+σ)·x` below the threshold): variational inequality of `σ|·|_pw`.
Used by `C07.huberG_list_minimises_gamma0`. -/
theorem C07.group_huber_vi_gamma0 {ι : Type} (I : Finset ι) (sqrt : K → K) (pw x z p : ι → K)
    (s rd re : K) (hsq : ∀ r, 0 ≤ r → sqrt (r * r) = r)
    (hpw : ∀ k ∈ I, 0 ≤ pw k) (hs : 0 < s) (hrd : 0 ≤ rd) (hre : 0 ≤ re)
    (hd : ∑ k ∈ I, pw k * (x k * x k) = rd * rd)
    (he : ∑ k ∈ I, pw k * (z k * z k) = re * re)
    (hp' : ∀ k ∈ I, p k = if sqrt (∑ k ∈ I, pw k * (x k * x k)) ≤ 0 + s
      then 0 / (0 + s) * x k else x k - s * (x k / sqrt (∑ k ∈ I, pw k * (x k * x k)))) :
    s * sqrt (∑ k ∈ I, pw k * (p k * p k))
        + ∑ k ∈ I, pw k * ((x k - p k) * (z k - p k))
      ≤ s * sqrt (∑ k ∈ I, pw k * (z k * z k)) := by
  rw [hd, hsq rd hrd] at hp'
  obtain ⟨ka, hk0, hk1, hcode, hent⟩ := huber_kappa 0 s rd le_rfl hs hrd
  have hp : ∀ k ∈ I, p k = ka * x k := by intro k hk; rw [hp' k hk]; exact hent (x k)
  have hP : ∑ k ∈ I, pw k * (p k * p k) = (ka * rd) * (ka * rd) := by
    rw [← group_scale I pw x rd ka hd]
    exact Finset.sum_congr rfl (fun k hk => by rw [hp k hk])
  rw [hP, hsq _ (mul_nonneg hk0 hrd), he, hsq re hre]
  have hrad := group_radial I pw x z rd re ka hpw hrd hre hk1 hd he
  have hsc := C07.huber_vi_gamma0 s rd re hs
  rw [hcode, abs_of_nonneg (mul_nonneg hk0 hrd), abs_of_nonneg hre] at hsc
  have : ∑ k ∈ I, pw k * ((x k - p k) * (z k - p k))
      = ∑ k ∈ I, pw k * ((x k - ka * x k) * (z k - ka * x k)) :=
    Finset.sum_congr rfl (fun k hk => by rw [hp k hk])
  rw [this]; linarith

/-- `ProximalConvexConjL1L2._call`, one group: `p = y / (max(|y|_pw, lam)/lam)` with
`y = x − σ g` lies in the ball `|p|_pw ≤ lam` and satisfies the projection inequality
`⟨y − p, z − p⟩_pw ≤ 0` against every `z` of that ball.  Used by `C07.ccl1l2_list_projection`. -/
theorem C07.group_ball_vi {ι : Type} (I : Finset ι) (sqrt : K → K) (pw y z p : ι → K)
    (lam rd re : K) (hsq : ∀ r, 0 ≤ r → sqrt (r * r) = r)
    (hpw : ∀ k ∈ I, 0 ≤ pw k) (hl : 0 < lam) (hrd : 0 ≤ rd) (hre : 0 ≤ re) (hz : re ≤ lam)
    (hd : ∑ k ∈ I, pw k * (y k * y k) = rd * rd)
    (he : ∑ k ∈ I, pw k * (z k * z k) = re * re)
    (hp' : ∀ k ∈ I, p k = y k / (maxK (sqrt (∑ k ∈ I, pw k * (y k * y k))) lam / lam)) :
    sqrt (∑ k ∈ I, pw k * (p k * p k)) ≤ lam ∧
    ∑ k ∈ I, pw k * ((y k - p k) * (z k - p k)) ≤ 0 := by
  rw [hd, hsq rd hrd, maxK_eq] at hp'
  have hmpos : 0 < max rd lam := lt_of_lt_of_le hl (le_max_right _ _)
  set ka := lam / max rd lam with hka
  have hk0 : 0 ≤ ka := by positivity
  have hk1 : ka ≤ 1 := by rw [hka, div_le_one hmpos]; exact le_max_right _ _
  have hp : ∀ k ∈ I, p k = ka * y k := by
    intro k hk; rw [hp' k hk, hka]; field_simp
  have hP : ∑ k ∈ I, pw k * (p k * p k) = (ka * rd) * (ka * rd) := by
    rw [← group_scale I pw y rd ka hd]
    exact Finset.sum_congr rfl (fun k hk => by rw [hp k hk])
  have hkr : ka * rd ≤ lam := by
    rw [hka, div_mul_eq_mul_div, div_le_iff₀ hmpos]
    exact mul_le_mul_of_nonneg_left (le_max_left _ _) hl.le
  refine ⟨by rw [hP, hsq _ (mul_nonneg hk0 hrd)]; exact hkr, ?_⟩
  have hrad := group_radial I pw y z rd re ka hpw hrd hre hk1 hd he
  have : ∑ k ∈ I, pw k * ((y k - p k) * (z k - p k))
      = ∑ k ∈ I, pw k * ((y k - ka * y k) * (z k - ka * y k)) :=
    Finset.sum_congr rfl (fun k hk => by rw [hp k hk])
  rw [this]
  refine le_trans hrad ?_
  rcases le_total rd lam with h | h
  · have : ka = 1 := by rw [hka, max_eq_right h, div_self hl.ne']
    rw [this]; simp
  · have hrdpos : 0 < rd := lt_of_lt_of_le hl h
    have : ka * rd = lam := by rw [hka, max_eq_left h]; field_simp
    rw [this]
    exact mul_nonpos_of_nonneg_of_nonpos (by linarith) (by linarith)

/-- `proximal_l1_l2` (`GroupL1Norm(·, 2).proximal`, block soft thresholding) as EXECUTED by
`Fn.prox` on a power space `X^d` (components laid out one after the other, `m` points each), every
`d ≥ 1`, every `m`, every data term `g`, component weights `pw ≥ 0`, base-space weights `b ≥ 0`
(cell volume / weighting of `X`), float step: the result minimises
`Σ_i b_i (λ·sqrt(Σ_k pw_k (z_k(i) − g_k(i))²) + Σ_k pw_k (z_k(i) − x_k(i))²/(2σ))` over all `z`,
with a quadratic gap.  `np.sqrt` is the parameter `E.sqrt`, assumed exact on squares
(`sqrt(r·r) = r` for `r ≥ 0`: true for `Real.sqrt`, and for the driver's rational root on the
exact stream); `rd i`, `re i` name the point-wise norms of `x − g` and `z − g` (over `ℝ` they
always exist). -/
theorem C07.l1l2_list_minimises (E : Env K) (pw : List K) (d m : ℕ) (lam s : K)
    (g : Option (List K)) (w x z : List K) (b rd re : ℕ → K)
    (hsq : ∀ r, 0 ≤ r → E.sqrt (r * r) = r) (hd : 0 < d) (hx : x.length = d * m)
    (hpw : ∀ k < d, 0 ≤ pw.getD k 1) (hl : 0 < lam) (hs : 0 < s) (hb : ∀ i < m, 0 ≤ b i)
    (hrd : ∀ i < m, 0 ≤ rd i ∧ ∑ k ∈ range d, pw.getD k 1 *
      ((x.getD (k * m + i) 0 - gAt g (k * m + i)) * (x.getD (k * m + i) 0 - gAt g (k * m + i)))
        = rd i * rd i)
    (hre : ∀ i < m, 0 ≤ re i ∧ ∑ k ∈ range d, pw.getD k 1 *
      ((z.getD (k * m + i) 0 - gAt g (k * m + i)) * (z.getD (k * m + i) 0 - gAt g (k * m + i)))
        = re i * re i) :
    let p := Fn.prox E (.l1l2 pw d lam g) w (.sc s) x
    p.length = x.length ∧
    ∑ i ∈ range m, b i * (lam * E.sqrt (∑ k ∈ range d, pw.getD k 1 *
          ((p.getD (k * m + i) 0 - gAt g (k * m + i)) * (p.getD (k * m + i) 0 - gAt g (k * m + i))))
        + (∑ k ∈ range d, pw.getD k 1 * ((p.getD (k * m + i) 0 - x.getD (k * m + i) 0) ^ 2
            + (z.getD (k * m + i) 0 - p.getD (k * m + i) 0) ^ 2)) / (2 * s))
      ≤ ∑ i ∈ range m, b i * (lam * E.sqrt (∑ k ∈ range d, pw.getD k 1 *
          ((z.getD (k * m + i) 0 - gAt g (k * m + i)) * (z.getD (k * m + i) 0 - gAt g (k * m + i))))
        + (∑ k ∈ range d, pw.getD k 1 * (z.getD (k * m + i) 0 - x.getD (k * m + i) 0) ^ 2)
            / (2 * s)) := by
  intro p
  refine ⟨by simp only [p, Fn.prox, idxMap_length], ?_⟩
  apply Finset.sum_le_sum
  intro i hi
  have hi' := mem_range.mp hi
  apply mul_le_mul_of_nonneg_left _ (hb i hi')
  have hpe : ∀ k ∈ range d, p.getD (k * m + i) 0 = _ :=
    fun k hk => l1l2_getD E pw d m lam s g w x hd hx k i (mem_range.mp hk) hi'
  have hgv := C07.group_soft_vi (range d) E.sqrt (fun k => pw.getD k 1)
    (fun k => x.getD (k * m + i) 0) (fun k => gAt g (k * m + i)) (fun k => z.getD (k * m + i) 0)
    (fun k => p.getD (k * m + i) 0)
    (s * lam) (rd i) (re i) hsq (fun k hk => hpw k (mem_range.mp hk)) (mul_pos hs hl)
    (hrd i hi').1 (hre i hi').1 (hrd i hi').2 (hre i hi').2 hpe
  apply group_lift (range d) (fun k => pw.getD k 1) (fun k => x.getD (k * m + i) 0)
    (fun k => p.getD (k * m + i) 0) (fun k => z.getD (k * m + i) 0) s _ _ hs
  beta_reduce at hgv ⊢
  linarith [hgv]

/-- `ProximalHuber._call` on a PRODUCT space (`Huber(X^d, γ).proximal`, `γ > 0`) as EXECUTED by
`Fn.prox` (`.huberG`): for every `d ≥ 1`, `m`, component weights `pw ≥ 0`, base weights `b ≥ 0`,
float step, the result minimises `Σ_i b_i (f_γ(|z(i)|_pw) + Σ_k pw_k (z_k(i) − x_k(i))²/(2σ))`
with a quadratic gap (`f_γ` the scalar Huber function, `|·|_pw` the point-wise 2-norm). -/
theorem C07.huberG_list_minimises (E : Env K) (pw : List K) (d m : ℕ) (gam s : K)
    (w x z : List K) (b rd re : ℕ → K)
    (hsq : ∀ r, 0 ≤ r → E.sqrt (r * r) = r) (hd : 0 < d) (hx : x.length = d * m)
    (hpw : ∀ k < d, 0 ≤ pw.getD k 1) (hg : 0 < gam) (hs : 0 < s) (hb : ∀ i < m, 0 ≤ b i)
    (hrd : ∀ i < m, 0 ≤ rd i ∧ ∑ k ∈ range d, pw.getD k 1 *
      (x.getD (k * m + i) 0 * x.getD (k * m + i) 0) = rd i * rd i)
    (hre : ∀ i < m, 0 ≤ re i ∧ ∑ k ∈ range d, pw.getD k 1 *
      (z.getD (k * m + i) 0 * z.getD (k * m + i) 0) = re i * re i) :
    let p := Fn.prox E (.huberG pw d gam) w (.sc s) x
    p.length = x.length ∧
    ∑ i ∈ range m, b i * (huberFn gam (E.sqrt (∑ k ∈ range d, pw.getD k 1 *
          (p.getD (k * m + i) 0 * p.getD (k * m + i) 0)))
        + (∑ k ∈ range d, pw.getD k 1 * ((p.getD (k * m + i) 0 - x.getD (k * m + i) 0) ^ 2
            + (z.getD (k * m + i) 0 - p.getD (k * m + i) 0) ^ 2)) / (2 * s))
      ≤ ∑ i ∈ range m, b i * (huberFn gam (E.sqrt (∑ k ∈ range d, pw.getD k 1 *
          (z.getD (k * m + i) 0 * z.getD (k * m + i) 0)))
        + (∑ k ∈ range d, pw.getD k 1 * (z.getD (k * m + i) 0 - x.getD (k * m + i) 0) ^ 2)
            / (2 * s)) := by
  intro p
  refine ⟨by simp only [p, Fn.prox, idxMap_length], ?_⟩
  apply Finset.sum_le_sum
  intro i hi
  have hi' := mem_range.mp hi
  apply mul_le_mul_of_nonneg_left _ (hb i hi')
  have hpe : ∀ k ∈ range d, p.getD (k * m + i) 0 = _ :=
    fun k hk => huberG_getD E pw d m gam s w x hd hx k i (mem_range.mp hk) hi'
  have hgv := C07.group_huber_vi (range d) E.sqrt (fun k => pw.getD k 1)
    (fun k => x.getD (k * m + i) 0) (fun k => z.getD (k * m + i) 0)
    (fun k => p.getD (k * m + i) 0)
    gam s (rd i) (re i) hsq (fun k hk => hpw k (mem_range.mp hk)) hg hs
    (hrd i hi').1 (hre i hi').1 (hrd i hi').2 (hre i hi').2 hpe
  apply group_lift (range d) (fun k => pw.getD k 1) (fun k => x.getD (k * m + i) 0)
    (fun k => p.getD (k * m + i) 0) (fun k => z.getD (k * m + i) 0) s _ _ hs
  exact hgv

/-- The same for `γ = 0` (documented as the isotropic group L1-L2 norm, the TV case): the
executed `.huberG … 0` minimises `Σ_i b_i (|z(i)|_pw + Σ_k pw_k (z_k(i) − x_k(i))²/(2σ))`. -/
theorem C07.huberG_list_minimises_gamma0 (E : Env K) (pw : List K) (d m : ℕ) (s : K)
    (w x z : List K) (b rd re : ℕ → K)
    (hsq : ∀ r, 0 ≤ r → E.sqrt (r * r) = r) (hd : 0 < d) (hx : x.length = d * m)
    (hpw : ∀ k < d, 0 ≤ pw.getD k 1) (hs : 0 < s) (hb : ∀ i < m, 0 ≤ b i)
    (hrd : ∀ i < m, 0 ≤ rd i ∧ ∑ k ∈ range d, pw.getD k 1 *
      (x.getD (k * m + i) 0 * x.getD (k * m + i) 0) = rd i * rd i)
    (hre : ∀ i < m, 0 ≤ re i ∧ ∑ k ∈ range d, pw.getD k 1 *
      (z.getD (k * m + i) 0 * z.getD (k * m + i) 0) = re i * re i) :
    let p := Fn.prox E (.huberG pw d 0) w (.sc s) x
    p.length = x.length ∧
    ∑ i ∈ range m, b i * (E.sqrt (∑ k ∈ range d, pw.getD k 1 *
          (p.getD (k * m + i) 0 * p.getD (k * m + i) 0))
        + (∑ k ∈ range d, pw.getD k 1 * ((p.getD (k * m + i) 0 - x.getD (k * m + i) 0) ^ 2
            + (z.getD (k * m + i) 0 - p.getD (k * m + i) 0) ^ 2)) / (2 * s))
      ≤ ∑ i ∈ range m, b i * (E.sqrt (∑ k ∈ range d, pw.getD k 1 *
          (z.getD (k * m + i) 0 * z.getD (k * m + i) 0))
        + (∑ k ∈ range d, pw.getD k 1 * (z.getD (k * m + i) 0 - x.getD (k * m + i) 0) ^ 2)
            / (2 * s)) := by
  intro p
  refine ⟨by simp only [p, Fn.prox, idxMap_length], ?_⟩
  apply Finset.sum_le_sum
  intro i hi
  have hi' := mem_range.mp hi
  apply mul_le_mul_of_nonneg_left _ (hb i hi')
  have hpe : ∀ k ∈ range d, p.getD (k * m + i) 0 = _ :=
    fun k hk => huberG_getD E pw d m 0 s w x hd hx k i (mem_range.mp hk) hi'
  have hgv := C07.group_huber_vi_gamma0 (range d) E.sqrt (fun k => pw.getD k 1)
    (fun k => x.getD (k * m + i) 0) (fun k => z.getD (k * m + i) 0)
    (fun k => p.getD (k * m + i) 0)
    s (rd i) (re i) hsq (fun k hk => hpw k (mem_range.mp hk)) hs
    (hrd i hi').1 (hre i hi').1 (hrd i hi').2 (hre i hi').2 hpe
  apply group_lift (range d) (fun k => pw.getD k 1) (fun k => x.getD (k * m + i) 0)
    (fun k => p.getD (k * m + i) 0) (fun k => z.getD (k * m + i) 0) s _ _ hs
  exact hgv

/-- `proximal_convex_conj_l1_l2` (`IndicatorGroupL1UnitBall(·, 2).proximal`, data term `g`) as
EXECUTED by `Fn.prox` (`.ccl1l2`): every point-wise group of the result has `pw`-norm `≤ lam`
(the result is in the constraint set), and against every `z` whose groups have norm `≤ lam` the
projection inequality `Σ_i b_i Σ_k pw_k (x − σ g − p)(z − p) ≤ 0` holds — i.e. `p` is the
proximal point of `ι_{|·| ≤ lam} + ⟨·, g⟩` with step `σ` in the weighted product-space norm. -/
theorem C07.ccl1l2_list_projection (E : Env K) (pw : List K) (d m : ℕ) (lam s : K)
    (g : Option (List K)) (w x z : List K) (b rd re : ℕ → K)
    (hsq : ∀ r, 0 ≤ r → E.sqrt (r * r) = r) (hd : 0 < d) (hx : x.length = d * m)
    (hpw : ∀ k < d, 0 ≤ pw.getD k 1) (hl : 0 < lam) (hb : ∀ i < m, 0 ≤ b i)
    (hrd : ∀ i < m, 0 ≤ rd i ∧ ∑ k ∈ range d, pw.getD k 1 *
      ((x.getD (k * m + i) 0 - s * gAt g (k * m + i))
        * (x.getD (k * m + i) 0 - s * gAt g (k * m + i))) = rd i * rd i)
    (hre : ∀ i < m, (0 ≤ re i ∧ re i ≤ lam) ∧ ∑ k ∈ range d, pw.getD k 1 *
      (z.getD (k * m + i) 0 * z.getD (k * m + i) 0) = re i * re i) :
    let p := Fn.prox E (.ccl1l2 pw d lam g) w (.sc s) x
    p.length = x.length ∧
    (∀ i < m, E.sqrt (∑ k ∈ range d, pw.getD k 1 *
        (p.getD (k * m + i) 0 * p.getD (k * m + i) 0)) ≤ lam) ∧
    ∑ i ∈ range m, b i * (∑ k ∈ range d, pw.getD k 1 *
      ((x.getD (k * m + i) 0 - s * gAt g (k * m + i) - p.getD (k * m + i) 0)
        * (z.getD (k * m + i) 0 - p.getD (k * m + i) 0))) ≤ 0 := by
  intro p
  have hpe : ∀ i < m, ∀ k ∈ range d, p.getD (k * m + i) 0 = _ :=
    fun i hi' k hk => ccl1l2_getD E pw d m lam s g w x hd hx k i (mem_range.mp hk) hi'
  have hgv := fun i (hi' : i < m) =>
    C07.group_ball_vi (range d) E.sqrt (fun k => pw.getD k 1)
      (fun k => x.getD (k * m + i) 0 - s * gAt g (k * m + i)) (fun k => z.getD (k * m + i) 0)
      (fun k => p.getD (k * m + i) 0)
      lam (rd i) (re i) hsq (fun k hk => hpw k (mem_range.mp hk)) hl
      (hrd i hi').1 (hre i hi').1.1 (hre i hi').1.2 (hrd i hi').2 (hre i hi').2 (hpe i hi')
  refine ⟨by simp only [p, Fn.prox, idxMap_length], ?_, ?_⟩
  · intro i hi'
    exact (hgv i hi').1
  · apply Finset.sum_nonpos
    intro i hi
    have hi' := mem_range.mp hi
    exact mul_nonpos_of_nonneg_of_nonpos (hb i hi') (hgv i hi').2
/-! Non-vacuity of the group theorems: power space `X^2` with component weights `(1, 4)`, two
points, `x = ((3, 0), (2, 1))` (point-wise norms 5 and 2), over `ℝ` with `Real.sqrt`. -/
example := C07.l1l2_list_minimises (⟨Real.sqrt, 0⟩ : Env ℝ) [1, 4] 2 2 1 (1 / 2) none
  [1, 1, 4, 4] [3, 0, 2, 1] [0, 0, 0, 0] (fun _ => 1 / 2) (fun i => if i = 0 then 5 else 2)
  (fun _ => 0) (fun r hr => Real.sqrt_mul_self hr) (by norm_num) rfl
  (by intro k hk; interval_cases k <;> simp) one_pos (by norm_num) (by intro i _; norm_num)
  (by intro i hi; interval_cases i <;> simp [Finset.sum_range_succ, gAt] <;> norm_num)
  (by intro i hi; interval_cases i <;> simp [Finset.sum_range_succ, gAt])

example := C07.huberG_list_minimises (⟨Real.sqrt, 0⟩ : Env ℝ) [1, 4] 2 2 (1 / 2) 1
  [1, 1, 4, 4] [3, 0, 2, 1] [0, 0, 0, 0] (fun _ => 1 / 2) (fun i => if i = 0 then 5 else 2)
  (fun _ => 0) (fun r hr => Real.sqrt_mul_self hr) (by norm_num) rfl
  (by intro k hk; interval_cases k <;> simp) (by norm_num) one_pos (by intro i _; norm_num)
  (by intro i hi; interval_cases i <;> simp [Finset.sum_range_succ] <;> norm_num)
  (by intro i hi; interval_cases i <;> simp [Finset.sum_range_succ])

example := C07.huberG_list_minimises_gamma0 (⟨Real.sqrt, 0⟩ : Env ℝ) [1, 4] 2 2 3
  [1, 1, 4, 4] [3, 0, 2, 1] [0, 0, 0, 0] (fun _ => 1 / 2) (fun i => if i = 0 then 5 else 2)
  (fun _ => 0) (fun r hr => Real.sqrt_mul_self hr) (by norm_num) rfl
  (by intro k hk; interval_cases k <;> simp) (by norm_num) (by intro i _; norm_num)
  (by intro i hi; interval_cases i <;> simp [Finset.sum_range_succ] <;> norm_num)
  (by intro i hi; interval_cases i <;> simp [Finset.sum_range_succ])

example := C07.ccl1l2_list_projection (⟨Real.sqrt, 0⟩ : Env ℝ) [1, 4] 2 2 3 1 none
  [1, 1, 4, 4] [3, 0, 2, 1] [0, 0, 0, 0] (fun _ => 1 / 2) (fun i => if i = 0 then 5 else 2)
  (fun _ => 0) (fun r hr => Real.sqrt_mul_self hr) (by norm_num) rfl
  (by intro k hk; interval_cases k <;> simp) (by norm_num) (by intro i _; norm_num)
  (by intro i hi; interval_cases i <;> simp [Finset.sum_range_succ, gAt] <;> norm_num)
  (by intro i hi; interval_cases i <;> simp [Finset.sum_range_succ])


/-! ### optimality through the separable-sum node -/

/-- Optimality THROUGH the separable-sum node of the executed `Fn.prox`
(`SeparableSum.proximal` / `combine_proximals`), for ALL sub-trees `f`, `rest`, all lists, a
float step `s` or a list of steps `s :: ss` (one float per summand): if the proximal point of
the first summand minimises `Fa(z) + Σ wa_i (z_i − xa_i)²/(2s)` with the quadratic gap and that
of the remaining sum minimises `Fb(z) + Σ wb_i (z_i − xb_i)²/(2σb_i)` with the gap (`σb` the
per-entry steps of the rest: constant `s` for a float step), then the point computed by the
`.sep` node is the concatenation of the two and minimises
`Fa(z₁) + Fb(z₂) + Σ_i W_i (Z_i − X_i)²/(2σ_i)` over all `Z = z₁ ++ z₂`, with the quadratic gap, in
the concatenated weighted norm with the block-wise steps.  CONDITIONAL on the two part
properties, which are the conclusions of the leaf theorems (`C07.l1_list_minimises`,
`C07.huber_list_minimises`, `C07.l1l2_list_minimises`, … — see the example below) or of
this theorem itself for a nested sum (after rewriting `(xa ++ xb).length`). -/
theorem C07.sep_list_minimises (E : Env K) (f rest : Fn K) (wa wb xa xb za zb : List K) (s : K)
    (sig s2 : Sig K) (σb : ℕ → K) (Fa Fb : List K → K)
    (hsig : (sig = .sc s ∧ s2 = .sc s) ∨ (∃ ss, sig = .vec (s :: ss) ∧ s2 = .vec ss))
    (hw : wa.length = xa.length) (hza : za.length = xa.length)
    (hla : (f.prox E wa (.sc s) xa).length = xa.length)
    (ha : Fa (f.prox E wa (.sc s) xa) + ∑ i ∈ range xa.length, wa.getD i 0 *
          ((((f.prox E wa (.sc s) xa).getD i 0 - xa.getD i 0) ^ 2
            + (za.getD i 0 - (f.prox E wa (.sc s) xa).getD i 0) ^ 2) / (2 * s))
        ≤ Fa za + ∑ i ∈ range xa.length, wa.getD i 0 *
          ((za.getD i 0 - xa.getD i 0) ^ 2 / (2 * s)))
    (hb : Fb (rest.prox E wb s2 xb) + ∑ i ∈ range xb.length, wb.getD i 0 *
          ((((rest.prox E wb s2 xb).getD i 0 - xb.getD i 0) ^ 2
            + (zb.getD i 0 - (rest.prox E wb s2 xb).getD i 0) ^ 2) / (2 * σb i))
        ≤ Fb zb + ∑ i ∈ range xb.length, wb.getD i 0 *
          ((zb.getD i 0 - xb.getD i 0) ^ 2 / (2 * σb i))) :
    let p := Fn.prox E (.sep xa.length f rest) (wa ++ wb) sig (xa ++ xb)
    let σ := fun i => if i < xa.length then s else σb (i - xa.length)
    p = f.prox E wa (.sc s) xa ++ rest.prox E wb s2 xb ∧
    Fa (p.take xa.length) + Fb (p.drop xa.length)
        + ∑ i ∈ range (xa.length + xb.length), (wa ++ wb).getD i 0 *
          (((p.getD i 0 - (xa ++ xb).getD i 0) ^ 2
            + ((za ++ zb).getD i 0 - p.getD i 0) ^ 2) / (2 * σ i))
      ≤ Fa ((za ++ zb).take xa.length) + Fb ((za ++ zb).drop xa.length)
        + ∑ i ∈ range (xa.length + xb.length), (wa ++ wb).getD i 0 *
          (((za ++ zb).getD i 0 - (xa ++ xb).getD i 0) ^ 2 / (2 * σ i)) := by
  intro p σ
  have hp : p = f.prox E wa (.sc s) xa ++ rest.prox E wb s2 xb := by
    rcases hsig with ⟨h1, h2⟩ | ⟨ss, h1, h2⟩
    · simp only [p, h1, h2]; exact C07.sep_prox_append_scalar E f rest wa wb xa xb s hw
    · simp only [p, h1, h2]; exact C07.sep_prox_append_list E f rest wa wb xa xb s ss hw
  refine ⟨hp, ?_⟩
  have hσa : ∀ i ∈ range xa.length, σ i = s := by
    intro i hi; simp only [σ, if_pos (mem_range.mp hi)]
  have hσb : ∀ i, σ (xa.length + i) = σb i := by
    intro i; simp only [σ]; rw [if_neg (by omega), Nat.add_sub_cancel_left]
  rw [hp, ← hla, List.take_left, List.drop_left, hla, ← hza, List.take_left, List.drop_left, hza,
    Finset.sum_range_add, Finset.sum_range_add]
  have e1 : ∀ i ∈ range xa.length, (wa ++ wb).getD i 0 *
      ((((f.prox E wa (.sc s) xa ++ rest.prox E wb s2 xb).getD i 0 - (xa ++ xb).getD i 0) ^ 2
        + ((za ++ zb).getD i 0 - (f.prox E wa (.sc s) xa ++ rest.prox E wb s2 xb).getD i 0) ^ 2)
          / (2 * σ i))
      = wa.getD i 0 * ((((f.prox E wa (.sc s) xa).getD i 0 - xa.getD i 0) ^ 2
            + (za.getD i 0 - (f.prox E wa (.sc s) xa).getD i 0) ^ 2) / (2 * s)) := by
    intro i hi
    have hi' := mem_range.mp hi
    rw [getD_app_left wa wb i (by rw [hw]; exact hi'), getD_app_left _ _ i (by rw [hla]; exact hi'),
      getD_app_left xa xb i hi', getD_app_left za zb i (by rw [hza]; exact hi'), hσa i hi]
  have e2 : ∀ i ∈ range xb.length, (wa ++ wb).getD (xa.length + i) 0 *
      ((((f.prox E wa (.sc s) xa ++ rest.prox E wb s2 xb).getD (xa.length + i) 0
          - (xa ++ xb).getD (xa.length + i) 0) ^ 2
        + ((za ++ zb).getD (xa.length + i) 0
          - (f.prox E wa (.sc s) xa ++ rest.prox E wb s2 xb).getD (xa.length + i) 0) ^ 2)
          / (2 * σ (xa.length + i)))
      = wb.getD i 0 * ((((rest.prox E wb s2 xb).getD i 0 - xb.getD i 0) ^ 2
            + (zb.getD i 0 - (rest.prox E wb s2 xb).getD i 0) ^ 2) / (2 * σb i)) := by
    intro i _
    rw [getD_app_right wa wb _ i hw, getD_app_right _ _ _ i hla,
      getD_app_right xa xb _ i rfl, getD_app_right za zb _ i hza, hσb i]
  have e3 : ∀ i ∈ range xa.length, (wa ++ wb).getD i 0 *
      (((za ++ zb).getD i 0 - (xa ++ xb).getD i 0) ^ 2 / (2 * σ i))
      = wa.getD i 0 * ((za.getD i 0 - xa.getD i 0) ^ 2 / (2 * s)) := by
    intro i hi
    have hi' := mem_range.mp hi
    rw [getD_app_left wa wb i (by rw [hw]; exact hi'),
      getD_app_left xa xb i hi', getD_app_left za zb i (by rw [hza]; exact hi'), hσa i hi]
  have e4 : ∀ i ∈ range xb.length, (wa ++ wb).getD (xa.length + i) 0 *
      (((za ++ zb).getD (xa.length + i) 0 - (xa ++ xb).getD (xa.length + i) 0) ^ 2
        / (2 * σ (xa.length + i)))
      = wb.getD i 0 * ((zb.getD i 0 - xb.getD i 0) ^ 2 / (2 * σb i)) := by
    intro i _
    rw [getD_app_right wa wb _ i hw, getD_app_right xa xb _ i rfl,
      getD_app_right za zb _ i hza, hσb i]
  rw [Finset.sum_congr rfl e1, Finset.sum_congr rfl e2, Finset.sum_congr rfl e3,
    Finset.sum_congr rfl e4]
  linarith [ha, hb]

/-- Non-vacuity and composition: the two hypotheses of `C07.sep_list_minimises` are DISCHARGED by
the leaf theorems for `SeparableSum(L1Norm(rn(2, weighting=[1,2])), Huber(rn(1, weighting=1/2), 1/2))`
with the per-summand steps `[1/2, 2]`, giving an unconditional optimality statement for that
executed tree at `x = (3, 1/2 | −2)` against `z = (0, 1 | 1)`. -/
example :=
  C07.sep_list_minimises (⟨id, 0⟩ : Env ℚ) (.l1 1 none) (.huber (1 / 2))
    [1, 2] [1 / 2] [3, 1 / 2] [-2] [0, 1] [1] (1 / 2) (.vec [1 / 2, 2]) (.vec [2]) (fun _ => 2)
    (fun z => ∑ i ∈ range 2, ([1, 2] : List ℚ).getD i 0 * (1 * |z.getD i 0 - gAt none i|))
    (fun z => ∑ i ∈ range 1, ([1 / 2] : List ℚ).getD i 0 * huberFn (1 / 2) (z.getD i 0))
    (Or.inr ⟨[2], rfl, rfl⟩) rfl rfl
    (C07.l1_list_minimises (⟨id, 0⟩ : Env ℚ) 1 none [1, 2] [3, 1 / 2] [0, 1] (.sc (1 / 2)) one_pos
      (by intro i hi; simp at hi; interval_cases i <;> simp)
      (by intro i _; simp [Sig.at])).1
    (by
      have h := (C07.l1_list_minimises (⟨id, 0⟩ : Env ℚ) 1 none [1, 2] [3, 1 / 2] [0, 1]
        (.sc (1 / 2)) one_pos (by intro i hi; simp at hi; interval_cases i <;> simp)
        (by intro i _; simp [Sig.at])).2
      simp only [mul_add, Finset.sum_add_distrib, Sig.at] at h
      exact h)
    (by
      have h := (C07.huber_list_minimises (⟨id, 0⟩ : Env ℚ) (1 / 2) 2 [1 / 2] [-2] [1]
        (by norm_num) (by norm_num) (by intro i hi; simp at hi; subst hi; simp)).2
      simp only [mul_add, Finset.sum_add_distrib] at h
      exact h)


/-! ### the same statements about the executed objective `groupObj` (stream `group-objective`) -/

/-- `proximal_l1_l2` in terms of the EXECUTED objective `groupObj` (the value
`lam * GroupL1Norm(X^d, 2)(z − g) + ‖z − x‖²/(2σ)` that the stream `group-objective` compares
with the real functional and the real product-space norm): the executed proximal point `p`
satisfies `obj_x(p) + ‖z − p‖²/(2σ) ≤ obj_x(z)` for every `z` of the space — `p` is THE minimiser.
Same hypotheses as `C07.l1l2_list_minimises` (by which it is proved), base weights as a list. -/
theorem C07.l1l2_groupObj_minimises (E : Env K) (pw : List K) (d m : ℕ) (lam s : K)
    (g : Option (List K)) (w x z b : List K) (rd re : ℕ → K)
    (hsq : ∀ r, 0 ≤ r → E.sqrt (r * r) = r) (hd : 0 < d) (hx : x.length = d * m)
    (hz : z.length = d * m)
    (hpw : ∀ k < d, 0 ≤ pw.getD k 1) (hl : 0 < lam) (hs : 0 < s) (hb : ∀ i < m, 0 ≤ b.getD i 0)
    (hrd : ∀ i < m, 0 ≤ rd i ∧ ∑ k ∈ range d, pw.getD k 1 *
      ((x.getD (k * m + i) 0 - gAt g (k * m + i)) * (x.getD (k * m + i) 0 - gAt g (k * m + i)))
        = rd i * rd i)
    (hre : ∀ i < m, 0 ≤ re i ∧ ∑ k ∈ range d, pw.getD k 1 *
      ((z.getD (k * m + i) 0 - gAt g (k * m + i)) * (z.getD (k * m + i) 0 - gAt g (k * m + i)))
        = re i * re i) :
    let p := Fn.prox E (.l1l2 pw d lam g) w (.sc s) x
    groupObj E.sqrt (fun t => lam * t) pw d m b g s x p
        + groupObj E.sqrt (fun _ => 0) pw d m b none s p z
      ≤ groupObj E.sqrt (fun t => lam * t) pw d m b g s x z := by
  intro p
  have key := C07.l1l2_list_minimises E pw d m lam s g w x z (fun i => b.getD i 0) rd re
    hsq hd hx hpw hl hs hb hrd hre
  have hp : p.length = d * m := by rw [← hx]; exact key.1
  rw [groupObj_eq _ _ _ _ _ _ _ _ _ _ hp, groupObj_eq _ _ _ _ _ _ _ _ _ _ hz,
    groupObj_eq _ _ _ _ _ _ _ _ _ _ hz, ← Finset.sum_add_distrib]
  refine le_trans (le_of_eq ?_) key.2
  apply Finset.sum_congr rfl
  intro i _
  apply groupObj_add_quad
  simp only [mul_add, Finset.sum_add_distrib]
  rfl

/-- `Huber(X^d, γ).proximal`, `γ > 0`, in terms of the EXECUTED objective `groupObj` with the
per-point model `huberValK` of `Huber._call` (stream `group-objective`):
`obj_x(p) + ‖z − p‖²/(2σ) ≤ obj_x(z)` for every `z`.  `E.sqrt ≥ 0` is used to identify
`huberValK` with the Huber function of the theorems. -/
theorem C07.huberG_groupObj_minimises (E : Env K) (pw : List K) (d m : ℕ) (gam s : K)
    (w x z b : List K) (rd re : ℕ → K)
    (hsq : ∀ r, 0 ≤ r → E.sqrt (r * r) = r) (hsq0 : ∀ t, 0 ≤ E.sqrt t)
    (hd : 0 < d) (hx : x.length = d * m) (hz : z.length = d * m)
    (hpw : ∀ k < d, 0 ≤ pw.getD k 1) (hg : 0 < gam) (hs : 0 < s) (hb : ∀ i < m, 0 ≤ b.getD i 0)
    (hrd : ∀ i < m, 0 ≤ rd i ∧ ∑ k ∈ range d, pw.getD k 1 *
      (x.getD (k * m + i) 0 * x.getD (k * m + i) 0) = rd i * rd i)
    (hre : ∀ i < m, 0 ≤ re i ∧ ∑ k ∈ range d, pw.getD k 1 *
      (z.getD (k * m + i) 0 * z.getD (k * m + i) 0) = re i * re i) :
    let p := Fn.prox E (.huberG pw d gam) w (.sc s) x
    groupObj E.sqrt (huberValK gam) pw d m b none s x p
        + groupObj E.sqrt (fun _ => 0) pw d m b none s p z
      ≤ groupObj E.sqrt (huberValK gam) pw d m b none s x z := by
  intro p
  have key := C07.huberG_list_minimises E pw d m gam s w x z (fun i => b.getD i 0) rd re
    hsq hd hx hpw hg hs hb hrd hre
  have hp : p.length = d * m := by rw [← hx]; exact key.1
  rw [groupObj_eq _ _ _ _ _ _ _ _ _ _ hp, groupObj_eq _ _ _ _ _ _ _ _ _ _ hz,
    groupObj_eq _ _ _ _ _ _ _ _ _ _ hz, ← Finset.sum_add_distrib]
  simp only [gAt, sub_zero, huberValK_eq gam _ hg (hsq0 _)]
  refine le_trans (le_of_eq ?_) key.2
  apply Finset.sum_congr rfl
  intro i _
  apply groupObj_add_quad
  simp only [mul_add, Finset.sum_add_distrib]
  rfl

/-- The same for `γ = 0` (`Huber._call` returns the group L1-L2 norm itself). -/
theorem C07.huberG_groupObj_minimises_gamma0 (E : Env K) (pw : List K) (d m : ℕ) (s : K)
    (w x z b : List K) (rd re : ℕ → K)
    (hsq : ∀ r, 0 ≤ r → E.sqrt (r * r) = r)
    (hd : 0 < d) (hx : x.length = d * m) (hz : z.length = d * m)
    (hpw : ∀ k < d, 0 ≤ pw.getD k 1) (hs : 0 < s) (hb : ∀ i < m, 0 ≤ b.getD i 0)
    (hrd : ∀ i < m, 0 ≤ rd i ∧ ∑ k ∈ range d, pw.getD k 1 *
      (x.getD (k * m + i) 0 * x.getD (k * m + i) 0) = rd i * rd i)
    (hre : ∀ i < m, 0 ≤ re i ∧ ∑ k ∈ range d, pw.getD k 1 *
      (z.getD (k * m + i) 0 * z.getD (k * m + i) 0) = re i * re i) :
    let p := Fn.prox E (.huberG pw d 0) w (.sc s) x
    groupObj E.sqrt (huberValK 0) pw d m b none s x p
        + groupObj E.sqrt (fun _ => 0) pw d m b none s p z
      ≤ groupObj E.sqrt (huberValK 0) pw d m b none s x z := by
  intro p
  have key := C07.huberG_list_minimises_gamma0 E pw d m s w x z (fun i => b.getD i 0) rd re
    hsq hd hx hpw hs hb hrd hre
  have hp : p.length = d * m := by rw [← hx]; exact key.1
  have hv : ∀ t : K, huberValK 0 t = t := by intro t; simp [huberValK]
  rw [groupObj_eq _ _ _ _ _ _ _ _ _ _ hp, groupObj_eq _ _ _ _ _ _ _ _ _ _ hz,
    groupObj_eq _ _ _ _ _ _ _ _ _ _ hz, ← Finset.sum_add_distrib]
  simp only [gAt, sub_zero, hv]
  refine le_trans (le_of_eq ?_) key.2
  apply Finset.sum_congr rfl
  intro i _
  apply groupObj_add_quad
  simp only [mul_add, Finset.sum_add_distrib]
  rfl

example := C07.l1l2_groupObj_minimises (⟨Real.sqrt, 0⟩ : Env ℝ) [1, 4] 2 2 1 (1 / 2) none
  [1, 1, 4, 4] [3, 0, 2, 1] [0, 0, 0, 0] [1 / 2, 1 / 2] (fun i => if i = 0 then 5 else 2)
  (fun _ => 0) (fun r hr => Real.sqrt_mul_self hr) (by norm_num) rfl rfl
  (by intro k hk; interval_cases k <;> simp) one_pos (by norm_num)
  (by intro i hi; interval_cases i <;> simp)
  (by intro i hi; interval_cases i <;> simp [Finset.sum_range_succ, gAt] <;> norm_num)
  (by intro i hi; interval_cases i <;> simp [Finset.sum_range_succ, gAt])

example := C07.huberG_groupObj_minimises (⟨Real.sqrt, 0⟩ : Env ℝ) [1, 4] 2 2 (1 / 2) 1
  [1, 1, 4, 4] [3, 0, 2, 1] [0, 0, 0, 0] [1 / 2, 1 / 2] (fun i => if i = 0 then 5 else 2)
  (fun _ => 0) (fun r hr => Real.sqrt_mul_self hr) Real.sqrt_nonneg (by norm_num) rfl rfl
  (by intro k hk; interval_cases k <;> simp) (by norm_num) one_pos
  (by intro i hi; interval_cases i <;> simp)
  (by intro i hi; interval_cases i <;> simp [Finset.sum_range_succ] <;> norm_num)
  (by intro i hi; interval_cases i <;> simp [Finset.sum_range_succ])

example := C07.huberG_groupObj_minimises_gamma0 (⟨Real.sqrt, 0⟩ : Env ℝ) [1, 4] 2 2 3
  [1, 1, 4, 4] [3, 0, 2, 1] [0, 0, 0, 0] [1 / 2, 1 / 2] (fun i => if i = 0 then 5 else 2)
  (fun _ => 0) (fun r hr => Real.sqrt_mul_self hr) (by norm_num) rfl rfl
  (by intro k hk; interval_cases k <;> simp) (by norm_num)
  (by intro i hi; interval_cases i <;> simp)
  (by intro i hi; interval_cases i <;> simp [Finset.sum_range_succ] <;> norm_num)
  (by intro i hi; interval_cases i <;> simp [Finset.sum_range_succ])


/-! ### ROUND 5: the calculus nodes `.trans`, `.leftScale`, `.argScale` of the EXECUTED `Fn.prox` -/

/-- `FunctionalTranslation.proximal` / `proximal_translation` as EXECUTED by the `.trans` node of
`Fn.prox` (float step), for ANY sub-tree `f`, any lists and weights: if the proximal point the
sub-tree computes at `x − y` is the proximal point of `F` there, then the point computed by
`.trans f y` at `x` is the proximal point of `z ↦ F(z − y)` (same step, same weighted norm, with
the quadratic gap).  Directly on the executed `Fn`, not on `PTree`. -/
theorem C07.fn_trans_minimises (E : Env K) (f : Fn K) (y w x : List K) (s : K) (F : List K → K)
    (hy : y.length = x.length)
    (h : IsListProx w F s (List.zipWith (· - ·) x y)
      (f.prox E w (.sc s) (List.zipWith (· - ·) x y))) :
    IsListProx w (fun z => F (List.zipWith (· - ·) z y)) s x
      (Fn.prox E (.trans f y) w (.sc s) x) := by
  have hp : Fn.prox E (.trans f y) w (.sc s) x
      = List.zipWith (· + ·) y (f.prox E w (.sc s) (List.zipWith (· - ·) x y)) := rfl
  set q := f.prox E w (.sc s) (List.zipWith (· - ·) x y) with hq
  obtain ⟨hlen, hmin⟩ := h
  have hxy : (List.zipWith (· - ·) x y).length = x.length := by simp [hy]
  rw [hxy] at hlen hmin
  rw [hp]
  have hplen : (List.zipWith (· + ·) y q).length = x.length := by simp [hy, hlen]
  refine ⟨hplen, ?_⟩
  intro z hz
  have hzy : (List.zipWith (· - ·) z y).length = x.length := by simp [hy, hz]
  have key := hmin (List.zipWith (· - ·) z y) hzy
  have hpy : List.zipWith (· - ·) (List.zipWith (· + ·) y q) y = q := by
    apply List.ext_getElem (by simp [hy, hlen])
    intro i h1 h2
    simp
  beta_reduce
  rw [hpy]
  refine le_trans (le_of_eq ?_) (le_trans key (le_of_eq ?_))
  · congr 1
    apply Finset.sum_congr rfl
    intro i hi
    have hi' := mem_range.mp hi
    rw [zipWith_getD' _ _ _ i (by rw [hy]; exact hi') (by rw [hlen]; exact hi'),
      zipWith_getD' _ _ _ i hi' (by rw [hy]; exact hi'),
      zipWith_getD' _ _ _ i (by rw [hz]; exact hi') (by rw [hy]; exact hi')]
    ring
  · congr 1
    apply Finset.sum_congr rfl
    intro i hi
    have hi' := mem_range.mp hi
    rw [zipWith_getD' _ _ _ i hi' (by rw [hy]; exact hi'),
      zipWith_getD' _ _ _ i (by rw [hz]; exact hi') (by rw [hy]; exact hi')]
    ring

/-- `FunctionalLeftScalarMult.proximal` as EXECUTED by the `.leftScale` node (`c > 0`, float
step): if the sub-tree's point with step `σ·c` is the proximal point of `F` with that step, then
the node's point is the proximal point of `c·F` with step `σ`. -/
theorem C07.fn_leftScale_minimises (E : Env K) (f : Fn K) (c : K) (w x : List K) (s : K)
    (F : List K → K) (hc : 0 < c) (hs : 0 < s)
    (h : IsListProx w F (s * c) x (f.prox E w (.sc (s * c)) x)) :
    IsListProx w (fun z => c * F z) s x (Fn.prox E (.leftScale f c) w (.sc s) x) := by
  have hp : Fn.prox E (.leftScale f c) w (.sc s) x = f.prox E w (.sc (s * c)) x := rfl
  rw [hp]
  obtain ⟨hlen, hmin⟩ := h
  refine ⟨hlen, ?_⟩
  intro z hz
  have key := hmin z hz
  have e : ∀ A : ℕ → K, ∑ i ∈ range x.length, w.getD i 0 * (A i / (2 * s))
      = c * ∑ i ∈ range x.length, w.getD i 0 * (A i / (2 * (s * c))) := by
    intro A
    rw [Finset.mul_sum]
    apply Finset.sum_congr rfl
    intro i _
    field_simp
  rw [e, e]
  have := mul_le_mul_of_nonneg_left key hc.le
  linarith

/-- `proximal_arg_scaling` (`FunctionalRightScalarMult.proximal`) as EXECUTED by the `.argScale`
node including its guard (`c ≠ 0`, float step): if the sub-tree's point at `c·x` with step
`σ·c²` is the proximal point of `F`, then `(1/c)·` that point is the proximal point of
`z ↦ F(c·z)` at `x` with step `σ`. -/
theorem C07.fn_argScale_minimises (E : Env K) (f : Fn K) (c : K) (w x : List K) (s : K)
    (F : List K → K) (hc : c ≠ 0) (hs : 0 < s)
    (h : IsListProx w F (s * (c * c)) (x.map (c * ·))
      (f.prox E w (.sc (s * (c * c))) (x.map (c * ·)))) :
    IsListProx w (fun z => F (z.map (c * ·))) s x (Fn.prox E (.argScale f c) w (.sc s) x) := by
  have hp : Fn.prox E (.argScale f c) w (.sc s) x
      = (f.prox E w (.sc (s * (c * c))) (x.map (c * ·))).map ((1 / c) * ·) := by
    rcases lt_or_gt_of_ne hc with h' | h'
    · simp only [Fn.prox, proxArgScaling0, if_pos h']; rfl
    · simp only [Fn.prox, proxArgScaling0, if_neg (not_lt.mpr h'.le), if_pos h']; rfl
  rw [hp]
  set q := f.prox E w (.sc (s * (c * c))) (x.map (c * ·)) with hq
  obtain ⟨hlen, hmin⟩ := h
  rw [List.length_map] at hlen hmin
  refine ⟨by rw [List.length_map, hlen], ?_⟩
  intro z hz
  have key := hmin (z.map (c * ·)) (by rw [List.length_map, hz])
  have hqq : (q.map ((1 / c) * ·)).map (c * ·) = q := by
    rw [List.map_map]
    conv_rhs => rw [← List.map_id q]
    apply List.map_congr_left
    intro a _
    simp only [Function.comp, id]
    field_simp
  beta_reduce
  rw [hqq]
  have hcc : 0 < c * c := mul_self_pos.mpr hc
  refine le_trans (le_of_eq ?_) (le_trans key (le_of_eq ?_))
  · congr 1
    apply Finset.sum_congr rfl
    intro i hi
    have hi' := mem_range.mp hi
    rw [map_getD' q _ i (by rw [hlen]; exact hi'), map_getD' x _ i hi',
      map_getD' z _ i (by rw [hz]; exact hi')]
    field_simp
  · congr 1
    apply Finset.sum_congr rfl
    intro i hi
    have hi' := mem_range.mp hi
    rw [map_getD' x _ i hi', map_getD' z _ i (by rw [hz]; exact hi')]
    field_simp

/-- Leaf contract for the calculus theorems: the executed L1 leaf computes the proximal point
(in the sense of `IsListProx`) of `z ↦ Σ w_i λ|z_i − g_i|` — `C07.l1_list_minimises` repackaged. -/
theorem C07.l1_isListProx (E : Env K) (lam s : K) (g : Option (List K)) (w x : List K)
    (hl : 0 < lam) (hs : 0 < s) (hw : ∀ i < x.length, 0 ≤ w.getD i 0) :
    IsListProx w (fun z => ∑ i ∈ range x.length, w.getD i 0 * (lam * |z.getD i 0 - gAt g i|)) s x
      (Fn.prox E (.l1 lam g) w (.sc s) x) := by
  refine ⟨(C07.l1_list_minimises E lam g w x [] (.sc s) hl hw (fun _ _ => hs)).1, ?_⟩
  intro z _
  have h := (C07.l1_list_minimises E lam g w x z (.sc s) hl hw (fun _ _ => hs)).2
  simp only [mul_add, Finset.sum_add_distrib, Sig.at] at h
  exact h

/-- UNCONDITIONAL optimality of an executed four-node tree, all inputs: for
`(a * L1Norm(λ, g)(c ·)).translated(y)` (`a > 0`, `c ≠ 0`, any data term, any length, weights
`≥ 0`, float step) the point computed by `Fn.prox` through `.trans`, `.leftScale`, `.argScale`
and the `.l1` leaf is the proximal point of `z ↦ a Σ w_i λ|c (z_i − y_i) − g_i|`: the three
calculus theorems chained with the leaf theorem. -/
theorem C07.fn_trans_lscale_argscale_l1_minimises (E : Env K) (lam a c s : K) (g : Option (List K))
    (y w x : List K) (hy : y.length = x.length) (hl : 0 < lam) (ha : 0 < a) (hc : c ≠ 0) (hs : 0 < s)
    (hw : ∀ i < x.length, 0 ≤ w.getD i 0) :
    IsListProx w (fun z => a * ∑ i ∈ range x.length, w.getD i 0 *
        (lam * |((List.zipWith (· - ·) z y).map (c * ·)).getD i 0 - gAt g i|)) s x
      (Fn.prox E (.trans (.leftScale (.argScale (.l1 lam g) c) a) y) w (.sc s) x) := by
  have hn : ((List.zipWith (· - ·) x y).map (c * ·)).length = x.length := by simp [hy]
  have hn' : (List.zipWith (· - ·) x y).length = x.length := by simp [hy]
  have h1 := C07.l1_isListProx E lam (s * a * (c * c)) g w ((List.zipWith (· - ·) x y).map (c * ·))
    hl (mul_pos (mul_pos hs ha) (mul_self_pos.mpr hc)) (by rw [hn]; exact hw)
  rw [hn] at h1
  have h2 := C07.fn_argScale_minimises E (.l1 lam g) c w (List.zipWith (· - ·) x y) (s * a) _ hc
    (by positivity) h1
  have h3 := C07.fn_leftScale_minimises E (.argScale (.l1 lam g) c) a w (List.zipWith (· - ·) x y) s _
    ha hs h2
  exact C07.fn_trans_minimises E _ y w x s _ hy h3

example := C07.fn_trans_lscale_argscale_l1_minimises (⟨id, 0⟩ : Env ℚ) 1 3 (-2) (1 / 2) (some [1 / 4, 0])
  [1, -1] [1, 2] [3, 1 / 2] rfl one_pos (by norm_num) (by norm_num) (by norm_num)
  (by intro i hi; simp at hi; interval_cases i <;> simp)


end Group

/-! ## Kullback–Leibler (over ℝ, `np.sqrt` = `Real.sqrt`) -/

/-- `ProximalConvexConjKL._call` at one point, over ℝ with the true square root:
`p = (x + λ − √((x−λ)² + 4λσg))/2` lies in the domain `p < λ` of
`(λ·KL_g)^*(z) = −λ g log(1 − z/λ)` and satisfies the variational inequality of its proximal
(stationarity `(x − p)(λ − p) = σλg` plus `log t ≤ t − 1`). -/
theorem C07.klcc_vi (lam sig g x z : ℝ) (hl : 0 < lam) (hs : 0 < sig) (hg : 0 < g)
    (hz : z < lam) :
    let p := klccCode Real.sqrt lam sig x g
    p < lam ∧
    sig * (-(lam * g) * Real.log (1 - p / lam)) + (x - p) * (z - p)
      ≤ sig * (-(lam * g) * Real.log (1 - z / lam)) := by
  intro p
  set r := (x - lam) * (x - lam) + (1 + 1) * (1 + 1) * lam * sig * g with hr
  have hp : p = (x - Real.sqrt r + lam) / (1 + 1) := rfl
  have hrpos : 0 < r := by rw [hr]; nlinarith [mul_self_nonneg (x - lam), mul_pos (mul_pos hl hs) hg]
  have hsq : Real.sqrt r * Real.sqrt r = r := Real.mul_self_sqrt (le_of_lt hrpos)
  have hs0 : 0 < Real.sqrt r := Real.sqrt_pos.mpr hrpos
  -- sqrt r > |x - lam|
  have hgt : x - lam < Real.sqrt r := by
    by_contra hc
    have hc' : Real.sqrt r ≤ x - lam := not_lt.mp hc
    have : Real.sqrt r * Real.sqrt r ≤ (x - lam) * (x - lam) := by nlinarith
    rw [hsq, hr] at this
    nlinarith [mul_pos (mul_pos hl hs) hg]
  have hplt : p < lam := by rw [hp]; linarith
  refine ⟨hplt, ?_⟩
  -- stationarity
  have hstat : (x - p) * (lam - p) = sig * lam * g := by
    rw [hp]
    have : (x - (x - Real.sqrt r + lam) / (1 + 1)) * (lam - (x - Real.sqrt r + lam) / (1 + 1))
        = (Real.sqrt r * Real.sqrt r - (x - lam) * (x - lam)) / 4 := by ring
    rw [this, hsq, hr]; ring
  have ha : 0 < lam - p := by linarith
  have hb : 0 < lam - z := by linarith
  have hlog : Real.log ((lam - z) / (lam - p)) ≤ (lam - z) / (lam - p) - 1 :=
    Real.log_le_sub_one_of_pos (div_pos hb ha)
  have e1 : 1 - p / lam = (lam - p) / lam := by field_simp
  have e2 : 1 - z / lam = (lam - z) / lam := by field_simp
  rw [e1, e2, Real.log_div (ne_of_gt ha) (ne_of_gt hl), Real.log_div (ne_of_gt hb) (ne_of_gt hl)]
  rw [Real.log_div (ne_of_gt hb) (ne_of_gt ha)] at hlog
  have hxp : x - p = sig * lam * g / (lam - p) := by
    rw [eq_div_iff (ne_of_gt ha)]; exact hstat
  have e3 : (lam - z) / (lam - p) - 1 = (p - z) / (lam - p) := by field_simp; ring
  rw [e3] at hlog
  have hk : 0 < sig * lam * g := mul_pos (mul_pos hs hl) hg
  have : sig * lam * g * (Real.log (lam - z) - Real.log (lam - p))
      ≤ sig * lam * g * ((p - z) / (lam - p)) := mul_le_mul_of_nonneg_left hlog (le_of_lt hk)
  have e4 : (x - p) * (z - p) = - (sig * lam * g * ((p - z) / (lam - p))) := by
    rw [hxp]; field_simp; ring
  rw [e4]
  nlinarith

open Finset in
/-- `ProximalConvexConjKL._call` as executed by `Fn.prox` over ℝ with `np.sqrt = Real.sqrt`
(float step, prior `g_i > 0` or absent = 1): entries `< λ` and minimiser of
`Σ w_i (−λ g_i log(1 − z_i/λ) + (z_i − x_i)²/(2σ))` over `z < λ`, with quadratic gap. -/
theorem C07.klcc_list_minimises (eps lam s : ℝ) (g : Option (List ℝ)) (w x z : List ℝ)
    (hl : 0 < lam) (hs : 0 < s) (hw : ∀ i < x.length, 0 ≤ w.getD i 0)
    (hg : ∀ i < x.length, 0 < priorAt g i)
    (hz : ∀ i < x.length, z.getD i 0 < lam) :
    let p := Fn.prox (⟨Real.sqrt, eps⟩ : Env ℝ) (.klcc lam g) w (.sc s) x
    p.length = x.length ∧ (∀ i < x.length, p.getD i 0 < lam) ∧
    ∑ i ∈ range x.length, w.getD i 0 *
        (-(lam * priorAt g i) * Real.log (1 - p.getD i 0 / lam)
        + ((p.getD i 0 - x.getD i 0) ^ 2 + (z.getD i 0 - p.getD i 0) ^ 2) / (2 * s))
      ≤ ∑ i ∈ range x.length, w.getD i 0 *
        (-(lam * priorAt g i) * Real.log (1 - z.getD i 0 / lam)
        + (z.getD i 0 - x.getD i 0) ^ 2 / (2 * s)) := by
  intro p
  have hp : p = idxMap x fun i xi => klccCode Real.sqrt lam s xi (priorAt g i) := by
    show Fn.prox _ _ _ _ _ = _
    cases g <;> rfl
  have hpi : ∀ i < x.length, p.getD i 0 = klccCode Real.sqrt lam s (x.getD i 0)
      (priorAt g i) := by
    intro i hi; rw [hp, idxMap_getD _ _ _ _ hi]
  refine ⟨by rw [hp, idxMap_length], ?_, ?_⟩
  · intro i hi; rw [hpi i hi]
    exact (C07.klcc_vi lam s _ (x.getD i 0) (z.getD i 0) hl hs (hg i hi) (hz i hi)).1
  apply C07.separable_lift (range x.length) (fun i => w.getD i 0) (fun _ => s)
    (fun i => x.getD i 0) (fun i => p.getD i 0) (fun i => z.getD i 0)
    (fun i t => -(lam * priorAt g i) * Real.log (1 - t / lam))
  · intro i hi; exact hw i (mem_range.mp hi)
  · intro i _; exact hs
  · intro i hi
    have hi' := mem_range.mp hi
    simp only [hpi i hi']
    exact (C07.klcc_vi lam s _ (x.getD i 0) (z.getD i 0) hl hs (hg i hi') (hz i hi')).2

/-! ## open finding, reproduced on the model (which follows the code)

`proximal_linfty` / `proximal_convex_conj_linfty` use the constant weight of the space
(`_const_weight`, fixed in round 2) but still ignore NON-constant array weights (C07-F1, open):
no optimality theorem is claimed for `Fn.linf` / `Fn.cclinf` on array-weighted spaces. -/

/-- Finding C07-F1 on the model: on `rn(1, weighting=[4])` (an ARRAY weighting, so the code
uses weight 1), `LpNorm(inf).proximal(1)([2])` returns `[1]`, but `z = 7/4` has a smaller
objective `|z| + 4 (z − 2)²/(2·1)`  (`15/8 < 3`). -/
theorem C07.linf_array_weighted_fails :
    Fn.prox (⟨id, 0⟩ : Env ℚ) (.linf 1) [4] (.sc 1) [2] = [1] ∧
    |(7 / 4 : ℚ)| + 4 * ((7 / 4 : ℚ) - 2) ^ 2 / (2 * 1)
      < |(1 : ℚ)| + 4 * ((1 : ℚ) - 2) ^ 2 / (2 * 1) := by
  constructor
  · decide +kernel
  · norm_num
