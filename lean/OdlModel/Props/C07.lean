/-
C07 — a proximal operator returns the minimiser of f(z) + ‖z − x‖²/(2σ).
Property theorems only (helper lemmas live in `Lemmas/Prox.lean`).  The definitions the
theorems talk about are the executable ones of `Model/Prox.lean`, i.e. the same functions
the driver runs against `/repo` on every check.
-/
import OdlModel.Model.Prox
import OdlModel.Lemmas.Prox

open OdlModel.Prox

section Scalar
variable {K : Type} [Field K] [LinearOrder K] [IsStrictOrderedRing K]

/-- `ProximalL1._call` at one point, in the form the code computes it
(`x - (x-g)/max(|x-g|/(σλ), 1)`, `s = σλ > 0`), satisfies the variational inequality of the
proximal point of `σ·λ|· − g|` at `x`:  `s|p−g| + (x−p)(z−p) ≤ s|z−g|` for every `z`. -/
theorem C07.soft_vi (s x g z : K) (hs : 0 < s) :
    s * |softCode s x g - g| + (x - softCode s x g) * (z - softCode s x g) ≤ s * |z - g| := by
  unfold softCode
  simp only [absK_eq, maxK_eq]
  rcases le_or_gt (|x - g| / s) 1 with h | h
  · rw [max_eq_right h, div_one]
    have h1 : |x - g| ≤ s := by rwa [div_le_one hs] at h
    have : x - (x - g) = g := by ring
    rw [this]; simp
    calc (x - g) * (z - g) ≤ |(x - g) * (z - g)| := le_abs_self _
      _ = |x - g| * |z - g| := abs_mul _ _
      _ ≤ s * |z - g| := by gcongr
  · rw [max_eq_left (le_of_lt h)]
    have h1 : s < |x - g| := by rwa [lt_div_iff₀ hs, one_mul] at h
    rcases le_or_gt 0 (x - g) with hd | hd
    · rw [abs_of_nonneg hd] at h1 ⊢
      have hd' : x - g ≠ 0 := by linarith
      have e : (x - g) / ((x - g) / s) = s := by field_simp
      rw [e]
      have : |x - s - g| = x - s - g := abs_of_nonneg (by linarith)
      rw [this]
      have := le_abs_self (z - g)
      nlinarith
    · rw [abs_of_neg hd] at h1 ⊢
      have hd' : x - g ≠ 0 := by linarith
      have e : (x - g) / (-(x - g) / s) = -s := by field_simp
      rw [e]
      have : |x - -s - g| = -(x - -s - g) := abs_of_nonpos (by linarith)
      rw [this]
      have := neg_abs_le (z - g)
      nlinarith

/-- Non-vacuity: the code's formula on a concrete point (`σλ = 1/2`, `x = 2`, `g = 1/4`). -/
example : softCode (1/2 : ℚ) 2 (1/4) = 3/2 := by
  simp only [softCode, absK, maxK]; norm_num

end Scalar

/-! ## abstract layer (real inner product space: covers every weighted / product space) -/
section Abstract
variable {E : Type} [NormedAddCommGroup E] [InnerProductSpace ℝ E]

theorem C07.prox_minimises (C : Set E) (f : E → ℝ) (σ : ℝ) (x p : E)
    (h : ProxVI C f σ x p) (z : E) (hz : z ∈ C) :
    σ * f p + ‖p - x‖ ^ 2 / 2 + ‖z - p‖ ^ 2 / 2 ≤ σ * f z + ‖z - x‖ ^ 2 / 2 := by
  have h1 := h.2 z hz
  have e : z - x = (z - p) + (p - x) := by abel
  have h2 : ‖z - x‖ ^ 2 = ‖z - p‖ ^ 2 + 2 * inner ℝ (z - p) (p - x) + ‖p - x‖ ^ 2 := by
    rw [e]; exact norm_add_sq_real _ _
  have h3 : inner ℝ (x - p) (z - p) = - inner ℝ (z - p) (p - x) := by
    rw [real_inner_comm, ← inner_neg_right]; congr 1; abel
  linarith

theorem C07.prox_unique (C : Set E) (f : E → ℝ) (σ : ℝ) (x p q : E)
    (h : ProxVI C f σ x p) (hq : q ∈ C)
    (hmin : ∀ z ∈ C, σ * f q + ‖q - x‖ ^ 2 / 2 ≤ σ * f z + ‖z - x‖ ^ 2 / 2) : q = p := by
  have h1 := C07.prox_minimises C f σ x p h q hq
  have h2 := hmin p h.1
  have : ‖q - p‖ ^ 2 ≤ 0 := by linarith
  have : ‖q - p‖ = 0 := by nlinarith [norm_nonneg (q - p)]
  exact sub_eq_zero.mp (norm_eq_zero.mp this)

theorem C07.prox_firmly_nonexpansive (C : Set E) (f : E → ℝ) (σ : ℝ) (x y p q : E)
    (hp : ProxVI C f σ x p) (hq : ProxVI C f σ y q) :
    ‖p - q‖ ^ 2 ≤ inner ℝ (p - q) (x - y) := by
  have h1 := hp.2 q hq.1
  have h2 := hq.2 p hp.1
  have e : inner ℝ (p - q) (x - y) - ‖p - q‖ ^ 2
      = -(inner ℝ (x - p) (q - p) + inner ℝ (y - q) (p - q)) := by
    rw [← real_inner_self_eq_norm_sq]
    simp only [inner_sub_left, inner_sub_right, real_inner_comm]
    ring
  linarith

theorem C07.indicator_prox_fixes_feasible (C : Set E) (σ : ℝ) (x p : E)
    (h : ProxVI C (fun _ => 0) σ x p) (hx : x ∈ C) : p = x := by
  have h1 := h.2 x hx
  simp only [mul_zero, zero_add] at h1
  rw [real_inner_self_eq_norm_sq] at h1
  have : ‖x - p‖ = 0 := by nlinarith [norm_nonneg (x - p)]
  exact (sub_eq_zero.mp (norm_eq_zero.mp this)).symm

theorem C07.indicator_prox_idempotent (C : Set E) (σ : ℝ) (P : E → E)
    (h : IsProx C (fun _ => 0) σ P) (x : E) : P x ∈ C ∧ P (P x) = P x :=
  ⟨(h x).1, C07.indicator_prox_fixes_feasible C σ (P x) (P (P x)) (h (P x)) (h x).1⟩

theorem C07.prox_translation (C : Set E) (f : E → ℝ) (P : ℝ → E → E) (y : E) (σ : ℝ)
    (hP : IsProx C f σ (P σ)) :
    IsProx {z | z - y ∈ C} (fun z => f (z - y)) σ (proxTranslation P y σ) := by
  intro x
  obtain ⟨h1, h2⟩ := hP (x - y)
  refine ⟨by simpa [proxTranslation] using h1, fun z hz => ?_⟩
  have := h2 (z - y) hz
  simp only [proxTranslation, add_sub_cancel_left]
  have e1 : x - (y + P σ (x - y)) = x - y - P σ (x - y) := by abel
  have e2 : z - (y + P σ (x - y)) = z - y - P σ (x - y) := by abel
  rw [e1, e2]; exact this

theorem C07.prox_arg_scaling (C : Set E) (f : E → ℝ) (P : ℝ → E → E) (s σ : ℝ) (hs : s ≠ 0)
    (hP : IsProx C f (σ * (s * s)) (P (σ * (s * s)))) :
    IsProx {z | s • z ∈ C} (fun z => f (s • z)) σ (proxArgScaling P s σ) := by
  intro x
  obtain ⟨h1, h2⟩ := hP (s • x)
  set q := P (σ * (s * s)) (s • x) with hq
  have hsp : s • proxArgScaling P s σ x = q := by
    simp only [proxArgScaling, smul_smul]
    rw [mul_one_div_cancel hs, one_smul]
  refine ⟨by simpa [hsp] using h1, fun z hz => ?_⟩
  have h3 := h2 (s • z) hz
  simp only [hsp]
  have e : inner ℝ (s • x - q) (s • z - q)
      = (s * s) * inner ℝ (x - proxArgScaling P s σ x) (z - proxArgScaling P s σ x) := by
    rw [← hsp, ← smul_sub, ← smul_sub, inner_smul_left, inner_smul_right]
    simp; ring
  rw [e] at h3
  have hss : 0 < s * s := mul_self_pos.mpr hs
  have : (s * s) * (σ * f q + inner ℝ (x - proxArgScaling P s σ x) (z - proxArgScaling P s σ x))
      ≤ (s * s) * (σ * f (s • z)) := by nlinarith
  exact le_of_mul_le_mul_left this hss

theorem C07.prox_left_scaling (C : Set E) (f : E → ℝ) (P : ℝ → E → E) (c σ : ℝ)
    (hP : IsProx C f (σ * c) (P (σ * c))) :
    IsProx C (fun z => c * f z) σ (proxLeftScale P c σ) := by
  intro x
  obtain ⟨h1, h2⟩ := hP x
  refine ⟨h1, fun z hz => ?_⟩
  have := h2 z hz
  simp only [proxLeftScale]
  nlinarith

theorem C07.prox_quadratic_perturbation (C : Set E) (f : E → ℝ) (P : ℝ → E → E)
    (rsqrt : ℝ → ℝ) (a σ : ℝ) (u : E) (ha : 0 ≤ a) (hσ : 0 < σ)
    (hr : 0 < rsqrt (σ * (1 + 1) * a + 1) ∧
      rsqrt (σ * (1 + 1) * a + 1) * rsqrt (σ * (1 + 1) * a + 1) * (σ * (1 + 1) * a + 1) = 1)
    (hP : ∀ s, 0 < s → IsProx C f s (P s)) :
    IsProx C (fun z => f z + a * ‖z‖ ^ 2 + inner ℝ z u) σ
      (proxQuadPerturb rsqrt P a (some u) σ) := by
  intro x
  set c := rsqrt (σ * (1 + 1) * a + 1) with hc
  obtain ⟨hc0, hc1⟩ := hr
  have hcc : 0 < c * c := mul_pos hc0 hc0
  have hcne : c ≠ 0 := ne_of_gt hc0
  obtain ⟨h1, h2⟩ := hP (σ * (c * c)) (mul_pos hσ hcc) (c • (c • x - (σ * c) • u))
  set q := P (σ * (c * c)) (c • (c • x - (σ * c) • u)) with hq
  have hres : proxQuadPerturb rsqrt P a (some u) σ x = q := by
    simp only [proxQuadPerturb, proxArgScaling, ← hc, smul_smul]
    rw [mul_one_div_cancel hcne, one_smul]
  rw [hres]
  refine ⟨h1, fun z hz => ?_⟩
  have h3 := h2 z hz
  have e : inner ℝ (c • (c • x - (σ * c) • u) - q) (z - q)
      = (c * c) * (inner ℝ x (z - q) - σ * inner ℝ u (z - q)) - inner ℝ q (z - q) := by
    simp only [inner_sub_left, inner_smul_left, smul_sub, smul_smul]
    simp; ring
  rw [e] at h3
  have hn : ‖z‖ ^ 2 = ‖q‖ ^ 2 + 2 * inner ℝ q (z - q) + ‖z - q‖ ^ 2 := by
    have : z = q + (z - q) := by abel
    conv_lhs => rw [this]
    rw [norm_add_sq_real]
  have hnn : 0 ≤ ‖z - q‖ ^ 2 := sq_nonneg _
  have e2 : inner ℝ (x - q) (z - q) = inner ℝ x (z - q) - inner ℝ q (z - q) := inner_sub_left _ _ _
  have e3 : inner ℝ z u - inner ℝ q u = inner ℝ u (z - q) := by
    rw [inner_sub_right, real_inner_comm u z, real_inner_comm u q]
  -- divide the inner inequality by c*c
  have key : σ * f q + (inner ℝ x (z - q) - σ * inner ℝ u (z - q))
      - (σ * (1 + 1) * a + 1) * inner ℝ q (z - q) ≤ σ * f z := by
    have h4 : (c * c) * (σ * f q + (inner ℝ x (z - q) - σ * inner ℝ u (z - q))
        - (σ * (1 + 1) * a + 1) * inner ℝ q (z - q)) ≤ (c * c) * (σ * f z) := by
      have : c * c * ((σ * (1 + 1) * a + 1) * inner ℝ q (z - q)) = inner ℝ q (z - q) := by
        rw [← mul_assoc, hc1, one_mul]
      nlinarith
    exact le_of_mul_le_mul_left h4 hcc
  have : 0 ≤ σ * a * ‖z - q‖ ^ 2 := by positivity
  have e3' : σ * inner ℝ z u - σ * inner ℝ q u = σ * inner ℝ u (z - q) := by
    rw [← e3]; ring
  show σ * (f q + a * ‖q‖ ^ 2 + inner ℝ q u) + inner ℝ (x - q) (z - q)
      ≤ σ * (f z + a * ‖z‖ ^ 2 + inner ℝ z u)
  rw [hn, e2]
  linarith

theorem C07.prox_moreau (C : Set E) (f : E → ℝ) (D : Set E) (fs : E → ℝ) (P : ℝ → E → E)
    (σ : ℝ) (hσ : 0 < σ) (hconj : IsConjPair C f D fs)
    (hP : IsProx C f (1 / σ) (P (1 / σ))) :
    IsProx D fs σ (proxConvexConj P σ) := by
  intro x
  obtain ⟨h1, h2⟩ := hP ((1 / σ) • x)
  set p := P (1 / σ) ((1 / σ) • x) with hp
  have hq : proxConvexConj P σ x = x - σ • p := rfl
  rw [hq]
  -- g := x - σ p is a subgradient of f at p
  have hsub : ∀ z ∈ C, f p + inner ℝ (x - σ • p) (z - p) ≤ f z := by
    intro z hz
    have h3 := h2 z hz
    have e : inner ℝ ((1 / σ) • x - p) (z - p) = (1 / σ) * inner ℝ (x - σ • p) (z - p) := by
      have : (1 / σ) • x - p = (1 / σ) • (x - σ • p) := by
        simp [smul_sub, smul_smul, ne_of_gt hσ]
      rw [this, real_inner_smul_left]
    rw [e] at h3
    have : (1 / σ) * (f p + inner ℝ (x - σ • p) (z - p)) ≤ (1 / σ) * f z := by linarith
    exact le_of_mul_le_mul_left this (by positivity)
  obtain ⟨hgD, hfy⟩ := hconj.2 p h1 (x - σ • p) hsub
  refine ⟨hgD, fun y hy => ?_⟩
  have hy' := hconj.1 p h1 y hy
  have e1 : x - (x - σ • p) = σ • p := by abel
  rw [e1, inner_smul_left]
  simp only [conj_trivial]
  have e2 : inner ℝ p (y - (x - σ • p)) = inner ℝ p y - inner ℝ p (x - σ • p) := inner_sub_right _ _ _
  rw [e2]
  have : σ * (f p + fs (x - σ • p)) = σ * inner ℝ p (x - σ • p) := by rw [hfy]
  nlinarith

/-- `ProximalL2._call` with `eps = 0` is the proximal of `λ‖· − g‖`. -/
theorem C07.l2_prox (lam σ : ℝ) (g : E) (hl : 0 ≤ lam) (hσ : 0 < σ) :
    IsProx Set.univ (fun z => lam * ‖z - g‖) σ
      (proxL2 (fun v : E => ‖v‖) 0 lam (some g) σ) := by
  intro x
  refine ⟨trivial, fun z _ => ?_⟩
  simp only [proxL2, add_zero, mul_one]
  have cs : inner ℝ (x - g) (z - g) ≤ ‖x - g‖ * ‖z - g‖ := real_inner_le_norm _ _
  have hz0 : 0 ≤ ‖z - g‖ := norm_nonneg _
  split_ifs with h0 h1
  · -- shrink
    set t := ‖x - g‖ with ht
    set st := σ * lam / t with hst
    have hstt : st * t = σ * lam := by rw [hst]; field_simp
    have hst0 : 0 ≤ st := by rw [hst]; positivity
    have e1 : (1 - st) • x + st • g - g = (1 - st) • (x - g) := by
      simp only [smul_sub, sub_smul, one_smul]; abel
    have e2 : x - ((1 - st) • x + st • g) = st • (x - g) := by
      simp only [smul_sub, sub_smul, one_smul]; abel
    have e3 : z - ((1 - st) • x + st • g) = (z - g) - (1 - st) • (x - g) := by
      simp only [smul_sub, sub_smul, one_smul]; abel
    rw [e1, e2, e3, norm_smul, inner_smul_left, inner_sub_right, inner_smul_right,
      real_inner_self_eq_norm_sq, ← ht]
    simp only [conj_trivial, Real.norm_eq_abs]
    rw [abs_of_nonneg (by linarith : 0 ≤ 1 - st)]
    have h5 : st * inner ℝ (x - g) (z - g) ≤ σ * lam * ‖z - g‖ := by
      calc st * inner ℝ (x - g) (z - g) ≤ st * (t * ‖z - g‖) :=
            mul_le_mul_of_nonneg_left cs hst0
        _ = (st * t) * ‖z - g‖ := by ring
        _ = σ * lam * ‖z - g‖ := by rw [hstt]
    have h6 : st * ((1 - st) * t ^ 2) = σ * lam * ((1 - st) * t) := by
      rw [← hstt]; ring
    nlinarith
  · -- step ≥ 1: the result is g
    have ht : 0 < ‖x - g‖ := h0
    have h2 : ‖x - g‖ ≤ σ * lam := by
      have := not_lt.mp h1
      rwa [le_div_iff₀ ht, one_mul] at this
    simp only [sub_self, norm_zero, mul_zero, zero_add]
    calc inner ℝ (x - g) (z - g) ≤ ‖x - g‖ * ‖z - g‖ := cs
      _ ≤ σ * lam * ‖z - g‖ := by gcongr
      _ = σ * (lam * ‖z - g‖) := by ring
  · -- x = g
    have : ‖x - g‖ = 0 := le_antisymm (not_lt.mp h0) (norm_nonneg _)
    have hx : x - g = 0 := norm_eq_zero.mp this
    simp only [sub_self, norm_zero, mul_zero, zero_add, hx, inner_zero_left]
    positivity

theorem C07.l2_conj_pair (lam : ℝ) (hl : 0 ≤ lam) :
    IsConjPair (Set.univ : Set E) (fun z => lam * ‖z‖) {y | ‖y‖ ≤ lam} (fun _ => 0) := by
  constructor
  · intro z _ y hy
    have hy' : ‖y‖ ≤ lam := hy
    calc inner ℝ z y ≤ ‖z‖ * ‖y‖ := real_inner_le_norm _ _
      _ ≤ ‖z‖ * lam := by gcongr
      _ = lam * ‖z‖ + 0 := by ring
  · intro p _ g hg
    have h0 := hg 0 trivial
    have h2 := hg ((2 : ℝ) • p) trivial
    have hpg := hg (p + g) trivial
    beta_reduce at h0 h2 hpg ⊢
    simp only [zero_sub, inner_neg_right, norm_zero, mul_zero] at h0
    have e2 : (2 : ℝ) • p - p = p := by rw [two_smul]; abel
    rw [e2, norm_smul] at h2
    simp only [Real.norm_eq_abs, abs_two] at h2
    have e3 : p + g - p = g := by abel
    rw [e3, real_inner_self_eq_norm_sq] at hpg
    have tri : ‖p + g‖ ≤ ‖p‖ + ‖g‖ := norm_add_le _ _
    have hgn : 0 ≤ ‖g‖ := norm_nonneg _
    refine ⟨?_, ?_⟩
    · show ‖g‖ ≤ lam
      by_contra hc
      have hc' : lam < ‖g‖ := not_le.mp hc
      have : lam * ‖p + g‖ ≤ lam * (‖p‖ + ‖g‖) := by gcongr
      nlinarith
    · rw [real_inner_comm] at h0 h2; linarith

end Abstract
