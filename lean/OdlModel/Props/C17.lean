/-
C17 — NumPy ufuncs on space elements behave like NumPy on the underlying arrays.

The property is glue around NumPy.  The theorems are about the DECISION MODEL of that glue
(`Model/Ufunc.lean`: `tensorDispatch`, `discrDispatch`, `powerDispatch`, `powerLegacy`,
`element`, `legacyCall`, `DType.canCast`, `npReduce`).  They quantify over every method, every
`out` tuple, every NumPy result (shapes as lists of `Nat`, the 17 dtypes of `DType`) and, for
spaces, over what the model can express: constant / array (of any of the 17 dtypes) / custom
weightings, exponents, and partitions given per axis by `(lo, hi, n, cell side | grid points)`.
NumPy's own result is a parameter (`NpRes`).

NOT theorems (established by the oracle on the enumerated zoo only): that the numbers in the
wrapped result, or written into a given `out`, equal NumPy's numbers; that operands are left
untouched — EXCEPT for the legacy interface of product spaces (ROUND 4, last section: value and
buffer model `Model/UfuncValue.lean` of `ProductSpaceUfuncs`, NumPy's scalar arithmetic a
parameter).  `C17.ufunc_out_identity_*` prove that the returned OBJECT is the given one, not
what it holds.

Not modelled at all: `Tensor.__array_ufunc__` of `base_tensors.py` (unreachable through the
two shipped subclasses, which override it), a discretized and a tensor element mixed in one
call, `where=`/`order=`/`casting=`, gufuncs.

The legacy tables and NumPy's `can_cast` table (`Gen/UfuncLegacy.lean`) are GENERATED from
`odl/util/ufuncs.py` and the live NumPy on every run.
-/
import OdlModel.Model.Ufunc
import OdlModel.Gen.UfuncLegacy
import OdlModel.Lemmas.UfuncValue

namespace OdlModel.C17
open OdlModel.Ufunc

/-- The weighting the code gives to a freshly wrapped tensor result (specification):
non-floating → default; two-output `__call__` → default (documented: no rule to map it);
otherwise propagated iff the shape is the element's shape, constant 1 with the same exponent
if the shape changed (reductions, outer products, broadcasting against a larger operand). -/
def expectedWeighting (s : TSelf) (m : Method) (nout : Nat) (sh : List Nat) (dt : DType) :
    Weighting :=
  if !dt.isFloating then Weighting.default
  else if m = .call ∧ nout ≠ 1 then Weighting.default
  else if sh = s.shape then s.w else .const 1 s.w.exp

/-- A request is *regular* for the tensor glue: well-formed `out` tuple of accepted kinds,
NumPy returns arrays of a numeric dtype (one per output), and — the recorded defect C17-F4 —
if the weighting is a weight ARRAY, its dtype can be cast safely to the (floating) result
dtype.  Constant and custom weightings are always regular. -/
def RegularT (s : TSelf) (m : Method) (nout : Nat) (outs : List OutKind) (vals : List NpVal) :
    Prop :=
  arityOk m nout outs.length = true ∧ outs.all validOutT = true ∧
  (m = .call → (nout = 1 ∨ nout = 2) ∧ vals.length = nout) ∧ (m ≠ .call → vals.length = 1) ∧
  (∀ v ∈ vals, ∃ sh dt, v = .arr sh dt ∧ dt.isNumeric = true ∧
      (dt.isFloating = true → ∀ wdt e, s.w = .array wdt e → wdt.canCast dt = true))

end OdlModel.C17

open OdlModel.Ufunc OdlModel.C17 OdlModel.Gen.UfuncLegacy

/-- closing tactic for the case analyses below -/
macro "c17_fin" : tactic =>
  `(tactic| first | done | (simp_all; done) | grind | (simp_all <;> grind) | (subst_vars; simp_all; done))

/-! ## `out` arity -/

/-- `ufunc_out_arity` (tensor): an `out` tuple whose length is neither 0 nor the number of
outputs (`nout` for `__call__`, 1 for every other method) is rejected with `ValueError`,
whatever else is passed. -/
theorem C17.ufunc_out_arity_tensor (s : TSelf) (m : Method) (nout : Nat) (outs : List OutKind)
    (np : NpRes) (h : arityOk m nout outs.length = false) :
    tensorDispatch s m nout outs np = .err "ValueError" := by
  simp [tensorDispatch, h]

/-- `ufunc_out_arity` (discretized): same rejection rule, before anything else is looked at. -/
theorem C17.ufunc_out_arity_discr (s : DSelf) (m : Method) (nout : Nat) (outs : List OutKind)
    (ins : List InKind) (ps : List DSelf) (ax : Axis) (kd : Bool) (np : NpRes)
    (h : arityOk m nout outs.length = false) :
    discrDispatch s m nout outs ins ps ax kd np = .err "ValueError" := by
  simp [discrDispatch, h]

/-- The arity rule in closed form: exactly the lengths `0` and `nout` (resp. `1`) pass. -/
theorem C17.arity_rule (m : Method) (nout n : Nat) :
    arityOk m nout n = true ↔ (n = 0 ∨ (m = .call ∧ n = nout) ∨ (m ≠ .call ∧ n = 1)) := by
  unfold arityOk
  cases m <;> simp

example : arityOk .call 1 2 = false ∧ arityOk .reduce 1 2 = false ∧ arityOk .call 2 1 = false ∧
    arityOk .call 2 2 = true ∧ arityOk .at 1 1 = true := by decide +kernel

/-- A foreign `out` entry (anything but `None`, an own tensor, an `ndarray`) makes the tensor
glue return `NotImplemented` — for every well-formed tuple. -/
theorem C17.foreign_out_notimplemented (s : TSelf) (m : Method) (nout : Nat)
    (outs : List OutKind) (np : NpRes) (ha : arityOk m nout outs.length = true)
    (hf : ∃ o ∈ outs, validOutT o = false) :
    tensorDispatch s m nout outs np = .notImpl := by
  obtain ⟨o, ho, hv⟩ := hf
  have : outs.all validOutT = false := by
    rw [List.all_eq_false]; exact ⟨o, ho, by simp [hv]⟩
  simp [tensorDispatch, ha, this]

/-! ## Identity of `out` -/

/-- `ufunc_out_identity` (tensor): whenever the call succeeds, for every position `i` at which
an `out` object was given (and NumPy, as always with `out`, returned an array there), the
object returned at position `i` IS the given one. All methods, one or two outputs, any tuple. -/
theorem C17.ufunc_out_identity_tensor (s : TSelf) (m : Method) (nout : Nat)
    (outs : List OutKind) (vals : List NpVal) (rets : List Ret)
    (h : tensorDispatch s m nout outs (.ok vals) = .ok rets)
    (i : Nat) (o : OutKind) (hi : outs[i]? = some o) (hg : o.given = true)
    (sh : List Nat) (dt : DType) (hv : vals[i]? = some (.arr sh dt)) :
    rets[i]? = some (.given i) := by
  unfold tensorDispatch at h
  rcases outs with _ | ⟨o1, _ | ⟨o2, _ | ⟨o3, t⟩⟩⟩
  · simp at hi
  · cases i with
    | zero =>
      simp at hi; subst hi
      cases m <;> simp_all [arityOk, out1, out2] <;>
        (repeat' split at h) <;> simp_all <;> grind
    | succ j => simp at hi
  · cases m <;> simp_all [arityOk, out1, out2]
    rcases i with _ | _ | j
    · simp at hi; subst hi
      (repeat' split at h) <;> simp_all <;> grind
    · simp at hi; subst hi
      (repeat' split at h) <;> simp_all <;> grind
    · simp at hi
  · cases m <;> simp_all [arityOk, out1, out2] <;>
      (repeat' split at h) <;> simp_all <;> omega

example : tensorDispatch ⟨[2, 3], .const 2 (some 2)⟩ .call 2 [.own, .none]
    (.ok [.arr [2, 3] .float64, .arr [2, 3] .int32]) =
    .ok [.given 0, .wrapT [2, 3] .int32 Weighting.default] := by decide +kernel

/-- With an array coming back from NumPy at position 0, the tensor glue never takes the
scalar / `None` short-cut. -/
theorem C17.tensor_array_not_shortcut (s : TSelf) (m : Method) (nout : Nat)
    (outs : List OutKind) (vals : List NpVal) (l : List Ret)
    (h : tensorDispatch s m nout outs (.ok vals) = .ok l)
    (sh : List Nat) (dt : DType) (hv : vals[0]? = some (.arr sh dt)) :
    l ≠ [.scalar] ∧ l ≠ [.none] := by
  unfold tensorDispatch at h
  rcases vals with _ | ⟨v, vt⟩
  · simp at hv
  · simp at hv; subst hv
    cases m <;> (repeat' split at h) <;>
      simp_all [out1, out2, wrapCall, wrapMethod] <;>
      (repeat' split at h) <;> c17_fin

/-- `ufunc_out_identity` (discretized): the element returns `out_tuple[i]` itself (not its
`.tensor`), for an own element, a tensor or an `ndarray` given at position `i`. -/
theorem C17.ufunc_out_identity_discr (s : DSelf) (m : Method) (nout : Nat)
    (outs : List OutKind) (ins : List InKind) (ps : List DSelf) (ax : Axis) (kd : Bool)
    (vals : List NpVal) (rets : List Ret)
    (h : discrDispatch s m nout outs ins ps ax kd (.ok vals) = .ok rets)
    (i : Nat) (o : OutKind) (hi : outs[i]? = some o) (hg : o.given = true)
    (sh : List Nat) (dt : DType) (hv : vals[i]? = some (.arr sh dt)) :
    rets[i]? = some (.given i) := by
  unfold discrDispatch at h
  rcases outs with _ | ⟨o1, _ | ⟨o2, _ | ⟨o3, t⟩⟩⟩
  · simp at hi
  · cases i with
    | zero =>
      simp at hi; subst hi
      have key := fun touts l hl =>
        C17.tensor_array_not_shortcut s.toT m nout touts vals l hl sh dt hv
      cases m <;> simp_all [arityOk, out1, out2, bindOutcome] <;>
        (repeat' split at h) <;> c17_fin
    | succ j => simp at hi
  · cases m <;> simp_all [arityOk, out1, out2, bindOutcome]
    rcases i with _ | _ | j
    · simp at hi; subst hi
      (repeat' split at h) <;> c17_fin
    · simp at hi; subst hi
      (repeat' split at h) <;> c17_fin
    · simp at hi
  · cases m <;> simp_all [arityOk, out1, out2, bindOutcome] <;>
      (repeat' split at h) <;> (try simp_all) <;> omega

example : discrDispatch ⟨[⟨0, 1, 2, .uniform (1/2)⟩, ⟨0, 3, 3, .uniform 1⟩], .float64,
      .array .float64 (some 2)⟩ .accumulate 1 [.tensor]
    [.own] [] (.ints [1]) false (.ok [.arr [2, 3] .float64]) = .ok [.given 0] := by decide +kernel

/-! ## Result space -/

theorem C17.padShape_self (l : List Nat) : padShape l.length l = l := by
  simp [padShape]

set_option maxHeartbeats 1000000 in
/-- `ufunc_result_space` (tensor): if the call succeeds and no `out` was given at position `i`
where NumPy returned an array of shape `sh` and dtype `dt`, then the returned object is a
tensor-space element (`wrapT`: a space of the same kind) with EXACTLY NumPy's shape and
dtype, and with the weighting `expectedWeighting` (propagated iff floating and unchanged
shape, constant 1 with the same exponent if the shape changed, default if non-floating or
for two-output ufuncs).  All methods, any `out` tuple, any shapes, dtypes, weighting. -/
theorem C17.ufunc_result_space_tensor (s : TSelf) (m : Method) (nout : Nat)
    (outs : List OutKind) (vals : List NpVal) (rets : List Ret)
    (h : tensorDispatch s m nout outs (.ok vals) = .ok rets)
    (i : Nat) (hi : (outs.getD i .none).given = false)
    (sh : List Nat) (dt : DType) (hv : vals[i]? = some (.arr sh dt)) :
    rets[i]? = some (.wrapT sh dt (expectedWeighting s m nout sh dt)) := by
  unfold tensorDispatch at h
  rcases vals with _ | ⟨v1, _ | ⟨v2, _ | ⟨v3, vt⟩⟩⟩
  · simp at hv
  · rcases i with _ | j
    · simp at hv; subst hv
      cases m <;> (repeat' split at h) <;>
        simp_all [out1, out2, wrapCall, wrapMethod, ctorT, expectedWeighting] <;>
        (repeat' split at h) <;> c17_fin
    · simp at hv
  · -- two values: only `__call__` with two outputs gets past the `match`
    have hm : m = .call ∧ nout = 2 := by
      cases m <;> (repeat' split at h) <;> simp_all
    obtain ⟨rfl, rfl⟩ := hm
    simp only [reduceIte] at h
    rcases i with _ | _ | j
    · simp at hv; subst hv
      (repeat' split at h) <;>
        simp_all [out1, out2, wrapCall, ctorT, expectedWeighting] <;>
        (repeat' split at h) <;> c17_fin
    · simp at hv; subst hv
      (repeat' split at h) <;>
        simp_all [out1, out2, wrapCall, ctorT, expectedWeighting] <;>
        (repeat' split at h) <;> c17_fin
    · simp at hv
  · cases m <;> (repeat' split at h) <;> simp_all

/-! ## Broadcasting, 0-d `out`, and the open defect C17-F4 on the model -/

/-- `np.add(x, y)` with `x` in a weighted `rn(3)` (exponent 1) and `y` of shape `(2, 3)` is
wrapped in a space of NumPy's shape `(2, 3)`, unweighted with the same exponent — exactly as
`outer` does (C17-F1, repaired in /repo fd350b6). -/
theorem C17.call_broadcast_larger :
    tensorDispatch ⟨[3], .const 2 (some 1)⟩ .call 1 [] (.ok [.arr [2, 3] .float64]) =
      .ok [.wrapT [2, 3] .float64 (.const 1 (some 1))] ∧
    tensorDispatch ⟨[3], .const 2 (some 1)⟩ .outer 1 [] (.ok [.arr [2, 3] .float64]) =
      .ok [.wrapT [2, 3] .float64 (.const 1 (some 1))] := by
  decide +kernel

/-- Finding C17-F4 (open) on the model: a weight array whose dtype cannot be cast SAFELY to
the floating result dtype makes the space constructor raise whenever the shape is unchanged
(so that the weighting is propagated), for every shape and exponent (`float64` weights / `float32` result is the instance seen in practice). -/
theorem C17.array_weighting_narrow_dtype_fails (sh : List Nat) (e : Exponent)
    (wdt dt : DType) (hf : dt.isFloating = true) (hc : wdt.canCast dt = false) :
    tensorDispatch ⟨sh, .array wdt e⟩ .call 1 [] (.ok [.arr sh dt]) = .err "ValueError" ∧
    tensorDispatch ⟨sh, .array wdt e⟩ .accumulate 1 [] (.ok [.arr sh dt]) =
      .err "ValueError" := by
  have hn : dt.isNumeric = true := by
    cases dt <;> simp_all [DType.isFloating, DType.isNumeric]
  have ha : dt.available = true := by cases dt <;> simp_all [DType.isFloating, DType.available]
  constructor
  · simp [tensorDispatch, arityOk, OutKind.given, out1, wrapCall, ctorT, hf, hn, ha, hc]
  · simp [tensorDispatch, arityOk, OutKind.given, out1, wrapMethod, ctorT, hf, hn, ha, hc]

example : DType.float64.canCast .float32 = false ∧ DType.float32.isFloating = true ∧
    DType.int8.canCast .float16 = true := by decide +kernel

/-- A 0-d `ndarray` given as `out` of a full reduction is returned like any other array
(C17-F5, repaired in /repo 6f35866). -/
theorem C17.zero_dim_out (s : TSelf) (dt : DType) :
    tensorDispatch s .reduce 1 [.ndarray0] (.ok [.arr [] dt]) = .ok [.given 0] := by
  simp [tensorDispatch, arityOk, validOutT, OutKind.given]

/-! ## Totality on regular requests -/

/-- numeric dtypes are supported by the space constructor -/
theorem C17.numeric_available (dt : DType) (h : dt.isNumeric = true) : dt.available = true := by
  cases dt <;> simp_all [DType.isNumeric, DType.available]

/-- The space constructor accepts every numeric dtype unless a weight array cannot be cast
safely to it. -/
theorem C17.ctorT_ok (dt : DType) (w : Option Weighting) (hn : dt.isNumeric = true)
    (hw : ∀ wdt e, w = some (.array wdt e) → wdt.canCast dt = true) :
    ∃ w', ctorT dt w = .ok w' := by
  unfold ctorT
  rcases w with _ | (⟨c, e⟩ | ⟨wdt, e⟩ | e)
  · simp [C17.numeric_available dt hn]
  · simp [hn, C17.numeric_available dt hn]
  · simp [hn, C17.numeric_available dt hn, hw wdt e rfl]
  · simp [hn, C17.numeric_available dt hn]

/-- `__call__` wrapping succeeds for any result shape. -/
theorem C17.wrapCall_ok (s : TSelf) (p : Bool) (sh : List Nat) (dt : DType)
    (hn : dt.isNumeric = true)
    (hw : dt.isFloating = true → ∀ wdt e, s.w = .array wdt e → wdt.canCast dt = true) :
    ∃ r, wrapCall s p (.arr sh dt) = .ok r := by
  unfold wrapCall
  obtain ⟨w', hw'⟩ := C17.ctorT_ok dt (if (p && dt.isFloating) = true then
      (if sh ≠ s.shape then some (.const 1 s.w.exp) else some s.w) else none) hn (by
    intro wdt e he
    split at he
    · rename_i hc
      simp at hc
      split at he
      · simp at he
      · exact hw hc.2 wdt e (by simpa using he)
    · simp at he)
  dsimp only at hw' ⊢
  rw [hw']
  simp

/-- Wrapping for the other methods succeeds for any result shape. -/
theorem C17.wrapMethod_ok (s : TSelf) (sh : List Nat) (dt : DType)
    (hn : dt.isNumeric = true)
    (hw : dt.isFloating = true → ∀ wdt e, s.w = .array wdt e → wdt.canCast dt = true) :
    ∃ r, wrapMethod s sh dt = .ok r := by
  unfold wrapMethod
  obtain ⟨w', hw'⟩ := C17.ctorT_ok dt (if dt.isFloating = true then
      (if sh ≠ s.shape then some (.const 1 s.w.exp) else some s.w) else none) hn (by
    intro wdt e he
    split at he
    · rename_i hc
      split at he
      · simp at he
      · exact hw hc wdt e (by simpa using he)
    · simp at he)
  dsimp only at hw' ⊢
  rw [hw']
  simp

/- FULL statement wanted by the property: for every well-formed call on which NumPy succeeds
   (returning numeric arrays), the TENSOR glue succeeds and returns one object per output.
   The remaining gap for tensors is C17-F4 (`array_weighting_narrow_dtype_fails`); `RegularT`
   excludes exactly that.  NOTHING of this kind is claimed for discretized or product-space
   elements: there the glue also fails for a larger broadcast result (C17-F10), for reductions
   of array-weighted spaces (C17-F11) and on product spaces (C17-F6a–e); see
   `discr_recorded_failures` and `power_limits`. -/

/-- `ufunc_result_total_partial` (tensor): on every regular request (all methods, one or two
outputs, any accepted `out` tuple incl. 0-d arrays, any result shapes incl. broadcasting to a
larger shape, any dtypes) the glue does not raise and returns exactly one object per NumPy
output.  Together with `ufunc_result_space_tensor` and `ufunc_out_identity_tensor` this pins
each returned object down completely. -/
theorem C17.ufunc_result_total_partial (s : TSelf) (m : Method) (nout : Nat)
    (outs : List OutKind) (vals : List NpVal) (h : RegularT s m nout outs vals) :
    ∃ rets, tensorDispatch s m nout outs (.ok vals) = .ok rets ∧ rets.length = vals.length := by
  obtain ⟨ha, hv, hc, hm, hvals⟩ := h
  unfold tensorDispatch
  simp only [ha, hv, Bool.not_true, Bool.false_eq_true, if_false]
  by_cases hcall : m = .call
  · subst hcall
    obtain ⟨hn, hl⟩ := hc rfl
    rcases hn with rfl | rfl
    · rcases vals with _ | ⟨v, _ | _⟩ <;> simp at hl
      obtain ⟨sh, dt, rfl, hnum, hw⟩ := hvals v (by simp)
      obtain ⟨r, hr⟩ := C17.wrapCall_ok s true sh dt hnum hw
      simp only [out1, hr, reduceIte]
      split <;> simp
    · rcases vals with _ | ⟨v1, _ | ⟨v2, _ | _⟩⟩ <;> simp at hl
      obtain ⟨sh1, dt1, rfl, hnum1, hw1⟩ := hvals v1 (by simp)
      obtain ⟨sh2, dt2, rfl, hnum2, hw2⟩ := hvals v2 (by simp)
      obtain ⟨r1, hr1⟩ := C17.wrapCall_ok s false sh1 dt1 hnum1 hw1
      obtain ⟨r2, hr2⟩ := C17.wrapCall_ok s false sh2 dt2 hnum2 hw2
      cases hg1 : (outs.getD 0 .none).given <;> cases hg2 : (outs.getD 1 .none).given <;>
        simp [out2, hr1, hr2]
  · have hl := hm hcall
    rcases vals with _ | ⟨v, _ | _⟩ <;> simp at hl
    obtain ⟨sh, dt, rfl, hnum, hw⟩ := hvals v (by simp)
    obtain ⟨r, hr⟩ := C17.wrapMethod_ok s sh dt hnum hw
    cases m <;> simp_all [out1] <;> split <;> simp

/-- The FULL statement for constant weightings (every space ODL builds by default, every
`uniform_discr` tensor space, every `weighting=<float>` space): no exclusion left. -/
theorem C17.ufunc_result_total_const (shape : List Nat) (c : Rat) (e : Exponent) (m : Method)
    (nout : Nat) (outs : List OutKind) (vals : List NpVal)
    (ha : arityOk m nout outs.length = true) (hv : outs.all validOutT = true)
    (hc : m = .call → (nout = 1 ∨ nout = 2) ∧ vals.length = nout)
    (hm : m ≠ .call → vals.length = 1)
    (hvals : ∀ v ∈ vals, ∃ sh dt, v = .arr sh dt ∧ dt.isNumeric = true) :
    ∃ rets, tensorDispatch ⟨shape, .const c e⟩ m nout outs (.ok vals) = .ok rets ∧
      rets.length = vals.length :=
  C17.ufunc_result_total_partial _ m nout outs vals ⟨ha, hv, hc, hm, fun v hvm => by
    obtain ⟨sh, dt, h1, h2⟩ := hvals v hvm
    exact ⟨sh, dt, h1, h2, fun _ wdt e' h => by simp at h⟩⟩

example : RegularT ⟨[2, 3], .array .int8 (some 2)⟩ .reduce 1 [.ndarray0]
    [.arr [] .float16] := by
  refine ⟨by decide, by decide, by decide, by decide, ?_⟩
  intro v hv
  simp at hv
  refine ⟨[], .float16, hv, by decide, fun _ wdt e h => ?_⟩
  simp at h
  obtain ⟨rfl, -⟩ := h
  decide

/-! ## Discretized elements: `reduce`, `outer` -/

/-- Methods other than `__call__`, no `out`: the result is `wrapMethod`. -/
theorem C17.tensor_method_noout (s : TSelf) (m : Method) (hm : m ≠ .call) (sh : List Nat) (dt : DType) :
    tensorDispatch s m 1 [] (.ok [.arr sh dt]) = out1 (wrapMethod s sh dt) := by
  unfold tensorDispatch
  cases m <;> simp_all [arityOk, OutKind.given]

/-- Same with the explicit `out=(None,)` the discretized glue forwards. -/
theorem C17.tensor_method_none (s : TSelf) (m : Method) (hm : m ≠ .call) (sh : List Nat) (dt : DType) :
    tensorDispatch s m 1 [.none] (.ok [.arr sh dt]) = out1 (wrapMethod s sh dt) := by
  unfold tensorDispatch
  cases m <;> simp_all [arityOk, OutKind.given, validOutT]

/-- A floating dtype is numeric. -/
theorem C17.floating_numeric (dt : DType) (h : dt.isFloating = true) : dt.isNumeric = true := by
  cases dt <;> simp_all [DType.isFloating, DType.isNumeric]

/-- `wrapMethod` for a constant weighting never fails, whatever the dtype. -/
theorem C17.wrapMethod_const (sh shp : List Nat) (c : Rat) (e : Exponent) (dt : DType)
    (hav : dt.available = true) :
    wrapMethod ⟨shp, .const c e⟩ sh dt = .ok (.wrapT sh dt
      (if dt.isFloating then (if sh ≠ shp then .const 1 e else .const c e) else Weighting.default)) := by
  unfold wrapMethod ctorT
  cases hd : dt.isFloating <;> by_cases hs : sh = shp <;>
    simp [hs, Weighting.exp, C17.floating_numeric, hd, hav]

/-- `reduce` on a discretized element delegates to the tensor and re-wraps by `reduceWrap`. -/
theorem C17.discr_reduce_unfold (s : DSelf) (ins : List InKind) (ps : List DSelf) (ax : Axis)
    (dt : DType) (sh : List Nat) :
    discrDispatch s .reduce 1 [] ins ps ax false (.ok [.arr sh dt]) =
      bindOutcome (tensorDispatch s.toT .reduce 1 [.none] (.ok [.arr sh dt])) fun l =>
        match l with
        | [.scalar] => .ok [.scalar]
        | [.none] => .ok [.none]
        | [r] => out1 (reduceWrap s ax r)
        | _ => .err "ValueError" := by
  unfold discrDispatch
  simp [arityOk, OutKind.given, unwrapOut]
  rfl

/-- `outer` on two discretized elements delegates to the tensor and re-wraps by `outerWrap`. -/
theorem C17.discr_outer_unfold (s p1 p2 : DSelf) (dt : DType) (sh : List Nat) :
    discrDispatch s .outer 1 [] [.own, .own] [p1, p2] .absent false (.ok [.arr sh dt]) =
      bindOutcome (tensorDispatch s.toT .outer 1 [.none] (.ok [.arr sh dt])) fun l =>
        match l with
        | [.scalar] => .ok [.scalar]
        | [.none] => .ok [.none]
        | [r] => out1 (outerWrap p1 p2 r)
        | _ => .err "ValueError" := by
  unfold discrDispatch
  simp [arityOk, OutKind.given, unwrapOut]
  rfl


/-- index-list selection = positional deletion -/
theorem C17.keepIdx_eq {α} (p : Nat → Bool) (d : α) : ∀ (l : List α) (k : Nat),
    ((List.range' k l.length).filter p).map (fun i => l.getD (i - k) d) = keepIdx p l k
  | [], k => by simp [keepIdx]
  | x :: t, k => by
    have ih := C17.keepIdx_eq p d t (k + 1)
    have hcongr : ∀ i ∈ (List.range' (k + 1) t.length).filter p,
        (x :: t).getD (i - k) d = t.getD (i - (k + 1)) d := by
      intro i hi
      have : k + 1 ≤ i := by
        have := (List.mem_filter.mp hi).1
        simp [List.mem_range'] at this
        omega
      have h2 : i - k = (i - (k + 1)) + 1 := by omega
      rw [h2]; simp
    simp only [List.length_cons, List.range'_succ, keepIdx]
    by_cases hp : p k
    · simp [hp, List.filter_cons]
      rw [← ih]
      exact List.map_congr_left (by simpa using hcongr)
    · simp [hp, List.filter_cons]
      rw [← ih]
      exact List.map_congr_left (by simpa using hcongr)

/-- for a valid axis, the code's `a % ndim` is the position NumPy means -/
theorem C17.npAxisPos_mod (ndim : Nat) (a : Int) (p : Nat) (h : npAxisPos ndim a = some p) :
    a % (ndim : Int) = (p : Int) ∧ p < ndim := by
  unfold npAxisPos at h
  split at h
  · rename_i h1
    simp at h; subst h
    have : a % (ndim : Int) = a := Int.emod_eq_of_lt h1.1 h1.2
    omega
  · split at h
    · rename_i h1 h2
      simp at h; subst h
      have : (a + ndim) % (ndim : Int) = a + ndim := Int.emod_eq_of_lt (by omega) (by omega)
      have h3 : a % (ndim : Int) = (a + ndim) % (ndim : Int) := by simp
      omega
    · simp at h

theorem C17.npPositions_mod (ndim : Nat) : ∀ (axis : List Int) (pos : List Nat),
    npPositions ndim axis = some pos → axis.map (· % (ndim : Int)) = pos.map Int.ofNat
  | [], pos, h => by simp [npPositions] at h; subst h; simp
  | a :: t, pos, h => by
    unfold npPositions at h
    cases hpa : npAxisPos ndim a with
    | none => simp [hpa] at h
    | some p =>
      cases hpt : npPositions ndim t with
      | none => simp [hpa, hpt] at h
      | some ps =>
        simp [hpa, hpt] at h; subst h
        have := C17.npPositions_mod ndim t ps hpt
        simp [this, (C17.npAxisPos_mod ndim a p hpa).1]

/-- `discr_reduce_axes` (C17-F2 repaired, d2661b2): whenever NumPy accepts the `axis` argument
(`npReduce`: entries in `[-ndim, ndim)`, no duplicates; negative ones counted from the end —
stated without a modulus and executed against the live NumPy by the driver), selecting the
code's `reduced_axes` from ANY per-axis list (shape, partition) gives exactly what NumPy's
deletion of the reduced positions gives. For every number of dimensions and axis list. -/
theorem C17.discr_reduce_axes {α} (l : List α) (d : α) (axis : List Int) (r : List α)
    (h : npReduce l axis = some r) :
    (reducedAxes l.length (.ints axis)).map (fun i => l.getD i d) = r := by
  unfold npReduce at h
  cases hm : npPositions l.length axis with
  | none => simp [hm] at h
  | some pos =>
    simp only [hm] at h
    split at h
    · simp only [Option.some.injEq] at h; subst h
      have := C17.keepIdx_eq (fun i => !pos.contains i) d l 0
      simp only [Nat.sub_zero, ← List.range_eq_range'] at this
      rw [← this]
      simp only [reducedAxes]
      rw [C17.npPositions_mod l.length axis pos hm]
      congr 1
      apply List.filter_congr
      intro i _
      congr 1
      rw [Bool.eq_iff_iff]
      simp
      constructor
      · rintro ⟨a, ha, hai⟩
        have : a = i := by exact_mod_cast hai
        exact this ▸ ha
      · intro hi
        exact ⟨i, hi, rfl⟩
    · simp at h

example : npReduce [2, 3, 4] [-1, 0] = some [3] ∧ npReduce [2, 3] [2] = none ∧
    npReduce [2, 3] [1, -1] = none ∧
    (reducedAxes 3 (.ints [-1, 0])).map (fun i => [2, 3, 4].getD i 0) = [3] := by decide +kernel

/-- the kept axes of a partition, as the code selects them -/
def OdlModel.C17.keptPart (s : DSelf) (ax : Axis) : List Cell :=
  (reducedAxes s.part.length ax).map (fun i => s.part.getD i cellDefault)

/-- `reduce` on a discretized element with a CONSTANT weighting (no `out`, `keepdims=False`,
one output): if NumPy's result has the shape of the kept axes (`discr_reduce_axes`: they are
NumPy's own) and a supported dtype, the result is a discretized element whose partition
consists of the kept axes of the original partition, in order, with NumPy's dtype.  Its
weighting is the cell volume of the remaining partition when that is uniform (whatever the
original constant was — the code's choice), the original constant otherwise (non-uniform
axes; C17-F9, a448513); for a dtype change to a non-floating dtype it is the default.
Cell sides are the code's (`partition.cell_sides`, also with nodes on the boundary). -/
theorem C17.discr_reduce_result (part : List Cell) (sdt : DType) (c : Rat) (e : Exponent)
    (ins : List InKind) (ps : List DSelf) (ax : Axis) (dt : DType) (sh : List Nat)
    (hsh : sh = (keptPart ⟨part, sdt, .const c e⟩ ax).map (·.n)) (hav : dt.available = true) :
    discrDispatch ⟨part, sdt, .const c e⟩ .reduce 1 [] ins ps ax false (.ok [.arr sh dt]) =
      .ok [.wrapD sh dt
        (let w0 : Weighting :=
            match cellVolume (keptPart ⟨part, sdt, .const c e⟩ ax) with
            | some v => .const v e
            | none => .const c e
         if dt = sdt then w0 else if dt.isFloating then w0 else Weighting.default)
        (keptPart ⟨part, sdt, .const c e⟩ ax)] := by
  subst hsh
  have hp := C17.padShape_self ((keptPart ⟨part, sdt, .const c e⟩ ax).map (·.n))
  simp only [List.length_map] at hp
  rw [C17.discr_reduce_unfold, C17.tensor_method_none _ _ (by decide), DSelf.toT,
    C17.wrapMethod_const _ _ _ _ _ hav]
  simp only [out1, bindOutcome, reduceWrap, byaxisWeighting, keptPart, List.length_map] at hp ⊢
  cases hv : cellVolume (List.map (fun i => part.getD i cellDefault)
      (reducedAxes part.length ax)) <;>
    simp_all

example : discrDispatch ⟨[⟨0, 1, 2, .uniform 1⟩, ⟨0, 3, 3, .uniform (3/2)⟩], .float64,
      .const (3/2) (some 2)⟩ .reduce 1 [] [.own] [] (.ints [0]) false
      (.ok [.arr [3] .float64]) =
    .ok [.wrapD [3] .float64 (.const (3/2) (some 2)) [⟨0, 3, 3, .uniform (3/2)⟩]] := by
  decide +kernel

/-- `outer` of two discretized elements with constant weightings, EVERY result dtype:
partitions appended; numeric dtype → the constants multiplied, with the exponent of the tensor
result (the element's for a floating dtype, 2 otherwise); boolean → default weighting
(C17-F3, 12d891f). -/
theorem C17.discr_outer_result (part : List Cell) (sdt : DType) (c : Rat) (e : Exponent)
    (p1 p2 : DSelf) (c1 c2 : Rat) (e1 e2 : Exponent) (h1 : p1.w = .const c1 e1)
    (h2 : p2.w = .const c2 e2) (dt : DType) (hav : dt.available = true) :
    discrDispatch ⟨part, sdt, .const c e⟩ .outer 1 [] [.own, .own] [p1, p2] .absent false
      (.ok [.arr ((p1.part ++ p2.part).map (·.n)) dt]) =
      .ok [.wrapD ((p1.part ++ p2.part).map (·.n)) dt
        (if dt.isNumeric then .const (c1 * c2) (if dt.isFloating then e else some 2)
         else Weighting.default)
        (p1.part ++ p2.part)] := by
  rw [C17.discr_outer_unfold, C17.tensor_method_none _ _ (by decide), DSelf.toT,
    C17.wrapMethod_const _ _ _ _ _ hav]
  simp only [out1, bindOutcome, outerWrap, h1, h2]
  have hexp : ∀ (b : Prop) [Decidable b] (x y : Rat),
      (if b then Weighting.const x e else Weighting.const y e).exp = e := by
    intro b _ x y; split <;> rfl
  cases hn : dt.isNumeric <;> cases hf : dt.isFloating
  · simp [Weighting.default]
  · exact absurd (C17.floating_numeric dt hf) (by simp [hn])
  · simp [Weighting.default, Weighting.exp]
  · simp [hexp]

example : discrDispatch ⟨[⟨0, 1, 2, .uniform (1/2)⟩], .float64, .const (1/2) (some 1)⟩ .outer 1 []
      [.own, .own] [⟨[⟨0, 1, 2, .uniform (1/2)⟩], .float64, .const (1/2) (some 1)⟩,
        ⟨[⟨1, 2, 2, .uniform (1/2)⟩], .float64, .const 3 (some 1)⟩] .absent false
      (.ok [.arr [2, 2] .float64]) =
    .ok [.wrapD [2, 2] .float64 (.const (3/2) (some 1))
      [⟨0, 1, 2, .uniform (1/2)⟩, ⟨1, 2, 2, .uniform (1/2)⟩]] := by decide +kernel

/-- The three DOCUMENTED rejections of the discretized glue, for every element, `out`-less
request and NumPy result: `reduce(keepdims=True)` and `reduceat` raise `ValueError`, `outer`
with an operand that is not a discretized element raises `TypeError`. -/
theorem C17.discr_documented_rejections (s : DSelf) (ins : List InKind) (ps : List DSelf)
    (ax : Axis) (kd : Bool) (np : NpRes) :
    discrDispatch s .reduce 1 [] ins ps ax true np = .err "ValueError" ∧
    discrDispatch s .reduceat 1 [] ins ps ax kd np = .err "ValueError" ∧
    ((ins.all (· = .own)) = false →
      discrDispatch s .outer 1 [] ins ps ax kd np = .err "TypeError") := by
  refine ⟨by simp [discrDispatch, arityOk], by simp [discrDispatch, arityOk], fun h => ?_⟩
  simp [discrDispatch, arityOk, h]

/-- The two OPEN discretized defects on the model, for every partition etc.:
(C17-F10) a `__call__` whose NumPy result has another shape than the element (broadcasting
against a larger array) raises `ValueError` although NumPy succeeds;
(C17-F11) `reduce` over an axis of an ARRAY-weighted element raises `ValueError`
(`tspace.byaxis` indexes the weight array along its first axis). -/
theorem C17.discr_recorded_failures (s : DSelf) (ins : List InKind) (ps : List DSelf)
    (ax : Axis) (kd : Bool) (sh : List Nat) (dt : DType) (hn : dt.isNumeric = true) :
    (sh ≠ s.shape → (∀ wdt e, s.w ≠ .array wdt e) →
      discrDispatch s .call 1 [] ins ps ax kd (.ok [.arr sh dt]) = .err "ValueError") ∧
    (∀ wdt e, s.w = .array wdt e → (dt.isFloating = true → wdt.canCast dt = true) →
      discrDispatch s .reduce 1 [] ins ps ax false (.ok [.arr sh dt]) = .err "ValueError") := by
  have hav := C17.numeric_available dt hn
  constructor
  · intro hs hw
    unfold discrDispatch tensorDispatch
    cases hf : dt.isFloating <;> rcases hsw : s.w with ⟨c, e⟩ | ⟨wdt, e⟩ | e <;>
      simp_all [arityOk, validOutT, validOutD, unwrapOut, OutKind.given, bindOutcome, out1,
        wrapCall, ctorT, DSelf.toT, rewrapSame, Weighting.default, Weighting.exp] <;>
      (repeat' split) <;> simp_all [rewrapSame]
  · intro wdt e hw hc
    rw [C17.discr_reduce_unfold, C17.tensor_method_none _ _ (by decide)]
    unfold wrapMethod ctorT
    by_cases hs : sh = s.shape <;> cases hf : dt.isFloating <;>
      simp_all [DSelf.toT, out1, bindOutcome, reduceWrap, byaxisWeighting, Weighting.exp,
        Weighting.default]

/-- `__call__` (one output) and `accumulate` on a discretized element without `out`, NumPy
result of the element's shape: the result is a discretized element over the SAME partition
with NumPy's dtype; a constant or custom weighting is propagated iff the result is floating
(default otherwise).  For every partition, dtype, constant and exponent.  (Two outputs, a
given `out`, array weightings: see `ufunc_out_identity_discr`, the correspondence.) -/
theorem C17.ufunc_result_space_discr (part : List Cell) (sdt : DType) (w : Weighting)
    (hw : ∀ wdt e, w ≠ .array wdt e) (m : Method) (hm : m = .call ∨ m = .accumulate)
    (ins : List InKind) (ps : List DSelf) (ax : Axis) (kd : Bool) (dt : DType)
    (hav : dt.available = true) :
    discrDispatch ⟨part, sdt, w⟩ m 1 [] ins ps ax kd (.ok [.arr (part.map (·.n)) dt]) =
      .ok [.wrapD (part.map (·.n)) dt
        (if dt.isFloating then w else Weighting.default) part] := by
  rcases hm with rfl | rfl
  · unfold discrDispatch tensorDispatch
    cases hf : dt.isFloating <;> rcases w with ⟨c, e⟩ | ⟨wdt, e⟩ | e <;>
      simp_all [arityOk, validOutT, validOutD, unwrapOut, OutKind.given, bindOutcome, out1,
        wrapCall, ctorT, DSelf.toT, DSelf.shape, rewrapSame, Weighting.default, Weighting.exp,
        C17.floating_numeric]
  · unfold discrDispatch tensorDispatch
    cases hf : dt.isFloating <;> rcases w with ⟨c, e⟩ | ⟨wdt, e⟩ | e <;>
      simp_all [arityOk, validOutT, validOutD, unwrapOut, OutKind.given, bindOutcome, out1,
        wrapMethod, ctorT, DSelf.toT, DSelf.shape, rewrapSame, Weighting.default,
        Weighting.exp, C17.floating_numeric]

example : discrDispatch ⟨[⟨0, 1, 2, .uniform (1/2)⟩, ⟨0, 3, 3, .uniform 1⟩], .float64,
      .custom (some 1)⟩ .call 1 [] [.own] [] .absent false (.ok [.arr [2, 3] .float32]) =
    .ok [.wrapD [2, 3] .float32 (.custom (some 1))
      [⟨0, 1, 2, .uniform (1/2)⟩, ⟨0, 3, 3, .uniform 1⟩]] := by decide +kernel

/-! ## Operand kinds -/

/-- For a FIXED dispatching element the decision model never looks at the operand kinds (which
operands are elements, arrays, scalars, lists), except that discretized `outer` requires both
operands to be discretized elements.  This is close to definitional for the model (only
`discrDispatch` receives the kinds); its content is that the CODE is modelled that way, which
the correspondence checks with operand patterns `ee, ea, ae, es, se, el, le, eb, be, ey, ye`.
It does NOT say that the result is independent of the operand ORDER when two elements of
different spaces are combined: NumPy dispatches to the FIRST element, whose space's weighting
is propagated (`np.add(xw, y)` is weighted, `np.add(y, xw)` is not) — recorded as NumPy's
dispatch rule, generated as patterns `ey`/`ye`. -/
theorem C17.dispatch_ignores_operand_kinds (r : Req) (ins' : List InKind)
    (h : r.kind = .discr → r.method ≠ .outer) :
    dispatch { r with ins := ins' } = dispatch r := by
  unfold dispatch
  cases hk : r.kind <;> simp_all [Req.dself]
  unfold discrDispatch
  cases hm : r.method <;> simp_all

example : dispatch {
      kind := .discr, shape := [2], dt := .float64, w := .const 3 (some 2),
      part := [⟨0, 1, 2, .uniform (1/2)⟩], method := .call, nin := 2, nout := 1, outs := [],
      ins := [.ndarray, .own], inParts := [], axis := .absent, keepdims := false,
      np := .ok [.arr [2] .float64] } =
    .ok [.wrapD [2] .float64 (.const 3 (some 2)) [⟨0, 1, 2, .uniform (1/2)⟩]] := by decide +kernel

/-! ## Legacy interface -/

/-- `legacy_table_total`: for EVERY name in the extracted `RAW_UFUNCS`, `np.<name>` exists in
NumPy's table, its `(nin, nout)` has a wrapper rule in `wrap_ufunc_base` (no
`NotImplementedError` at import), and `x.ufuncs.<name>()` without `out` forwards a
`'__call__'` request with that `(nin, nout)` and an `out` tuple of exactly `nout` `None`s —
which passes the arity check.  (That the wrapper forwards `getattr(np, name)` itself is a
check of the translator, not a content of this theorem.) -/
theorem C17.legacy_table_total :
    legacyNames.all (fun name =>
      match npUfuncs.find? (·.1 = name) with
      | none => false
      | some (_, _, nin, nout) =>
        (match legacyCall legacyNames legacyRules npUfuncs name .absent {
              kind := .tensor, shape := [3], dt := .float64, w := Weighting.default, part := [],
              method := .reduce, nin := 0, nout := 0, outs := [.foreign], ins := [],
              inParts := [], axis := .absent, keepdims := false, np := .err "" } with
         | none => false
         | some (_, r) => r.method == .call && r.nin == nin && r.nout == nout &&
             r.outs == List.replicate nout .none && arityOk .call nout r.outs.length)) = true := by
  decide +kernel

/-- The four legacy reductions forward to the NumPy ufunc one expects, with `reduce`. -/
theorem C17.legacy_reductions :
    legacyReductions = [("sum", "add", "reduce"), ("prod", "multiply", "reduce"),
      ("min", "minimum", "reduce"), ("max", "maximum", "reduce")] ∧
    legacyReductions.all (fun t => (npUfuncs.find? (·.1 = t.2.1)).isSome) = true := by
  decide +kernel

set_option maxRecDepth 8000 in
/-- The model's `np.can_cast` (safe rule; it decides C17-F4) agrees with the live NumPy on all
289 pairs of the model's dtypes (table regenerated on every run). -/
theorem C17.canCast_matches_numpy :
    npCanCast.length = 289 ∧ npCanCast.all (fun t => t.1.canCast t.2.1 == t.2.2) = true := by
  decide +kernel

/-! ## Wrapping arrays: no copy -/

/-- `wrap_shares_memory`: an array whose dtype and shape are those of the space (writeable, no
order requested) is wrapped WITHOUT a copy; for every shape and dtype. -/
theorem C17.wrap_shares_memory (sshape : List Nat) (sdt : DType) (a : ArrDesc)
    (hd : a.dt = sdt) (hs : a.shape = sshape) (hw : a.writeable = true) :
    element sshape sdt a .any = .ok true := by
  simp [element, ← hs, C17.padShape_self, hd, hw, orderOk]

/-- Conversely the wrapper shares memory only if the dtype matched and the array was
writeable; a mismatching (padded) shape is an error, never a silent reshape. -/
theorem C17.wrap_shares_only_if (sshape : List Nat) (sdt : DType) (a : ArrDesc) (o : Order)
    (h : element sshape sdt a o = .ok true) :
    a.dt = sdt ∧ a.writeable = true ∧ padShape sshape.length a.shape = sshape := by
  unfold element at h
  split at h <;> simp_all

example : element [1, 3] .float64 ⟨[3], .float64, true, true, true⟩ .any = .ok true ∧
    element [3] .float64 ⟨[3], .float32, true, true, true⟩ .any = .ok false ∧
    element [3] .float64 ⟨[4], .float64, true, true, true⟩ .any = .err "ValueError" := by decide +kernel

/-! ## Power spaces -/

/-- Findings C17-F6a–d (open) on the model: no `__array_ufunc__` on product-space elements, so
an element as `out` is a `TypeError`, `at` is a `TypeError`, a result of another shape cannot
be wrapped (`ValueError`), `outer` results stay bare arrays — for every power space, `nin` and
result dtype. -/
theorem C17.power_limits (s : PSelf) (nin : Nat) (dt : DType) (sh : List Nat) (vals : List NpVal)
    (hs : sh ≠ s.shape) (hne : sh ≠ []) :
    powerDispatch s .call nin 1 [.own] (.ok vals) = .err "TypeError" ∧
    powerDispatch s .at 2 1 [] (.ok vals) = .err "TypeError" ∧
    powerDispatch s .reduce nin 1 [] (.ok [.arr sh dt]) = .err "ValueError" ∧
    powerDispatch s .outer nin 1 [] (.ok [.arr sh dt]) = .ok [.raw sh dt] := by
  refine ⟨by simp [powerDispatch], by simp [powerDispatch], ?_, ?_⟩
  · simp [powerDispatch, OutKind.given, out1, powerWrap, hs, hne]
  · simp [powerDispatch, OutKind.given, out1]

example : powerDispatch ⟨[2, 3], .float64⟩ .call 1 1 [] (.ok [.arr [2, 3] .bool]) =
    .ok [.wrapP [2, 3] .bool] := by decide +kernel

/-- What does hold for power spaces: a same-shape result is wrapped as an element of the
power space of NumPy's dtype, a `()`-shaped one becomes a scalar, a given `ndarray` is returned itself. -/
theorem C17.power_wrap_same_shape (s : PSelf) (m : Method) (nin : Nat) (dt : DType)
    (hm : m ≠ .at) (hm' : m ≠ .outer) (hs : s.shape ≠ []) :
    powerDispatch s m nin 1 [] (.ok [.arr s.shape dt]) = .ok [.wrapP s.shape dt] ∧
    powerDispatch s m nin 1 [] (.ok [.arr [] dt]) = .ok [.scalar] ∧
    powerDispatch s m nin 1 [.ndarray] (.ok [.arr s.shape dt]) = .ok [.given 0] := by
  cases m <;> simp_all [powerDispatch, out1, powerWrap, OutKind.given]

/-! ## Legacy interface on product spaces -/

/-- Every legacy name has a `ProductSpaceUfuncs` wrapper (its `(nin, nout)` is one of the three
generated forms): `px.ufuncs.<name>` exists for all of `RAW_UFUNCS`. Re-checked against the
live source on every run. -/
theorem C17.legacy_power_table_total :
    legacyNames.all (fun name =>
      (powerLegacyCall legacyNames legacyPowerRules npUfuncs name ⟨[2, 3], .float64⟩ []
        (.err "")).isSome) = true ∧
    legacyPowerReductions = [("sum", "sum"), ("prod", "prod"), ("min", "min"), ("max", "max")] := by
  decide +kernel

/-- `px.ufuncs.<name>(out=…)`: a given `out` (per position) is the object returned, for all
three wrapper forms, any result shapes and dtypes. -/
theorem C17.legacy_power_out_identity (s : PSelf) (rule : PLegacyRule) (outs : List OutKind)
    (vals : List NpVal) (rets : List Ret) (h : powerLegacy s rule outs (.ok vals) = .ok rets)
    (i : Nat) (hg : (outs.getD i .none).given = true) (hi : i < vals.length) :
    rets[i]? = some (.given i) := by
  unfold powerLegacy at h
  rcases vals with _ | ⟨v1, _ | ⟨v2, _ | ⟨v3, t⟩⟩⟩
  · simp at hi
  · have : i = 0 := by simp at hi; omega
    subst this
    cases rule <;> cases v1 <;> simp_all <;> (repeat' split at h) <;>
      first | done | (simp_all; done) | (subst h; simp) | (subst_vars; simp_all)
  · have : i = 0 ∨ i = 1 := by simp at hi; omega
    cases rule <;> cases v1 <;> cases v2 <;> simp_all <;>
      rcases this with rfl | rfl <;> (repeat' split at h)
    all_goals first | done | (simp_all; done) | (injection h with h; subst h; simp; done) | (simp at h; subst h; simp_all)
  · cases rule <;> simp_all

/-- Open part of C17-F6 on the model: without `out` the legacy interface stores the result in
the ORIGINAL space — the wrapped dtype is the space's, never NumPy's (so `px.ufuncs.isnan()`
is float and `px.ufuncs.sin()` on an integer power space is truncated); a two-output ufunc
whose result cannot be cast into the space dtype raises. For every space and result dtype. -/
theorem C17.legacy_power_casts (s : PSelf) (dt : DType) :
    powerLegacy s .mapOrInto [] (.ok [.arr s.shape dt]) = .ok [.wrapP s.shape s.dt] ∧
    powerLegacy s .binary [] (.ok [.arr s.shape dt]) = .ok [.wrapP s.shape s.dt] ∧
    powerLegacy ⟨[2, 3], .int64⟩ .twoOut [] (.ok [.arr [2, 3] .float64, .arr [2, 3] .float64]) =
      .err "UFuncTypeError" := by
  refine ⟨by simp [powerLegacy, OutKind.given], by simp [powerLegacy, OutKind.given], by decide⟩

/-! ## Final round: normal forms, invariants and order laws of executed definitions -/

/-- Normal form of the `out` tuple (tensor): a tuple of explicit `None`s (`out=(None,)`,
`out=(None, None)`) is the same request as no `out` at all — for every element, method,
NumPy result (also errors) and one or two outputs.  (`x.__array_ufunc__(…, out=(None,))` and
the legacy wrappers rely on it; enumerated as out patterns `N`/`NN` vs `n`.) -/
theorem C17.none_outs_tensor (s : TSelf) (m : Method) (nout : Nat) (np : NpRes)
    (hn : m = .call → nout = 1 ∨ nout = 2) :
    tensorDispatch s m nout (List.replicate (if m = .call then nout else 1) .none) np =
      tensorDispatch s m nout [] np := by
  unfold tensorDispatch
  cases m
  · rcases hn rfl with rfl | rfl <;> simp [arityOk, validOutT, OutKind.given, List.replicate]
  all_goals simp [arityOk, validOutT, OutKind.given, List.replicate]

/-- The same normal form for discretized elements, every method, operands, axis, keepdims. -/
theorem C17.none_outs_discr (s : DSelf) (m : Method) (nout : Nat) (ins : List InKind)
    (ps : List DSelf) (ax : Axis) (kd : Bool) (np : NpRes)
    (hn : m = .call → nout = 1 ∨ nout = 2) :
    discrDispatch s m nout (List.replicate (if m = .call then nout else 1) .none) ins ps ax kd np =
      discrDispatch s m nout [] ins ps ax kd np := by
  unfold discrDispatch
  cases m
  · rcases hn rfl with rfl | rfl <;>
      simp [arityOk, validOutD, unwrapOut, OutKind.given, List.replicate]
  all_goals simp [arityOk, validOutD, unwrapOut, OutKind.given, List.replicate]

/-- Invariant of the code's `reduced_axes` for EVERY `axis` argument (absent, `None`, any
integer list, valid or not) and number of dimensions: the kept axes are strictly increasing
and in range — the result partition lists the remaining axes in their original order, none
twice. -/
theorem C17.reducedAxes_sorted (ndim : Nat) (ax : Axis) :
    (reducedAxes ndim ax).Pairwise (· < ·) ∧ ∀ i ∈ reducedAxes ndim ax, i < ndim := by
  have hr : (List.range ndim).Pairwise (· < ·) := List.pairwise_lt_range
  cases ax with
  | absent =>
    refine ⟨List.Pairwise.sublist (List.drop_sublist 1 _) hr, fun i hi => ?_⟩
    exact List.mem_range.mp (List.mem_of_mem_drop hi)
  | none =>
    refine ⟨List.Pairwise.sublist (List.drop_sublist 1 _) hr, fun i hi => ?_⟩
    exact List.mem_range.mp (List.mem_of_mem_drop hi)
  | ints l =>
    refine ⟨List.Pairwise.sublist List.filter_sublist hr, fun i hi => ?_⟩
    exact List.mem_range.mp (List.mem_filter.mp hi).1

example : tensorDispatch ⟨[2, 3], .array .float64 (some 2)⟩ .call 2 [.none, .none]
      (.ok [.arr [2, 3] .float64, .arr [2, 3] .int32]) =
    tensorDispatch ⟨[2, 3], .array .float64 (some 2)⟩ .call 2 []
      (.ok [.arr [2, 3] .float64, .arr [2, 3] .int32]) ∧
    reducedAxes 4 (.ints [-1, 1, 7]) = [0, 2] := by decide +kernel

theorem C17.keepIdx_sublist {α} (p : Nat → Bool) : ∀ (l : List α) (k : Nat), (keepIdx p l k).Sublist l
  | [], _ => by simp [keepIdx]
  | x :: t, k => by
    unfold keepIdx
    split
    · exact (C17.keepIdx_sublist p t (k + 1)).cons_cons x
    · exact (C17.keepIdx_sublist p t (k + 1)).cons x

theorem C17.keepIdx_true {α} : ∀ (l : List α) (k : Nat), keepIdx (fun _ => true) l k = l
  | [], _ => by simp [keepIdx]
  | x :: t, k => by simp [keepIdx, C17.keepIdx_true t (k + 1)]

/-- Laws of NumPy's axis rule `npReduce` (executed by the driver op `npreduce` against the live
NumPy): whatever the valid `axis` list, the result is a SUBLIST of the input (entries are
only deleted, never reordered or duplicated), and the empty axis tuple deletes nothing. -/
theorem C17.npReduce_sublist {α} (l r : List α) (axis : List Int) (h : npReduce l axis = some r) :
    r.Sublist l ∧ npReduce l [] = some l := by
  constructor
  · unfold npReduce at h
    split at h
    · split at h
      · simp only [Option.some.injEq] at h; subst h; exact C17.keepIdx_sublist _ _ _
      · simp at h
    · simp at h
  · simp [npReduce, npPositions, C17.keepIdx_true]

/-- The code side, for EVERY `axis` argument (absent, `None`, any integers): what the
discretized `reduce` selects from a per-axis list (shape, partition) is a sublist of it — the
result partition never reorders or repeats axes of the element's partition. -/
theorem C17.discr_reduce_kept_sublist {α} (l : List α) (d : α) (ax : Axis) :
    ((reducedAxes l.length ax).map (fun i => l.getD i d)).Sublist l := by
  have key : ∀ (p : Nat → Bool),
      (((List.range l.length).filter p).map (fun i => l.getD i d)).Sublist l := by
    intro p
    have := C17.keepIdx_eq p d l 0
    simp only [Nat.sub_zero, ← List.range_eq_range'] at this
    rw [this]; exact C17.keepIdx_sublist p l 0
  cases ax with
  | ints a => exact key _
  | absent =>
    have h1 : (List.range l.length).drop 1 = (List.range l.length).filter (fun i => decide (1 ≤ i)) := by
      cases hl : l.length with
      | zero => simp
      | succ n =>
        rw [List.range_succ_eq_map]
        simp [List.filter_map, Function.comp_def]
        congr 1
        exact (List.filter_eq_self.mpr (fun _ _ => rfl)).symm
    simp only [reducedAxes, h1]; exact key _
  | none =>
    have h1 : (List.range l.length).drop 1 = (List.range l.length).filter (fun i => decide (1 ≤ i)) := by
      cases hl : l.length with
      | zero => simp
      | succ n =>
        rw [List.range_succ_eq_map]
        simp [List.filter_map, Function.comp_def]
        congr 1
        exact (List.filter_eq_self.mpr (fun _ _ => rfl)).symm
    simp only [reducedAxes, h1]; exact key _

example : npReduce [2, 3, 4] [-1, 0] = some [3] ∧ npReduce [2, 3, 4] [] = some [2, 3, 4] ∧
    (reducedAxes 3 (.ints [1, -3])).map (fun i => [2, 3, 4].getD i 0) = [4] := by decide

/-- the 17 dtypes of the model -/
def OdlModel.C17.allDTypes : List DType :=
  [.bool, .int8, .int16, .int32, .int64, .uint8, .uint16, .uint32, .uint64, .float16, .float32,
   .float64, .longdouble, .complex64, .complex128, .clongdouble, .object]

theorem C17.mem_allDTypes (d : DType) : d ∈ allDTypes := by cases d <;> simp [allDTypes]

set_option maxRecDepth 8000 in
/-- the four laws below, checked by kernel evaluation over all triples of dtypes -/
theorem C17.canCast_table_laws :
    (allDTypes.all fun a => a.canCast a) = true ∧
    (allDTypes.all fun a => allDTypes.all fun b => allDTypes.all fun c =>
      !(a.canCast b && b.canCast c) || a.canCast c) = true ∧
    (allDTypes.all fun a => allDTypes.all fun b =>
      !(a.canCast b && b.canCast a) || a == b) = true ∧
    (allDTypes.all fun a => allDTypes.all fun b =>
      !(a.canCast b) || b == .object || castSameKind a b) = true := by
  decide +kernel

/-- The model's `np.can_cast` (safe rule, the function that decides C17-F4 and is proved equal
to the live NumPy table) is a partial ORDER on the 17 dtypes — reflexive, transitive,
antisymmetric — and safe casting implies `same_kind` casting (`castSameKind`, the rule that
decides whether the legacy two-output product-space wrapper can write into a fresh `out`),
except into `object`.  So a weight array accepted for a result dtype is accepted for every
wider dtype (no C17-F4 failure can appear by widening), and a two-output legacy call whose
result casts safely never raises `UFuncTypeError`. -/
theorem C17.canCast_partial_order (a b c : DType) :
    a.canCast a = true ∧ (a.canCast b = true → b.canCast c = true → a.canCast c = true) ∧
    (a.canCast b = true → b.canCast a = true → a = b) ∧
    (a.canCast b = true → b ≠ .object → castSameKind a b = true) := by
  obtain ⟨h1, h2, h3, h4⟩ := C17.canCast_table_laws
  have ha := C17.mem_allDTypes a; have hb := C17.mem_allDTypes b; have hc := C17.mem_allDTypes c
  rw [List.all_eq_true] at h1 h2 h3 h4
  refine ⟨h1 a ha, fun hab hbc => ?_, fun hab hba => ?_, fun hab hno => ?_⟩
  · have := h2 a ha
    rw [List.all_eq_true] at this
    have := this b hb
    rw [List.all_eq_true] at this
    have := this c hc
    simp [hab, hbc] at this
    exact this
  · have := h3 a ha
    rw [List.all_eq_true] at this
    have := this b hb
    simp [hab, hba] at this
    exact this
  · have := h4 a ha
    rw [List.all_eq_true] at this
    have := this b hb
    simp [hab, hno] at this
    exact this

example : DType.int8.canCast .float16 = true ∧ DType.float16.canCast .complex64 = true ∧
    DType.int8.canCast .complex64 = true ∧ castSameKind .int8 .complex64 = true ∧
    DType.float64.canCast .float32 = false := by decide

/-- Closed form of the legacy product-space interface (`powerLegacy`, executed by the driver op
`plegacy`) for every power space, `out` tuple and result dtype: the one-output wrappers return
the given `out`, else wrap a result of the space's shape in the ORIGINAL space and raise for
another shape; the two-output wrapper succeeds IFF at every position an `out` is given or
NumPy's result dtype casts (`same_kind`) into the space dtype, and then returns per position
the given `out` or a fresh element of the original space. -/
theorem C17.legacy_power_outcome (s : PSelf) (outs : List OutKind) (sh : List Nat) (d1 d2 : DType)
    (sh1 sh2 : List Nat) :
    (∀ rule, rule = .mapOrInto ∨ rule = .binary →
      powerLegacy s rule outs (.ok [.arr sh d1]) =
        if (outs.getD 0 .none).given then .ok [.given 0]
        else if sh = s.shape then .ok [.wrapP s.shape s.dt] else .err "ValueError") ∧
    (powerLegacy s .twoOut outs (.ok [.arr sh1 d1, .arr sh2 d2]) =
      if ((outs.getD 0 .none).given || castSameKind d1 s.dt) &&
         ((outs.getD 1 .none).given || castSameKind d2 s.dt) then
        .ok [if (outs.getD 0 .none).given then .given 0 else .wrapP s.shape s.dt,
             if (outs.getD 1 .none).given then .given 1 else .wrapP s.shape s.dt]
      else .err "UFuncTypeError") := by
  refine ⟨fun rule h => ?_, ?_⟩
  · rcases h with rfl | rfl <;> simp [powerLegacy]
  · simp [powerLegacy]

/-- Two-output `__call__` (`modf`, `frexp`, `divmod`) on a discretized element without `out`,
both NumPy results of the element's shape: BOTH results are discretized elements over the
same partition, each with ITS OWN NumPy dtype, and the default weighting (the code documents
that it does not propagate weighting / exponent here) — for every partition, weighting (also
array and custom), exponent and pair of supported dtypes. -/
theorem C17.ufunc_result_space_discr_two (part : List Cell) (sdt : DType) (w : Weighting)
    (ins : List InKind) (ps : List DSelf) (ax : Axis) (kd : Bool) (d1 d2 : DType)
    (h1 : d1.available = true) (h2 : d2.available = true) :
    discrDispatch ⟨part, sdt, w⟩ .call 2 [] ins ps ax kd
        (.ok [.arr (part.map (·.n)) d1, .arr (part.map (·.n)) d2]) =
      .ok [.wrapD (part.map (·.n)) d1 Weighting.default part,
           .wrapD (part.map (·.n)) d2 Weighting.default part] := by
  unfold discrDispatch tensorDispatch
  simp [arityOk, validOutT, validOutD, unwrapOut, OutKind.given, bindOutcome, out2,
    wrapCall, ctorT, DSelf.toT, DSelf.shape, rewrapSame, h1, h2]

example : discrDispatch ⟨[⟨0, 1, 2, .uniform (1/2)⟩], .float32, .array .float64 (some 1)⟩ .call 2 []
      [.own] [] .absent false (.ok [.arr [2] .float32, .arr [2] .int32]) =
    .ok [.wrapD [2] .float32 Weighting.default [⟨0, 1, 2, .uniform (1/2)⟩],
         .wrapD [2] .int32 Weighting.default [⟨0, 1, 2, .uniform (1/2)⟩]] ∧
    powerLegacy ⟨[2, 3], .int64⟩ .twoOut [.own, .none] (.ok [.arr [2, 3] .float64, .arr [2, 3] .int32]) =
      .ok [.given 0, .wrapP [2, 3] .int64] := by decide +kernel


/-! ## ROUND 4 — VALUES of the legacy interface on (nested) product spaces

`Model/UfuncValue.lean` models `ProductSpaceUfuncs.sum/prod/min/max` and the `(1,1)`, `(2,1)`
wrappers of `wrap_ufunc_productspace` (ODL's own recursion over the parts) on trees of values,
and the `out=` branch of the `(1,1)` wrapper on a heap of buffers.  NumPy's arithmetic at the
leaves is a parameter (`op`, `f`), with exactly the algebraic laws NumPy's reductions assume.
The driver executes these definitions (`psred`, `psmap`, `psbin`, `psinto`) and the stream
`psvalue` compares them exactly with the real `px.ufuncs.<name>` on dyadic inputs. -/

open OdlModel.UfuncValue

/-- `px.ufuncs.sum()` / `.prod()` on ANY product-space element (any nesting depth, any number of
parts incl. none, any leaf sizes incl. empty): the part-by-part recursion of
`ProductSpaceUfuncs.sum` (`np.sum([x.ufuncs.sum() for x in self.elem])`) gives the fold of
NumPy's binary operation over ALL values of the element in storage order — i.e. the same number
as NumPy's reduction of the concatenated underlying arrays — provided the operation is
associative with a two-sided identity (which is what NumPy's own pairwise reduction assumes;
exact on the dyadic grid of the correspondence). -/
theorem C17.psReduce_sum_prod_flatten {K : Type} (op : K → K → K) (e : K)
    (assoc : ∀ a b c, op (op a b) c = op a (op b c)) (idl : ∀ a, op e a = a)
    (idr : ∀ a, op a e = a) (t : PTree K) :
    psReduce (foldId op e) t = foldId op e t.flatten := by
  rw [psReduce_foldId op e assoc idl idr t]; rfl

example : psReduce (foldId (· + ·) (0 : Int)) (.node [.node [.leaf [1, 2, 3], .leaf [4, 5]], .leaf [], .node []])
    = some 15 := by decide

/-- `px.ufuncs.min()` / `.max()`: when every leaf has at least one value and every product at
least one part, the recursion of `ProductSpaceUfuncs.min/max` succeeds and gives NumPy's
reduction (no identity: a left fold started at the first value) of ALL values — for every
associative operation, every nesting depth and size. -/
theorem C17.psReduce_min_max_flatten {K : Type} (op : K → K → K)
    (assoc : ∀ a b c, op (op a b) c = op a (op b c)) (t : PTree K) (h : t.full = true) :
    ∃ x, psReduce (fold1 op) t = some x ∧ fold1 op t.flatten = some x :=
  psReduce_fold1 op assoc t h

example : (PTree.node [.node [.leaf [3, 1], .leaf [4]], .leaf [1, 5]] : PTree Int).full = true ∧
    psReduce (fold1 (fun a b : Int => min a b)) (.node [.node [.leaf [3, 1], .leaf [4]], .leaf [1, 5]])
      = some 1 := by decide

/-- … and it raises (NumPy's `ValueError: zero-size array to reduction operation`) EXACTLY when
some leaf is empty or some product has no parts — even if other parts have values, where
NumPy's `min` of the concatenated arrays would return a number (a deviation of the legacy
interface that only empty parts can show). -/
theorem C17.psReduce_min_max_raises_iff {K : Type} (op : K → K → K)
    (assoc : ∀ a b c, op (op a b) c = op a (op b c)) (t : PTree K) :
    psReduce (fold1 op) t = none ↔ t.full = false := by
  constructor
  · intro h
    cases hf : t.full with
    | false => rfl
    | true =>
      obtain ⟨x, hx, _⟩ := psReduce_fold1 op assoc t hf
      rw [hx] at h; cases h
  · exact psReduce_fold1_none op t

example : psReduce (fold1 (fun a b : Int => min a b)) (.node [.leaf [3, 1], .leaf []]) = none ∧
    fold1 (fun a b : Int => min a b) (PTree.node [.leaf [3, 1], .leaf []]).flatten = some 1 := by
  decide

/-- `px.ufuncs.<f>()` (one input, one output, no `out`): the values of the result, read in
storage order, are NumPy's `f` applied to the values of the operand, and the result has the
operand's structure — for every scalar function `f`, every nesting and size. -/
theorem C17.psMap_flatten {K : Type} (f : K → K) (t : PTree K) :
    (psMap f t).flatten = t.flatten.map f ∧ (psMap f t).sameShape t = true :=
  ⟨psMap_flatten' f t, psMap_sameShape' f t⟩

example : (psMap (fun a : Int => -a) (.node [.node [.leaf [1, 2], .leaf [3]], .leaf [4]])).flatten
    = [-1, -2, -3, -4] := by decide

/-- `px.ufuncs.<f>(x2)` with `x2` IN the space of `px` (same structure): the wrapper zips the
parts at every level; the call succeeds, the result has the structure of `px`, and its values
are NumPy's `op` applied position by position to the values of `px` and `x2`. -/
theorem C17.psBin_same_space {K : Type} (op : K → K → K) (x y : PTree K)
    (h : x.sameShape y = true) :
    ∃ r, psBin op x (.elem y) = some r ∧
      r.flatten = List.zipWith op x.flatten y.flatten ∧ r.sameShape x = true :=
  psBin_zip' op x y h

example : ∃ r, psBin (· + ·) (.node [.node [.leaf [1, 2], .leaf [3]], .leaf [4]])
      (.elem (.node [.node [.leaf [10, 20], .leaf [30]], .leaf [40]])) = some r ∧
    r.flatten = ([11, 22, 33, 44] : List Int) := ⟨_, rfl, by decide⟩

/-- `px.ufuncs.<f>(c)` with a scalar `c`: `c in space` is false at every level, the same scalar
is handed down to every part, and the result is the unary map `a ↦ op a c` — so by
`C17.psMap_flatten` its values are NumPy's `op(values, c)`. Always succeeds. -/
theorem C17.psBin_scalar {K : Type} (op : K → K → K) (c : K) (t : PTree K) :
    psBin op t (.scalar c) = some (psMap (fun a => op a c) t) :=
  psBin_scalar' op c t

example : (psBin (· * ·) (.node [.leaf [1, 2], .node [.leaf [3]]]) (.scalar (2 : Int))).map PTree.flatten
    = some [2, 4, 6] := by decide

/-- FRAME of the `out=` branch (`for x, out_x in zip(self.elem, out): x.ufuncs.f(out=out_x)`
after the part-count check): whatever the operand and `out` trees are (aliased or not), if the
call succeeds then no buffer is created or resized and every buffer that is NOT a leaf of `out`
holds what it held before: the wrapper writes only into the outs, operands that are not
themselves outs are untouched. -/
theorem C17.psMapInto_frame {K : Type} (f : K → K) (x o : BTree) (h h' : Heap K)
    (e : psMapInto f h x o = some h') :
    h'.length = h.length ∧ ∀ k, k ∉ o.bufs → h'[k]? = h[k]? :=
  psMapInto_frame' f x o h h' e

/-- REJECTION (the repair of C17-F14, /repo 2fbe3b2; by construction of the model, which puts
the test where the code has it): an `out` whose number of parts differs from the operand's is
refused before the loop — there is no resulting heap, nothing was written. -/
theorem C17.psMapInto_rejects_part_count {K : Type} (f : K → K) (ps qs : List BTree)
    (h : Heap K) (hl : ps.length ≠ qs.length) :
    psMapInto f h (.node ps) (.node qs) = none := by
  simp [psMapInto, hl]

example : psMapInto (fun a : Int => -a) [[1], [2], [7], [7], [7]]
    (.node [.buf 0, .buf 1]) (.node [.buf 2, .buf 3, .buf 4]) = none := by decide

/-- … and, because the parts' own wrappers make the same test, a call can only SUCCEED if `out`
has the structure of the operand at every level (same nesting, same numbers of parts): no
result is ever dropped and no part of `out` is left unwritten — for all trees and heaps. -/
theorem C17.psMapInto_success_same_structure {K : Type} (f : K → K) (x o : BTree)
    (h h' : Heap K) (e : psMapInto f h x o = some h') : x.sameTree o = true :=
  psMapInto_sameTree f x o h h' e

example : psMapInto (fun a : Int => -a) [[1], [2], [7], [7]]
    (.node [.buf 0, .node [.buf 1]]) (.node [.buf 2, .node [.buf 3]]) = some [[1], [2], [-1], [-2]] ∧
    (BTree.node [.buf 0, .node [.buf 1]]).sameTree (.node [.buf 2, .node [.buf 3]]) = true := by
  decide

/-- CONTENTS of `out`, disjoint case: the buffers of `out` pairwise distinct and none of them a
buffer of the operand. If the call succeeds (which by `C17.psMapInto_success_same_structure`
needs `out` of the operand's structure), then afterwards `out` holds exactly `psMap f` of what
the operand held before (by `C17.psMap_flatten`: NumPy's `f` of the operand's values) and the
operand still holds what it held. -/
theorem C17.psMapInto_out_contents {K : Type} (f : K → K) (x o : BTree) (h h' : Heap K)
    (nd : o.bufs.Nodup) (dj : ∀ k ∈ o.bufs, k ∉ x.bufs)
    (e : psMapInto f h x o = some h') :
    ∃ t, x.read h = some t ∧ o.read h' = some (psMap f t) ∧ x.read h' = some t := by
  obtain ⟨t, h1, h2⟩ :=
    psMapInto_disjoint' f x o h h' (psMapInto_sameTree f x o h h' e) nd dj e
  refine ⟨t, h1, h2, ?_⟩
  rw [← h1]
  exact read_congr x h h' (fun k hk =>
    (psMapInto_frame' f x o h h' e).2 k (fun hq => dj k hq hk))

example : ∃ h', psMapInto (fun a : Int => -a) [[1, 2], [3], [0, 0], [0]]
      (.node [.buf 0, .buf 1]) (.node [.buf 2, .buf 3]) = some h' ∧
    h' = [[1, 2], [3], [-1, -2], [-3]] := ⟨_, rfl, by decide⟩

/-- CONTENTS of `out`, in-place case `px.ufuncs.f(out=px)` (buffers of `px` pairwise distinct):
if the call succeeds, `px` afterwards holds `psMap f` of what it held before. -/
theorem C17.psMapInto_inplace_contents {K : Type} (f : K → K) (x : BTree) (h h' : Heap K)
    (nd : x.bufs.Nodup) (e : psMapInto f h x x = some h') :
    ∃ t, x.read h = some t ∧ x.read h' = some (psMap f t) :=
  psMapInto_inplace' f x h h' nd e

example : psMapInto (fun a : Int => a * a) [[1, 2], [3]] (.node [.buf 0, .node [.buf 1]])
      (.node [.buf 0, .node [.buf 1]]) = some [[1, 4], [9]] := by decide

/-- SENSITIVITY (about the OLD variant `psMapIntoOld`, the wrapper before /repo 2fbe3b2, defect
C17-F14 — NOT the code any more): without the part-count test `zip` stops at the shorter list.
With more parts in `out` the old call succeeded and returned an `out` whose trailing parts were
never written; with fewer parts the results of the trailing operand parts were silently
dropped. The model of the repaired code (`psMapInto`) refuses both inputs. -/
theorem C17.psMapInto_part_count_unchecked_fails :
    (∃ h', psMapIntoOld (fun a : Int => -a) [[1], [2], [7], [7], [7]]
        (.node [.buf 0, .buf 1]) (.node [.buf 2, .buf 3, .buf 4]) = some h' ∧ h'[4]? = some [7]) ∧
    (∃ h', psMapIntoOld (fun a : Int => -a) [[1], [2], [7]]
        (.node [.buf 0, .buf 1]) (.node [.buf 2]) = some h' ∧ h' = [[1], [2], [-1]]) ∧
    psMapInto (fun a : Int => -a) [[1], [2], [7], [7], [7]]
        (.node [.buf 0, .buf 1]) (.node [.buf 2, .buf 3, .buf 4]) = none ∧
    psMapInto (fun a : Int => -a) [[1], [2], [7]]
        (.node [.buf 0, .buf 1]) (.node [.buf 2]) = none :=
  ⟨⟨_, rfl, by decide⟩, ⟨_, rfl, by decide⟩, by decide, by decide⟩

/-- ROUND 5 — `px.ufuncs.<f>(x2)` with `x2` from the space of the PARTS of `px` (a power space
`X^n`, `x2 ∈ X`; `hne`: `x2` is not in `X^n` itself, decided by structure as the model does):
`x2 in self.elem.space` fails at the top, the same `x2` is handed to every part, where it is
zipped; the call succeeds, the result has the structure of `px` and its values are, part by
part, NumPy's `op(part, x2)` — i.e. NumPy's broadcasting of `x2` against the stacked array.
For every nesting depth of `x2`, every number of parts, every size. Executed as `psbin`,
compared in the strata `psvalue/bin/sub` and `psvalue/bin/subsub`. -/
theorem C17.psBin_sub_space {K : Type} (op : K → K → K) (ps : List (PTree K)) (y : PTree K)
    (hall : ∀ p ∈ ps, p.sameShape y = true) (hne : (PTree.node ps).sameShape y = false) :
    ∃ r, psBin op (.node ps) (.elem y) = some r ∧
      r.flatten = (ps.map (fun p => List.zipWith op p.flatten y.flatten)).flatten ∧
      r.sameShape (.node ps) = true := by
  obtain ⟨rs, h1, h2, h3⟩ := psBinAll_sub op y ps hall
  refine ⟨.node rs, ?_, by simpa [PTree.flatten] using h2, by simpa [PTree.sameShape] using h3⟩
  cases y with
  | leaf w => simp [psBin, h1]
  | node qs =>
    simp only [PTree.sameShape] at hne
    simp [psBin, hne, h1]

example : ∃ r, psBin (· + ·) (.node [.node [.leaf [1, 2], .leaf [3]], .node [.leaf [4, 5], .leaf [6]]])
      (.elem (.node [.leaf [10, 20], .leaf [30]])) = some r ∧
    r.flatten = ([11, 22, 33, 14, 25, 36] : List Int) := ⟨_, rfl, by decide⟩

/-- ROUND 6 — `px.ufuncs.<f>(c, out=o)` with a scalar `c` (the scalar / `out` branch of the
`(2,1)` wrapper; the reduction of that branch to the loop of the `(1,1)` wrapper is by
construction of `psBinScalarInto`, tied to the real branch by the stratum
`psvalue/into-scalar/*`): if the call succeeds, only buffers of `o` were written, nothing was
resized, `o` has the structure of `px`; and if moreover the buffers of `o` are pairwise
distinct and none of them a buffer of `px`, then `o` holds `psMap (op · c)` of what `px` held
(by `C17.psBin_scalar` the values of the out-less call `px.ufuncs.f(c)`) and `px` is unchanged.
Corollary of `C17.psMapInto_frame`, `_success_same_structure`, `_out_contents`. -/
theorem C17.psBinScalarInto_frame_contents {K : Type} (op : K → K → K) (c : K) (x o : BTree)
    (h h' : Heap K) (e : psBinScalarInto op c h x o = some h') :
    (h'.length = h.length ∧ ∀ k, k ∉ o.bufs → h'[k]? = h[k]?) ∧ x.sameTree o = true ∧
    (o.bufs.Nodup → (∀ k ∈ o.bufs, k ∉ x.bufs) →
      ∃ t r, x.read h = some t ∧ psBin op t (.scalar c) = some r ∧ o.read h' = some r ∧
        x.read h' = some t) := by
  refine ⟨C17.psMapInto_frame _ x o h h' e, C17.psMapInto_success_same_structure _ x o h h' e,
    fun nd dj => ?_⟩
  obtain ⟨t, h1, h2, h3⟩ := C17.psMapInto_out_contents _ x o h h' nd dj e
  exact ⟨t, _, h1, C17.psBin_scalar op c t, h2, h3⟩

example : psBinScalarInto (· + ·) (10 : Int) [[1, 2], [3], [0, 0], [0]]
    (.node [.buf 0, .buf 1]) (.node [.buf 2, .buf 3]) = some [[1, 2], [3], [11, 12], [13]] := by
  decide
