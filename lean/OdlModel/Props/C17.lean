/-
C17 — NumPy ufuncs on space elements behave like NumPy on the underlying arrays.

The property is glue around NumPy.  The theorems are about the DECISION MODEL of that glue
(`Model/Ufunc.lean`: `tensorDispatch`, `discrDispatch`, `powerDispatch`, `element`,
`legacyCall`) for ALL argument combinations: every method, every `out` tuple (any length, any
kinds), every NumPy result (any shapes as lists of `Nat`, any dtype), every weighting and
partition.  NumPy's own result is a parameter (`NpRes`).

NOT a theorem (by delegation, established by the correspondence/oracle on enumerated inputs
only): that the numbers in the wrapped result equal NumPy's numbers.  In that sense the
property as a whole is proved *partially*: result space / identity of `out` / rejection rules /
legacy table / no-copy rule are theorems, numerical equality is tested.

The legacy table (`Gen/UfuncLegacy.lean`) is GENERATED from `odl/util/ufuncs.py` and the live
NumPy on every run, so `C17.legacy_table_total` is re-checked against the source each time.
-/
import OdlModel.Model.Ufunc
import OdlModel.Gen.UfuncLegacy

namespace OdlModel.C17
open OdlModel.Ufunc

/-- The weighting the code gives to a freshly wrapped tensor result (specification):
non-floating → default; two-output `__call__` → default (documented: no rule to map it);
otherwise propagated iff the shape is the element's shape, constant 1 with the same exponent
if the shape changed (reductions, outer products, broadcasting against a larger operand). -/
def expectedWeighting (s : TSelf) (m : Method) (nout : Nat) (sh : List Nat) (dt : DType) :
    Weighting :=
  if !dt.isFloating then Weighting.default
  else if m = .call ∧ nout ≠ 1 then Weighting.default
  else if sh = s.shape then s.w else .const 1 s.w.exp

/-- NumPy's rule for the axes that survive `ufunc.reduce(axis=…)`: negative axes count from
the end. -/
def npKeptAxes (ndim : Nat) (axis : List Int) : List Nat :=
  (List.range ndim).filter (fun i => !(axis.map (· % (ndim : Int))).contains (i : Int))

/-- A request is *regular* for the tensor glue: well-formed `out` tuple of accepted kinds,
NumPy returns arrays of a numeric dtype (one per output), and — the one remaining recorded
defect, C17-F4 — the weighting is constant or the result dtype can hold a float64 weight
array.  (Before the repairs of C17-F1 and C17-F5 it also had to exclude 0-d `out` arrays and
`__call__` results larger than the element's shape.) -/
def RegularT (s : TSelf) (m : Method) (nout : Nat) (outs : List OutKind) (vals : List NpVal) :
    Prop :=
  arityOk m nout outs.length = true ∧ outs.all validOutT = true ∧
  (m = .call → (nout = 1 ∨ nout = 2) ∧ vals.length = nout) ∧ (m ≠ .call → vals.length = 1) ∧
  (∀ v ∈ vals, ∃ sh dt, v = .arr sh dt ∧ dt.isNumeric = true ∧
      (dt.isFloating = true → (∃ c e, s.w = .const c e) ∨ dt.canCastFromF64 = true))

end OdlModel.C17

open OdlModel.Ufunc OdlModel.C17 OdlModel.Gen.UfuncLegacy

/-- closing tactic for the case analyses below -/
macro "c17_fin" : tactic =>
  `(tactic| first | done | (simp_all; done) | grind | (simp_all <;> grind) | (subst_vars; simp_all; done))

/-! ## `out` arity -/

/-- `ufunc_out_arity` (tensor): an `out` tuple whose length is neither 0 nor the number of
outputs (`nout` for `__call__`, 1 for every other method) is rejected with `ValueError`,
whatever else is passed. -/
theorem C17.ufunc_out_arity_tensor (s : TSelf) (m : Method) (nout : Nat) (outs : List OutKind)
    (np : NpRes) (h : arityOk m nout outs.length = false) :
    tensorDispatch s m nout outs np = .err "ValueError" := by
  simp [tensorDispatch, h]

/-- `ufunc_out_arity` (discretized): same rejection rule, before anything else is looked at. -/
theorem C17.ufunc_out_arity_discr (s : DSelf) (m : Method) (nout : Nat) (outs : List OutKind)
    (ins : List InKind) (ps : List DSelf) (ax : Axis) (kd : Bool) (np : NpRes)
    (h : arityOk m nout outs.length = false) :
    discrDispatch s m nout outs ins ps ax kd np = .err "ValueError" := by
  simp [discrDispatch, h]

/-- The arity rule in closed form: exactly the lengths `0` and `nout` (resp. `1`) pass. -/
theorem C17.arity_rule (m : Method) (nout n : Nat) :
    arityOk m nout n = true ↔ (n = 0 ∨ (m = .call ∧ n = nout) ∨ (m ≠ .call ∧ n = 1)) := by
  unfold arityOk
  cases m <;> simp

example : arityOk .call 1 2 = false ∧ arityOk .reduce 1 2 = false ∧ arityOk .call 2 1 = false ∧
    arityOk .call 2 2 = true ∧ arityOk .at 1 1 = true := by decide

/-- A foreign `out` entry (anything but `None`, an own tensor, an `ndarray`) makes the tensor
glue return `NotImplemented` — for every well-formed tuple. -/
theorem C17.foreign_out_notimplemented (s : TSelf) (m : Method) (nout : Nat)
    (outs : List OutKind) (np : NpRes) (ha : arityOk m nout outs.length = true)
    (hf : ∃ o ∈ outs, validOutT o = false) :
    tensorDispatch s m nout outs np = .notImpl := by
  obtain ⟨o, ho, hv⟩ := hf
  have : outs.all validOutT = false := by
    rw [List.all_eq_false]; exact ⟨o, ho, by simp [hv]⟩
  simp [tensorDispatch, ha, this]

/-! ## Identity of `out` -/

/-- `ufunc_out_identity` (tensor): whenever the call succeeds, for every position `i` at which
an `out` object was given (and NumPy, as always with `out`, returned an array there), the
object returned at position `i` IS the given one. All methods, one or two outputs, any tuple. -/
theorem C17.ufunc_out_identity_tensor (s : TSelf) (m : Method) (nout : Nat)
    (outs : List OutKind) (vals : List NpVal) (rets : List Ret)
    (h : tensorDispatch s m nout outs (.ok vals) = .ok rets)
    (i : Nat) (o : OutKind) (hi : outs[i]? = some o) (hg : o.given = true)
    (sh : List Nat) (dt : DType) (hv : vals[i]? = some (.arr sh dt)) :
    rets[i]? = some (.given i) := by
  unfold tensorDispatch at h
  rcases outs with _ | ⟨o1, _ | ⟨o2, _ | ⟨o3, t⟩⟩⟩
  · simp at hi
  · cases i with
    | zero =>
      simp at hi; subst hi
      cases m <;> simp_all [arityOk, out1, out2] <;>
        (repeat' split at h) <;> simp_all <;> grind
    | succ j => simp at hi
  · cases m <;> simp_all [arityOk, out1, out2]
    rcases i with _ | _ | j
    · simp at hi; subst hi
      (repeat' split at h) <;> simp_all <;> grind
    · simp at hi; subst hi
      (repeat' split at h) <;> simp_all <;> grind
    · simp at hi
  · cases m <;> simp_all [arityOk, out1, out2] <;>
      (repeat' split at h) <;> simp_all <;> omega

example : tensorDispatch ⟨[2, 3], .const 2 (some 2)⟩ .call 2 [.own, .none]
    (.ok [.arr [2, 3] .float64, .arr [2, 3] .int32]) =
    .ok [.given 0, .wrapT [2, 3] .int32 Weighting.default] := by decide

/-- With an array coming back from NumPy at position 0, the tensor glue never takes the
scalar / `None` short-cut. -/
theorem C17.tensor_array_not_shortcut (s : TSelf) (m : Method) (nout : Nat)
    (outs : List OutKind) (vals : List NpVal) (l : List Ret)
    (h : tensorDispatch s m nout outs (.ok vals) = .ok l)
    (sh : List Nat) (dt : DType) (hv : vals[0]? = some (.arr sh dt)) :
    l ≠ [.scalar] ∧ l ≠ [.none] := by
  unfold tensorDispatch at h
  rcases vals with _ | ⟨v, vt⟩
  · simp at hv
  · simp at hv; subst hv
    cases m <;> (repeat' split at h) <;>
      simp_all [out1, out2, wrapCall, wrapMethod] <;>
      (repeat' split at h) <;> c17_fin

/-- `ufunc_out_identity` (discretized): the element returns `out_tuple[i]` itself (not its
`.tensor`), for an own element, a tensor or an `ndarray` given at position `i`. -/
theorem C17.ufunc_out_identity_discr (s : DSelf) (m : Method) (nout : Nat)
    (outs : List OutKind) (ins : List InKind) (ps : List DSelf) (ax : Axis) (kd : Bool)
    (vals : List NpVal) (rets : List Ret)
    (h : discrDispatch s m nout outs ins ps ax kd (.ok vals) = .ok rets)
    (i : Nat) (o : OutKind) (hi : outs[i]? = some o) (hg : o.given = true)
    (sh : List Nat) (dt : DType) (hv : vals[i]? = some (.arr sh dt)) :
    rets[i]? = some (.given i) := by
  unfold discrDispatch at h
  rcases outs with _ | ⟨o1, _ | ⟨o2, _ | ⟨o3, t⟩⟩⟩
  · simp at hi
  · cases i with
    | zero =>
      simp at hi; subst hi
      have key := fun touts l hl =>
        C17.tensor_array_not_shortcut s.toT m nout touts vals l hl sh dt hv
      cases m <;> simp_all [arityOk, out1, out2, bindOutcome] <;>
        (repeat' split at h) <;> c17_fin
    | succ j => simp at hi
  · cases m <;> simp_all [arityOk, out1, out2, bindOutcome]
    rcases i with _ | _ | j
    · simp at hi; subst hi
      (repeat' split at h) <;> c17_fin
    · simp at hi; subst hi
      (repeat' split at h) <;> c17_fin
    · simp at hi
  · cases m <;> simp_all [arityOk, out1, out2, bindOutcome] <;>
      (repeat' split at h) <;> (try simp_all) <;> omega

example : discrDispatch ⟨[⟨0, 1, 2⟩, ⟨0, 3, 3⟩], .float64, 1/2, some 2⟩ .accumulate 1 [.tensor]
    [.own] [] (.ints [1]) false (.ok [.arr [2, 3] .float64]) = .ok [.given 0] := by decide

/-! ## Result space -/

theorem C17.padShape_self (l : List Nat) : padShape l.length l = l := by
  simp [padShape]

set_option maxHeartbeats 1000000 in
/-- `ufunc_result_space` (tensor): if the call succeeds and no `out` was given at position `i`
where NumPy returned an array of shape `sh` and dtype `dt`, then the returned object is a
tensor-space element (`wrapT`: a space of the same kind) with EXACTLY NumPy's shape and
dtype, and with the weighting `expectedWeighting` (propagated iff floating and unchanged
shape, constant 1 with the same exponent if the shape changed, default if non-floating or
for two-output ufuncs).  All methods, any `out` tuple, any shapes, dtypes, weighting. -/
theorem C17.ufunc_result_space_tensor (s : TSelf) (m : Method) (nout : Nat)
    (outs : List OutKind) (vals : List NpVal) (rets : List Ret)
    (h : tensorDispatch s m nout outs (.ok vals) = .ok rets)
    (i : Nat) (hi : (outs.getD i .none).given = false)
    (sh : List Nat) (dt : DType) (hv : vals[i]? = some (.arr sh dt)) :
    rets[i]? = some (.wrapT sh dt (expectedWeighting s m nout sh dt)) := by
  unfold tensorDispatch at h
  rcases vals with _ | ⟨v1, _ | ⟨v2, _ | ⟨v3, vt⟩⟩⟩
  · simp at hv
  · rcases i with _ | j
    · simp at hv; subst hv
      cases m <;> (repeat' split at h) <;>
        simp_all [out1, out2, wrapCall, wrapMethod, ctorT, expectedWeighting] <;>
        (repeat' split at h) <;> c17_fin
    · simp at hv
  · -- two values: only `__call__` with two outputs gets past the `match`
    have hm : m = .call ∧ nout = 2 := by
      cases m <;> (repeat' split at h) <;> simp_all
    obtain ⟨rfl, rfl⟩ := hm
    simp only [reduceIte] at h
    rcases i with _ | _ | j
    · simp at hv; subst hv
      (repeat' split at h) <;>
        simp_all [out1, out2, wrapCall, ctorT, expectedWeighting] <;>
        (repeat' split at h) <;> c17_fin
    · simp at hv; subst hv
      (repeat' split at h) <;>
        simp_all [out1, out2, wrapCall, ctorT, expectedWeighting] <;>
        (repeat' split at h) <;> c17_fin
    · simp at hv
  · cases m <;> (repeat' split at h) <;> simp_all

/-! ## The repaired defects (model of the fixed code) and the one that remains -/

/-- C17-F1 repaired: `np.add(x, y)` with `x` in a weighted `rn(3)` and `y` of shape `(2, 3)`
is wrapped in a space of NumPy's shape `(2, 3)`, unweighted with the same exponent — exactly
as `outer` does.  The OLD wrapping (`wrapCallOld`: space of `self.shape`) raised. -/
theorem C17.call_broadcast_larger :
    tensorDispatch ⟨[3], .const 2 (some 1)⟩ .call 1 [] (.ok [.arr [2, 3] .float64]) =
      .ok [.wrapT [2, 3] .float64 (.const 1 (some 1))] ∧
    tensorDispatch ⟨[3], .const 2 (some 1)⟩ .outer 1 [] (.ok [.arr [2, 3] .float64]) =
      .ok [.wrapT [2, 3] .float64 (.const 1 (some 1))] ∧
    out1 (wrapCallOld ⟨[3], .const 2 (some 1)⟩ true (.arr [2, 3] .float64)) = .err "ValueError" := by
  decide

/-- Finding C17-F4 (open) on the model: array-weighted float64 space, float32 result: the
space constructor refuses the weighting (`ValueError`). -/
theorem C17.array_weighting_narrow_dtype_fails :
    tensorDispatch ⟨[3], .array (some 2)⟩ .call 1 [] (.ok [.arr [3] .float32]) =
      .err "ValueError" := by decide

/-- C17-F5 repaired: a 0-d `ndarray` given as `out` of a full reduction is written to and
returned like any other array (NumPy hands back the 0-d array, not a scalar). -/
theorem C17.zero_dim_out (s : TSelf) (dt : DType) :
    tensorDispatch s .reduce 1 [.ndarray0] (.ok [.arr [] dt]) = .ok [.given 0] := by
  simp [tensorDispatch, arityOk, validOutT, OutKind.given]

/-! ## Totality on regular requests -/

/-- The space constructor accepts every numeric dtype unless a float64 weight array cannot be
cast to it. -/
theorem C17.ctorT_ok (dt : DType) (w : Option Weighting) (hn : dt.isNumeric = true)
    (hw : ∀ e, w = some (.array e) → dt.canCastFromF64 = true) :
    ∃ w', ctorT dt w = .ok w' := by
  unfold ctorT
  rcases w with _ | (⟨c, e⟩ | e)
  · exact ⟨_, rfl⟩
  · simp [hn]
  · simp [hn, hw e rfl]

/-- `__call__` wrapping succeeds for any result shape. -/
theorem C17.wrapCall_ok (s : TSelf) (p : Bool) (sh : List Nat) (dt : DType)
    (hn : dt.isNumeric = true)
    (hw : dt.isFloating = true → (∃ c e, s.w = .const c e) ∨ dt.canCastFromF64 = true) :
    ∃ r, wrapCall s p (.arr sh dt) = .ok r := by
  unfold wrapCall
  obtain ⟨w', hw'⟩ := C17.ctorT_ok dt (if (p && dt.isFloating) = true then
      (if sh ≠ s.shape then some (.const 1 s.w.exp) else some s.w) else none) hn (by
    intro e he
    split at he
    · rename_i hc
      simp at hc
      split at he
      · simp at he
      · rcases hw hc.2 with ⟨c, e', h⟩ | h
        · simp_all
        · exact h
    · simp at he)
  dsimp only at hw' ⊢
  rw [hw']
  simp

/-- Wrapping for the other methods succeeds for any result shape. -/
theorem C17.wrapMethod_ok (s : TSelf) (sh : List Nat) (dt : DType)
    (hn : dt.isNumeric = true)
    (hw : dt.isFloating = true → (∃ c e, s.w = .const c e) ∨ dt.canCastFromF64 = true) :
    ∃ r, wrapMethod s sh dt = .ok r := by
  unfold wrapMethod
  obtain ⟨w', hw'⟩ := C17.ctorT_ok dt (if dt.isFloating = true then
      (if sh ≠ s.shape then some (.const 1 s.w.exp) else some s.w) else none) hn (by
    intro e he
    split at he
    · rename_i hc
      split at he
      · simp at he
      · rcases hw hc with ⟨c, e', h⟩ | h
        · simp_all
        · exact h
    · simp at he)
  dsimp only at hw' ⊢
  rw [hw']
  simp

/- FULL statement wanted by the property: for every well-formed call on which NumPy succeeds
   (returning numeric arrays), the glue succeeds and returns one object per output.  After the
   repairs of C17-F1 (fd350b6) and C17-F5 (6f35866) the ONLY remaining gap is C17-F4: an
   array-weighted space with a floating result dtype that cannot hold float64 weights
   (`array_weighting_narrow_dtype_fails`).  `RegularT` excludes exactly that. -/

/-- `ufunc_result_total_partial` (tensor): on every regular request (all methods, one or two
outputs, any accepted `out` tuple incl. 0-d arrays, any result shapes incl. broadcasting to a
larger shape, any dtypes) the glue does not raise and returns exactly one object per NumPy
output.  Together with `ufunc_result_space_tensor` and `ufunc_out_identity_tensor` this pins
each returned object down completely. -/
theorem C17.ufunc_result_total_partial (s : TSelf) (m : Method) (nout : Nat)
    (outs : List OutKind) (vals : List NpVal) (h : RegularT s m nout outs vals) :
    ∃ rets, tensorDispatch s m nout outs (.ok vals) = .ok rets ∧ rets.length = vals.length := by
  obtain ⟨ha, hv, hc, hm, hvals⟩ := h
  unfold tensorDispatch
  simp only [ha, hv, Bool.not_true, Bool.false_eq_true, if_false]
  by_cases hcall : m = .call
  · subst hcall
    obtain ⟨hn, hl⟩ := hc rfl
    rcases hn with rfl | rfl
    · rcases vals with _ | ⟨v, _ | _⟩ <;> simp at hl
      obtain ⟨sh, dt, rfl, hnum, hw⟩ := hvals v (by simp)
      obtain ⟨r, hr⟩ := C17.wrapCall_ok s true sh dt hnum hw
      simp only [out1, hr, reduceIte]
      split <;> simp
    · rcases vals with _ | ⟨v1, _ | ⟨v2, _ | _⟩⟩ <;> simp at hl
      obtain ⟨sh1, dt1, rfl, hnum1, hw1⟩ := hvals v1 (by simp)
      obtain ⟨sh2, dt2, rfl, hnum2, hw2⟩ := hvals v2 (by simp)
      obtain ⟨r1, hr1⟩ := C17.wrapCall_ok s false sh1 dt1 hnum1 hw1
      obtain ⟨r2, hr2⟩ := C17.wrapCall_ok s false sh2 dt2 hnum2 hw2
      cases hg1 : (outs.getD 0 .none).given <;> cases hg2 : (outs.getD 1 .none).given <;>
        simp [out2, hr1, hr2]
  · have hl := hm hcall
    rcases vals with _ | ⟨v, _ | _⟩ <;> simp at hl
    obtain ⟨sh, dt, rfl, hnum, hw⟩ := hvals v (by simp)
    obtain ⟨r, hr⟩ := C17.wrapMethod_ok s sh dt hnum hw
    cases m <;> simp_all [out1] <;> split <;> simp

/-- The FULL statement for constant weightings (every space ODL builds by default, every
`uniform_discr` tensor space, every `weighting=<float>` space): no exclusion left. -/
theorem C17.ufunc_result_total_const (shape : List Nat) (c : Rat) (e : Exponent) (m : Method)
    (nout : Nat) (outs : List OutKind) (vals : List NpVal)
    (ha : arityOk m nout outs.length = true) (hv : outs.all validOutT = true)
    (hc : m = .call → (nout = 1 ∨ nout = 2) ∧ vals.length = nout)
    (hm : m ≠ .call → vals.length = 1)
    (hvals : ∀ v ∈ vals, ∃ sh dt, v = .arr sh dt ∧ dt.isNumeric = true) :
    ∃ rets, tensorDispatch ⟨shape, .const c e⟩ m nout outs (.ok vals) = .ok rets ∧
      rets.length = vals.length :=
  C17.ufunc_result_total_partial _ m nout outs vals ⟨ha, hv, hc, hm, fun v hvm => by
    obtain ⟨sh, dt, h1, h2⟩ := hvals v hvm
    exact ⟨sh, dt, h1, h2, fun _ => Or.inl ⟨c, e, rfl⟩⟩⟩

example : RegularT ⟨[2, 3], .array (some 2)⟩ .reduce 1 [.ndarray0] [.arr [] .complex128] := by
  refine ⟨by decide, by decide, by decide, by decide, ?_⟩
  intro v hv
  simp at hv
  exact ⟨[], .complex128, hv, by decide, fun _ => Or.inr (by decide)⟩

/-! ## Discretized elements: `reduce`, `outer` -/

/-- Methods other than `__call__`, no `out`: the result is `wrapMethod`. -/
theorem C17.tensor_method_noout (s : TSelf) (m : Method) (hm : m ≠ .call) (sh : List Nat) (dt : DType) :
    tensorDispatch s m 1 [] (.ok [.arr sh dt]) = out1 (wrapMethod s sh dt) := by
  unfold tensorDispatch
  cases m <;> simp_all [arityOk, OutKind.given]

/-- Same with the explicit `out=(None,)` the discretized glue forwards. -/
theorem C17.tensor_method_none (s : TSelf) (m : Method) (hm : m ≠ .call) (sh : List Nat) (dt : DType) :
    tensorDispatch s m 1 [.none] (.ok [.arr sh dt]) = out1 (wrapMethod s sh dt) := by
  unfold tensorDispatch
  cases m <;> simp_all [arityOk, OutKind.given, validOutT]

/-- A floating dtype is numeric. -/
theorem C17.floating_numeric (dt : DType) (h : dt.isFloating = true) : dt.isNumeric = true := by
  cases dt <;> simp_all [DType.isFloating, DType.isNumeric]

/-- `wrapMethod` for a constant weighting never fails, whatever the dtype. -/
theorem C17.wrapMethod_const (sh shp : List Nat) (c : Rat) (e : Exponent) (dt : DType) :
    wrapMethod ⟨shp, .const c e⟩ sh dt = .ok (.wrapT sh dt
      (if dt.isFloating then (if sh ≠ shp then .const 1 e else .const c e) else Weighting.default)) := by
  unfold wrapMethod ctorT
  cases hd : dt.isFloating <;> by_cases hs : sh = shp <;>
    simp [hs, Weighting.exp, C17.floating_numeric, hd]

/-- `reduce` on a discretized element delegates to the tensor and re-wraps by `reduceWrap`. -/
theorem C17.discr_reduce_unfold (s : DSelf) (ins : List InKind) (ps : List DSelf) (ax : Axis)
    (dt : DType) (sh : List Nat) :
    discrDispatch s .reduce 1 [] ins ps ax false (.ok [.arr sh dt]) =
      bindOutcome (tensorDispatch s.toT .reduce 1 [.none] (.ok [.arr sh dt])) fun l =>
        match l with
        | [.scalar] => .ok [.scalar]
        | [.none] => .ok [.none]
        | [r] => out1 (reduceWrap s ax r)
        | _ => .err "ValueError" := by
  unfold discrDispatch
  simp [arityOk, OutKind.given, unwrapOut]
  rfl

/-- `outer` on two discretized elements delegates to the tensor and re-wraps by `outerWrap`. -/
theorem C17.discr_outer_unfold (s p1 p2 : DSelf) (dt : DType) (sh : List Nat) :
    discrDispatch s .outer 1 [] [.own, .own] [p1, p2] .absent false (.ok [.arr sh dt]) =
      bindOutcome (tensorDispatch s.toT .outer 1 [.none] (.ok [.arr sh dt])) fun l =>
        match l with
        | [.scalar] => .ok [.scalar]
        | [.none] => .ok [.none]
        | [r] => out1 (outerWrap p1 p2 r)
        | _ => .err "ValueError" := by
  unfold discrDispatch
  simp [arityOk, OutKind.given, unwrapOut]
  rfl


/-- C17-F2 repaired: the code's `reduced_axes` are exactly the axes NumPy keeps, for every
number of dimensions and EVERY axis list (negative entries included). -/
theorem C17.discr_reduce_axes (ndim : Nat) (axis : List Int) :
    reducedAxes ndim (.ints axis) = npKeptAxes ndim axis := by
  simp [reducedAxes, npKeptAxes]

/-- Sensitivity: the old code (`reducedAxesOld`, raw integers) agrees with NumPy only for
in-range non-negative axes … -/
theorem C17.discr_reduce_axes_old (ndim : Nat) (axis : List Int)
    (h : ∀ a ∈ axis, 0 ≤ a ∧ a < (ndim : Int)) :
    reducedAxesOld ndim (.ints axis) = npKeptAxes ndim axis := by
  have : axis.map (· % (ndim : Int)) = axis := by
    conv => rhs; rw [← List.map_id axis]
    apply List.map_congr_left
    intro a ha
    obtain ⟨h0, h1⟩ := h a ha
    simp [Int.emod_eq_of_lt h0 h1]
  simp [reducedAxesOld, npKeptAxes, this]

example : reducedAxes 3 (.ints [0, -1]) = [1] ∧ npKeptAxes 3 [0, 2] = [1] := by decide

/-- … and kept every axis for a negative one (the defect C17-F2), while the repaired code
drops the right axis and the call succeeds. -/
theorem C17.discr_reduce_negative_axis :
    reducedAxesOld 2 (.ints [-1]) = [0, 1] ∧ reducedAxes 2 (.ints [-1]) = [0] ∧
    npKeptAxes 2 [-1] = [0] ∧
    ∃ w, discrDispatch ⟨[⟨0, 1, 2⟩, ⟨0, 3, 3⟩], .float64, 1/2, some 2⟩ .reduce 1 [] [.own] []
      (.ints [-1]) false (.ok [.arr [2] .float64]) =
      .ok [.wrapD [2] .float64 w [⟨0, 1, 2⟩]] :=
  ⟨by decide, by decide, by decide, _, rfl⟩

/-- `reduce` on a discretized element (no `out`, `keepdims=False`): if NumPy's result has the
shape of the kept axes (which, by `discr_reduce_axes`, are NumPy's own), the result is a
discretized element whose partition consists of the kept axes of the original partition, in
order, with NumPy's dtype; its weighting is the cell volume of the remaining partition (for
the same or a floating dtype). For every partition, every axis argument and every dtype. -/
theorem C17.discr_reduce_result (s : DSelf) (ins : List InKind) (ps : List DSelf) (ax : Axis)
    (dt : DType) (sh : List Nat)
    (hsh : sh = ((reducedAxes s.part.length ax).map (fun i => s.part.getD i cellDefault)).map
      (·.n)) :
    discrDispatch s .reduce 1 [] ins ps ax false (.ok [.arr sh dt]) =
      .ok [.wrapD sh dt
        (if dt = s.dt then .const (cellVolume ((reducedAxes s.part.length ax).map
            (fun i => s.part.getD i cellDefault))) s.exp
         else if dt.isFloating then .const (cellVolume ((reducedAxes s.part.length ax).map
            (fun i => s.part.getD i cellDefault))) s.exp
         else Weighting.default)
        ((reducedAxes s.part.length ax).map (fun i => s.part.getD i cellDefault))] := by
  subst hsh
  have hp := C17.padShape_self (((reducedAxes s.part.length ax).map
    (fun i => s.part.getD i cellDefault)).map (·.n))
  simp only [List.length_map] at hp
  rw [C17.discr_reduce_unfold, C17.tensor_method_none _ _ (by decide), DSelf.toT,
    C17.wrapMethod_const]
  simp only [out1, bindOutcome, reduceWrap, List.length_map, hp, if_true]

example : ∃ w, discrDispatch ⟨[⟨0, 1, 2⟩, ⟨0, 3, 3⟩], .float64, 1/2, some 2⟩ .reduce 1 [] [.own] []
    (.ints [0]) false (.ok [.arr [3] .float64]) =
    .ok [.wrapD [3] .float64 w [⟨0, 3, 3⟩]] := ⟨_, rfl⟩

/-- `outer` of two discretized elements, EVERY result dtype (C17-F3 repaired): partitions
appended; numeric dtype → weighting constants multiplied; boolean → default weighting. -/
theorem C17.discr_outer_result (s p1 p2 : DSelf) (dt : DType) :
    ∃ e, discrDispatch s .outer 1 [] [.own, .own] [p1, p2] .absent false
      (.ok [.arr ((p1.part ++ p2.part).map (·.n)) dt]) =
      .ok [.wrapD ((p1.part ++ p2.part).map (·.n)) dt
        (if dt.isNumeric then .const (p1.wc * p2.wc) e else Weighting.default)
        (p1.part ++ p2.part)] := by
  rw [C17.discr_outer_unfold, C17.tensor_method_none _ _ (by decide), DSelf.toT,
    C17.wrapMethod_const]
  simp only [out1, bindOutcome, outerWrap]
  refine ⟨(if dt.isFloating = true then
      if List.map (fun x => x.n) (p1.part ++ p2.part) ≠ s.shape then Weighting.const 1 s.exp
      else Weighting.const s.wc s.exp
    else Weighting.default).exp, ?_⟩
  cases hn : dt.isNumeric <;> cases hf : dt.isFloating <;> simp_all
  exact absurd (C17.floating_numeric dt hf) (by simp [hn])

/-- `np.equal.outer(x, x)` now works (the old `outerWrapOld` raised: C17-F3); the three
DOCUMENTED rejections of the discretized glue stay rejections. -/
theorem C17.discr_outer_bool_and_documented_rejections :
    let s : DSelf := ⟨[⟨0, 1, 2⟩], .float64, 1/2, some 2⟩
    discrDispatch s .outer 1 [] [.own, .own] [s, s] .absent false
      (.ok [.arr [2, 2] .bool]) = .ok [.wrapD [2, 2] .bool Weighting.default [⟨0, 1, 2⟩, ⟨0, 1, 2⟩]] ∧
    out1 (outerWrapOld s s (.wrapT [2, 2] .bool Weighting.default)) = .err "ValueError" ∧
    discrDispatch s .outer 1 [] [.own, .ndarray] [s] .absent false
      (.ok [.arr [2, 2] .float64]) = .err "TypeError" ∧
    discrDispatch s .reduceat 1 [] [.own] [] .absent false
      (.ok [.arr [2] .float64]) = .err "ValueError" ∧
    discrDispatch s .reduce 1 [] [.own] [] .absent true
      (.ok [.arr [1] .float64]) = .err "ValueError" := by decide

/-- `__call__` (one output) and `accumulate` on a discretized element without `out`, NumPy
result of the element's shape: the result is a discretized element over the SAME partition
with NumPy's dtype; the weighting (the cell volume constant of the space) is propagated iff
the result is floating.  For every partition, dtype, weighting constant and exponent. -/
theorem C17.ufunc_result_space_discr (s : DSelf) (m : Method) (hm : m = .call ∨ m = .accumulate)
    (ins : List InKind) (ps : List DSelf) (ax : Axis) (kd : Bool) (dt : DType) :
    discrDispatch s m 1 [] ins ps ax kd (.ok [.arr s.shape dt]) =
      .ok [.wrapD s.shape dt
        (if dt.isFloating then .const s.wc s.exp else Weighting.default) s.part] := by
  rcases hm with rfl | rfl
  · unfold discrDispatch tensorDispatch
    cases hf : dt.isFloating <;>
      simp [arityOk, validOutT, validOutD, unwrapOut, OutKind.given, bindOutcome, out1,
        wrapCall, ctorT, DSelf.toT, rewrapSame, hf, Weighting.default, Weighting.exp,
        C17.floating_numeric]
  · unfold discrDispatch
    simp only [arityOk]
    simp [validOutD, unwrapOut, OutKind.given, C17.tensor_method_none, DSelf.toT,
      C17.wrapMethod_const, bindOutcome, out1, rewrapSame]

example : discrDispatch ⟨[⟨0, 1, 2⟩, ⟨0, 3, 3⟩], .float64, 1/2, some 1⟩ .call 1 [] [.own] []
    .absent false (.ok [.arr [2, 3] .bool]) =
    .ok [.wrapD [2, 3] .bool Weighting.default [⟨0, 1, 2⟩, ⟨0, 3, 3⟩]] := by decide

/-! ## Mixed operands -/

/-- `ufunc_mixed_operands`: the outcome does not depend on which operands are elements,
arrays, scalars or lists, nor on their order — the glue never inspects them — for tensor and
power-space elements with every method, and for discretized elements with every method except
`outer` (which documents that both operands must be discretized elements). -/
theorem C17.ufunc_mixed_operands (r : Req) (ins' : List InKind)
    (h : r.kind = .discr → r.method ≠ .outer) :
    dispatch { r with ins := ins' } = dispatch r := by
  unfold dispatch
  cases hk : r.kind <;> simp_all [Req.dself]
  unfold discrDispatch
  cases hm : r.method <;> simp_all

example : dispatch {
      kind := .discr, shape := [2], dt := .float64, w := .const 3 (some 2),
      part := [⟨0, 1, 2⟩], method := .call, nin := 2, nout := 1, outs := [],
      ins := [.ndarray, .own], inParts := [], axis := .absent, keepdims := false,
      np := .ok [.arr [2] .float64] } =
    .ok [.wrapD [2] .float64 (.const 3 (some 2)) [⟨0, 1, 2⟩]] := by decide

/-! ## Legacy interface -/

/-- `legacy_table_total`: for EVERY name in the extracted `RAW_UFUNCS`, `np.<name>` exists in
NumPy's table, its `(nin, nout)` has a wrapper rule in `wrap_ufunc_base` (no
`NotImplementedError` at import), and `x.ufuncs.<name>()` without `out` forwards to
`__array_ufunc__(np.<name>, '__call__', …)` with an `out` tuple of exactly `nout` `None`s —
which passes the arity check. Re-checked against the live source on every run. -/
theorem C17.legacy_table_total :
    legacyNames.all (fun name =>
      match npUfuncs.find? (·.1 = name) with
      | none => false
      | some (_, uname, nin, nout) =>
        (match legacyCall legacyNames legacyRules npUfuncs name .absent {
              kind := .tensor, shape := [3], dt := .float64, w := Weighting.default, part := [],
              method := .reduce, nin := 0, nout := 0, outs := [.foreign], ins := [],
              inParts := [], axis := .absent, keepdims := false, np := .err "" } with
         | none => false
         | some (u, r) => u == uname && r.method == .call && r.nin == nin && r.nout == nout &&
             r.outs == List.replicate nout .none && arityOk .call nout r.outs.length)) = true := by
  decide

/-- The four legacy reductions forward to the NumPy ufunc one expects, with `reduce`. -/
theorem C17.legacy_reductions :
    legacyReductions = [("sum", "add", "reduce"), ("prod", "multiply", "reduce"),
      ("min", "minimum", "reduce"), ("max", "maximum", "reduce")] ∧
    legacyReductions.all (fun t => (npUfuncs.find? (·.1 = t.2.1)).isSome) = true := by
  decide

/-! ## Wrapping arrays: no copy -/

/-- `wrap_shares_memory`: an array whose dtype and shape are those of the space (writeable, no
order requested) is wrapped WITHOUT a copy; for every shape and dtype. -/
theorem C17.wrap_shares_memory (sshape : List Nat) (sdt : DType) (a : ArrDesc)
    (hd : a.dt = sdt) (hs : a.shape = sshape) (hw : a.writeable = true) :
    element sshape sdt a .any = .ok true := by
  simp [element, ← hs, C17.padShape_self, hd, hw, orderOk]

/-- Conversely the wrapper shares memory only if the dtype matched and the array was
writeable; a mismatching (padded) shape is an error, never a silent reshape. -/
theorem C17.wrap_shares_only_if (sshape : List Nat) (sdt : DType) (a : ArrDesc) (o : Order)
    (h : element sshape sdt a o = .ok true) :
    a.dt = sdt ∧ a.writeable = true ∧ padShape sshape.length a.shape = sshape := by
  unfold element at h
  split at h <;> simp_all

example : element [1, 3] .float64 ⟨[3], .float64, true, true, true⟩ .any = .ok true ∧
    element [3] .float64 ⟨[3], .float32, true, true, true⟩ .any = .ok false ∧
    element [3] .float64 ⟨[4], .float64, true, true, true⟩ .any = .err "ValueError" := by decide

/-- The write-back contract of `writable_array` (C17-F5 repaired): it never fails on the
shape of the target; the old code failed exactly for a 0-d array. -/
theorem C17.writable_array_contract (o : OutKind) (d : Bool) :
    writeBack o d ≠ .indexError ∧ (writeBackOld o d = .indexError ↔ o = .ndarray0) := by
  cases o <;> cases d <;> simp [writeBack, writeBackOld]

/-! ## Power spaces -/

/-- Finding C17-F6 (open) on the model: no `__array_ufunc__` on product-space elements, so
`outer` results stay bare arrays, an element as `out` is a `TypeError`, a result of another
shape cannot be wrapped.  The dtype part is repaired (24dcf7e): `np.isnan(px)` is wrapped in
a boolean power space; the old `powerWrapOld` cast it into the original one. -/
theorem C17.power_limits :
    powerDispatch ⟨[2, 3], .float64⟩ .call 1 1 [] (.ok [.arr [2, 3] .bool]) =
      .ok [.wrapP [2, 3] .bool] ∧
    out1 (powerWrapOld ⟨[2, 3], .float64⟩ (.arr [2, 3] .bool)) = .ok [.wrapP [2, 3] .float64] ∧
    powerDispatch ⟨[2, 3], .float64⟩ .outer 2 1 [] (.ok [.arr [2, 3, 2, 3] .float64]) =
      .ok [.raw [2, 3, 2, 3] .float64] ∧
    powerDispatch ⟨[2, 3], .float64⟩ .call 2 1 [.own] (.ok [.arr [2, 3] .float64]) =
      .err "TypeError" ∧
    powerDispatch ⟨[2, 3], .float64⟩ .reduce 2 1 [] (.ok [.arr [3] .float64]) =
      .err "ValueError" := by decide

/-- What does hold for power spaces: a same-shape result is wrapped as an element of the
power space of NumPy's dtype, a `()`-shaped one becomes a scalar, a given `ndarray` is returned itself. -/
theorem C17.power_wrap_same_shape (s : PSelf) (m : Method) (nin : Nat) (dt : DType)
    (hm : m ≠ .at) (hm' : m ≠ .outer) (hs : s.shape ≠ []) :
    powerDispatch s m nin 1 [] (.ok [.arr s.shape dt]) = .ok [.wrapP s.shape dt] ∧
    powerDispatch s m nin 1 [] (.ok [.arr [] dt]) = .ok [.scalar] ∧
    powerDispatch s m nin 1 [.ndarray] (.ok [.arr s.shape dt]) = .ok [.given 0] := by
  cases m <;> simp_all [powerDispatch, out1, powerWrap, OutKind.given]

/-! ## Legacy interface on product spaces -/

/-- Every legacy name has a `ProductSpaceUfuncs` wrapper (its `(nin, nout)` is one of the three
generated forms): `px.ufuncs.<name>` exists for all of `RAW_UFUNCS`. Re-checked against the
live source on every run. -/
theorem C17.legacy_power_table_total :
    legacyNames.all (fun name =>
      (powerLegacyCall legacyNames legacyPowerRules npUfuncs name ⟨[2, 3], .float64⟩ []
        (.err "")).isSome) = true ∧
    legacyPowerReductions = [("sum", "sum"), ("prod", "prod"), ("min", "min"), ("max", "max")] := by
  decide

/-- `px.ufuncs.<name>(out=…)`: a given `out` (per position) is the object returned, for all
three wrapper forms, any result shapes and dtypes. -/
theorem C17.legacy_power_out_identity (s : PSelf) (rule : PLegacyRule) (outs : List OutKind)
    (vals : List NpVal) (rets : List Ret) (h : powerLegacy s rule outs (.ok vals) = .ok rets)
    (i : Nat) (hg : (outs.getD i .none).given = true) (hi : i < vals.length) :
    rets[i]? = some (.given i) := by
  unfold powerLegacy at h
  rcases vals with _ | ⟨v1, _ | ⟨v2, _ | ⟨v3, t⟩⟩⟩
  · simp at hi
  · have : i = 0 := by simp at hi; omega
    subst this
    cases rule <;> cases v1 <;> simp_all <;> (repeat' split at h) <;>
      first | done | (simp_all; done) | (subst h; simp) | (subst_vars; simp_all)
  · have : i = 0 ∨ i = 1 := by simp at hi; omega
    cases rule <;> cases v1 <;> cases v2 <;> simp_all <;>
      rcases this with rfl | rfl <;> (repeat' split at h)
    all_goals first | done | (simp_all; done) | (injection h with h; subst h; simp; done) | (simp at h; subst h; simp_all)
  · cases rule <;> simp_all

/-- Open part of C17-F6 on the model: without `out` the legacy interface stores the result in
the ORIGINAL space — the wrapped dtype is the space's, never NumPy's (so `px.ufuncs.isnan()`
is float and `px.ufuncs.sin()` on an integer power space is truncated); a two-output ufunc
whose result cannot be cast into the space dtype raises. For every space and result dtype. -/
theorem C17.legacy_power_casts (s : PSelf) (dt : DType) :
    powerLegacy s .mapOrInto [] (.ok [.arr s.shape dt]) = .ok [.wrapP s.shape s.dt] ∧
    powerLegacy s .binary [] (.ok [.arr s.shape dt]) = .ok [.wrapP s.shape s.dt] ∧
    powerLegacy ⟨[2, 3], .int64⟩ .twoOut [] (.ok [.arr [2, 3] .float64, .arr [2, 3] .float64]) =
      .err "UFuncTypeError" := by
  refine ⟨by simp [powerLegacy, OutKind.given], by simp [powerLegacy, OutKind.given], by decide⟩

