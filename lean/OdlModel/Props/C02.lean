/-
C02 — inner product, norm and dist obey their axioms and the documented weighting.
Property theorems only.  They are statements about the executable model
`OdlModel/Model/Weighting.lean` (the functions the driver runs against /repo on every check),
instantiated at `𝕜 = ℝ` or `ℂ` (`RCLike 𝕜`) with real weights: `ops 𝕜`, `roots close1`
(`Lemmas/Weighting.lean`).  All theorems hold for every space tree (tensor, discretized, and
products nested to any depth), every length / shape and every element.
-/
import OdlModel.Lemmas.Weighting
import Mathlib.Tactic.NormNum

open OdlModel.Weighting OdlModel.C02 Finset

variable {𝕜 : Type} [RCLike 𝕜]

/-- `⟨y, x⟩ = conj ⟨x, y⟩` for every space (any weighting kind, any nesting), all elements. -/
theorem C02.inner_conj_symm (close1 : ℝ → Bool) (s : Space ℝ) (x y : El 𝕜) :
    Space.inner (ops 𝕜) close1 s y x = starRingEnd 𝕜 (Space.inner (ops 𝕜) close1 s x y) := by
  induction s generalizing x y with
  | tens n w p =>
    cases x <;> cases y <;> cases w <;>
      simp [Space.inner, tInner, innerDefault, sumTo_eq_sum, map_sum, mul_comm, mul_left_comm]
  | discr u axes w p =>
    cases x <;> cases y <;> cases w <;>
      simp [Space.inner, dInner, tInner, innerDefault, sumTo_eq_sum] <;>
      split_ifs <;> simp [map_sum, mul_comm, mul_left_comm]
  | prod m w p comp ih =>
    cases x <;> cases y <;> cases w <;>
      simp [Space.inner, pInner, sumTo_eq_sum, map_sum, ← ih]

/-- Additivity in the first argument: `⟨x + x', y⟩ = ⟨x, y⟩ + ⟨x', y⟩`. -/
theorem C02.inner_add_left (close1 : ℝ → Bool) (s : Space ℝ) (x x' y : El 𝕜)
    (hx : Shaped s x) (hx' : Shaped s x') (hy : Shaped s y) :
    Space.inner (ops 𝕜) close1 s (x.add x') y =
      Space.inner (ops 𝕜) close1 s x y + Space.inner (ops 𝕜) close1 s x' y := by
  induction s generalizing x x' y with
  | tens n w p =>
    cases x <;> cases x' <;> cases y <;> cases w <;>
      simp_all [Shaped, El.add, Space.inner, tInner, innerDefault, sumTo_eq_sum, add_mul, mul_add,
        Finset.sum_add_distrib]
  | discr u axes w p =>
    cases x <;> cases x' <;> cases y <;> cases w <;>
      simp_all [Shaped, El.add, Space.inner, dInner, tInner, innerDefault, sumTo_eq_sum] <;>
      split_ifs <;> simp [add_mul, mul_add, Finset.sum_add_distrib]
  | prod m w p comp ih =>
    cases x <;> cases x' <;> cases y <;> cases w <;>
      simp_all [Shaped, El.add, Space.inner, pInner, sumTo_eq_sum, add_mul, mul_add,
        Finset.sum_add_distrib]

/-- Homogeneity in the first argument (linear, not conjugate-linear): `⟨a•x, y⟩ = a ⟨x, y⟩`. -/
theorem C02.inner_smul_left (close1 : ℝ → Bool) (s : Space ℝ) (a : 𝕜) (x y : El 𝕜)
    (hx : Shaped s x) (hy : Shaped s y) :
    Space.inner (ops 𝕜) close1 s (x.smul a) y = a * Space.inner (ops 𝕜) close1 s x y := by
  induction s generalizing x y with
  | tens n w p =>
    cases x <;> cases y <;> cases w <;>
      simp_all [Shaped, El.smul, Space.inner, tInner, innerDefault, sumTo_eq_sum, Finset.mul_sum,
        mul_assoc, mul_left_comm]
  | discr u axes w p =>
    cases x <;> cases y <;> cases w <;>
      simp_all [Shaped, El.smul, Space.inner, dInner, tInner, innerDefault, sumTo_eq_sum] <;>
      split_ifs <;> simp [Finset.mul_sum, mul_assoc, mul_left_comm]
  | prod m w p comp ih =>
    cases x <;> cases y <;> cases w <;>
      simp_all [Shaped, El.smul, Space.inner, pInner, sumTo_eq_sum, Finset.mul_sum,
        mul_assoc, mul_left_comm]

/-- Positivity: for positive weights (and boundary fractions) `⟨x, x⟩` is real and `≥ 0`. -/
theorem C02.inner_self_nonneg (close1 : ℝ → Bool) (s : Space ℝ) (hs : SpacePos s) (x : El 𝕜)
    (hx : Shaped s x) :
    0 ≤ RCLike.re (Space.inner (ops 𝕜) close1 s x x) ∧
      RCLike.im (Space.inner (ops 𝕜) close1 s x x) = 0 := by
  obtain ⟨r, hr, he, _⟩ := inner_self_real (𝕜 := 𝕜) close1 s hs x hx
  rw [he]; simpa using hr

/-- Definiteness: `⟨x, x⟩ = 0` iff every entry of `x` (inside the shape) is zero. -/
theorem C02.inner_self_eq_zero (close1 : ℝ → Bool) (s : Space ℝ) (hs : SpacePos s) (x : El 𝕜)
    (hx : Shaped s x) :
    Space.inner (ops 𝕜) close1 s x x = 0 ↔ ZeroOn s x := by
  obtain ⟨r, _, he, hz⟩ := inner_self_real (𝕜 := 𝕜) close1 s hs x hx
  rw [he, ← hz]; simp

/-- Cauchy–Schwarz, weighted, on every space tree with positive weights:
`|⟨x, y⟩|² ≤ ⟨x, x⟩ ⟨y, y⟩`. -/
theorem C02.cauchy_schwarz (close1 : ℝ → Bool) (s : Space ℝ) (hs : SpacePos s) (x y : El 𝕜)
    (hx : Shaped s x) (hy : Shaped s y) :
    ‖Space.inner (ops 𝕜) close1 s x y‖ ^ 2 ≤
      RCLike.re (Space.inner (ops 𝕜) close1 s x x) * RCLike.re (Space.inner (ops 𝕜) close1 s y y) := by
  induction s generalizing x y with
  | tens n w p =>
    cases x with
    | tup => simp [Shaped] at hx
    | vec x =>
    cases y with
    | tup => simp [Shaped] at hy
    | vec y =>
      simp only [Space.inner, tInner_eq_wsum, re_wsum]
      refine (wcs n (twFn w) _ (fun i => ‖x i‖ ^ 2) (fun i => ‖y i‖ ^ 2) (fun i hi => (hs i hi).le)
        (fun _ _ => sq_nonneg _) (fun _ _ => sq_nonneg _) (fun i _ => ?_)).trans (le_of_eq ?_)
      · simp [mul_pow]
      · congr 1 <;> exact Finset.sum_congr rfl (fun i _ => by rw [RCLike.mul_conj, ← RCLike.ofReal_pow, RCLike.ofReal_re])
  | discr u axes w p =>
    cases x with
    | tup => simp [Shaped] at hx
    | vec x =>
    cases y with
    | tup => simp [Shaped] at hy
    | vec y =>
      simp only [Space.inner, dInner_eq_wsum, re_wsum]
      refine (wcs _ (dW close1 u axes w p) _ (fun i => ‖x i‖ ^ 2) (fun i => ‖y i‖ ^ 2)
        (fun i hi => (dW_pos close1 u axes w p hs.1 hs.2 i hi).le)
        (fun _ _ => sq_nonneg _) (fun _ _ => sq_nonneg _) (fun i _ => ?_)).trans (le_of_eq ?_)
      · simp [mul_pow]
      · congr 1 <;> exact Finset.sum_congr rfl (fun i _ => by rw [RCLike.mul_conj, ← RCLike.ofReal_pow, RCLike.ofReal_re])
  | prod m w p comp ih =>
    cases x with
    | vec => simp [Shaped] at hx
    | tup xs =>
    cases y with
    | vec => simp [Shaped] at hy
    | tup ys =>
      simp only [Shaped] at hx hy
      simp only [Space.inner, pInner_eq_wsum, re_wsum]
      have nn : ∀ (zs : Nat → El 𝕜), (∀ k, Shaped (comp k) (zs k)) → ∀ k, k < m →
          0 ≤ RCLike.re (Space.inner (ops 𝕜) close1 (comp k) (zs k) (zs k)) := by
        intro zs hz k hk
        obtain ⟨r, hr, he, _⟩ := inner_self_real (𝕜 := 𝕜) close1 (comp k) (hs.2 k hk) (zs k) (hz k)
        rw [he]; simpa using hr
      exact wcs m (pwFn w) _ _ _ (fun k hk => (hs.1 k hk).le) (nn xs hx) (nn ys hy)
        (fun k hk => ih k (hs.2 k hk) (xs k) (ys k) (hx k) (hy k))


/-- Documented weighted sum, tensor spaces: `⟨x, y⟩ = Σᵢ wᵢ xᵢ conj(yᵢ)` (`wᵢ = c` for a
constant weighting). -/
theorem C02.tensor_inner_eq_weighted_sum (close1 : ℝ → Bool) (n : Nat) (w : TW ℝ) (p : Expo ℝ)
    (x y : Nat → 𝕜) :
    Space.inner (ops 𝕜) close1 (.tens n w p) (.vec x) (.vec y) =
      ∑ i ∈ range n, x i * starRingEnd 𝕜 (y i) * ((twFn w i : ℝ) : 𝕜) := by
  simp only [Space.inner, tInner_eq_wsum]

/-- Documented quadrature, discretized spaces: `⟨x, y⟩ = Σᵢ ωᵢ xᵢ conj(yᵢ)` with
`ωᵢ = wᵢ · Π_axes (boundary-cell fraction of entry i)` when the boundary is scaled. -/
theorem C02.discr_inner_eq_quadrature (close1 : ℝ → Bool) (u : Bool) (axes : List (Axis ℝ))
    (w : TW ℝ) (p : Expo ℝ) (x y : Nat → 𝕜) :
    Space.inner (ops 𝕜) close1 (.discr u axes w p) (.vec x) (.vec y) =
      ∑ i ∈ range (axesSize axes),
        x i * starRingEnd 𝕜 (y i) * ((dW close1 u axes w p i : ℝ) : 𝕜) := by
  simp only [Space.inner, dInner_eq_wsum]

/-- Product spaces: `⟨x, y⟩ = Σₖ wₖ ⟨xₖ, yₖ⟩ₖ` over the components (`wₖ = c` for a constant
weighting), at every nesting depth. -/
theorem C02.pspace_inner_eq_sum (close1 : ℝ → Bool) (m : Nat) (w : PW ℝ) (p : Expo ℝ)
    (comp : Nat → Space ℝ) (xs ys : Nat → El 𝕜) :
    Space.inner (ops 𝕜) close1 (.prod m w p comp) (.tup xs) (.tup ys) =
      ∑ k ∈ range m, Space.inner (ops 𝕜) close1 (comp k) (xs k) (ys k) * ((pwFn w k : ℝ) : 𝕜) := by
  simp only [Space.inner, pInner_eq_wsum]

/- FULL STATEMENT (fails on the current code, finding C02-F1): for every `uniform_discr` with
default weighting, `⟨1, 1⟩ = ‖1‖² = Π (bₐ - aₐ)`.  It fails exactly when the cell volume is
(close to) 1.0 and some node lies on the boundary: `is_uniformly_weighted` then takes the
constant 1.0 for "unweighted" and drops the boundary-cell fractions
(`C02.discr_one_volume_fails`).  Proved below with the cell volume different from 1. -/
/-- For every `uniform_discr(min_pt, max_pt, shape, nodes_on_bdry=…)` (any dimension, any
shape, any per-axis-side boundary flags) with the default cell-volume weighting, exponent 2 and
cell volume ≠ 1: `⟨1, 1⟩ = Π (bₐ - aₐ)`, the volume of the domain.  The node placement,
boundary-cell fractions and cell sides are the model's own (`mkAxis`, following
`uniform_grid_fromintv` / `boundary_cell_fractions`). -/
theorem C02.discr_one_inner_eq_volume_partial (close1 : ℝ → Bool) (hc : Ideal close1)
    (specs : List (AxSpec ℝ)) (hs : ∀ s ∈ specs, s.a < s.b ∧ 1 ≤ s.n) (hne : specs ≠ [])
    (hcv : close1 (cellVolume specs) = false) :
    Space.inner (ops 𝕜) close1 (uniformDiscr (fun k => (k : ℝ)) specs .two none)
        (.vec fun _ => 1) (.vec fun _ => 1) =
      (((specs.map (fun s => s.b - s.a)).prod : ℝ) : 𝕜) := by
  have hw : defaultWeight (fun k => (k : ℝ)) specs (.two : Expo ℝ) = .const (cellVolume specs) := by
    cases specs with
    | nil => exact absurd rfl hne
    | cons s l => simp [defaultWeight, Expo.isInf, cellVolume]
  simp only [uniformDiscr, Option.getD, hw, Space.inner, dInner_eq_wsum]
  rw [← discr_one_sum close1 hc specs hs hcv]
  simp

open Classical in
/-- Counterexample on the model (= the code, finding C02-F1): `uniform_discr(0, 4, 5,
nodes_on_bdry=True)` has cell volume 1, and `⟨1, 1⟩ = 5`, not the volume 4. -/
theorem C02.discr_one_volume_fails :
    Space.inner (ops ℝ) (fun r => decide (r = 1))
        (uniformDiscr (fun k => (k : ℝ)) [⟨0, 4, 5, true, true⟩] .two none)
        (.vec fun _ => 1) (.vec fun _ => 1) = 5 ∧ ((4 : ℝ) - 0 ≠ 5) := by
  constructor
  · norm_num [uniformDiscr, defaultWeight, Expo.isInf, specAxes, mkAxis, gridEnds, prodL,
      Space.inner, dInner, scalesBoundary, uniformlyWeighted, allClose1, TW.isWeighted, tInner,
      innerDefault, sumTo, axesSize]
  · norm_num

/-- For exponent 2 (at the root; tensor, discretized or product space, any weighting with
positive weights): `‖x‖² = re ⟨x, x⟩` and `‖x‖ ≥ 0`, where `‖x‖` is the value computed by the
code's own norm branch (`sqrt(c)·nrm2`, `sqrt(max(re⟨x,x⟩,0))`, boundary scaling by
`frac ** (1/2)`, `sqrt(re Σ wₖ⟨xₖ,xₖ⟩)`). -/
theorem C02.norm2_sq_eq_inner (close1 : ℝ → Bool) (s : Space ℝ) (hs : SpacePos s)
    (hp : expoOf s = .two) (x : El 𝕜) (hx : Shaped s x) :
    (Space.norm (ops 𝕜) (roots close1) s x) ^ 2 = RCLike.re (Space.inner (ops 𝕜) close1 s x x) ∧
      0 ≤ Space.norm (ops 𝕜) (roots close1) s x := by
  cases s with
  | tens n w p =>
    cases x with
    | tup => simp [Shaped] at hx
    | vec x =>
      simp only [expoOf] at hp; subst hp
      simp only [Space.norm, Space.inner, tInner_eq_wsum, wsum_self, RCLike.ofReal_re]
      exact tNorm_two_sq close1 w n hs x
  | discr u axes w p =>
    cases x with
    | tup => simp [Shaped] at hx
    | vec x =>
      simp only [expoOf] at hp; subst hp
      simp only [Space.norm, Space.inner, dInner_eq_wsum, wsum_self, RCLike.ofReal_re]
      exact dNorm_two_sq close1 u axes w hs.1 hs.2 x
  | prod m w p comp =>
    cases x with
    | vec => simp [Shaped] at hx
    | tup xs =>
      simp only [expoOf] at hp; subst hp
      obtain ⟨h0, _⟩ := C02.inner_self_nonneg (𝕜 := 𝕜) close1 (.prod m w .two comp) hs (.tup xs) hx
      simp only [Space.inner] at h0
      simp only [Space.norm, Space.inner, pNorm, roots_sqrt, ops_re, roots_close1]
      exact ⟨Real.sq_sqrt h0, Real.sqrt_nonneg _⟩

/-- `dist(x, y) = norm(x - y)` on tensor spaces (the constant weighting has its own code). -/
theorem C02.tensor_dist_eq_norm_sub (close1 : ℝ → Bool) (n : Nat) (w : TW ℝ) (p : Expo ℝ)
    (x y : Nat → 𝕜) :
    Space.dist (ops 𝕜) (roots close1) (.tens n w p) (.vec x) (.vec y) =
      Space.norm (ops 𝕜) (roots close1) (.tens n w p) ((El.vec x).sub (.vec y)) := by
  cases w <;> cases p <;> simp [Space.dist, Space.norm, El.sub, tDist, tNorm]

/-- `dist(x, y) = norm(x - y)` on discretized spaces: scaling both arguments at the boundary
and taking the tensor distance equals the norm of the (scaled) difference. -/
theorem C02.discr_dist_eq_norm_sub (close1 : ℝ → Bool) (u : Bool) (axes : List (Axis ℝ)) (w : TW ℝ)
    (p : Expo ℝ) (x y : Nat → 𝕜) :
    Space.dist (ops 𝕜) (roots close1) (.discr u axes w p) (.vec x) (.vec y) =
      Space.norm (ops 𝕜) (roots close1) (.discr u axes w p) ((El.vec x).sub (.vec y)) := by
  cases w <;> cases p <;>
    simp only [Space.dist, Space.norm, El.sub, dDist, dNorm, tDist, tNorm] <;>
    split_ifs <;> simp only [sub_mul]
