/-
C02 — inner product, norm and dist obey their axioms and the documented weighting.
Property theorems only.  They are statements about the executable model
`OdlModel/Model/Weighting.lean` (the functions the driver runs against /repo on every check),
instantiated at `𝕜 = ℝ` or `ℂ` (`RCLike 𝕜`) with real weights: `ops 𝕜`, `roots close1`
(`Lemmas/Weighting.lean`).  All theorems hold for every space tree (tensor, discretized, and
products nested to any depth), every length / shape and every element.
-/
import OdlModel.Lemmas.Weighting

open OdlModel.Weighting OdlModel.C02

variable {𝕜 : Type} [RCLike 𝕜]

/-- `⟨y, x⟩ = conj ⟨x, y⟩` for every space (any weighting kind, any nesting), all elements. -/
theorem C02.inner_conj_symm (close1 : ℝ → Bool) (s : Space ℝ) (x y : El 𝕜) :
    Space.inner (ops 𝕜) close1 s y x = starRingEnd 𝕜 (Space.inner (ops 𝕜) close1 s x y) := by
  induction s generalizing x y with
  | tens n w p =>
    cases x <;> cases y <;> cases w <;>
      simp [Space.inner, tInner, innerDefault, sumTo_eq_sum, map_sum, mul_comm, mul_left_comm]
  | discr u axes w p =>
    cases x <;> cases y <;> cases w <;>
      simp [Space.inner, dInner, tInner, innerDefault, sumTo_eq_sum] <;>
      split_ifs <;> simp [map_sum, mul_comm, mul_left_comm]
  | prod m w p comp ih =>
    cases x <;> cases y <;> cases w <;>
      simp [Space.inner, pInner, sumTo_eq_sum, map_sum, ← ih]

/-- Additivity in the first argument: `⟨x + x', y⟩ = ⟨x, y⟩ + ⟨x', y⟩`. -/
theorem C02.inner_add_left (close1 : ℝ → Bool) (s : Space ℝ) (x x' y : El 𝕜)
    (hx : Shaped s x) (hx' : Shaped s x') (hy : Shaped s y) :
    Space.inner (ops 𝕜) close1 s (x.add x') y =
      Space.inner (ops 𝕜) close1 s x y + Space.inner (ops 𝕜) close1 s x' y := by
  induction s generalizing x x' y with
  | tens n w p =>
    cases x <;> cases x' <;> cases y <;> cases w <;>
      simp_all [Shaped, El.add, Space.inner, tInner, innerDefault, sumTo_eq_sum, add_mul, mul_add,
        Finset.sum_add_distrib]
  | discr u axes w p =>
    cases x <;> cases x' <;> cases y <;> cases w <;>
      simp_all [Shaped, El.add, Space.inner, dInner, tInner, innerDefault, sumTo_eq_sum] <;>
      split_ifs <;> simp [add_mul, mul_add, Finset.sum_add_distrib]
  | prod m w p comp ih =>
    cases x <;> cases x' <;> cases y <;> cases w <;>
      simp_all [Shaped, El.add, Space.inner, pInner, sumTo_eq_sum, add_mul, mul_add,
        Finset.sum_add_distrib]

/-- Homogeneity in the first argument (linear, not conjugate-linear): `⟨a•x, y⟩ = a ⟨x, y⟩`. -/
theorem C02.inner_smul_left (close1 : ℝ → Bool) (s : Space ℝ) (a : 𝕜) (x y : El 𝕜)
    (hx : Shaped s x) (hy : Shaped s y) :
    Space.inner (ops 𝕜) close1 s (x.smul a) y = a * Space.inner (ops 𝕜) close1 s x y := by
  induction s generalizing x y with
  | tens n w p =>
    cases x <;> cases y <;> cases w <;>
      simp_all [Shaped, El.smul, Space.inner, tInner, innerDefault, sumTo_eq_sum, Finset.mul_sum,
        mul_assoc, mul_left_comm]
  | discr u axes w p =>
    cases x <;> cases y <;> cases w <;>
      simp_all [Shaped, El.smul, Space.inner, dInner, tInner, innerDefault, sumTo_eq_sum] <;>
      split_ifs <;> simp [Finset.mul_sum, mul_assoc, mul_left_comm]
  | prod m w p comp ih =>
    cases x <;> cases y <;> cases w <;>
      simp_all [Shaped, El.smul, Space.inner, pInner, sumTo_eq_sum, Finset.mul_sum,
        mul_assoc, mul_left_comm]
