/-
C02 — inner product, norm and dist obey their axioms and the documented weighting.
Property theorems only.  They are statements about the executable model
`OdlModel/Model/Weighting.lean` (the functions the driver runs against /repo on every check),
instantiated at `𝕜 = ℝ` or `ℂ` (`RCLike 𝕜`) with real weights: `ops 𝕜`, `roots close1`
(`Lemmas/Weighting.lean`).  All theorems hold for every space tree (tensor, discretized, and
products nested to any depth), every length / shape and every element.
-/
import OdlModel.Lemmas.WeightingNorms
import OdlModel.Lemmas.WeightingCustom
import OdlModel.Gen.WeightingDispatch
import Mathlib.Tactic.NormNum

open OdlModel.Weighting OdlModel.C02 Finset

variable {𝕜 : Type} [RCLike 𝕜]

/-- `⟨y, x⟩ = conj ⟨x, y⟩` for every space (any weighting kind, any nesting), all elements.
(No `Shaped` hypothesis: for elements whose tree shape does not match the space the model's
inner product is `0` on both sides — the code rejects such arguments with
`LinearSpaceTypeError` before any weighting code runs.) -/
theorem C02.inner_conj_symm (close1 : ℝ → Bool) (s : Space ℝ) (x y : El 𝕜) :
    Space.inner (ops 𝕜).toIOps close1 s y x = starRingEnd 𝕜 (Space.inner (ops 𝕜).toIOps close1 s x y) := by
  induction s generalizing x y with
  | tens n w p =>
    cases x <;> cases y <;> cases w <;>
      simp [Space.inner, tInner, innerDefault, sumTo_eq_sum, map_sum, mul_comm, mul_left_comm]
  | discr u axes w p =>
    cases x <;> cases y <;> cases w <;>
      simp [Space.inner, dInner, tInner, innerDefault, sumTo_eq_sum] <;>
      split_ifs <;> simp [map_sum, mul_comm, mul_left_comm]
  | prod m w p comp ih =>
    cases x <;> cases y <;> cases w <;>
      simp [Space.inner, pInner, sumTo_eq_sum, map_sum, ← ih]

/-- Additivity in the first argument: `⟨x + x', y⟩ = ⟨x, y⟩ + ⟨x', y⟩`. -/
theorem C02.inner_add_left (close1 : ℝ → Bool) (s : Space ℝ) (x x' y : El 𝕜)
    (hx : Shaped s x) (hx' : Shaped s x') (hy : Shaped s y) :
    Space.inner (ops 𝕜).toIOps close1 s (x.add x') y =
      Space.inner (ops 𝕜).toIOps close1 s x y + Space.inner (ops 𝕜).toIOps close1 s x' y := by
  induction s generalizing x x' y with
  | tens n w p =>
    cases x <;> cases x' <;> cases y <;> cases w <;>
      simp_all [Shaped, El.add, Space.inner, tInner, innerDefault, sumTo_eq_sum, add_mul, mul_add,
        Finset.sum_add_distrib]
  | discr u axes w p =>
    cases x <;> cases x' <;> cases y <;> cases w <;>
      simp_all [Shaped, El.add, Space.inner, dInner, tInner, innerDefault, sumTo_eq_sum] <;>
      split_ifs <;> simp [add_mul, mul_add, Finset.sum_add_distrib]
  | prod m w p comp ih =>
    cases x <;> cases x' <;> cases y <;> cases w <;>
      simp_all [Shaped, El.add, Space.inner, pInner, sumTo_eq_sum, add_mul, mul_add,
        Finset.sum_add_distrib]

/-- Homogeneity in the first argument (linear, not conjugate-linear): `⟨a•x, y⟩ = a ⟨x, y⟩`. -/
theorem C02.inner_smul_left (close1 : ℝ → Bool) (s : Space ℝ) (a : 𝕜) (x y : El 𝕜)
    (hx : Shaped s x) (hy : Shaped s y) :
    Space.inner (ops 𝕜).toIOps close1 s (x.smul a) y = a * Space.inner (ops 𝕜).toIOps close1 s x y := by
  induction s generalizing x y with
  | tens n w p =>
    cases x <;> cases y <;> cases w <;>
      simp_all [Shaped, El.smul, Space.inner, tInner, innerDefault, sumTo_eq_sum, Finset.mul_sum,
        mul_assoc, mul_left_comm]
  | discr u axes w p =>
    cases x <;> cases y <;> cases w <;>
      simp_all [Shaped, El.smul, Space.inner, dInner, tInner, innerDefault, sumTo_eq_sum] <;>
      split_ifs <;> simp [Finset.mul_sum, mul_assoc, mul_left_comm]
  | prod m w p comp ih =>
    cases x <;> cases y <;> cases w <;>
      simp_all [Shaped, El.smul, Space.inner, pInner, sumTo_eq_sum, Finset.mul_sum,
        mul_assoc, mul_left_comm]

/-- Positivity: for positive weights (and boundary fractions) `⟨x, x⟩` is real and `≥ 0`. -/
theorem C02.inner_self_nonneg (close1 : ℝ → Bool) (s : Space ℝ) (hs : SpacePos s) (x : El 𝕜)
    (hx : Shaped s x) :
    0 ≤ RCLike.re (Space.inner (ops 𝕜).toIOps close1 s x x) ∧
      RCLike.im (Space.inner (ops 𝕜).toIOps close1 s x x) = 0 := by
  obtain ⟨r, hr, he, _⟩ := inner_self_real (𝕜 := 𝕜) close1 s hs x hx
  rw [he]; simpa using hr

/-- Definiteness: `⟨x, x⟩ = 0` iff every entry of `x` (inside the shape) is zero. -/
theorem C02.inner_self_eq_zero (close1 : ℝ → Bool) (s : Space ℝ) (hs : SpacePos s) (x : El 𝕜)
    (hx : Shaped s x) :
    Space.inner (ops 𝕜).toIOps close1 s x x = 0 ↔ ZeroOn s x := by
  obtain ⟨r, _, he, hz⟩ := inner_self_real (𝕜 := 𝕜) close1 s hs x hx
  rw [he, ← hz]; simp

/-- Cauchy–Schwarz, weighted, on every space tree with positive weights:
`|⟨x, y⟩|² ≤ ⟨x, x⟩ ⟨y, y⟩`. -/
theorem C02.cauchy_schwarz (close1 : ℝ → Bool) (s : Space ℝ) (hs : SpacePos s) (x y : El 𝕜)
    (hx : Shaped s x) (hy : Shaped s y) :
    ‖Space.inner (ops 𝕜).toIOps close1 s x y‖ ^ 2 ≤
      RCLike.re (Space.inner (ops 𝕜).toIOps close1 s x x) * RCLike.re (Space.inner (ops 𝕜).toIOps close1 s y y) := by
  induction s generalizing x y with
  | tens n w p =>
    cases x with
    | tup => simp [Shaped] at hx
    | vec x =>
    cases y with
    | tup => simp [Shaped] at hy
    | vec y =>
      simp only [Space.inner, tInner_eq_wsum, re_wsum]
      refine (wcs n (twFn w) _ (fun i => ‖x i‖ ^ 2) (fun i => ‖y i‖ ^ 2) (fun i hi => (hs i hi).le)
        (fun _ _ => sq_nonneg _) (fun _ _ => sq_nonneg _) (fun i _ => ?_)).trans (le_of_eq ?_)
      · simp [mul_pow]
      · congr 1 <;> exact Finset.sum_congr rfl (fun i _ => by rw [RCLike.mul_conj, ← RCLike.ofReal_pow, RCLike.ofReal_re])
  | discr u axes w p =>
    cases x with
    | tup => simp [Shaped] at hx
    | vec x =>
    cases y with
    | tup => simp [Shaped] at hy
    | vec y =>
      simp only [Space.inner, dInner_eq_wsum, re_wsum]
      refine (wcs _ (dW close1 u axes w p) _ (fun i => ‖x i‖ ^ 2) (fun i => ‖y i‖ ^ 2)
        (fun i hi => (dW_pos close1 u axes w p hs.1 hs.2 i hi).le)
        (fun _ _ => sq_nonneg _) (fun _ _ => sq_nonneg _) (fun i _ => ?_)).trans (le_of_eq ?_)
      · simp [mul_pow]
      · congr 1 <;> exact Finset.sum_congr rfl (fun i _ => by rw [RCLike.mul_conj, ← RCLike.ofReal_pow, RCLike.ofReal_re])
  | prod m w p comp ih =>
    cases x with
    | vec => simp [Shaped] at hx
    | tup xs =>
    cases y with
    | vec => simp [Shaped] at hy
    | tup ys =>
      simp only [Shaped] at hx hy
      simp only [Space.inner, pInner_eq_wsum, re_wsum]
      have nn : ∀ (zs : Nat → El 𝕜), (∀ k, Shaped (comp k) (zs k)) → ∀ k, k < m →
          0 ≤ RCLike.re (Space.inner (ops 𝕜).toIOps close1 (comp k) (zs k) (zs k)) := by
        intro zs hz k hk
        obtain ⟨r, hr, he, _⟩ := inner_self_real (𝕜 := 𝕜) close1 (comp k) (hs.2 k hk) (zs k) (hz k)
        rw [he]; simpa using hr
      exact wcs m (pwFn w) _ _ _ (fun k hk => (hs.1 k hk).le) (nn xs hx) (nn ys hy)
        (fun k hk => ih k (hs.2 k hk) (xs k) (ys k) (hx k) (hy k))


/-- Normal form (unfolding of the model), tensor spaces: `⟨x, y⟩ = Σᵢ wᵢ xᵢ conj(yᵢ)` with the
given weights (`wᵢ = c` for a constant weighting), whichever of the code's evaluation orders
(`const * dot`, `dot(x * w, y)`) is used. -/
theorem C02.tensor_inner_normal_form (close1 : ℝ → Bool) (n : Nat) (w : TW ℝ) (p : Expo ℝ)
    (x y : Nat → 𝕜) :
    Space.inner (ops 𝕜).toIOps close1 (.tens n w p) (.vec x) (.vec y) =
      ∑ i ∈ range n, x i * starRingEnd 𝕜 (y i) * ((twFn w i : ℝ) : 𝕜) := by
  simp only [Space.inner, tInner_eq_wsum]

/-- Normal form (unfolding of the model), discretized spaces: `⟨x, y⟩ = Σᵢ ωᵢ xᵢ conj(yᵢ)` with
`ωᵢ = dW i = wᵢ · Π_axes (boundary factor of entry i)` when the code scales the boundary.  `dW`
is built from the model's own `bfac`; that these weights are the GEOMETRIC cell volumes is
`C02.discr_weight_eq_cell_volume` / `C02.discr_inner_eq_cell_quadrature` below. -/
theorem C02.discr_inner_normal_form (close1 : ℝ → Bool) (u : Bool) (axes : List (Axis ℝ))
    (w : TW ℝ) (p : Expo ℝ) (x y : Nat → 𝕜) :
    Space.inner (ops 𝕜).toIOps close1 (.discr u axes w p) (.vec x) (.vec y) =
      ∑ i ∈ range (axesSize axes),
        x i * starRingEnd 𝕜 (y i) * ((dW close1 u axes w p i : ℝ) : 𝕜) := by
  simp only [Space.inner, dInner_eq_wsum]

/-- Normal form (unfolding of the model), product spaces: `⟨x, y⟩ = Σₖ wₖ ⟨xₖ, yₖ⟩ₖ` over the
components (`wₖ = c` for a constant weighting: `const * sum(inners)` resp.
`dot(inners, array)`), at every nesting depth. -/
theorem C02.pspace_inner_normal_form (close1 : ℝ → Bool) (m : Nat) (w : PW ℝ) (p : Expo ℝ)
    (comp : Nat → Space ℝ) (xs ys : Nat → El 𝕜) :
    Space.inner (ops 𝕜).toIOps close1 (.prod m w p comp) (.tup xs) (.tup ys) =
      ∑ k ∈ range m, Space.inner (ops 𝕜).toIOps close1 (comp k) (xs k) (ys k) * ((pwFn w k : ℝ) : 𝕜) := by
  simp only [Space.inner, pInner_eq_wsum]

/-- For every `uniform_discr` (default weighting, finite exponent): the quadrature weight the
model attaches to the entry with flat index `i` (`dW`, built from `cell_volume` and the
boundary factors `bfac` applied by `apply_on_boundary`) IS the geometric volume of the cell of
that node (`cellProd`: product over the axes of the distances between the midpoints with the
neighbouring nodes, outer cells ending at the domain boundary; defined from the node positions
`node0 + k·stride` only).  Node placement and stride are those of `mkAxis` (the model of
`uniform_grid_fromintv` / `stride` / `boundary_cell_fractions`, tied to the code by
correspondence and by the driver op `info`); the C-order multi-index is `i / Π rest`,
`i % Π rest`.  `Ideal close1`: `np.isclose(frac, 1)` idealised as `frac = 1`; the driver
evaluates this idealised instantiation as well (`vi`) and the harness compares it with the
real code on every case whose fractions are not inside the tolerance without being 1. -/
theorem C02.discr_weight_eq_cell_volume (close1 : ℝ → Bool) (hc : Ideal close1)
    (specs : List (AxSpec ℝ)) (hs : ∀ s ∈ specs, s.a < s.b ∧ 1 ≤ s.n) (p : Expo ℝ)
    (hp : p.isInf = false) (i : Nat) (hi : i < specSize specs) :
    dW close1 true (specAxes (fun k => (k : ℝ)) specs) (.const (cellVolume specs)) p i =
      cellProd specs i :=
  dW_uniformDiscr close1 hc specs hs p hp i hi

/-- Documented quadrature of `uniform_discr` (default weighting, finite exponent, any dimension,
shape and per-axis-side `nodes_on_bdry`): the inner product is the sum over the grid of
`x conj(y)` times the GEOMETRIC volume of the cell of each node — product over the axes of the
distance between the midpoints with the neighbouring nodes, the outer cells ending at the
domain boundary (`cellProd`, defined from the node positions only, independently of the
model's boundary fractions).  In particular boundary nodes carry half cells. -/
theorem C02.discr_inner_eq_cell_quadrature (close1 : ℝ → Bool) (hc : Ideal close1)
    (specs : List (AxSpec ℝ)) (hs : ∀ s ∈ specs, s.a < s.b ∧ 1 ≤ s.n) (x y : Nat → 𝕜) :
    Space.inner (ops 𝕜).toIOps close1 (uniformDiscr (fun k => (k : ℝ)) specs .two none)
        (.vec x) (.vec y) =
      ∑ i ∈ range (specSize specs),
        x i * starRingEnd 𝕜 (y i) * ((cellProd specs i : ℝ) : 𝕜) := by
  simp only [uniformDiscr, Option.getD, defaultWeight_eq specs .two rfl, Space.inner,
    dInner_eq_wsum, axesSize_specAxes specs (fun s h => (hs s h).2)]
  exact Finset.sum_congr rfl (fun i hi => by
    rw [dW_uniformDiscr close1 hc specs hs .two rfl i (mem_range.mp hi)])

/-- `‖1‖_p = volume^{1/p}` for every `uniform_discr` with the default weighting and every finite
exponent branch (`1`, `2`, generic `p > 0`; `qv p` is the real exponent): the p-th power of the
norm of the constant function one is the volume of the domain. -/
theorem C02.discr_one_norm_eq_volume_rpow (close1 : ℝ → Bool) (hc : Ideal close1)
    (specs : List (AxSpec ℝ)) (hs : ∀ s ∈ specs, s.a < s.b ∧ 1 ≤ s.n) (p : Expo ℝ)
    (hp : ExpoPos p) (hfin : p.isInf = false) :
    Space.norm (ops 𝕜) (roots close1) (uniformDiscr (fun k => (k : ℝ)) specs p none)
        (.vec fun _ => (1 : 𝕜)) =
      ((specs.map (fun s => s.b - s.a)).prod) ^ (1 / qv p) := by
  obtain ⟨hax, hcv⟩ := specAxes_pos specs hs
  simp only [uniformDiscr, Option.getD, defaultWeight_eq specs p hfin, Space.norm]
  rw [dNorm_eq_wpn close1 true _ (.const (cellVolume specs)) (fun _ _ => hcv) hax p hp,
    wpn_finite p hfin]
  unfold wp
  congr 1
  rw [← sum_cellProd close1 hc specs hs, axesSize_specAxes specs (fun s h => (hs s h).2)]
  exact Finset.sum_congr rfl (fun i hi => by
    rw [dW_uniformDiscr close1 hc specs hs p hfin i (mem_range.mp hi)]; simp)

/-- For every `uniform_discr(min_pt, max_pt, shape, nodes_on_bdry=…)` (any dimension incl. 0,
any shape, any per-axis-side boundary flags, `a < b`, `n ≥ 1`) with the default cell-volume
weighting and exponent 2: `⟨1, 1⟩ = Π (bₐ - aₐ)`, the volume of the domain.  The node
placement, boundary-cell fractions and cell sides are the model's own (`mkAxis`, following
`uniform_grid_fromintv` / `boundary_cell_fractions` / `cell_sides`).  (Before the repair of
finding C02-F1 this failed when the cell volume was exactly 1.) -/
theorem C02.discr_one_inner_eq_volume (close1 : ℝ → Bool) (hc : Ideal close1)
    (specs : List (AxSpec ℝ)) (hs : ∀ s ∈ specs, s.a < s.b ∧ 1 ≤ s.n) :
    Space.inner (ops 𝕜).toIOps close1 (uniformDiscr (fun k => (k : ℝ)) specs .two none)
        (.vec fun _ => 1) (.vec fun _ => 1) =
      (((specs.map (fun s => s.b - s.a)).prod : ℝ) : 𝕜) := by
  have hw : defaultWeight (fun k => (k : ℝ)) specs (.two : Expo ℝ) = .const (cellVolume specs) := by
    cases specs with
    | nil => simp [defaultWeight, Expo.isInf, cellVolume, prodL]
    | cons s l => simp [defaultWeight, Expo.isInf, cellVolume]
  simp only [uniformDiscr, Option.getD, hw, Space.inner, dInner_eq_wsum]
  rw [← discr_one_sum close1 hc specs hs]
  simp

/-- Exponent 2 everywhere in the tree (tensor, discretized, products to any depth; positive
weights): `‖x‖² = re ⟨x, x⟩`, where `‖x‖` is the value of the code's own norm branches
(`sqrt(c)·nrm2`, `sqrt(max(re⟨x,x⟩,0))`, boundary scaling by `frac ** (1/2)`, and for product
spaces the weighted 2-norm of the component norms). -/
theorem C02.norm2_sq_eq_inner (close1 : ℝ → Bool) (s : Space ℝ) (hs : SpacePos s)
    (hp : AllExpo (fun p => p = .two) s) (x : El 𝕜) (hx : Shaped s x) :
    (Space.norm (ops 𝕜) (roots close1) s x) ^ 2 =
      RCLike.re (Space.inner (ops 𝕜).toIOps close1 s x x) := by
  induction s generalizing x with
  | tens n w p =>
    cases x with
    | tup => simp [Shaped] at hx
    | vec x =>
      simp only [AllExpo] at hp; subst hp
      simp only [Space.norm, Space.inner, tInner_eq_wsum, wsum_self, RCLike.ofReal_re]
      exact (tNorm_two_sq close1 w n hs x).1
  | discr u axes w p =>
    cases x with
    | tup => simp [Shaped] at hx
    | vec x =>
      simp only [AllExpo] at hp; subst hp
      simp only [Space.norm, Space.inner, dInner_eq_wsum, wsum_self, RCLike.ofReal_re]
      exact (dNorm_two_sq close1 u axes w hs.1 hs.2 x).1
  | prod m w p comp ih =>
    cases x with
    | vec => simp [Shaped] at hx
    | tup xs =>
      obtain ⟨hp0, hpk⟩ := hp
      subst hp0
      simp only [Shaped] at hx
      have hS : 0 ≤ ∑ k ∈ range m,
          |Space.norm (ops 𝕜) (roots close1) (comp k) (xs k)| ^ (2 : ℝ) * pwFn w k :=
        Finset.sum_nonneg (fun k hk => mul_nonneg (Real.rpow_nonneg (abs_nonneg _) _)
          (hs.1 k (mem_range.mp hk)).le)
      simp only [Space.norm, Space.inner, pInner_eq_wsum, re_wsum,
        pNorm_eq_wpn close1 w m hs.1 .two trivial, wpn, wp]
      rw [← Real.sqrt_eq_rpow, Real.sq_sqrt hS]
      refine Finset.sum_congr rfl (fun k hk => ?_)
      have hk' := mem_range.mp hk
      rw [Real.rpow_two, sq_abs, ih k (hs.2 k hk') (hpk k hk') (xs k) (hx k)]

/-- `dist(x, y) = norm(x - y)` on every space (by unfolding: the model mirrors the code, whose
separate dist branches are written as the norm branches applied to `x1 - x2`; the theorem
records that the two families of branches agree case by case): tensor spaces (the constant
weighting has its own dist code), discretized spaces (both arguments scaled at the boundary), product spaces
(array weighting: inherited `Weighting.dist`; constant weighting: own code on the norms of the
component differences), every exponent. -/
theorem C02.dist_eq_norm_sub (close1 : ℝ → Bool) (s : Space ℝ) (x y : El 𝕜)
    (hx : Shaped s x) (hy : Shaped s y) :
    Space.dist (ops 𝕜) (roots close1) s x y =
      Space.norm (ops 𝕜) (roots close1) s (x.sub y) := by
  cases s with
  | tens n w p =>
    cases x <;> cases y <;> simp only [Shaped] at hx hy
    cases w <;> cases p <;> simp [Space.dist, Space.norm, El.sub, tDist, tNorm]
  | discr u axes w p =>
    cases x <;> cases y <;> simp only [Shaped] at hx hy
    cases w <;> cases p <;>
      simp only [Space.dist, Space.norm, El.sub, dDist, dNorm, tDist, tNorm] <;>
      split_ifs <;> simp only [sub_mul]
  | prod m w p comp =>
    cases x <;> cases y <;> simp only [Shaped] at hx hy
    cases w with
    | arr a => simp only [Space.dist]
    | const c =>
      cases p <;> simp [Space.dist, Space.norm, El.sub, pDistConst, pNorm]

/-- Absolute homogeneity on every space tree, every exponent branch of the code (`1`, `2`,
`inf`, generic `p > 0`), positive weights: `‖a·x‖ = |a| ‖x‖`. -/
theorem C02.normP_smul (close1 : ℝ → Bool) (s : Space ℝ) (hs : SpacePos s)
    (he : AllExpo ExpoPos s) (a : 𝕜) (x : El 𝕜) (hx : Shaped s x) :
    Space.norm (ops 𝕜) (roots close1) s (x.smul a) =
      ‖a‖ * Space.norm (ops 𝕜) (roots close1) s x :=
  norm_smul_tree close1 s hs he a x hx

/-- Triangle inequality on every space tree for all exponents `1`, `2`, `inf` and generic
`p ≥ 1` (Minkowski, `Real.Lp_add_le_of_nonneg`, after absorbing the weights), positive
weights: `‖x + y‖ ≤ ‖x‖ + ‖y‖`. -/
theorem C02.normP_triangle (close1 : ℝ → Bool) (s : Space ℝ) (hs : SpacePos s)
    (he : AllExpo ExpoGe1 s) (x y : El 𝕜) (hx : Shaped s x) (hy : Shaped s y) :
    Space.norm (ops 𝕜) (roots close1) s (x.add y) ≤
      Space.norm (ops 𝕜) (roots close1) s x + Space.norm (ops 𝕜) (roots close1) s y :=
  norm_triangle_tree close1 s hs he x y hx hy

/-- `‖x‖ ≥ 0` on every space tree. -/
theorem C02.norm_nonneg (close1 : ℝ → Bool) (s : Space ℝ) (hs : SpacePos s)
    (he : AllExpo ExpoPos s) (x : El 𝕜) (hx : Shaped s x) :
    0 ≤ Space.norm (ops 𝕜) (roots close1) s x :=
  norm_nonneg_tree close1 s hs he x hx

/-- `dist(x, y) = dist(y, x)` on every space tree, every exponent and weighting kind. -/
theorem C02.dist_comm (close1 : ℝ → Bool) (s : Space ℝ) (hs : SpacePos s)
    (he : AllExpo ExpoPos s) (x y : El 𝕜) (hx : Shaped s x) (hy : Shaped s y) :
    Space.dist (ops 𝕜) (roots close1) s x y = Space.dist (ops 𝕜) (roots close1) s y x := by
  rw [C02.dist_eq_norm_sub close1 s x y hx hy, C02.dist_eq_norm_sub close1 s y x hy hx,
    sub_eq_smul_neg s x y hx hy,
    norm_smul_tree close1 s hs he (-1) _ (shaped_sub s y x hy hx)]
  simp

/-- Metric triangle inequality on every space tree (tensor, discretized, nested products; every
weighting kind; exponents 1, 2, ∞, generic p ≥ 1): `dist(x, z) ≤ dist(x, y) + dist(y, z)`, for
the code's own dist branches. -/
theorem C02.dist_triangle (close1 : ℝ → Bool) (s : Space ℝ) (hs : SpacePos s)
    (he : AllExpo ExpoGe1 s) (x y z : El 𝕜) (hx : Shaped s x) (hy : Shaped s y)
    (hz : Shaped s z) :
    Space.dist (ops 𝕜) (roots close1) s x z ≤
      Space.dist (ops 𝕜) (roots close1) s x y + Space.dist (ops 𝕜) (roots close1) s y z := by
  rw [C02.dist_eq_norm_sub close1 s x z hx hz, C02.dist_eq_norm_sub close1 s x y hx hy,
    C02.dist_eq_norm_sub close1 s y z hy hz, sub_eq_add_sub s x y z hx hy hz]
  exact norm_triangle_tree close1 s hs he _ _ (shaped_sub s x y hx hy) (shaped_sub s y z hy hz)

/-- `dist(x, x) = 0` and `dist(x, y) ≥ 0` on every space tree, every exponent branch. -/
theorem C02.dist_self_and_nonneg (close1 : ℝ → Bool) (s : Space ℝ) (hs : SpacePos s)
    (he : AllExpo ExpoPos s) (x y : El 𝕜) (hx : Shaped s x) (hy : Shaped s y) :
    Space.dist (ops 𝕜) (roots close1) s x x = 0 ∧
      0 ≤ Space.dist (ops 𝕜) (roots close1) s x y := by
  constructor
  · rw [C02.dist_eq_norm_sub close1 s x x hx hx, sub_self_eq_smul_zero s x hx,
      norm_smul_tree close1 s hs he 0 _ (shaped_sub s x x hx hx)]
    simp
  · rw [C02.dist_eq_norm_sub close1 s x y hx hy]
    exact norm_nonneg_tree close1 s hs he _ (shaped_sub s x y hx hy)

/-- Explicit-grid discretized spaces (`DiscretizedSpace` over a uniform grid inside an
arbitrary enclosing box: arbitrary boundary fractions `fl, fr` per axis side, every axis with
`n ≥ 2` nodes, any dimension), constant weighting `c`, any finite exponent:
`⟨1, 1⟩ = c · Π_axes (n - 2 + fl + fr)`, i.e. cell volume times the number of cells counted
with their boundary fractions — whether or not the code takes the boundary-scaling branch
(`np.allclose(fracs, 1)` skips it exactly when every factor is 1). -/
theorem C02.discr_explicit_one_inner (close1 : ℝ → Bool) (hc : Ideal close1)
    (axes : List (Axis ℝ)) (hn : ∀ a ∈ axes, 2 ≤ a.n) (c : ℝ) (p : Expo ℝ)
    (hp : p.isInf = false) :
    Space.inner (ops 𝕜).toIOps close1 (.discr true axes (.const c) p)
        (.vec fun _ => 1) (.vec fun _ => 1) =
      ((c * (axes.map axisTotal).prod : ℝ) : 𝕜) := by
  have hdW : ∀ i, dW close1 true axes (.const c) p i = c * bfac close1 (fun f => f) axes i := by
    intro i
    unfold dW
    split_ifs with h
    · simp [twFn]
    · have : allClose1 close1 axes = true := by
        simpa [scalesBoundary, uniformlyWeighted, hp] using h
      simp [twFn, bfac_of_allClose close1 _ _ this]
  simp only [Space.inner, dInner_eq_wsum, hdW]
  rw [← bfac_total close1 hc axes hn, Finset.mul_sum]
  simp

/-- The boundary test AS EXECUTED (any `close1`, in particular the driver's / the code's
`np.isclose(frac, 1.0)` with its tolerance), explicit-grid or `uniform_discr` axes with
`n ≥ 2` nodes, constant weighting `c`, finite exponent, any dimension:
`⟨1, 1⟩ = c · Π_axes (n - 2 + fl' + fr')` where `fl', fr'` are the fractions the code applies
(1 for a side that passes the closeness test), and each axis total differs from the exact
`n - 2 + fl + fr` by at most `2ε` when the test only fires within `ε` of 1
(`ε = 1e-5 + 1e-8` for `np.isclose`).  No idealisation of the closeness test is assumed. -/
theorem C02.discr_one_inner_with_tolerance (close1 : ℝ → Bool) (axes : List (Axis ℝ))
    (hn : ∀ a ∈ axes, 2 ≤ a.n) (c : ℝ) (p : Expo ℝ) (hp : p.isInf = false) :
    Space.inner (ops 𝕜).toIOps close1 (.discr true axes (.const c) p)
        (.vec fun _ => 1) (.vec fun _ => 1) =
      ((c * (axes.map (axisTotalTol close1)).prod : ℝ) : 𝕜) ∧
    ∀ ε : ℝ, 0 ≤ ε → Tol close1 ε → ∀ a ∈ axes, |axisTotalTol close1 a - axisTotal a| ≤ 2 * ε := by
  refine ⟨?_, fun ε hε ht a _ => axisTotalTol_close close1 ε hε ht a⟩
  have hdW : ∀ i, dW close1 true axes (.const c) p i = c * bfac close1 (fun f => f) axes i := by
    intro i
    unfold dW
    split_ifs with h
    · simp [twFn]
    · have : allClose1 close1 axes = true := by
        simpa [scalesBoundary, uniformlyWeighted, hp] using h
      simp [twFn, bfac_of_allClose close1 _ _ this]
  have htot : ∑ i ∈ range (axesSize axes), bfac close1 (fun f => f) axes i =
      (axes.map (axisTotalTol close1)).prod := by
    rw [bfac_sum]
    congr 1
    exact List.map_congr_left (fun a ha => sideFac_sum_tol close1 a (hn a ha))
  simp only [Space.inner, dInner_eq_wsum, hdW]
  rw [← htot, Finset.mul_sum]
  simp

/-- Every norm of the model is a LATTICE norm: if `|xᵢ| ≤ |yᵢ|` for every entry (of every leaf
of the tree) then `‖x‖ ≤ ‖y‖` — all space kinds, all weighting kinds with positive weights, all
exponent branches (1, 2, ∞, generic p > 0). -/
theorem C02.norm_mono (close1 : ℝ → Bool) (s : Space ℝ) (hs : SpacePos s)
    (he : AllExpo ExpoPos s) (x y : El 𝕜) (hx : Shaped s x) (hy : Shaped s y)
    (hle : ModLe s x y) :
    Space.norm (ops 𝕜) (roots close1) s x ≤ Space.norm (ops 𝕜) (roots close1) s y := by
  induction s generalizing x y with
  | tens n w p =>
    cases x with
    | tup => simp [Shaped] at hx
    | vec x =>
    cases y with
    | tup => simp [Shaped] at hy
    | vec y =>
      simp only [Space.norm, tNorm_eq_wpn close1 w n hs p he]
      exact wpn_mono n _ (fun i hi => (hs i hi).le) p he _ _ (fun _ _ => _root_.norm_nonneg _) hle
  | discr u axes w p =>
    cases x with
    | tup => simp [Shaped] at hx
    | vec x =>
    cases y with
    | tup => simp [Shaped] at hy
    | vec y =>
      simp only [Space.norm, dNorm_eq_wpn close1 u axes w hs.1 hs.2 p he]
      exact wpn_mono _ _ (fun i hi => (dW_pos close1 u axes w p hs.1 hs.2 i hi).le) p he _ _
        (fun _ _ => _root_.norm_nonneg _) hle
  | prod m w p comp ih =>
    cases x with
    | vec => simp [Shaped] at hx
    | tup xs =>
    cases y with
    | vec => simp [Shaped] at hy
    | tup ys =>
      simp only [Shaped] at hx hy
      simp only [ModLe] at hle
      simp only [Space.norm, pNorm_eq_wpn close1 w m hs.1 p he.1]
      refine wpn_mono m _ (fun i hi => (hs.1 i hi).le) p he.1 _ _ (fun _ _ => abs_nonneg _)
        (fun k hk => ?_)
      have h0 := norm_nonneg_tree (𝕜 := 𝕜) close1 (comp k) (hs.2 k hk) (he.2 k hk) _ (hx k)
      have h1 := norm_nonneg_tree (𝕜 := 𝕜) close1 (comp k) (hs.2 k hk) (he.2 k hk) _ (hy k)
      rw [abs_of_nonneg h0, abs_of_nonneg h1]
      exact ih k (hs.2 k hk) (he.2 k hk) (xs k) (ys k) (hx k) (hy k) (hle k hk)

/-- Every norm branch of the model (`sqrt(c)·nrm2`, `c^{1/p}·‖·‖ₚ`, `c·max`, in-place
`|x|^p·w` sums, boundary scaling by `frac^{1/p}`, norms of component norms) is ONE weighted
p-norm: of the moduli of the entries with the quadrature weights `twFn w` / `dW` (tensor /
discretized spaces; for `uniform_discr` `dW` is the geometric cell volume, see
`C02.discr_weight_eq_cell_volume`), of the component norms with the
product-space weights (product spaces); `wpn p n ω a = (Σ aᵢ^p ωᵢ)^{1/p}` resp. `max aᵢ ωᵢ`. -/
theorem C02.norm_eq_weighted_pnorm (close1 : ℝ → Bool) (p : Expo ℝ) (hp : ExpoPos p) :
    (∀ (n : Nat) (w : TW ℝ) (x : Nat → 𝕜), twPos w n →
      Space.norm (ops 𝕜) (roots close1) (.tens n w p) (.vec x) =
        wpn p n (twFn w) (fun i => ‖x i‖)) ∧
    (∀ (u : Bool) (axes : List (Axis ℝ)) (w : TW ℝ) (x : Nat → 𝕜),
      twPos w (axesSize axes) → axesPos axes →
      Space.norm (ops 𝕜) (roots close1) (.discr u axes w p) (.vec x) =
        wpn p (axesSize axes) (dW close1 u axes w p) (fun i => ‖x i‖)) ∧
    (∀ (m : Nat) (w : PW ℝ) (comp : Nat → Space ℝ) (xs : Nat → El 𝕜), pwPos w m →
      Space.norm (ops 𝕜) (roots close1) (.prod m w p comp) (.tup xs) =
        wpn p m (pwFn w)
          (fun k => |Space.norm (ops 𝕜) (roots close1) (comp k) (xs k)|)) :=
  ⟨fun n w x hw => by simp only [Space.norm, tNorm_eq_wpn close1 w n hw p hp],
   fun u axes w x hw ha => by simp only [Space.norm, dNorm_eq_wpn close1 u axes w hw ha p hp],
   fun m w comp xs hw => by simp only [Space.norm, pNorm_eq_wpn close1 w m hw p hp]⟩

/-! ### non-vacuity: the hypotheses are satisfiable on concrete non-trivial instances -/

/-- positive weights / shaped elements / exponents: an array-weighted product of a
constant-weighted tensor space and a discretized space with nodes on the boundary -/
example : SpacePos exSpace ∧ Shaped exSpace exEl ∧ AllExpo (fun p => p = .two) exSpace ∧
    AllExpo ExpoGe1 exSpace ∧ AllExpo ExpoPos exSpace := by
  have h2 : AllExpo (fun p => p = .two) exSpace := by
    refine ⟨rfl, fun k _ => ?_⟩
    by_cases h : k = 0 <;> simp [h, AllExpo]
  exact ⟨exSpace_pos, exEl_shaped, h2, AllExpo.mono (fun p hp => by subst hp; trivial) _ h2,
    AllExpo.mono (fun p hp => by subst hp; trivial) _ h2⟩

/-- a generic exponent `p = 3/2 ≥ 1` satisfies the hypotheses of the triangle inequality -/
example : AllExpo ExpoGe1 (.tens 3 (.arr fun i => (i : ℝ) + 1) (.gen (3 / 2)) : Space ℝ) := by
  simp only [AllExpo, ExpoGe1]; norm_num

/-- on that instance `⟨x, x⟩` is not zero (the theorems are not about a trivial form) -/
example : Space.inner (ops ℝ).toIOps (fun _ => false) exSpace exEl exEl ≠ 0 := by
  intro h0
  have h := (C02.inner_self_eq_zero _ _ exSpace_pos _ exEl_shaped).mp h0
  have := h 0 (by norm_num)
  simp only [exSpace, exEl, ↓reduceIte, ZeroOn] at this
  have := this 0 (by norm_num)
  norm_num at this

open Classical in
/-- hypotheses of `discr_one_inner_eq_volume`: `uniform_discr(0, 4, 5, nodes_on_bdry=True)`
(cell volume exactly 1, the input of the repaired finding C02-F1) -/
example : Ideal (fun r => decide (r = 1)) ∧
    (∀ s ∈ [(⟨0, 4, 5, true, true⟩ : AxSpec ℝ)], s.a < s.b ∧ 1 ≤ s.n) := by
  refine ⟨fun r h => by simpa using h, fun s hs => ?_⟩
  simp only [List.mem_singleton] at hs; subst hs; norm_num

open Classical in
/-- the geometric cell volumes of `uniform_discr(0, 4, 5, nodes_on_bdry=True)` are
`1/2, 1, 1, 1, 1/2` (non-trivial instance of `cellProd`) -/
example : cellProd [⟨0, 4, 5, true, true⟩] 0 = 1 / 2 ∧ cellProd [⟨0, 4, 5, true, true⟩] 2 = 1 ∧
    cellProd [⟨0, 4, 5, true, true⟩] 4 = 1 / 2 := by
  refine ⟨?_, ?_, ?_⟩ <;>
    norm_num [cellProd, cellSize, node0, specSize, mkAxis, gridEnds]

open Classical in
/-- hypotheses of `discr_one_inner_with_tolerance` / `discr_explicit_one_inner`: a closeness test
with a real tolerance (`|r - 1| ≤ 1e-5`) is `Tol` but NOT `Ideal`, and an explicit-grid axis
with 3 nodes and a left fraction `1 + 5e-6` inside the tolerance -/
example : Tol (fun r => decide (|r - 1| ≤ 1 / 100000)) (1 / 100000) ∧
    ¬ Ideal (fun r => decide (|r - 1| ≤ 1 / 100000)) ∧
    (∀ a ∈ [(⟨3, 1 + 1 / 200000, 1 / 2⟩ : Axis ℝ)], 2 ≤ a.n) ∧
    axisTotalTol (fun r => decide (|r - 1| ≤ 1 / 100000)) ⟨3, 1 + 1 / 200000, 1 / 2⟩ = 5 / 2 := by
  refine ⟨fun r h => by simpa using h, fun h => ?_, fun a ha => ?_, ?_⟩
  · have := h (1 + 1 / 200000) (by norm_num [abs_le])
    norm_num at this
  · simp only [List.mem_singleton] at ha; subst ha; norm_num
  · norm_num [axisTotalTol, abs_le]

/-- hypothesis of `norm_mono` on the concrete product space: `x/2` is dominated by `x` -/
example : ModLe exSpace (exEl.smul (1 / 2)) exEl := by
  intro k _
  by_cases h : k = 0 <;>
    simp only [exSpace, exEl, El.smul, h, ↓reduceIte, ModLe] <;>
    intro i _ <;> rw [norm_mul] <;>
    exact mul_le_of_le_one_left (_root_.norm_nonneg _) (by norm_num)

/-- hypotheses of the tensor-space statements: weights `(1, 2, 3)` -/
example : twPos (.arr fun i => (i : ℝ) + 1) 3 := fun i _ => by simp only [twFn]; positivity

/-! ### custom inner / norm / dist (`CustomInner`, `CustomNorm`, `CustomDist`; driver ops
`cinner` / `cnorm` / `cdist`, correspondence stream `custom/…`) -/

section custom
variable {E : Type} [AddCommGroup E] [Module 𝕜 E]

omit [Module 𝕜 E] in
/-- The delegation rules of the three custom weighting classes, by construction of the model
(a case analysis over the three classes; the content is that the model the driver executes
and the stream `custom/*` compares with the code has exactly this table): `inner` is defined
iff the user gave `inner=` (iff the exponent is 2.0), `norm` raises `NotImplementedError` iff
the user gave `dist=`, `dist` is always defined, and unless the user gave `dist=` the code's
`dist(x, y)` is its `norm(x - y)`. -/
theorem C02.custom_delegation_table (c : Custom 𝕜 ℝ E) (x y : E) :
    ((cInner c x y).isSome ↔ ∃ f, c = .inner f) ∧
    ((c.expo.isTwo = true) ↔ ∃ f, c = .inner f) ∧
    ((cNorm RCLike.re Real.sqrt c x).isNone ↔ ∃ d, c = .dist d) ∧
    (cDist RCLike.re Real.sqrt (fun a b => a - b) c x y).isSome ∧
    ((∀ d, c ≠ .dist d) → cDist RCLike.re Real.sqrt (fun a b => a - b) c x y =
      cNorm RCLike.re Real.sqrt c (x - y)) := by
  cases c <;> simp [cInner, cNorm, cDist, Custom.expo, Expo.isTwo]

/-- `inner=f` with `f` satisfying the conditions the docstring of `CustomInner` demands
(conjugate symmetry, linearity in the first argument, `re f(x,x) ≥ 0`), on ANY element type
that is a vector space (tensors, product-space elements of any nesting): the norm the code
derives (`Weighting.norm = sqrt(inner(x, x).real)`) satisfies `‖x‖² = re ⟨x, x⟩`, is absolutely
homogeneous, satisfies the triangle inequality and Cauchy–Schwarz against the user's inner
product, and the derived `dist(x, y) = norm(x - y)` is a pseudo-metric.  (Uses Mathlib's
`InnerProductSpace.Core`; nothing is assumed about how `f` is computed.) -/
theorem C02.custom_inner_derived_norm_dist (f : E → E → 𝕜) (hf : IsInner f) :
    ∃ N : E → ℝ,
      (∀ x, cNorm RCLike.re Real.sqrt (.inner f : Custom 𝕜 ℝ E) x = some (N x)) ∧
      (∀ x y, cDist RCLike.re Real.sqrt (fun a b => a - b) (.inner f : Custom 𝕜 ℝ E) x y =
        some (N (x - y))) ∧
      (∀ x, 0 ≤ N x ∧ N x ^ 2 = RCLike.re (f x x)) ∧
      (∀ (a : 𝕜) x, N (a • x) = ‖a‖ * N x) ∧
      (∀ x y, N (x + y) ≤ N x + N y) ∧
      (∀ x y, cInner (.inner f : Custom 𝕜 ℝ E) x y = some (f x y) ∧ ‖f x y‖ ≤ N x * N y) ∧
      IsDist (fun x y => N (x - y)) := by
  obtain ⟨h1, h2, h3⟩ := hf.norm_props
  refine ⟨fun x => Real.sqrt (RCLike.re (f x x)), fun x => rfl, fun x y => rfl,
    fun x => ⟨Real.sqrt_nonneg _, Real.sq_sqrt (hf.nonneg x)⟩, h1, h2,
    fun x y => ⟨rfl, h3 x y⟩,
    IsNorm.dist_props (𝕜 := 𝕜) (g := fun x => Real.sqrt (RCLike.re (f x x))) ⟨h1, h2⟩⟩

/-- `norm=g` with `g` absolutely homogeneous and subadditive (the conditions the docstring of
`CustomNorm` demands): the `dist` the code derives (`Weighting.dist = norm(x1 - x2)`) is
`g(x - y)` and is a pseudo-metric (zero on the diagonal, symmetric, triangle inequality); the
inner product is undefined. -/
theorem C02.custom_norm_derived_dist (g : E → ℝ) (hg : IsNorm 𝕜 g) :
    (∀ x y, cDist RCLike.re Real.sqrt (fun a b => a - b) (.norm g : Custom 𝕜 ℝ E) x y =
      some (g (x - y))) ∧
    (∀ x, cNorm RCLike.re Real.sqrt (.norm g : Custom 𝕜 ℝ E) x = some (g x)) ∧
    (∀ x y, cInner (.norm g : Custom 𝕜 ℝ E) x y = none) ∧
    IsDist (fun x y => g (x - y)) :=
  ⟨fun _ _ => rfl, fun _ => rfl, fun _ _ => rfl, hg.dist_props⟩

end custom

/-- The three callable families that the check hands to the real code (`inner = vdot(B v, B u)`
for any matrix `B`, `norm = max(w |u|)` and `dist = min(cap, Σ w |u - v|)` for non-negative
`w`, `cap`) satisfy the conditions of the docstrings, for every size `n`: so the hypotheses of
`custom_inner_derived_norm_dist` / `custom_norm_derived_dist` hold on exactly the cases the
stream `custom/*` executes on both sides. -/
theorem C02.custom_callables_admissible (n : Nat) (B : Nat → Nat → 𝕜) (w : Nat → ℝ)
    (hw : ∀ i, 0 ≤ w i) (cap : ℝ) (hc : 0 ≤ cap) :
    IsInner (gramInner (ops 𝕜).toIOps n B) ∧ IsNorm 𝕜 (wMaxNorm (ops 𝕜).abs n w) ∧
    IsDist (capDist (K := 𝕜) (ops 𝕜).abs n w cap) :=
  ⟨gramInner_isInner n B, wMaxNorm_isNorm n w hw, capDist_isDist n w hw cap hc⟩

/-- A custom inner product under a `DiscretizedSpace` whose boundary nodes carry partial cells
(`DiscretizedSpace._inner/_norm` scale the boundary entries of `x` by `frac` resp.
`frac ** (1/2)` BEFORE calling the user's `inner`): conjugate symmetry and `‖x‖² = re⟨x, x⟩`
survive PROVIDED the user's form commutes with real diagonal scalings (`hcomm`; true for
diagonal Gram matrices).  Full statement without `hcomm`: false, see
`C02.custom_discr_inner_symm_fails` (finding C02-F8). -/
theorem C02.custom_discr_inner_symm_partial (close1 : ℝ → Bool) (u : Bool)
    (axes : List (Axis ℝ)) (ha : axesPos axes) (f : (Nat → 𝕜) → (Nat → 𝕜) → 𝕜) (hf : IsInner f)
    (hcomm : ∀ (d : Nat → ℝ) (x y : Nat → 𝕜),
      f (fun i => x i * (d i : 𝕜)) y = f x (fun i => y i * (d i : 𝕜)))
    (x y : Nat → 𝕜) :
    cdInner (ops 𝕜).toIOps close1 u axes (.inner f) y x =
      (cdInner (ops 𝕜).toIOps close1 u axes (.inner f) x y).map (starRingEnd 𝕜) ∧
    ∃ r, cdNorm (ops 𝕜) (roots close1) u axes (.inner f) x = some r ∧
      cdInner (ops 𝕜).toIOps close1 u axes (.inner f) x x = some ((r ^ 2 : ℝ) : 𝕜) := by
  have hreal : ∀ z : Nat → 𝕜, f z z = ((RCLike.re (f z z) : ℝ) : 𝕜) := fun z => by
    have h := hf.conj_symm z z
    exact ((RCLike.conj_eq_iff_re).mp h.symm).symm
  constructor
  · simp only [cdInner, ops_rK]
    split_ifs
    · simp only [cInner, Option.map_some]
      rw [hcomm _ y x, hf.conj_symm]
    · simp only [cInner, Option.map_some, hf.conj_symm x]
  · simp only [cdNorm, cdInner, ops_rK, roots_close1, roots_rpow, Custom.expo, Expo.inv]
    by_cases hsc : scalesBoundary close1 u axes (TW.const 1) Expo.two = true
    · simp only [hsc, ↓reduceIte]
      refine ⟨_, rfl, ?_⟩
      simp only [cInner, ops_re, roots_sqrt]
      rw [Real.sq_sqrt (hf.nonneg _), ← hreal, ← hcomm]
      congr 2
      funext i
      rw [mul_assoc, ← RCLike.ofReal_mul, ← sq, bfac_sq close1 axes ha]
    · simp only [hsc, Bool.false_eq_true, ↓reduceIte]
      refine ⟨_, rfl, ?_⟩
      simp only [cInner, ops_re, roots_sqrt]
      rw [Real.sq_sqrt (hf.nonneg _), ← hreal]

/-- What SURVIVES of the axioms for a custom inner product under a `DiscretizedSpace` with
partial boundary cells, for EVERY admissible user form `f` (no commutation hypothesis; any
dimension, shape, boundary fractions, tolerance test): the code's `norm` (boundary entries
scaled by `frac ** (1/2)`, then `sqrt(f(·,·).real)`) is absolutely homogeneous and subadditive,
and the code's `dist` (both arguments scaled, then `Weighting.dist`) equals `norm(x - y)` and
is a pseudo-metric.  Only the relation between `norm` and `inner` (and the symmetry of `inner`)
is lost (finding C02-F8); these are the parts the stream `custom/D-scaled/i/*` keeps checking
on the real code. -/
theorem C02.custom_discr_norm_dist_seminorm (close1 : ℝ → Bool) (u : Bool)
    (axes : List (Axis ℝ)) (f : (Nat → 𝕜) → (Nat → 𝕜) → 𝕜) (hf : IsInner f) :
    ∃ N : (Nat → 𝕜) → ℝ,
      (∀ x, cdNorm (ops 𝕜) (roots close1) u axes (.inner f) x = some (N x)) ∧
      (∀ x y, cdDist (ops 𝕜) (roots close1) u axes (.inner f) x y = some (N (x - y))) ∧
      (∀ (a : 𝕜) x, N (a • x) = ‖a‖ * N x) ∧ (∀ x y, N (x + y) ≤ N x + N y) ∧
      IsDist (fun x y => N (x - y)) := by
  obtain ⟨h1, h2, _⟩ := hf.norm_props
  by_cases hsc : scalesBoundary close1 u axes (TW.const 1) Expo.two = true
  · let S : (Nat → 𝕜) → (Nat → 𝕜) := fun x i =>
      x i * ((bfac close1 (fun f => f ^ ((1 : ℝ) / 2)) axes i : ℝ) : 𝕜)
    have hSa : ∀ (a : 𝕜) x, S (a • x) = a • S x := fun a x => by
      funext i; simp only [S, Pi.smul_apply, smul_eq_mul, mul_assoc]
    have hSadd : ∀ x y, S (x + y) = S x + S y := fun x y => by
      funext i; simp only [S, Pi.add_apply, add_mul]
    have hN : IsNorm 𝕜 (fun x => Real.sqrt (RCLike.re (f (S x) (S x)))) :=
      ⟨fun a x => by simp only [hSa]; exact h1 a (S x),
       fun x y => by simp only [hSadd]; exact h2 (S x) (S y)⟩
    refine ⟨fun x => Real.sqrt (RCLike.re (f (S x) (S x))), fun x => ?_, fun x y => ?_,
      hN.smul, hN.tri, hN.dist_props⟩
    · simp only [cdNorm, Custom.expo, roots_close1, hsc, ↓reduceIte, cNorm, ops_re, roots_sqrt,
        ops_rK, roots_rpow, Expo.inv, S]
    · have hv : ∀ x y : Nat → 𝕜, vsub (S x) (S y) = S (x - y) := fun x y => by
        funext i; simp only [vsub, S, Pi.sub_apply, sub_mul]
      simp only [cdDist, Custom.expo, roots_close1, hsc, ↓reduceIte, cDist, cNorm, ops_re,
        roots_sqrt, ops_rK, roots_rpow, Expo.inv]
      rw [show (fun i => x i * ((bfac close1 (fun f => f ^ ((1 : ℝ) / 2)) axes i : ℝ) : 𝕜)) = S x
        from rfl, show (fun i => y i * ((bfac close1 (fun f => f ^ ((1 : ℝ) / 2)) axes i : ℝ) : 𝕜))
        = S y from rfl, hv]
  · have hN : IsNorm 𝕜 (fun x => Real.sqrt (RCLike.re (f x x))) := ⟨h1, h2⟩
    refine ⟨fun x => Real.sqrt (RCLike.re (f x x)), fun x => ?_, fun x y => ?_,
      hN.smul, hN.tri, hN.dist_props⟩
    · simp only [cdNorm, Custom.expo, roots_close1, hsc, Bool.false_eq_true, ↓reduceIte, cNorm,
        ops_re, roots_sqrt]
    · have hv : ∀ x y : Nat → 𝕜, vsub x y = x - y := fun x y => by
        funext i; simp only [vsub, Pi.sub_apply]
      simp only [cdDist, Custom.expo, roots_close1, hsc, Bool.false_eq_true, ↓reduceIte, cDist,
        cNorm, ops_re, roots_sqrt, hv]

open Classical in
/-- FINDING C02-F8 on the model (the stream `custom/D-scaled/i/*` shows the same on the real
code): two nodes, left node on the domain boundary (`frac = 1/2`), user inner product
`vdot(B v, B u)` with `B = [[1, 1], [0, 1]]`: `⟨e₀, e₁⟩ = 1/2` but `⟨e₁, e₀⟩ = 1`, although the
user's form IS conjugate symmetric (`custom_callables_admissible`). -/
theorem C02.custom_discr_inner_symm_fails :
    let B : Nat → Nat → ℝ := fun i j => if i ≤ j then 1 else 0
    let e0 : Nat → ℝ := fun i => if i = 0 then 1 else 0
    let e1 : Nat → ℝ := fun i => if i = 1 then 1 else 0
    let c : Custom ℝ ℝ (Nat → ℝ) := .inner (gramInner (ops ℝ).toIOps 2 B)
    cdInner (ops ℝ).toIOps (fun r => decide (r = 1)) true [⟨2, 1 / 2, 1⟩] c e0 e1 = some (1 / 2) ∧
    cdInner (ops ℝ).toIOps (fun r => decide (r = 1)) true [⟨2, 1 / 2, 1⟩] c e1 e0 = some 1 := by
  constructor <;>
    norm_num [cdInner, scalesBoundary, uniformlyWeighted, allClose1, Custom.expo, Expo.isInf,
      cInner, gramInner, innerDefault, matVec, sumTo, bfac, sideFac, axesSize]

/-- hypotheses of the custom-weighting theorems on concrete non-trivial instances: a
non-diagonal Gram form on `ℂ³` with `⟨e₀, e₁⟩ = 1 ≠ 0`, weights `(1, 2, 3)`, cap `4`; and a
diagonal form `⟨x, y⟩ = Σ (i+1) xᵢ conj yᵢ`, which satisfies `hcomm` of
`custom_discr_inner_symm_partial` -/
example : IsInner (gramInner (ops ℂ).toIOps 3 (fun i j => if i ≤ j then 1 else 0)) ∧
    gramInner (ops ℂ).toIOps 3 (fun i j => if i ≤ j then 1 else 0)
      (fun i => if i = 0 then 1 else 0) (fun i => if i = 1 then 1 else 0) = 1 ∧
    IsNorm ℂ (wMaxNorm (ops ℂ).abs 3 (fun i => (i : ℝ) + 1)) ∧
    IsDist (capDist (K := ℂ) (ops ℂ).abs 3 (fun i => (i : ℝ) + 1) 4) ∧
    axesPos [(⟨2, 1 / 2, 1⟩ : Axis ℝ)] := by
  refine ⟨gramInner_isInner _ _, ?_, wMaxNorm_isNorm _ _ (fun i => by positivity),
    capDist_isDist _ _ (fun i => by positivity) _ (by norm_num), fun a ha => ?_⟩
  · norm_num [gramInner, innerDefault, matVec, sumTo]
  · simp only [List.mem_singleton] at ha; subst ha; norm_num

example : ∀ (d : Nat → ℝ) (x y : Nat → ℂ),
    tInner (ops ℂ).toIOps (.arr fun i => (i : ℝ) + 1) 3 (fun i => x i * (d i : ℂ)) y =
      tInner (ops ℂ).toIOps (.arr fun i => (i : ℝ) + 1) 3 x (fun i => y i * (d i : ℂ)) := by
  intro d x y
  simp only [tInner, innerDefault, sumTo_eq_sum, ops_rK, ops_conj, map_mul, Complex.conj_ofReal]
  exact Finset.sum_congr rfl (fun i _ => by ring)

/-! ### when the inner product exists -/

/-- The driver answers `err:notimpl` (the code raises `NotImplementedError`) exactly when
`Space.hasInner` is false; this is the case iff SOME exponent in the space tree is not 2 — at
the top (`ProductSpace…Weighting.inner` / `NumpyTensorSpace…Weighting.inner` refuse) or in a
component at any nesting depth (the component's `inner` raises while the product space sums
the component inner products).  Hence the hypothesis `AllExpo (· = .two)` of
`norm2_sq_eq_inner` and the domain of the inner-product theorems is exactly the set of spaces
on which the code returns a value (stream branches `inner/notimpl/top`,
`inner/notimpl/nested`). -/
theorem C02.inner_defined_iff_all_exponents_two (s : Space ℝ) :
    s.hasInner = true ↔ AllExpo (fun p => p = .two) s := by
  induction s with
  | tens n w p => simp only [Space.hasInner, AllExpo, Expo.isTwo_iff]
  | discr u axes w p => simp only [Space.hasInner, AllExpo, Expo.isTwo_iff]
  | prod m w p comp ih =>
    simp only [Space.hasInner, AllExpo, Bool.and_eq_true, Expo.isTwo_iff, List.all_eq_true,
      List.mem_range, ih]

/-- a product space with exponent 2 whose nested component `ProductSpace(rn(2, exponent=1))`
has a leaf of exponent 1: no inner product, although the two upper levels have exponent 2 -/
example : (Space.prod 2 (.const 1) .two (fun k => if k = 0 then .tens 3 (.const 1) .two
    else .prod 1 (.arr fun _ => 2) .two (fun _ => .tens 2 (.const 1) .one)) : Space ℝ).hasInner
    = false := by
  simp [Space.hasInner, Expo.isTwo, List.range, List.range.loop]

/-! ### which routine computes the sums (extracted branch tables) -/

/-- About the decision tree EXTRACTED from `_inner_default` (`Gen.innerTree`, regenerated from
/repo on every run; today: real dtype → `np.tensordot` above `THRESHOLD_MEDIUM` entries else
`np.dot`; complex → `np.vdot(x2, x1)`): whichever routine the code selects for whatever size /
dtype class, the value is the documented sum `Σ x1ᵢ · conj(x2ᵢ)` (`innerDefault`, on which all
inner-product theorems above rest), provided real dtypes hold real data.  Not by construction:
the proof inspects the generated table — a source in which a non-conjugating routine becomes
reachable for complex data, or `np.vdot` gets its operands in the other order, is translated
(leaves `dot`/`tensordot`/`vdot12`) and this proof fails (see the `example` below); a changed
threshold constant is translated and the theorem still holds.  Stream `dispatch/*` compares
the selected routine and the value with the real code for sizes below / at / above the
threshold. -/
theorem C02.inner_dispatch_eq_innerDefault (f : Facts) (x y : Nat → 𝕜)
    (hreal : f.isReal = true → ∀ i, starRingEnd 𝕜 (y i) = y i) :
    innerDispatch (ops 𝕜).toIOps Gen.innerTree f x y =
      innerDefault (ops 𝕜).toIOps f.size x y := by
  have key : ∀ l, l = Gen.innerTree.select f →
      (l = .vdot21 ∨ (f.isReal = true ∧ (l = .dot ∨ l = .tensordot))) := by
    intro l hl
    unfold Gen.innerTree at hl
    simp only [Tree.select, Cond.eval, decide_eq_true_eq] at hl
    split_ifs at hl <;> subst hl <;> simp_all
  simp only [innerDispatch]
  rcases key _ rfl with h | ⟨hr, h | h⟩ <;> rw [h] <;>
    simp only [InnerLeaf.val, innerDefault, ops_conj, sumTo_eq_sum] <;>
    refine Finset.sum_congr rfl (fun i _ => ?_)
  · exact mul_comm _ _
  · rw [hreal hr i]
  · rw [hreal hr i]

/-- Both routines of `_norm_default` (BLAS `nrm2` when `_blas_is_applicable`, else
`np.linalg.norm`; tree `Gen.normTree` extracted from the source) compute the Euclidean norm
`vecNorm .two` of the moduli on which `tNorm` is built — for every selection (by case analysis
on the two leaf routines: both are specified as `sqrt(Σ aᵢ²)`; their different floating-point
scaling is outside the model). -/
theorem C02.norm_dispatch_eq_vecNorm (close1 : ℝ → Bool) (f : Facts) (a : Nat → ℝ) :
    normDispatch Real.sqrt Gen.normTree f a = vecNorm (roots close1) .two f.size a := by
  simp only [normDispatch]
  cases Gen.normTree.select f <;> rfl

/-- the hypotheses of `inner_dispatch_eq_innerDefault` on a concrete instance (real data, size
above the extracted threshold), and: the statement is FALSE for a table that sends complex
data to `np.dot` — the theorem depends on what was extracted -/
example : (⟨true, Gen.thresholdMedium + 1, true⟩ : Facts).isReal = true →
    ∀ i, starRingEnd ℝ ((fun i => (i : ℝ) + 1) i) = (fun i => (i : ℝ) + 1) i :=
  fun _ _ => rfl

example : ¬ (∀ (f : Facts) (x y : Nat → ℂ),
    innerDispatch (ops ℂ).toIOps (.leaf .dot) f x y = innerDefault (ops ℂ).toIOps f.size x y) := by
  intro h
  have := h ⟨false, 1, true⟩ (fun _ => Complex.I) (fun _ => Complex.I)
  simp [innerDispatch, Tree.select, InnerLeaf.val, innerDefault, sumTo] at this
  have h2 := congrArg Complex.re this
  norm_num at h2
