/-
C02 — inner product, norm and dist obey their axioms and the documented weighting.
Property theorems only.  They are statements about the executable model
`OdlModel/Model/Weighting.lean` (the functions the driver runs against /repo on every check),
instantiated at `𝕜 = ℝ` or `ℂ` (`RCLike 𝕜`) with real weights: `ops 𝕜`, `roots close1`
(`Lemmas/Weighting.lean`).  All theorems hold for every space tree (tensor, discretized, and
products nested to any depth), every length / shape and every element.
-/
import OdlModel.Lemmas.Weighting
import Mathlib.Tactic.NormNum

open OdlModel.Weighting OdlModel.C02 Finset

variable {𝕜 : Type} [RCLike 𝕜]

/-- `⟨y, x⟩ = conj ⟨x, y⟩` for every space (any weighting kind, any nesting), all elements. -/
theorem C02.inner_conj_symm (close1 : ℝ → Bool) (s : Space ℝ) (x y : El 𝕜) :
    Space.inner (ops 𝕜) close1 s y x = starRingEnd 𝕜 (Space.inner (ops 𝕜) close1 s x y) := by
  induction s generalizing x y with
  | tens n w p =>
    cases x <;> cases y <;> cases w <;>
      simp [Space.inner, tInner, innerDefault, sumTo_eq_sum, map_sum, mul_comm, mul_left_comm]
  | discr u axes w p =>
    cases x <;> cases y <;> cases w <;>
      simp [Space.inner, dInner, tInner, innerDefault, sumTo_eq_sum] <;>
      split_ifs <;> simp [map_sum, mul_comm, mul_left_comm]
  | prod m w p comp ih =>
    cases x <;> cases y <;> cases w <;>
      simp [Space.inner, pInner, sumTo_eq_sum, map_sum, ← ih]

/-- Additivity in the first argument: `⟨x + x', y⟩ = ⟨x, y⟩ + ⟨x', y⟩`. -/
theorem C02.inner_add_left (close1 : ℝ → Bool) (s : Space ℝ) (x x' y : El 𝕜)
    (hx : Shaped s x) (hx' : Shaped s x') (hy : Shaped s y) :
    Space.inner (ops 𝕜) close1 s (x.add x') y =
      Space.inner (ops 𝕜) close1 s x y + Space.inner (ops 𝕜) close1 s x' y := by
  induction s generalizing x x' y with
  | tens n w p =>
    cases x <;> cases x' <;> cases y <;> cases w <;>
      simp_all [Shaped, El.add, Space.inner, tInner, innerDefault, sumTo_eq_sum, add_mul, mul_add,
        Finset.sum_add_distrib]
  | discr u axes w p =>
    cases x <;> cases x' <;> cases y <;> cases w <;>
      simp_all [Shaped, El.add, Space.inner, dInner, tInner, innerDefault, sumTo_eq_sum] <;>
      split_ifs <;> simp [add_mul, mul_add, Finset.sum_add_distrib]
  | prod m w p comp ih =>
    cases x <;> cases x' <;> cases y <;> cases w <;>
      simp_all [Shaped, El.add, Space.inner, pInner, sumTo_eq_sum, add_mul, mul_add,
        Finset.sum_add_distrib]

/-- Homogeneity in the first argument (linear, not conjugate-linear): `⟨a•x, y⟩ = a ⟨x, y⟩`. -/
theorem C02.inner_smul_left (close1 : ℝ → Bool) (s : Space ℝ) (a : 𝕜) (x y : El 𝕜)
    (hx : Shaped s x) (hy : Shaped s y) :
    Space.inner (ops 𝕜) close1 s (x.smul a) y = a * Space.inner (ops 𝕜) close1 s x y := by
  induction s generalizing x y with
  | tens n w p =>
    cases x <;> cases y <;> cases w <;>
      simp_all [Shaped, El.smul, Space.inner, tInner, innerDefault, sumTo_eq_sum, Finset.mul_sum,
        mul_assoc, mul_left_comm]
  | discr u axes w p =>
    cases x <;> cases y <;> cases w <;>
      simp_all [Shaped, El.smul, Space.inner, dInner, tInner, innerDefault, sumTo_eq_sum] <;>
      split_ifs <;> simp [Finset.mul_sum, mul_assoc, mul_left_comm]
  | prod m w p comp ih =>
    cases x <;> cases y <;> cases w <;>
      simp_all [Shaped, El.smul, Space.inner, pInner, sumTo_eq_sum, Finset.mul_sum,
        mul_assoc, mul_left_comm]

/-- Positivity: for positive weights (and boundary fractions) `⟨x, x⟩` is real and `≥ 0`. -/
theorem C02.inner_self_nonneg (close1 : ℝ → Bool) (s : Space ℝ) (hs : SpacePos s) (x : El 𝕜)
    (hx : Shaped s x) :
    0 ≤ RCLike.re (Space.inner (ops 𝕜) close1 s x x) ∧
      RCLike.im (Space.inner (ops 𝕜) close1 s x x) = 0 := by
  obtain ⟨r, hr, he, _⟩ := inner_self_real (𝕜 := 𝕜) close1 s hs x hx
  rw [he]; simpa using hr

/-- Definiteness: `⟨x, x⟩ = 0` iff every entry of `x` (inside the shape) is zero. -/
theorem C02.inner_self_eq_zero (close1 : ℝ → Bool) (s : Space ℝ) (hs : SpacePos s) (x : El 𝕜)
    (hx : Shaped s x) :
    Space.inner (ops 𝕜) close1 s x x = 0 ↔ ZeroOn s x := by
  obtain ⟨r, _, he, hz⟩ := inner_self_real (𝕜 := 𝕜) close1 s hs x hx
  rw [he, ← hz]; simp

/-- Cauchy–Schwarz, weighted, on every space tree with positive weights:
`|⟨x, y⟩|² ≤ ⟨x, x⟩ ⟨y, y⟩`. -/
theorem C02.cauchy_schwarz (close1 : ℝ → Bool) (s : Space ℝ) (hs : SpacePos s) (x y : El 𝕜)
    (hx : Shaped s x) (hy : Shaped s y) :
    ‖Space.inner (ops 𝕜) close1 s x y‖ ^ 2 ≤
      RCLike.re (Space.inner (ops 𝕜) close1 s x x) * RCLike.re (Space.inner (ops 𝕜) close1 s y y) := by
  induction s generalizing x y with
  | tens n w p =>
    cases x with
    | tup => simp [Shaped] at hx
    | vec x =>
    cases y with
    | tup => simp [Shaped] at hy
    | vec y =>
      simp only [Space.inner, tInner_eq_wsum, re_wsum]
      refine (wcs n (twFn w) _ (fun i => ‖x i‖ ^ 2) (fun i => ‖y i‖ ^ 2) (fun i hi => (hs i hi).le)
        (fun _ _ => sq_nonneg _) (fun _ _ => sq_nonneg _) (fun i _ => ?_)).trans (le_of_eq ?_)
      · simp [mul_pow]
      · congr 1 <;> exact Finset.sum_congr rfl (fun i _ => by rw [RCLike.mul_conj, ← RCLike.ofReal_pow, RCLike.ofReal_re])
  | discr u axes w p =>
    cases x with
    | tup => simp [Shaped] at hx
    | vec x =>
    cases y with
    | tup => simp [Shaped] at hy
    | vec y =>
      simp only [Space.inner, dInner_eq_wsum, re_wsum]
      refine (wcs _ (dW close1 u axes w p) _ (fun i => ‖x i‖ ^ 2) (fun i => ‖y i‖ ^ 2)
        (fun i hi => (dW_pos close1 u axes w p hs.1 hs.2 i hi).le)
        (fun _ _ => sq_nonneg _) (fun _ _ => sq_nonneg _) (fun i _ => ?_)).trans (le_of_eq ?_)
      · simp [mul_pow]
      · congr 1 <;> exact Finset.sum_congr rfl (fun i _ => by rw [RCLike.mul_conj, ← RCLike.ofReal_pow, RCLike.ofReal_re])
  | prod m w p comp ih =>
    cases x with
    | vec => simp [Shaped] at hx
    | tup xs =>
    cases y with
    | vec => simp [Shaped] at hy
    | tup ys =>
      simp only [Shaped] at hx hy
      simp only [Space.inner, pInner_eq_wsum, re_wsum]
      have nn : ∀ (zs : Nat → El 𝕜), (∀ k, Shaped (comp k) (zs k)) → ∀ k, k < m →
          0 ≤ RCLike.re (Space.inner (ops 𝕜) close1 (comp k) (zs k) (zs k)) := by
        intro zs hz k hk
        obtain ⟨r, hr, he, _⟩ := inner_self_real (𝕜 := 𝕜) close1 (comp k) (hs.2 k hk) (zs k) (hz k)
        rw [he]; simpa using hr
      exact wcs m (pwFn w) _ _ _ (fun k hk => (hs.1 k hk).le) (nn xs hx) (nn ys hy)
        (fun k hk => ih k (hs.2 k hk) (xs k) (ys k) (hx k) (hy k))


/-- Documented weighted sum, tensor spaces: `⟨x, y⟩ = Σᵢ wᵢ xᵢ conj(yᵢ)` (`wᵢ = c` for a
constant weighting). -/
theorem C02.tensor_inner_eq_weighted_sum (close1 : ℝ → Bool) (n : Nat) (w : TW ℝ) (p : Expo ℝ)
    (x y : Nat → 𝕜) :
    Space.inner (ops 𝕜) close1 (.tens n w p) (.vec x) (.vec y) =
      ∑ i ∈ range n, x i * starRingEnd 𝕜 (y i) * ((twFn w i : ℝ) : 𝕜) := by
  simp only [Space.inner, tInner_eq_wsum]

/-- Documented quadrature, discretized spaces: `⟨x, y⟩ = Σᵢ ωᵢ xᵢ conj(yᵢ)` with
`ωᵢ = wᵢ · Π_axes (boundary-cell fraction of entry i)` when the boundary is scaled. -/
theorem C02.discr_inner_eq_quadrature (close1 : ℝ → Bool) (u : Bool) (axes : List (Axis ℝ))
    (w : TW ℝ) (p : Expo ℝ) (x y : Nat → 𝕜) :
    Space.inner (ops 𝕜) close1 (.discr u axes w p) (.vec x) (.vec y) =
      ∑ i ∈ range (axesSize axes),
        x i * starRingEnd 𝕜 (y i) * ((dW close1 u axes w p i : ℝ) : 𝕜) := by
  simp only [Space.inner, dInner_eq_wsum]

/-- Product spaces: `⟨x, y⟩ = Σₖ wₖ ⟨xₖ, yₖ⟩ₖ` over the components (`wₖ = c` for a constant
weighting), at every nesting depth. -/
theorem C02.pspace_inner_eq_sum (close1 : ℝ → Bool) (m : Nat) (w : PW ℝ) (p : Expo ℝ)
    (comp : Nat → Space ℝ) (xs ys : Nat → El 𝕜) :
    Space.inner (ops 𝕜) close1 (.prod m w p comp) (.tup xs) (.tup ys) =
      ∑ k ∈ range m, Space.inner (ops 𝕜) close1 (comp k) (xs k) (ys k) * ((pwFn w k : ℝ) : 𝕜) := by
  simp only [Space.inner, pInner_eq_wsum]

/- FULL STATEMENT (fails on the current code, finding C02-F1): for every `uniform_discr` with
default weighting, `⟨1, 1⟩ = ‖1‖² = Π (bₐ - aₐ)`.  It fails exactly when the cell volume is
(close to) 1.0 and some node lies on the boundary: `is_uniformly_weighted` then takes the
constant 1.0 for "unweighted" and drops the boundary-cell fractions
(`C02.discr_one_volume_fails`).  Proved below with the cell volume different from 1. -/
/-- For every `uniform_discr(min_pt, max_pt, shape, nodes_on_bdry=…)` (any dimension, any
shape, any per-axis-side boundary flags) with the default cell-volume weighting, exponent 2 and
cell volume ≠ 1: `⟨1, 1⟩ = Π (bₐ - aₐ)`, the volume of the domain.  The node placement,
boundary-cell fractions and cell sides are the model's own (`mkAxis`, following
`uniform_grid_fromintv` / `boundary_cell_fractions`). -/
theorem C02.discr_one_inner_eq_volume_partial (close1 : ℝ → Bool) (hc : Ideal close1)
    (specs : List (AxSpec ℝ)) (hs : ∀ s ∈ specs, s.a < s.b ∧ 1 ≤ s.n) (hne : specs ≠ [])
    (hcv : close1 (cellVolume specs) = false) :
    Space.inner (ops 𝕜) close1 (uniformDiscr (fun k => (k : ℝ)) specs .two none)
        (.vec fun _ => 1) (.vec fun _ => 1) =
      (((specs.map (fun s => s.b - s.a)).prod : ℝ) : 𝕜) := by
  have hw : defaultWeight (fun k => (k : ℝ)) specs (.two : Expo ℝ) = .const (cellVolume specs) := by
    cases specs with
    | nil => exact absurd rfl hne
    | cons s l => simp [defaultWeight, Expo.isInf, cellVolume]
  simp only [uniformDiscr, Option.getD, hw, Space.inner, dInner_eq_wsum]
  rw [← discr_one_sum close1 hc specs hs hcv]
  simp

open Classical in
/-- Counterexample on the model (= the code, finding C02-F1): `uniform_discr(0, 4, 5,
nodes_on_bdry=True)` has cell volume 1, and `⟨1, 1⟩ = 5`, not the volume 4. -/
theorem C02.discr_one_volume_fails :
    Space.inner (ops ℝ) (fun r => decide (r = 1))
        (uniformDiscr (fun k => (k : ℝ)) [⟨0, 4, 5, true, true⟩] .two none)
        (.vec fun _ => 1) (.vec fun _ => 1) = 5 ∧ ((4 : ℝ) - 0 ≠ 5) := by
  constructor
  · norm_num [uniformDiscr, defaultWeight, Expo.isInf, specAxes, mkAxis, gridEnds, prodL,
      Space.inner, dInner, scalesBoundary, uniformlyWeighted, allClose1, TW.isWeighted, tInner,
      innerDefault, sumTo, axesSize]
  · norm_num

/-- For exponent 2 (at the root; tensor, discretized or product space, any weighting with
positive weights): `‖x‖² = re ⟨x, x⟩` and `‖x‖ ≥ 0`, where `‖x‖` is the value computed by the
code's own norm branch (`sqrt(c)·nrm2`, `sqrt(max(re⟨x,x⟩,0))`, boundary scaling by
`frac ** (1/2)`, `sqrt(re Σ wₖ⟨xₖ,xₖ⟩)`). -/
theorem C02.norm2_sq_eq_inner (close1 : ℝ → Bool) (s : Space ℝ) (hs : SpacePos s)
    (hp : expoOf s = .two) (x : El 𝕜) (hx : Shaped s x) :
    (Space.norm (ops 𝕜) (roots close1) s x) ^ 2 = RCLike.re (Space.inner (ops 𝕜) close1 s x x) ∧
      0 ≤ Space.norm (ops 𝕜) (roots close1) s x := by
  cases s with
  | tens n w p =>
    cases x with
    | tup => simp [Shaped] at hx
    | vec x =>
      simp only [expoOf] at hp; subst hp
      simp only [Space.norm, Space.inner, tInner_eq_wsum, wsum_self, RCLike.ofReal_re]
      exact tNorm_two_sq close1 w n hs x
  | discr u axes w p =>
    cases x with
    | tup => simp [Shaped] at hx
    | vec x =>
      simp only [expoOf] at hp; subst hp
      simp only [Space.norm, Space.inner, dInner_eq_wsum, wsum_self, RCLike.ofReal_re]
      exact dNorm_two_sq close1 u axes w hs.1 hs.2 x
  | prod m w p comp =>
    cases x with
    | vec => simp [Shaped] at hx
    | tup xs =>
      simp only [expoOf] at hp; subst hp
      obtain ⟨h0, _⟩ := C02.inner_self_nonneg (𝕜 := 𝕜) close1 (.prod m w .two comp) hs (.tup xs) hx
      simp only [Space.inner] at h0
      simp only [Space.norm, Space.inner, pNorm, roots_sqrt, ops_re, roots_close1]
      exact ⟨Real.sq_sqrt h0, Real.sqrt_nonneg _⟩

/-- `dist(x, y) = norm(x - y)` on tensor spaces (the constant weighting has its own code). -/
theorem C02.tensor_dist_eq_norm_sub (close1 : ℝ → Bool) (n : Nat) (w : TW ℝ) (p : Expo ℝ)
    (x y : Nat → 𝕜) :
    Space.dist (ops 𝕜) (roots close1) (.tens n w p) (.vec x) (.vec y) =
      Space.norm (ops 𝕜) (roots close1) (.tens n w p) ((El.vec x).sub (.vec y)) := by
  cases w <;> cases p <;> simp [Space.dist, Space.norm, El.sub, tDist, tNorm]

/-- `dist(x, y) = norm(x - y)` on discretized spaces: scaling both arguments at the boundary
and taking the tensor distance equals the norm of the (scaled) difference. -/
theorem C02.discr_dist_eq_norm_sub (close1 : ℝ → Bool) (u : Bool) (axes : List (Axis ℝ)) (w : TW ℝ)
    (p : Expo ℝ) (x y : Nat → 𝕜) :
    Space.dist (ops 𝕜) (roots close1) (.discr u axes w p) (.vec x) (.vec y) =
      Space.norm (ops 𝕜) (roots close1) (.discr u axes w p) ((El.vec x).sub (.vec y)) := by
  cases w <;> cases p <;>
    simp only [Space.dist, Space.norm, El.sub, dDist, dNorm, tDist, tNorm] <;>
    split_ifs <;> simp only [sub_mul]

/- FULL STATEMENT (not proved): absolute homogeneity `‖a·x‖ = |a| ‖x‖` for every space tree.
Proved below for tensor spaces (all exponent branches, both weightings); the lifting through
the boundary scaling of discretized spaces and through product nodes is missing. -/
/-- Absolute homogeneity on tensor spaces, every exponent branch of the code (`2`, `inf`, `1`,
generic `p > 0`) and both weighting kinds: `‖a·x‖ = |a| ‖x‖`. -/
theorem C02.normP_smul_partial (close1 : ℝ → Bool) (n : Nat) (w : TW ℝ) (hw : twPos w n)
    (p : Expo ℝ) (hp : ∀ q, p = .gen q → 0 < q) (a : 𝕜) (x : Nat → 𝕜) :
    Space.norm (ops 𝕜) (roots close1) (.tens n w p) ((El.vec x).smul a) =
      ‖a‖ * Space.norm (ops 𝕜) (roots close1) (.tens n w p) (.vec x) := by
  have ha : 0 ≤ ‖a‖ := norm_nonneg a
  have hS : ∀ f : Nat → ℝ, (∀ i, 0 ≤ f i) → 0 ≤ ∑ i ∈ range n, f i :=
    fun f hf => Finset.sum_nonneg (fun i _ => hf i)
  cases w with
  | const c =>
    cases p with
    | two =>
      simp only [Space.norm, El.smul, tNorm, vecNorm, sumTo_eq_sum, roots_sqrt, ops_abs, norm_mul]
      have : ∑ i ∈ range n, ‖a‖ * ‖x i‖ * (‖a‖ * ‖x i‖) = ‖a‖ ^ 2 * ∑ i ∈ range n, ‖x i‖ * ‖x i‖ := by
        rw [Finset.mul_sum]; exact Finset.sum_congr rfl (fun i _ => by ring)
      rw [this, Real.sqrt_mul (sq_nonneg _), Real.sqrt_sq ha]; ring
    | inf =>
      simp only [Space.norm, El.smul, tNorm, vecNorm, ops_abs, norm_mul, maxTo_mul_left _ ha]; ring
    | one =>
      simp only [Space.norm, El.smul, tNorm, vecNorm, sumTo_eq_sum, ops_abs, norm_mul, ← Finset.mul_sum]
      ring
    | gen q =>
      have hq := hp q rfl
      simp only [Space.norm, El.smul, tNorm, vecNorm, sumTo_eq_sum, ops_abs, norm_mul, roots_rpow]
      have : ∑ i ∈ range n, (‖a‖ * ‖x i‖) ^ q = ‖a‖ ^ q * ∑ i ∈ range n, ‖x i‖ ^ q := by
        rw [Finset.mul_sum]
        exact Finset.sum_congr rfl (fun i _ => Real.mul_rpow ha (norm_nonneg _))
      rw [this, Real.mul_rpow (Real.rpow_nonneg ha _) (hS _ (fun i => Real.rpow_nonneg (norm_nonneg _) _)),
        ← Real.rpow_mul ha, mul_one_div_cancel hq.ne', Real.rpow_one]
      ring
  | arr w =>
    cases p with
    | two =>
      have e : ∀ y : Nat → 𝕜, RCLike.re (tInner (ops 𝕜) (.arr w) n y y) = ∑ i ∈ range n, ‖y i‖ ^ 2 * w i := by
        intro y; rw [tInner_eq_wsum, wsum_self, RCLike.ofReal_re]; rfl
      simp only [Space.norm, El.smul, tNorm, roots_sqrt, ops_re, e, norm_mul]
      have h0 : 0 ≤ ∑ i ∈ range n, ‖x i‖ ^ 2 * w i :=
        Finset.sum_nonneg (fun i hi => mul_nonneg (sq_nonneg _) (hw i (mem_range.mp hi)).le)
      have : ∑ i ∈ range n, (‖a‖ * ‖x i‖) ^ 2 * w i = ‖a‖ ^ 2 * ∑ i ∈ range n, ‖x i‖ ^ 2 * w i := by
        rw [Finset.mul_sum]; exact Finset.sum_congr rfl (fun i _ => by ring)
      rw [this, max_eq_left h0, max_eq_left (mul_nonneg (sq_nonneg _) h0),
        Real.sqrt_mul (sq_nonneg _), Real.sqrt_sq ha]
    | inf =>
      simp only [Space.norm, El.smul, tNorm, ops_abs, norm_mul, mul_assoc, maxTo_mul_left _ ha]
    | one =>
      simp only [Space.norm, El.smul, tNorm, sumTo_eq_sum, ops_abs, norm_mul, roots_rpow,
        Real.rpow_one, div_one, mul_assoc, ← Finset.mul_sum]
    | gen q =>
      have hq := hp q rfl
      simp only [Space.norm, El.smul, tNorm, sumTo_eq_sum, ops_abs, norm_mul, roots_rpow]
      have h0 : 0 ≤ ∑ i ∈ range n, ‖x i‖ ^ q * w i :=
        Finset.sum_nonneg (fun i hi => mul_nonneg (Real.rpow_nonneg (norm_nonneg _) _) (hw i (mem_range.mp hi)).le)
      have : ∑ i ∈ range n, (‖a‖ * ‖x i‖) ^ q * w i = ‖a‖ ^ q * ∑ i ∈ range n, ‖x i‖ ^ q * w i := by
        rw [Finset.mul_sum]
        exact Finset.sum_congr rfl (fun i _ => by rw [Real.mul_rpow ha (norm_nonneg _)]; ring)
      rw [this, Real.mul_rpow (Real.rpow_nonneg ha _) h0, ← Real.rpow_mul ha,
        mul_one_div_cancel hq.ne', Real.rpow_one]

/- FULL STATEMENT (not proved): `‖x + y‖ ≤ ‖x‖ + ‖y‖` for every space tree and every exponent
`p ≥ 1`.  Proved below for tensor spaces and `p ∈ {1, 2, ∞}`; generic `p` (via Minkowski,
`Real.Lp_add_le`) and the lifting to discretized / product spaces are missing. -/
/-- Triangle inequality on tensor spaces for the exponents 1, 2 and ∞, both weighting kinds:
`‖x + y‖ ≤ ‖x‖ + ‖y‖`. -/
theorem C02.normP_triangle_partial (close1 : ℝ → Bool) (n : Nat) (w : TW ℝ) (hw : twPos w n)
    (p : Expo ℝ) (hp : p = .one ∨ p = .two ∨ p = .inf) (x y : Nat → 𝕜) :
    Space.norm (ops 𝕜) (roots close1) (.tens n w p) ((El.vec x).add (.vec y)) ≤
      Space.norm (ops 𝕜) (roots close1) (.tens n w p) (.vec x) +
        Space.norm (ops 𝕜) (roots close1) (.tens n w p) (.vec y) := by
  cases w with
  | const c =>
    rcases Nat.eq_zero_or_pos n with rfl | hn
    · rcases hp with rfl | rfl | rfl <;> simp [Space.norm, El.add, tNorm, vecNorm, sumTo, maxTo]
    have hc : 0 < c := hw 0 hn
    rcases hp with rfl | rfl | rfl
    · simp only [Space.norm, El.add, tNorm, vecNorm, sumTo_eq_sum, ops_abs, roots_rpow, div_one,
        Real.rpow_one, ← mul_add, ← Finset.sum_add_distrib]
      exact mul_le_mul_of_nonneg_left (Finset.sum_le_sum (fun i _ => norm_add_le _ _)) hc.le
    · simp only [Space.norm, El.add, tNorm, vecNorm, sumTo_eq_sum, ops_abs, roots_sqrt, ← mul_add]
      refine mul_le_mul_of_nonneg_left ?_ (Real.sqrt_nonneg _)
      have := l2_tri n (fun _ => 1) (fun _ _ => zero_le_one) x y
      simpa [sq] using this
    · simp only [Space.norm, El.add, tNorm, vecNorm, ops_abs, ← mul_add]
      refine mul_le_mul_of_nonneg_left ?_ hc.le
      exact (maxTo_mono n _ _ (fun i _ => norm_add_le _ _)).trans (maxTo_add_le n _ _)
  | arr w =>
    rcases hp with rfl | rfl | rfl
    · simp only [Space.norm, El.add, tNorm, sumTo_eq_sum, ops_abs, roots_rpow, div_one,
        Real.rpow_one, ← Finset.sum_add_distrib]
      refine Finset.sum_le_sum (fun i hi => ?_)
      rw [← add_mul]
      exact mul_le_mul_of_nonneg_right (norm_add_le _ _) (hw i (mem_range.mp hi)).le
    · have e : ∀ z : Nat → 𝕜, RCLike.re (tInner (ops 𝕜) (.arr w) n z z) = ∑ i ∈ range n, ‖z i‖ ^ 2 * w i := by
        intro z; rw [tInner_eq_wsum, wsum_self, RCLike.ofReal_re]; rfl
      have h0 : ∀ z : Nat → 𝕜, 0 ≤ ∑ i ∈ range n, ‖z i‖ ^ 2 * w i := fun z =>
        Finset.sum_nonneg (fun i hi => mul_nonneg (sq_nonneg _) (hw i (mem_range.mp hi)).le)
      simp only [Space.norm, El.add, tNorm, roots_sqrt, ops_re, e, max_eq_left (h0 _)]
      exact l2_tri n w (fun i hi => (hw i hi).le) x y
    · simp only [Space.norm, El.add, tNorm, ops_abs]
      refine (maxTo_mono n _ _ (fun i hi => ?_)).trans (maxTo_add_le n _ _)
      rw [← add_mul]
      exact mul_le_mul_of_nonneg_right (norm_add_le _ _) (hw i hi).le

/- FULL STATEMENT (not proved): `dist(x, y) = dist(y, x)` on every space tree.  Product nodes
need `‖-z‖ = ‖z‖` through the tree (homogeneity lifting, see above). -/
/-- `dist(x, y) = dist(y, x)` on tensor and discretized spaces, every exponent and weighting. -/
theorem C02.dist_comm_partial (close1 : ℝ → Bool) (s : Space ℝ) (hs : ∀ m w p c, s ≠ .prod m w p c)
    (x y : Nat → 𝕜) :
    Space.dist (ops 𝕜) (roots close1) s (.vec x) (.vec y) =
      Space.dist (ops 𝕜) (roots close1) s (.vec y) (.vec x) := by
  have e : ∀ (w : Nat → ℝ) (n : Nat) (z : Nat → 𝕜),
      RCLike.re (tInner (ops 𝕜) (.arr w) n z z) = ∑ i ∈ range n, ‖z i‖ ^ 2 * w i := by
    intro w n z; rw [tInner_eq_wsum, wsum_self, RCLike.ofReal_re]; rfl
  have hm : ∀ (a b f : 𝕜), ‖a * f - b * f‖ = ‖b * f - a * f‖ := fun a b f => norm_sub_rev _ _
  cases s with
  | prod m w p c => exact absurd rfl (hs m w p c)
  | tens n w p =>
    cases w <;> cases p <;>
      simp only [Space.dist, tDist, tNorm, vecNorm, ops_abs, ops_re, e, norm_sub_rev (x _) (y _)]
  | discr u axes w p =>
    cases w <;> cases p <;>
      simp only [Space.dist, dDist, tDist, tNorm, vecNorm, ops_abs, ops_re, e, hm,
        norm_sub_rev (x _) (y _)]
/-- Product spaces: `dist(x, y) = norm(x - y)`.  Array weighting: inherited
`Weighting.dist`; constant weighting (own code on the component norms of `xₖ - yₖ`): exponents
`1`, `∞`, generic `p`.  (Exponent 2 with constant weighting additionally needs
`norm2_sq_eq_inner` on the components; not proved here.) -/
theorem C02.pspace_dist_eq_norm_sub_partial (close1 : ℝ → Bool) (m : Nat) (w : PW ℝ) (p : Expo ℝ)
    (hp : (∃ a, w = .arr a) ∨ p ≠ .two) (comp : Nat → Space ℝ) (xs ys : Nat → El 𝕜) :
    Space.dist (ops 𝕜) (roots close1) (.prod m w p comp) (.tup xs) (.tup ys) =
      Space.norm (ops 𝕜) (roots close1) (.prod m w p comp) ((El.tup xs).sub (.tup ys)) := by
  cases w with
  | arr a => simp only [Space.dist]
  | const c =>
    have hp' : p ≠ .two := by
      rcases hp with ⟨a, ha⟩ | h
      · cases ha
      · exact h
    cases p with
    | two => exact absurd rfl hp'
    | one => simp [Space.dist, Space.norm, El.sub, pDistConst, pNorm]
    | inf => simp [Space.dist, Space.norm, El.sub, pDistConst, pNorm]
    | gen q => simp [Space.dist, Space.norm, El.sub, pDistConst, pNorm]
/-- Product spaces, exponent `p ∉ {1, 2, ∞}`: the norm is the (weighted) p-norm of the component
norms, `c^{1/p} (Σₖ |‖xₖ‖|^p)^{1/p}` resp. `(Σₖ |‖xₖ‖ wₖ^{1/p}|^p)^{1/p}`; exponent `∞`:
`c · maxₖ |‖xₖ‖|` resp. `maxₖ |‖xₖ‖ wₖ|` (the maximum starts from 0). -/
theorem C02.pspace_norm_eq_norm_of_norms (close1 : ℝ → Bool) (m : Nat) (q : ℝ)
    (comp : Nat → Space ℝ) (xs : Nat → El 𝕜) (c : ℝ) (w : Nat → ℝ) :
    let nr := fun k => Space.norm (ops 𝕜) (roots close1) (comp k) (xs k)
    Space.norm (ops 𝕜) (roots close1) (.prod m (.const c) (.gen q) comp) (.tup xs) =
        c ^ (1 / q) * (∑ k ∈ range m, |nr k| ^ q) ^ (1 / q) ∧
    Space.norm (ops 𝕜) (roots close1) (.prod m (.arr w) (.gen q) comp) (.tup xs) =
        (∑ k ∈ range m, |nr k * w k ^ (1 / q)| ^ q) ^ (1 / q) ∧
    Space.norm (ops 𝕜) (roots close1) (.prod m (.const c) .inf comp) (.tup xs) =
        c * maxTo m (fun k => |nr k|) ∧
    Space.norm (ops 𝕜) (roots close1) (.prod m (.arr w) .inf comp) (.tup xs) =
        maxTo m (fun k => |nr k * w k|) := by
  simp [Space.norm, pNorm, vecNorm, sumTo_eq_sum]

/-! ### non-vacuity: the hypotheses are satisfiable on concrete non-trivial instances -/

/-- positive weights / shaped elements: an array-weighted product of a constant-weighted tensor
space and a discretized space with nodes on the boundary -/
example : SpacePos exSpace ∧ Shaped exSpace exEl ∧ expoOf exSpace = .two :=
  ⟨exSpace_pos, exEl_shaped, rfl⟩

/-- on that instance `⟨x, x⟩` is not zero (the theorems are not about a trivial form) -/
example : Space.inner (ops ℝ) (fun _ => false) exSpace exEl exEl ≠ 0 := by
  intro h0
  have h := (C02.inner_self_eq_zero _ _ exSpace_pos _ exEl_shaped).mp h0
  have := h 0 (by norm_num)
  simp only [exSpace, exEl, ↓reduceIte, ZeroOn] at this
  have := this 0 (by norm_num)
  norm_num at this

open Classical in
/-- hypotheses of `discr_one_inner_eq_volume_partial`: `uniform_discr(0, 1, 3,
nodes_on_bdry=(True, False))`, cell volume 2/5 ≠ 1 -/
example : Ideal (fun r => decide (r = 1)) ∧
    (∀ s ∈ [(⟨0, 1, 3, true, false⟩ : AxSpec ℝ)], s.a < s.b ∧ 1 ≤ s.n) ∧
    (fun r => decide (r = 1)) (cellVolume [⟨0, 1, 3, true, false⟩]) = false := by
  refine ⟨fun r h => by simpa using h, fun s hs => ?_, ?_⟩
  · simp only [List.mem_singleton] at hs; subst hs; norm_num
  · norm_num [cellVolume, mkAxis, gridEnds, prodL]

/-- hypotheses of the tensor-space norm theorems: weights `(1, 2, 3)` -/
example : twPos (.arr fun i => (i : ℝ) + 1) 3 := fun i _ => by simp only [twFn]; positivity
