/-
C06 — `op.derivative(x)` is the Fréchet derivative of `op` at `x`.
Property theorems only (helper lemmas and the structural inductions are in
`Lemmas/Deriv.lean`).  The model (`Model/Deriv.lean`) follows the derivative rules of
`odl/operator/operator.py`, `pspace_ops.py` (Broadcast/Reduction/Diagonal/ProductSpaceOperator)
and the polynomial leaves of `default_ops.py` (incl. the complex ones in the `C = R²` sense) as
coded; the correspondence check runs it against /repo on every run.

Polynomial world: scalars in an arbitrary commutative ring `R`; "the derivative of `op` at `x`
in direction `d`" is the coefficient of `ε` in `op(x + ε d)` over the dual numbers
`R[ε]/(ε²)` — for polynomial maps this is exactly the Fréchet derivative (over `ℝ`), and it
needs no analysis.
-/
import OdlModel.Model.Deriv
import OdlModel.Lemmas.Deriv
import OdlModel.Lemmas.UfuncDeriv
import OdlModel.Lemmas.DerivAnalytic
import OdlModel.Lemmas.DerivReal
import OdlModel.Lemmas.DerivLeaves
import OdlModel.Lemmas.DerivLeafComp
import OdlModel.Lemmas.DerivLin
import OdlModel.Model.DerivUfuncComp

open OdlModel.Deriv OdlModel.Deriv.Impl OdlModel.Deriv.Dual

/-- Main theorem (all trees, all depths, all dimensions, all base points and directions, every
commutative ring): for a tree that passes the constructor checks, `derivative(x)` does not
raise, and evaluating the tree on the dual vector `x + ε d` gives `op(x) + ε · derivative(x)(d)`
entry-wise.  This pins at which inner point every inner derivative is taken
(`left.derivative(right(x))`, `op.derivative(s·x)`, `op.derivative(v·x)`), which scalar or
vector multiplies what (`s · op'(s x)`, `right(x) · left'(x) + left(x) · right'(x)`), the
slices used by the block operators, and that the temporaries are handed on in the right
order. -/
theorem C06.deriv_sound_poly {R : Type} [CommRing R] [DecidableEq R]
    (i : Impl R) (hwf : i.wf = true) (x d : Vec R) :
    ∃ j, i.deriv x = some j ∧
      ∀ k, (i.map C).run (fun k => ⟨x k, d k⟩) k = ⟨i.run x k, j.run d k⟩ := by
  obtain ⟨j, e, _⟩ := deriv_type i x hwf
  refine ⟨j, e, fun k => ?_⟩
  have h1 := run_map_re i (fun k => (⟨x k, d k⟩ : Dual R)) k
  have h2 := run_map_eps i hwf (fun k => (⟨x k, d k⟩ : Dual R)) j e k
  cases h : (i.map C).run (fun k => (⟨x k, d k⟩ : Dual R)) k with
  | mk a b =>
    rw [h] at h1 h2
    simp only at h1 h2
    rw [h1, h2]

/-- Non-vacuity: the chain rule instance `(A x + x²)³` on `ℤ²` with `A = [[1,2],[3,4]]`,
`x = (1,2)`, `d = (1,0)`: value `(216, 3375)`, derivative `(324, 2025)`. -/
example :
    let i : Impl Int := .comp (.power 2 3)
      (.sum (.matrix 2 2 (fun r c => (r * 2 + c + 1 : Nat))) (.power 2 2) none none) none
    let x : Vec Int := fun k => k + 1
    let d : Vec Int := fun k => if k = 0 then 1 else 0
    i.wf = true ∧ (i.run x 0, i.run x 1) = (216, 3375) ∧
      (i.deriv x).map (fun j => (j.run d 0, j.run d 1, j.isLinear)) = some (324, 2025, true) := by
  decide

/-- Non-vacuity on the product-space and complex part of the model:
`ProductSpaceOperator([[0, x²], [A, 0]])` on `ℤ² × ℤ²` and `|·|² ∘ ((1+2i)·) ` through `cn(2)`
(`C = R²` reading: `cn(2)` is `[re₀, re₁, im₀, im₁]`). -/
example :
    let P : Impl Int := .pscons 0 2 (.power 2 2)
      (.pscons 2 0 (.matrix 1 2 (fun _ c => (c + 1 : Nat))) (.psnil 4 3))
    let Z : Impl Int := .comp (.cmodsq 2) (.cembed 2 1 2) none
    let x : Vec Int := fun k => k + 1
    let d : Vec Int := fun _ => 1
    P.wf = true ∧ P.cwf = true ∧ Z.wf = true ∧ Z.cwf = true ∧
      (P.run x 0, P.run x 1, P.run x 2) = (9, 16, 5) ∧
      (P.deriv x).map (fun j => (j.run d 0, j.run d 1, j.run d 2)) = some (6, 8, 3) ∧
      (Z.run x 0, Z.run x 1) = (5, 20) ∧
      (Z.deriv x).map (fun j => (j.run d 0, j.run d 1)) = some (10, 20) := by
  decide

/-- Complex scalars (the real 2×2 block `[[a, -b], [b, a]]` on `[re, im]`) and sensitivity to
the rule of `OperatorRightScalarMult.derivative`: on `E ∘ |·|²` (`cn(1) → cn(1)`, only
real-linear derivative) with `s = 1 + 2i`, `x = 1 + 3i`, `d = 1` the coded rule
`OperatorRightScalarMult(op'(s x), s)` gives `(10, 0)`; the rule before fix 62d5303,
`s · op'(s x)`, gives `(-10, -20)` — so `deriv_sound_poly` would be false for it. -/
example :
    let op : Impl Int := .comp (.cembed 1 1 0) (.cmodsq 1) none
    let x : Vec Int := fun k => if k = 0 then 1 else 3
    let d : Vec Int := fun k => if k = 0 then 1 else 0
    let i : Impl Int := .crscal 1 op 1 2 (-2)
    let old := (op.deriv (cmulV 1 1 2 (-2) x)).map (fun D => Impl.clscal 1 D 1 2 (-2))
    i.wf = true ∧ i.cwf = true ∧
      (i.deriv x).map (fun j => (j.run d 0, j.run d 1)) = some (10, 0) ∧
      old.map (fun j => (j.run d 0, j.run d 1)) = some (-10, -20) := by
  decide

/-- `derivative(x)` is a linear operator from `op.domain` to `op.range`: it exists, passes the
constructor checks, has the domain, the range (and range kind) of `op`, is flagged
`is_linear`, and it really is a linear map. -/
theorem C06.deriv_is_linear {R : Type} [CommRing R] [DecidableEq R]
    (i : Impl R) (hwf : i.wf = true) (x : Vec R) :
    ∃ j, i.deriv x = some j ∧ j.wf = true ∧ j.dom = i.dom ∧ j.ran = i.ran ∧
      j.ranField = i.ranField ∧ j.isLinear = true ∧
      ∀ (a : R) (u v : Vec R) (k : Nat),
        j.run (fun k => a * u k + v k) k = a * j.run u k + j.run v k := by
  obtain ⟨j, e, w, hd, hr, hf, hl⟩ := deriv_type i x hwf
  exact ⟨j, e, w, hd, hr, hf, hl, linear_sem j w hl⟩

/-- Non-vacuity of `deriv_is_linear` on a tree using temporaries with domain ≠ range
(`OperatorSum(B∘x², B'∘x³, tmp_ran, tmp_dom)` from `ℤ³` to `ℤ²`), a point-wise product of
functionals and a block operator. -/
example :
    let B : Impl Int := .matrix 2 3 (fun r c => (r + c : Nat))
    let i : Impl Int := .sum (.comp B (.power 3 2) (some 3)) (.comp B (.power 3 3) none) (some 2) (some 3)
    let f : Impl Int := .pprod (.normsq 3) (.inner 3 (fun k => k + 1))
    let b : Impl Int := .bcons i (.bcons (.flvec f 2 (fun _ => 5)) (.bnil 3))
    i.wf = true ∧ i.isLinear = false ∧ f.wf = true ∧ b.wf = true ∧ b.ran = 4 ∧
      (b.deriv (fun k => k + 1)).map (fun j => (j.isLinear, j.dom, j.ran, j.run (fun _ => 1) 3))
        = some (true, 3, 4, 5 * (14 * 6 + 2 * 6 * 14)) := by
  decide

/-- Operators flagged linear are linear maps (so the flag set by the constructors is right for
every tree of the model). -/
theorem C06.flagged_linear_is_linear {R : Type} [CommRing R] [DecidableEq R]
    (i : Impl R) (hwf : i.wf = true) (hl : i.isLinear = true) (a : R) (u v : Vec R) (k : Nat) :
    i.run (fun k => a * u k + v k) k = a * i.run u k + i.run v k :=
  linear_sem i hwf hl a u v k

/-- Linear operators are their own derivative: for a tree flagged linear, `derivative(x)` acts
exactly like the operator, at every base point.  (Structurally it is the operator itself
except where the code rebuilds an equivalent one: `PowerOperator(1)`, a zero
`ConstantOperator`, `OperatorRightScalarMult`, block operators.) -/
theorem C06.deriv_linear {R : Type} [CommRing R] [DecidableEq R]
    (i : Impl R) (hwf : i.wf = true) (hl : i.isLinear = true) (x : Vec R) :
    ∃ j, i.deriv x = some j ∧ ∀ (d : Vec R) (k : Nat), j.run d k = i.run d k := by
  obtain ⟨j, e, _⟩ := deriv_type i x hwf
  exact ⟨j, e, OdlModel.Deriv.deriv_linear i hwf hl x j e⟩

/-- Non-vacuity of `deriv_linear` on a case where the code does not return `self`:
`OperatorRightScalarMult(MatrixOperator, 3)` on `ℤ²`. -/
example :
    let i : Impl Int := .rscal (.matrix 2 2 (fun r c => (r * 2 + c + 1 : Nat))) 3
    let d : Vec Int := fun k => k + 1
    i.wf = true ∧ i.isLinear = true ∧
      (i.deriv (fun _ => 7)).map (fun j => (j.run d 0, j.run d 1)) = some (i.run d 0, i.run d 1) := by
  decide

/-- `derivative(x)` is its own derivative at every point (idempotence of `derivative`): for
every well-formed tree, `derivative(x).derivative(y)` exists and acts exactly like
`derivative(x)`, for all `x`, `y` — the second derivative call of the code returns an operator
equivalent to the first. -/
theorem C06.deriv_deriv {R : Type} [CommRing R] [DecidableEq R]
    (i : Impl R) (hwf : i.wf = true) (x y : Vec R) :
    ∃ j j2, i.deriv x = some j ∧ j.deriv y = some j2 ∧
      ∀ (d : Vec R) (k : Nat), j2.run d k = j.run d k := by
  obtain ⟨j, e, w, _, _, _, hl⟩ := deriv_type i x hwf
  obtain ⟨j2, e2, _⟩ := deriv_type j y w
  exact ⟨j, j2, e, e2, OdlModel.Deriv.deriv_linear j w hl y j2 e2⟩

/-- Non-vacuity of `deriv_deriv` on a case where the second call REBUILDS the operator
(`PowerOperator` gives `p · MultiplyOperator`, a right scalar multiple is rebuilt again). -/
example :
    let i : Impl Int := .rscal (.power 2 3) 2
    let x : Vec Int := fun k => k + 1
    let d : Vec Int := fun k => 2 * k + 1
    i.wf = true ∧
      ((i.deriv x).bind (fun j => j.deriv d)).map (fun j2 => (j2.run d 0, j2.run d 1))
        = (i.deriv x).map (fun j => (j.run d 0, j.run d 1)) ∧
      (i.deriv x).map (fun j => (j.run d 0, j.run d 1)) = some (24, 288) := by
  decide

/-- Affine operators have the derivative of their linear part: `OperatorVectorSum(op, v)` with
`op` flagged linear has a derivative acting like `op`, and `ConstantOperator` has derivative
zero. -/
theorem C06.deriv_affine {R : Type} [CommRing R] [DecidableEq R]
    (op : Impl R) (hwf : op.wf = true) (hl : op.isLinear = true)
    (v x : Vec R) :
    ∃ j, (Impl.vecsum op v).deriv x = some j ∧ ∀ (d : Vec R) (k : Nat), j.run d k = op.run d k := by
  obtain ⟨j, e, _⟩ := deriv_type op x hwf
  exact ⟨j, by simpa [Impl.deriv] using e, OdlModel.Deriv.deriv_linear op hwf hl x j e⟩

/-- Non-vacuity of `deriv_affine`: `x ↦ A x + v`. -/
example :
    let A : Impl Int := .matrix 2 2 (fun r c => (r * 2 + c + 1 : Nat))
    A.wf = true ∧ A.isLinear = true ∧
      ((Impl.vecsum A (fun _ => 7)).deriv (fun _ => 3)).map (fun j => (j.run (fun k => k + 1) 0, j.run (fun k => k + 1) 1))
        = some (A.run (fun k => k + 1) 0, A.run (fun k => k + 1) 1) := by
  decide

/-- Central differences, polynomial world (`_partial`).  Over `R[h]/(h³)`:
`op(x + h d) = op(x) + h·derivative(x)(d) + c·h²` and
`op(x - h d) = op(x) - h·derivative(x)(d) + c·h²` with the SAME `c`, so
`(op(x + h d) - op(x - h d)) / (2h) = derivative(x)(d) + O(h²)`: the error of the central
difference has no first-order term in `h` — it shrinks at the rate the statement of C06 expects.
Full statement (not proved): the same with `HasFDerivAt` and an analytic `O(h²)` bound for
every leaf class (norms, moduli, ufuncs at `ℝ`); missing: the analytic leaf lemmas and a `C²`
hypothesis per leaf — those classes are covered by the central-difference oracle only. -/
theorem C06.central_diff_poly_partial {R : Type} [CommRing R] [DecidableEq R]
    (i : Impl R) (hwf : i.wf = true) (x d : Vec R) :
    ∃ j, i.deriv x = some j ∧ ∀ k, ∃ c : R,
      (i.map Trunc3.C).run (fun k => ⟨x k, d k, 0⟩) k = ⟨i.run x k, j.run d k, c⟩ ∧
      (i.map Trunc3.C).run (fun k => ⟨x k, - d k, 0⟩) k = ⟨i.run x k, - j.run d k, c⟩ := by
  obtain ⟨j, e, _⟩ := deriv_type i x hwf
  refine ⟨j, e, fun k => ?_⟩
  obtain ⟨h1, h2, h3, h4, h5⟩ := central_diff i hwf x d j e k
  refine ⟨((i.map Trunc3.C).run (fun k => ⟨x k, d k, 0⟩) k).c, ?_, ?_⟩
  · exact Trunc3.ext' h1 h3 rfl
  · exact Trunc3.ext' h2 h4 h5.symm

/-- Non-vacuity: `x ↦ x³` on `ℤ¹` at `x = 2`, `d = 1`: `(2 ± h)³ = 8 ± 12 h + 6 h²  (mod h³)`. -/
example :
    let i : Impl Int := .power 1 3
    ((i.map Trunc3.C).run (fun _ => ⟨2, 1, 0⟩) 0 = ⟨8, 12, 6⟩) ∧
    ((i.map Trunc3.C).run (fun _ => ⟨2, -1, 0⟩) 0 = ⟨8, -12, 6⟩) := by
  constructor <;> rfl

section ufunc
open OdlModel.UfuncDeriv OdlModel.Gen.UfuncDeriv


/-- The `(f, f')` table of the ufunc operators, as extracted from
`odl/ufunc_ops/ufunc_ops.py::derivative_factory` on this run (`Gen/UfuncDeriv.lean`): for every
branch, the multiplicand of the returned `MultiplyOperator`, read point-wise over `ℝ`, is the
derivative of the ufunc at every point where the ufunc is differentiable (`tan`: `cos t ≠ 0`,
`sqrt`/`log`: `t > 0`, `reciprocal`: `t ≠ 0`).  A changed sign, factor or function in the
source changes the generated table and this proof stops checking. -/
theorem C06.ufunc_table_sound :
    ∀ p ∈ table, ∀ t : ℝ, p.1.smoothAt t → HasDerivAt p.1.real (p.2.eval p.1 t) t := by
  intro p hp t ht
  simp only [table, List.mem_cons, List.mem_nil_iff, or_false] at hp
  rcases hp with rfl | rfl | rfl | rfl | rfl | rfl | rfl | rfl | rfl | rfl <;>
    simp only [Fn.real, Expr.eval, Fn.smoothAt] at ht ⊢
  · exact Real.hasDerivAt_sin t
  · exact Real.hasDerivAt_cos t
  · convert Real.hasDerivAt_tan ht using 1
    rw [Real.tan_eq_sin_div_cos]
    field_simp
    push_cast
    rw [one_mul, one_mul, add_comm, Real.sin_sq_add_cos_sq]
  · convert Real.hasDerivAt_sqrt ht.ne' using 1
    have : Real.sqrt t ≠ 0 := (Real.sqrt_pos.mpr ht).ne'
    field_simp
    push_cast
    ring
  · have h := hasDerivAt_pow 2 t
    have e : ((2 : ℤ) : ℝ) / ((1 : ℕ) : ℝ) * t = ((2 : ℕ) : ℝ) * t ^ (2 - 1) := by
      push_cast; ring
    rw [e]; exact h
  · convert Real.hasDerivAt_log ht.ne' using 1
    push_cast
    simp
  · exact Real.hasDerivAt_exp t
  · have h := hasDerivAt_inv (𝕜 := ℝ) ht
    rw [inv_pow]; exact h
  · exact Real.hasDerivAt_sinh t
  · exact Real.hasDerivAt_cosh t

/-- Non-vacuity: the table has the ten branches of the source, `tan` is one of them and is
smooth at `0`. -/
example : table.length = 10 ∧ (table.map (·.1)).Nodup ∧ Fn.tan.smoothAt 0 := by
  refine ⟨by decide, by decide, ?_⟩
  simp [Fn.smoothAt]

/-- The SECOND table, `gradient_factory` (the ufunc FUNCTIONALS `odl.ufunc_ops.<name>()` on a
field, whose `derivative(x)` is the multiplication by `gradient(x)`), as extracted on this run:
every branch, read point-wise over `ℝ` (`g(self.domain) * F` is the composition `g ∘ F`), is the
derivative of the ufunc at every point of differentiability. -/
theorem C06.ufunc_gradient_table_sound :
    ∀ p ∈ gradTable, ∀ t : ℝ, p.1.smoothAt t → HasDerivAt p.1.real (p.2.eval p.1 t) t := by
  intro p hp t ht
  simp only [gradTable, List.mem_cons, List.mem_nil_iff, or_false] at hp
  rcases hp with rfl | rfl | rfl | rfl | rfl | rfl | rfl | rfl | rfl | rfl <;>
    simp only [Fn.real, Expr.eval, Fn.smoothAt] at ht ⊢
  · exact Real.hasDerivAt_sin t
  · exact Real.hasDerivAt_cos t
  · convert Real.hasDerivAt_tan ht using 1
    rw [Real.tan_eq_sin_div_cos]
    field_simp
    push_cast
    rw [one_mul, one_mul, add_comm, Real.sin_sq_add_cos_sq]
  · convert Real.hasDerivAt_sqrt ht.ne' using 1
    have : Real.sqrt t ≠ 0 := (Real.sqrt_pos.mpr ht).ne'
    field_simp
    push_cast
    ring
  · have h := hasDerivAt_pow 2 t
    have e : ((2 : ℤ) : ℝ) / ((1 : ℕ) : ℝ) * t = ((2 : ℕ) : ℝ) * t ^ (2 - 1) := by
      push_cast; ring
    rw [e]; exact h
  · exact Real.hasDerivAt_log ht.ne'
  · exact Real.hasDerivAt_exp t
  · have h := hasDerivAt_inv (𝕜 := ℝ) ht
    have e : ((-1 : ℤ) : ℝ) / ((1 : ℕ) : ℝ) / t ^ 2 = -(t ^ 2)⁻¹ := by
      push_cast; field_simp
    rw [e]; exact h
  · exact Real.hasDerivAt_sinh t
  · exact Real.hasDerivAt_cosh t

/-- Non-vacuity: ten branches, one per ufunc of the derivative table. -/
example : gradTable.length = 10 ∧ gradTable.map (·.1) = table.map (·.1) := by decide

/-- The ufunc operators on `ℝⁿ` (all `n`): for every branch of the extracted table, the
point-wise operator `y ↦ (f (y k))_k` has, at every `x` whose entries are points of
differentiability, the Fréchet derivative `d ↦ (f'(x k) · d k)_k` — which is what the
returned `MultiplyOperator(<table expression at x>)` computes. -/
theorem C06.ufunc_op_hasFDerivAt (n : Nat) :
    ∀ p ∈ table, ∀ x : Fin n → ℝ, (∀ k, p.1.smoothAt (x k)) →
      HasFDerivAt (fun (y : Fin n → ℝ) (k : Fin n) => p.1.real (y k))
        (ContinuousLinearMap.pi fun k =>
          (p.2.eval p.1 (x k)) • (ContinuousLinearMap.proj k : (Fin n → ℝ) →L[ℝ] ℝ)) x := by
  intro p hp x hx
  rw [hasFDerivAt_pi]
  intro k
  have h1 := C06.ufunc_table_sound p hp (x k) (hx k)
  have h2 : HasFDerivAt (fun y : Fin n → ℝ => y k)
      (ContinuousLinearMap.proj k : (Fin n → ℝ) →L[ℝ] ℝ) x :=
    (ContinuousLinearMap.proj k : (Fin n → ℝ) →L[ℝ] ℝ).hasFDerivAt
  exact h1.comp_hasFDerivAt x h2

/-- The continuous linear map of `ufunc_op_hasFDerivAt` is the multiplication operator. -/
example (n : Nat) (p : Fn × Expr) (x d : Fin n → ℝ) (k : Fin n) :
    (ContinuousLinearMap.pi fun k =>
          (p.2.eval p.1 (x k)) • (ContinuousLinearMap.proj k : (Fin n → ℝ) →L[ℝ] ℝ)) d k
      = p.2.eval p.1 (x k) * d k := by
  simp

end ufunc

section analytic
open OdlModel.DerivAnalytic OdlModel.UfuncDeriv OdlModel.Gen.UfuncDeriv

/-- CONDITIONAL on leaf hypotheses, and about a SEPARATE TRANSCRIPTION of the rules
(`Lemmas/DerivAnalytic.lean: Tree.deriv`), not about the executed model `Impl.deriv`; nothing
executes it.  Its operators are endomorphisms of one algebra, so only classes with
domain = range (PowerOperator, ufunc operators, PartialDerivative, Laplacian, matrices, …) can be
its leaves — not Norm/Dist/ComplexModulus/PointwiseNorm/Gradient/functionals.
Soundness of the derivative rules of `operator.py`: for expression trees
over OPAQUE leaves on a commutative normed `ℝ`-algebra `𝔸` (`ℝⁿ` with the point-wise product,
`ℝ`; all depths), if every leaf not flagged linear has the Fréchet derivative its class returns
and every leaf flagged linear is a continuous linear map (`LeafOK`), then for every tree
`derivative(x)` as coded — `is_linear` short cuts returning the operator itself,
`left.derivative(right(x))`, `s · op'(s x)`, `op'(v x) · v`, `right(x) · left'(x) +
left(x) · right'(x)` — is the Fréchet derivative (`HasFDerivAt`) of the tree at `x`.
The hypothesis on flagged leaves is exactly what C06-F1 violated (an affine operator flagged
linear). -/
theorem C06.rules_sound_of_leaf_hyps {𝔸 ι : Type} [NormedCommRing 𝔸] [NormedAlgebra ℝ 𝔸]
    (L : Leaves 𝔸 ι) (h : LeafOK L) (t : Tree 𝔸 ι) (x : 𝔸) :
    HasFDerivAt (t.run L) (t.deriv L x) x :=
  Tree.deriv_sound h t x

namespace OdlModel.C06
/-- Table entries whose ufunc is differentiable everywhere (`sin, cos, exp, sinh, cosh, square`). -/
abbrev SmoothEntry := {p : Fn × Expr // p ∈ table ∧ ∀ t : ℝ, p.1.smoothAt t}

/-- Leaves on `ℝⁿ`: the everywhere-smooth ufunc operators with the derivative of the EXTRACTED
table, and arbitrary continuous linear maps (matrices, scalings, multiplications) flagged linear. -/
noncomputable def ufuncLeaves (n : Nat) :
    Leaves (Fin n → ℝ) (SmoothEntry ⊕ ((Fin n → ℝ) →L[ℝ] (Fin n → ℝ))) where
  f := fun i => match i with
    | .inl p => fun y k => p.1.1.real (y k)
    | .inr A => fun y => A y
  f' := fun i x => match i with
    | .inl p => ContinuousLinearMap.pi fun k =>
        (p.1.2.eval p.1.1 (x k)) • (ContinuousLinearMap.proj k : (Fin n → ℝ) →L[ℝ] ℝ)
    | .inr A => A
  lin := fun i => match i with | .inl _ => false | .inr _ => true
  A := fun i => match i with | .inl _ => 0 | .inr A => A
end OdlModel.C06
open OdlModel.C06

/-- The leaf contract holds for the ufunc operators with the extracted derivative table and for
linear leaves. -/
theorem C06.ufunc_leaves_ok (n : Nat) : LeafOK (ufuncLeaves n) where
  deriv := by
    intro i x hl
    cases i with
    | inl p => exact C06.ufunc_op_hasFDerivAt n p.1 p.2.1 x (fun k => p.2.2 (x k))
    | inr A => simp [ufuncLeaves] at hl
  linear := by
    intro i hl
    cases i with
    | inl p => simp [ufuncLeaves] at hl
    | inr A => rfl

/-- Hence every tree of the transcribed rule set (any depth) mixing the SIX everywhere-smooth
ufunc operators (`sin, cos, exp, sinh, cosh, square`; not `tan, sqrt, log, reciprocal`, whose
domain restrictions the tree theorem does not track) and linear operators on `ℝⁿ` has
`derivative(x)` as its Fréchet derivative. -/
theorem C06.rules_sound_smooth_ufunc_trees_of_leaf_hyps (n : Nat)
    (t : Tree (Fin n → ℝ) (SmoothEntry ⊕ ((Fin n → ℝ) →L[ℝ] (Fin n → ℝ)))) (x : Fin n → ℝ) :
    HasFDerivAt (t.run (ufuncLeaves n)) (t.deriv (ufuncLeaves n) x) x :=
  Tree.deriv_sound (C06.ufunc_leaves_ok n) t x

/-- Non-vacuity: there are smooth entries (e.g. `sin ↦ cos`), so the trees of
`deriv_sound_ufunc` have nonlinear leaves. -/
example : Nonempty SmoothEntry :=
  ⟨⟨(Fn.sin, Expr.app Fn.cos), by decide, fun _ => trivial⟩⟩

open Filter Topology in
/-- (Transcribed rule set, conditional on the leaf contract.)  For every tree over leaves
satisfying the leaf contract: the central difference quotient `(op(x + h d) - op(x - h d)) / (2h)` converges to
`op.derivative(x)(d)` as `h → 0`, for every base point and direction.  (The `O(h²)` RATE is
proved in the polynomial world only: `central_diff_poly_partial`.) -/
theorem C06.central_diff_tendsto_of_leaf_hyps {𝔸 ι : Type} [NormedCommRing 𝔸] [NormedAlgebra ℝ 𝔸]
    (L : Leaves 𝔸 ι) (h : LeafOK L) (t : Tree 𝔸 ι) (x d : 𝔸) :
    Tendsto (fun s : ℝ => (2 * s)⁻¹ • (t.run L (x + s • d) - t.run L (x - s • d)))
      (𝓝[≠] 0) (𝓝 (t.deriv L x d)) :=
  central_diff_tendsto_of_hasFDerivAt (t.run L) (t.deriv L x) x d (Tree.deriv_sound h t x)

open Filter Topology in
/-- THE EXECUTED MODEL over `ℝ` and real analysis (no leaf hypotheses): for every well-formed tree
of `Impl ℝ` — all expression classes, block operators, polynomial and complex leaves — every base
point `x`, direction `d` and output index `k`, the real function `s ↦ op(x + s d)_k` is
differentiable at `0` with derivative `op.derivative(x)(d)_k`.  Together with
`deriv_is_linear` (the derivative is a linear map of `d`) this is the Gâteaux form of "is the
Fréchet derivative"; for the polynomial maps of the model the two coincide, but the Fréchet
statement itself (`HasFDerivAt` on `ℝⁿ`) is not formalised. -/
theorem C06.model_line_hasDerivAt [DecidableEq ℝ] (i : Impl ℝ) (hwf : i.wf = true) (x d : Vec ℝ) :
    ∃ j, i.deriv x = some j ∧ ∀ k,
      HasDerivAt (fun s : ℝ => i.run (fun m => x m + s * d m) k) (j.run d k) 0 := by
  obtain ⟨j, e, _⟩ := deriv_type i x hwf
  exact ⟨j, e, fun k => impl_hasDerivAt_line i hwf x d j e k⟩

/-- Non-vacuity of the two theorems about `Impl ℝ`: a nonlinear chain-rule tree is well formed. -/
example : (Impl.comp (.power 2 3) (.sum (.power 2 2) (.identity 2) none none) none : Impl ℝ).wf = true := by
  decide

open Filter Topology in
/-- The statement of C06 in its own words, for the executed model over `ℝ`: the central
difference quotient `(op(x + h d) - op(x - h d)) / (2h)` converges entry-wise to
`op.derivative(x)(d)` as `h → 0` (rate: `central_diff_poly_partial`). -/
theorem C06.model_central_diff_tendsto [DecidableEq ℝ] (i : Impl ℝ) (hwf : i.wf = true)
    (x d : Vec ℝ) :
    ∃ j, i.deriv x = some j ∧ ∀ k,
      Tendsto (fun h : ℝ => (2 * h)⁻¹ • (i.run (fun m => x m + h * d m) k
          - i.run (fun m => x m + (-h) * d m) k)) (𝓝[≠] 0) (𝓝 (j.run d k)) := by
  obtain ⟨j, e, hk⟩ := C06.model_line_hasDerivAt i hwf x d
  exact ⟨j, e, fun k => central_diff_tendsto_of_hasDerivAt
    (fun s : ℝ => i.run (fun m => x m + s * d m) k) (j.run d k) (hk k)⟩

/-- The `O(h²)` RATE for the executed model over `ℝ` (no leaf hypotheses, every well-formed tree,
base point, direction and output index): the error of the central difference quotient is
EXACTLY `h² · Q(h)` for a polynomial `Q` — hence bounded by `C h²` near `0`, which is the rate the
statement of C06 expects.  (Analytic counterpart of `central_diff_poly_partial`; the classes
outside the polynomial model stay oracle-only.) -/
theorem C06.model_central_diff_rate [DecidableEq ℝ] (i : Impl ℝ) (hwf : i.wf = true) (x d : Vec ℝ) :
    ∃ j, i.deriv x = some j ∧ ∀ k, ∃ Q : Polynomial ℝ, ∀ h : ℝ, h ≠ 0 →
      (2 * h)⁻¹ * (i.run (fun m => x m + h * d m) k - i.run (fun m => x m + (-h) * d m) k)
        - j.run d k = h ^ 2 * Q.eval h := by
  obtain ⟨j, e, _⟩ := deriv_type i x hwf
  exact ⟨j, e, fun k => impl_central_diff_rate i hwf x d j e k⟩

/-- Non-vacuity: the rate statement instantiated on `x ↦ x³` at `x = 2`, `d = 1`. -/
example [DecidableEq ℝ] : ∃ j, (Impl.power 1 3 : Impl ℝ).deriv (fun _ => 2) = some j ∧
    ∀ k, ∃ Q : Polynomial ℝ, ∀ h : ℝ, h ≠ 0 →
      (2 * h)⁻¹ * ((Impl.power 1 3 : Impl ℝ).run (fun _ => 2 + h * 1) k
          - (Impl.power 1 3 : Impl ℝ).run (fun _ => 2 + (-h) * 1) k) - j.run (fun _ => 1) k
        = h ^ 2 * Q.eval h :=
  C06.model_central_diff_rate (Impl.power 1 3) (by decide) (fun _ => 2) (fun _ => 1)

/-- `derivative` is well defined on the operator AS A MAP (executed model over `ℝ`): two
well-formed expression trees that compute the same map — however they are bracketed, whether
scalars are merged, whichever classes build them — have derivatives that act identically, at
every base point and direction.  (Uniqueness of the derivative along lines.) -/
theorem C06.deriv_extensional [DecidableEq ℝ] (i i' : Impl ℝ) (hwf : i.wf = true)
    (hwf' : i'.wf = true) (hext : ∀ (x : Vec ℝ) (k : Nat), i.run x k = i'.run x k)
    (x d : Vec ℝ) :
    ∃ j j', i.deriv x = some j ∧ i'.deriv x = some j' ∧ ∀ k, j.run d k = j'.run d k := by
  obtain ⟨j, e, hk⟩ := C06.model_line_hasDerivAt i hwf x d
  obtain ⟨j', e', hk'⟩ := C06.model_line_hasDerivAt i' hwf' x d
  refine ⟨j, j', e, e', fun k => ?_⟩
  have h1 := hk k
  have h2 := hk' k
  have : (fun s : ℝ => i.run (fun m => x m + s * d m) k)
      = fun s : ℝ => i'.run (fun m => x m + s * d m) k := by
    funext s; exact hext _ k
  rw [this] at h1
  exact h1.unique h2

/-- Non-vacuity: `6·x²` written as two different trees — nested `OperatorLeftScalarMult`s
`3·(2·x²)` and the composition `ScalingOperator(6) ∘ x²` — compute the same map. -/
example : ∀ (x : Vec ℝ) (k : Nat),
    (Impl.lscal (.lscal (.power 2 2) 2) 3 : Impl ℝ).run x k
      = (Impl.comp (.scaling 2 6) (.power 2 2) none : Impl ℝ).run x k := by
  intro x k; simp [Impl.run]; ring

end analytic

section leaves
open OdlModel.DerivAnalytic
open Filter Topology

/-- ROUND 4 — the norm-type leaves (`NormOperator`, `DistOperator`, the functional `L2Norm`
through `Functional.derivative = gradient(x).T`, `ComplexModulus` in the `C = R²` sense,
`PointwiseNorm` with exponent 2), EXECUTED at `Float` by the driver (`leaf` op) and compared bit for
bit with the code (stream `leaf`), here read at `ℝ` with `Real.sqrt`: for every leaf, every
dimension, base point `x`, direction `d` and output entry `k` at which the sum of squares under the
root is non-zero (i.e. away from the non-differentiable set: `x ≠ 0`, `x ≠ y`, `z_k ≠ 0`,
`F(p_k) ≠ 0`), `derivative(x)` does not raise and `s ↦ op(x + s d)_k` is differentiable at `0`
with derivative `derivative(x)(d)_k` — as coded: `InnerProductOperator((1/‖x‖)·x)`,
`InnerProductOperator((1/dist)·(x - y))`, `(Re x·Re d + Im x·Im d)/|x|`,
`PointwiseInner(F/|F|)`.  Gâteaux form (with `leaf_deriv_is_linear`), as for
`model_line_hasDerivAt`; the Fréchet form is `leaf_hasFDerivAt`.  (The statement holds for every
leaf term; the tie to the code is for `Leaf.wf` ones: `PointwiseNorm` with one component takes a
different code path and is answered `err:wf` by the driver.  Rounding of `Float` is outside the
statement: it is about the real-number reading of the executed definitions.) -/
theorem C06.leaf_line_hasDerivAt [DecidableEq ℝ] (l : Leaf ℝ) (x d : Vec ℝ) (k : Nat)
    (hk : k < l.ran) (hs : l.ssq x k ≠ 0) :
    ∃ j, l.deriv x = some j ∧
      HasDerivAt (fun s : ℝ => l.run (fun m => x m + s * d m) k) (j.run d k) 0 :=
  leaf_hasDerivAt_line l x d k hk hs

/-- Non-vacuity: `DistOperator((1, 1))` at `x = (4, 5)` (distance 5) and `PointwiseNorm` on
`rn(1)^2` at `F = (3, 4)` satisfy the hypotheses. -/
example : (Leaf.dist 2 (fun _ => 1) : Leaf ℝ).ssq (fun j => if j = 0 then 4 else 5) 0 ≠ 0 ∧
    (0 < (Leaf.dist 2 (fun _ => 1) : Leaf ℝ).ran) ∧
    (Leaf.pwnorm 2 1 : Leaf ℝ).ssq (fun j => if j = 0 then 3 else 4) 0 ≠ 0 ∧
    (Leaf.pwnorm 2 1 : Leaf ℝ).wf = true := by
  refine ⟨?_, by decide, ?_, by decide⟩ <;> norm_num [Leaf.ssq, sumTo]

/-- The statement of C06 in its own words for the norm-type leaves: the central difference
quotient converges to `derivative(x)(d)` entry-wise, away from the non-differentiable set. -/
theorem C06.leaf_central_diff_tendsto [DecidableEq ℝ] (l : Leaf ℝ) (x d : Vec ℝ) (k : Nat)
    (hk : k < l.ran) (hs : l.ssq x k ≠ 0) :
    ∃ j, l.deriv x = some j ∧
      Tendsto (fun h : ℝ => (2 * h)⁻¹ • (l.run (fun m => x m + h * d m) k
          - l.run (fun m => x m + (-h) * d m) k)) (𝓝[≠] 0) (𝓝 (j.run d k)) := by
  obtain ⟨j, e, hd⟩ := C06.leaf_line_hasDerivAt l x d k hk hs
  exact ⟨j, e, central_diff_tendsto_of_hasDerivAt
    (fun s : ℝ => l.run (fun m => x m + s * d m) k) (j.run d k) hd⟩

/-- Non-vacuity: `ComplexModulus(cn(1))` at `z = 3 + 4i`. -/
example : (Leaf.cmod 1 : Leaf ℝ).ssq (fun j => if j = 0 then 3 else 4) 0 ≠ 0 := by
  norm_num [Leaf.ssq]

/-- Whatever `derivative(x)` returns for a norm-type leaf (at ANY point, also the singular ones
where it does not raise) is a linear operator from `op.domain` to `op.range`. -/
theorem C06.leaf_deriv_is_linear [DecidableEq ℝ] (l : Leaf ℝ) (x : Vec ℝ) (j : Lin ℝ)
    (hj : l.deriv x = some j) :
    j.dom = l.dom ∧ j.ran = l.ran ∧ ∀ (a : ℝ) (u v : Vec ℝ) (k : Nat),
      j.run (fun t => a * u t + v t) k = a * j.run u k + j.run v k := by
  refine ⟨?_, ?_, lin_linear j⟩
  all_goals
    cases l <;> simp only [Leaf.deriv] at hj <;> (try split at hj) <;>
      simp only [Option.some.injEq, reduceCtorEq] at hj <;> subst hj <;> rfl

/-- Non-vacuity: `L2Norm(rn(2)).derivative(0)` returns (the zero functional). -/
example [DecidableEq ℝ] : ∃ j, (Leaf.l2norm 2 : Leaf ℝ).deriv (fun _ => 0) = some j := by
  simp [Leaf.deriv, Leaf.run, Leaf.ssq, sumTo, hasSqrt_real]

/-- `derivative` RAISES exactly at the documented non-differentiable point: `NormOperator` iff
`x = 0`, `DistOperator(y)` iff `x = y` (entries of the space), and the other three leaves never
raise (`L2Norm` returns the zero functional at `0`, `ComplexModulus` divides by zero,
`PointwiseNorm` leaves the zero components undivided). -/
theorem C06.leaf_deriv_raises_iff [DecidableEq ℝ] (n m : Nat) (y x : Vec ℝ) :
    ((Leaf.norm n : Leaf ℝ).deriv x = none ↔ ∀ j, j < n → x j = 0) ∧
    ((Leaf.dist n y).deriv x = none ↔ ∀ j, j < n → x j = y j) ∧
    (Leaf.l2norm n : Leaf ℝ).deriv x ≠ none ∧ (Leaf.cmod n : Leaf ℝ).deriv x ≠ none ∧
    (Leaf.pwnorm m n : Leaf ℝ).deriv x ≠ none := by
  refine ⟨?_, ?_, l2norm_deriv_ne_none n x, by simp [Leaf.deriv], by simp [Leaf.deriv]⟩
  · rw [norm_deriv_none_iff, Real.sqrt_eq_zero (sumTo_sq_nonneg n x)]
    exact sumTo_sq_eq_zero n x
  · have h' : (∀ j, j < n → x j = y j) ↔ ∀ j, j < n → y j - x j = 0 := by
      constructor <;> intro hh j hj <;> have := hh j hj <;> linarith
    rw [dist_deriv_none_iff, Real.sqrt_eq_zero (sumTo_sq_nonneg n (fun j => y j - x j)), h']
    exact sumTo_sq_eq_zero n (fun j => y j - x j)

/-- Non-vacuity / sharpness: `NormOperator(rn(2)).derivative((0, 0))` raises, at `(3, 4)` not. -/
example [DecidableEq ℝ] : (Leaf.norm 2 : Leaf ℝ).deriv (fun _ => 0) = none ∧
    (Leaf.norm 2 : Leaf ℝ).deriv (fun j => if j = 0 then 3 else 4) ≠ none := by
  have h := C06.leaf_deriv_raises_iff 2 0 (fun _ => 0)
  constructor
  · exact (h (fun _ => 0)).1.mpr (fun _ _ => rfl)
  · intro hn
    have := (h (fun j => if j = 0 then 3 else 4)).1.mp hn 0 (by decide)
    norm_num at this

/-- FRÉCHET form for the norm-type leaves (executed definitions, all dimensions `N`): on the normed
space `Fin N → ℝ` (vectors of the domain, read into the model by `ext`: entries beyond `N` are `0`),
every output entry `y ↦ op(y)_k` has, at every `x` outside the non-differentiable set, a Fréchet
derivative (`HasFDerivAt`, a continuous linear map `L`) whose action on every direction `d` is the
entry `derivative(x)(d)_k` of the operator the code returns. -/
theorem C06.leaf_hasFDerivAt [DecidableEq ℝ] {N : Nat} (l : Leaf ℝ) (x : Fin N → ℝ) (k : Nat)
    (hk : k < l.ran) (hs : l.ssq (ext x) k ≠ 0) :
    ∃ j, l.deriv (ext x) = some j ∧ ∃ L : (Fin N → ℝ) →L[ℝ] ℝ,
      HasFDerivAt (fun y : Fin N → ℝ => l.run (ext y) k) L x ∧ ∀ d, L d = j.run (ext d) k :=
  OdlModel.Deriv.leaf_hasFDerivAt l x k hk hs

/-- Non-vacuity: `NormOperator(rn(2))` at `x = (3, 4)` read from `Fin 2 → ℝ`. -/
example : (Leaf.norm 2 : Leaf ℝ).ssq (ext (![3, 4] : Fin 2 → ℝ)) 0 ≠ 0 := by
  norm_num [Leaf.ssq, sumTo, ext]

/-- The hypothesis of the three theorems above is SHARP, and raising is right: at a point of the
non-differentiable set (sum of squares under the root of entry `k` equal to `0`: `x = 0` for
`NormOperator` / `L2Norm`, `x = y` for `DistOperator`, a zero entry for `ComplexModulus`, a zero
point of the field for `PointwiseNorm`) and along every direction that moves the entry,
`s ↦ op(x + s d)_k` is NOT differentiable at `0`.  So the `ValueError` of `NormOperator` /
`DistOperator` is raised exactly where no derivative exists (`leaf_deriv_raises_iff`), and what
`L2Norm` (zero functional), `PointwiseNorm` (zero component) and `ComplexModulus` (`0/0`) return
there is a convention, not a derivative (the symmetric central differences do converge, to `0`). -/
theorem C06.leaf_not_differentiable_at_singular_point (l : Leaf ℝ) (x d : Vec ℝ) (k : Nat)
    (hs : l.ssq x k = 0) (hd : l.homog.ssq d k ≠ 0) :
    ¬ DifferentiableAt ℝ (fun s : ℝ => l.run (fun m => x m + s * d m) k) 0 :=
  leaf_not_differentiableAt_singular l x d k hs hd

/-- Non-vacuity: `DistOperator((1, 2))` at `x = (1, 2)` along `d = (1, 0)`. -/
example : (Leaf.dist 2 (fun j => if j = 0 then 1 else 2)).ssq (fun j => if j = 0 then 1 else 2) 0 = 0 ∧
    (Leaf.dist 2 (fun j => if j = 0 then 1 else 2)).homog.ssq (fun j => if j = 0 then 1 else 0) 0 ≠ 0 := by
  constructor <;> norm_num [Leaf.ssq, Leaf.homog, sumTo]

/-- CHAIN RULE through the executed composition `OperatorComp(leaf, tree)` (`Model/DerivLeafComp.lean`,
driver op `leafcomp`, stream `leafcomp`: tree at `Rat`, leaf at `Float`), read at `ℝ`: for every
norm-type leaf and EVERY well-formed expression tree of the model `Impl` (all classes, depths,
dimensions) whose range is the leaf's domain, every base point and direction, and every output entry
`k` where the sum of squares under the root AT THE INNER VALUE `tree(x)` is non-zero,
`derivative(x)` does not raise and `s ↦ leaf(tree(x + s d))_k` has at `0` the derivative
`leaf.derivative(tree(x))(tree.derivative(x)(d))_k` — the outer derivative is taken at `right(x)`,
not at `x`, and applied to the inner derivative's value. -/
theorem C06.leaf_comp_line_hasDerivAt [DecidableEq ℝ] (l : Leaf ℝ) (i : Impl ℝ)
    (hwf : compWf l i = true) (x d : Vec ℝ) (k : Nat) (hk : k < l.ran)
    (hs : l.ssq (i.run x) k ≠ 0) :
    ∃ v, compDeriv id l i x d = some v ∧
      HasDerivAt (fun s : ℝ => compRun id l i (fun m => x m + s * d m) k) (v k) 0 :=
  leaf_comp_hasDerivAt_line l i hwf x d k hk hs

/-- Non-vacuity: `‖A x + x²‖` on `ℝ²` (`NormOperator ∘ OperatorSum(MatrixOperator, PowerOperator)`)
at `x = (1, 1)`: inner value `(4, 8)`, not the origin. -/
example :
    let i : Impl ℝ := .sum (.matrix 2 2 (fun r c => ((r * 2 + c + 1 : Nat) : ℝ))) (.power 2 2) none none
    compWf (Leaf.norm 2 : Leaf ℝ) i = true ∧
      (Leaf.norm 2 : Leaf ℝ).ssq (i.run (fun _ => 1)) 0 ≠ 0 := by
  refine ⟨by decide, ?_⟩
  norm_num [Leaf.ssq, Impl.run, sumTo, pw]

/-- Central differences through the composition converge to `derivative(x)(d)`. -/
theorem C06.leaf_comp_central_diff_tendsto [DecidableEq ℝ] (l : Leaf ℝ) (i : Impl ℝ)
    (hwf : compWf l i = true) (x d : Vec ℝ) (k : Nat) (hk : k < l.ran)
    (hs : l.ssq (i.run x) k ≠ 0) :
    ∃ v, compDeriv id l i x d = some v ∧
      Tendsto (fun h : ℝ => (2 * h)⁻¹ • (compRun id l i (fun m => x m + h * d m) k
          - compRun id l i (fun m => x m + (-h) * d m) k)) (𝓝[≠] 0) (𝓝 (v k)) := by
  obtain ⟨v, e, hd⟩ := C06.leaf_comp_line_hasDerivAt l i hwf x d k hk hs
  exact ⟨v, e, central_diff_tendsto_of_hasDerivAt
    (fun s : ℝ => compRun id l i (fun m => x m + s * d m) k) (v k) hd⟩

/-- Non-vacuity: `|(1+2i)·x|` (`ComplexModulus ∘ ComplexEmbedding`) on `ℝ¹` is well formed. -/
example : compWf (Leaf.cmod 1 : Leaf ℝ) (Impl.cembed 1 1 2 : Impl ℝ) = true := by
  decide

/-- ROUND 5 — linear operators are their own derivative, for the executed point-wise operators
`PointwiseInner(rn(n)^m, G)`, `PointwiseSum(rn(n)^m)` (driver op `lin`, stream `lin`, compared bit for
bit at `Float`) and for every operator `derivative` of a norm-type leaf returns
(`InnerProductOperator`, `ComplexModulusDerivative`): `Operator.derivative(x)` returns the operator
itself (`Lin.deriv`, by construction of the code: `if self.is_linear: return self`), and that IS the
derivative: over `ℝ`, `s ↦ op(x + s d)_k` has at `0` the derivative `op(d)_k`, for every base point,
direction, output entry, number of components and dimension.  (The content is that the executed
`_call` really is linear — `lin_linear` — so that returning `self` is right.) -/
theorem C06.lin_is_own_derivative (j : Lin ℝ) (x d : Vec ℝ) (k : Nat) :
    HasDerivAt (fun s : ℝ => j.run (fun m => x m + s * d m) k) ((j.deriv x).run d k) 0 :=
  lin_hasDerivAt_line j x d k

/-- Non-vacuity / instance: `PointwiseSum(rn(1)^3)` at `x = (1, 2, 3)`, `d = (1, 1, 1)`: value `6`,
derivative `3`. -/
example : (Lin.pwsum 3 1 : Lin ℝ).wf = true ∧
    (Lin.pwsum 3 1 : Lin ℝ).run (fun j => (j : ℝ) + 1) 0 = 6 ∧
    ((Lin.pwsum 3 1 : Lin ℝ).deriv (fun j => (j : ℝ) + 1)).run (fun _ => 1) 0 = 3 := by
  refine ⟨by decide, ?_, ?_⟩ <;> norm_num [Lin.pwsum, Lin.deriv, Lin.run, sumTo]

end leaves

section ufunccomp
open OdlModel.UfuncDeriv OdlModel.Gen.UfuncDeriv

/-- ROUND 6 — ufunc operators INSIDE trees: the chain rule through the executed composition
`OperatorComp(ufunc(rn(n)), tree)` (`Model/DerivUfuncComp.lean`, driver op `ucomp`, stream `ucomp`:
tree at `Rat`, the ufunc and the GENERATED `derivative_factory` table at `Float`, compared with the
code to rel. 1e-13), read at `ℝ` (`Fn.real`, `Expr.eval`, `cast = id`) with `ufunc_table_sound` as the
leaf: for every branch of the extracted table, EVERY well-formed tree of the model `Impl` into a real
space, every base point, direction and output entry `k` at which the ufunc is differentiable at the
inner value `tree(x)_k`, `derivative(x)` does not raise and `s ↦ f(tree(x + s d)_k)` has at `0` the
derivative `tree.derivative(x)(d)_k · f'(tree(x)_k)` — the `MultiplyOperator` multiplicand is
evaluated at `right(x)`, not at `x`. -/
theorem C06.ufunc_comp_line_hasDerivAt [DecidableEq ℝ] (p : Fn × Expr) (hp : p ∈ table)
    (i : Impl ℝ) (hwf : ucompWf i = true) (x d : Vec ℝ) (k : Nat)
    (hs : p.1.smoothAt (i.run x k)) :
    ∃ v, ucompDeriv id (fun t => p.2.eval p.1 t) i x d = some v ∧
      HasDerivAt (fun s : ℝ => ucompRun id p.1.real i (fun m => x m + s * d m) k) (v k) 0 := by
  have hiwf : i.wf = true := by
    simp only [ucompWf, Bool.and_eq_true] at hwf
    exact hwf.1.1.1
  obtain ⟨j, hj, _⟩ := deriv_type i x hiwf
  have hc := impl_hasDerivAt_line i hiwf x d j hj k
  have e0 : (fun m => x m + (0 : ℝ) * d m) = x := by funext m; simp
  have h1 := C06.ufunc_table_sound p hp (i.run x k) hs
  have h2 := h1.comp_of_eq (0 : ℝ) hc (by simp only [e0])
  refine ⟨fun k => id (j.run d k) * p.2.eval p.1 (id (i.run x k)), by simp only [ucompDeriv, hj], ?_⟩
  simp only [id_eq]
  rw [mul_comm]
  exact h2

/-- Non-vacuity: `sin ∘ (x² + A x)` on `ℝ²` is well formed and `sin` is smooth everywhere. -/
example : ucompWf (Impl.sum (.power 2 2) (.matrix 2 2 (fun r c => ((r + c : Nat) : ℝ))) none none : Impl ℝ) = true ∧
    (Fn.sin, Expr.app Fn.cos) ∈ table ∧ ∀ t : ℝ, Fn.sin.smoothAt t := by
  refine ⟨by decide, by decide, fun _ => trivial⟩

end ufunccomp
