/-
Common, import-free helpers shared by all executable models and drivers:
exact rationals on the wire (`p/q`), the `op key=value …` line protocol, and
canonical printing.  Nothing in here is part of a theorem statement.
-/
namespace OdlModel

/-- Parse `-3`, `7/2`, `-5/10`.  Denominator zero and junk are rejected (never defaulted). -/
def parseRat (s : String) : Option Rat :=
  match s.splitOn "/" with
  | [a] => a.toInt?.map (fun i => (i : Rat))
  | [a, b] => do
      let n ← a.toInt?
      let d ← b.toNat?
      if d = 0 then none else some (mkRat n d)
  | _ => none

/-- Canonical rational: lowest terms, `p` or `p/q`. -/
def showRat (r : Rat) : String :=
  if r.den = 1 then toString r.num else s!"{r.num}/{r.den}"

def parseList {α} (f : String → Option α) (s : String) : Option (List α) :=
  if s = "" || s = "-" then some [] else (s.splitOn ",").mapM f

def parseRatList (s : String) : Option (List Rat) := parseList parseRat s
def parseIntList (s : String) : Option (List Int) := parseList String.toInt? s
def parseNatList (s : String) : Option (List Nat) := parseList String.toNat? s

def showList {α} (f : α → String) (l : List α) : String :=
  if l.isEmpty then "-" else ",".intercalate (l.map f)

def showRatList (l : List Rat) : String := showList showRat l
def showIntList (l : List Int) : String := showList toString l
def showNatList (l : List Nat) : String := showList toString l

/-- One protocol line: an operation word and `key=value` arguments. -/
structure Line where
  op : String
  args : List (String × String)
  deriving Repr

def parseLine (s : String) : Line :=
  let toks := (s.trimAscii.toString.splitOn " ").filter (· ≠ "")
  match toks with
  | [] => { op := "", args := [] }
  | op :: rest =>
    let kv := rest.map fun t =>
      match t.splitOn "=" with
      | k :: v :: more => (k, "=".intercalate (v :: more))
      | _ => (t, "")
    { op := op, args := kv }

def Line.get? (l : Line) (k : String) : Option String := (l.args.find? (·.1 = k)).map (·.2)
def Line.rat? (l : Line) (k : String) : Option Rat := l.get? k >>= parseRat
def Line.int? (l : Line) (k : String) : Option Int := l.get? k >>= String.toInt?
def Line.nat? (l : Line) (k : String) : Option Nat := l.get? k >>= String.toNat?
def Line.rats? (l : Line) (k : String) : Option (List Rat) := l.get? k >>= parseRatList
def Line.ints? (l : Line) (k : String) : Option (List Int) := l.get? k >>= parseIntList
def Line.nats? (l : Line) (k : String) : Option (List Nat) := l.get? k >>= parseNatList
def Line.bool? (l : Line) (k : String) : Option Bool :=
  match l.get? k with
  | some "1" => some true
  | some "0" => some false
  | some "true" => some true
  | some "false" => some false
  | _ => none

/-- Matrices on the wire: rows separated by `;`, entries by `,`. -/
def parseRatMat (s : String) : Option (List (List Rat)) :=
  if s = "" || s = "-" then some [] else (s.splitOn ";").mapM parseRatList
def showRatMat (m : List (List Rat)) : String :=
  if m.isEmpty then "-" else ";".intercalate (m.map showRatList)
def Line.mat? (l : Line) (k : String) : Option (List (List Rat)) := l.get? k >>= parseRatMat

/-- Read stdin line by line, answer one line per input line. A handler returning
`none` means the line was malformed *for the model* and is answered `bad-op`. -/
partial def driverLoop (handle : Line → Option String) : IO Unit := do
  let stdin ← IO.getStdin
  let stdout ← IO.getStdout
  let rec loop : IO Unit := do
    let line ← stdin.getLine
    if line.isEmpty then return ()
    let l := parseLine line
    if l.op = "" then
      stdout.putStrLn "bad-op"
    else
      match handle l with
      | some out => stdout.putStrLn out
      | none => stdout.putStrLn "bad-op"
    loop
  loop
  stdout.flush

end OdlModel
