/-
`SeparableSum.convex_conj` (C08, round 5): `SeparableSum(*[f.convex_conj for f in functionals])`
on a product space.  The parts are C09's `SepPart` (Model/FunctionalsLeaves.lean, read-only):
each summand is an expression of `Model/Functionals.lean` on its own weighted list space, `x` its
part of the primal argument and `d` its part of the DUAL argument `y`.  Core Lean only.
-/
import OdlModel.Model.Functionals
import OdlModel.Model.FunctionalsLeaves
namespace OdlModel.Functionals
open OdlModel.FunctionalsLeaves

section
variable {K : Type} [Add K] [Mul K] [Sub K] [Neg K] [Div K] [OfNat K 0] [OfNat K 1]
  [LT K] [DecidableLT K] [LE K] [DecidableLE K] [DecidableEq K]

/-- `SeparableSum.convex_conj`: the coded conjugate `Fn.conj` of every summand (`none` if one of
the `convex_conj` properties raises — the list comprehension raises then); the conjugate parts
carry the dual argument (`x := d`, `d := x`), so that `sepValue (sepConj ps)` is `f*(y)`. -/
def sepConj : List (SepPart K) → Option (List (SepPart K))
  | [] => some []
  | p :: r =>
    match p.f.conj (listOps p.w), sepConj r with
    | some g, some r' => some (⟨p.w, g, p.d, p.x⟩ :: r')
    | _, _ => none

/-- The flat primal argument. -/
def sepArg : List (SepPart K) → List K
  | [] => []
  | p :: r => p.x ++ sepArg r

def sepEvaluable (ps : List (SepPart K)) : Bool := ps.all fun p => p.f.evaluable

end
end OdlModel.Functionals
