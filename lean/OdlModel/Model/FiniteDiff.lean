/-
Model of `odl/discr/diff_ops.py` (C13): `finite_diff` and, on top of it,
`PartialDerivative`, `Gradient`, `Divergence`, `Laplacian` with their `adjoint`/`derivative`.

What is written here by hand is only the *interpreter*: how an interior band and an ordered
list of boundary statements over Python's indices `0,1,2,-3,-2,-1` act on an axis of length
`n` (so that for `n = 2..5`, where e.g. `out[1]` *is* `out[-1]`, the aliasing of the
"short array" corrections is reproduced), and how the four operator classes call
`finite_diff` per axis.  The data — interior stencils, the boundary statements of each
`(method, pad_mode)` leaf, the size guards, `_ADJ_METHOD`, `_ADJ_PADDING`, the supported
lists — is regenerated from the live source into `Gen/FiniteDiff.lean` on every run.

Coefficients are integers in units of `1/den` (`den` is generated, = 2 for the source as it
is), so every table check is integer arithmetic.
-/
import OdlModel.Model.CRat
namespace OdlModel.FiniteDiff

inductive Method | central | forward | backward
  deriving DecidableEq, Repr

inductive Pad
  | constant | symmetric | symmetricAdj | periodic
  | order0 | order0Adj | order1 | order1Adj | order2 | order2Adj
  deriving DecidableEq, Repr

/-- The six positions the boundary code addresses: Python indices `0, 1, 2, -3, -2, -1`. -/
inductive Corner | L0 | L1 | L2 | R2 | R1 | R0
  deriving DecidableEq, Repr

/-- Smallest axis length for which the Python index exists (otherwise `IndexError`). -/
def Corner.need : Corner → Nat
  | .L0 => 1 | .R0 => 1 | .L1 => 2 | .R1 => 2 | .L2 => 3 | .R2 => 3

/-- Position of the Python index on an axis of length `n` (meaningful when `need ≤ n`). -/
def Corner.pos (n : Nat) : Corner → Nat
  | .L0 => 0 | .L1 => 1 | .L2 => 2 | .R2 => n - 3 | .R1 => n - 2 | .R0 => n - 1

/-- `coef/den * f_arr[src]`, or `coef/den * pad_const` when `src = none`. -/
structure Term where
  coef : Int
  src : Option Corner
  deriving Repr, DecidableEq

/-- `out[tgt] += Σ terms` (a `-=` is stored with negated coefficients). -/
structure Acc where
  tgt : Corner
  terms : List Term
  deriving Repr, DecidableEq

/-- One `(method, pad_mode)` leaf of `finite_diff`, in program order:
interior band on rows `1..n-2`; `out[0] = row0`; `out[-1] = rowN`; then the accumulations. -/
structure Table where
  bm : Int
  b0 : Int
  bp : Int
  row0 : List Term
  rowN : List Term
  accs : List Acc
  deriving Repr, DecidableEq

def Table.corners (t : Table) : List Corner :=
  let ts := t.row0 ++ t.rowN ++ (t.accs.map (·.terms)).flatten
  ts.filterMap (·.src) ++ t.accs.map (·.tgt)

/-- Axis length below which executing the leaf raises `IndexError`. -/
def Table.need (t : Table) : Nat := (t.corners.map Corner.need).foldl max 2

section
variable {K : Type} [Add K] [Mul K] [Div K] [OfNat K 0] [IntCast K] [NatCast K]

def evalTerm (n : Nat) (c : K) (f : Nat → K) (t : Term) : K :=
  (t.coef : K) * (match t.src with | some s => f (s.pos n) | none => c)

def evalTerms (n : Nat) (c : K) (f : Nat → K) : List Term → K
  | [] => 0
  | t :: ts => evalTerm n c f t + evalTerms n c f ts

/-- Interior rows `1 ≤ i ≤ n-2`; the other rows are not written by the interior code
(`np.empty`: modelled as 0, every leaf assigns them). -/
def interior (t : Table) (n : Nat) (f : Nat → K) : Nat → K := fun i =>
  if 1 ≤ i ∧ i + 2 ≤ n then
    (t.bm : K) * f (i - 1) + (t.b0 : K) * f i + (t.bp : K) * f (i + 1)
  else 0

def assign (out : Nat → K) (j : Nat) (v : K) : Nat → K := fun i => if i = j then v else out i

def accStep (n : Nat) (c : K) (f : Nat → K) (out : Nat → K) (a : Acc) : Nat → K :=
  fun i => if i = a.tgt.pos n then out i + evalTerms n c f a.terms else out i

/-- The numerators (units of `1/den`), before `out /= dx`, in program order. -/
def fdNum (t : Table) (n : Nat) (c : K) (f : Nat → K) : Nat → K :=
  let o0 := interior t n f
  let o1 := assign o0 0 (evalTerms n c f t.row0)
  let o2 := assign o1 (n - 1) (evalTerms n c f t.rowN)
  t.accs.foldl (accStep n c f) o2

/-- `finite_diff` along one axis of length `n` (no size checks). -/
def fd (den : Nat) (t : Table) (n : Nat) (c dx : K) (f : Nat → K) : Nat → K :=
  fun i => fdNum t n c f i / ((den : K) * dx)

end

section
variable {K : Type} [Mul K] [Div K] [NatCast K]

/-- `dx ^ k` by repeated multiplication (core Lean only) -/
def powN (dx : K) : Nat → K
  | 0 => ((1 : Nat) : K)
  | k + 1 => powN dx k * dx

/-- ROUND 6: `finite_diff` with the epilogue scaling READ from the source (`Gen.dxScale`:
`out /= dx` is `(true, 1)`): stencil values (numerators over `den`), then divided / multiplied by
`dx ^ k`.  Executed by the driver's `fd` / `mat` ops. -/
def fdBy {K : Type} [Add K] [Mul K] [Div K] [OfNat K 0] [IntCast K] [NatCast K]
    (scale : Bool × Nat) (den : Nat) (t : Table) (n : Nat) (c dx : K) (f : Nat → K) : Nat → K :=
  fun i =>
    let v := fdNum t n c f i / (den : K)
    if scale.1 then v / powN dx scale.2 else v * powN dx scale.2

end

inductive Err | value | index
  deriving DecidableEq, Repr

/-- Outcome of the size checks of `finite_diff`: the generated guards
(`shape[axis] < k [and pad_mode == p] → ValueError`), then Python's own index check. -/
def sizeCheck (guards : List (Nat × Option Pad)) (t : Table) (p : Pad) (n : Nat) : Option Err :=
  if guards.any (fun g => n < g.1 && (g.2 == none || g.2 == some p)) then some .value
  else if n < t.need then some .index
  else none

/-! ### N-d arrays (ndim ≤ 3) and the operator classes

An array of shape `(n₀, n₁, n₂)` is a function of a multi-index `Nat × Nat × Nat`; arrays of
lower dimension have trailing axes of length 1 that are never differentiated. -/

abbrev Idx := Nat × Nat × Nat

def Idx.get (x : Idx) : Nat → Nat
  | 0 => x.1 | 1 => x.2.1 | _ => x.2.2
def Idx.set (x : Idx) (a k : Nat) : Idx :=
  match a with
  | 0 => (k, x.2.1, x.2.2) | 1 => (x.1, k, x.2.2) | _ => (x.1, x.2.1, k)

/-- What the code needs to know about a call: den, table, pad constant. -/
structure Cfg (K : Type) where
  den : Nat
  tbl : Table
  c : K

section
variable {K : Type} [Add K] [Sub K] [Mul K] [Div K] [OfNat K 0] [IntCast K] [NatCast K]

/-- `finite_diff(f, axis=a, dx=dx, …)` on an N-d array: acts on every line along axis `a`
(`np.swapaxes` + slicing on the first axis). `shape a` is the length of that axis. -/
def fdAxis (den : Nat) (t : Table) (shape : Nat → Nat) (a : Nat) (c dx : K)
    (f : Idx → K) : Idx → K :=
  fun x => fd den t (shape a) c dx (fun k => f (x.set a k)) (x.get a)

/-- `Gradient._call`: component `a` is `finite_diff` along axis `a` with `dx[a]`. -/
def gradient (den : Nat) (t : Table) (shape : Nat → Nat) (c : K) (dx : Nat → K)
    (f : Idx → K) : Nat → Idx → K :=
  fun a => fdAxis den t shape a c (dx a) f

/-- `Divergence._call`: `out = tmp₀; out += tmp_a` over the axes `a < ndim`, in order. -/
def divergence (den : Nat) (t : Table) (shape : Nat → Nat) (ndim : Nat) (c : K) (dx : Nat → K)
    (h : Nat → Idx → K) : Idx → K :=
  fun x => (List.range ndim).foldl (fun s a => s + fdAxis den t shape a c (dx a) (h a) x) 0

/-- `Laplacian._call`: `out = 0; for axis: out += fwd(dx²); out -= bwd(dx²)`. -/
def laplacian (den : Nat) (tf tb : Table) (shape : Nat → Nat) (ndim : Nat) (c : K) (dx : Nat → K)
    (f : Idx → K) : Idx → K :=
  fun x => (List.range ndim).foldl
    (fun s a => s + fdAxis den tf shape a c (dx a * dx a) f x
                  - fdAxis den tb shape a c (dx a * dx a) f x) 0

end

/-! ### N-d arrays of ANY ndim (round 4)

`finite_diff` does `np.swapaxes(·, 0, axis)` and slices the first axis: nothing in the code
depends on `ndim`.  Here an array of any dimension is a function of a multi-index
`IdxN = Nat → Nat` (entry `a` = position on axis `a`; axes `≥ ndim` are never touched), so the
same four operators are stated — and executed by the driver's `ndn` op — for arbitrary `ndim`. -/

abbrev IdxN := Nat → Nat

/-- the multi-index with position `k` on axis `a` -/
def IdxN.set (x : IdxN) (a k : Nat) : IdxN := fun i => if i = a then k else x i

section
variable {K : Type} [Add K] [Sub K] [Mul K] [Div K] [OfNat K 0] [IntCast K] [NatCast K]

/-- `finite_diff(f, axis=a, dx=dx, …)` on an array of any ndim: acts on the line through `x`
along axis `a`. -/
def fdAxisN (den : Nat) (t : Table) (shape : Nat → Nat) (a : Nat) (c dx : K)
    (f : IdxN → K) : IdxN → K :=
  fun x => fd den t (shape a) c dx (fun k => f (x.set a k)) (x a)

/-- `Gradient._call`, any ndim. -/
def gradientN (den : Nat) (t : Table) (shape : Nat → Nat) (c : K) (dx : Nat → K)
    (f : IdxN → K) : Nat → IdxN → K :=
  fun a => fdAxisN den t shape a c (dx a) f

/-- `Divergence._call`, any ndim: `out = tmp₀; out += tmp_a` over the axes in order. -/
def divergenceN (den : Nat) (t : Table) (shape : Nat → Nat) (ndim : Nat) (c : K) (dx : Nat → K)
    (h : Nat → IdxN → K) : IdxN → K :=
  fun x => (List.range ndim).foldl (fun s a => s + fdAxisN den t shape a c (dx a) (h a) x) 0

/-- `Laplacian._call`, any ndim: `out = 0; for axis: out += fwd(dx²); out -= bwd(dx²)`. -/
def laplacianN (den : Nat) (tf tb : Table) (shape : Nat → Nat) (ndim : Nat) (c : K)
    (dx : Nat → K) (f : IdxN → K) : IdxN → K :=
  fun x => (List.range ndim).foldl
    (fun s a => s + fdAxisN den tf shape a c (dx a * dx a) f x
                  - fdAxisN den tb shape a c (dx a * dx a) f x) 0

end

/-! ### The loops over the axes of `Gradient/Divergence/Laplacian._call` as data (round 5)

The translator reads the one `for axis in range(ndim)` loop of each `_call` into
`Gen.accProg`; `loopAccN` / `loopCompN` interpret it (executed by the driver's `ndn` op). -/

/-- one `finite_diff(…, out=tmp)` + update of the loop body -/
structure AccStep where
  /-- `method=`: `none` is `self.method`, `some m` a literal -/
  meth : Option Method
  /-- `dx=dx[axis] ** 2` (`false`: `dx[axis]`) -/
  dxSq : Bool
  /-- `out_arr -= tmp` (`false`: `+=`, or `out_arr[:] = tmp` on the first axis) -/
  neg : Bool
  /-- the input is `x[axis]` (`false`: the whole `x`) -/
  comp : Bool
  deriving Repr, DecidableEq

structure AccProg where
  /-- the loop writes result component `axis` (Gradient); `false`: accumulates one array -/
  perAxis : Bool
  steps : List AccStep
  deriving Repr, DecidableEq

section
variable {K : Type} [Add K] [Sub K] [Mul K] [Div K] [OfNat K 0] [IntCast K] [NatCast K]

/-- the array one step's `finite_diff` call produces, at `x` -/
def stepValN (den : Nat) (tblOf : Method → Table) (m : Method) (shape : Nat → Nat) (c : K)
    (dx : Nat → K) (h : Nat → IdxN → K) (a : Nat) (s : AccStep) (x : IdxN) : K :=
  fdAxisN den (tblOf (s.meth.getD m)) shape a c (if s.dxSq then dx a * dx a else dx a)
    (if s.comp then h a else h 0) x

/-- the updates of one pass through the loop body, in program order -/
def bodyN (den : Nat) (tblOf : Method → Table) (m : Method) (shape : Nat → Nat) (c : K)
    (dx : Nat → K) (h : Nat → IdxN → K) (steps : List AccStep) (x : IdxN) (acc : K) (a : Nat) :
    K :=
  steps.foldl (fun r s => if s.neg then r - stepValN den tblOf m shape c dx h a s x
                          else r + stepValN den tblOf m shape c dx h a s x) acc

/-- accumulating loop (`Divergence`, `Laplacian`): `out = 0; for axis: body` -/
def loopAccN (den : Nat) (tblOf : Method → Table) (m : Method) (shape : Nat → Nat) (ndim : Nat)
    (c : K) (dx : Nat → K) (h : Nat → IdxN → K) (steps : List AccStep) : IdxN → K :=
  fun x => (List.range ndim).foldl (bodyN den tblOf m shape c dx h steps x) 0

/-- component loop (`Gradient`): component `a` is what pass `a` writes -/
def loopCompN (den : Nat) (tblOf : Method → Table) (m : Method) (shape : Nat → Nat)
    (c : K) (dx : Nat → K) (f : IdxN → K) (steps : List AccStep) : Nat → IdxN → K :=
  fun a x => bodyN den tblOf m shape c dx (fun _ => f) steps x 0 a

end

/-! ### The inner product of the space (round 4)

`DiscretizedSpace.inner(x, y) = Σ weight(point) · x · conj(y)`, the weight of a grid point being
the product over the axes of its cell size: `dx a` on `uniform_discr`, but `dx a / 2` for the
first and last point of an axis when `nodes_on_bdry=True`.  Executed by the driver's `inner`
op and compared with `x.inner(y)` of the real spaces (stream `inner/…`). -/

section
variable {K : Type} [Add K] [Mul K] [Div K] [OfNat K 0] [NatCast K]

/-- iterated in-order sum over the listed axes (executable twin of `sumAxes`) -/
def sumAxesL (shape : Nat → Nat) : List Nat → (IdxN → K) → IdxN → K
  | [], F, x => F x
  | a :: as, F, x =>
    (List.range (shape a)).foldl (fun s k => s + sumAxesL shape as F (x.set a k)) 0

/-- cell size of grid point `k` on axis `a` -/
def axisWeight (bdry : Bool) (shape : Nat → Nat) (dx : Nat → K) (a k : Nat) : K :=
  if bdry && (k == 0 || k + 1 == shape a) then dx a / ((2 : Nat) : K) else dx a

/-- weight of the grid point `x`: product of its cell sizes over the axes `0..ndim-1` -/
def cellWeight (w : Nat → Nat → K) (ndim : Nat) (x : IdxN) : K :=
  (List.range ndim).foldl (fun acc a => acc * w a (x a)) ((1 : Nat) : K)

/-- `X.inner(Y)`; `conj` is the identity for real spaces -/
def innerN (w : Nat → Nat → K) (shape : Nat → Nat) (ndim : Nat) (conj : K → K)
    (X Y : IdxN → K) : K :=
  sumAxesL shape (List.range ndim) (fun x => cellWeight w ndim x * (X x * conj (Y x)))
    (fun _ => 0)

end

/-! ### `.adjoint` and `.derivative` of the four classes (which instance is returned) -/

inductive Kind | pd | grad | div | lap
  deriving DecidableEq, Repr

/-- An operator instance: class, method (unused by `lap`), pad mode, pad constant, and the
sign it is multiplied with (`-Divergence(…)` has `neg = true`). -/
structure Op (K : Type) where
  kind : Kind
  method : Method
  pad : Pad
  c : K
  neg : Bool := false

section
variable {K : Type} [OfNat K 0] [DecidableEq K]

/-- The `linear` flag a class passes to `Operator.__init__`.  `affineAware k` is GENERATED from
`k.__init__`: `true` iff it computes `linear = not (pad_mode == 'constant' and pad_const != 0)`
and passes `linear=linear`; `false` iff it passes `linear=True`. -/
def Op.isLinear (affineAware : Kind → Bool) (o : Op K) : Bool :=
  if affineAware o.kind then !(o.pad == .constant && o.c != 0) else true

/-- `.adjoint`: `none` is the `ValueError` for a non-linear instance.  `guarded k` is
GENERATED: `true` iff `k.adjoint` starts with `if not self.is_linear: raise ValueError`.
Which instance is built (class, `_ADJ_METHOD`/`_ADJ_PADDING` applied or not, `pad_const`
passed on or reset, sign) is hand-written here and pinned as text by the translator. -/
def Op.adjoint (affineAware guarded : Kind → Bool) (adjM : Method → Method) (adjP : Pad → Pad)
    (o : Op K) : Option (Op K) :=
  if guarded o.kind && !(o.isLinear affineAware) then none else
  match o.kind with
  | .pd => some ⟨.pd, adjM o.method, adjP o.pad, o.c, !o.neg⟩
  | .grad => some ⟨.div, adjM o.method, adjP o.pad, o.c, !o.neg⟩
  | .div => some ⟨.grad, adjM o.method, adjP o.pad, 0, !o.neg⟩
  | .lap => some ⟨.lap, o.method, o.pad, 0, o.neg⟩

/-- `.derivative(point)`: the zero-padding instance for the affine variant, else `self`. -/
def Op.derivative (o : Op K) : Op K :=
  if o.pad == .constant && o.c != 0 then { o with c := 0 } else o

/-- ROUND 4.  What a class's `.adjoint` builds, as DATA read by the translator from the
`return [-]Cls(…)` expression (domain/range swapped is part of the translator's grammar). -/
structure AdjSpec where
  /-- the class constructed -/
  kind : Kind
  /-- `method=_ADJ_METHOD[self.method]` (`false`: `self.method`, or the class takes none) -/
  adjM : Bool
  /-- `pad_mode=_ADJ_PADDING[self.pad_mode]` (`false`: `self.pad_mode`) -/
  adjP : Bool
  /-- `pad_const=self.pad_const` (`false`: `0` / not passed, default 0) -/
  keepC : Bool
  /-- leading minus -/
  neg : Bool
  deriving Repr, DecidableEq

/-- What `.derivative` builds in its affine branch: class and whether `pad_const` is reset. -/
structure DerivSpec where
  kind : Kind
  zeroC : Bool
  deriving Repr, DecidableEq

/-- `.adjoint`, interpreting the GENERATED `spec` (nothing about the four `return`
expressions is hand-written here; compare `Op.adjoint`, which hard-codes them). -/
def Op.adjointBy (affineAware guarded : Kind → Bool) (spec : Kind → AdjSpec)
    (adjM : Method → Method) (adjP : Pad → Pad) (o : Op K) : Option (Op K) :=
  if guarded o.kind && !(o.isLinear affineAware) then none else
  let s := spec o.kind
  some ⟨s.kind, if s.adjM then adjM o.method else o.method,
    if s.adjP then adjP o.pad else o.pad, if s.keepC then o.c else 0,
    if s.neg then !o.neg else o.neg⟩

/-- `.derivative(point)`, interpreting the GENERATED `spec`. -/
def Op.derivativeBy (spec : Kind → DerivSpec) (o : Op K) : Op K :=
  if o.pad == .constant && o.c != 0 then
    ⟨(spec o.kind).kind, o.method, o.pad, if (spec o.kind).zeroC then 0 else o.c, o.neg⟩
  else o

end

/-- Gaussian rationals as scalars of the executable model. -/
instance : IntCast CRat := ⟨fun i => CRat.ofRat (i : Rat)⟩
instance : NatCast CRat := ⟨fun i => CRat.ofRat (i : Rat)⟩

end OdlModel.FiniteDiff
