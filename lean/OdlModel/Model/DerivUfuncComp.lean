/-
C06 (round 6): a ufunc operator after an expression tree — `OperatorComp(ufunc(rn(n)), tree)`
(`odl.ufunc_ops.sin(rn(n)) * tree`, …).  `OperatorComp.derivative(x)` =
`OperatorComp(ufunc.derivative(tree(x)), tree.derivative(x))` with
`ufunc.derivative(p) = MultiplyOperator(<table expression at p>)`
(`odl/ufunc_ops/ufunc_ops.py: derivative_factory`), i.e. entry-wise
`tree.derivative(x)(d)_k · f'(tree(x)_k)`.

The ufunc `fl` and the table expression `dfl` are parameters: the driver passes the `Float`
readings (`Fn.float`, `Expr.evalF` of the GENERATED table) with the tree at `Rat`, the theorem the
real ones (`Fn.real`, `Expr.eval`) with `cast = id`.
-/
import OdlModel.Model.Deriv
namespace OdlModel.Deriv

section
variable {K F : Type} [Add K] [Mul K] [OfNat K 0] [OfNat K 1] [DecidableEq K] [Mul F]

/-- Constructor checks: a well-formed tree into a real space `rn(n)` (not a field, not complex). -/
def ucompWf (i : Impl K) : Bool := i.wf && i.cwf && !i.ranField && !i.ranC

/-- `OperatorComp(ufunc, tree)(x)`. -/
def ucompRun (cast : K → F) (fl : F → F) (i : Impl K) (x : Vec K) : Nat → F :=
  fun k => fl (cast (i.run x k))

/-- `OperatorComp(ufunc, tree).derivative(x)(d)`; `none` = raises. -/
def ucompDeriv (cast : K → F) (dfl : F → F) (i : Impl K) (x d : Vec K) : Option (Nat → F) :=
  match i.deriv x with
  | some j => some fun k => cast (j.run d k) * dfl (cast (i.run x k))
  | none => none

end
end OdlModel.Deriv
