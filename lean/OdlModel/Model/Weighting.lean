/-
Model of inner product / norm / dist of ODL spaces (C02), following the code that exists:

* `odl/space/npy_tensors.py`  : `_inner_default`, `_norm_default`, `_pnorm_default`,
  `_pnorm_diagweight`, `NumpyTensorSpaceConstWeighting`, `NumpyTensorSpaceArrayWeighting`
* `odl/space/weighting.py`    : default `Weighting.dist = norm(x1 - x2)`
* `odl/space/pspace.py`       : `ProductSpaceConstWeighting`, `ProductSpaceArrayWeighting`
* `odl/discr/discr_space.py`  : `DiscretizedSpace._inner/_norm/_dist`, `_scaling_func_list`,
  `is_uniformly_weighted`, `uniform_discr_frompartition` (default weight = cell volume)
* `odl/discr/partition.py`    : `boundary_cell_fractions`, `cell_sides`
* `odl/discr/grid.py`         : `uniform_grid_fromintv` (placement of the extremal nodes), `stride`
* `odl/util/numerics.py`      : `apply_on_boundary(..., only_once=False)`

Three scalar types: `K` data scalars (ℝ/ℂ; `CRat` in the driver), `R` real numbers carrying
weights, norms and exponents (`Rat` or `Float` in the driver, `ℝ` in the theorems).  All
arithmetic is through core notation classes so that the same definitions evaluate in the driver
and are reasoned about over `RCLike 𝕜` / `ℝ` in `Props/C02.lean`.

Arrays are functional (`Nat → K`, C-order flat index) with an explicit length; sums run in
index order.  External numerics are parameters: `Ops` (complex conjugate, real part, modulus,
embedding of reals) and `Roots` (`sqrt`, real power, `|·|` on reals, `np.isclose(·, 1.0)`).
-/
namespace OdlModel.Weighting

/-- `Σ_{i<n} f i` in index order (`np.sum`, `np.dot`, `np.vdot`, `tensordot`, BLAS `dot`). -/
def sumTo {K : Type} [OfNat K 0] [Add K] : Nat → (Nat → K) → K
  | 0, _ => 0
  | n + 1, f => sumTo n f + f n

/-- `max_{i<n} f i` for non-negative `f` (`np.max` of an array of moduli; `0` when empty). -/
def maxTo {R : Type} [OfNat R 0] [Max R] : Nat → (Nat → R) → R
  | 0, _ => 0
  | n + 1, f => max (maxTo n f) (f n)

/-- `Π` of a list. -/
def prodL {R : Type} [OfNat R 1] [Mul R] : List R → R
  | [] => 1
  | a :: l => a * prodL l

/-- Scalar-level external operations needed by inner products. -/
structure IOps (K R : Type) where
  /-- embedding of a real (weight, scaling factor) into the data scalars -/
  rK : R → K
  conj : K → K

/-- Scalar-level external operations needed by norms and distances (the exact driver
instantiates only `IOps`: the modulus of a Gaussian rational is not rational). -/
structure Ops (K R : Type) extends IOps K R where
  re : K → R
  /-- modulus `np.abs` -/
  abs : K → R

/-- Real-number external operations. -/
structure Roots (R : Type) where
  sqrt : R → R
  /-- `x ** p` for `x ≥ 0` -/
  rpow : R → R → R
  rabs : R → R
  /-- `np.isclose(r, 1.0)` -/
  close1 : R → Bool

/-- The exponent as the code distinguishes it (`== 2.0`, `== inf`, `in (1.0, inf)`, else). -/
inductive Expo (R : Type) where
  | one | two | inf
  | gen (p : R)

/-- `1 / exponent` as Python computes it (`1 / inf = 0.0`). -/
def Expo.inv {R : Type} [OfNat R 0] [OfNat R 1] [OfNat R 2] [Div R] : Expo R → R
  | .one => 1 / 1 | .two => 1 / 2 | .inf => 0 | .gen p => 1 / p

def Expo.isTwo {R : Type} : Expo R → Bool
  | .two => true | _ => false

def Expo.isInf {R : Type} : Expo R → Bool
  | .inf => true | _ => false

/-- Tensor-space weighting: `NumpyTensorSpaceConstWeighting(c)` / `…ArrayWeighting(w)`. -/
inductive TW (R : Type) where
  | const (c : R)
  | arr (w : Nat → R)

/-- Product-space weighting: `ProductSpaceConstWeighting(c)` / `…ArrayWeighting(w)`. -/
inductive PW (R : Type) where
  | const (c : R)
  | arr (w : Nat → R)

/-! ### tensor spaces (`npy_tensors.py`) -/
section tensor
variable {K R : Type} [OfNat K 0] [Add K] [Mul K] [Sub K]
  [OfNat R 0] [OfNat R 1] [OfNat R 2] [Add R] [Mul R] [Div R] [Max R]

/-- `_inner_default(x1, x2) = Σ x1ᵢ · conj(x2ᵢ)` (`np.dot`, `np.vdot(x2, x1)`, `tensordot`:
all three branches compute this sum). -/
def innerDefault (o : IOps K R) (n : Nat) (x y : Nat → K) : K :=
  sumTo n (fun i => x i * o.conj (y i))

/-- `weighting.inner(x1, x2)`: `const * _inner_default(x1, x2)` resp.
`_inner_default(x1 * array, x2)`. -/
def tInner (o : IOps K R) : TW R → Nat → (Nat → K) → (Nat → K) → K
  | .const c, n, x, y => o.rK c * innerDefault o n x y
  | .arr w, n, x, y => innerDefault o n (fun i => x i * o.rK (w i)) y

/-- `np.linalg.norm(v, ord=p)` / BLAS `nrm2` on the moduli `a i = |xᵢ|`. -/
def vecNorm (rt : Roots R) : Expo R → Nat → (Nat → R) → R
  | .two, n, a => rt.sqrt (sumTo n (fun i => a i * a i))
  | .inf, n, a => maxTo n a
  | .one, n, a => sumTo n a
  | .gen p, n, a => rt.rpow (sumTo n (fun i => rt.rpow (a i) p)) (1 / p)

/-- `weighting.norm(x)`. -/
def tNorm (o : Ops K R) (rt : Roots R) : TW R → Expo R → Nat → (Nat → K) → R
  | .const c, .two, n, x => rt.sqrt c * vecNorm rt .two n (fun i => o.abs (x i))
  | .const c, .inf, n, x => c * vecNorm rt .inf n (fun i => o.abs (x i))
  | .const c, .one, n, x => rt.rpow c (1 / 1) * vecNorm rt .one n (fun i => o.abs (x i))
  | .const c, .gen p, n, x => rt.rpow c (1 / p) * vecNorm rt (.gen p) n (fun i => o.abs (x i))
  | .arr w, .two, n, x => rt.sqrt (max (o.re (tInner o.toIOps (.arr w) n x x)) 0)
  | .arr w, .inf, n, x => maxTo n (fun i => o.abs (x i) * w i)
  | .arr w, .one, n, x => rt.rpow (sumTo n (fun i => rt.rpow (o.abs (x i)) 1 * w i)) (1 / 1)
  | .arr w, .gen p, n, x => rt.rpow (sumTo n (fun i => rt.rpow (o.abs (x i)) p * w i)) (1 / p)

/-- `weighting.dist(x1, x2)`: the constant weighting has its own three branches on `x1 - x2`;
the array weighting inherits `Weighting.dist = norm(x1 - x2)`. -/
def tDist (o : Ops K R) (rt : Roots R) : TW R → Expo R → Nat → (Nat → K) → (Nat → K) → R
  | .const c, .two, n, x, y => rt.sqrt c * vecNorm rt .two n (fun i => o.abs (x i - y i))
  | .const c, .inf, n, x, y => c * vecNorm rt .inf n (fun i => o.abs (x i - y i))
  | .const c, .one, n, x, y => rt.rpow c (1 / 1) * vecNorm rt .one n (fun i => o.abs (x i - y i))
  | .const c, .gen p, n, x, y =>
      rt.rpow c (1 / p) * vecNorm rt (.gen p) n (fun i => o.abs (x i - y i))
  | .arr w, p, n, x, y => tNorm o rt (.arr w) p n (fun i => x i - y i)

end tensor

/-! ### discretized spaces (`discr_space.py`, `partition.py`, `numerics.py`) -/
section discr
variable {K R : Type} [OfNat K 0] [Add K] [Mul K] [Sub K]
  [OfNat R 0] [OfNat R 1] [OfNat R 2] [Add R] [Sub R] [Mul R] [Div R] [Max R]

/-- One axis of the partition: number of nodes and `boundary_cell_fractions[axis]`. -/
structure Axis (R : Type) where
  n : Nat
  fl : R
  fr : R

def axesSize {R : Type} : List (Axis R) → Nat
  | [] => 1
  | a :: l => a.n * axesSize l

/-- Factor applied by `apply_on_boundary(x, _scaling_func_list(fracs, p), only_once=False)`
to the entry with index `k` along one axis: first node times `g fl` (unless
`np.isclose(fl, 1)`), last node times `g fr`; a one-node axis gets both. -/
def sideFac (close1 : R → Bool) (g : R → R) (a : Axis R) (k : Nat) : R :=
  (if k = 0 && !(close1 a.fl) then g a.fl else 1) *
  (if k + 1 = a.n && !(close1 a.fr) then g a.fr else 1)

/-- Boundary factor of the entry with C-order flat index `i`: product over the axes. -/
def bfac (close1 : R → Bool) (g : R → R) : List (Axis R) → Nat → R
  | [], _ => 1
  | a :: l, i => sideFac close1 g a (i / axesSize l) * bfac close1 g l (i % axesSize l)

/-- `np.allclose(bdry_fracs, 1.0)`. -/
def allClose1 (close1 : R → Bool) (axes : List (Axis R)) : Bool :=
  axes.all (fun a => close1 a.fl && close1 a.fr)

/-- `DiscretizedSpace.is_uniformly_weighted`: `allclose(fracs, 1) or exponent == inf`
(independent of the tensor-space weighting). -/
def uniformlyWeighted (close1 : R → Bool) (axes : List (Axis R)) (_w : TW R) (p : Expo R) : Bool :=
  allClose1 close1 axes || p.isInf

/-- `if self.is_uniform and not self.is_uniformly_weighted` -/
def scalesBoundary (close1 : R → Bool) (unif : Bool) (axes : List (Axis R)) (w : TW R)
    (p : Expo R) : Bool :=
  unif && !(uniformlyWeighted close1 axes w p)

/-- `DiscretizedSpace._inner`: boundary entries of `x` scaled by the cell fraction
(`frac ** (1 / 1.0)`), then the tensor-space inner product. -/
def dInner (o : IOps K R) (close1 : R → Bool) (unif : Bool) (axes : List (Axis R)) (w : TW R)
    (p : Expo R) (x y : Nat → K) : K :=
  if scalesBoundary close1 unif axes w p then
    tInner o w (axesSize axes) (fun i => x i * o.rK (bfac close1 (fun f => f) axes i)) y
  else tInner o w (axesSize axes) x y

/-- `DiscretizedSpace._norm`: boundary entries scaled by `frac ** (1 / p)`. -/
def dNorm (o : Ops K R) (rt : Roots R) (unif : Bool) (axes : List (Axis R)) (w : TW R)
    (p : Expo R) (x : Nat → K) : R :=
  if scalesBoundary rt.close1 unif axes w p then
    tNorm o rt w p (axesSize axes)
      (fun i => x i * o.rK (bfac rt.close1 (fun f => rt.rpow f p.inv) axes i))
  else tNorm o rt w p (axesSize axes) x

/-- `DiscretizedSpace._dist`: both arguments scaled, then the tensor-space distance. -/
def dDist (o : Ops K R) (rt : Roots R) (unif : Bool) (axes : List (Axis R)) (w : TW R)
    (p : Expo R) (x y : Nat → K) : R :=
  if scalesBoundary rt.close1 unif axes w p then
    tDist o rt w p (axesSize axes)
      (fun i => x i * o.rK (bfac rt.close1 (fun f => rt.rpow f p.inv) axes i))
      (fun i => y i * o.rK (bfac rt.close1 (fun f => rt.rpow f p.inv) axes i))
  else tDist o rt w p (axesSize axes) x y

/-- `uniform_grid_fromintv`, one axis: extremal grid nodes for `[a, b]`, `n` nodes and the
two `nodes_on_bdry` flags. -/
def gridEnds (ofNat : Nat → R) (a b : R) (n : Nat) (l r : Bool) : R × R :=
  match l, r with
  | true, true => (a, b)
  | true, false => (a, b - (b - a) / (ofNat (2 * n - 1)))
  | false, true => (a + (b - a) / (ofNat (2 * n - 1)), b)
  | false, false => (a + (b - a) / (ofNat (2 * n)), b - (b - a) / (ofNat (2 * n)))

/-- One axis of `uniform_partition_fromintv`: `(boundary_cell_fractions, cell_side)`.
A one-node axis is degenerate: fractions `(1, 1)`, cell side = extent of the interval.
Otherwise `stride = (gmax - gmin) / (n - 1)` and
`frac_l = 1/2 + (gmin - a) / stride`, `frac_r = 1/2 + (b - gmax) / stride`. -/
def mkAxis (ofNat : Nat → R) (a b : R) (n : Nat) (l r : Bool) : Axis R × R :=
  if n = 1 then (⟨1, 1, 1⟩, b - a)
  else
    let g := gridEnds ofNat a b n l r
    let h := (g.2 - g.1) / (ofNat (n - 1))
    (⟨n, 1 / 2 + (g.1 - a) / h, 1 / 2 + (b - g.2) / h⟩, h)

/-- Axis specification of `uniform_discr(min_pt, max_pt, shape, nodes_on_bdry=…)`. -/
structure AxSpec (R : Type) where
  a : R
  b : R
  n : Nat
  l : Bool
  r : Bool

/-- Default weighting of `uniform_discr_frompartition`: `1.0` for exponent `inf` or zero
dimensions, else `partition.cell_volume` = product of the cell sides. -/
def defaultWeight (ofNat : Nat → R) (specs : List (AxSpec R)) (p : Expo R) : TW R :=
  if p.isInf || specs.isEmpty then .const 1
  else .const (prodL (specs.map (fun s => (mkAxis ofNat s.a s.b s.n s.l s.r).2)))

def specAxes (ofNat : Nat → R) (specs : List (AxSpec R)) : List (Axis R) :=
  specs.map (fun s => (mkAxis ofNat s.a s.b s.n s.l s.r).1)

end discr

/-! ### product spaces (`pspace.py`) -/
section pspace
variable {K R : Type} [OfNat K 0] [Add K] [Mul K]
  [OfNat R 0] [OfNat R 1] [OfNat R 2] [Add R] [Mul R] [Div R] [Max R]

/-- `ProductSpace…Weighting.inner` from the component inner products `a k`:
`const * np.sum(inners)` resp. `np.dot(inners, array)`. -/
def pInner (o : IOps K R) : PW R → Nat → (Nat → K) → K
  | .const c, m, a => o.rK c * sumTo m a
  | .arr w, m, a => sumTo m (fun k => a k * o.rK (w k))

/-- `ProductSpace…Weighting.norm` from the component norms `nr k`, every exponent (also 2):
`const * ‖nr‖ₚ` for `p ∈ {1, ∞}`, `const ** (1/p) * ‖nr‖ₚ` otherwise; array weights are
multiplied into the component norms (`w` for `p ∈ {1, ∞}`, `w ** (1/p)` otherwise). -/
def pNorm (rt : Roots R) : PW R → Expo R → Nat → (Nat → R) → R
  | .const c, .one, m, nr => c * vecNorm rt .one m (fun k => rt.rabs (nr k))
  | .const c, .inf, m, nr => c * vecNorm rt .inf m (fun k => rt.rabs (nr k))
  | .const c, .two, m, nr => rt.rpow c (1 / 2) * vecNorm rt .two m (fun k => rt.rabs (nr k))
  | .const c, .gen p, m, nr =>
      rt.rpow c (1 / p) * vecNorm rt (.gen p) m (fun k => rt.rabs (nr k))
  | .arr w, .one, m, nr => vecNorm rt .one m (fun k => rt.rabs (nr k * w k))
  | .arr w, .inf, m, nr => vecNorm rt .inf m (fun k => rt.rabs (nr k * w k))
  | .arr w, .two, m, nr => vecNorm rt .two m (fun k => rt.rabs (nr k * rt.rpow (w k) (1 / 2)))
  | .arr w, .gen p, m, nr =>
      vecNorm rt (.gen p) m (fun k => rt.rabs (nr k * rt.rpow (w k) (1 / p)))

/-- `ProductSpaceConstWeighting.dist` from `dn k = (x1ₖ - x2ₖ).norm()`. -/
def pDistConst (rt : Roots R) (c : R) : Expo R → Nat → (Nat → R) → R
  | .inf, m, dn => c * vecNorm rt .inf m (fun k => rt.rabs (dn k))
  | .two, m, dn => rt.rpow c (1 / 2) * vecNorm rt .two m (fun k => rt.rabs (dn k))
  | .one, m, dn => rt.rpow c (1 / 1) * vecNorm rt .one m (fun k => rt.rabs (dn k))
  | .gen p, m, dn => rt.rpow c (1 / p) * vecNorm rt (.gen p) m (fun k => rt.rabs (dn k))

end pspace

/-! ### spaces and elements as trees -/

/-- A space: tensor space, discretized space (`unif` = `partition.is_uniform`), or an `m`-fold
product of spaces (arbitrary nesting). -/
inductive Space (R : Type) where
  | tens (n : Nat) (w : TW R) (p : Expo R)
  | discr (unif : Bool) (axes : List (Axis R)) (w : TW R) (p : Expo R)
  | prod (m : Nat) (w : PW R) (p : Expo R) (comp : Nat → Space R)

/-- An element: a flat array or a tuple of parts. -/
inductive El (K : Type) where
  | vec (v : Nat → K)
  | tup (parts : Nat → El K)

/-- `x in space` as far as the tree shape is concerned. -/
def Shaped {K R : Type} : Space R → El K → Prop
  | .tens _ _ _, .vec _ => True
  | .discr _ _ _ _, .vec _ => True
  | .prod _ _ _ comp, .tup xs => ∀ k, Shaped (comp k) (xs k)
  | _, _ => False

section tree
variable {K R : Type} [OfNat K 0] [Add K] [Mul K] [Sub K]
  [OfNat R 0] [OfNat R 1] [OfNat R 2] [Add R] [Sub R] [Mul R] [Div R] [Max R]

def El.add : El K → El K → El K
  | .vec x, .vec y => .vec (fun i => x i + y i)
  | .tup a, .tup b => .tup (fun k => (a k).add (b k))
  | x, _ => x

def El.sub : El K → El K → El K
  | .vec x, .vec y => .vec (fun i => x i - y i)
  | .tup a, .tup b => .tup (fun k => (a k).sub (b k))
  | x, _ => x

def El.smul (s : K) : El K → El K
  | .vec x => .vec (fun i => s * x i)
  | .tup a => .tup (fun k => (a k).smul s)

/-- `space.one()` / constant element. -/
def Space.constEl (v : K) : Space R → El K
  | .tens _ _ _ => .vec (fun _ => v)
  | .discr _ _ _ _ => .vec (fun _ => v)
  | .prod _ _ _ comp => .tup (fun k => (comp k).constEl v)

/-- Inner product exists iff every exponent in the tree is 2 (otherwise the code raises
`NotImplementedError`). -/
def Space.hasInner : Space R → Bool
  | .tens _ _ p => p.isTwo
  | .discr _ _ _ p => p.isTwo
  | .prod m _ p comp => p.isTwo && (List.range m).all (fun k => (comp k).hasInner)

/-- `space.inner(x, y)`. -/
def Space.inner (o : IOps K R) (close1 : R → Bool) : Space R → El K → El K → K
  | .tens n w _, .vec x, .vec y => tInner o w n x y
  | .discr u axes w p, .vec x, .vec y => dInner o close1 u axes w p x y
  | .prod m w _ comp, .tup xs, .tup ys =>
      pInner o w m (fun k => Space.inner o close1 (comp k) (xs k) (ys k))
  | _, _, _ => 0

/-- `space.norm(x)`. -/
def Space.norm (o : Ops K R) (rt : Roots R) : Space R → El K → R
  | .tens n w p, .vec x => tNorm o rt w p n x
  | .discr u axes w p, .vec x => dNorm o rt u axes w p x
  | .prod m w p comp, .tup xs =>
      pNorm rt w p m (fun k => Space.norm o rt (comp k) (xs k))
  | _, _ => 0

/-- `space.dist(x, y)`. -/
def Space.dist (o : Ops K R) (rt : Roots R) : Space R → El K → El K → R
  | .tens n w p, .vec x, .vec y => tDist o rt w p n x y
  | .discr u axes w p, .vec x, .vec y => dDist o rt u axes w p x y
  | .prod m (.const c) p comp, .tup xs, .tup ys =>
      pDistConst rt c p m (fun k => Space.norm o rt (comp k) ((xs k).sub (ys k)))
  | .prod m (.arr w) p comp, x, y => Space.norm o rt (.prod m (.arr w) p comp) (x.sub y)
  | _, _, _ => 0

/-- `uniform_discr(min_pt, max_pt, shape, nodes_on_bdry=…, exponent=p[, weighting=w])`. -/
def uniformDiscr (ofNat : Nat → R) (specs : List (AxSpec R)) (p : Expo R)
    (w : Option (TW R)) : Space R :=
  .discr true (specAxes ofNat specs) (w.getD (defaultWeight ofNat specs p)) p

end tree

/-! ### custom inner / norm / dist (`weighting.py`: `CustomInner`, `CustomNorm`, `CustomDist`)

`NumpyTensorSpaceCustom*` and `ProductSpaceCustom*` add nothing to these base classes except
`impl='numpy'`; `NumpyTensorSpace._inner/_norm/_dist` and `ProductSpace._inner/_norm/_dist` are
`self.weighting.inner/norm/dist`.  `E` is the element type (`x1 - x2` is the space's own
subtraction, passed as `sub`). -/
section custom

/-- A user-supplied weighting: `inner=f`, `norm=g` or `dist=d`. -/
inductive Custom (K R E : Type) where
  | inner (f : E → E → K)
  | norm (g : E → R)
  | dist (d : E → E → R)

/-- `weighting.exponent`: `CustomInner` passes `exponent=2.0`, `CustomNorm` and `CustomDist`
pass `exponent=1.0` to `Weighting.__init__`. -/
def Custom.expo {K R E : Type} : Custom K R E → Expo R
  | .inner _ => .two
  | .norm _ => .one
  | .dist _ => .one

/-- `weighting.inner(x1, x2)`: the user's callable; `none` = `NotImplementedError`
(`CustomNorm.inner`, `CustomDist.inner`). -/
def cInner {K R E : Type} : Custom K R E → E → E → Option K
  | .inner f, x, y => some (f x y)
  | .norm _, _, _ => none
  | .dist _, _, _ => none

/-- `weighting.norm(x)`: `CustomInner` inherits `Weighting.norm = sqrt(inner(x, x).real)`;
`CustomNorm.norm` is the user's callable; `CustomDist.norm` raises `NotImplementedError`. -/
def cNorm {K R E : Type} (re : K → R) (sqrt : R → R) : Custom K R E → E → Option R
  | .inner f, x => some (sqrt (re (f x x)))
  | .norm g, x => some (g x)
  | .dist _, _ => none

/-- `weighting.dist(x1, x2)`: `CustomInner` and `CustomNorm` inherit
`Weighting.dist = norm(x1 - x2)`; `CustomDist.dist` is the user's callable. -/
def cDist {K R E : Type} (re : K → R) (sqrt : R → R) (sub : E → E → E) :
    Custom K R E → E → E → Option R
  | .dist d, x, y => some (d x y)
  | .inner f, x, y => cNorm re sqrt (.inner f) (sub x y)
  | .norm g, x, y => cNorm re sqrt (.norm g) (sub x y)

variable {K R : Type} [OfNat K 0] [Add K] [Mul K] [Sub K]
  [OfNat R 0] [OfNat R 1] [OfNat R 2] [Add R] [Sub R] [Mul R] [Div R] [Max R]

/-- array subtraction `x1 - x2` -/
def vsub (x y : Nat → K) : Nat → K := fun i => x i - y i

/-- `DiscretizedSpace._inner` over a tensor space with a custom weighting: the boundary
entries of `x` are scaled by the cell fractions (`exponent=1.0`) when the partition is uniform
and not all fractions are close to 1, then `tspace.inner`. -/
def cdInner (o : IOps K R) (close1 : R → Bool) (unif : Bool) (axes : List (Axis R))
    (c : Custom K R (Nat → K)) (x y : Nat → K) : Option K :=
  if scalesBoundary close1 unif axes (.const 1) c.expo then
    cInner c (fun i => x i * o.rK (bfac close1 (fun f => f) axes i)) y
  else cInner c x y

/-- `DiscretizedSpace._norm` over a custom weighting: scaling by `frac ** (1 / exponent)` with
the exponent of the custom weighting (2 for `inner=`, 1 for `norm=` / `dist=`). -/
def cdNorm (o : Ops K R) (rt : Roots R) (unif : Bool) (axes : List (Axis R))
    (c : Custom K R (Nat → K)) (x : Nat → K) : Option R :=
  if scalesBoundary rt.close1 unif axes (.const 1) c.expo then
    cNorm o.re rt.sqrt c
      (fun i => x i * o.rK (bfac rt.close1 (fun f => rt.rpow f c.expo.inv) axes i))
  else cNorm o.re rt.sqrt c x

/-- `DiscretizedSpace._dist` over a custom weighting: both arguments scaled, then
`tspace.dist`. -/
def cdDist (o : Ops K R) (rt : Roots R) (unif : Bool) (axes : List (Axis R))
    (c : Custom K R (Nat → K)) (x y : Nat → K) : Option R :=
  if scalesBoundary rt.close1 unif axes (.const 1) c.expo then
    cDist o.re rt.sqrt vsub c
      (fun i => x i * o.rK (bfac rt.close1 (fun f => rt.rpow f c.expo.inv) axes i))
      (fun i => y i * o.rK (bfac rt.close1 (fun f => rt.rpow f c.expo.inv) axes i))
  else cDist o.re rt.sqrt vsub c x y

/-! Families of user callables that the check passes to the real code and the driver executes
(they are user code, not ODL code; the theorems show that they satisfy the conditions the
docstrings of `CustomInner` / `CustomNorm` / `CustomDist` demand). -/

/-- `(B x)_i = Σ_{j<n} B i j * x j` -/
def matVec (n : Nat) (B : Nat → Nat → K) (x : Nat → K) : Nat → K :=
  fun i => sumTo n (fun j => B i j * x j)

/-- user inner product `lambda u, v: np.vdot(B @ v, B @ u)`: a non-diagonal Gram-matrix
inner product `⟨x, y⟩ = y^H (B^H B) x`. -/
def gramInner (o : IOps K R) (n : Nat) (B : Nat → Nat → K) (x y : Nat → K) : K :=
  innerDefault o n (matVec n B x) (matVec n B y)

/-- user form `lambda u, v: np.vdot(C @ v, B @ u)`: sesquilinear but for `C ≠ B` in general
neither Hermitian nor real on the diagonal; NOT an admissible inner product.  The check uses it
to pin down what the code does with a value `inner(x, x)` that has an imaginary part
(`Weighting.norm` takes `.real`); `gramInner o n B = formInner o n B B`. -/
def formInner (o : IOps K R) (n : Nat) (B C : Nat → Nat → K) (x y : Nat → K) : K :=
  innerDefault o n (matVec n B x) (matVec n C y)

/-- user norm `lambda u: np.max(w * np.abs(u))` (weighted max norm). -/
def wMaxNorm (abs : K → R) (n : Nat) (w : Nat → R) (x : Nat → K) : R :=
  maxTo n (fun i => w i * abs (x i))

/-- user metric `lambda u, v: min(cap, np.sum(w * np.abs(u - v)))`: a bounded metric that
does not come from a norm. -/
def capDist [Min R] (abs : K → R) (n : Nat) (w : Nat → R) (cap : R) (x y : Nat → K) : R :=
  min cap (sumTo n (fun i => w i * abs (x i - y i)))

end custom

/-! ### which NumPy / BLAS routine computes the unweighted sums (`npy_tensors.py`)

The decision trees of `_inner_default` and `_norm_default` are DATA extracted from the source
(`Gen/WeightingDispatch.lean`, translator `tools/extract/weighting_dispatch.py`); here: the
grammar of the trees, their evaluation, and what each leaf routine computes. -/
section dispatch

/-- atoms the code branches on -/
inductive Cond where
  /-- `is_real_dtype(x1.dtype)` -/
  | isReal
  /-- `x1.size > k` -/
  | sizeGt (k : Nat)
  /-- `_blas_is_applicable(x.data)` -/
  | blasApplicable

/-- facts about the arguments that decide the branch -/
structure Facts where
  isReal : Bool
  size : Nat
  blas : Bool

def Cond.eval (f : Facts) : Cond → Bool
  | .isReal => f.isReal
  | .sizeGt k => decide (k < f.size)
  | .blasApplicable => f.blas

inductive Tree (L : Type) where
  | leaf (l : L)
  | ite (c : Cond) (t e : Tree L)

def Tree.select {L : Type} (f : Facts) : Tree L → L
  | .leaf l => l
  | .ite c t e => if c.eval f then t.select f else e.select f

/-- leaves of `_inner_default`, classified by routine and operand order -/
inductive InnerLeaf where
  /-- `np.dot(x1, x2)`: no conjugation -/
  | dot
  /-- `np.tensordot(x1, x2, all axes)`: no conjugation -/
  | tensordot
  /-- `np.vdot(x2, x1) = Σ conj(x2ᵢ) x1ᵢ` -/
  | vdot21
  /-- `np.vdot(x1, x2) = Σ conj(x1ᵢ) x2ᵢ` (the wrong order; representable so that a swapped
  source is translated, not rejected) -/
  | vdot12

/-- leaves of `_norm_default` -/
inductive NormLeaf where
  | nrm2
  | linalgNorm

def InnerLeaf.name : InnerLeaf → String
  | .dot => "dot" | .tensordot => "tensordot" | .vdot21 => "vdot21" | .vdot12 => "vdot12"

def NormLeaf.name : NormLeaf → String
  | .nrm2 => "nrm2" | .linalgNorm => "linalgNorm"

variable {K R : Type} [OfNat K 0] [Add K] [Mul K] [OfNat R 0] [Add R] [Mul R]

/-- what each leaf routine computes -/
def InnerLeaf.val (o : IOps K R) : InnerLeaf → Nat → (Nat → K) → (Nat → K) → K
  | .dot, n, x, y => sumTo n (fun i => x i * y i)
  | .tensordot, n, x, y => sumTo n (fun i => x i * y i)
  | .vdot21, n, x, y => sumTo n (fun i => o.conj (y i) * x i)
  | .vdot12, n, x, y => sumTo n (fun i => o.conj (x i) * y i)

/-- `_inner_default(x1, x2)` as the code evaluates it: select the leaf, run its routine. -/
def innerDispatch (o : IOps K R) (t : Tree InnerLeaf) (f : Facts) (x y : Nat → K) : K :=
  (t.select f).val o f.size x y

/-- both 2-norm routines (BLAS `nrm2`, `np.linalg.norm`) on the moduli `a i = |xᵢ|` -/
def NormLeaf.val (sqrt : R → R) : NormLeaf → Nat → (Nat → R) → R
  | .nrm2, n, a => sqrt (sumTo n (fun i => a i * a i))
  | .linalgNorm, n, a => sqrt (sumTo n (fun i => a i * a i))

/-- `_norm_default(x)`. -/
def normDispatch (sqrt : R → R) (t : Tree NormLeaf) (f : Facts) (a : Nat → R) : R :=
  (t.select f).val sqrt f.size a

end dispatch

end OdlModel.Weighting
