/-
Model of `odl/space/npy_tensors.py::_lincomb_impl` (C01).

Buffers are identified by a `Nat` id; *identity* aliasing (`x1 is x2`, `out is x1`, …)
is equality of ids, exactly the test the Python code performs.  A buffer's content is a
functional array `Nat → K`; every primitive is entry-wise, so the array length only
matters through the size regime.  The dispatch program itself (`Stmt`) is NOT written
here: it is regenerated from the Python AST into `Gen/LincombTree.lean` on every run.
-/
namespace OdlModel.Lincomb

abbrev Vec (K : Type) := Nat → K
abbrev Mem (K : Type) := Nat → Vec K

def Mem.write {K} (m : Mem K) (b : Nat) (v : Vec K) : Mem K :=
  fun b' => if b' = b then v else m b'

/-- Buffer ids of the three arguments. -/
structure Args where
  x1 : Nat
  x2 : Nat
  out : Nat
  deriving Repr, DecidableEq

inductive Coef | a | b | apb
  deriving Repr, DecidableEq
inductive Src | x1 | x2
  deriving Repr, DecidableEq

inductive Cond
  | aEq0 | aEq1 | bEq0 | bEq1 | apbEq0
  | x1IsX2 | outIsX1 | outIsX2
  | not (c : Cond)
  | and (c d : Cond)
  | or (c d : Cond)
  deriving Repr

/-- Statements of the dispatch program of `_lincomb_impl` (everything after the regime
selection).  `recurse` is the call `_lincomb_impl(a + b, x1, 0, x1, out)`. -/
inductive Stmt
  | skip
  | seq (s t : Stmt)
  | ite (c : Cond) (t e : Stmt)
  | scal (c : Coef)             -- scal(c, out_arr, size)
  | axpy (s : Src) (c : Coef)   -- axpy(src_arr, out_arr, size, c)
  | copy (s : Src)              -- copy(src_arr, out_arr, size)
  | zero                        -- out_arr[:] = 0
  | recurse
  deriving Repr

section
variable {K : Type} [Add K] [Mul K] [OfNat K 0] [OfNat K 1] [DecidableEq K]

def Coef.val (a b : K) : Coef → K
  | .a => a | .b => b | .apb => a + b

def Src.buf (A : Args) : Src → Nat
  | .x1 => A.x1 | .x2 => A.x2

def Cond.eval (A : Args) (a b : K) : Cond → Bool
  | .aEq0 => a = 0
  | .aEq1 => a = 1
  | .bEq0 => b = 0
  | .bEq1 => b = 1
  | .apbEq0 => a + b = 0
  | .x1IsX2 => A.x1 = A.x2
  | .outIsX1 => A.out = A.x1
  | .outIsX2 => A.out = A.x2
  | .not c => !(c.eval A a b)
  | .and c d => c.eval A a b && d.eval A a b
  | .or c d => c.eval A a b || d.eval A a b

/-- How the regime implements `axpy(src, dst, n, c)`.
`guarded = true`  : `if c != 0: dst += c * src`   (the fallback as written)
`guarded = false` : `dst += c * src`              (BLAS axpy) -/
def axpyPrim (guarded : Bool) (c : K) (src dst : Vec K) : Vec K :=
  if guarded && decide (c = 0) then dst else fun i => dst i + c * src i

def scalPrim (c : K) (dst : Vec K) : Vec K := fun i => c * dst i

/-- Execute a statement; `self` is what the recursive call does. -/
def exec (guarded : Bool) (self : Args → K → K → Mem K → Option (Mem K)) :
    Stmt → Args → K → K → Mem K → Option (Mem K)
  | .skip, _, _, _, m => some m
  | .seq s t, A, a, b, m =>
      match exec guarded self s A a b m with
      | some m' => exec guarded self t A a b m'
      | none => none
  | .ite c t e, A, a, b, m =>
      if c.eval A a b then exec guarded self t A a b m else exec guarded self e A a b m
  | .scal c, A, a, b, m => some (m.write A.out (scalPrim (c.val a b) (m A.out)))
  | .axpy s c, A, a, b, m =>
      some (m.write A.out (axpyPrim guarded (c.val a b) (m (s.buf A)) (m A.out)))
  | .copy s, A, _, _, m => some (m.write A.out (m (s.buf A)))
  | .zero, A, _, _, m => some (m.write A.out (fun _ => 0))
  | .recurse, A, a, b, m => self { A with x2 := A.x1 } (a + b) 0 m

/-- The dispatch program with bounded recursion depth (`none` = depth exhausted). -/
def run (guarded : Bool) (prog : Stmt) : Nat → Args → K → K → Mem K → Option (Mem K)
  | 0 => fun _ _ _ _ => none
  | f + 1 => exec guarded (run guarded prog f) prog

inductive Regime | small | fallback | blas
  deriving Repr, DecidableEq

/-- `size < SMALL → direct`, `size < MEDIUM or not blas_applicable → fallback`, else BLAS. -/
def regime (thrSmall thrMedium size : Nat) (blasOk : Bool) : Regime :=
  if size < thrSmall then .small
  else if size < thrMedium || !blasOk then .fallback
  else .blas

/-- The small-size branch: `out.data[:] = a * x1.data + b * x2.data` (right-hand side
evaluated first). -/
def direct (A : Args) (a b : K) (m : Mem K) : Mem K :=
  m.write A.out (fun i => a * m A.x1 i + b * m A.x2 i)

/-- Whole `_lincomb_impl`. `fbGuard` is the guard flag extracted from `fallback_axpy`;
`zeroGuard` says whether `if a == 0 and b == 0: out.data[:] = 0; return` precedes the regime
selection (both extracted from the source). -/
def lincombImpl (thrSmall thrMedium : Nat) (fbGuard : Bool) (zeroGuard : Bool) (prog : Stmt)
    (size : Nat) (blasOk : Bool) (A : Args) (a b : K) (m : Mem K) : Option (Mem K) :=
  if zeroGuard && decide (a = 0) && decide (b = 0) then some (m.write A.out (fun _ => 0))
  else
    match regime thrSmall thrMedium size blasOk with
    | .small => some (direct A a b m)
    | .fallback => run fbGuard prog 3 A a b m
    | .blas => run false prog 3 A a b m

end

end OdlModel.Lincomb
