/-
Model of `odl/space/npy_tensors.py::_lincomb_impl` and `_blas_is_applicable` (C01).

Buffers are identified by a `Nat` id; *identity* aliasing (`x1 is x2`, `out is x1`, …)
is equality of ids, exactly the test the Python code performs.  A buffer's content is a
functional array `Nat → K`; every primitive is entry-wise, so the array length only
matters through the size regime.  The dispatch program (`Stmt`), the thresholds, the
fallback-axpy form, the zero guard and the BLAS applicability predicate are NOT written
here: they are regenerated from the Python AST into `Gen/LincombTree.lean` on every run.

Memory layout enters in exactly one place: in the BLAS regime the code works on
`arr.ravel(order)`, which is a *view* of the array only if the array is contiguous in that
order, and a *copy* otherwise — writes to a copy of `out.data` are lost.
-/
namespace OdlModel.Lincomb

abbrev Vec (K : Type) := Nat → K
abbrev Mem (K : Type) := Nat → Vec K

def Mem.write {K} (m : Mem K) (b : Nat) (v : Vec K) : Mem K :=
  fun b' => if b' = b then v else m b'

/-- Buffer ids of the three arguments. -/
structure Args where
  x1 : Nat
  x2 : Nat
  out : Nat
  deriving Repr, DecidableEq

inductive Coef | a | b | apb
  deriving Repr, DecidableEq
inductive Src | x1 | x2
  deriving Repr, DecidableEq

inductive Cond
  | aEq0 | aEq1 | bEq0 | bEq1 | apbEq0
  | x1IsX2 | outIsX1 | outIsX2
  | not (c : Cond)
  | and (c d : Cond)
  | or (c d : Cond)
  deriving Repr

/-- Statements of the dispatch program of `_lincomb_impl` (everything after the regime
selection).  `recurse` is the call `_lincomb_impl(a + b, x1, 0, x1, out)`. -/
inductive Stmt
  | skip
  | seq (s t : Stmt)
  | ite (c : Cond) (t e : Stmt)
  | scal (c : Coef)             -- scal(c, out_arr, size)
  | axpy (s : Src) (c : Coef)   -- axpy(src_arr, out_arr, size, c)
  | copy (s : Src)              -- copy(src_arr, out_arr, size)
  | zero                        -- out_arr[:] = 0
  | recurse
  | lin (ua ub : Bool)          -- out.data[:] = [a * x1.data] [+] [b * x2.data]  (right-hand side first)
  deriving Repr

/-! ### What `_blas_is_applicable` and `ravel` see of the arrays -/

/-- NumPy contiguity flags of one array. -/
structure Layout where
  cContig : Bool
  fContig : Bool
  deriving Repr, DecidableEq

/-- The facts about `(x1.data, x2.data, out.data)` that `_blas_is_applicable` tests. -/
structure Desc where
  l1 : Layout
  l2 : Layout
  lo : Layout
  dtypesDiffer : Bool     -- any(x.dtype != args[0].dtype for x in args[1:])
  dtypeNotBlas : Bool     -- any(x.dtype not in _BLAS_DTYPES for x in args)
  tooBig : Bool           -- any(x.size > np.iinfo('int32').max for x in args)
  deriving Repr, DecidableEq

def Desc.allF (d : Desc) : Bool := d.l1.fContig && d.l2.fContig && d.lo.fContig
def Desc.allC (d : Desc) : Bool := d.l1.cContig && d.l2.cContig && d.lo.cContig

/-- Atoms and connectives of the `if/elif` tests of `_blas_is_applicable`. -/
inductive BCond
  | dtypesDiffer | dtypeNotBlas | allF | allC | tooBig
  | not (c : BCond) | or (c d : BCond) | and (c d : BCond)
  deriving Repr

def BCond.eval (d : Desc) : BCond → Bool
  | .dtypesDiffer => d.dtypesDiffer
  | .dtypeNotBlas => d.dtypeNotBlas
  | .allF => d.allF
  | .allC => d.allC
  | .tooBig => d.tooBig
  | .not c => !(c.eval d)
  | .or c e => c.eval d || e.eval d
  | .and c e => c.eval d && e.eval d

/-- `if c1: return r1 elif c2: return r2 … else: return r` -/
inductive BTree
  | ret (r : Bool)
  | ite (c : BCond) (t e : BTree)
  deriving Repr

def BTree.eval (d : Desc) : BTree → Bool
  | .ret r => r
  | .ite c t e => if c.eval d then t.eval d else e.eval d

/-- `ravel_order = 'F' if out.data.flags.f_contiguous else 'C'`;
`out.data.ravel(order=ravel_order)` is a view iff `out.data` is contiguous in that order. -/
def outRavelIsView (d : Desc) : Bool :=
  if d.lo.fContig then d.lo.fContig else d.lo.cContig

section
variable {K : Type} [Add K] [Mul K] [OfNat K 0] [OfNat K 1] [DecidableEq K]

def Coef.val (a b : K) : Coef → K
  | .a => a | .b => b | .apb => a + b

def Src.buf (A : Args) : Src → Nat
  | .x1 => A.x1 | .x2 => A.x2

def Cond.eval (A : Args) (a b : K) : Cond → Bool
  | .aEq0 => a = 0
  | .aEq1 => a = 1
  | .bEq0 => b = 0
  | .bEq1 => b = 1
  | .apbEq0 => a + b = 0
  | .x1IsX2 => A.x1 = A.x2
  | .outIsX1 => A.out = A.x1
  | .outIsX2 => A.out = A.x2
  | .not c => !(c.eval A a b)
  | .and c d => c.eval A a b && d.eval A a b
  | .or c d => c.eval A a b || d.eval A a b

/-- How the regime implements `axpy(src, dst, n, c)`.
`guarded = true`  : `if c != 0: dst += c * src`   (the fallback as written)
`guarded = false` : `dst += c * src`              (BLAS axpy) -/
def axpyPrim (guarded : Bool) (c : K) (src dst : Vec K) : Vec K :=
  if guarded && decide (c = 0) then dst else fun i => dst i + c * src i

def scalPrim (c : K) (dst : Vec K) : Vec K := fun i => c * dst i

/-- Execute a statement; `self` is what the recursive call does. -/
def exec (guarded : Bool) (self : Args → K → K → Mem K → Option (Mem K)) :
    Stmt → Args → K → K → Mem K → Option (Mem K)
  | .skip, _, _, _, m => some m
  | .seq s t, A, a, b, m =>
      match exec guarded self s A a b m with
      | some m' => exec guarded self t A a b m'
      | none => none
  | .ite c t e, A, a, b, m =>
      if c.eval A a b then exec guarded self t A a b m else exec guarded self e A a b m
  | .scal c, A, a, b, m => some (m.write A.out (scalPrim (c.val a b) (m A.out)))
  | .axpy s c, A, a, b, m =>
      some (m.write A.out (axpyPrim guarded (c.val a b) (m (s.buf A)) (m A.out)))
  | .copy s, A, _, _, m => some (m.write A.out (m (s.buf A)))
  | .zero, A, _, _, m => some (m.write A.out (fun _ => 0))
  | .recurse, A, a, b, m => self { A with x2 := A.x1 } (a + b) 0 m
  | .lin ua ub, A, a, b, m =>
      some (m.write A.out (fun i => (if ua then a * m A.x1 i else 0) +
                                    (if ub then b * m A.x2 i else 0)))

/-- The primitive operations a statement executes, in order (the conditions do not depend
on the memory): used by the driver to report which leaf of the dispatch ran. -/
def Stmt.trace (A : Args) (a b : K) : Stmt → List String
  | .skip => []
  | .seq s t => s.trace A a b ++ t.trace A a b
  | .ite c t e => if c.eval A a b then t.trace A a b else e.trace A a b
  | .scal _ => ["scal"]
  | .axpy _ _ => ["axpy"]
  | .copy _ => ["copy"]
  | .zero => ["zero"]
  | .recurse => ["recurse"]
  | .lin ua ub => ["lin" ++ (if ua then "1" else "0") ++ (if ub then "1" else "0")]

inductive Regime | small | fallback | blas
  deriving Repr, DecidableEq

/-- `size < SMALL → direct`, `size < MEDIUM or not blas_applicable → fallback`, else BLAS. -/
def regime (thrSmall thrMedium size : Nat) (blasOk : Bool) : Regime :=
  if size < thrSmall then .small
  else if size < thrMedium || !blasOk then .fallback
  else .blas

/-- The small-size branch: `out.data[:] = a * x1.data + b * x2.data` (right-hand side
evaluated first). -/
def direct (A : Args) (a b : K) (m : Mem K) : Mem K :=
  m.write A.out (fun i => a * m A.x1 i + b * m A.x2 i)

/-- The extracted facts about `_lincomb_impl` that parameterise the model. -/
structure Params where
  thrSmall : Nat
  thrMedium : Nat
  fbGuard : Bool        -- `fallback_axpy` is guarded by `a != 0`
  zeroGuard : Bool      -- `if a == 0 and b == 0: out.data[:] = 0; return` precedes the regimes
  blasTree : BTree      -- `_blas_is_applicable`
  prog : Stmt           -- the alias/scalar dispatch
  progSmall : Stmt      -- the body of the small-size branch (direct NumPy expressions)

/-- Whole `_lincomb_impl(a, x1, b, x2, out)`, re-entered as a whole by the recursive call
(`none` = recursion depth exhausted).  In the BLAS regime all work is done on
`arr.ravel(order)`; if that is a copy of `out.data` the writes are lost. -/
def lincombImplF (P : Params) (size : Nat) (d : Desc) :
    Nat → Args → K → K → Mem K → Option (Mem K)
  | 0 => fun _ _ _ _ => none
  | f + 1 => fun A a b m =>
    if P.zeroGuard && decide (a = 0) && decide (b = 0) then some (m.write A.out (fun _ => 0))
    else
      match regime P.thrSmall P.thrMedium size (P.blasTree.eval d) with
      | .small => exec false (lincombImplF P size d f) P.progSmall A a b m
      | .fallback => exec P.fbGuard (lincombImplF P size d f) P.prog A a b m
      | .blas =>
          match exec false (lincombImplF P size d f) P.prog A a b m with
          | some m' => if outRavelIsView d then some m' else some m
          | none => none

def lincombImpl (P : Params) (size : Nat) (d : Desc) (A : Args) (a b : K) (m : Mem K) :
    Option (Mem K) :=
  lincombImplF P size d 3 A a b m

end

end OdlModel.Lincomb
