/-
Model of the operator-level methods of `odl/discr/discr_ops.py::ResizingOperator` that build
NEW operators from an existing one (property C16, round 4):

* `ResizingOperator._call`      → `ROp.call`   (`resize_array(..., direction='forward')`)
* `ResizingOperator.inverse`    → `ROp.inverse`:  `ResizingOperator(self.range, self.domain,
                                   pad_mode=self.pad_mode, pad_const=self.pad_const)` — the same
                                   operator with the two spaces swapped, mode and constant kept;
* `ResizingOperator.derivative` → `ROp.derivative`: for `pad_mode == 'constant' and
                                   pad_const != 0` the zero-padding variant between the same
                                   spaces, otherwise `self`;
* `ResizingOperator.adjoint`    → `ROp.adjointCall`: refused (`NotImplementedError`) for a
                                   non-linear operator, else `resize_array(..., pad_const=0,
                                   direction='adjoint')` (weights: `opAdjointW`/`opAdjointND`).

The array action of an operator depends on the spaces only through the two shapes and
`self.offset`; the constructor called by `inverse` recomputes the offset with
`_offset_from_spaces(range, domain)` — `ROp.inverse` keeps the offsets, and
`inverseOffsets` is the recomputation (that both agree is `C16.inverse_offset_same`; the
driver prints both and the correspondence compares both with `op.inverse.offset`).
-/
import OdlModel.Model.Resize

namespace OdlModel.Resize

/-- What the array action of a `ResizingOperator` depends on. -/
structure ROp (K : Type) where
  mode : Mode
  /-- `self.pad_const` (already cast to the dtype of the range) -/
  c : K
  /-- `domain.shape` -/
  sIn : List Nat
  /-- `range.shape` -/
  sOut : List Nat
  /-- `self.offset` -/
  offs : List Nat
  deriving DecidableEq

section
variable {K : Type} [DecidableEq K] [Zero K]

/-- `linear = (self.pad_mode != 'constant' or self.pad_const == 0.0)` of `__init__`. -/
def ROp.isLinear (op : ROp K) : Bool := decide (op.mode ≠ .constant ∨ op.c = 0)

/-- `ResizingOperator.inverse`: spaces swapped, `pad_mode` and `pad_const` kept. -/
def ROp.inverse (op : ROp K) : ROp K := { op with sIn := op.sOut, sOut := op.sIn }

/-- `ResizingOperator.derivative(point)` (the point is not used by the code). -/
def ROp.derivative (op : ROp K) : ROp K :=
  if op.mode = .constant ∧ op.c ≠ 0 then { op with mode := .constant, c := 0 } else op

variable [Add K] [Sub K] [Mul K] [IntCast K]

/-- `ResizingOperator._call`. -/
def ROp.call (op : ROp K) (X : List Nat → K) : Except Err (List Nat → K) :=
  resizeND op.mode .forward op.sIn op.sOut op.offs op.c X

/-- `ResizingOperator.adjoint` followed by a call, without the weights of the inner products:
`none` is the `NotImplementedError` for a non-linear operator. -/
def ROp.adjointCall (op : ROp K) (Y : List Nat → K) : Option (Except Err (List Nat → K)) :=
  if op.isLinear then some (resizeND op.mode .adjoint op.sOut op.sIn op.offs 0 Y) else none

end

/-- The offsets the constructor called by `inverse` computes: `_offset_from_spaces(range,
domain)` axis by axis (first refusal wins). -/
def inverseOffsets : List (Axis Rat) → List (Axis Rat) → Except ShiftErr (List Nat)
  | dom :: doms, ran :: rans =>
    match offsetFromAxes ran dom with
    | .error e => .error e
    | .ok k =>
      match inverseOffsets doms rans with
      | .error e => .error e
      | .ok ks => .ok (k :: ks)
  | _, _ => .ok []

/-! ### `_offset_from_spaces` AS CODED: `np.around` and `np.isclose` with their tolerances -/

/-- `|q|` -/
def ratAbs (q : Rat) : Rat := if q < 0 then -q else q

/-- `np.around` on one number: nearest integer, ties to the even one. -/
def roundHalfEven (q : Rat) : Int :=
  let f := q.floor
  let r := q - (f : Rat)
  if r < 1 / 2 then f else if 1 / 2 < r then f + 1 else if f % 2 = 0 then f else f + 1

/-- `np.isclose(a, b, rtol, atol)`: `|a - b| <= atol + rtol * |b|`. -/
def isClose (rtol atol a b : Rat) : Bool := decide (ratAbs (a - b) ≤ atol + rtol * ratAbs b)

/-- One axis of `_offset_from_spaces` statement by statement, the tolerances of `np.isclose`
as parameters (NumPy's defaults are `rtol = 1e-5`, `atol = 1e-8`): `offset_float` =
`shiftCells`, `offset = np.around(offset_float)`; affected axis: not close → "non-multiple",
outside `[0, |n_ran - n_dom|]` → "not contained"; unaffected axis: `offset_float` not close to
`0` → "shifted although unchanged", offset 0.  (`np.isfinite(offset_float)` holds for a
non-zero cell side.) -/
def offsetFromAxesTol (rtol atol : Rat) (dom ran : Axis Rat) : Except ShiftErr Nat :=
  let s := shiftCells dom ran
  let k := roundHalfEven s
  if dom.n ≠ ran.n then
    if ¬ isClose rtol atol (k : Rat) s then .error .notMultiple
    else if k < 0 ∨ k > ((ran.n : Int) - dom.n).natAbs then .error .notContained
    else .ok k.toNat
  else if ¬ isClose rtol atol s 0 then .error .shiftedUnchanged
  else .ok 0

/-! ### `odl/util/numerics.py::apply_on_boundary` and `discr_ops.py::_scale_bdry_cells`

The functions applied on the boundary are affine maps `x ↦ a·x + b` (a pair `(a, b)`); `none`
is "this side of this axis is skipped" (`which_boundaries` false or a `None` function).  The
`i`-th step carries the axis `axis_order[i]` together with `func[i]` and `which_boundaries[i]`
(the code zips the three sequences). -/

structure BStep (K : Type) where
  ax : Nat
  fl : Option (K × K)
  fr : Option (K × K)

/-- `ROp.axes`: `ResizingOperator.axes`, the axes in which the size changes. -/
def ROp.axes {K : Type} (op : ROp K) : List Nat :=
  (List.range op.sIn.length).filter (fun i => op.sIn.getD i 0 ≠ op.sOut.getD i 0)

section boundary
variable {K : Type} [Add K] [Mul K]

def affApply (f : K × K) (x : K) : K := f.1 * x + f.2

/-- `idx` lies in the slices remembered from the axes processed so far (`only_once`): `st a` says
whether the left / right boundary of axis `a` was processed; the entry of the current axis is
overwritten by the code (`slc_l[ax] = 0`). -/
def inSlices (shape : List Nat) (st : Nat → Bool × Bool) (ax : Nat) (idx : List Nat) : Bool :=
  (List.range shape.length).all fun a =>
    a = ax || (!((st a).1 && idx.getD a 0 = 0) && !((st a).2 && idx.getD a 0 + 1 = shape.getD a 0))

/-- One pass of the loop body of `apply_on_boundary`: left boundary, then right boundary (which
sees the result of the left one — on an axis of length 1 both act on the same entry). -/
def bStep (onlyOnce : Bool) (shape : List Nat) (st : Nat → Bool × Bool) (s : BStep K)
    (A : List Nat → K) : List Nat → K :=
  let sel : List Nat → Bool := fun idx => !onlyOnce || inSlices shape st s.ax idx
  let A1 : List Nat → K := fun idx =>
    match s.fl with
    | some f => if idx.getD s.ax 0 = 0 ∧ sel idx = true then affApply f (A idx) else A idx
    | none => A idx
  fun idx =>
    match s.fr with
    | some f =>
      if idx.getD s.ax 0 + 1 = shape.getD s.ax 0 ∧ sel idx = true then affApply f (A1 idx)
      else A1 idx
    | none => A1 idx

/-- `apply_on_boundary(array, func, only_once, which_boundaries, axis_order)` on the box `shape`. -/
def applyOnBoundary (onlyOnce : Bool) (shape : List Nat) :
    (Nat → Bool × Bool) → List (BStep K) → (List Nat → K) → (List Nat → K)
  | _, [], A => A
  | st, s :: rest, A =>
    applyOnBoundary onlyOnce shape
      (fun a => if a = s.ax then (s.fl.isSome, s.fr.isSome) else st a) rest
      (bStep onlyOnce shape st s A)

/-- `_scaling_func_list(bdry_fracs, exponent=1.0)`: per axis the pair `x ↦ fl·x`, `x ↦ fr·x`. -/
def scaleSteps [Zero K] : Nat → List (K × K) → List (BStep K)
  | _, [] => []
  | ax, (l, r) :: rest => ⟨ax, some (l, 0), some (r, 0)⟩ :: scaleSteps (ax + 1) rest

/-- `_scale_bdry_cells(arr, space)`: `apply_on_boundary(arr, func_list, only_once=False)`. -/
def scaleBdryCells [Zero K] (shape : List Nat) (fracs : List (K × K)) (A : List Nat → K) :
    List Nat → K :=
  applyOnBoundary false shape (fun _ => (false, false)) (scaleSteps 0 fracs) A

/-- The weight the model of the adjoint uses: product over the axes of `bdryFrac`. -/
def bdryFracProd (one : K) : Nat → List Nat → List (K × K) → List Nat → K
  | ax, n :: shape, (l, r) :: fracs, idx =>
    bdryFrac one n l r (idx.getD ax 0) * bdryFracProd one (ax + 1) shape fracs idx
  | _, _, _, _ => one

end boundary

end OdlModel.Resize
