/-
C04, translator tie.  A small language for the bodies of the arithmetic overloads of
`odl/operator/operator.py` / `odl/solvers/functional/functional.py` (an `if/elif/else`
tree over a fixed set of guard atoms whose leaves construct an expression class, delegate
to `super`, return `other * self` or `NotImplemented`), its interpreter, and `buildT`: the
dispatch of a whole surface expression THROUGH extracted tables.

The tables themselves are NOT written here: `tools/extract/algebra_dispatch.py` regenerates
them from the Python AST into `Gen/AlgebraDispatch.lean` on every run, and
`Props/C04.lean` proves `buildT Gen.tables = build` (the hand-written dispatch all other
theorems are about) and that the generated `is_linear` table is the one `Impl.lin` uses.

Hand-modelled here (trusted Python semantics): the MRO chain
`Functional → OperatorRightScalarMult → Operator`, a number/element on the left deferring to
the operator's reflected method, the reflected-first rule for `+` (`reflectedFirst`),
`NotImplemented` ending in `TypeError`, and the argument checks of the constructors.
-/
import OdlModel.Model.OpAlgebra

namespace OdlModel.OpAlgebra

/-- The right operand of an overload. -/
inductive Operand (K : Type)
  | op (a : Impl K)
  | scal (s : K) (real : Bool)   -- `real` = isinstance(s, numbers.Real)
  | vec (v : VecLit K)

/-- Guard atoms (the only tests the translator accepts). -/
inductive Guard
  | otherIsOperator        -- isinstance(other, Operator)
  | otherIsFunctional      -- isinstance(other, Functional)
  | otherIsNumber          -- isinstance(other, Number)
  | otherInRange           -- other in self.range
  | otherInRangeField      -- other in self.range.field
  | otherInDomain          -- other in self.domain
  | otherInDomainField     -- other in self.domain.field
  | otherElemInDomain      -- isinstance(other, LinearSpaceElement) and other in self.domain
  | otherElemFieldIsRange  -- isinstance(other, LinearSpaceElement) and other.space.field == self.range
  | otherEqZero            -- other == 0
  | selfIsLinear           -- self.is_linear
  | otherIsReal            -- isinstance(other, Real)
  | otherDomainFieldIsRange -- other.domain.field == self.range
  | and (g h : Guard)      -- g and h
  deriving DecidableEq, Repr

inductive Cls
  | OperatorSum | OperatorVectorSum | OperatorComp | OperatorPointwiseProduct
  | OperatorLeftScalarMult | OperatorRightScalarMult
  | OperatorLeftVectorMult | OperatorRightVectorMult | FunctionalLeftVectorMult
  | FunctionalSum | FunctionalScalarSum | FunctionalComp | FunctionalProduct | FunctionalQuotient
  | FunctionalLeftScalarMult | FunctionalRightScalarMult | FunctionalRightVectorMult
  | ConstantFunctional | ZeroFunctional
  deriving DecidableEq, Repr

/-- Argument lists of the constructor calls found in the overloads. -/
inductive Args
  | selfOther          -- (self, other)
  | otherSelf          -- (other, self)
  | selfOtherCopy      -- (self, other.copy()): every overload that stores a user VECTOR copies it
  | selfOtherTimesOne  -- constant_vector = other * self.range.one(); (self, constant_vector)
  | opScalTimesOther   -- (self.operator, self.scalar * other, self.__tmp)
  | domainSelfAtZero   -- (self.domain, self(self.domain.zero()))
  | domain             -- (self.domain)
  deriving DecidableEq, Repr

/-- Body of a guarded overload. -/
inductive Act
  | notImplemented
  | super                            -- super(C, self).__m__(other)
  | otherTimesSelf                   -- return other * self
  | mk (c : Cls) (a : Args)          -- return C(args)
  | ite (g : Guard) (t e : Act)      -- if g: t else: e   (elif chains nest in `e`)
  deriving Repr

/-- Bodies of the unguarded one-line overloads. -/
inductive Deleg
  | selfPlusOther              -- self + other
  | selfPlusNegOneTimesOther   -- self + (-1) * other
  | negOneTimesSelfPlusOther   -- (-1) * self + other
  | negOneTimesSelf            -- -1 * self
  | selfTimesRecipOther        -- if isinstance(other, Number): self * (1.0 / other) else NotImplemented
  | selfMulOther               -- self.__mul__(other)
  | selfRMulOther              -- self.__rmul__(other)
  deriving DecidableEq, Repr

/-- How a constructor sets `is_linear` (last base initialiser wins). -/
inductive Flag
  | operand            -- linear=operator.is_linear
  | both               -- linear=left.is_linear and right.is_linear
  | never              -- linear=False / not passed
  | constIsZero        -- linear=(constant == 0)
  | always             -- ConstantFunctional.__init__(constant=0)
  | bothWithConstant   -- FunctionalSum.__init__(left=func, right=ConstantFunctional(constant=scalar))
  deriving DecidableEq, Repr

/-- The scalar-merging shortcut of `Operator{Left,Right}ScalarMult.__init__` (the ONLY
rebinding of `scalar` / `operator` the translator accepts in those constructors). -/
inductive Merge
  | none               -- no rebinding
  | ownClassProduct    -- if isinstance(operator, OwnClass): scalar = scalar * operator.scalar; operator = operator.operator
  deriving DecidableEq, Repr

/-- Out-of-place `_call` bodies: `return <CExpr>`. `first` is `self.left` / `self.operator` /
`self.functional` / `self.dividend`, `second` is `self.right` / `self.divisor`. -/
inductive CExpr
  | x | scalar | vector | constant
  | first (arg : CExpr)
  | second (arg : CExpr)
  | add (a b : CExpr)
  | mul (a b : CExpr)
  | div (a b : CExpr)
  deriving Repr

/-! ### In-place `_call` branches: statement lists (round 4)

The `else:` (`out` given) branch of each `_call`, as EXTRACTED statement by statement.
Local names: `x`, `out`, `tmp`, and the local `scalar` of `FunctionalLeftVectorMult` (`sc`). -/

inductive Reg | x | out | tmp | sc
  deriving DecidableEq, Repr

/-- operand of an in-place update: a local, `self.scalar` or `self.vector` -/
inductive Opd
  | reg (r : Reg) | scalar | vector
  deriving DecidableEq, Repr

inductive Stmt
  /-- `r = <space>.element()` / `r = self.__tmp if self.__tmp is not None else ….element()`:
  a buffer with unspecified contents -/
  | fresh (r : Reg)
  /-- `self.<sub>(arg, out=dst)` (`first` = left/operator/functional, else right) -/
  | callIn (first : Bool) (arg dst : Reg)
  /-- `dst = self.<sub>(arg)` (out-of-place call) -/
  | callOut (first : Bool) (arg dst : Reg)
  /-- `dst += o` -/
  | iadd (dst : Reg) (o : Opd)
  /-- `dst *= o` -/
  | imul (dst : Reg) (o : Opd)
  /-- `dst.lincomb(a, b)` (two-argument form: `dst = a * b`) -/
  | lincomb (dst : Reg) (a b : Opd)
  /-- `a.multiply(b, out=dst)` -/
  | multiply (a : Reg) (b : Opd) (dst : Reg)
  deriving DecidableEq, Repr

/-- in-place branch: a statement list, or `if self.right.is_functional: A else: B` -/
inductive Prog
  | stmts (l : List Stmt)
  | ifSecondFunctional (a b : List Stmt)
  deriving Repr

/-- Everything the translator extracts. -/
structure Tables where
  operatorAdd : Act
  operatorMul : Act
  operatorRMul : Act
  rscalMul : Act            -- OperatorRightScalarMult.__mul__
  functionalAdd : Act
  functionalMul : Act
  functionalRMul : Act
  operatorRAdd : Deleg
  operatorSub : Deleg
  operatorRSub : Deleg
  operatorNeg : Deleg
  operatorTruediv : Deleg
  functionalSub : Deleg
  /-- `Functional.__radd__ = __add__` -/
  functionalRAddIsAdd : Bool
  /-- `__pow__` is `op = self; while n > 1: op = OperatorComp(self, op); n -= 1` for positive ints -/
  powIsCompLoop : Bool
  /-- `Operator.__array_priority__ > LinearSpaceElement.__array_priority__` -/
  operatorPriorityHigher : Bool
  mergeLeft : Merge         -- OperatorLeftScalarMult.__init__
  mergeRight : Merge        -- OperatorRightScalarMult.__init__
  flagOf : Cls → Flag
  /-- out-of-place `_call` of each expression class (inherited ones resolved by MRO) -/
  callOf : Cls → CExpr

section
variable {K : Type} [Add K] [Mul K] [Neg K] [Sub K] [Div K] [OfNat K 0] [OfNat K 1]
  [DecidableEq K]

def Guard.eval (self : Impl K) (other : Operand K) : Guard → Bool
  | .otherIsOperator => match other with | .op _ => true | _ => false
  | .otherIsFunctional => match other with | .op b => b.isFn | _ => false
  | .otherIsNumber => match other with | .scal _ _ => true | _ => false
  | .otherInRange => match other with
      | .vec v => decide (self.ran = .vec v.n)
      | .scal _ _ => decide (self.ran = .fld)
      | .op _ => false
  | .otherInRangeField => match other with | .scal _ _ => true | _ => false
  | .otherInDomain => match other with
      | .vec v => decide (self.dom = .vec v.n)
      | .scal _ _ => decide (self.dom = .fld)
      | .op _ => false
  | .otherInDomainField => match other with | .scal _ _ => true | _ => false
  | .otherElemInDomain => match other with | .vec v => decide (self.dom = .vec v.n) | _ => false
  | .otherElemFieldIsRange => match other with | .vec _ => decide (self.ran = .fld) | _ => false
  | .otherEqZero => match other with | .scal s _ => decide (s = 0) | _ => false
  | .selfIsLinear => self.lin
  | .otherIsReal => match other with | .scal _ re => re | _ => false
  -- one field per tree: the field of `other.domain` is THE field; `self.range` equals it iff
  -- it is the field
  | .otherDomainFieldIsRange => match other with | .op _ => decide (self.ran = .fld) | _ => false
  | .and g h => g.eval self other && h.eval self other

def ctorSum (fn : Bool) (a b : Impl K) : Option (Impl K) :=
  if a.dom = b.dom ∧ a.ran = b.ran then some (.sum fn a b) else none

def ctorComp (fn : Bool) (l r : Impl K) : Option (Impl K) :=
  if r.ran = l.dom then some (.comp fn l r) else none

/-- `OperatorLeftScalarMult.__init__` under an extracted merge rule -/
def ctorLScal (m : Merge) (fn : Bool) (a : Impl K) (s : K) : Impl K :=
  match m with
  | .ownClassProduct => mkLScal fn a s
  | .none => .lscal fn a s

def ctorRScal (m : Merge) (fn : Bool) (a : Impl K) (s : K) : Impl K :=
  match m with
  | .ownClassProduct => mkRScal fn a s
  | .none => .rscal fn a s

/-- `C(args)` with the argument checks of `C.__init__` (`none` = it raises). Combinations the
overloads never produce are `none`. `mL`, `mR`: the extracted scalar-merging rules. -/
def construct (mL mR : Merge) (env : Nat → Vec K → Vec K) (c : Cls) (args : Args) (self : Impl K)
    (other : Operand K) : Option (Impl K) :=
  match c, args, other with
  | .OperatorSum, .selfOther, .op b => ctorSum false self b
  | .FunctionalSum, .selfOther, .op b => if self.isFn ∧ b.isFn then ctorSum true self b else none
  | .OperatorVectorSum, .selfOtherCopy, .vec v =>
      if self.ran = .vec v.n then some (.vecSum self v.val) else none
  | .OperatorVectorSum, .selfOtherTimesOne, .scal s _ =>
      match self.ran with
      | .vec _ => some (.vecSum self (fun _ => s * 1))
      | .fld => none
  | .FunctionalScalarSum, .selfOther, .scal s _ =>
      if self.isFn ∧ self.ran = .fld then some (.scalSum self s) else none
  | .OperatorComp, .selfOther, .op b => ctorComp false self b
  | .OperatorComp, .otherSelf, .op b => ctorComp false b self
  | .FunctionalComp, .selfOther, .op b => if self.isFn then ctorComp true self b else none
  | .OperatorLeftScalarMult, .selfOther, .scal s _ => some (ctorLScal mL false self s)
  | .FunctionalLeftScalarMult, .selfOther, .scal s _ =>
      if self.isFn then some (ctorLScal mL true self s) else none
  | .OperatorRightScalarMult, .selfOther, .scal s _ => some (ctorRScal mR false self s)
  | .OperatorRightScalarMult, .opScalTimesOther, .scal s _ =>
      match rscalParts self with
      | some (a', t) => some (ctorRScal mR false a' (t * s))
      | none => none
  | .FunctionalRightScalarMult, .selfOther, .scal s _ =>
      if self.isFn then some (ctorRScal mR true self s) else none
  | .OperatorRightVectorMult, .selfOtherCopy, .vec v =>
      if self.dom = .vec v.n then some (.rvec false self v.val) else none
  | .FunctionalRightVectorMult, .selfOtherCopy, .vec v =>
      if self.isFn ∧ self.dom = .vec v.n then some (.rvec true self v.val) else none
  | .OperatorLeftVectorMult, .selfOtherCopy, .vec v =>
      if self.ran = .vec v.n then some (.lvec self v.val) else none
  | .FunctionalLeftVectorMult, .selfOtherCopy, .vec v =>
      if self.ran = .fld then some (.flvec self v) else none
  | .ConstantFunctional, .domainSelfAtZero, _ =>
      some (.const self.dom (run env self (fun _ => 0)))
  | .ZeroFunctional, .domain, _ => some (.zero self.dom)
  | _, _, _ => none

/-- Run an overload body. `rmul` is what `other * self` does, `sup` the next class in the MRO. -/
def Act.eval (mL mR : Merge) (env : Nat → Vec K → Vec K) (rmul : Operand K → Option (Impl K))
    (sup : Operand K → Option (Impl K)) (self : Impl K) (other : Operand K) :
    Act → Option (Impl K)
  | .notImplemented => none
  | .super => sup other
  | .otherTimesSelf => rmul other
  | .mk c a => construct mL mR env c a self other
  | .ite g t e =>
      if g.eval self other then t.eval mL mR env rmul sup self other
      else e.eval mL mR env rmul sup self other

def noSuper : Operand K → Option (Impl K) := fun _ => none

/-- `other * self` / `self.__rmul__(other)` -/
def dispatchRMul (T : Tables) (env : Nat → Vec K → Vec K) (self : Impl K) (other : Operand K) :
    Option (Impl K) :=
  let base := fun o => T.operatorRMul.eval T.mergeLeft T.mergeRight env noSuper noSuper self o
  if self.isFn then T.functionalRMul.eval T.mergeLeft T.mergeRight env noSuper base self other else base other

/-- `self * other` / `self.__mul__(other)` -/
def dispatchMul (T : Tables) (env : Nat → Vec K → Vec K) (self : Impl K) (other : Operand K) :
    Option (Impl K) :=
  let rm := fun o => dispatchRMul T env self o
  let base := fun o => T.operatorMul.eval T.mergeLeft T.mergeRight env rm noSuper self o
  let rs := fun o => if (rscalParts self).isSome then T.rscalMul.eval T.mergeLeft T.mergeRight env rm base self o else base o
  if self.isFn then T.functionalMul.eval T.mergeLeft T.mergeRight env rm rs self other else rs other

/-- `self.__add__(other)` -/
def dispatchAdd (T : Tables) (env : Nat → Vec K → Vec K) (self : Impl K) (other : Operand K) :
    Option (Impl K) :=
  let base := fun o => T.operatorAdd.eval T.mergeLeft T.mergeRight env noSuper noSuper self o
  if self.isFn then T.functionalAdd.eval T.mergeLeft T.mergeRight env noSuper base self other else base other

/-- The expression `self + other` as Python evaluates it (reflected-first rule). -/
def pyAdd (T : Tables) (env : Nat → Vec K → Vec K) (self : Impl K) (other : Operand K) :
    Option (Impl K) :=
  match other with
  | .op b => if reflectedFirst self b then dispatchAdd T env b (.op self)
             else dispatchAdd T env self (.op b)
  | o => dispatchAdd T env self o

/-- The expression `self * other` as Python evaluates it: for an operator on the right whose
type is the `Functional…` subclass of the left operand's expression class,
`Functional.__rmul__` is tried first (and ends in `Operator.__rmul__`). -/
def pyMul (T : Tables) (env : Nat → Vec K → Vec K) (self : Impl K) (other : Operand K) :
    Option (Impl K) :=
  match other with
  | .op b => if reflectedFirst self b then dispatchRMul T env b (.op self)
             else dispatchMul T env self (.op b)
  | o => dispatchMul T env self o

/-- `(-1) * other` for the three kinds of operand. -/
def negOneTimes (T : Tables) (env : Nat → Vec K → Vec K) : Operand K → Option (Operand K)
  | .op b => (dispatchRMul T env b (.scal (-1) true)).map .op
  | .scal s re => some (.scal (-1 * s) re)
  | .vec v => some (.vec ⟨v.n, fun j => -1 * v.val j⟩)

def Deleg.eval (T : Tables) (env : Nat → Vec K → Vec K) (self : Impl K) (other : Operand K) :
    Deleg → Option (Impl K)
  | .selfPlusOther => pyAdd T env self other
  | .selfPlusNegOneTimesOther => (negOneTimes T env other).bind (pyAdd T env self)
  | .negOneTimesSelfPlusOther =>
      (dispatchRMul T env self (.scal (-1) true)).bind (fun m => pyAdd T env m other)
  | .negOneTimesSelf => dispatchRMul T env self (.scal (-1) true)
  | .selfTimesRecipOther =>
      match other with
      | .scal s re => if s = 0 then none else dispatchMul T env self (.scal (1 / s) re)
      | _ => none
  | .selfMulOther => dispatchMul T env self other
  | .selfRMulOther => dispatchRMul T env self other

/-- `other + self` with a number/element on the left: the left operand's method defers
(`NotImplemented` for numbers, `__array_priority__` for space elements — checked at the
call sites in `buildT`) to the operator's reflected method. -/
def reflectedAdd (T : Tables) (env : Nat → Vec K → Vec K) (self : Impl K) (other : Operand K) :
    Option (Impl K) :=
  if self.isFn && T.functionalRAddIsAdd then dispatchAdd T env self other
  else T.operatorRAdd.eval T env self other

def subOf (T : Tables) (self : Impl K) : Deleg :=
  if self.isFn then T.functionalSub else T.operatorSub

/-- The dispatch of a whole expression through the extracted tables. -/
def buildT (T : Tables) (env : Nat → Vec K → Vec K) : Expr K → Option (Impl K)
  | .leaf i => some (.leaf i)
  | .neg a => (buildT T env a).bind fun a' => T.operatorNeg.eval T env a' (.scal 0 true)
  | .pow a n => (buildT T env a).bind fun a' => if T.powIsCompLoop then opPow a' n else none
  | .bin o a b =>
    match buildT T env a, buildT T env b with
    | some a', some b' =>
      match o with
      | .add => pyAdd T env a' (.op b')
      | .sub => (subOf T a').eval T env a' (.op b')
      | .mul => pyMul T env a' (.op b')
      | .pprod => mkPProd a' b'
      | .quot => mkQuot a' b'
    | _, _ => none
  | .sc o a s re =>
    match buildT T env a with
    | some a' =>
      match o with
      | .lmul => dispatchRMul T env a' (.scal s re)
      | .rmul => dispatchMul T env a' (.scal s re)
      | .div => T.operatorTruediv.eval T env a' (.scal s re)
      | .add => pyAdd T env a' (.scal s re)
      | .radd => reflectedAdd T env a' (.scal s re)
      | .sub => (subOf T a').eval T env a' (.scal s re)
      | .rsub => T.operatorRSub.eval T env a' (.scal s re)
    | none => none
  | .vc o a v =>
    match buildT T env a with
    | some a' =>
      match o with
      | .lmul => if T.operatorPriorityHigher then dispatchRMul T env a' (.vec v) else none
      | .rmul => dispatchMul T env a' (.vec v)
      | .add => pyAdd T env a' (.vec v)
      | .radd => if T.operatorPriorityHigher then reflectedAdd T env a' (.vec v) else none
      | .sub => (subOf T a').eval T env a' (.vec v)
      | .rsub => if T.operatorPriorityHigher then T.operatorRSub.eval T env a' (.vec v) else none
    | none => none

/-! ### the `is_linear` table -/

def Impl.cls : Impl K → Option Cls
  | .leaf _ => none
  | .sum fn _ _ => some (if fn then .FunctionalSum else .OperatorSum)
  | .scalSum _ _ => some .FunctionalScalarSum
  | .vecSum _ _ => some .OperatorVectorSum
  | .comp fn _ _ => some (if fn then .FunctionalComp else .OperatorComp)
  | .pprod fn _ _ => some (if fn then .FunctionalProduct else .OperatorPointwiseProduct)
  | .quot _ _ => some .FunctionalQuotient
  | .lscal fn _ _ => some (if fn then .FunctionalLeftScalarMult else .OperatorLeftScalarMult)
  | .rscal fn _ _ => some (if fn then .FunctionalRightScalarMult else .OperatorRightScalarMult)
  | .lvec _ _ => some .OperatorLeftVectorMult
  | .rvec fn _ _ => some (if fn then .FunctionalRightVectorMult else .OperatorRightVectorMult)
  | .flvec _ _ => some .FunctionalLeftVectorMult
  | .const _ _ => some .ConstantFunctional
  | .zero _ => some .ZeroFunctional

/-- The flag a `Flag` rule gives from the flags of the operands / the stored constant. -/
def Flag.apply (f : Flag) (first second constZero : Bool) : Bool :=
  match f with
  | .operand => first
  | .both => first && second
  | .never => false
  | .constIsZero => constZero
  | .always => true
  | .bothWithConstant => first && constZero

/-- `is_linear` recomputed through an extracted flag table. -/
def Impl.linBy (flagOf : Cls → Flag) : Impl K → Bool
  | .leaf i => i.lin
  | .sum fn l r => (flagOf (if fn then .FunctionalSum else .OperatorSum)).apply
      (l.linBy flagOf) (r.linBy flagOf) false
  | .scalSum f c => (flagOf .FunctionalScalarSum).apply (f.linBy flagOf) false (decide (c = 0))
  | .vecSum a _ => (flagOf .OperatorVectorSum).apply (a.linBy flagOf) false false
  | .comp fn l r => (flagOf (if fn then .FunctionalComp else .OperatorComp)).apply
      (l.linBy flagOf) (r.linBy flagOf) false
  | .pprod fn l r => (flagOf (if fn then .FunctionalProduct else .OperatorPointwiseProduct)).apply
      (l.linBy flagOf) (r.linBy flagOf) false
  | .quot l r => (flagOf .FunctionalQuotient).apply (l.linBy flagOf) (r.linBy flagOf) false
  | .lscal fn a _ => (flagOf (if fn then .FunctionalLeftScalarMult else .OperatorLeftScalarMult)).apply
      (a.linBy flagOf) false false
  | .rscal fn a _ => (flagOf (if fn then .FunctionalRightScalarMult else .OperatorRightScalarMult)).apply
      (a.linBy flagOf) false false
  | .lvec a _ => (flagOf .OperatorLeftVectorMult).apply (a.linBy flagOf) false false
  | .rvec fn a _ => (flagOf (if fn then .FunctionalRightVectorMult else .OperatorRightVectorMult)).apply
      (a.linBy flagOf) false false
  | .flvec a _ => (flagOf .FunctionalLeftVectorMult).apply (a.linBy flagOf) false false
  | .const _ c => (flagOf .ConstantFunctional).apply false false (decide (c 0 = 0))
  | .zero _ => (flagOf .ZeroFunctional).apply false false true

/-! ### the out-of-place `_call` table -/

/-- Value of a `_call` return expression at `x`, given the maps of the sub-operators and the
stored scalar (as a constant family) / vector / constant. -/
def CExpr.eval (first second : Vec K → Vec K) (scalar vector constant : Vec K) (x : Vec K) :
    CExpr → Vec K
  | .x => x
  | .scalar => scalar
  | .vector => vector
  | .constant => constant
  | .first a => first (a.eval first second scalar vector constant x)
  | .second a => second (a.eval first second scalar vector constant x)
  | .add a b => fun j => a.eval first second scalar vector constant x j +
      b.eval first second scalar vector constant x j
  | .mul a b => fun j => a.eval first second scalar vector constant x j *
      b.eval first second scalar vector constant x j
  | .div a b => fun j => a.eval first second scalar vector constant x j /
      b.eval first second scalar vector constant x j

def idV : Vec K → Vec K := fun x => x
def zeroV : Vec K := fun _ => 0

/-- `op(x)` computed through an extracted `_call` table. -/
def runBy (callOf : Cls → CExpr) (env : Nat → Vec K → Vec K) : Impl K → Vec K → Vec K
  | .leaf i => fun x => env i.id x
  | .sum fn l r => fun x => (callOf (if fn then .FunctionalSum else .OperatorSum)).eval
      (runBy callOf env l) (runBy callOf env r) zeroV zeroV zeroV x
  | .scalSum f c => fun x => (callOf .FunctionalScalarSum).eval
      (runBy callOf env f)
      (fun y => (callOf .ConstantFunctional).eval idV idV zeroV zeroV (fun _ => c) y)
      zeroV zeroV zeroV x
  | .vecSum a v => fun x => (callOf .OperatorVectorSum).eval (runBy callOf env a) idV zeroV v zeroV x
  | .comp fn l r => fun x => (callOf (if fn then .FunctionalComp else .OperatorComp)).eval
      (runBy callOf env l) (runBy callOf env r) zeroV zeroV zeroV x
  | .pprod fn l r => fun x =>
      (callOf (if fn then .FunctionalProduct else .OperatorPointwiseProduct)).eval
      (runBy callOf env l) (runBy callOf env r) zeroV zeroV zeroV x
  | .quot l r => fun x => (callOf .FunctionalQuotient).eval
      (runBy callOf env l) (runBy callOf env r) zeroV zeroV zeroV x
  | .lscal fn a s => fun x =>
      (callOf (if fn then .FunctionalLeftScalarMult else .OperatorLeftScalarMult)).eval
      (runBy callOf env a) idV (fun _ => s) zeroV zeroV x
  | .rscal fn a s => fun x =>
      (callOf (if fn then .FunctionalRightScalarMult else .OperatorRightScalarMult)).eval
      (runBy callOf env a) idV (fun _ => s) zeroV zeroV x
  | .lvec a v => fun x => (callOf .OperatorLeftVectorMult).eval (runBy callOf env a) idV zeroV v zeroV x
  | .rvec fn a v => fun x =>
      (callOf (if fn then .FunctionalRightVectorMult else .OperatorRightVectorMult)).eval
      (runBy callOf env a) idV zeroV v zeroV x
  | .flvec a v => fun x => (callOf .FunctionalLeftVectorMult).eval
      (runBy callOf env a) idV zeroV v.val zeroV x
  | .const _ c => fun x => (callOf .ConstantFunctional).eval idV idV zeroV zeroV c x
  | .zero _ => fun x => (callOf .ZeroFunctional).eval idV idV zeroV zeroV zeroV x

/-! ### the in-place `_call` table -/

structure St (K : Type) where
  x : Vec K
  out : Vec K
  tmp : Vec K
  sc : Vec K

def St.get (st : St K) : Reg → Vec K
  | .x => st.x | .out => st.out | .tmp => st.tmp | .sc => st.sc

def St.set (st : St K) (r : Reg) (v : Vec K) : St K :=
  match r with
  | .x => { st with x := v } | .out => { st with out := v }
  | .tmp => { st with tmp := v } | .sc => { st with sc := v }

def Opd.val (scalar vector : Vec K) (st : St K) : Opd → Vec K
  | .reg r => st.get r
  | .scalar => scalar
  | .vector => vector

/-- One statement.  `fIn a o` / `sIn a o`: the in-place call of the first / second sub-operator
at `a` with an `out` buffer that contains `o`; `fOut` / `sOut`: their out-of-place call; `junk`:
the contents of a fresh buffer. -/
def Stmt.exec (fIn sIn : Vec K → Vec K → Vec K) (fOut sOut : Vec K → Vec K)
    (scalar vector junk : Vec K) (st : St K) : Stmt → St K
  | .fresh r => st.set r junk
  | .callIn first a d => st.set d ((if first then fIn else sIn) (st.get a) (st.get d))
  | .callOut first a d => st.set d ((if first then fOut else sOut) (st.get a))
  | .iadd d o => st.set d (fun j => st.get d j + o.val scalar vector st j)
  | .imul d o => st.set d (fun j => st.get d j * o.val scalar vector st j)
  | .lincomb d a b => st.set d (fun j => a.val scalar vector st j * b.val scalar vector st j)
  | .multiply a b d => st.set d (fun j => st.get a j * b.val scalar vector st j)

def execStmts (fIn sIn : Vec K → Vec K → Vec K) (fOut sOut : Vec K → Vec K)
    (scalar vector junk : Vec K) : List Stmt → St K → St K
  | [], st => st
  | s :: r, st => execStmts fIn sIn fOut sOut scalar vector junk r
      (s.exec fIn sIn fOut sOut scalar vector junk st)

/-- the contents of `out` after the in-place branch, started with `x`, `out = out0` and every
other local unspecified (`junk`) -/
def Prog.exec (fIn sIn : Vec K → Vec K → Vec K) (fOut sOut : Vec K → Vec K)
    (secondFunctional : Bool) (scalar vector junk x out0 : Vec K) : Prog → Vec K
  | .stmts l => (execStmts fIn sIn fOut sOut scalar vector junk l ⟨x, out0, junk, junk⟩).out
  | .ifSecondFunctional a b =>
    (execStmts fIn sIn fOut sOut scalar vector junk (if secondFunctional then a else b)
      ⟨x, out0, junk, junk⟩).out

def noIn : Vec K → Vec K → Vec K := fun x _ => x

/-- `op(x, out=out)` with `out` containing `out0`, computed through the EXTRACTED in-place
statement lists (`inpl c = none`: class `c` has no `out` branch, its `_call` is the out-of-place
one).  Leaves are pure (`env`), fresh buffers contain `junk`. -/
def runInBy (inpl : Cls → Option Prog) (callOf : Cls → CExpr) (env : Nat → Vec K → Vec K)
    (junk : Vec K) : Impl K → Vec K → Vec K → Vec K
  | .leaf i => fun x _ => env i.id x
  | .sum fn l r => fun x o =>
    match inpl (if fn then .FunctionalSum else .OperatorSum) with
    | some p => p.exec (runInBy inpl callOf env junk l) (runInBy inpl callOf env junk r)
        (runBy callOf env l) (runBy callOf env r) (r.ran == .fld) zeroV zeroV junk x o
    | none => runBy callOf env (.sum fn l r) x
  | .scalSum f c => fun x _ => runBy callOf env (.scalSum f c) x
  | .vecSum a v => fun x o =>
    match inpl .OperatorVectorSum with
    | some p => p.exec (runInBy inpl callOf env junk a) noIn (runBy callOf env a) idV
        false zeroV v junk x o
    | none => runBy callOf env (.vecSum a v) x
  | .comp fn l r => fun x o =>
    match inpl (if fn then .FunctionalComp else .OperatorComp) with
    | some p => p.exec (runInBy inpl callOf env junk l) (runInBy inpl callOf env junk r)
        (runBy callOf env l) (runBy callOf env r) (r.ran == .fld) zeroV zeroV junk x o
    | none => runBy callOf env (.comp fn l r) x
  | .pprod fn l r => fun x o =>
    match inpl (if fn then .FunctionalProduct else .OperatorPointwiseProduct) with
    | some p => p.exec (runInBy inpl callOf env junk l) (runInBy inpl callOf env junk r)
        (runBy callOf env l) (runBy callOf env r) (r.ran == .fld) zeroV zeroV junk x o
    | none => runBy callOf env (.pprod fn l r) x
  | .quot l r => fun x _ => runBy callOf env (.quot l r) x
  | .lscal fn a s => fun x o =>
    match inpl (if fn then .FunctionalLeftScalarMult else .OperatorLeftScalarMult) with
    | some p => p.exec (runInBy inpl callOf env junk a) noIn (runBy callOf env a) idV
        false (fun _ => s) zeroV junk x o
    | none => runBy callOf env (.lscal fn a s) x
  | .rscal fn a s => fun x o =>
    match inpl (if fn then .FunctionalRightScalarMult else .OperatorRightScalarMult) with
    | some p => p.exec (runInBy inpl callOf env junk a) noIn (runBy callOf env a) idV
        false (fun _ => s) zeroV junk x o
    | none => runBy callOf env (.rscal fn a s) x
  | .lvec a v => fun x o =>
    match inpl .OperatorLeftVectorMult with
    | some p => p.exec (runInBy inpl callOf env junk a) noIn (runBy callOf env a) idV
        false zeroV v junk x o
    | none => runBy callOf env (.lvec a v) x
  | .rvec fn a v => fun x o =>
    match inpl (if fn then .FunctionalRightVectorMult else .OperatorRightVectorMult) with
    | some p => p.exec (runInBy inpl callOf env junk a) noIn (runBy callOf env a) idV
        false zeroV v junk x o
    | none => runBy callOf env (.rvec fn a v) x
  | .flvec a v => fun x o =>
    match inpl .FunctionalLeftVectorMult with
    | some p => p.exec (runInBy inpl callOf env junk a) noIn (runBy callOf env a) idV
        false zeroV v.val junk x o
    | none => runBy callOf env (.flvec a v) x
  | .const d c => fun x _ => runBy callOf env (.const d c) x
  | .zero d => fun x _ => runBy callOf env (.zero d) x

end

end OdlModel.OpAlgebra
