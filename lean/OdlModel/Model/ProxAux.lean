/-
Buffer-language models (same language as `Model/ProxProg.lean`) of further `_call` bodies that
are applied with `out` identical to their input (C10, round 4):

* `PointwiseNorm._abs_pow_ufunc(fi, out, p)` (odl/operator/tensor_ops.py) — the only callee
  outside odl/solvers that the library itself invokes as `f(a, out=a)` on space elements
  (`_call_vecfield_p`: `self._abs_pow_ufunc(out, out=out, p=1 / self.exponent)`), three branches;
* the gradient operators of the functionals in `odl/solvers/functional/default_functionals.py`
  (`L1Gradient`, `L2Gradient`, `KLGradient`, `KLCCGradient`, `KLCrossEntropyGradient`,
  `KLCrossEntCCGradient`, `HuberGradient`: out-of-place `_call(x)` reached with `out=` through
  the default bridge `out.assign(op.range.element(op._call(x)))` of odl/operator/operator.py;
  `GroupL1Gradient._call(x, out)`: in place, exponent 2, unweighted).

Arithmetic of elements is written as the code performs it: `x / s` with a Python scalar `s` is
`lincomb(1.0 / s, x)`, `s / x` is `divide(s * one, x)`, `s - x` is `lincomb(1, s * one, -1, x)`,
`x + s` is `lincomb(1, x, s, one)`.
-/
import OdlModel.Model.ProxProg

set_option linter.constructorNameAsVariable false
namespace OdlModel.Prox

/-- Further external functions (parameters, like `Fns`). -/
structure AuxFns (K : Type) where
  log : K → K
  /-- `norm_of_x == 0` -/
  isZero : K → Bool
  /-- `a != 0` on array entries (`nz = vf_pwnorm_fac.asarray() != 0`) -/
  nonzero : K → Bool
  /-- `np.all(np.isfinite(tmp))` -/
  allFinite : Vec K → Bool
  /-- `|a| ** (exponent - 2)` for exponent 2 -/
  absPow0 : K → K
  /-- `a >= gamma` for the closed-over `gamma` is `ge a gamma` -/
  ge : K → K → Bool
  /-- what `out.assign(res)` = `_lincomb_impl(1, res, 0, res, out)` stores for an entry `v` of
  `res`: `1 * v + 0 * v` below `THRESHOLD_SMALL = 100` entries (±inf arrives as NaN, finding
  C01-F3 / C10-F3), the entry itself (BLAS / fallback `copy`) from 100 entries on -/
  asg : K → K

/-- The additional modelled bodies. `g` = prior given, `ps` = product (power) space. -/
inductive AuxId
  | absPowSqrt | absPowSq | absPowGen
  | gradL1 | gradL2
  | gradKL (g : Bool) | gradKLCC (g : Bool) | gradKLCE (g : Bool) | gradKLCECC (g : Bool)
  | gradHuber (ps : Bool)
  | gradGroupL1
  deriving DecidableEq, Repr

/-- Bodies with a `raise` path (on which `out` is not written at all). -/
def AuxId.mayRaise : AuxId → Bool
  | .gradKLCE _ => true
  | _ => false

section
variable {K : Type} [Add K] [Sub K] [Mul K] [Div K] [Neg K] [OfNat K 0] [OfNat K 1]

open Stmt Var

/-- The default in-place bridge `out.assign(op.range.element(res))` (`res` already lies in the
range: `element` returns the same object). `assign` is `space.lincomb(1, res, out=out)`; what it
stores per entry depends on the size of the element (`AuxFns.asg`: `1 * v + 0 * v` for fewer
than 100 entries, a copy otherwise) — both paths are executed by the driver. -/
def bridge (A : AuxFns K) (res : Var) : Stmt K := .set out [res] (fun a i => A.asg (a 0 i))

def auxProg (F : Fns K) (A : AuxFns K) (P : Par K) : AuxId → Stmt K
  -- PointwiseNorm._abs_pow_ufunc, p == 0.5
  | .absPowSqrt =>
      .set out [x] (fun a i => F.abs (a 0 i)) ;;        -- fi.ufuncs.absolute(out=out)
      .set out [out] (fun a i => F.sqrt (a 0 i))        -- out.ufuncs.sqrt(out=out)
  -- p == 2.0 on a real space
  | .absPowSq => .set out [x, x] (fun a i => a 0 i * a 1 i)   -- fi.multiply(fi, out=out)
  -- general p
  | .absPowGen =>
      .set out [x] (fun a i => F.abs (a 0 i)) ;;        -- fi.ufuncs.absolute(out=out)
      .set out [out] (fun a i => F.pow (a 0 i))         -- out.ufuncs.power(p, out=out)
  -- L1Gradient._call : return x.ufuncs.sign()
  | .gradL1 => .new t1 [x] (fun a i => F.sign (a 0 i)) ;; bridge A t1
  -- L2Gradient._call
  | .gradL2 =>
      .new xnorm [x] (fun a => cst (F.norm (a 0))) ;;   -- norm_of_x = x.norm()
      .ifC xnorm (fun s => A.isZero (s 0))
        (.new t1 [] (fun _ => cst 0))                   -- return self.domain.zero()
        (.new t1 [x, xnorm] (fun a i => (1 / a 1 0) * a 0 i)) ;;   -- return x / norm_of_x
      bridge A t1
  -- KLGradient._call
  | .gradKL false =>
      .new t1 [x] (fun a i => (-1) * 1 / a 0 i) ;;      -- (-1.0) / x : tmp = one; tmp *= -1; tmp / x
      .new t2 [t1] (fun a i => 1 * a 0 i + 1 * 1) ;;    -- … + 1
      bridge A t2
  | .gradKL true =>
      .new t1 [g] (fun a i => (-1) * a 0 i) ;;          -- -functional.prior
      .new t2 [t1, x] (fun a i => a 0 i / a 1 i) ;;     -- … / x
      .new tmp [t2] (fun a i => 1 * a 0 i + 1 * 1) ;;   -- … + 1
      bridge A tmp
  -- KLCCGradient._call
  | .gradKLCC hasG =>
      .new t1 [x] (fun a i => 1 * (1 * 1) + (-1) * a 0 i) ;;   -- 1 - x
      (if hasG then .new t2 [g, t1] (fun a i => a 0 i / a 1 i)     -- prior / (1 - x)
       else .new t2 [t1] (fun a i => 1 * 1 / a 0 i)) ;;            -- 1.0 / (1 - x)
      bridge A t2
  -- KLCrossEntropyGradient._call (the `raise` leaves `out` untouched)
  | .gradKLCE hasG =>
      (if hasG then
        .new t1 [x, g] (fun a i => a 0 i / a 1 i) ;;    -- x / functional.prior
        .new tmp [t1] (fun a i => A.log (a 0 i))
       else .new tmp [x] (fun a i => A.log (a 0 i))) ;;
      .ifC tmp A.allFinite (bridge A tmp) .skip
  -- KLCrossEntCCGradient._call
  | .gradKLCECC hasG =>
      .new t1 [x] (fun a i => F.exp (a 0 i)) ;;         -- np.exp(x)
      (if hasG then .new t2 [g, t1] (fun a i => a 0 i * a 1 i) ;; bridge A t2
       else bridge A t1)
  -- HuberGradient._call
  | .gradHuber ps =>
      (if ps then .new nrm [x] (fun a => F.pwnorm (a 0))
       else .new nrm [x] (fun a i => F.abs (a 0 i))) ;;
      .new tmp [x] (fun a i => (1 / P.gamma) * a 0 i) ;;           -- grad = x / gamma
      .new mask [nrm] (fun a i => F.ofBool (A.ge (a 0 i) P.gamma)) ;;   -- index
      -- (per component, merged) gi[index] = xi.asarray()[index] / norm_arr[index]
      .set tmp [tmp, x, mask, nrm]
        (fun a i => if F.truthy (a 2 (F.bidx i)) then a 1 i / a 3 (F.bidx i) else a 0 i) ;;
      bridge A tmp
  -- GroupL1Gradient._call(x, out), exponent 2, unweighted
  | .gradGroupL1 =>
      .new nrm [x] (fun a => F.pwnorm (a 0)) ;;         -- pwnorm_x = functional.pointwise_norm(x)
      .set nrm [nrm] (fun a i => F.sign (a 0 i)) ;;     -- pwnorm_x.ufuncs.sign(out=pwnorm_x)
      -- pointwise_norm.derivative(x):
      .new t1 [x] (fun a => F.pwnorm (a 0)) ;;          --   vf_pwnorm_fac = self(vf)
      .new tmp [x] (fun a => a 0) ;;                    --   inner_vf = vf.copy()
      .new t2 [tmp] (fun a i => A.absPow0 (a 0 i)) ;;   --   gi.ufuncs.absolute().ufuncs.power(0)
      .set tmp [tmp, t2] (fun a i => a 0 i * a 1 i) ;;  --   gi *= …
      .set tmp [tmp, t1]                                --   gi[nz] /= vf_pwnorm_fac[nz]
        (fun a i => if A.nonzero (a 1 (F.bidx i)) then a 0 i / a 1 (F.bidx i) else a 0 i) ;;
      -- .adjoint(pwnorm_x, out=out): for vfi, oi: vfi.multiply(f, out=oi)
      .set out [tmp, nrm] (fun a i => a 0 i * a 1 (F.bidx i))

/-- `2*c*(x[i] - x[i-1]**2) - 4*c*(x[i+1] - x[i]**2)*x[i] - 2*(1 - x[i])` -/
def rosenInnerVal (c : K) (v : Vec K) (i : Nat) : K :=
  (1 + 1) * c * (v i - v (i - 1) * v (i - 1))
    - (1 + 1 + 1 + 1) * c * (v (i + 1) - v i * v i) * v i - (1 + 1) * (1 - v i)

/-- `-4*c*(x[1] - x[0]**2)*x[0] + 2*(x[0] - 1)` -/
def rosenFirstVal (c : K) (v : Vec K) : K :=
  (-(1 + 1 + 1 + 1)) * c * (v 1 - v 0 * v 0) * v 0 + (1 + 1) * (v 0 - 1)

/-- `2*c*(x[-1] - x[-2]**2)` -/
def rosenLastVal (c : K) (n : Nat) (v : Vec K) : K :=
  (1 + 1) * c * (v (n - 1) - v (n - 2) * v (n - 2))

/-- One scalar assignment `out[i] = …` of the interior loop of `RosenbrockGradient._call`. -/
def rosenInner (c : K) (i : Nat) : Stmt K :=
  .set out [out, x] (fun a k => if k = i then rosenInnerVal c (a 1) i else a 0 k)

def rosenLoop (c : K) : List Nat → Stmt K
  | [] => .skip
  | i :: is => rosenInner c i ;; rosenLoop c is

/-- The assignments of `RosenbrockGradient._call(x, out)` AFTER its copy guard, for a domain of
size `n ≥ 2` and scale `c`: one statement per scalar assignment `out[i] = …`, in the order of the
code (interior indices ascending, then `out[0]`, then `out[-1]`). On its own this is the whole
body as it was BEFORE /repo c0dbe5c (see `C10.rosenOld`). -/
def rosenProg (c : K) (n : Nat) : Stmt K :=
  rosenLoop c ((List.range (n - 2)).map (· + 1)) ;;
  .set out [out, x] (fun a k => if k = 0 then rosenFirstVal c (a 1) else a 0 k) ;;
  .set out [out, x] (fun a k => if k = n - 1 then rosenLastVal c n (a 1) else a 0 k)

/-- `RosenbrockFunctional.gradient` : `RosenbrockGradient._call(x, out)` (example_funcs.py) as it
is since /repo c0dbe5c: `if out is x: x = x.copy()` followed by the assignments. THIS is the
model of the code; the driver executes it (`aux id=rosen`). -/
def rosenFixed (c : K) (n : Nat) : Stmt K :=
  .ifIs x out (.new x [x] (fun a => a 0)) .skip ;; rosenProg c n

end

end OdlModel.Prox
