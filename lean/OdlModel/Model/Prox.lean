/-
Model of `odl/solvers/nonsmooth/proximal_operators.py` and of the `.proximal` bindings in
`odl/solvers/functional/{default_functionals,functional}.py` (C07).

Three layers, all executable and import-free:

* scalar closed forms, polymorphic in the scalar type `K` through core notation classes
  (evaluated at `Rat` by the driver; reasoned about over an ordered field in Props/C07);
* the calculus rules (`proximal_translation`, `proximal_arg_scaling`,
  `FunctionalLeftScalarMult.proximal`, `proximal_quadratic_perturbation`,
  `proximal_convex_conj`) and the L2-norm proximal as combinators polymorphic in the *vector*
  type `V` — the driver instantiates `V := Vec Rat`, the theorems instantiate `V := E`, a
  real inner product space, so theorem and execution talk about the same definition;
* a functional expression tree `Fn` with its derived proximal `Fn.prox`, the thing compared
  with `f.proximal(sigma)(x)` of the real code.

The model follows the code as written: `x - (x-g)/max(|x-g|/(sigma*lam), 1)` rather than the
textbook soft threshold, ODL's `eps` fudge factors as parameters, `sqrt` as a parameter
(`np.sqrt`; the driver supplies an exact rational root when there is one and a 2^-64
accurate one otherwise).  Lambert-W (KL cross entropy) and the SVD (nuclear norm) are not
modelled.
-/
import OdlModel.Common
namespace OdlModel.Prox

/-! ## scalar closed forms -/
section Scalar
variable {K : Type} [Add K] [Sub K] [Mul K] [Div K] [Neg K] [OfNat K 0] [OfNat K 1]
  [LT K] [DecidableLT K] [LE K] [DecidableLE K]

/-- `np.absolute` -/
def absK (a : K) : K := if a < 0 then -a else a
/-- `np.maximum` -/
def maxK (a b : K) : K := if a ≤ b then b else a
/-- `np.minimum` -/
def minK (a b : K) : K := if a ≤ b then a else b
/-- `np.sign` -/
def signK (a : K) : K := if 0 < a then 1 else if a < 0 then -1 else 0

/-- `ProximalL1._call` at one point, `s = sigma * lam` (or `sigma_i * lam`):
`x - (x - g) / max(|x - g| / s, 1)`. -/
def softCode (s x g : K) : K :=
  let d := x - g
  x - d / maxK (absK d / s) 1

/-- `ProximalConvexConjL1._call` at one point: `diff / (max(|diff|, lam) / lam)` with
`diff = x - sigma * g`. -/
def ccL1Code (lam sg x : K) : K :=
  let d := x - sg
  d / (maxK (absK d) lam / lam)

/-- `ProximalL2Squared._call`, scalar sigma:
`1/(1+2 sigma lam) * x + 2 sigma lam/(1+2 sigma lam) * g`. -/
def l2sqCode (lam sig x g : K) : K :=
  let t := (1 + 1) * sig * lam
  1 / (1 + t) * x + t / (1 + t) * g

/-- `ProximalL2Squared._call`, per-point sigma: `(x + sig*(2 lam g)) / (1 + 2 sig lam)`. -/
def l2sqCodeV (lam sig x g : K) : K :=
  (x + sig * ((1 + 1) * lam * g)) / (1 + (1 + 1) * sig * lam)

/-- `ProximalConvexConjL2Squared._call`, scalar sigma:
`1/(1+sig/(2 lam)) * x - sig/(1+sig/(2 lam)) * g`  (the code writes `0.5 * sig / lam`). -/
def ccL2sqCode (lam sig x g : K) : K :=
  let h := 1 / (1 + 1) * sig / lam
  1 / (1 + h) * x + (-sig / (1 + h)) * g

/-- `ProximalConvexConjL2Squared._call`, per-point sigma:
`(x - sig*g) / (1 + 0.5/lam*sig)`. -/
def ccL2sqCodeV (lam sig x g : K) : K :=
  (x - sig * g) / (1 + 1 / (1 + 1) / lam * sig)

/-- `ProxOpBoxConstraint._call` at one point. -/
def boxCode (lo hi : Option K) (x : K) : K :=
  match lo, hi with
  | some l, none => maxK x l
  | none, some u => minK x u
  | some l, some u => minK (maxK x l) u
  | none, none => x

/-- `ProximalHuber._call` at one point of a (non-product) tensor space:
`gamma/(gamma+sigma) * x` where `|x| <= gamma+sigma`, else `x - sigma * (x / |x|)`. -/
def huberCode (gam sig x : K) : K :=
  if absK x ≤ gam + sig then gam / (gam + sig) * x else x - sig * (x / absK x)

/-- `ProximalConvexConjKL._call` at one point:
`(x + lam - sqrt((x - lam)^2 + 4 lam sigma g)) / 2`. -/
def klccCode (sqrt : K → K) (lam sig x g : K) : K :=
  let two : K := 1 + 1
  let r := (x - lam) * (x - lam) + two * two * lam * sig * g
  (x - sqrt r + lam) / two

end Scalar

/-! ## calculus rules and the L2 proximal, polymorphic in the vector type -/
section Calculus
variable {K V : Type} [Add V] [Sub V] [SMul K V]
  [Add K] [Sub K] [Mul K] [Div K] [OfNat K 0] [OfNat K 1] [LT K] [DecidableLT K]

/-- `proximal_translation`: `ConstantOperator(y) + prox(sigma) * (Id - ConstantOperator(y))`. -/
def proxTranslation (P : K → V → V) (y : V) (sig : K) (x : V) : V :=
  y + P sig (x - y)

/-- `proximal_arg_scaling` (non-zero scalar `s`):
`MultiplyOperator(1/s) * prox_factory(sigma * s*s) * MultiplyOperator(s)`. -/
def proxArgScaling (P : K → V → V) (s : K) (sig : K) (x : V) : V :=
  (1 / s) • P (sig * (s * s)) (s • x)

/-- `proximal_arg_scaling` including its guard: `scaling == 0` returns
`proximal_const_func` (the identity). -/
def proxArgScaling0 (P : K → V → V) (s : K) (sig : K) (x : V) : V :=
  if s < 0 then proxArgScaling P s sig x
  else if 0 < s then proxArgScaling P s sig x
  else x

/-- `FunctionalLeftScalarMult.proximal`: `self.functional.proximal(sigma * self.scalar)`. -/
def proxLeftScale (P : K → V → V) (s : K) (sig : K) (x : V) : V :=
  P (sig * s) x

/-- `proximal_convex_conj` (Moreau): `Id - sigma * prox_factory(1/sigma) * (1/sigma)`. -/
def proxConvexConj (P : K → V → V) (sig : K) (x : V) : V :=
  x - sig • P (1 / sig) ((1 / sig) • x)

/-- `proximal_quadratic_perturbation`: `const = 1/np.sqrt(sigma*2.0*a + 1)` is supplied by
`rsqrt`; `c * arg_scaling(prox, c)(sigma)(c*x - sigma*c*u)`. -/
def proxQuadPerturb (rsqrt : K → K) (P : K → V → V) (a : K) (u : Option V)
    (sig : K) (x : V) : V :=
  let c := rsqrt (sig * (1 + 1) * a + 1)
  match u with
  | some u => c • proxArgScaling P c sig (c • x - (sig * c) • u)
  | none => c • proxArgScaling P c sig (c • x)

/-- `proximal_composition(proximal, operator, mu)`:
`Id + (1/mu) * operator.adjoint * ((proximal(mu*sigma) - Ir) * operator)`; `L`/`Lt` are the
operator and its adjoint. -/
def proxComposition {W : Type} [Sub W] (P : K → W → W) (L : V → W) (Lt : W → V)
    (mu sig : K) (x : V) : V :=
  x + (1 / mu) • Lt (P (mu * sig) (L x) - L x)

/-- `ProximalL2._call`; `nrm` is the norm of the functional's own space, `eps` the
`np.finfo(dtype).resolution * 10` fudge, `set_zero` is written `0 • x`. -/
def proxL2 (nrm : V → K) (eps lam : K) (g : Option V) (sig : K) (x : V) : V :=
  match g with
  | none =>
    let xn := nrm x * (1 + eps)
    if 0 < xn then
      let step := sig * lam / xn
      if step < 1 then (1 - step) • x else (0 : K) • x
    else (0 : K) • x
  | some g =>
    let xn := nrm (x - g) * (1 + eps)
    if 0 < xn then
      let step := sig * lam / xn
      if step < 1 then (1 - step) • x + step • g else g
    else g

end Calculus

/-! ## vectors as lists -/

/-- Flat vector of a tensor / discretised / product space (components concatenated). -/
structure Vec (K : Type) where
  data : List K
  deriving Repr

namespace Vec
variable {K : Type}
instance [Add K] : Add (Vec K) := ⟨fun a b => ⟨List.zipWith (· + ·) a.data b.data⟩⟩
instance [Sub K] : Sub (Vec K) := ⟨fun a b => ⟨List.zipWith (· - ·) a.data b.data⟩⟩
instance [Mul K] : SMul K (Vec K) := ⟨fun c a => ⟨a.data.map (c * ·)⟩⟩
end Vec

section Lists
variable {K : Type} [Add K] [Sub K] [Mul K] [Div K] [Neg K] [OfNat K 0] [OfNat K 1]
  [LT K] [DecidableLT K] [LE K] [DecidableLE K]

def sumK (l : List K) : K := l.foldl (· + ·) 0

/-- Weighted 2-norm of the space: `sqrt(sum_i w_i x_i^2)`. -/
def wnorm (sqrt : K → K) (w : List K) (x : Vec K) : K :=
  sqrt (sumK (List.zipWith (fun wi xi => wi * (xi * xi)) w x.data))

/-- Step size: a float or a point-wise positive element (`sigma in space`). -/
inductive Sig (K : Type) where
  | sc (s : K)
  | vec (v : List K)
  deriving Repr

/-- Per-point value of the step. -/
def Sig.at (s : Sig K) (i : Nat) : K :=
  match s with
  | .sc c => c
  | .vec v => v.getD i 0

def idxMap (x : List K) (f : Nat → K → K) : List K :=
  (List.range x.length).zipWith (fun i xi => f i xi) x

def gAt (g : Option (List K)) (i : Nat) : K :=
  match g with
  | some g => g.getD i 0
  | none => 0

/-- `proj_simplex`: sort descending, `x_avrg = (1/j) * (cumsum - diameter)`,
`i = max { j | x_sor[j] - x_avrg[j] >= 0 }`, `out = max(x - x_avrg[i], 0)`.
Returns the threshold and the result; `none` when no index qualifies (`.max()` of an empty
array raises). -/
def simplexTau (r : K) (x : List K) : Option K :=
  let xs := x.mergeSort (fun a b => decide (b ≤ a))
  let rec go (rest : List K) (j : K) (cum : K) (best : Option K) : Option K :=
    match rest with
    | [] => best
    | u :: tl =>
      let cum' := cum + u
      let avg := (1 / j) * (cum' - r)
      let best' := if 0 ≤ u - avg then some avg else best
      go tl (j + 1) cum' best'
  go xs 1 0 none

def projSimplex (r : K) (x : List K) : Option (List K) :=
  (simplexTau r x).map fun tau => x.map fun xi => maxK (xi - tau) 0

/-- `ProximalSimplex._call` on a space with array weights `w`: sort `w*x` descending,
`tau_j = (cumsum(x) - diameter) / cumsum(1/w)`, last `j` with `(w*x)_j - tau_j >= 0`,
`out = max(x - tau/w, 0)`. -/
def simplexTauW (r : K) (w x : List K) : Option K :=
  let ps := (List.zip w x).mergeSort (fun a b => decide (b.1 * b.2 ≤ a.1 * a.2))
  let rec go (rest : List (K × K)) (cx : K) (cw : K) (best : Option K) : Option K :=
    match rest with
    | [] => best
    | (wi, xi) :: tl =>
      let cx' := cx + xi
      let cw' := cw + 1 / wi
      let tau := (cx' - r) / cw'
      let best' := if 0 ≤ wi * xi - tau then some tau else best
      go tl cx' cw' best'
  go ps 0 0 none

def projSimplexW (r : K) (w x : List K) : Option (List K) :=
  (simplexTauW r w x).map fun tau =>
    List.zipWith (fun wi xi => maxK (xi - tau / wi) 0) w x

/-- `proj_l1`. -/
def projL1 (r : K) (x : List K) : Option (List K) :=
  let u := x.map absK
  if sumK u ≤ r then some x
  else (projSimplex r u).map fun p => List.zipWith (fun pi xi => pi * signK xi) p x

/-- Point-wise 2-norm of a power-space element with `d` components of length `m`, laid out
component after component: `PointwiseNorm(space, 2)`, which takes its weights `pw` (one per
component) from the product space: `sqrt(sum_k pw_k * x_k(i)^2)`. -/
def pwNorm (sqrt : K → K) (pw : List K) (d m : Nat) (x : List K) : List K :=
  (List.range m).map fun i =>
    sqrt (sumK ((List.range d).map fun k =>
      let v := x.getD (k * m + i) 0; pw.getD k 1 * (v * v)))

/-- One point of `Huber._call` given the (point-wise) norm `t ≥ 0` there: `t²·(1/(2γ))`,
overwritten by `t − γ/2` where `t ≥ γ`; `t` itself for `γ = 0` (`tmp = norm`). -/
def huberValK (gam t : K) : K :=
  if 0 < gam then (if gam ≤ t then t - gam / (1 + 1) else t * t * (1 / ((1 + 1) * gam))) else t

/-- Objective of the proximal problem of a group functional on a power space `X^d` (components
laid out one after the other, `m` points each; `pw` the product-space weights, `b` the weights of
the base space `X`), as the real code evaluates it: `f(z) + ‖z − x‖²/(2σ)` with
`f(z) = PointwiseNorm-based value .inner(one)` `= Σ_i b_i φ(|z(i) − g(i)|_pw)` and the
product-space norm `‖v‖² = Σ_k pw_k Σ_i b_i v_k(i)²`:
`Σ_i b_i (φ(|z(i) − g(i)|_pw) + Σ_k pw_k (z_k(i) − x_k(i))²/(2σ))`.
`φ = (lam · )` for `lam * GroupL1Norm(·, 2)`, `φ = huberValK γ` for `Huber`, `φ = 0` for the bare
quadratic. -/
def groupObj (sqrt : K → K) (phi : K → K) (pw : List K) (d m : Nat) (b : List K)
    (g : Option (List K)) (s : K) (x z : List K) : K :=
  let nrm := pwNorm sqrt pw d m (idxMap z fun i zi => zi - gAt g i)
  sumK ((List.range m).map fun i =>
    b.getD i 0 * (phi (nrm.getD i 0) + sumK ((List.range d).map fun k =>
      let e := z.getD (k * m + i) 0 - x.getD (k * m + i) 0
      pw.getD k 1 * (e * e)) / ((1 + 1) * s)))

/-- Matrix-vector products for `proximal_composition` with a `MatrixOperator` on unweighted
`rn`: `L x` and `L^T y` (the adjoint). -/
def matVec (L : List (List K)) (x : List K) : List K :=
  L.map fun row => sumK (List.zipWith (· * ·) row x)

def matTVec (L : List (List K)) (n : Nat) (y : List K) : List K :=
  (List.range n).map fun j => sumK (List.zipWith (fun row yi => row.getD j 0 * yi) L y)

/-- Functional expression trees: the leaves are the proximal factories with their
parameters, the nodes the calculus rules of `functional.py`. -/
inductive Fn (K : Type) where
  | l1 (lam : K) (g : Option (List K))            -- proximal_l1
  | l1l2 (pw : List K) (d : Nat) (lam : K) (g : Option (List K)) -- proximal_l1_l2 on X^d
  | l2 (lam : K) (g : Option (List K))            -- proximal_l2
  | l2sq (lam : K) (g : Option (List K))          -- proximal_l2_squared
  | ccl1 (lam : K) (g : Option (List K))          -- proximal_convex_conj_l1 (lam already fudged)
  | ccl1l2 (pw : List K) (d : Nat) (lam : K) (g : Option (List K)) -- proximal_convex_conj_l1_l2
  | ccl2sq (lam : K) (g : Option (List K))        -- proximal_convex_conj_l2_squared
  | box (lo hi : Option (List K))                 -- proximal_box_constraint (bounds broadcast)
  | const                                         -- proximal_const_func
  | izero                                         -- IndicatorZero.proximal
  | linf (cw : K)              -- proximal_linfty; cw = _const_weight(space)
  | cclinf (cw : K)            -- proximal_convex_conj_linfty
  | simplex (arr : Bool) (r : K)  -- IndicatorSimplex.proximal; arr: space has array weights
  | sumc (arr : Bool) (s : K)     -- IndicatorSumConstraint.proximal
  | huber (gam : K)                               -- proximal_huber (tensor space)
  | huberG (pw : List K) (d : Nat) (gam : K)      -- proximal_huber on a power space X^d
  | comp (f : Fn K) (L : List (List K)) (mu : K)  -- proximal_composition with a matrix
  | klcc (lam : K) (g : Option (List K))          -- proximal_convex_conj_kl
  | trans (f : Fn K) (y : List K)                 -- FunctionalTranslation
  | argScale (f : Fn K) (s : K)                   -- FunctionalRightScalarMult
  | leftScale (f : Fn K) (s : K)                  -- FunctionalLeftScalarMult
  | quad (f : Fn K) (a : K) (u : Option (List K)) -- FunctionalQuadraticPerturb
  | conj (f : Fn K)                               -- proximal_convex_conj(f.proximal)
  | sep (n : Nat) (f rest : Fn K)                 -- SeparableSum: first n entries to f
  | nil                                           -- empty separable sum
  deriving Repr

/-- External functions and fudge factors. -/
structure Env (K : Type) where
  sqrt : K → K
  eps : K

/-- Scalar value of a step (the head for a list of floats). -/
def Sig.scalar (s : Sig K) : K :=
  match s with
  | .sc c => c
  | .vec v => v.headD 0

def Sig.isScalar (s : Sig K) : Bool :=
  match s with
  | .sc _ => true
  | .vec _ => false

def Sig.scale (s : Sig K) (c : K) : Sig K :=
  match s with
  | .sc a => .sc (a * c)
  | .vec v => .vec (v.map (· * c))

/-- The proximal `f.proximal(sigma)(x)` on a space with flat weights `w`.  Total; the
combinations for which it is meaningful are those accepted by `Fn.ok` (the driver answers
`unsupported` for the others, never a default). -/
def Fn.prox (E : Env K) : Fn K → List K → Sig K → List K → List K
  | .l1 lam g, _, sig, x => idxMap x fun i xi => softCode (sig.at i * lam) xi (gAt g i)
  | .l2sq lam g, _, sig, x =>
      (match sig with
       | .sc s => idxMap x fun i xi => l2sqCode lam s xi (gAt g i)
       | .vec _ => idxMap x fun i xi => l2sqCodeV lam (sig.at i) xi (gAt g i))
  | .ccl1 lam g, _, sig, x => idxMap x fun i xi => ccL1Code lam (sig.at i * gAt g i) xi
  | .ccl2sq lam g, _, sig, x =>
      (match sig with
       | .sc s => idxMap x fun i xi => ccL2sqCode lam s xi (gAt g i)
       | .vec _ => idxMap x fun i xi => ccL2sqCodeV lam (sig.at i) xi (gAt g i))
  | .box lo hi, _, _, x =>
      idxMap x fun i xi => boxCode (lo.map (·.getD i 0)) (hi.map (·.getD i 0)) xi
  | .const, _, _, x => x
  | .izero, _, _, x => x.map fun _ => 0
  | .huber gam, _, sig, x => x.map (huberCode gam sig.scalar)
  | .klcc lam g, _, sig, x =>
      idxMap x fun i xi => klccCode E.sqrt lam sig.scalar xi
        (match g with | some _ => gAt g i | none => 1)
  | .sumc false s, _, _, x =>
      -- offset = 1 / x.size * (sum_value - x.ufuncs.sum())
      let n : K := x.foldl (fun acc _ => acc + 1) 0
      let off := 1 / n * (s - sumK x)
      x.map (· + off)
  | .sumc true s, w, _, x =>
      -- tau = (sum_value - x.ufuncs.sum()) / np.sum(1 / weights); out = x + tau / weights
      let tau := (s - sumK x) / sumK (w.map (1 / ·))
      List.zipWith (fun wi xi => xi + tau / wi) w x
  | .simplex false r, _, _, x => (projSimplex r x).getD x
  | .simplex true r, w, _, x => (projSimplexW r w x).getD x
  | .cclinf cw, _, _, x => (projL1 (1 / cw) x).getD x
  | .linf cw, _, sig, x =>
      -- radius = sigma / w; proj_l1(x, radius, out); out.lincomb(-1, out, 1, x)
      List.zipWith (fun pi xi => -pi + xi) ((projL1 (sig.scalar / cw) x).getD x) x
  | .huberG pw d gam, _, sig, x =>
      let m := x.length / d
      let nrm := pwNorm E.sqrt pw d m x
      idxMap x fun i xi =>
        let t := nrm.getD (i % m) 0
        if t ≤ gam + sig.scalar then gam / (gam + sig.scalar) * xi
        else xi - sig.scalar * (xi / t)
  | .l2 lam g, w, sig, x =>
      (proxL2 (wnorm E.sqrt w) E.eps lam (g.map Vec.mk) sig.scalar (Vec.mk x)).data
  | .l1l2 pw d lam g, _, sig, x =>
      let m := x.length / d
      let diff := idxMap x fun i xi => xi - gAt g i
      let den := (pwNorm E.sqrt pw d m diff).map fun t => maxK (t / (sig.scalar * lam)) 1
      idxMap x fun i xi => xi - (xi - gAt g i) / den.getD (i % m) 1
  | .ccl1l2 pw d lam g, _, sig, x =>
      let m := x.length / d
      let diff := idxMap x fun i xi => xi - sig.scalar * gAt g i
      let den := (pwNorm E.sqrt pw d m diff).map fun t => maxK t lam / lam
      idxMap diff fun i di => di / den.getD (i % m) 1
  | .trans f y, w, .sc s, x =>
      (proxTranslation (fun sg v => Vec.mk (f.prox E w (.sc sg) v.data))
        (Vec.mk y) s (Vec.mk x)).data
  | .trans f y, w, .vec v, x =>
      -- the step (one float per summand / a point-wise element) is passed through unchanged
      List.zipWith (· + ·) y (f.prox E w (.vec v) (List.zipWith (· - ·) x y))
  | .argScale f c, w, .sc s, x =>
      (proxArgScaling0 (fun sg v => Vec.mk (f.prox E w (.sc sg) v.data))
        c s (Vec.mk x)).data
  | .argScale f c, w, .vec v, x =>
      -- `_scaled_stepsize(sigma, scaling**2)`: a sequence of steps is scaled entry-wise
      if c < 0 ∨ 0 < c then
        (f.prox E w ((Sig.vec v).scale (c * c)) (x.map (c * ·))).map ((1 / c) * ·)
      else x
  | .leftScale f c, w, sig, x => f.prox E w (sig.scale c) x
  | .quad f a u, w, sig, x =>
      (proxQuadPerturb (fun t => 1 / E.sqrt t)
        (fun sg v => Vec.mk (f.prox E w (.sc sg) v.data))
        a (u.map Vec.mk) sig.scalar (Vec.mk x)).data
  | .conj f, w, sig, x =>
      (proxConvexConj (fun sg v => Vec.mk (f.prox E w (.sc sg) v.data))
        sig.scalar (Vec.mk x)).data
  | .comp f L mu, w, sig, x =>
      (proxComposition (fun sg v => Vec.mk (f.prox E w (.sc sg) v.data))
        (fun v => Vec.mk (matVec L v.data)) (fun v => Vec.mk (matTVec L x.length v.data))
        mu sig.scalar (Vec.mk x)).data
  | .sep n f rest, w, sig, x =>
      let (s1, s2) : Sig K × Sig K := match sig with
        | .sc s => (.sc s, .sc s)
        | .vec v => (.sc (v.headD 0), .vec v.tail)   -- one float per summand
      f.prox E (w.take n) s1 (x.take n) ++ rest.prox E (w.drop n) s2 (x.drop n)
  | .nil, _, _, _ => []

/-- Which (tree, kind of step, length) combinations the model covers. `top` is true where a
list-valued step means "one float per summand" (only directly at a separable sum). -/
def Fn.ok : Fn K → Sig K → Nat → Bool
  | .l1 _ _, _, _ | .l2sq _ _, _, _ | .ccl2sq _ _, _, _ => true
  | .ccl1 _ g, sig, _ => sig.isScalar || g.isNone
  | .box _ _, _, _ | .const, _, _ | .izero, _, _ => true
  | .sumc _ _, _, n => 0 < n
  | .simplex _ r, _, n => 0 < n && decide (0 ≤ r)
  | .cclinf cw, _, n => 0 < n && decide (0 < cw)
  | .linf cw, sig, n => sig.isScalar && 0 < n && decide (0 ≤ sig.scalar) && decide (0 < cw)
  | .huberG pw d _, sig, n => sig.isScalar && 0 < d && n % d == 0 && pw.length == d
  | .comp f L _, sig, n => sig.isScalar && L.length == n && L.all (·.length == n) && f.ok sig n
  | .huber _, sig, _ | .klcc _ _, sig, _ | .l2 _ _, sig, _ => sig.isScalar
  | .l1l2 pw d _ _, sig, n | .ccl1l2 pw d _ _, sig, n =>
      sig.isScalar && 0 < d && n % d == 0 && pw.length == d
  | .trans f y, sig, n => y.length == n && f.ok sig n
  | .argScale f c, sig, n => f.ok (if sig.isScalar then sig else sig.scale (c * c)) n
  | .quad f _ _, sig, n | .conj f, sig, n =>
      sig.isScalar && f.ok sig n
  | .leftScale f _, sig, n => f.ok sig n
  | .sep k f rest, sig, n =>
      k ≤ n &&
      (match sig with
       | .sc s => f.ok (.sc s) k && rest.ok (.sc s) (n - k)
       | .vec v => !v.isEmpty && f.ok (.sc (v.headD 0)) k && rest.ok (.vec v.tail) (n - k))
  | .nil, sig, n => n == 0 && (match sig with | .sc _ => true | .vec v => v.isEmpty)

/-- Exceptions the code raises for inadmissible parameters (before any arithmetic):
`FunctionalLeftScalarMult.proximal` raises `ValueError` for a negative scalar,
`FunctionalQuadraticPerturb.proximal` raises `TypeError` for a negative quadratic coefficient.
First error in evaluation order (outermost node first), `none` = no exception. -/
def Fn.err : Fn K → Option String
  | .leftScale f c => if c < 0 then some "err:ValueError" else f.err
  | .quad f a _ => if a < 0 then some "err:TypeError" else f.err
  | .trans f _ | .argScale f _ | .conj f | .comp f _ _ => f.err
  | .sep _ f rest => match f.err with
      | some e => some e
      | none => rest.err
  | _ => none

end Lists

end OdlModel.Prox
