/-
Model of `Operator.derivative` for the expression classes of `odl/operator/operator.py`,
the block operators of `odl/operator/pspace_ops.py` and the polynomial leaves of
`odl/operator/default_ops.py` (C06).

World: spaces are `rn(n)` (a dimension `n : Nat`), product spaces are the flat
concatenation of their parts, vectors are functional arrays `Nat → K` (only the first
`dim` entries matter).  The scalar type `K` is arbitrary (core notation classes only): the
driver evaluates at `Rat`, the theorems are stated over an arbitrary commutative ring and
use the dual numbers `K[ε]/(ε²)` over it.

`deriv` follows the code as written: which classes short-circuit on `is_linear` and which do
not, at which inner point each inner derivative is taken, which scalar/vector multiplies
what and on which side, the scalar merging done by `OperatorLeftScalarMult.__init__`, and
the constructor checks of `OperatorSum` / `OperatorComp` on the optional temporaries (a
temporary is represented by the dimension of the space it lives in).
-/
namespace OdlModel.Deriv

abbrev Vec (K : Type) := Nat → K

/-- Operator expression trees.  Dimensions: `matrix m n` maps `rn(n) → rn(m)`;
`zero n m`, `const n m c` map `rn(n) → rn(m)`.  Block operators are encoded as cons-lists:
`BroadcastOperator(a, b, c) = bcons a (bcons b (bcons c (bnil dom)))` etc. -/
inductive Impl (K : Type) where
  | identity (n : Nat)                                  -- IdentityOperator(rn(n))
  | scaling (n : Nat) (s : K)                           -- ScalingOperator(rn(n), s)
  | multiply (n : Nat) (v : Vec K)                      -- MultiplyOperator(v)
  | matrix (m n : Nat) (a : Nat → Nat → K)              -- MatrixOperator(a)
  | zero (n m : Nat)                                    -- ZeroOperator(rn(n), rn(m))
  | const (n m : Nat) (c : Vec K)                       -- ConstantOperator(c, rn(n), rn(m))
  | power (n p : Nat)                                   -- PowerOperator(rn(n), p)
  | inner (n : Nat) (v : Vec K)                         -- InnerProductOperator(v): rn(n) → R
  | normsq (n : Nat)                                    -- L2NormSquared(rn(n)): rn(n) → R
  | sum (l r : Impl K) (tmpRan tmpDom : Option Nat)     -- OperatorSum(l, r, tmp_ran, tmp_dom)
  | vecsum (op : Impl K) (v : Vec K)                    -- OperatorVectorSum(op, v)
  | comp (l r : Impl K) (tmp : Option Nat)              -- OperatorComp(l, r, tmp)
  | lscal (op : Impl K) (s : K)                         -- OperatorLeftScalarMult(op, s)
  | rscal (op : Impl K) (s : K)                         -- OperatorRightScalarMult(op, s)
  | lvec (op : Impl K) (v : Vec K)                      -- OperatorLeftVectorMult(op, v)
  | rvec (op : Impl K) (v : Vec K)                      -- OperatorRightVectorMult(op, v)
  | pprod (l r : Impl K)                                -- OperatorPointwiseProduct(l, r)
  | flvec (f : Impl K) (m : Nat) (v : Vec K)            -- FunctionalLeftVectorMult(f, v), v ∈ rn(m)
  | bnil (n : Nat)
  | bcons (op rest : Impl K)                            -- BroadcastOperator(op, *rest)
  | rnil (m : Nat)
  | rcons (op rest : Impl K)                            -- ReductionOperator(op, *rest)
  | dnil
  | dcons (op rest : Impl K)                            -- DiagonalOperator(op, *rest)
  | psnil (n m : Nat)                                   -- ProductSpaceOperator without entries
  | pscons (ro co : Nat) (op rest : Impl K)             -- … plus the entry `op` at flat row offset `ro`, column offset `co`
  -- complex spaces: `cn(n)` is the flat real space `[re_0 … re_{n-1}, im_0 … im_{n-1}]` ("C = R²")
  | cmodsq (n : Nat)                                    -- ComplexModulusSquared(cn(n)) : cn(n) → rn(n)
  | cmodsqd (n : Nat) (p : Vec K)                       -- its derivative at `p` (ComplexModulusSquaredDerivative)
  | realpart (n : Nat)                                  -- RealPart(cn(n))
  | imagpart (n : Nat)                                  -- ImagPart(cn(n))
  | cembed (n : Nat) (a b : K)                          -- ComplexEmbedding(rn(n), scalar = a + b i)
  -- complex scalars `a + b i` as the real 2×2 block `[[a, nb], [b, a]]` on `[re, im]`, `nb = -b`
  | clscal (n : Nat) (op : Impl K) (a b nb : K)         -- OperatorLeftScalarMult(op, a + b i), op.range = cn(n)
  | crscal (n : Nat) (op : Impl K) (a b nb : K)         -- OperatorRightScalarMult(op, a + b i), op.domain = cn(n)

section
variable {K : Type} [Add K] [Mul K] [OfNat K 0] [OfNat K 1]

/-- `x ** p` for a natural exponent. -/
def pw (x : K) : Nat → K
  | 0 => 1
  | p + 1 => pw x p * x

/-- The natural number `p` as a scalar (`float(exponent)`). -/
def natK : Nat → K
  | 0 => 0
  | p + 1 => natK p + 1

/-- `(a + b i) · x` for `x ∈ cn(n)` in the flat layout `[re, im]` (`nb = -b`). -/
def cmulV (n : Nat) (a b nb : K) (x : Nat → K) : Nat → K :=
  fun k => if k < n then a * x k + nb * x (n + k) else b * x (k - n) + a * x k

/-- `Σ_{j<n} f j`. -/
def sumTo (n : Nat) (f : Nat → K) : K :=
  match n with
  | 0 => 0
  | n + 1 => sumTo n f + f n

namespace Impl

def dom : Impl K → Nat
  | identity n => n | scaling n _ => n | multiply n _ => n | matrix _ n _ => n
  | zero n _ => n | const n _ _ => n | power n _ => n | inner n _ => n | normsq n => n
  | sum l _ _ _ => l.dom | vecsum op _ => op.dom | comp _ r _ => r.dom
  | lscal op _ => op.dom | rscal op _ => op.dom | lvec op _ => op.dom | rvec op _ => op.dom
  | pprod l _ => l.dom | flvec f _ _ => f.dom
  | bnil n => n | bcons op _ => op.dom
  | rnil _ => 0 | rcons op rest => op.dom + rest.dom
  | dnil => 0 | dcons op rest => op.dom + rest.dom
  | psnil n _ => n | pscons _ _ _ rest => rest.dom
  | cmodsq n => n + n | cmodsqd n _ => n + n | realpart n => n + n | imagpart n => n + n
  | cembed n _ _ => n
  | clscal _ op _ _ _ => op.dom | crscal _ op _ _ _ => op.dom

/-- Dimension of the range; a field (`RealNumbers()`) counts as dimension 1. -/
def ran : Impl K → Nat
  | identity n => n | scaling n _ => n | multiply n _ => n | matrix m _ _ => m
  | zero _ m => m | const _ m _ => m | power n _ => n | inner _ _ => 1 | normsq _ => 1
  | sum l _ _ _ => l.ran | vecsum op _ => op.ran | comp l _ _ => l.ran
  | lscal op _ => op.ran | rscal op _ => op.ran | lvec op _ => op.ran | rvec op _ => op.ran
  | pprod l _ => l.ran | flvec _ m _ => m
  | bnil _ => 0 | bcons op rest => op.ran + rest.ran
  | rnil m => m | rcons op _ => op.ran
  | dnil => 0 | dcons op rest => op.ran + rest.ran
  | psnil _ m => m | pscons _ _ _ rest => rest.ran
  | cmodsq n => n | cmodsqd n _ => n | realpart n => n | imagpart n => n
  | cembed n _ _ => n + n
  | clscal _ op _ _ _ => op.ran | crscal _ op _ _ _ => op.ran

/-- `isinstance(op.range, Field)` — the operator is a functional. -/
def ranField : Impl K → Bool
  | inner _ _ => true | normsq _ => true
  | sum l _ _ _ => l.ranField | comp l _ _ => l.ranField
  | lscal op _ => op.ranField | rscal op _ => op.ranField | rvec op _ => op.ranField
  | pprod l _ => l.ranField
  | crscal _ op _ _ _ => op.ranField
  | _ => false

/-- `op(x)`. -/
def run : Impl K → Vec K → Vec K
  | identity _, x => x
  | scaling _ s, x => fun k => s * x k
  | multiply _ v, x => fun k => x k * v k
  | matrix _ n a, x => fun i => sumTo n (fun j => a i j * x j)
  | zero _ _, _ => fun _ => 0
  | const _ m c, _ => fun k => if k < m then c k else 0
  | power _ p, x => fun k => pw (x k) p
  | inner n v, x => fun _ => sumTo n (fun j => x j * v j)
  | normsq n, x => fun _ => sumTo n (fun j => x j * x j)
  | sum l r _ _, x => fun k => l.run x k + r.run x k
  | vecsum op v, x => fun k => op.run x k + v k
  | comp l r _, x => l.run (r.run x)
  | lscal op s, x => fun k => s * op.run x k
  | rscal op s, x => op.run (fun k => s * x k)
  | lvec op v, x => fun k => op.run x k * v k
  | rvec op v, x => op.run (fun k => x k * v k)
  | pprod l r, x => fun k => l.run x k * r.run x k
  | flvec f _ v, x => fun k => v k * f.run x 0
  | bnil _, _ => fun _ => 0
  | bcons op rest, x => fun k => if k < op.ran then op.run x k else rest.run x (k - op.ran)
  | rnil _, _ => fun _ => 0
  | rcons op rest, x => fun k => op.run x k + rest.run (fun j => x (op.dom + j)) k
  | dnil, _ => fun _ => 0
  | dcons op rest, x => fun k =>
      if k < op.ran then op.run x k else rest.run (fun j => x (op.dom + j)) (k - op.ran)
  | psnil _ _, _ => fun _ => 0
  | pscons ro co op rest, x => fun k =>
      rest.run x k + (if ro ≤ k ∧ k < ro + op.ran then op.run (fun j => x (co + j)) (k - ro) else 0)
  | cmodsq n, x => fun k => x k * x k + x (n + k) * x (n + k)
  | cmodsqd n p, y => fun k => (p k * y k + p (n + k) * y (n + k)) * natK 2
  | realpart _, x => x
  | imagpart n, x => fun k => x (n + k)
  | cembed n a b, x => fun k => if k < n then a * x k else b * x (k - n)
  | clscal n op a b nb, x => cmulV n a b nb (op.run x)
  | crscal n op a b nb, x => op.run (cmulV n a b nb x)

end Impl
end

section
variable {K : Type} [Add K] [Mul K] [OfNat K 0] [OfNat K 1] [DecidableEq K]
namespace Impl

/-- `constant.norm() == 0` on `rn(m)`. -/
def allZero (m : Nat) (c : Vec K) : Bool := (List.range m).all (fun k => c k = 0)

/-- The `is_linear` flag as set by the constructors. -/
def isLinear : Impl K → Bool
  | identity _ => true | scaling _ _ => true | multiply _ _ => true | matrix _ _ _ => true
  | zero _ _ => true
  | const _ m c => allZero m c
  | power _ p => p == 1
  | inner _ _ => true
  | normsq _ => false
  | sum l r _ _ => l.isLinear && r.isLinear
  | vecsum _ _ => false
  | comp l r _ => l.isLinear && r.isLinear
  | lscal op _ => op.isLinear | rscal op _ => op.isLinear
  | lvec op _ => op.isLinear | rvec op _ => op.isLinear
  | pprod _ _ => false
  | flvec f _ _ => f.isLinear
  | bnil _ => true | bcons op rest => op.isLinear && rest.isLinear
  | rnil _ => true | rcons op rest => op.isLinear && rest.isLinear
  | dnil => true | dcons op rest => op.isLinear && rest.isLinear
  | psnil _ _ => true | pscons _ _ op rest => op.isLinear && rest.isLinear
  | cmodsq _ => false | cmodsqd _ _ => true | realpart _ => true | imagpart _ => true
  | cembed _ _ _ => true
  | clscal _ op _ _ _ => op.isLinear | crscal _ op _ _ _ => op.isLinear

/-- A temporary, if given, must lie in the stated space. -/
def tmpOk (t : Option Nat) (n : Nat) : Bool :=
  match t with
  | none => true
  | some d => d == n

/-- The checks of the constructors (what `__init__` raises on), recursively. -/
def wf : Impl K → Bool
  | identity _ => true | scaling _ _ => true | multiply _ _ => true | matrix _ _ _ => true
  | zero _ _ => true | const _ _ _ => true
  | power _ p => 1 ≤ p
  | inner _ _ => true | normsq _ => true
  | sum l r tr td => l.wf && r.wf && (l.ran == r.ran) && (l.dom == r.dom) &&
      (l.ranField == r.ranField) && tmpOk tr l.ran && tmpOk td l.dom
  | vecsum op _ => op.wf && !op.ranField
  | comp l r tmp => l.wf && r.wf && (r.ran == l.dom) && !r.ranField && tmpOk tmp l.dom
  | lscal op _ => op.wf | rscal op _ => op.wf
  | lvec op _ => op.wf && !op.ranField
  | rvec op _ => op.wf
  | pprod l r => l.wf && r.wf && (l.ran == r.ran) && (l.dom == r.dom) &&
      (l.ranField == r.ranField)
  | flvec f _ _ => f.wf && f.ranField
  | bnil _ => true
  | bcons op rest => op.wf && rest.wf && (op.dom == rest.dom) && !op.ranField
  | rnil _ => true
  | rcons op rest => op.wf && rest.wf && (op.ran == rest.ran) && !op.ranField
  | dnil => true
  | dcons op rest => op.wf && rest.wf && !op.ranField
  | psnil _ _ => true
  | pscons ro co op rest => op.wf && rest.wf && !op.ranField &&
      decide (ro + op.ran ≤ rest.ran) && decide (co + op.dom ≤ rest.dom)
  | cmodsq _ => true | cmodsqd _ _ => true | realpart _ => true | imagpart _ => true
  | cembed _ _ _ => true
  | clscal n op _ _ _ => op.wf && (op.ran == n + n) && !op.ranField
  | crscal n op _ _ _ => op.wf && (op.dom == n + n)

/-- The domain is a complex space (flat `[re, im]` layout). -/
def domC : Impl K → Bool
  | cmodsq _ => true | cmodsqd _ _ => true | realpart _ => true | imagpart _ => true
  | sum l _ _ _ => l.domC | vecsum op _ => op.domC | comp _ r _ => r.domC
  | lscal op _ => op.domC | rscal op _ => op.domC | lvec op _ => op.domC | rvec op _ => op.domC
  | pprod l _ => l.domC | flvec f _ _ => f.domC
  | clscal _ op _ _ _ => op.domC | crscal _ _ _ _ _ => true
  | _ => false

/-- The range is a complex space. -/
def ranC : Impl K → Bool
  | cembed _ _ _ => true
  | sum l _ _ _ => l.ranC | vecsum op _ => op.ranC | comp l _ _ => l.ranC
  | lscal op _ => op.ranC | rscal op _ => op.ranC | lvec op _ => op.ranC | rvec op _ => op.ranC
  | pprod l _ => l.ranC
  | clscal _ _ _ _ _ => true | crscal _ op _ _ _ => op.ranC
  | _ => false

/-- Faithfulness of the flat real reading of complex spaces: real and complex spaces are not
mixed up, nothing is multiplied point-wise by a complex vector or value (flat point-wise
products only), and a complex scalar `(a, b, nb)` has `nb = -b` and meets a complex space.  Not needed by the theorems (they hold for the flat
semantics of every `wf` tree); required by the driver, so that only trees whose real-code
counterpart means the same are compared. -/
def cwf : Impl K → Bool
  | sum l r _ _ => l.cwf && r.cwf && (l.ranC == r.ranC) && (l.domC == r.domC)
  | vecsum op _ => op.cwf
  | comp l r _ => l.cwf && r.cwf && (r.ranC == l.domC)
  | lscal op _ => op.cwf | rscal op _ => op.cwf
  | lvec op _ => op.cwf && !op.ranC
  | rvec op _ => op.cwf && !op.domC
  | pprod l r => l.cwf && r.cwf && !l.ranC && !r.ranC && (l.domC == r.domC)
  | flvec f _ _ => f.cwf
  | bcons op rest => op.cwf && rest.cwf && !op.ranC && !op.domC
  | rcons op rest => op.cwf && rest.cwf && !op.ranC && !op.domC
  | dcons op rest => op.cwf && rest.cwf && !op.ranC && !op.domC
  | pscons _ _ op rest => op.cwf && rest.cwf && !op.ranC && !op.domC
  | clscal _ op _ b nb => op.cwf && op.ranC && decide (b + nb = 0)
  | crscal _ op _ b nb => op.cwf && op.domC && decide (b + nb = 0)
  | _ => true

/-- `OperatorSum.__init__`. -/
def mkSum (l r : Impl K) (tr td : Option Nat) : Option (Impl K) :=
  if l.ran == r.ran && l.dom == r.dom && l.ranField == r.ranField &&
      tmpOk tr l.ran && tmpOk td l.dom then
    some (sum l r tr td)
  else none

/-- `OperatorComp.__init__`. -/
def mkComp (l r : Impl K) (tmp : Option Nat) : Option (Impl K) :=
  if r.ran == l.dom && tmpOk tmp l.dom then some (comp l r tmp) else none

/-- `scalar * op` = `OperatorLeftScalarMult(op, scalar)`, whose `__init__` merges a nested
left scalar multiplication: `scalar = scalar * op.scalar; op = op.operator`. -/
def mkLscal (op : Impl K) (s : K) : Impl K :=
  match op with
  | lscal op' s' => lscal op' (s * s')
  | _ => lscal op s

/-- `OperatorRightScalarMult(op, scalar)`, whose `__init__` merges a nested right scalar
multiplication: `scalar = scalar * op.scalar; op = op.operator`. -/
def mkRscal (op : Impl K) (s : K) : Impl K :=
  match op with
  | rscal op' s' => rscal op' (s * s')
  | _ => rscal op s

/-- `value * op` where `value = g(x)` is the value of an operator `g` with the same range as
`op`: an element of the range gives `OperatorLeftVectorMult`, a float (functionals) gives
`OperatorLeftScalarMult`. -/
def mkLmul (op : Impl K) (val : Vec K) : Impl K :=
  if op.ranField then mkLscal op (val 0) else lvec op val

/-- `op.derivative(x)`; `none` = the code raises. -/
def deriv : Impl K → Vec K → Option (Impl K)
  -- `Operator.derivative`: linear ⇒ self
  | identity n, _ => some (identity n)
  | scaling n s, _ => some (scaling n s)
  | multiply n v, _ => some (multiply n v)
  | matrix m n a, _ => some (matrix m n a)
  | zero n m, _ => some (zero n m)
  | inner n v, _ => some (inner n v)
  -- `ConstantOperator.derivative`: always `ZeroOperator(domain, range)`
  | const n m _, _ => some (zero n m)
  -- `PowerOperator.derivative`: `exponent * MultiplyOperator(point ** (exponent - 1))`
  | power n p, x => some (mkLscal (multiply n (fun k => pw (x k) (p - 1))) (natK p))
  -- `Functional.derivative`: `gradient(point).T`, gradient of `L2NormSquared` is `2 * x`
  | normsq n, x => some (inner n (fun k => natK 2 * x k))
  | sum l r tr td, x =>
      if l.isLinear && r.isLinear then some (sum l r tr td)
      else match l.deriv x, r.deriv x with
        | some l', some r' => mkSum l' r' tr td
        | _, _ => none
  | vecsum op _, x => op.deriv x
  | comp l r tmp, x =>
      if l.isLinear && r.isLinear then some (comp l r tmp)
      else
        match (if l.isLinear then some l else l.deriv (r.run x)), r.deriv x with
        | some l', some r' => mkComp l' r' tmp
        | _, _ => none
  | lscal op s, x =>
      if op.isLinear then some (lscal op s)
      else match op.deriv x with
        | some o' => some (mkLscal o' s)
        | none => none
  -- `OperatorRightScalarMult(op.derivative(s * x), s)`, no `is_linear` short cut
  | rscal op s, x =>
      match op.deriv (fun k => s * x k) with
      | some o' => some (mkRscal o' s)
      | none => none
  | lvec op v, x =>
      if op.isLinear then some (lvec op v)
      else match op.deriv x with
        | some o' => some (lvec o' v)
        | none => none
  | rvec op v, x =>
      if op.isLinear then some (rvec op v)
      else match op.deriv (fun k => v k * x k) with
        | some o' => some (rvec o' v)
        | none => none
  -- `right(x) * left.derivative(x) + left(x) * right.derivative(x)` (never linear)
  | pprod l r, x =>
      match l.deriv x, r.deriv x with
      | some l', some r' => mkSum (mkLmul l' (r.run x)) (mkLmul r' (l.run x)) none none
      | _, _ => none
  | flvec f m v, x =>
      if f.isLinear then some (flvec f m v)
      else match f.deriv x with
        | some f' => some (flvec f' m v)
        | none => none
  -- block operators: no `is_linear` short cut in Broadcast/Reduction/Diagonal
  | bnil n, _ => some (bnil n)
  | bcons op rest, x =>
      match op.deriv x, rest.deriv x with
      | some o', some r' => some (bcons o' r')
      | _, _ => none
  | rnil m, _ => some (rnil m)
  | rcons op rest, x =>
      match op.deriv x, rest.deriv (fun j => x (op.dom + j)) with
      | some o', some r' => some (rcons o' r')
      | _, _ => none
  | dnil, _ => some dnil
  | dcons op rest, x =>
      match op.deriv x, rest.deriv (fun j => x (op.dom + j)) with
      | some o', some r' => some (dcons o' r')
      | _, _ => none
  -- `ProductSpaceOperator.derivative`: linear ⇒ self, else the same sparse matrix with
  -- `op.derivative(x[col])` in every entry.  (In the cons encoding the short cut is also taken
  -- for a linear tail; the code then returns the derivatives of the linear entries, which act
  -- like the entries themselves — `C06.deriv_linear`.)
  | psnil n m, _ => some (psnil n m)
  | pscons ro co op rest, x =>
      if op.isLinear && rest.isLinear then some (pscons ro co op rest)
      else match op.deriv (fun j => x (co + j)), rest.deriv x with
        | some o', some r' => some (pscons ro co o' r')
        | _, _ => none
  -- `ComplexModulusSquared.derivative`: `y ↦ 2 (Re x · Re y + Im x · Im y)`
  | cmodsq n, x => some (cmodsqd n x)
  | cmodsqd n p, _ => some (cmodsqd n p)
  | realpart n, _ => some (realpart n)
  | imagpart n, _ => some (imagpart n)
  | cembed n a b, _ => some (cembed n a b)
  -- complex scalars (the merging of nested scalar multiplications, semantically neutral, is not
  -- modelled for them)
  | clscal n op a b nb, x =>
      if op.isLinear then some (clscal n op a b nb)
      else match op.deriv x with
        | some o' => some (clscal n o' a b nb)
        | none => none
  | crscal n op a b nb, x =>
      match op.deriv (cmulV n a b nb x) with
      | some o' => some (crscal n o' a b nb)
      | none => none

end Impl
end

end OdlModel.Deriv
