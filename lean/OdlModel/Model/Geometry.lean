/-
Model of the acquisition geometries of `odl/tomo` (C19).

Everything is a polynomial (occasionally rational) function of the scalar data of a
geometry and of `(c, s) = (cos, sin)` pairs — one pair per angle (motion angle, the three
Euler angles, the angular parameters of curved detectors).  The definitions are polymorphic
in the scalar type through core notation classes only, so that they run at `Rat` in the
driver and are reasoned about over an arbitrary commutative ring / ordered field in
`Props/C19.lean`.

Mirrors (the code as it exists, not the documentation):
* `odl/tomo/util/utility.py`: `euler_matrix` (2d, ZXZ), `axis_rotation_matrix`,
  `rotation_matrix_from_to` (generic branch), `perpendicular_vector`
* `odl/tomo/geometry/detector.py`: `surface`, `surface_deriv`, `surface_normal` of
  `Flat1d/Flat2d/Circular/Cylindrical/SphericalDetector`
* `odl/tomo/geometry/geometry.py`: `Geometry.det_point_position`,
  `DivergentBeamGeometry.det_to_src`, `AxisOrientedGeometry.rotation_matrix`
* `odl/tomo/geometry/parallel.py`, `conebeam.py`: `det_refpoint`, `src_position`,
  `det_to_src`, `det_axes`, the constructors' handling of `translation`, `frommatrix`,
  `__getitem__`, and the factories' detector extents.
-/
namespace OdlModel.Geometry

/-! ## small vectors and matrices -/

@[ext] structure V2 (K : Type) where
  x : K
  y : K
  deriving Repr, DecidableEq

@[ext] structure V3 (K : Type) where
  x : K
  y : K
  z : K
  deriving Repr, DecidableEq

/-- 2×2 matrix, row major. -/
@[ext] structure M2 (K : Type) where
  a11 : K
  a12 : K
  a21 : K
  a22 : K
  deriving Repr, DecidableEq

/-- 3×3 matrix, row major. -/
@[ext] structure M3 (K : Type) where
  a11 : K
  a12 : K
  a13 : K
  a21 : K
  a22 : K
  a23 : K
  a31 : K
  a32 : K
  a33 : K
  deriving Repr, DecidableEq

section ops
variable {K : Type} [Add K] [Sub K] [Mul K] [Neg K] [OfNat K 0] [OfNat K 1]

namespace V2
def add (u v : V2 K) : V2 K := ⟨u.x + v.x, u.y + v.y⟩
def sub (u v : V2 K) : V2 K := ⟨u.x - v.x, u.y - v.y⟩
def neg (u : V2 K) : V2 K := ⟨-u.x, -u.y⟩
def smul (k : K) (u : V2 K) : V2 K := ⟨k * u.x, k * u.y⟩
def dot (u v : V2 K) : K := u.x * v.x + u.y * v.y
def normSq (u : V2 K) : K := dot u u
def zero : V2 K := ⟨0, 0⟩
end V2

namespace V3
def add (u v : V3 K) : V3 K := ⟨u.x + v.x, u.y + v.y, u.z + v.z⟩
def sub (u v : V3 K) : V3 K := ⟨u.x - v.x, u.y - v.y, u.z - v.z⟩
def neg (u : V3 K) : V3 K := ⟨-u.x, -u.y, -u.z⟩
def smul (k : K) (u : V3 K) : V3 K := ⟨k * u.x, k * u.y, k * u.z⟩
def dot (u v : V3 K) : K := u.x * v.x + u.y * v.y + u.z * v.z
def normSq (u : V3 K) : K := dot u u
def cross (u v : V3 K) : V3 K :=
  ⟨u.y * v.z - u.z * v.y, u.z * v.x - u.x * v.z, u.x * v.y - u.y * v.x⟩
def zero : V3 K := ⟨0, 0, 0⟩
end V3

namespace M2
def one : M2 K := ⟨1, 0, 0, 1⟩
def transpose (m : M2 K) : M2 K := ⟨m.a11, m.a21, m.a12, m.a22⟩
def mulVec (m : M2 K) (v : V2 K) : V2 K :=
  ⟨m.a11 * v.x + m.a12 * v.y, m.a21 * v.x + m.a22 * v.y⟩
def mul (m n : M2 K) : M2 K :=
  ⟨m.a11 * n.a11 + m.a12 * n.a21, m.a11 * n.a12 + m.a12 * n.a22,
   m.a21 * n.a11 + m.a22 * n.a21, m.a21 * n.a12 + m.a22 * n.a22⟩
def det (m : M2 K) : K := m.a11 * m.a22 - m.a12 * m.a21
def col1 (m : M2 K) : V2 K := ⟨m.a11, m.a21⟩
def col2 (m : M2 K) : V2 K := ⟨m.a12, m.a22⟩
end M2

namespace M3
def one : M3 K := ⟨1, 0, 0, 0, 1, 0, 0, 0, 1⟩
def transpose (m : M3 K) : M3 K :=
  ⟨m.a11, m.a21, m.a31, m.a12, m.a22, m.a32, m.a13, m.a23, m.a33⟩
def mulVec (m : M3 K) (v : V3 K) : V3 K :=
  ⟨m.a11 * v.x + m.a12 * v.y + m.a13 * v.z,
   m.a21 * v.x + m.a22 * v.y + m.a23 * v.z,
   m.a31 * v.x + m.a32 * v.y + m.a33 * v.z⟩
def mul (m n : M3 K) : M3 K :=
  ⟨m.a11 * n.a11 + m.a12 * n.a21 + m.a13 * n.a31,
   m.a11 * n.a12 + m.a12 * n.a22 + m.a13 * n.a32,
   m.a11 * n.a13 + m.a12 * n.a23 + m.a13 * n.a33,
   m.a21 * n.a11 + m.a22 * n.a21 + m.a23 * n.a31,
   m.a21 * n.a12 + m.a22 * n.a22 + m.a23 * n.a32,
   m.a21 * n.a13 + m.a22 * n.a23 + m.a23 * n.a33,
   m.a31 * n.a11 + m.a32 * n.a21 + m.a33 * n.a31,
   m.a31 * n.a12 + m.a32 * n.a22 + m.a33 * n.a32,
   m.a31 * n.a13 + m.a32 * n.a23 + m.a33 * n.a33⟩
def det (m : M3 K) : K :=
  m.a11 * (m.a22 * m.a33 - m.a23 * m.a32) - m.a12 * (m.a21 * m.a33 - m.a23 * m.a31)
    + m.a13 * (m.a21 * m.a32 - m.a22 * m.a31)
/-- Matrix with the given columns. -/
def ofCols (p q r : V3 K) : M3 K := ⟨p.x, q.x, r.x, p.y, q.y, r.y, p.z, q.z, r.z⟩
end M3

/-! ## rotation matrices (`odl/tomo/util/utility.py`) -/

/-- `euler_matrix(phi)` (2d): `[[cos, -sin], [sin, cos]]`. -/
def euler2 (c s : K) : M2 K := ⟨c, -s, s, c⟩

/-- `euler_matrix(phi, theta, psi)` (3d, ZXZ), entries exactly as written in the source
(the `+ 0 * …` broadcasting terms are dropped). -/
def euler3 (cph sph cth sth cps sps : K) : M3 K :=
  ⟨cph * cps - sph * cth * sps, -cph * sps - sph * cth * cps, sph * sth,
   sph * cps + cph * cth * sps, -sph * sps + cph * cth * cps, -cph * sth,
   sth * sps, sth * cps, cth⟩

/-- The cross-product matrix of `axis_rotation_matrix`. -/
def crossMat (a : V3 K) : M3 K := ⟨0, -a.z, a.y, a.z, 0, -a.x, -a.y, a.x, 0⟩

/-- `axis_rotation_matrix(axis, angle)`: `cos·I + (1 - cos)·a aᵀ + sin·[a]×` (Rodrigues). -/
def axisRot (a : V3 K) (c s : K) : M3 K :=
  ⟨c * 1 + (1 - c) * (a.x * a.x) + s * 0,
   c * 0 + (1 - c) * (a.x * a.y) + s * (-a.z),
   c * 0 + (1 - c) * (a.x * a.z) + s * a.y,
   c * 0 + (1 - c) * (a.y * a.x) + s * a.z,
   c * 1 + (1 - c) * (a.y * a.y) + s * 0,
   c * 0 + (1 - c) * (a.y * a.z) + s * (-a.x),
   c * 0 + (1 - c) * (a.z * a.x) + s * (-a.y),
   c * 0 + (1 - c) * (a.z * a.y) + s * a.x,
   c * 1 + (1 - c) * (a.z * a.z) + s * 0⟩

/-- `perpendicular_vector` in 2d before its normalisation: `(-v₁, v₀)`. -/
def perp2 (v : V2 K) : V2 K := ⟨-v.y, v.x⟩

/-- `v / np.linalg.norm(v)` with the square root as a parameter: the model is executed with
an approximate rational square root in the driver and reasoned about for any `sqrt` with
`sqrt(s)² = s` at the squared norm `s` in question. -/
def V2.normalize [Div K] (sqrt : K → K) (v : V2 K) : V2 K := V2.smul (1 / sqrt v.normSq) v
def V3.normalize [Div K] (sqrt : K → K) (v : V3 K) : V3 K := V3.smul (1 / sqrt v.normSq) v

/-- `rotation_matrix_from_to(u, v)` in 3d for unit vectors in general position (the
"usual case" branch): Rodrigues around `n = u×v/‖u×v‖` by the angle with `cos = ⟨u,v⟩`,
`sin = ‖u×v‖` (the sign factor `sign(⟨n×u, v⟩)` is `+1` there).  With `w = u×v` this is
`cos·I + w wᵀ/(1 + cos) + [w]×`, which needs a division but no square root. -/
def rotFromTo [Div K] (u v : V3 K) : M3 K :=
  let w := V3.cross u v
  let c := V3.dot u v
  let k := 1 / (1 + c)
  ⟨c + k * (w.x * w.x), k * (w.x * w.y) - w.z, k * (w.x * w.z) + w.y,
   k * (w.y * w.x) + w.z, c + k * (w.y * w.y), k * (w.y * w.z) - w.x,
   k * (w.z * w.x) - w.y, k * (w.z * w.y) + w.x, c + k * (w.z * w.z)⟩

/-- `rotation_matrix_from_to(u, v)` in 2d for unit vectors: the rotation by the angle
`sign(⟨u⊥, v⟩)·arccos⟨u, v⟩`, i.e. with `cos = ⟨u, v⟩` and `sin = ⟨u⊥, v⟩`, `u⊥ = (-u₁, u₀)`. -/
def rotFromTo2 (u v : V2 K) : M2 K :=
  let c := V2.dot u v
  let s := V2.dot (perp2 u) v
  ⟨c, -s, s, c⟩

/-! ### `transform_system`: the vectors a constructor derives when they are not given

The default frame is carried along by the rotation taking the default principal vector to
the given one (`p`, `a` below are the NORMALISED given vectors). -/

/-- `Parallel2dGeometry` / `FanBeamGeometry`: default principal vector `(0,1)`
(`det_pos_init` / `src_to_det_init`), default detector axis `(1,0)`.
Returns (image of the principal default, derived `det_axis_init`). -/
def frame2 (p : V2 K) : V2 K × V2 K :=
  let M := rotFromTo2 ⟨0, 1⟩ p
  (M.mulVec ⟨0, 1⟩, M.mulVec ⟨1, 0⟩)

/-- `Parallel3dAxisGeometry` / `ConeBeamGeometry`: default axis `(0,0,1)`, default
`det_pos_init` / `src_to_det_init` `(0,1,0)`, default detector axes `(1,0,0), (0,0,1)`.
Returns (image of the default axis, derived position/direction, derived axes 0 and 1). -/
def frameAxis [Div K] (a : V3 K) : V3 K × V3 K × V3 K × V3 K :=
  let M := rotFromTo ⟨0, 0, 1⟩ a
  (M.mulVec ⟨0, 0, 1⟩, M.mulVec ⟨0, 1, 0⟩, M.mulVec ⟨1, 0, 0⟩, M.mulVec ⟨0, 0, 1⟩)

/-- `Parallel3dEulerGeometry`: default `det_pos_init` `(0,1,0)`, default detector axes
`(1,0,0), (0,0,1)`.  Returns (image of the default position, derived axes 0 and 1). -/
def frameEuler [Div K] (p : V3 K) : V3 K × V3 K × V3 K :=
  let M := rotFromTo ⟨0, 1, 0⟩ p
  (M.mulVec ⟨0, 1, 0⟩, M.mulVec ⟨1, 0, 0⟩, M.mulVec ⟨0, 0, 1⟩)

/-! ## detectors (`odl/tomo/geometry/detector.py`)

A detector parameter is passed together with the cosines / sines the curved detectors
need: `u` (and `v`) are the raw parameters, `(c, s) = (cos u, sin u)` etc. -/

structure P1 (K : Type) where
  u : K
  c : K
  s : K
  deriving Repr

structure P2 (K : Type) where
  u : K
  v : K
  c0 : K
  s0 : K
  c1 : K
  s1 : K
  deriving Repr

/-- Detectors of 2d geometries.  `axis` is the stored (normalised) `detector.axis`. -/
inductive Det2 (K : Type)
  | flat (axis : V2 K)
  | circ (axis : V2 K) (radius : K)
  deriving Repr

/-- Detectors of 3d geometries.  `a0 a1` are the stored (normalised) `detector.axes`. -/
inductive Det3 (K : Type)
  | flat (a0 a1 : V3 K)
  | cyl (a0 a1 : V3 K) (radius : K)
  | sph (a0 a1 : V3 K) (radius : K)
  deriving Repr

/-- `CircularDetector.rotation_matrix`: `[[cos, -sin], [sin, cos]]` with `sin = axis[0]`,
`cos = -axis[1]`. -/
def circRot (a : V2 K) : M2 K := ⟨-a.y, -a.x, a.x, -a.y⟩

/-- Rotation of the curved 3d detectors: the matrix taking the initial axes
`(0,-1,0), (0,0,1)` to `a0, a1` (orthonormal), i.e. with columns `a1×a0, -a0, a1`.
The code obtains it as a product of two `rotation_matrix_from_to` calls; equality with this
closed form is checked by the correspondence run (`detector.rotation_matrix`). -/
def curvedRot (a0 a1 : V3 K) : M3 K := M3.ofCols (V3.cross a1 a0) (V3.neg a0) a1

namespace Det2
def axis : Det2 K → V2 K
  | flat a => a
  | circ a _ => a

/-- `detector.surface(param)` -/
def surface : Det2 K → P1 K → V2 K
  | flat a, p => V2.smul p.u a
  | circ a r, p =>
      -- surf = rot · (r cos, -r sin) + translation, translation = -r · rot · (1, 0)
      V2.add ((circRot a).mulVec ⟨r * p.c, r * (-p.s)⟩)
             (V2.smul (-r) ((circRot a).mulVec ⟨1, 0⟩))

/-- `detector.surface_deriv(param)` -/
def deriv : Det2 K → P1 K → V2 K
  | flat a, _ => a
  | circ a r, p => (circRot a).mulVec ⟨r * (-p.s), r * (-p.c)⟩

/-- `detector.surface_normal(param)` before its normalisation:
`-perpendicular_vector(deriv)`, `perpendicular_vector(v) ∝ (-v₁, v₀)`. -/
def normalRaw (d : Det2 K) (p : P1 K) : V2 K := V2.neg (perp2 (d.deriv p))
/-- `detector.surface_normal(param)` -/
def normal [Div K] (sqrt : K → K) (d : Det2 K) (p : P1 K) : V2 K := V2.normalize sqrt (d.normalRaw p)
end Det2

namespace Det3
def a0 : Det3 K → V3 K
  | flat a _ => a
  | cyl a _ _ => a
  | sph a _ _ => a
def a1 : Det3 K → V3 K
  | flat _ b => b
  | cyl _ b _ => b
  | sph _ b _ => b

/-- `detector.surface(param)` -/
def surface : Det3 K → P2 K → V3 K
  | flat a b, p => V3.add (V3.smul p.u a) (V3.smul p.v b)
  | cyl a b r, p =>
      V3.add ((curvedRot a b).mulVec ⟨r * p.c0, r * (-p.s0), p.v⟩)
             (V3.smul (-r) ((curvedRot a b).mulVec ⟨1, 0, 0⟩))
  | sph a b r, p =>
      V3.add ((curvedRot a b).mulVec ⟨r * (p.c0 * p.c1), r * (-p.s0 * p.c1), r * p.s1⟩)
             (V3.smul (-r) ((curvedRot a b).mulVec ⟨1, 0, 0⟩))

/-- first row of `detector.surface_deriv(param)` (derivative w.r.t. the first parameter) -/
def deriv0 : Det3 K → P2 K → V3 K
  | flat a _, _ => a
  | cyl a b r, p => (curvedRot a b).mulVec ⟨r * (-p.s0), r * (-p.c0), r * 0⟩
  | sph a b r, p => (curvedRot a b).mulVec ⟨r * (-p.s0 * p.c1), r * (-p.c0 * p.c1), r * 0⟩

/-- second row of `detector.surface_deriv(param)` -/
def deriv1 : Det3 K → P2 K → V3 K
  | flat _ b, _ => b
  | cyl a b _, _ => (curvedRot a b).mulVec ⟨0, 0, 1⟩
  | sph a b r, p => (curvedRot a b).mulVec ⟨r * (-p.c0 * p.s1), r * (p.s0 * p.s1), r * p.c1⟩

/-- `detector.surface_normal(param)` before its normalisation: `deriv0 × deriv1`. -/
def normalRaw (d : Det3 K) (p : P2 K) : V3 K := V3.cross (d.deriv0 p) (d.deriv1 p)
/-- `detector.surface_normal(param)` -/
def normal [Div K] (sqrt : K → K) (d : Det3 K) (p : P2 K) : V3 K := V3.normalize sqrt (d.normalRaw p)
end Det3

/-! ## geometries

The rotation matrix `R` at the motion parameter is an argument of the evaluation functions:
`euler2 c s` for the 2d classes, `axisRot axis c s` for the axis-oriented 3d classes,
`euler3 …` for `Parallel3dEulerGeometry`. -/

/-- `ParallelBeamGeometry` in 2d: `pos = self.det_pos_init` (absolute, i.e. including the
translation), `t = self.translation`. -/
structure Par2 (K : Type) where
  pos : V2 K
  t : V2 K
  det : Det2 K
  deriving Repr

/-- `ParallelBeamGeometry` in 3d (axis or Euler). -/
structure Par3 (K : Type) where
  pos : V3 K
  t : V3 K
  det : Det3 K
  deriving Repr

namespace Par2
/-- `ParallelBeamGeometry.det_refpoint`: `translation + R·(det_pos_init - translation)` -/
def refpoint (g : Par2 K) (R : M2 K) : V2 K := V2.add g.t (R.mulVec (V2.sub g.pos g.t))
/-- `Geometry.det_point_position`: `det_refpoint + R·surface(dparam)` -/
def detPoint (g : Par2 K) (R : M2 K) (p : P1 K) : V2 K :=
  V2.add (g.refpoint R) (R.mulVec (g.det.surface p))
/-- `ParallelBeamGeometry.det_to_src` before the normalisation hidden in `surface_normal` -/
def detToSrcRaw (g : Par2 K) (R : M2 K) (p : P1 K) : V2 K := R.mulVec (g.det.normalRaw p)
/-- `ParallelBeamGeometry.det_to_src`: `R · surface_normal(dparam)` -/
def detToSrc [Div K] (sqrt : K → K) (g : Par2 K) (R : M2 K) (p : P1 K) : V2 K :=
  R.mulVec (g.det.normal sqrt p)
/-- `det_axis(angle)` -/
def detAxis (g : Par2 K) (R : M2 K) : V2 K := R.mulVec g.det.axis
end Par2

namespace Par3
def refpoint (g : Par3 K) (R : M3 K) : V3 K := V3.add g.t (R.mulVec (V3.sub g.pos g.t))
def detPoint (g : Par3 K) (R : M3 K) (p : P2 K) : V3 K :=
  V3.add (g.refpoint R) (R.mulVec (g.det.surface p))
def detToSrcRaw (g : Par3 K) (R : M3 K) (p : P2 K) : V3 K := R.mulVec (g.det.normalRaw p)
def detToSrc [Div K] (sqrt : K → K) (g : Par3 K) (R : M3 K) (p : P2 K) : V3 K :=
  R.mulVec (g.det.normal sqrt p)
def detAxis0 (g : Par3 K) (R : M3 K) : V3 K := R.mulVec g.det.a0
def detAxis1 (g : Par3 K) (R : M3 K) : V3 K := R.mulVec g.det.a1
/-- detector coordinates at which the point `x` is seen (components of `x - det_refpoint`
along the rotated detector axes; orthonormal axes) -/
def detCoord0 (g : Par3 K) (R : M3 K) (x : V3 K) : K :=
  V3.dot (V3.sub x (g.refpoint R)) (g.detAxis0 R)
def detCoord1 (g : Par3 K) (R : M3 K) (x : V3 K) : K :=
  V3.dot (V3.sub x (g.refpoint R)) (g.detAxis1 R)
end Par3

/-- `FanBeamGeometry`: `d = self.src_to_det_init` (normalised), radii, translation. -/
structure Fan (K : Type) where
  d : V2 K
  t : V2 K
  rs : K
  rd : K
  det : Det2 K
  deriving Repr

namespace Fan
/-- `FanBeamGeometry.src_position`; `sh = src_shift_func(angle)` (default zero). -/
def srcPos (g : Fan K) (R : M2 K) (sh : V2 K) : V2 K :=
  let tangent : V2 K := ⟨g.d.y, -g.d.x⟩
  let c2s := V2.add (V2.smul (-g.rs) g.d)
    (V2.add (V2.smul sh.x (V2.neg g.d)) (V2.smul sh.y tangent))
  V2.add g.t (R.mulVec c2s)
/-- `FanBeamGeometry.det_refpoint`; `sh = det_shift_func(angle)` (default zero). -/
def refpoint (g : Fan K) (R : M2 K) (sh : V2 K) : V2 K :=
  let tangent : V2 K := ⟨-g.d.y, g.d.x⟩
  let c2d := V2.add (V2.smul g.rd g.d) (V2.add (V2.smul sh.x g.d) (V2.smul sh.y tangent))
  V2.add g.t (R.mulVec c2d)
def detPoint (g : Fan K) (R : M2 K) (dsh : V2 K) (p : P1 K) : V2 K :=
  V2.add (g.refpoint R dsh) (R.mulVec (g.det.surface p))
/-- `DivergentBeamGeometry.det_to_src(normalized=False)` -/
def detToSrc (g : Fan K) (R : M2 K) (ssh dsh : V2 K) (p : P1 K) : V2 K :=
  V2.sub (g.srcPos R ssh) (g.detPoint R dsh p)
/-- `DivergentBeamGeometry.det_to_src(normalized=True)` -/
def detToSrcN [Div K] (sqrt : K → K) (g : Fan K) (R : M2 K) (ssh dsh : V2 K) (p : P1 K) : V2 K :=
  V2.normalize sqrt (g.detToSrc R ssh dsh p)
def detAxis (g : Fan K) (R : M2 K) : V2 K := R.mulVec g.det.axis
end Fan

/-- `ConeBeamGeometry`: normalised `axis`, `d = src_to_det_init` (normalised), radii,
`pitch`, `offset_along_axis`, translation.  `kt = 1/‖d × axis‖` normalises the tangent used
by the shift functions. -/
structure Cone (K : Type) where
  axis : V3 K
  d : V3 K
  t : V3 K
  rs : K
  rd : K
  pitch : K
  off : K
  kt : K
  det : Det3 K
  deriving Repr

namespace Cone
/-- `ConeBeamGeometry.src_position`; `turns = angle / (2π)`, `sh = src_shift_func(angle)`. -/
def srcPos (g : Cone K) (R : M3 K) (turns : K) (sh : V3 K) : V3 K :=
  -- tangent = -cross(-d, axis) / ‖·‖
  let tangent := V3.smul g.kt (V3.neg (V3.cross (V3.neg g.d) g.axis))
  let c2s := V3.add (V3.smul (-g.rs) g.d)
    (V3.add (V3.smul sh.x (V3.neg g.d)) (V3.smul sh.y tangent))
  V3.add (V3.add g.t (R.mulVec c2s)) (V3.smul (g.off + g.pitch * turns + sh.z) g.axis)
/-- `ConeBeamGeometry.det_refpoint`. -/
def refpoint (g : Cone K) (R : M3 K) (turns : K) (sh : V3 K) : V3 K :=
  -- tangent = -cross(d, axis) / ‖·‖
  let tangent := V3.smul g.kt (V3.neg (V3.cross g.d g.axis))
  let c2d := V3.add (V3.smul g.rd g.d) (V3.add (V3.smul sh.x g.d) (V3.smul sh.y tangent))
  V3.add (V3.add g.t (R.mulVec c2d)) (V3.smul (g.off + g.pitch * turns + sh.z) g.axis)
def detPoint (g : Cone K) (R : M3 K) (turns : K) (dsh : V3 K) (p : P2 K) : V3 K :=
  V3.add (g.refpoint R turns dsh) (R.mulVec (g.det.surface p))
def detToSrc (g : Cone K) (R : M3 K) (turns : K) (ssh dsh : V3 K) (p : P2 K) : V3 K :=
  V3.sub (g.srcPos R turns ssh) (g.detPoint R turns dsh p)
/-- `DivergentBeamGeometry.det_to_src(normalized=True)` -/
def detToSrcN [Div K] (sqrt : K → K) (g : Cone K) (R : M3 K) (turns : K) (ssh dsh : V3 K)
    (p : P2 K) : V3 K :=
  V3.normalize sqrt (g.detToSrc R turns ssh dsh p)
/-- `ConeBeamGeometry.__init__` raises `ValueError` when the (normalised) `src_to_det_init`
is parallel to the axis up to rounding, `‖d × axis‖ ≤ 1e-10·‖axis‖` (the tangent
`cross(src_to_det_init, axis)` cannot be normalised); `tol2 = (1e-10)²`. -/
def ctorRejects [LE K] [DecidableLE K] (tol2 : K) (d axis : V3 K) : Bool :=
  decide ((V3.cross d axis).normSq ≤ tol2 * axis.normSq)
def detAxis0 (g : Cone K) (R : M3 K) : V3 K := R.mulVec g.det.a0
def detAxis1 (g : Cone K) (R : M3 K) : V3 K := R.mulVec g.det.a1
end Cone

/-! ## constructors, `frommatrix`, `__getitem__`: bookkeeping of the absolute position

`ParallelBeamGeometry` stores `det_pos_init` as an ABSOLUTE vector (`det_pos_init =
det_pos_init + translation` in the constructors) together with `translation`.
`__getitem__` re-invokes the constructor with stored arguments.  What is modelled here is
exactly which vector is handed back to the constructor. -/

/-- The part of the state of a parallel-beam geometry concerned: `pos = self.det_pos_init`
(absolute), `posArg = self._det_pos_init_arg` (the constructor argument as given, `none` if
it was derived from the axis; only used by `Parallel3dAxisGeometry`), `t = self.translation`. -/
structure PosState (V : Type) where
  pos : V
  posArg : Option V
  t : V
  /-- `self.check_bounds` (passed on by `__getitem__`) -/
  cb : Bool := true
  deriving Repr

/-- `Parallel2dGeometry.__init__(det_pos_init=p, translation=t)`:
`det_pos_init = det_pos_init + translation`. -/
def par2Ctor (p t : V2 K) (cb : Bool := true) : PosState (V2 K) :=
  { pos := V2.add p t, posArg := some p, t := t, cb := cb }

/-- `Parallel2dGeometry.__getitem__`: calls the constructor with
`det_pos_init=self.det_pos_init - self.translation, translation=self.translation`.
Returns (receiver after the call, new geometry). -/
def par2Getitem (g : PosState (V2 K)) : PosState (V2 K) × PosState (V2 K) :=
  (g, par2Ctor (V2.sub g.pos g.t) g.t g.cb)

/-- `Parallel3dAxisGeometry.__init__(det_pos_init=arg, translation=t)`; `dflt` is the
position derived from the axis when `det_pos_init` is not given.  The translation is added
out of place, so `_det_pos_init_arg` keeps the argument whatever kind of object it was. -/
def par3Ctor (dflt : V3 K) (arg : Option (V3 K)) (t : V3 K) (cb : Bool := true) :
    PosState (V3 K) :=
  match arg with
  | none => { pos := V3.add dflt t, posArg := none, t := t, cb := cb }
  | some p => { pos := V3.add p t, posArg := some p, t := t, cb := cb }

/-- `Parallel3dAxisGeometry.__getitem__`: passes `det_pos_init=self._det_pos_init_arg,
translation=self.translation`. Returns (receiver after the call, new geometry). -/
def par3Getitem (dflt : V3 K) (g : PosState (V3 K)) : PosState (V3 K) × PosState (V3 K) :=
  (g, par3Ctor dflt g.posArg g.t g.cb)

/-- `frommatrix`: the default initial vectors are multiplied with the left block of
`init_matrix`, the last column (if present) is the translation. -/
def par2FromMatrix (M : M2 K) (b : V2 K) : PosState (V2 K) := par2Ctor (M.mulVec ⟨0, 1⟩) b
def par3FromMatrix (M : M3 K) (b : V3 K) : PosState (V3 K) :=
  par3Ctor V3.zero (some (M.mulVec ⟨0, 1, 0⟩)) b

/-! ### the code before the repairs 3a647dc / eee844a (kept to document what the slicing
theorems are sensitive to; not used by the driver) -/

/-- old state: `shared` = `pos` and `posArg` are one and the same array object -/
structure PosStateOld (V : Type) where
  pos : V
  posArg : Option V
  shared : Bool
  t : V
  deriving Repr

/-- old `Parallel2dGeometry.__init__`: `det_pos_init += translation` IN PLACE; the array
stored is the one `__getitem__` passed on. -/
def par2CtorOld (p t : V2 K) : PosStateOld (V2 K) :=
  { pos := V2.add p t, posArg := some (V2.add p t), shared := true, t := t }

/-- old `Parallel2dGeometry.__getitem__`: `det_pos_init=self.det_pos_init` (already
absolute, and the receiver's own array, which the constructor then updated in place). -/
def par2GetitemOld (g : PosStateOld (V2 K)) : PosStateOld (V2 K) × PosStateOld (V2 K) :=
  let s := par2CtorOld g.pos g.t
  ({ g with pos := s.pos, posArg := s.posArg }, s)

/-- old `Parallel3dAxisGeometry.__init__`; `aliased` = the argument was a float64 `ndarray`,
so `_det_pos_init_arg` was the very array that `det_pos_init += translation` updated. -/
def par3CtorOld (dflt : V3 K) (arg : Option (V3 K)) (aliased : Bool) (t : V3 K) :
    PosStateOld (V3 K) :=
  match arg with
  | none => { pos := V3.add dflt t, posArg := none, shared := false, t := t }
  | some p => { pos := V3.add p t, posArg := some (if aliased then V3.add p t else p),
                shared := aliased, t := t }

/-- old `Parallel3dAxisGeometry.__getitem__` (the stored argument is an `ndarray`, hence
always aliased in the new call and shared with the receiver). -/
def par3GetitemOld (dflt : V3 K) (g : PosStateOld (V3 K)) :
    PosStateOld (V3 K) × PosStateOld (V3 K) :=
  let s := par3CtorOld dflt g.posArg true g.t
  ({ g with posArg := s.posArg, pos := if g.shared then s.pos else g.pos }, s)

/-! ## factories: detector extent chosen from the volume

`rho` = radius of the smallest cylinder around the rotation axis containing the volume. -/

/-- `parallel_beam_geometry`: detector `[-rho, rho]`. -/
def parHalfWidth (rho : K) : K := rho

/-- `cone_beam_geometry`, `helical_geometry`: `w/2` with `w = 2·rho·(rs + rd)/rs`. -/
def fanHalfWidth [Div K] (rho rs rd : K) : K := rho * (rs + rd) / rs

/-- Detector coordinate at which a flat fan/cone-beam detector (source at distance `rs`,
detector at distance `rd` from the rotation centre) sees the point with coordinate `xc`
along the central ray (towards the detector) and `xt` along the detector axis. -/
def fanDetCoord [Div K] (rs rd xc xt : K) : K := (rs + rd) * xt / (rs + xc)

/-- Detector coordinate at which a 2d parallel-beam geometry sees the point `x`: the
component of `x - det_refpoint` along the rotated detector axis. -/
def Par2.detCoord (g : Par2 K) (R : M2 K) (x : V2 K) : K :=
  V2.dot (V2.sub x (g.refpoint R)) (g.detAxis R)

/-- `cone_beam_geometry` (3d): half of `h = 2·sin(arctan(zmax/dist))·(rs + rd)` before it is
rounded up to a multiple of the pixel size; `hyp = √(dist² + zmax²)`, `dist = rs - rho`. -/
def coneHalfHeightRaw [Div K] (zmax hyp rs rd : K) : K := zmax / hyp * (rs + rd)

/-- `helical_geometry`: half of `h = 2·h_axis·(rs + rd)/rs`,
`h_axis = pitch/(2π)·(1 + (rho/rs)²)·(n_pi·π/2 - arctan(-rho/rs))`;
`pt = pitch/(2π)`, `ang = n_pi·π/2 + arctan(rho/rs)` are sent by the harness. -/
def helicalHalfHeight [Div K] (pt rho rs rd ang : K) : K :=
  pt * (1 + (rho / rs) * (rho / rs)) * ang * (rs + rd) / rs

/-! ## shapes of vectorised evaluation -/

def bcastDim (a b : Nat) : Option Nat :=
  if a = b then some a else if a = 1 then some b else if b = 1 then some a else none

/-- NumPy broadcasting of two shapes given in REVERSED order (last axis first). -/
def bcastRev : List Nat → List Nat → Option (List Nat)
  | [], l => some l
  | l, [] => some l
  | a :: as, b :: bs =>
    match bcastDim a b, bcastRev as bs with
    | some d, some r => some (d :: r)
    | _, _ => none

/-- `np.broadcast(s, t).shape` -/
def bcast (s t : List Nat) : Option (List Nat) :=
  (bcastRev s.reverse t.reverse).map List.reverse

def bcastAll : List (List Nat) → Option (List Nat)
  | [] => some []
  | s :: r =>
    match bcastAll r with
    | some t => bcast s t
    | none => none

/-- `np.array(x, ndmin=1).shape` -/
def atLeast1 (s : List Nat) : List Nat := if s.isEmpty then [1] else s

/-- Shape of `detector.surface(dparam)` without the trailing vector axis: all detectors
broadcast the components of `dparam` (each made at least 1-d). -/
def surfShape (dshapes : List (List Nat)) : Option (List Nat) :=
  bcastAll (dshapes.map atLeast1)

/-- Shape returned by `det_point_position(mparam, dparam)` / `det_to_src(…)` (`none` = the
call raises).  `mshapes` / `dshapes` are the shapes of the components of the motion /
detector parameter; scalars are `[]`.  The rotation matrices (shape `m + (ndim, ndim)`) and
surface points (shape `d + (ndim,)`) are padded on the left with axes of length 1 to the
same number of axes and multiplied by an `einsum` that broadcasts the leading axes. -/
def evalShape (mshapes dshapes : List (List Nat)) (ndim : Nat) : Option (List Nat) :=
  match bcastAll (mshapes.map atLeast1), surfShape dshapes with
  | some m, some d =>
    match bcast m d with
    | some b =>
      if bcastAll mshapes = some [] ∧ bcastAll dshapes = some [] then some [ndim]
      else some (b ++ [ndim])
    | none => none
  | _, _ => none

/-- The shape logic before the repairs 5a47c74 / 5bdaf92 (kept to document sensitivity):
the curved 2-parameter detectors allocated `np.empty(param[0].shape + (3,))`, and the
`einsum` needed the same number of axes on both sides. -/
def evalShapeOld (mshapes dshapes : List (List Nat)) (ndim : Nat) (curved : Bool) :
    Option (List Nat) :=
  let ds := dshapes.map atLeast1
  let surf : Option (List Nat) :=
    if curved then
      match ds with
      | [p0] => some p0
      | [p0, p1] =>
        match bcast p0 p1 with
        | some b => if b = p0 then some p0 else none
        | none => none
      | _ => none
    else bcastAll ds
  match bcastAll (mshapes.map atLeast1), surf with
  | some m, some d =>
    if m.length ≠ d.length then none
    else
      match bcast m d with
      | some b =>
        if bcastAll mshapes = some [] ∧ bcastAll dshapes = some [] then some [ndim]
        else some (b ++ [ndim])
      | none => none
  | _, _ => none

/-- The documented shape: `broadcast(bcast_mparam, bcast_dparam).shape + (ndim,)`. -/
def docShape (mshapes dshapes : List (List Nat)) (ndim : Nat) : Option (List Nat) :=
  match bcastAll mshapes, bcastAll dshapes with
  | some m, some d => (bcast m d).map (· ++ [ndim])
  | _, _ => none

/-! ## `rotation_matrix_from_to` with ALL its branches (round 4)

The function as coded, on the RAW (not yet normalised) arguments: zero test, normalisation,
and in 3-d the collinear branch (`‖u × v‖ < 1e-10`: `axis_rotation_matrix(
perpendicular_vector(u), 0 or π)`) next to the generic one.  `tol2 = (1e-10)²`,
`(cpi, spi) = (cos π, sin π)` as evaluated by the code (floats: `(-1, 1.22e-16)`). -/

/-- `perpendicular_vector(v)` in 3-d before its normalisation: `(1,0,0)` if `v₀ = v₁ = 0`,
else `(-v₁, v₀, 0)`. -/
def perp3 [DecidableEq K] (v : V3 K) : V3 K :=
  if v.x = 0 ∧ v.y = 0 then ⟨1, 0, 0⟩ else ⟨-v.y, v.x, 0⟩

/-- `rotation_matrix_from_to(u0, v0)` for 3-vectors; `none` = raises `ValueError` (one of the
vectors is shorter than `1e-10`). -/
def rotFromToCode3 [Div K] [LT K] [DecidableLT K] [DecidableEq K] (sqrt : K → K)
    (tol2 cpi spi : K) (u0 v0 : V3 K) : Option (M3 K) :=
  if u0.normSq < tol2 ∨ v0.normSq < tol2 then none else
  let u := V3.normalize sqrt u0
  let v := V3.normalize sqrt v0
  if (V3.cross u v).normSq < tol2 then
    let n := V3.normalize sqrt (perp3 u)
    if 0 < V3.dot u v then some (axisRot n 1 0) else some (axisRot n cpi spi)
  else some (rotFromTo u v)

/-- `rotation_matrix_from_to(u0, v0)` for 2-vectors.  The code computes an angle
(`±π/2` if `⟨u,v⟩ = 0`, `π` if `v = -u`, else `arctan2(⟨u⊥,v⟩, ⟨u,v⟩)`) and returns
`[[cos, -sin], [sin, cos]]` of it; for unit vectors `(cos, sin) = (⟨u,v⟩, ⟨u⊥,v⟩)` in all
three branches, which is what `rotFromTo2` evaluates. -/
def rotFromToCode2 [Div K] [LT K] [DecidableLT K] (sqrt : K → K) (tol2 : K) (u0 v0 : V2 K) :
    Option (M2 K) :=
  if u0.normSq < tol2 ∨ v0.normSq < tol2 then none else
  some (rotFromTo2 (V2.normalize sqrt u0) (V2.normalize sqrt v0))

/-! ## `transform_system(principal_vec, principal_default, other_vecs)` without `matrix`

The matrix that the constructors apply to the default frame: the identity if the NORMALISED
given principal vector is within `atol = 1e-8` (entry-wise, `rtol = 0`) of the normalised
default ("dilation only": the SNAP, as coded since b998548), else
`rotation_matrix_from_to(default, given)`.
`none` = raises `ValueError` (exactly one of the two vectors is zero, or the given one is
shorter than `1e-10` and not snapped); two zero vectors give the identity. -/

/-- `|x|` -/
def absK [LT K] [DecidableLT K] (x : K) : K := if x < 0 then -x else x

/-- one entry of `np.allclose(a, b)`: `|a - b| ≤ atol + rtol·|b|` -/
def closeTo [LT K] [DecidableLT K] (atol rtol a b : K) : Bool :=
  !decide (atol + rtol * absK b < absK (a - b))

/-- the snap test of `transform_system` in 2-d:
`np.allclose(p/‖p‖, dflt/‖dflt‖, rtol=0, atol=atol)` -/
def tsSnaps2 [Div K] [LT K] [DecidableLT K] (sqrt : K → K) (atol : K) (dflt p : V2 K) : Bool :=
  let ph := V2.normalize sqrt p
  let dh := V2.normalize sqrt dflt
  closeTo atol 0 ph.x dh.x && closeTo atol 0 ph.y dh.y

/-- the snap test of `transform_system` in 3-d -/
def tsSnaps3 [Div K] [LT K] [DecidableLT K] (sqrt : K → K) (atol : K) (dflt p : V3 K) : Bool :=
  let ph := V3.normalize sqrt p
  let dh := V3.normalize sqrt dflt
  closeTo atol 0 ph.x dh.x && closeTo atol 0 ph.y dh.y && closeTo atol 0 ph.z dh.z

/-- `transform_system` in 2-d: the matrix applied to `other_vecs`. -/
def tsMatrix2 [Div K] [LT K] [DecidableLT K] [DecidableEq K] (sqrt : K → K) (tol2 atol : K)
    (dflt p : V2 K) : Option (M2 K) :=
  if p.normSq = 0 ∧ dflt.normSq = 0 then some M2.one else
  if p.normSq = 0 ∨ dflt.normSq = 0 then none else
  if tsSnaps2 sqrt atol dflt p then some M2.one else rotFromToCode2 sqrt tol2 dflt p

/-- `transform_system` in 3-d: the matrix applied to `other_vecs`. -/
def tsMatrix3 [Div K] [LT K] [DecidableLT K] [DecidableEq K] (sqrt : K → K)
    (tol2 atol cpi spi : K) (dflt p : V3 K) : Option (M3 K) :=
  if p.normSq = 0 ∧ dflt.normSq = 0 then some M3.one else
  if p.normSq = 0 ∨ dflt.normSq = 0 then none else
  if tsSnaps3 sqrt atol dflt p then some M3.one else rotFromToCode3 sqrt tol2 cpi spi dflt p

/-! ### the code before the repair b998548 (kept to document what the theorems are sensitive
to; not used by the driver): the RAW given vector was compared with
`‖p‖/‖dflt‖ · dflt` by `np.allclose` (`atol = 1e-8`, `rtol = 1e-5`). -/

def tsMatrix2Old [Div K] [LT K] [DecidableLT K] [DecidableEq K] (sqrt : K → K) (tol2 atol rtol : K)
    (dflt p : V2 K) : Option (M2 K) :=
  if p.normSq = 0 ∧ dflt.normSq = 0 then some M2.one else
  if p.normSq = 0 ∨ dflt.normSq = 0 then none else
  let dil := sqrt p.normSq / sqrt dflt.normSq
  if closeTo atol rtol p.x (dil * dflt.x) && closeTo atol rtol p.y (dil * dflt.y) then some M2.one
  else rotFromToCode2 sqrt tol2 dflt p

/-! ## `axis_rotation(axis, angle, vectors, axis_shift)` (round 5) -/

/-- `axis_rotation`: rotation of the point `v` about the line through `axis_shift` with
direction `a` (only the part of the shift perpendicular to `a` matters):
`sh⊥ + R·(v - sh⊥)`, `sh⊥ = sh - ⟨a, sh⟩ a`, `R = axis_rotation_matrix(a, angle)`. -/
def axisRotation (a : V3 K) (c s : K) (v sh : V3 K) : V3 K :=
  let shp := V3.sub sh (V3.smul (V3.dot a sh) a)
  V3.add shp ((axisRot a c s).mulVec (V3.sub v shp))

/-! ## `FanBeamGeometry.__init__` / `__getitem__`: the vectors kept by slicing (round 5) -/

/-- the part of the state of a `FanBeamGeometry` that `__getitem__` hands back to the constructor
or that the constructor derives: `d = src_to_det_init` (stored normalised), `axisArg =
_det_axis_init_arg`, `axis = detector.axis` (normalised by the detector), translation, radii,
`check_bounds`. -/
structure FanState (K : Type) where
  d : V2 K
  axisArg : Option (V2 K)
  axis : V2 K
  t : V2 K
  rs : K
  rd : K
  cb : Bool
  deriving Repr

/-- `FanBeamGeometry.__init__(src_to_det_init=s2d, det_axis_init=axisArg, …)`: the detector axis
that was not given is the default `(1, 0)` transformed by `transform_system(s2d, (0, 1), …)`;
`src_to_det_init` is normalised, the detector normalises its axis. `none` = raises. -/
def fanCtor [Div K] [LT K] [DecidableLT K] [DecidableEq K] (sqrt : K → K) (tol2 atol : K)
    (s2d : V2 K) (axisArg : Option (V2 K)) (t : V2 K) (rs rd : K) (cb : Bool) :
    Option (FanState K) :=
  match tsMatrix2 sqrt tol2 atol ⟨0, 1⟩ s2d with
  | none => none
  | some M =>
    let ax := match axisArg with
      | none => M.mulVec ⟨1, 0⟩
      | some a => a
    some { d := V2.normalize sqrt s2d, axisArg := axisArg, axis := V2.normalize sqrt ax,
           t := t, rs := rs, rd := rd, cb := cb }

/-- `FanBeamGeometry.__getitem__`: the constructor is called with `src_to_det_init =
self.src_to_det_init` (the stored, normalised vector), `det_axis_init = self._det_axis_init_arg`,
and the stored translation, radii and `check_bounds`. -/
def fanGetitem [Div K] [LT K] [DecidableLT K] [DecidableEq K] (sqrt : K → K) (tol2 atol : K)
    (g : FanState K) : Option (FanState K) :=
  fanCtor sqrt tol2 atol g.d g.axisArg g.t g.rs g.rd g.cb

end ops

end OdlModel.Geometry
