/-
Model of the element-level arithmetic of `odl/set/space.py` (`LinearSpaceElement.__add__`,
`__sub__`, `__rsub__`, `__mul__`, `__truediv__`, `__rtruediv__`, the in-place forms,
`__neg__`, `__pos__`, `__ipow__`, `__pow__`, `set_zero`, `assign`) on top of the space
primitives `lincomb`, `multiply`, `divide`, `one()`, `element()` — statement for statement,
with the temporaries the code allocates.  Buffers/aliasing as in `Model/Lincomb.lean`.

`lc` is the space's `_lincomb` (for tensor spaces: `lincombImpl` of `Model/Lincomb.lean`
with the extracted program).  `multiply`/`divide` are NumPy's entry-wise ufuncs with `out=`.
-/
import OdlModel.Model.Lincomb
import OdlModel.Model.CRat
namespace OdlModel.ElemOps
open OdlModel.Lincomb

section
variable {K : Type} [Add K] [Mul K] [Neg K] [Div K] [OfNat K 0] [OfNat K 1] [DecidableEq K]

/-- Type of a space's `_lincomb(a, x1, b, x2, out)`. -/
abbrev LC (K : Type) := Args → K → K → Mem K → Option (Mem K)

/-- `space.lincomb(a, x1, out=out)` : the `b is None` form calls `_lincomb(a, x1, 0, x1, out)`. -/
def lincomb1 (lc : LC K) (a : K) (x out : Nat) (m : Mem K) : Option (Mem K) :=
  lc ⟨x, x, out⟩ a 0 m

/-- `space.multiply(x1, x2, out)` = `np.multiply(x1.data, x2.data, out=out.data)`. -/
def multiply (x1 x2 out : Nat) (m : Mem K) : Mem K :=
  m.write out (fun i => m x1 i * m x2 i)

/-- `space.divide(x1, x2, out)` = `np.divide(x1.data, x2.data, out=out.data)`. -/
def divide (x1 x2 out : Nat) (m : Mem K) : Mem K :=
  m.write out (fun i => m x1 i / m x2 i)

/-- `space.one()` into the fresh buffer `t`. -/
def one (t : Nat) (m : Mem K) : Mem K := m.write t (fun _ => 1)

/-- The operators, by the branch of the Python method that is taken. `E` = other is an
element of the space, `S` = other is a scalar of the field. -/
inductive Op
  | addE | subE | mulE | divE            -- x + y, x - y, x * y, x / y   (fresh result)
  | rsubE | rdivE                        -- y - x, y / x via __rsub__/__rtruediv__ (y coerced to an element)
  | addS | subS | rsubS | mulS | divS | rdivS   -- x + c, x - c, c - x, x * c, x / c, c / x
  | iaddE | isubE | imulE | idivE        -- x += y …
  | iaddS | isubS | imulS | idivS        -- x += c …
  | neg | pos | setZero | assign
  deriving Repr, DecidableEq

/-- Execute one operator call. `x` = self, `y` = other element (if any), `c` = other scalar
(if any), `t` = the id of the buffer `element()` / `one()` / `copy()` will allocate (fresh:
different from `x` and `y`; its previous content models uninitialised memory).
Returns the new memory and the id of the returned object; `none` = the call raises
(`x / 0` with a scalar zero: `ZeroDivisionError` from `1.0 / other`).
The model starts at the branch of the Python method that the operand kind selects
(`E`: `other in self.space`, `S`: `other in self.space.field`); the preceding
`__array_priority__` / `field is None` tests and the coercion of array-likes through
`space.element(other)` are not part of it. -/
def Op.exec (lc : LC K) (op : Op) (x y t : Nat) (c : K) (m : Mem K) : Option (Mem K × Nat) :=
  match op with
  | .addE => (lc ⟨x, y, t⟩ 1 1 m).map (·, t)                 -- lincomb(1, self, 1, other, out=tmp)
  | .subE => (lc ⟨x, y, t⟩ 1 (-1) m).map (·, t)              -- lincomb(1, self, -1, other, out=tmp)
  | .mulE => some (multiply y x t m, t)                      -- multiply(other, self, out=tmp)
  | .divE => some (divide x y t m, t)                        -- divide(self, other, out=tmp)
  | .rsubE => (lc ⟨y, x, t⟩ 1 (-1) m).map (·, t)             -- lincomb(1, other, -1, self, out=tmp)
  | .rdivE => some (divide y x t m, t)                       -- divide(other, self, out=tmp)
  | .addS => (lc ⟨x, t, t⟩ 1 c (one t m)).map (·, t)         -- tmp = one(); lincomb(1, self, other, tmp, out=tmp)
  | .subS => (lc ⟨x, t, t⟩ 1 (-c) (one t m)).map (·, t)      -- lincomb(1, self, -other, tmp, out=tmp)
  | .rsubS =>                                                -- tmp = one(); lincomb(other, tmp, out=tmp);
      match lincomb1 lc c t t (one t m) with                 -- lincomb(1, tmp, -1, self, out=tmp)
      | some m1 => (lc ⟨t, x, t⟩ 1 (-1) m1).map (·, t)
      | none => none
  | .mulS => (lincomb1 lc c x t m).map (·, t)                -- lincomb(other, self, out=tmp)
  | .divS =>                                                 -- lincomb(1.0 / other, self, out=tmp)
      if c = 0 then none                                     -- `1.0 / other` raises ZeroDivisionError
      else (lincomb1 lc (1 / c) x t m).map (·, t)
  | .rdivS =>                                                -- tmp = one(); lincomb(other, tmp, out=tmp);
      match lincomb1 lc c t t (one t m) with                 -- divide(tmp, self, out=tmp)
      | some m1 => some (divide t x t m1, t)
      | none => none
  | .iaddE => (lc ⟨x, y, x⟩ 1 1 m).map (·, x)
  | .isubE => (lc ⟨x, y, x⟩ 1 (-1) m).map (·, x)
  | .imulE => some (multiply y x x m, x)
  | .idivE => some (divide x y x m, x)
  | .iaddS => (lc ⟨x, t, x⟩ 1 c (one t m)).map (·, x)        -- lincomb(1, self, other, one(), out=self)
  | .isubS => (lc ⟨x, t, x⟩ 1 (-c) (one t m)).map (·, x)
  | .imulS => (lincomb1 lc c x x m).map (·, x)
  | .idivS => if c = 0 then none else (lincomb1 lc (1 / c) x x m).map (·, x)
  | .neg => (lincomb1 lc (-1) x t m).map (·, t)              -- (-1) * self
  | .pos => (lincomb1 lc 1 x t m).map (·, t)                 -- self.copy()  (= lincomb(1, self) into a new element)
  | .setZero => (lc ⟨x, x, x⟩ 0 0 m).map (·, x)              -- lincomb(0, self, 0, self, out=self)
  | .assign => (lincomb1 lc 1 y x m).map (·, x)              -- self.assign(other) = lincomb(1, other, out=self)

/-- The entry-wise value each operator is documented to produce. -/
def Op.spec (op : Op) (c : K) (u v : K) : K :=
  match op with
  | .addE | .iaddE => u + v
  | .subE | .isubE => u + (-1) * v
  | .mulE | .imulE => v * u
  | .divE | .idivE => u / v
  | .rsubE => v + (-1) * u
  | .rdivE => v / u
  | .addS | .iaddS => u + c * 1
  | .subS | .isubS => u + (-c) * 1
  | .rsubS => c * 1 + (-1) * u
  | .mulS | .imulS => c * u
  | .divS | .idivS => (1 / c) * u
  | .rdivS => (c * 1) / u
  | .neg => (-1) * u
  | .pos => 1 * u
  | .setZero => 0
  | .assign => 1 * v

/-- An ARRAY-LIKE operand (nested list, `ndarray`): the last branch of every operator,
`other = self.space.element(other); return self.__op__(other)`. `space.element` puts the
values `v` into the buffer `t2` (fresh for a list; for an `ndarray` of matching dtype it wraps
the caller's array, which then already holds `v`), and the operator re-enters at its
`other in self.space` branch. -/
def Op.execCoerced (lc : LC K) (op : Op) (x t2 t : Nat) (v : Vec K) (m : Mem K) :
    Option (Mem K × Nat) :=
  op.exec lc x t2 t 0 (m.write t2 v)

def Op.inPlace : Op → Bool
  | .iaddE | .isubE | .imulE | .idivE | .iaddS | .isubS | .imulS | .idivS | .setZero
  | .assign => true
  | _ => false

/-- `x *= tmp` repeated: the loop `for _ in range(k): tmp *= self`. -/
def mulLoop (x t : Nat) : Nat → Mem K → Mem K
  | 0, m => m
  | k + 1, m => mulLoop x t k (multiply x t t m)   -- tmp *= self  → multiply(self, tmp, out=tmp)

/-- `self **= p` for a natural exponent, following `LinearSpaceElement.__ipow__`:
`p = 0`: assign one; `p = 1`: nothing; even: `self *= self; self **= p // 2`;
odd: `tmp = self.copy(); for _ in range(p - 2): tmp *= self; self *= tmp`. -/
def ipow (lc : LC K) (x t : Nat) (p : Nat) (m : Mem K) : Option (Mem K) :=
  if p = 0 then
    lincomb1 lc 1 t x (one t m)                       -- self.assign(self.space.one())
  else if p = 1 then
    some m
  else if p % 2 = 0 then
    ipow lc x t (p / 2) (multiply x x x m)            -- self *= self; self **= p // 2
  else
    match lincomb1 lc 1 x t m with                    -- tmp = self.copy()
    | some m1 => some (multiply t x x (mulLoop x t (p - 2) m1))   -- loop; self *= tmp
    | none => none
termination_by p
decreasing_by omega

/-- `self **= p` for an integer exponent: `p < 0`: `self **= -p;
self.space.divide(self.space.one(), self, out=self)`; otherwise the natural-exponent
recursion. (The check `int(p) != p → ValueError` precedes it and is not modelled.) -/
def ipowInt (lc : LC K) (x t : Nat) (p : Int) (m : Mem K) : Option (Mem K) :=
  if p < 0 then
    match ipow lc x t (-p).toNat m with
    | some m1 => some (divide t x x (one t m1))
    | none => none
  else ipow lc x t p.toNat m

/-- `ProductSpace._lincomb`: component by component, in order
(`for space, xp, yp, outp in zip(...): space._lincomb(a, xp, b, yp, outp)`).
Elements are given by the buffer ids of their leaf parts (nested product spaces recurse,
which flattens to leaf order); identity aliasing of two product elements means equal id
lists.  A length mismatch is `none`. -/
def plincomb (lc : LC K) : List Nat → List Nat → List Nat → K → K → Mem K → Option (Mem K)
  | x :: xs, y :: ys, o :: os, a, b, m =>
      match lc ⟨x, y, o⟩ a b m with
      | some m' => plincomb lc xs ys os a b m'
      | none => none
  | [], [], [], _, _, m => some m
  | _, _, _, _, _, _ => none

/-! ## Power-space broadcasting (`odl/space/pspace.py::_broadcast_arithmetic`), in-place forms -/

/-- One step `xi op= other` of the loop over the parts: part buffer, operand buffer, memory. -/
abbrev BStep (K : Type) := Nat → Nat → Mem K → Option (Mem K)

/-- `for xi in self: xi op= other`, in order. -/
def bcastLoop (step : BStep K) (o : Nat) : List Nat → Mem K → Option (Mem K)
  | [], m => some m
  | p :: ps, m =>
      match step p o m with
      | some m' => bcastLoop step o ps m'
      | none => none

/-- `x op= other` for an element `x` of a power space given by the buffer ids `ps` of its
parts and an `other` of the base space (buffer `o`, possibly — by identity — one of the
parts). `guard` is whether the code first replaces `other` by a copy (into the fresh buffer
`t`) in that case; it is extracted from the source (`Gen/Broadcast.lean`). -/
def bcastInPlace (lc : LC K) (step : BStep K) (guard : Bool) (ps : List Nat) (o t : Nat)
    (m : Mem K) : Option (Mem K) :=
  if guard && ps.contains o then
    match lincomb1 lc 1 o t m with            -- other = other.copy()
    | some m1 => bcastLoop step t ps m1
    | none => none
  else bcastLoop step o ps m

/-- The step taken for the in-place element operators (`getattr(xi, '__imul__')(other)`, …);
`t'` is the (unused) temporary slot of `Op.exec`. -/
def opStep (lc : LC K) (op : Op) (t' : Nat) : BStep K :=
  fun p o m => (op.exec lc p o t' 0 m).map (·.1)

/-! ## Power-space broadcasting, out-of-place forms (`x * other`, `other - x`, …) -/

/-- One step `res = getattr(xi, op)(other)` of the out-of-place loop: part buffer, operand
buffer, the buffer the result element is allocated in, memory. -/
abbrev BStepOut (K : Type) := Nat → Nat → Nat → Mem K → Option (Mem K)

/-- `results = []; for xi in self: results.append(getattr(xi, op)(other))`, in order; the
`k`-th result is allocated in the `k`-th buffer of `ts`. A length mismatch is `none`. -/
def bcastOutLoop (step : BStepOut K) (o : Nat) : List Nat → List Nat → Mem K → Option (Mem K)
  | [], [], m => some m
  | p :: ps, t :: ts, m =>
      match step p o t m with
      | some m' => bcastOutLoop step o ps ts m'
      | none => none
  | _, _, _ => none

/-- `x op other` (not in place) for an element `x` of a power space with part buffers `ps`
(the same part object may occur several times) and an `other` of the base space (buffer `o`,
possibly one of the parts); the results go to the fresh buffers `ts`, which
`space.element(results)` wraps without copying. `guardAlways` is whether the source copies
`other` (into `t0`) for out-of-place operators too when it is one of the parts (extracted:
`Gen/Broadcast.lean::copyGuardAlways`; `false` for the guard `op.startswith('__i') and …`). -/
def bcastOut (lc : LC K) (step : BStepOut K) (guardAlways : Bool) (ps ts : List Nat)
    (o t0 : Nat) (m : Mem K) : Option (Mem K) :=
  if guardAlways && ps.contains o then
    match lincomb1 lc 1 o t0 m with           -- other = other.copy()
    | some m1 => bcastOutLoop step t0 ps ts m1
    | none => none
  else bcastOutLoop step o ps ts m

/-- The step taken for the out-of-place element operators (`xi.__add__(other)`,
`xi.__rsub__(other)`, …): `Op.exec` with the result allocated in `t`. -/
def opStepOut (lc : LC K) (op : Op) : BStepOut K :=
  fun p o t m => (op.exec lc p o t 0 m).map (·.1)

/-! ## `ProductSpace._multiply` / `_divide` and the generic component loop -/

/-- `for spc, xp, yp, outp in zip(self.spaces, x1.parts, x2.parts, out.parts):
spc._<prim>(xp, yp, outp)`: the component loop shared by `ProductSpace._lincomb`,
`_multiply` and `_divide`, over leaf part buffers. A length mismatch is `none`. -/
def ploop (prim : Args → Mem K → Option (Mem K)) :
    List Nat → List Nat → List Nat → Mem K → Option (Mem K)
  | x :: xs, y :: ys, o :: os, m =>
      match prim ⟨x, y, o⟩ m with
      | some m' => ploop prim xs ys os m'
      | none => none
  | [], [], [], m => some m
  | _, _, _, _ => none

/-- `ProductSpace._multiply(x1, x2, out)` with the tensor-space leaf
`np.multiply(x1.data, x2.data, out=out.data)`. -/
def pmultiply (xs ys os : List Nat) (m : Mem K) : Option (Mem K) :=
  ploop (fun A m => some (multiply A.x1 A.x2 A.out m)) xs ys os m

/-- `ProductSpace._divide(x1, x2, out)` with the leaf `np.divide(x1.data, x2.data, out=out.data)`. -/
def pdivide (xs ys os : List Nat) (m : Mem K) : Option (Mem K) :=
  ploop (fun A m => some (divide A.x1 A.x2 A.out m)) xs ys os m

/-! ## The element operators on a (nested) product space

`ProductSpaceElement` inherits every operator of `LinearSpaceElement` (the broadcasting
wrapper falls through to `getattr(LinearSpaceElement, op)(self, other)` when `other` is not
an element of the base space), so the statements are those of `Op.exec` with the space
primitives of `ProductSpace`: `_lincomb` / `_multiply` / `_divide` loop over the components,
`element()` and `one()` allocate one fresh element per component. -/

/-- `ProductSpace.one()` into the fresh part buffers `ts`
(`self.element([space.one() for space in self.spaces])`). -/
def pone (ts : List Nat) (m : Mem K) : Mem K := ts.foldl (fun m t => one t m) m

/-- `space.lincomb(a, x, out=out)` on a product space. -/
def plincomb1 (lc : LC K) (a : K) (xs os : List Nat) (m : Mem K) : Option (Mem K) :=
  plincomb lc xs xs os a 0 m

/-- `Op.exec` for elements of a product space given by the buffer ids of their leaf parts:
`xs` = self, `ys` = other element, `ts` = the part buffers `element()` / `one()` / `copy()`
will allocate. Same statements, in the same order, as `Op.exec`. -/
def Op.execP (lc : LC K) (op : Op) (xs ys ts : List Nat) (c : K) (m : Mem K) :
    Option (Mem K × List Nat) :=
  match op with
  | .addE => (plincomb lc xs ys ts 1 1 m).map (·, ts)
  | .subE => (plincomb lc xs ys ts 1 (-1) m).map (·, ts)
  | .mulE => (pmultiply ys xs ts m).map (·, ts)
  | .divE => (pdivide xs ys ts m).map (·, ts)
  | .rsubE => (plincomb lc ys xs ts 1 (-1) m).map (·, ts)
  | .rdivE => (pdivide ys xs ts m).map (·, ts)
  | .addS => (plincomb lc xs ts ts 1 c (pone ts m)).map (·, ts)
  | .subS => (plincomb lc xs ts ts 1 (-c) (pone ts m)).map (·, ts)
  | .rsubS =>
      match plincomb1 lc c ts ts (pone ts m) with
      | some m1 => (plincomb lc ts xs ts 1 (-1) m1).map (·, ts)
      | none => none
  | .mulS => (plincomb1 lc c xs ts m).map (·, ts)
  | .divS => if c = 0 then none else (plincomb1 lc (1 / c) xs ts m).map (·, ts)
  | .rdivS =>
      match plincomb1 lc c ts ts (pone ts m) with
      | some m1 => (pdivide ts xs ts m1).map (·, ts)
      | none => none
  | .iaddE => (plincomb lc xs ys xs 1 1 m).map (·, xs)
  | .isubE => (plincomb lc xs ys xs 1 (-1) m).map (·, xs)
  | .imulE => (pmultiply ys xs xs m).map (·, xs)
  | .idivE => (pdivide xs ys xs m).map (·, xs)
  | .iaddS => (plincomb lc xs ts xs 1 c (pone ts m)).map (·, xs)
  | .isubS => (plincomb lc xs ts xs 1 (-c) (pone ts m)).map (·, xs)
  | .imulS => (plincomb1 lc c xs xs m).map (·, xs)
  | .idivS => if c = 0 then none else (plincomb1 lc (1 / c) xs xs m).map (·, xs)
  | .neg => (plincomb1 lc (-1) xs ts m).map (·, ts)
  | .pos => (plincomb1 lc 1 xs ts m).map (·, ts)
  | .setZero => (plincomb lc xs xs xs 0 0 m).map (·, xs)
  | .assign => (plincomb1 lc 1 ys xs m).map (·, xs)

/-! ## `NumpyTensor` / `DiscretizedSpaceElement` overrides: `copy`, `conj`, `real` / `imag`
setters, the exponent test of `__ipow__`

Each is one NumPy call behind a small branch on `space.is_real` / `out is None`; the model is
the branch structure plus the entry-wise map. The discretized versions delegate to the
tensor (`self.tensor.conj(out=out.tensor)`, `self.tensor.real = newreal`, …), so in terms
of buffers they are the same functions. -/

/-- `x.copy()` = `self.space.element(self.data.copy())`: NumPy copies into the fresh buffer
`t`, which the new element wraps. -/
def tcopy (x t : Nat) (m : Mem K) : Mem K × Nat := (m.write t (m x), t)

/-- `x.conj(out)` of `NumpyTensor`, branch by branch; `cj` is the scalar conjugation, `out` the
buffer of the given `out` element (`none`: not given), `t` the fresh buffer. Returns the
memory and the buffer of the returned element.
Real space: `out is None → return self`; otherwise `out[:] = self; return out`.
Complex space: `out is None → space.element(self.data.conj())`; otherwise
`self.data.conj(out.data); return out`.
(Integer dtypes: `space.is_real` is false, so the second pair of branches runs, but
`ndarray.conj()` of a non-complex array is the array itself: the returned element wraps the
buffer of `self`, and `conj(out.data)` copies. In terms of buffers this is the `isReal`
case, and the harness sends it as such.) -/
def tconj (cj : K → K) (isReal : Bool) (x : Nat) (out : Option Nat) (t : Nat) (m : Mem K) :
    Mem K × Nat :=
  if isReal then
    match out with
    | none => (m, x)
    | some o => (m.write o (m x), o)
  else
    match out with
    | none => (m.write t (fun i => cj (m x i)), t)
    | some o => (m.write o (fun i => cj (m x i)), o)

/-- `x.real = newreal` : `self.real.data[:] = newreal`. On a real space `self.real is self`;
on a complex space `self.real` wraps the VIEW `self.data.real`, so the write reaches the real
parts of `x` and leaves the imaginary parts. `v` = the (real) values assigned, as read before
the write (NumPy buffers overlapping operands, e.g. `x.real = x.imag`). -/
def setReal (isReal : Bool) (x : Nat) (v : Vec CRat) (m : Mem CRat) : Mem CRat :=
  if isReal then m.write x (fun i => ⟨(v i).re, 0⟩)
  else m.write x (fun i => ⟨(v i).re, (m x i).im⟩)

/-- `x.imag = newimag` : real space → `ValueError` (`none`); complex →
`self.imag.data[:] = newimag` through the view `self.data.imag`. -/
def setImag (isReal : Bool) (x : Nat) (v : Vec CRat) (m : Mem CRat) : Option (Mem CRat) :=
  if isReal then none
  else some (m.write x (fun i => ⟨(m x i).re, (v i).re⟩))

/-- Where `x **= p` goes for a rational exponent. `LinearSpaceElement.__ipow__`:
`int(p) != p → ValueError`. `NumpyTensor.__ipow__`: `other == int(other)` → the generic
recursion, otherwise `np.power(self.data, other, out=self.data)` (outside exact arithmetic).
`DiscretizedSpaceElement.__ipow__` calls the tensor's. -/
inductive IpowRoute
  | generic (p : Int)     -- LinearSpaceElement.__ipow__ with the integer value of p
  | npPower               -- np.power with a non-integer exponent
  | raises                -- ValueError('expected integer `p`')
  deriving Repr, DecidableEq

def ipowRoute (tensorOverride : Bool) (p : Rat) : IpowRoute :=
  if p.den = 1 then .generic p.num
  else if tensorOverride then .npPower else .raises

/-! ## The tests in front of the operators (`LinearSpaceElement.__add__` … `__itruediv__`)

Before any arithmetic every operator method classifies `other`: delegate to an operand with a
higher `__array_priority__`, refuse when the space has no field, take the element or the scalar
branch, refuse foreign elements (`NotImplemented`, in place `TypeError`), otherwise try to
coerce an array-like through `space.element`. The chains themselves are EXTRACTED
(`Gen/OpFront.lean`); here are their language, their evaluation and the specification. -/

inductive Meth
  | add | radd | sub | rsub | mul | rmul | truediv | rtruediv | iadd | isub | imul | itruediv
  deriving Repr, DecidableEq

inductive OTest | prio | noField | inSpace | isElem | inField | noOne
  deriving Repr, DecidableEq

/-- Where the call ends up: another object's method, `NotImplemented`, `TypeError`, or one of
the branches that call `space.lincomb / multiply / divide` (modelled by `Op.exec`). -/
inductive ORoute
  | delegate (m : Meth) | notimpl | typeerror | write
  deriving Repr, DecidableEq

inductive OStmt
  | ret (r : ORoute)
  | ite (t : OTest) (a b : OStmt)
  | coerce (fail ok : OStmt)   -- try: other = self.space.element(other) / except: fail / else: ok
  | reenter (m : Meth)         -- return self.__m__(other)
  deriving Repr

/-- What the tests see: of `other` (`prio`: its `__array_priority__` exceeds the element's;
`isElem`: it is a `LinearSpaceElement`; `coercible`: `space.element(other)` succeeds) and of
the space (`noField`: `field is None`; `noOne`: it has no `one`). -/
structure OFacts where
  prio : Bool
  noField : Bool
  inSpace : Bool
  isElem : Bool
  inField : Bool
  noOne : Bool
  coercible : Bool
  deriving Repr, DecidableEq

def OTest.eval (f : OFacts) : OTest → Bool
  | .prio => f.prio | .noField => f.noField | .inSpace => f.inSpace | .isElem => f.isElem
  | .inField => f.inField | .noOne => f.noOne

/-- Evaluate a chain (fuel counts statements; `none` = fuel exhausted). After a successful
coercion `other` IS an element of the space. -/
def OStmt.eval (tbl : Meth → OStmt) : Nat → OFacts → OStmt → Option ORoute
  | 0, _, _ => none
  | _ + 1, _, .ret r => some r
  | n + 1, f, .ite t a b => if t.eval f then OStmt.eval tbl n f a else OStmt.eval tbl n f b
  | n + 1, f, .coerce fail ok =>
      if f.coercible then
        OStmt.eval tbl n { f with prio := false, inSpace := true, isElem := true,
                                  inField := false, coercible := false } ok
      else OStmt.eval tbl n f fail
  | n + 1, f, .reenter m => OStmt.eval tbl n f (tbl m)

def Meth.inPlace : Meth → Bool
  | .iadd | .isub | .imul | .itruediv => true
  | _ => false

/-- The scalar branch of these methods broadcasts through `space.one()`. -/
def Meth.needsOne : Meth → Bool
  | .add | .radd | .sub | .rsub | .rtruediv | .iadd | .isub => true
  | _ => false

/-- The method of a higher-priority operand that gets the call. -/
def Meth.delegateTo : Meth → Option Meth
  | .add => some .radd | .radd => some .add | .sub => some .rsub | .rsub => some .sub
  | .mul => some .rmul | .rmul => some .mul | .truediv => some .rtruediv
  | .rtruediv => some .truediv
  | _ => none

/-- Specification of the front of every operator: what must happen for each kind of operand. -/
def opFront (m : Meth) (f : OFacts) : ORoute :=
  let refuse : ORoute := if m.inPlace then .typeerror else .notimpl
  match (if f.prio then m.delegateTo else none) with
  | some d => .delegate d
  | none =>
    if f.noField then .notimpl
    else if f.inSpace then .write
    else if f.isElem then refuse
    else if f.inField then (if m.needsOne && f.noOne then refuse else .write)
    else if f.coercible then .write
    else refuse

/-! ## `LinearSpace.lincomb` argument checks (front end), in source order -/

inductive FrontOutcome
  | errOut        -- LinearSpaceTypeError: `out` not in the space
  | errA          -- LinearSpaceTypeError: `a` not in the field
  | errX1         -- LinearSpaceTypeError: `x1` not in the space
  | errX2NoB      -- ValueError: `x2` provided but not `b`
  | errB          -- LinearSpaceTypeError: `b` not in the field
  | errX2         -- LinearSpaceTypeError: `x2` not in the space
  | callOne       -- self._lincomb(a, x1, 0, x1, out)
  | callTwo       -- self._lincomb(a, x1, b, x2, out)
  deriving Repr, DecidableEq

/-- The `if` chain of `LinearSpace.lincomb(a, x1, b=None, x2=None, out=None)` as written:
`out` (when given) first, then `a`, `x1`, then the one-element form, then `b`, `x2`.
`hasField = false` models `space.field is None` (the scalar membership tests are skipped). -/
def lincombFront (hasField outGiven outIn aIn x1In bGiven x2Given bIn x2In : Bool) : FrontOutcome :=
  if outGiven && !outIn then .errOut
  else if hasField && !aIn then .errA
  else if !x1In then .errX1
  else if !bGiven then
    if x2Given then .errX2NoB else .callOne
  else if hasField && !bIn then .errB
  else if !x2In then .errX2
  else .callTwo

def FrontOutcome.isError : FrontOutcome → Bool
  | .callOne | .callTwo => false
  | _ => true

/-! ### The same checks as a program, for the translator (`Gen/LincombFront.lean`) -/

/-- What the argument checks look at. -/
structure FrontEnv where
  hasField : Bool
  outGiven : Bool
  outIn : Bool
  aIn : Bool
  x1In : Bool
  bGiven : Bool
  x2Given : Bool
  bIn : Bool
  x2In : Bool

inductive FCond
  | hasField | outGiven | outIn | aIn | x1In | bGiven | x2Given | bIn | x2In
  | not (c : FCond) | and (c d : FCond) | or (c d : FCond)

def FCond.eval (e : FrontEnv) : FCond → Bool
  | .hasField => e.hasField | .outGiven => e.outGiven | .outIn => e.outIn | .aIn => e.aIn
  | .x1In => e.x1In | .bGiven => e.bGiven | .x2Given => e.x2Given | .bIn => e.bIn
  | .x2In => e.x2In
  | .not c => !(c.eval e) | .and c d => c.eval e && d.eval e | .or c d => c.eval e || d.eval e

inductive FStmt
  | skip | seq (s t : FStmt) | ite (c : FCond) (t e : FStmt)
  | raise (o : FrontOutcome) | allocOut | callOne | callTwo | ret

/-- First decisive event of the program: a raise or one of the two `_lincomb` calls
(`none`: the program ends without either). -/
def FStmt.eval (e : FrontEnv) : FStmt → Option FrontOutcome
  | .skip => none
  | .seq s t => match s.eval e with | some o => some o | none => t.eval e
  | .ite c t f => if c.eval e then t.eval e else f.eval e
  | .raise o => some o
  | .allocOut => none
  | .callOne => some .callOne
  | .callTwo => some .callTwo
  | .ret => none

end
end OdlModel.ElemOps
