/-
The reference the property C16 names, as executable definitions (run by the driver and compared
with the real `np.pad`): NumPy's padding per mode on one axis (`npPad`; the index formulas are
in `Model/Resize.lean`), the one-axis forward reference (`ref1d`) and its composition along the
axes (`refAxes`).
-/
import OdlModel.Model.Resize

namespace OdlModel.Resize
variable {K : Type} [Add K] [Sub K] [Mul K] [IntCast K]

/-- NumPy's padding (`constant`, `wrap`, `reflect`, `edge`) and, for `order1`, linear
extrapolation. -/
def npPad (mode : Mode) (n off : Nat) (c : K) (x : Nat → K) : Nat → K :=
  match mode with
  | .constant => npConstant n off c x
  | .periodic => npWrap n off x
  | .symmetric => npReflect n off x
  | .order0 => npEdge n off x
  | .order1 => linExtrap n off x

/-- Reference for one axis, forward direction: NumPy's padding (linear extrapolation for order1)
on a growing axis, `x[off : off + m]` on a shrinking axis, `x` on an axis of unchanged length. -/
def ref1d (mode : Mode) (n m off : Nat) (c : K) (x : Nat → K) : Nat → K :=
  if n < m then npPad mode n off c x else if m < n then fun i => x (off + i) else x

/-- The reference applied axis by axis (as `np.pad` does). -/
def refAxes (mode : Mode) (c : K) :
    Nat → List Nat → List Nat → List Nat → (List Nat → K) → (List Nat → K)
  | ax, n :: sIn, m :: sOut, off :: offs, A =>
    refAxes mode c (ax + 1) sIn sOut offs (alongAxis ax (ref1d mode n m off c) A)
  | _, _, _, _, A => A

end OdlModel.Resize
