/-
Model of the interpolation and sampling code of `odl/discr/discr_utils.py` (C15).

Interpolation (`_Interpolator._find_indices`, `_NearestInterpolator._evaluate`,
`_compute_nearest_weights_edge`, `_compute_linear_weights_edge`,
`_PerAxisInterpolator._evaluate`, `_check_interp_input`):

* a coordinate vector is `n : Nat` and `c : Nat → K` (read through `getD` in the driver);
* the value array is `v : List Nat → V` (multi-index ↦ value); `V` only needs `+`, `0` and a
  scalar action of `K` (real weights on real / complex values), and nothing at all for the
  pure index rule of `_NearestInterpolator` (integer, string values);
* Python's index `-1` (last node) is written `n - 1`;
* `np.searchsorted(c, p)` (side `'left'`, ascending `c`) is the number of nodes `< p`.

The model follows the code as it is: the order of the `2^d` corner loop, the weight built
up from `1` by left multiplication, the low/high out-of-range cases of the edge helpers.

Sampling (`sampling_function`, `_make_dual_use_func`, `point_collocation`): see
`Model/Sampling.lean`.
-/
namespace OdlModel.Interp

inductive Scheme | nearest | linear
  deriving Repr, DecidableEq

/-- Per-axis result of `_compute_*_weights_edge` at one evaluation point: the weights of the
low / high neighbour and the node indices they refer to. -/
structure Edge (K : Type) where
  wlo : K
  whi : K
  elo : Nat
  ehi : Nat
  deriving Repr

section Scalar
variable {K : Type} [Add K] [Sub K] [Mul K] [Div K] [OfNat K 0] [OfNat K 1] [OfNat K 2]
  [LT K] [DecidableLT K]

/-- `np.searchsorted(c[:n], p)` with the default `side='left'`: number of nodes `< p`. -/
def searchLeft (c : Nat → K) (p : K) : Nat → Nat
  | 0 => 0
  | n + 1 => searchLeft c p n + (if c n < p then 1 else 0)

/-- `_find_indices`: `idcs = searchsorted - 1`, then `idcs[idcs < 0] = 0`,
`idcs[idcs > n - 2] = n - 2` (truncated subtraction in `Nat` is the lower clip). -/
def findIndex (c : Nat → K) (n : Nat) (p : K) : Nat :=
  min (searchLeft c p n - 1) (n - 2)

/-- `_find_indices`: `(xi - cvec[idcs]) / (cvec[idcs + 1] - cvec[idcs])`. -/
def normDist (c : Nat → K) (i : Nat) (p : K) : K :=
  (p - c i) / (c (i + 1) - c i)

/-- `_NearestInterpolator._evaluate`, one axis: `np.where(yi < .5, i, i + 1)`. -/
def nearestIndex (c : Nat → K) (n : Nat) (p : K) : Nat :=
  let i := findIndex c n p
  if normDist c i p < 1 / 2 then i else i + 1

/-- `_compute_linear_weights_edge` for one point (`lo = ndist < 0`, `hi = ndist > 1`):
`w_lo = 1 - nd; w_lo[lo] = 0; w_lo[hi] += 1`, `w_hi = nd; w_hi[lo] += 1; w_hi[hi] = 0`,
`edge = [i, i + 1]; edge[0][hi] = -1; edge[1][lo] = 0`. -/
def linearEdge (n i : Nat) (nd : K) : Edge K :=
  if nd < 0 then ⟨0, nd + 1, i, 0⟩
  else if 1 < nd then ⟨(1 - nd) + 1, 0, n - 1, i + 1⟩
  else ⟨1 - nd, nd, i, i + 1⟩

/-- `_compute_nearest_weights_edge` for one point:
`w_lo = where(nd < .5, 1, 0); w_lo[lo] = 0; w_lo[hi] = 1`,
`w_hi = where(nd < .5, 0, 1); w_hi[lo] = 1; w_hi[hi] = 0`, same edge indices. -/
def nearestEdge (n i : Nat) (nd : K) : Edge K :=
  if nd < 0 then ⟨0, 1, i, 0⟩
  else if 1 < nd then ⟨1, 0, n - 1, i + 1⟩
  else if nd < 1 / 2 then ⟨1, 0, i, i + 1⟩
  else ⟨0, 1, i, i + 1⟩

/-! ### Edge programs (the data-shaped part, regenerated from the source on every run)

`_compute_linear_weights_edge`, `_compute_nearest_weights_edge`, the index rule of
`_NearestInterpolator._evaluate` and the clipping in `_find_indices` are straight-line
sequences of masked array assignments.  `tools/extract/interp.py` translates them into the
statement lists of `Gen/InterpEdges.lean`; `runEdge` executes such a list for one point.
`Lemmas/Interp.lean` proves that the generated programs compute `linearEdge`, `nearestEdge`,
`nearestIndex`, `findIndex` above, so every theorem is re-checked against what the source
says. -/

inductive Cmp | lt | le | gt | ge
  deriving Repr, DecidableEq

/-- A boolean mask `ndist <cmp> c`. -/
structure Mask (K : Type) where
  cmp : Cmp
  c : K

inductive WExpr (K : Type)
  | oneMinus                           -- `1 - ndist`
  | ident                              -- `ndist` / `np.copy(ndist)`
  | whereC (m : Mask K) (a b : K)      -- `np.where(ndist <cmp> c, a, b)`

inductive Tgt | wlo | whi
  deriving Repr, DecidableEq

inductive EStmt (K : Type)
  | initW (t : Tgt) (e : WExpr K)              -- `w = <expr>`
  | setW (t : Tgt) (m : Mask K) (c : K)        -- `w[mask] = c`
  | addW (t : Tgt) (m : Mask K) (c : K)        -- `w[mask] += c`
  | initEdge                                   -- `edge = [idcs, idcs + 1]`
  | setEdge (hi : Bool) (m : Mask K) (v : Int) -- `edge[0|1][mask] = v` (negative: from the end)

def Mask.eval (m : Mask K) (nd : K) : Bool :=
  match m.cmp with
  | .lt => decide (nd < m.c)
  | .gt => decide (m.c < nd)
  | .le => !decide (m.c < nd)
  | .ge => !decide (nd < m.c)

def WExpr.eval (nd : K) : WExpr K → K
  | .oneMinus => 1 - nd
  | .ident => nd
  | .whereC m a b => if m.eval nd then a else b

/-- Python index `v` into an axis of `n` nodes. -/
def pyIndex (n : Nat) (v : Int) : Nat := if v < 0 then n - v.natAbs else v.toNat

def EStmt.exec (n i : Nat) (nd : K) (s : Edge K) : EStmt K → Edge K
  | .initW .wlo e => { s with wlo := e.eval nd }
  | .initW .whi e => { s with whi := e.eval nd }
  | .setW .wlo m c => if m.eval nd then { s with wlo := c } else s
  | .setW .whi m c => if m.eval nd then { s with whi := c } else s
  | .addW .wlo m c => if m.eval nd then { s with wlo := s.wlo + c } else s
  | .addW .whi m c => if m.eval nd then { s with whi := s.whi + c } else s
  | .initEdge => { s with elo := i, ehi := i + 1 }
  | .setEdge false m v => if m.eval nd then { s with elo := pyIndex n v } else s
  | .setEdge true m v => if m.eval nd then { s with ehi := pyIndex n v } else s

/-- Execute an edge program for one point with cell index `i` and normalised distance `nd`. -/
def runEdge (prog : List (EStmt K)) (n i : Nat) (nd : K) : Edge K :=
  prog.foldl (fun s st => st.exec n i nd s) ⟨0, 0, 0, 0⟩

/-- `_find_indices` with the extracted constants: `idcs = searchsorted(side) - off`,
`idcs[idcs < lowB] = lowV`, `idcs[idcs > n - hiB] = n - hiV`. -/
def findIndexWith (off lowB lowV hiB hiV : Int) (c : Nat → K) (n : Nat) (p : K) : Nat :=
  let k : Int := (searchLeft c p n : Int) - off
  let k := if k < lowB then lowV else k
  let k := if k > (n : Int) - hiB then (n : Int) - hiV else k
  k.toNat

/-- `np.where(yi <cmp> c, i + a, i + b)` of `_NearestInterpolator._evaluate`. -/
def nearestPickWith (m : Mask K) (a b : Nat) (i : Nat) (nd : K) : Nat :=
  if m.eval nd then i + a else i + b

/-- One grid axis: node count, coordinate vector, interpolation scheme. -/
structure Axis (K : Type) where
  n : Nat
  c : Nat → K
  scheme : Scheme

/-- `_find_indices` + `_create_weight_edge_lists` for one axis and one coordinate. -/
def Axis.edge (a : Axis K) (p : K) : Edge K :=
  let i := findIndex a.c a.n p
  let nd := normDist a.c i p
  match a.scheme with
  | .nearest => nearestEdge a.n i nd
  | .linear => linearEdge a.n i nd

/-- `_NearestInterpolator` at one point: index rule per axis, no arithmetic on the values. -/
def nearestInterp {V : Type} (axes : List (Axis K)) (v : List Nat → V) (p : List K) : V :=
  v (List.zipWith (fun a x => nearestIndex a.c a.n x) axes p)

variable {V : Type} [Add V] [OfNat V 0] [SMul K V]

/-- The `2^d` terms of the corner loop of `_PerAxisInterpolator._evaluate`, in the order of
`itertools.product(['l','h'], …)` (first axis slowest), each with its weight
`((1 * w_0) * w_1) * …` and the value at the corner `values[edge]`. -/
def cornerTerms : List (Edge K) → K → (List Nat → V) → List (K × V)
  | [], w, v => [(w, v [])]
  | e :: es, w, v =>
      cornerTerms es (w * e.wlo) (fun idx => v (e.elo :: idx)) ++
      cornerTerms es (w * e.whi) (fun idx => v (e.ehi :: idx))

/-- `out = zeros; for corner: out += values[edge] * weight`. -/
def perAxisEval (es : List (Edge K)) (v : List Nat → V) : V :=
  (cornerTerms es 1 v).foldl (fun acc t => acc + t.1 • t.2) 0

/-- `_PerAxisInterpolator` (hence `linear_interpolator`, `per_axis_interpolator`,
`Resampling`, `linear_deform`) at one point. -/
def perAxisInterp (axes : List (Axis K)) (v : List Nat → V) (p : List K) : V :=
  perAxisEval (List.zipWith Axis.edge axes p) v

/-- `per_axis_interpolator`: is every axis set to `'nearest'`? -/
def allNearest (axes : List (Axis K)) : Bool := axes.all (fun a => a.scheme == .nearest)

/-- `per_axis_interpolator` at one point: with every axis set to `'nearest'` the call is
served by `_NearestInterpolator` (no arithmetic on the values, so integer and string data
work), otherwise by `_PerAxisInterpolator`. -/
def perAxisInterpolator (axes : List (Axis K)) (v : List Nat → V) (p : List K) : V :=
  if allNearest axes then nearestInterp axes v p
  else perAxisInterp axes v p

/-! ### Calling conventions (`_check_interp_input`, `_Interpolator.__call__`)

The per-axis stage (`_find_indices`, weights) is vectorised over each coordinate row; what
differs between the conventions is how the per-axis results are combined. -/

/-- Columns of a `d × N` matrix given by its rows (`x.reshape([ndim, -1])`: column `k` is
the `k`-th point). -/
def columns {α : Type} : List (List α) → List (List α)
  | [] => []
  | [r] => r.map (fun x => [x])
  | r :: rs => List.zipWith (fun x col => x :: col) r (columns rs)

/-- All combinations in C order (first axis slowest): the points of a mesh grid. -/
def cartesian {α : Type} : List (List α) → List (List α)
  | [] => [[]]
  | l :: ls => l.flatMap (fun x => (cartesian ls).map (fun t => x :: t))

/-- Point-array input of shape `(d, N)`: the index arrays of the `d` axes have length `N`
and are combined position-wise by NumPy's advanced indexing. -/
def perAxisArray (axes : List (Axis K)) (v : List Nat → V) (rows : List (List K)) : List V :=
  (columns (List.zipWith (fun a row => row.map a.edge) axes rows)).map (fun es => perAxisEval es v)

/-- Mesh-grid input: the index array of axis `j` has shape `(1,…,N_j,…,1)` and the arrays
are combined by broadcasting, i.e. over the cartesian product (C order when flattened). -/
def perAxisMesh (axes : List (Axis K)) (v : List Nat → V) (vecs : List (List K)) : List V :=
  (cartesian (List.zipWith (fun a vec => vec.map a.edge) axes vecs)).map (fun es => perAxisEval es v)

def nearestArray {V : Type} (axes : List (Axis K)) (v : List Nat → V) (rows : List (List K)) :
    List V :=
  (columns (List.zipWith (fun a row => row.map (nearestIndex a.c a.n)) axes rows)).map v

def nearestMesh {V : Type} (axes : List (Axis K)) (v : List Nat → V) (vecs : List (List K)) :
    List V :=
  (cartesian (List.zipWith (fun a vec => vec.map (nearestIndex a.c a.n)) axes vecs)).map v

end Scalar

/-! ### `Resampling` and `linear_deform` end to end (round 4)

Where the evaluation points come from: the nodes of a uniform grid as `uniform_discr` /
`uniform_partition` compute them (`uniform_grid_fromintv` + `np.linspace`), the mesh of the
range grid (`Resampling._call`) and the displaced grid points `x + v(x)` (`linear_deform`). -/

section Grid
variable {K : Type} [Add K] [Sub K] [Mul K] [Div K] [NatCast K] [OfNat K 0] [OfNat K 1]
  [OfNat K 2] [LT K] [DecidableLT K]

/-- One axis of `uniform_grid_fromintv(intv, n)` with `nodes_on_bdry=False` (the default of
`uniform_discr` / `uniform_partition`): `gmin = a + (b - a) / (2 * n)`,
`gmax = b - (b - a) / (2 * n)`, then `np.linspace(gmin, gmax, n)`:
`step = (gmax - gmin) / (n - 1)`, `y = arange(n) * step + gmin`, and `y[-1] = gmax` when
`n > 1`.  (For `n = 1` NumPy returns `[gmin]`; here `x / 0 = 0` gives the same.) -/
def uniformNode (lo hi : K) (n i : Nat) : K :=
  let gmin := lo + (hi - lo) / (2 * (n : K))
  let gmax := hi - (hi - lo) / (2 * (n : K))
  if i + 1 = n ∧ 1 < n then gmax
  else (i : K) * ((gmax - gmin) / ((n : K) - 1)) + gmin

/-- All four `nodes_on_bdry` branches of `uniform_grid_fromintv` (per axis `(bdry_l, bdry_r)`,
as `uniform_discr(..., nodes_on_bdry=...)` passes them) followed by the same `np.linspace`:
a boundary node sits on the interval end, otherwise half a stride inside;
`gmin = a + (b - a) / (2 * n - 1)` / `gmax = b - (b - a) / (2 * n - 1)` when exactly the other
end carries a node. -/
def uniformNodeBdry (bl br : Bool) (lo hi : K) (n i : Nat) : K :=
  let gmin := if bl then lo else if br then lo + (hi - lo) / (2 * (n : K) - 1)
    else lo + (hi - lo) / (2 * (n : K))
  let gmax := if br then hi else if bl then hi - (hi - lo) / (2 * (n : K) - 1)
    else hi - (hi - lo) / (2 * (n : K))
  if i + 1 = n ∧ 1 < n then gmax
  else (i : K) * ((gmax - gmin) / ((n : K) - 1)) + gmin

/-- An axis of `uniform_discr(lo, hi, n, nodes_on_bdry=(bl, br))`. -/
def uniformAxisBdry (bl br : Bool) (lo hi : K) (n : Nat) (s : Scheme) : Axis K :=
  ⟨n, uniformNodeBdry bl br lo hi n, s⟩

/-- An axis of a uniformly discretised interval `[lo, hi]` with `n` cells. -/
def uniformAxis (lo hi : K) (n : Nat) (s : Scheme) : Axis K := ⟨n, uniformNode lo hi n, s⟩

/-- `grid.coord_vectors[j]` as a list. -/
def Axis.nodes {K : Type} (a : Axis K) : List K := (List.range a.n).map a.c

/-- `space.points()` (C order): one row per grid point. -/
def gridPoints {K : Type} (axes : List (Axis K)) : List (List K) := cartesian (axes.map Axis.nodes)

variable {V : Type} [Add V] [OfNat V 0] [SMul K V]

/-- `per_axis_interpolator(...)` called with a mesh grid (dispatch as in `perAxisInterpolator`). -/
def perAxisInterpolatorMesh (axes : List (Axis K)) (v : List Nat → V) (vecs : List (List K)) :
    List V :=
  if allNearest axes then nearestMesh axes v vecs else perAxisMesh axes v vecs

/-- `Resampling(domain, range, interp)._call(x)`:
`point_collocation(per_axis_interpolator(x, domain.grid.coord_vectors, interp), range.meshgrid)`
— the interpolant of the domain data evaluated on the mesh of the RANGE grid, flat in C order.
`dom` carries the coordinate vectors and schemes of the domain, of `ran` only the nodes are
used. -/
def resampling (dom ran : List (Axis K)) (v : List Nat → V) : List V :=
  perAxisInterpolatorMesh dom v (ran.map Axis.nodes)

/-- The points at which `linear_deform` evaluates the template: `points = space.points()`,
`points[:, i] += displacement[i].ravel()` — grid point `k` moved by the `k`-th column of the
`d × N` displacement matrix (one row per component, each flat in C order). -/
def deformedPoints (axes : List (Axis K)) (disp : List (List K)) : List (List K) :=
  List.zipWith (List.zipWith (· + ·)) (gridPoints axes) (columns disp)

/-- `points.T` for an `N × d` point list: row `j` holds coordinate `j` of every point. -/
def transposePts {K : Type} [OfNat K 0] : Nat → List (List K) → List (List K)
  | 0, _ => []
  | d + 1, pts => pts.map (fun p => p.headD 0) :: transposePts d (pts.map List.tail)

/-- `per_axis_interpolator(...)` called with a `(d, N)` point array (dispatch as in
`perAxisInterpolator`). -/
def perAxisInterpolatorArray (axes : List (Axis K)) (v : List Nat → V) (rows : List (List K)) :
    List V :=
  if allNearest axes then nearestArray axes v rows else perAxisArray axes v rows

/-- `linear_deform(template, displacement, interp)` flat in C order:
`per_axis_interpolator(template, coord_vectors, interp)(points.T)` with the displaced points —
the `(d, N)` point-array convention of the interpolator on the transposed point list (the
final `reshape(space.shape)` does not change the flat C order). -/
def linearDeform (axes : List (Axis K)) (v : List Nat → V) (disp : List (List K)) : List V :=
  perAxisInterpolatorArray axes v (transposePts axes.length (deformedPoints axes disp))

end Grid

/-- `_check_interp_input` for array-like (non-mesh) input of the given shape on a grid with `d`
axes: `none` = `ValueError` ("bad input"), `some (isScalar, N)` = accepted as `N` points, the
result being a Python scalar iff `isScalar`.  (1d: a scalar, `(n,)` or `(1, n)`; otherwise a
single point `(d,)` or a point array `(d, n)`.) -/
def classifyArrayInput (d : Nat) (shape : List Nat) : Option (Bool × Nat) :=
  if d = 1 then
    match shape with
    | [] => some (true, 1)
    | [n] => some (false, n)
    | [m, n] => if m = 1 then some (false, n) else none
    | _ => none
  else
    match shape with
    | [m] => if m = d then some (true, 1) else none
    | [m, n] => if m = d then some (false, n) else none
    | _ => none

/-! ### Value dtypes (`_Interpolator._find_indices`)

Before the node search the evaluation points are cast to the dtype of the VALUES when that
dtype is numeric and NumPy considers the cast safe
(`xi.astype(self.values.dtype, casting='safe')`), otherwise to `float` (with a warning).  For
real points the cast is the identity.  The table records, per value-dtype class, whether the
cast of `float64` points is performed and what the subsequent arithmetic on the points
(`xi - cvec[idcs]`) does. -/

inductive VKind
  | float64 | float32 | complex128 | complex64 | int
  | strNarrow   -- string dtype of fewer than 32 characters
  | strWide     -- string dtype of 32 or more characters
  | object
  deriving Repr, DecidableEq

inductive CallOutcome | ok | typeError
  deriving Repr, DecidableEq

/-- `np.can_cast(float64, values.dtype, 'safe')`. -/
def castSafe : VKind → Bool
  | .float64 | .complex128 | .object | .strWide => true
  | .float32 | .complex64 | .int | .strNarrow => false

/-- `np.issubdtype(values.dtype, np.number)`. -/
def isNumeric : VKind → Bool
  | .float64 | .float32 | .complex128 | .complex64 | .int => true
  | .strNarrow | .strWide | .object => false

/-- Arithmetic with coordinates is defined on points of this dtype class. -/
def arithmeticOk : VKind → Bool
  | .strNarrow | .strWide => false
  | _ => true

inductive CastRule | safe | sameKind
  deriving Repr, DecidableEq

/-- `np.can_cast(float64, values.dtype, 'same_kind')`. -/
def castSameKind : VKind → Bool
  | .int => false
  | _ => true

/-- `np.can_cast(float64, values.dtype, rule)`. -/
def canCast : CastRule → VKind → Bool
  | .safe, vk => castSafe vk
  | .sameKind, vk => castSameKind vk

/-- A `float64` coordinate survives the cast to this dtype class unchanged. -/
def castLossless : VKind → Bool
  | .float64 | .complex128 | .object => true
  | _ => false

/-- Do the points take the value dtype (no fallback to `float`, no warning)?  `guard`: the cast
is only attempted for numeric value dtypes; `rule`: the `casting=` argument.  Both are
extracted from the source (`Gen/InterpEdges.lean`). -/
def pointsTakeValueDtype (guard : Bool) (rule : CastRule) (vk : VKind) : Bool :=
  (!guard || isNumeric vk) && canCast rule vk

/-- Outcome of `_find_indices` on `float64` points. -/
def findIndicesOutcome (guard : Bool) (rule : CastRule) (vk : VKind) : CallOutcome :=
  if pointsTakeValueDtype guard rule vk && !arithmeticOk vk then .typeError else .ok

end OdlModel.Interp
