/-
Wire format of functional expressions for the C08/C09 drivers (not part of any theorem).

A functional is a `|`-separated PREFIX token list, e.g. `lscal|3/2|trans|1,2,3|l2sq`:
  l1 | indlinf | huber|γ | l2sq | const|c | indzero|c | lin|b|c
  quad|M|Mt|Minv|hasB|b|c   (matrices `r11,r12;r21,r22`; Mt = matrix of the live `operator.adjoint`;
                             Minv = matrix of `operator.inverse`, the driver CHECKS M·Minv = I;
                             Minv = `-` (unknown) is accepted only by drivers that never conjugate)
  lscal|s|F  rscal|s|F  rvec|v|F  sum|F|G  ssum|c|F  trans|t|F  qp|a|hasU|u|c|F
  prod|F|G  quot|F|G  breg|p|q|F  infconv|F|G
  compmat|M|Mt|F (MatrixOperator; Mt = matrix of the live `op.adjoint`)
  compscale|s|F (ScalingOperator)   compmul|v|F (MultiplyOperator)
  comppow|p|F   (PowerOperator x^p, derivative(x).adjoint(y) = p x^(p-1) * y)
  menv|σ|F      (MoreauEnvelope; F ∈ {l1, l2sq}: prox = C07's coded `softCode` / `l2sqCode`)
-/
import OdlModel.Common
import OdlModel.Model.Functionals
import OdlModel.Model.Prox
namespace OdlModel.Functionals
open OdlModel

abbrev QFn := Fn (List Rat) Rat

def transposeN (n : Nat) (M : List (List Rat)) : List (List Rat) :=
  (List.range n).map fun j => M.map fun row => row.getD j 0

def isIdentity (M : List (List Rat)) : Bool :=
  (List.range M.length).all fun i =>
    match M[i]? with
    | none => false
    | some row => row.length == M.length &&
        (List.range row.length).all fun j => row.getD j 0 == (if i = j then 1 else 0)

def matMul (A B : List (List Rat)) : List (List Rat) :=
  let Bt := transposeN (B.headD []).length B
  A.map fun row => Bt.map fun col => (List.zipWith (· * ·) row col).foldr (· + ·) 0

def powN (x : Rat) : Nat → Rat
  | 0 => 1
  | n + 1 => x * powN x n

def softThr (σ x : Rat) : Rat := if x > σ then x - σ else if x < -σ then x + σ else 0

/-- Parse one expression from the token list; returns the rest. `n` = dimension. -/
def parseFn (n : Nat) (needInv : Bool) : Nat → List String → Option (QFn × List String)
  | 0, _ => none
  | fuel + 1, toks =>
    let vec (s : String) : Option (List Rat) := do
      let v ← parseRatList s
      if v.length = n then some v else none
    let sqmat (s : String) : Option (List (List Rat)) := do
      let m ← parseRatMat s
      if m.length = n && m.all (·.length = n) then some m else none
    match toks with
    | "l1" :: r => some (.coord .l1, r)
    | "indlinf" :: r => some (.coord .indLinf, r)
    | "huber" :: g :: r => do let γ ← parseRat g; some (.coord (.huber γ), r)
    | "l2sq" :: r => some (.l2sq, r)
    | "const" :: c :: r => do let c ← parseRat c; some (.const c, r)
    | "indzero" :: c :: r => do let c ← parseRat c; some (.indZero c, r)
    | "lin" :: b :: c :: r => do let b ← vec b; let c ← parseRat c; some (.lin b c, r)
    | "quad" :: m :: mt :: mi :: hb :: b :: c :: r => do
        let M ← sqmat m
        let Mt ← sqmat mt
        let hasB ← (match hb with | "1" => some true | "0" => some false | _ => none)
        let b ← vec b
        let c ← parseRat c
        if mi = "-" then
          if needInv then none
          -- inverse unknown: value / gradient / grad_lipschitz only (placeholders never read)
          some (.quad (matVec M) (matVec Mt) (fun x => x) (fun x => x) hasB b c, r)
        else
          let Mi ← sqmat mi
          if !(isIdentity (matMul M Mi)) then none
          let Mit := transposeN n Mi
          some (.quad (matVec M) (matVec Mt) (matVec Mi) (matVec Mit) hasB b c, r)
    | "lscal" :: s :: r => do
        let s ← parseRat s; let (f, r') ← parseFn n needInv fuel r; some (.lscal s f, r')
    | "rscal" :: s :: r => do
        let s ← parseRat s; let (f, r') ← parseFn n needInv fuel r; some (.rscal f s, r')
    | "rvec" :: v :: r => do
        let v ← vec v; let (f, r') ← parseFn n needInv fuel r
        if v.any (· = 0) then none
        some (.rvec f v (v.map (1 / ·)), r')
    | "sum" :: r => do
        let (f, r1) ← parseFn n needInv fuel r; let (g, r2) ← parseFn n needInv fuel r1; some (.sum f g, r2)
    | "ssum" :: c :: r => do
        let c ← parseRat c; let (f, r') ← parseFn n needInv fuel r; some (.ssum f c, r')
    | "trans" :: t :: r => do
        let t ← vec t; let (f, r') ← parseFn n needInv fuel r; some (.trans f t, r')
    | "qp" :: a :: hu :: u :: c :: r => do
        let a ← parseRat a
        let hasU ← (match hu with | "1" => some true | "0" => some false | _ => none)
        let u ← vec u
        let c ← parseRat c
        let (f, r') ← parseFn n needInv fuel r
        some (.qp f a hasU u c, r')
    | "prod" :: r => do
        let (f, r1) ← parseFn n needInv fuel r; let (g, r2) ← parseFn n needInv fuel r1; some (.prod f g, r2)
    | "quot" :: r => do
        let (f, r1) ← parseFn n needInv fuel r; let (g, r2) ← parseFn n needInv fuel r1; some (.quot f g, r2)
    | "breg" :: p :: q :: r => do
        let p ← vec p; let q ← vec q; let (f, r') ← parseFn n needInv fuel r; some (.breg f p q, r')
    | "infconv" :: r => do
        let (f, r1) ← parseFn n needInv fuel r; let (g, r2) ← parseFn n needInv fuel r1; some (.infconv f g, r2)
    | "compmat" :: m :: mt :: r => do
        let M ← sqmat m
        let Mt ← sqmat mt
        let (f, r') ← parseFn n needInv fuel r
        some (.comp f (matVec M) (fun _ y => matVec Mt y) true, r')
    | "compscale" :: s :: r => do
        let s ← parseRat s; let (f, r') ← parseFn n needInv fuel r
        some (.comp f (List.map (s * ·)) (fun _ y => y.map (s * ·)) true, r')
    | "compmul" :: v :: r => do
        let v ← vec v; let (f, r') ← parseFn n needInv fuel r
        some (.comp f (List.zipWith (· * ·) v) (fun _ y => List.zipWith (· * ·) v y) true, r')
    | "comppow" :: p :: r => do
        let p ← p.toNat?
        if p = 0 then none
        let (f, r') ← parseFn n needInv fuel r
        some (.comp f (List.map (powN · p))
          (fun x y => List.zipWith (fun xi yi => (p : Rat) * powN xi (p - 1) * yi) x y) false, r')
    | "dconj" :: r => do
        let (f, r') ← parseFn n needInv fuel r; some (.dconj f, r')
    | "menv" :: s :: r => do
        let σ ← parseRat s
        if σ ≤ 0 then none
        let (f, r') ← parseFn n needInv fuel r
        match f with
        -- the proximals are C07's coded formulas (`ProximalL1`, `ProximalL2Squared`, no data term)
        | .coord .l1 => some (.menv f (List.map (fun x => OdlModel.Prox.softCode σ x 0)) σ, r')
        | .l2sq => some (.menv f (List.map (fun x => OdlModel.Prox.l2sqCode 1 σ x 0)) σ, r')
        | _ => none
    | _ => none

/-- Parse the `f=` and `w=` arguments of a line: `(ops, expression, n)`. -/
def parseCase (l : Line) (needInv : Bool) : Option (VecOps (List Rat) Rat × QFn × Nat) := do
  let w ← l.rats? "w"
  if w.isEmpty then none
  let fs ← l.get? "f"
  let (f, rest) ← parseFn w.length needInv 64 (fs.splitOn "|")
  if !rest.isEmpty then none
  some (listOps w, f, w.length)

def vecArg (l : Line) (k : String) (n : Nat) : Option (List Rat) := do
  let v ← l.rats? k
  if v.length = n then some v else none

def showLip : Lip Rat → String
  | .nan => "nan"
  | .inf => "inf"
  | .fin r roots =>
      let rs := roots.filter (fun cq => cq.1 ≠ 0 && cq.2 ≠ 0)
      let body := if rs.isEmpty then "-" else
        ";".intercalate (rs.map fun cq => s!"{showRat cq.1}:{showRat cq.2}")
      s!"fin r={showRat r} roots={body}"

/-- `f(x)` on the wire: `noeval`, `inf` or the rational. -/
def showValue (o : VecOps (List Rat) Rat) (f : QFn) (x : List Rat) : String :=
  if !f.evaluable then "noeval"
  else if !f.dom o x then "inf"
  else showRat (f.value o x)

end OdlModel.Functionals
